(* Non-trivial proposals of the rewrites of Model/OracleRw.v, by computation.
   The proposals of the string examples are the ones the implementation gives
   (harness/morecorr3.py compares them on every run). *)
From DD Require Import Model.OracleRw.
Local Open Scope list_scope.
Local Open Scope string_scope.

(* a string literal token with the given content *)
Definition sl (content : string) : sexp := L (quote (lit content)).
Definition ap (h : string) (args : list sexp) : sexp := T (lf h :: args).

Example ex_arith_strengthen :
  rw_arith_strengthen (ap "<=" [lf "i"; lf "j"; lf "k"]) = Some [ap "<" [lf "i"; lf "j"; lf "k"]; ap "=" [lf "i"; lf "j"; lf "k"]] /\
  rw_arith_strengthen (ap "distinct" [lf "i"; lf "j"]) = Some [ap "=" [lf "i"; lf "j"]] /\
  rw_arith_strengthen (ap ">" []) = Some [lf "="] /\
  rw_arith_strengthen (ap "=" [lf "i"; lf "j"]) = Some [].
Proof. vm_compute. repeat split. Qed.

Example ex_bool_xor_const :
  rw_bool_xor_const (ap "xor" [lf "p"; lf "true"; lf "q"; lf "false"]) =
    Some [ap "xor" [lf "p"; lf "true"; lf "q"];
          ap "xor" [lf "p"; lf "q"; lf "false"];
          ap "not" [ap "xor" [lf "p"; lf "q"; lf "false"]]] /\
  rw_bool_xor_const (ap "xor" [lf "true"; lf "true"]) = Some [T [lf "xor"]; ap "not" [T [lf "xor"]]] /\
  rw_bool_xor_const (ap "xor" [lf "p"; lf "q"]) = Some [].
Proof. vm_compute. repeat split. Qed.

Example ex_fp_short_sort :
  rw_fp_short_sort (T [lf "_"; lf "FloatingPoint"; lf "8"; lf "24"]) = Some [lf "Float32"] /\
  rw_fp_short_sort (T [lf "_"; lf "FloatingPoint"; lf "15"; lf "113"]) = Some [lf "Float128"] /\
  rw_fp_short_sort (T [lf "_"; lf "FloatingPoint"; lf "5"; lf "24"]) = Some [] /\
  rw_fp_short_sort (T [lf "_"; lf "FloatingPoint"; lf "08"; lf "24"]) = Some [] /\
  rw_fp_short_sort (lf "Float32") = Some [].
Proof. vm_compute. repeat split. Qed.

(* the sections of the binary search, then the content without its first and without its last character; a cut that
   would leave a single double quote is dropped *)
Example ex_str_simp_const :
  rw_str_simp_const (sl "abcdefgh") =
    Some [sl ""; sl "abcd"; sl "efgh"; sl "abcdef"; sl "abcdgh"; sl "abefgh"; sl "cdefgh"; sl "bcdefgh"; sl "abcdefg"] /\
  rw_str_simp_const (sl "a""""b") = Some [sl ""; sl """""b"; sl "a"""""] /\
  rw_str_simp_const (sl "") = Some [] /\
  rw_str_simp_const (lf "abc") = Some [] /\
  rw_str_simp_const (L []) = None.
Proof. vm_compute. repeat split. Qed.

(* escape sequences: a cut that starts at most 8 characters after a backslash starts at the backslash instead -- in a
   content of 8 characters or more only when the cut starts at index 8 or later (first line: the cut [10, 21) starts at
   8); the first sections of a shorter content cut through the sequence (second line) *)
Example ex_str_simp_const_escapes :
  (exists r, rw_str_simp_const (sl "abcdefgh\u{41}ijklmnop") = Some (sl "" :: sl "abcdefgh" :: sl "41}ijklmnop" :: r)) /\
  rw_str_simp_const (sl "ab\u{41}") =
    Some [sl ""; sl "ab\u"; sl "{41}"; sl "ab\u{4"; sl "ab\u1}"; sl "ab{41}"; sl "\u{41}"; sl "b\u{41}"; sl "ab\u{41"] /\
  (exists r, rw_str_simp_const (sl "\u{10FFFF}") = Some (sl "" :: sl "\u{10" :: sl "FFFF}" :: r)).
Proof. vm_compute. repeat split; eexists; reflexivity. Qed.

(* the tables of
     (declare-datatype Pair ((mk (fst Int) (snd Bool)) (mk3 (a1 Int) (a2 Int) (a3 Color)) (none))) *)
Definition ex_sels : list (sexp * (sexp * nat)) :=
  [(lf "fst", (lf "mk", 0)); (lf "snd", (lf "mk", 1)); (lf "a1", (lf "mk3", 0)); (lf "a2", (lf "mk3", 1)); (lf "a3", (lf "mk3", 2))].
Definition ex_ctors : list sexp := [lf "mk"; lf "mk3"; lf "none"].
Example ex_dt_identity :
  rw_dt_identity ex_sels ex_ctors (ap "a3" [ap "mk3" [lf "1"; lf "2"; lf "c"]]) = Some [lf "c"] /\
  rw_dt_identity ex_sels ex_ctors (ap "snd" [ap "mk" [lf "i"; ap "not" [lf "b"]]]) = Some [ap "not" [lf "b"]] /\
  rw_dt_identity ex_sels ex_ctors (ap "fst" [ap "mk3" [lf "1"; lf "2"; lf "c"]]) = Some [] /\
  rw_dt_identity ex_sels ex_ctors (ap "a3" [ap "mk3" [lf "1"; lf "2"]]) = Some [] /\
  rw_dt_identity ex_sels ex_ctors (ap "fst" [lf "p"]) = Some [].
Proof. vm_compute. repeat split. Qed.

Definition bvc (n w : string) : sexp := T [lf "_"; lf n; lf w].
Example ex_constants :
  rw_constants false (Some (lf "Int")) (Some [lf "0"; lf "1"]) (ap "+" [lf "i"; lf "7"]) = Some [lf "0"; lf "1"] /\
  rw_constants false (Some (lf "Int")) (Some [lf "0"; lf "1"]) (lf "1") = Some [] /\
  rw_constants false (Some (T [lf "_"; lf "BitVec"; lf "8"])) (Some [bvc "bv0" "8"; bvc "bv1" "8"]) (lf "#x00") = Some [bvc "bv0" "8"; bvc "bv1" "8"] /\
  rw_constants true (Some (lf "Int")) (Some [lf "0"; lf "1"]) (lf "x") = Some [] /\
  rw_constants false None None (lf "x") = Some [] /\
  rw_constants false (Some (T [lf "_"; lf "FloatingPoint"; lf "5"; lf "b"])) None (lf "x") = None.
Proof. vm_compute. repeat split. Qed.

(* variables in the order of their declarations; the leaf m is replaced by greater names (inc) or smaller names (dec:
   capital letters come first), a compound term by every variable, a constant by none *)
Definition ex_vars : list str := map lit ["m"; "a"; "z"; "B"; "ma"; "lz"].
Example ex_replace_by_var :
  rw_replace_by_var true false (Some (lf "Int")) ex_vars (lf "m") = Some [lf "z"; lf "ma"] /\
  rw_replace_by_var false false (Some (lf "Int")) ex_vars (lf "m") = Some [lf "a"; lf "B"; lf "lz"] /\
  rw_replace_by_var true false (Some (lf "Int")) ex_vars (ap "+" [lf "m"; lf "1"]) = Some (map L ex_vars) /\
  rw_replace_by_var true false (Some (lf "Real")) ex_vars (ap "/" [lf "1"; lf "2"]) = Some [] /\
  rw_replace_by_var true false (Some (lf "Real")) ex_vars (ap "/" [lf "m"; lf "2"]) = Some (map L ex_vars) /\
  rw_replace_by_var false false (Some (lf "Int")) ex_vars (lf "7") = Some [] /\
  rw_replace_by_var true true (Some (lf "Int")) ex_vars (lf "m") = Some [] /\
  rw_replace_by_var true false None ex_vars (lf "m") = Some [] /\
  rw_replace_by_var true false (Some (lf "Int")) ex_vars (L []) = None.
Proof. vm_compute. repeat split. Qed.

(* code points, not UTF-16 units: U+FF5E precedes U+1D4B3 *)
Example ex_str_ltb_code_points :
  str_ltb [65374%N] [119987%N] = true /\ str_ltb (lit "x1") (lit "x10") = true /\ str_ltb (lit "x10") (lit "x2") = true /\
  str_ltb (lit "Z") (lit "a") = true /\ str_ltb (lit "a") (lit "a") = false /\ str_ltb [] (lit "a") = true.
Proof. vm_compute. repeat split. Qed.
