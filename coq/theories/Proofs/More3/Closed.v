(* Closure of the rewrites of Model/OracleRw.v: every replacement of a
   well-formed node (Spec/StdReader.v) is well formed, provided the oracle
   values that end up in a replacement (the default constants of Constants, the
   variable names of ReplaceByVariable) are.  StringSimplifyConstant is in
   Proofs/More3/Strings.v. *)
From DD Require Import Model.OracleRw Spec.StdReader Proofs.Closure.Atoms Proofs.Closure.RwClosed.
Local Open Scope list_scope.

(* ---- ArithmeticStrengthenRelation ---- *)
Lemma strengthen_leaves h rels r : strengthen h = Some rels -> In r rels -> leaf_ok (lit r) = true.
Proof.
  unfold strengthen. intros H Hr.
  repeat match type of H with (if ?c then _ else _) = _ => destruct c end;
    try discriminate; injection H as <-; cbn [In] in Hr;
    repeat (destruct Hr as [<- | Hr]; [reflexivity|]); destruct Hr.
Qed.

Theorem rw_arith_strengthen_closed : closed_rw rw_arith_strengthen.
Proof.
  intros e l e' Hw HR Hin. unfold rw_arith_strengthen in HR.
  destruct e as [s|[|[h|?] args]]; try (injection HR as <-; destruct Hin).
  destruct (strengthen h) as [rels|] eqn:Es; injection HR as <-; [|destruct Hin].
  apply in_map_iff in Hin as (r & <- & Hr). wf_split.
  apply wf_node_of; [eapply strengthen_leaves; eassumption|assumption].
Qed.

(* ---- BoolXORRemoveConstant ---- *)
Lemma xor_props_wf l e' :
  forallb wf l = true ->
  In e' ((if existsb (is_lf "false") l then [T (without "false" l)] else []) ++
         (if existsb (is_lf "true") l then [T (without "true" l); T [lf "not"; T (without "true" l)]] else [])) ->
  wf e' = true.
Proof.
  intros Hw Hin.
  assert (Hf : forall x, wf (T (without x l)) = true)
    by (intro x; cbn [wf]; unfold without; now apply forallb_filter_wf).
  apply in_app_or in Hin as [Hin | Hin].
  - destruct (existsb (is_lf "false") l); in_split. apply Hf.
  - destruct (existsb (is_lf "true") l); in_split; [apply Hf|].
    cbn [wf forallb]. rewrite andb_true_r. apply andb_true_intro. split; [reflexivity|apply Hf].
Qed.

Theorem rw_bool_xor_const_closed : closed_rw rw_bool_xor_const.
Proof.
  intros e l e' Hw HR Hin. unfold rw_bool_xor_const in HR.
  destruct e as [s|[|[h|?] args]]; try (injection HR as <-; destruct Hin).
  destruct (iss h "xor"); injection HR as <-; [|destruct Hin].
  cbn [wf] in Hw. exact (xor_props_wf (L h :: args) e' Hw Hin).
Qed.

(* ---- FPShortSort ---- *)
Theorem rw_fp_short_sort_closed : closed_rw rw_fp_short_sort.
Proof.
  intros e l e' _ HR Hin. unfold rw_fp_short_sort in HR.
  destruct (is_fp_sort_long e); [|injection HR as <-; destruct Hin].
  destruct e as [s|[|x0 [|x1 [|a [|b [|? ?]]]]]]; try (injection HR as <-; destruct Hin).
  match type of HR with (match find ?f ?t with _ => _ end) = _ => destruct (find f t) as [p|] eqn:Ef end;
    injection HR as <-; [|destruct Hin].
  destruct Hin as [<- | []]. apply find_some in Ef as [Hp _].
  unfold fp_short_table in Hp. cbn [In] in Hp.
  repeat (destruct Hp as [<- | Hp]; [reflexivity|]). destruct Hp.
Qed.

(* ---- RemoveDatatypeIdentity: the replacement is an argument of the constructor application ---- *)
Theorem rw_dt_identity_closed sels ctors : closed_rw (rw_dt_identity sels ctors).
Proof.
  intros e l e' Hw HR Hin. unfold rw_dt_identity in HR.
  destruct e as [s|[|[s|?] [|c [|? ?]]]]; try (injection HR as <-; destruct Hin).
  destruct (slookup (L s) sels) as [[cname idx]|]; [|injection HR as <-; destruct Hin].
  destruct c as [?|[|[ch|?] cargs]]; try (injection HR as <-; destruct Hin).
  destruct (existsb (sexp_eqb (L ch)) ctors && sexp_eqb cname (L ch)); injection HR as <-; [|destruct Hin].
  destruct (nth_error cargs idx) as [x|] eqn:En; in_split.
  apply nth_error_In in En. wf_split.
  match goal with H : forallb wf cargs = true |- _ => rewrite forallb_forall in H; now apply H end.
Qed.

(* ---- Constants: the replacements are the default constants ---- *)
Theorem rw_constants_closed isdef sort dc :
  (forall res, dc = Some res -> forallb wf res = true) -> closed_rw (rw_constants isdef sort dc).
Proof.
  intros Hdc e l e' _ HR Hin. unfold rw_constants in HR.
  destruct isdef; [injection HR as <-; destruct Hin|].
  destruct sort; [|injection HR as <-; destruct Hin].
  destruct dc as [res|]; [|discriminate].
  destruct (existsb (sexp_eqb e) res); injection HR as <-; [destruct Hin|].
  specialize (Hdc res eq_refl). rewrite forallb_forall in Hdc. now apply Hdc.
Qed.

(* ---- ReplaceByVariable: the replacements are names of variables ---- *)
Theorem rw_replace_by_var_closed inc isdef sort vars :
  forallb leaf_ok vars = true -> closed_rw (rw_replace_by_var inc isdef sort vars).
Proof.
  intros Hv e l e' _ HR Hin. unfold rw_replace_by_var in HR.
  destruct (is_const e) as [[|]|]; try discriminate; [injection HR as <-; destruct Hin|].
  destruct isdef; [injection HR as <-; destruct Hin|].
  destruct sort; injection HR as <-; [|destruct Hin].
  apply in_map_iff in Hin as (v & <- & Hin). cbn [wf]. rewrite forallb_forall in Hv. apply Hv.
  destruct e; [now apply filter_In in Hin as [Hin _]|exact Hin].
Qed.
