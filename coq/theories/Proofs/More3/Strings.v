(* StringSimplifyConstant (Model/OracleRw.v): every proposed leaf is again a
   string literal token of the standard reader (Spec/StdReader.v), whatever the
   node was; on a well-formed literal every proposal is strictly shorter. *)
From DD Require Import Model.OracleRw Spec.StdReader Proofs.Closure.Atoms Proofs.Closure.RwClosed
  Proofs.Core.Names Proofs.Core.Size.
From Coq Require Import Lia.
Local Open Scope list_scope.

(* ---- __is_closed is the reader's test of a literal's body ---- *)
Lemma closed_body_aux n : forall s, length s <= n ->
  existsb (N.eqb cDQ) (replace_from [cDQ; cDQ] [] 0 s) = negb (strbody_ok s).
Proof.
  induction n as [|n IH]; intros s Hn.
  - destruct s; [reflexivity|cbn [length] in Hn; lia].
  - destruct s as [|c tl]; [reflexivity|]. cbn [length] in Hn.
    cbn [replace_from prefixb strbody_ok]. rewrite (N.eqb_sym cDQ c).
    destruct (N.eqb c cDQ) eqn:Ec.
    + destruct tl as [|d tl'].
      * cbn [andb existsb orb]. now rewrite N.eqb_sym, Ec.
      * cbn [prefixb]. rewrite (N.eqb_sym cDQ d). destruct (N.eqb d cDQ) eqn:Ed.
        -- cbn [andb app length Nat.sub replace_from]. apply IH. cbn [length] in Hn. lia.
        -- cbn [andb existsb]. now rewrite N.eqb_sym, Ec.
    + cbn [andb existsb]. rewrite N.eqb_sym, Ec. cbn [orb]. apply IH. lia.
Qed.

Theorem is_closed_strbody s : is_closed s = strbody_ok s.
Proof.
  unfold is_closed, replace_all. rewrite (closed_body_aux (length s) s (le_n _)). apply negb_involutive.
Qed.

Lemma strlit_quote s : strlit_ok (quote s) = strbody_ok s.
Proof.
  unfold quote, strlit_ok. rewrite N.eqb_refl, rev_unit, N.eqb_refl, rev_involutive. reflexivity.
Qed.

Lemma strlit_leaf s : strlit_ok s = true -> leaf_ok s = true.
Proof. intro H. unfold leaf_ok. rewrite H. now rewrite orb_true_r. Qed.

Lemma empty_strlit_ok : strlit_ok empty_strlit = true.
Proof. reflexivity. Qed.

(* every proposal is a leaf that the standard reader reads back as one string literal *)
Theorem str_simp_const_strlit e l e' :
  rw_str_simp_const e = Some l -> In e' l -> exists t, e' = L t /\ strlit_ok t = true.
Proof.
  intros HR Hin. destruct e as [[|c tl]|?]; cbn [rw_str_simp_const] in HR; try discriminate;
    [|injection HR as <-; destruct Hin].
  destruct (is_string_const_leaf (c :: tl) && negb (str_eqb (c :: tl) empty_strlit));
    injection HR as <-; [|destruct Hin].
  destruct Hin as [<- | Hin]; [exists empty_strlit; split; reflexivity|].
  apply in_map_iff in Hin as (cand & <- & Hc). apply filter_In in Hc as [_ Hc].
  exists (quote cand). split; [reflexivity|]. now rewrite strlit_quote, <- is_closed_strbody.
Qed.

Theorem rw_str_simp_const_closed : closed_rw rw_str_simp_const.
Proof.
  intros e l e' _ HR Hin. destruct (str_simp_const_strlit e l e' HR Hin) as (t & -> & Ht).
  cbn [wf]. now apply strlit_leaf.
Qed.

(* ---- lengths ---- *)
Local Open Scope Z_scope.
Lemma rfind_aux_range c s : forall i0 lo hi acc r,
  rfind_aux c s i0 lo hi acc = r -> r = acc \/ (lo <= r /\ r < hi).
Proof.
  induction s as [|x s IH]; intros i0 lo hi acc r H; cbn [rfind_aux] in H; [now left|].
  apply IH in H. destruct H as [H | H]; [|now right].
  destruct (Z.leb lo i0 && Z.ltb i0 hi && N.eqb x c) eqn:E; [|now left].
  apply andb_true_iff in E as [E _]. apply andb_true_iff in E as [E1 E2].
  apply Z.leb_le in E1. apply Z.ltb_lt in E2. right. lia.
Qed.

Lemma adj_start_nonneg len a : 0 <= adj_start len a.
Proof. unfold adj_start. destruct (Z.ltb a 0) eqn:E; [lia|apply Z.ltb_ge in E; lia]. Qed.

(* the cut never starts after the section's start *)
Lemma fix_escape_range s e : 0 <= e -> 0 <= fix_escape s e <= e.
Proof.
  intro He. unfold fix_escape, py_rfind.
  destruct (rfind_aux_range cBSL s 0 (adj_start (Z.of_nat (length s)) (e - 8)) e (-1) _ eq_refl) as [H | H].
  - rewrite H. cbn. lia.
  - pose proof (adj_start_nonneg (Z.of_nat (length s)) (e - 8)).
    destruct (Z.eqb _ (-1)); lia.
Qed.
Local Close Scope Z_scope.

Lemma cut_section_shorter content a b :
  In (a, b) (binary_search (length content)) -> length (cut_section content (a, b)) < length content.
Proof.
  intro Hin. apply binary_search_range in Hin. unfold cut_section. cbn [fst snd].
  pose proof (fix_escape_range content a (proj1 Hin)) as Hf.
  rewrite app_length, firstn_length, skipn_length. lia.
Qed.

Lemma str_cands_shorter content cand :
  content <> [] -> In cand (str_cands content) -> length cand < length content.
Proof.
  intros Hne Hin. unfold str_cands in Hin. apply in_app_or in Hin as [Hin | Hin].
  - apply in_map_iff in Hin as ([a b] & <- & Hab). now apply cut_section_shorter.
  - assert (0 < length content) by (destruct content; [congruence|cbn [length]; lia]).
    destruct Hin as [<- | [<- | []]]; [rewrite tl_len|rewrite removelast_len]; lia.
Qed.

(* a leaf that the filter accepts and that has at least two characters has at least three *)
Lemma accepted_long s :
  2 <= length s -> is_string_const_leaf s && negb (str_eqb s empty_strlit) = true -> 3 <= length s.
Proof.
  intros H2 H. apply andb_true_iff in H as [H1 H3].
  destruct s as [|c [|d [|x r]]]; cbn [length] in *; try lia.
  exfalso. cbn [is_string_const_leaf last] in H1. apply andb_true_iff in H1 as [Hc Hd].
  apply N.eqb_eq in Hc, Hd. subst. discriminate H3.
Qed.

Theorem str_simp_const_shorter s l t :
  2 <= length s -> rw_str_simp_const (L s) = Some l -> In (L t) l -> length t < length s.
Proof.
  intros H2 HR Hin. destruct s as [|c tl]; [cbn [length] in H2; lia|]. cbn [rw_str_simp_const] in HR.
  destruct (is_string_const_leaf (c :: tl) && negb (str_eqb (c :: tl) empty_strlit)) eqn:Ef;
    injection HR as <-; [|destruct Hin].
  pose proof (accepted_long _ H2 Ef) as H3.
  destruct Hin as [E | Hin]; [injection E as <-; cbn [length empty_strlit] in *; lia|].
  apply in_map_iff in Hin as (cand & E & Hc). injection E as <-. apply filter_In in Hc as [Hc _].
  assert (Hlen : length (removelast tl) = length tl - 1) by apply removelast_len.
  apply str_cands_shorter in Hc.
  - unfold quote. cbn [length] in *. rewrite app_length. cbn [length]. lia.
  - intro E. rewrite E in Hlen. cbn [length] in *. lia.
Qed.

(* a well-formed leaf that starts with a double quote is a string literal: it has two characters at least *)
Lemma wf_quote_leaf_long s : leaf_ok s = true -> is_string_const_leaf s = true -> 2 <= length s.
Proof.
  intros Hw Hs. destruct s as [|c tl]; [discriminate|]. cbn [is_string_const_leaf] in Hs.
  apply andb_true_iff in Hs as [Hc _]. apply N.eqb_eq in Hc. subst c.
  destruct tl as [|d r]; [|cbn [length]; lia]. discriminate Hw.
Qed.

Theorem str_simp_const_shorter_wf s l t :
  wf (L s) = true -> rw_str_simp_const (L s) = Some l -> In (L t) l -> length t < length s.
Proof.
  intros Hw HR Hin. cbn [wf] in Hw.
  destruct s as [|c tl]; [discriminate|].
  destruct (is_string_const_leaf (c :: tl)) eqn:Es.
  - eapply str_simp_const_shorter; [|exact HR|exact Hin]. now apply wf_quote_leaf_long.
  - cbn [rw_str_simp_const] in HR. rewrite Es in HR. injection HR as <-. destruct Hin.
Qed.

(* the hypothesis is needed: the one-character leaf made of a double quote (no reader produces it) is accepted by the
   filter, and the proposals are longer than the node *)
Example str_simp_const_lone_quote :
  rw_str_simp_const (L [cDQ]) = Some [L empty_strlit; L empty_strlit; L empty_strlit].
Proof. vm_compute. reflexivity. Qed.
