(* The scanner automaton of Model.Lexer reads a rendering of a lexeme sequence
   (Spec.StdReader) lexeme by lexeme: master lemma [parse_render], its link to
   [structure], and the two C08 theorems. *)
From DD Require Import Model.Lexer Spec.StdReader.

(* ---------- token-level semantics ---------- *)

Definition lex_step (s : st) (x : lexeme) : st :=
  match x with
  | LPar => mkst (out s) ([] :: stack s) MTop
  | RPar => close s
  | Tok t => emit (L t) s
  end.

(* ---------- generic facts ---------- *)

Lemma run_cons c t s : run (c :: t) s = run t (step s c).
Proof. reflexivity. Qed.

Lemma run_app a b s : run (a ++ b) s = run b (run a s).
Proof. unfold run. apply fold_left_app. Qed.

Lemma run_nil s : run [] s = s.
Proof. reflexivity. Qed.

Lemma forallb_rev {A} (f : A -> bool) l : forallb f (rev l) = forallb f l.
Proof.
  induction l as [|x l IH]; [reflexivity|].
  cbn [rev forallb]. rewrite forallb_app, IH. cbn [forallb].
  rewrite andb_true_r. apply andb_comm.
Qed.

Lemma md_emit x s : md (emit x s) = MTop.
Proof. unfold emit. destruct (stack s); reflexivity. Qed.

Lemma md_close s : md (close s) = MTop.
Proof. unfold close. destruct (stack s); [reflexivity|apply md_emit]. Qed.

Lemma md_lex_step s x : md (lex_step s x) = MTop.
Proof. destruct x; [reflexivity|apply md_close|apply md_emit]. Qed.

Lemma emit_md x o k m m' : emit x (mkst o k m) = emit x (mkst o k m').
Proof. reflexivity. Qed.

Lemma finish_top s : md s = MTop -> finish s = rev (out s).
Proof. intros H. unfold finish. rewrite H. reflexivity. Qed.

(* ---------- character facts ---------- *)

Lemma is_ws_cases c : is_ws c = true -> c = cSP \/ c = cTAB \/ c = cLF \/ c = cCR.
Proof.
  unfold is_ws. rewrite !orb_true_iff, !N.eqb_eq. tauto.
Qed.

Lemma atom_char_inv c : atom_char c = true ->
  is_ws c = false /\ is_brk c = false /\ N.eqb c cDQ = false /\ N.eqb c cBAR = false.
Proof. unfold atom_char. rewrite negb_true_iff, !orb_false_iff. tauto. Qed.

Lemma is_brk_inv c : is_brk c = false ->
  N.eqb c cLP = false /\ N.eqb c cRP = false /\ N.eqb c cSEMI = false.
Proof. unfold is_brk. rewrite !orb_false_iff. tauto. Qed.

Lemma step_top_ws o k c : is_ws c = true -> step_top (mkst o k MTop) c = mkst o k MTop.
Proof.
  intros H. apply is_ws_cases in H.
  destruct H as [ -> | [ -> | [ -> | -> ] ] ]; reflexivity.
Qed.

Lemma step_top_atom o k m c : atom_char c = true ->
  step_top (mkst o k m) c = mkst o k (MTok [c]).
Proof.
  intros H. apply atom_char_inv in H. destruct H as (Hws & Hbrk & Hdq & Hbar).
  apply is_brk_inv in Hbrk. destruct Hbrk as (Hlp & Hrp & Hsemi).
  unfold step_top. rewrite Hdq, Hbar, Hsemi, Hlp, Hrp, Hws. reflexivity.
Qed.

Lemma step_ws s c : md s = MTop -> is_ws c = true -> step s c = s.
Proof.
  destruct s as [o k m]. cbn [md]. intros -> H.
  unfold step. cbn [md]. now apply step_top_ws.
Qed.

Lemma run_ws w : forall s, md s = MTop -> ws_ok w = true -> run w s = s.
Proof.
  induction w as [|c w IH]; intros s Hmd Hw; [reflexivity|].
  unfold ws_ok in Hw. cbn [forallb] in Hw. apply andb_true_iff in Hw. destruct Hw as [Hc Hw].
  rewrite run_cons, step_ws by assumption. now apply IH.
Qed.

Lemma step_emit x s c : step (emit x s) c = step_top (emit x s) c.
Proof. unfold step. rewrite md_emit. reflexivity. Qed.

Lemma step_emit_ws x s c : is_ws c = true -> step (emit x s) c = emit x s.
Proof. intros H. apply step_ws; [apply md_emit|assumption]. Qed.

(* ---------- decomposition of the delimited leaf classes ---------- *)

Lemma delim_inv (a z : char) (P : str -> bool) (t : str) :
  match t with
  | c :: tl => N.eqb c a &&
      match rev tl with
      | d :: br => N.eqb d z && P br
      | [] => false
      end
  | [] => false
  end = true ->
  exists br, t = a :: rev br ++ [z] /\ P br = true.
Proof.
  destruct t as [|c tl]; [discriminate|].
  intros H. apply andb_true_iff in H. destruct H as [Hc H].
  apply N.eqb_eq in Hc. subst c.
  destruct (rev tl) as [|d br] eqn:E; [discriminate|].
  apply andb_true_iff in H. destruct H as [Hd HP].
  apply N.eqb_eq in Hd. subst d.
  exists br. split; [|assumption].
  rewrite <- (rev_involutive tl), E. reflexivity.
Qed.

Lemma strlit_inv t : strlit_ok t = true ->
  exists body, t = cDQ :: body ++ [cDQ] /\ strbody_ok body = true.
Proof.
  intros H. unfold strlit_ok in H.
  apply (delim_inv cDQ cDQ (fun br => strbody_ok (rev br))) in H.
  destruct H as (br & -> & H). exists (rev br). split; [reflexivity|assumption].
Qed.

Lemma qsym_inv t : qsym_ok t = true ->
  exists body, t = cBAR :: body ++ [cBAR] /\
               forallb (fun x => negb (N.eqb x cBAR)) body = true.
Proof.
  intros H. unfold qsym_ok in H.
  apply (delim_inv cBAR cBAR (fun br => forallb (fun x => negb (N.eqb x cBAR)) br)) in H.
  destruct H as (br & -> & H). exists (rev br). split; [reflexivity|].
  now rewrite forallb_rev.
Qed.

(* a comment ends with its line-breaking character, LF or CR, and has none before *)
Lemma comment_inv t : comment_ok t = true ->
  exists body z, t = cSEMI :: body ++ [z] /\ is_lb z = true /\
                 forallb (fun x => negb (is_lb x)) body = true.
Proof.
  destruct t as [|c tl]; [discriminate|].
  cbn [comment_ok]. intros H. apply andb_true_iff in H. destruct H as [Hc H].
  apply N.eqb_eq in Hc. subst c.
  destruct (rev tl) as [|d br] eqn:E; [discriminate|].
  apply andb_true_iff in H. destruct H as [Hd HP].
  exists (rev br), d. split; [|split; [assumption|now rewrite forallb_rev]].
  rewrite <- (rev_involutive tl), E. reflexivity.
Qed.

Lemma atom_inv t : atom_ok_lib t = true ->
  exists a tl, t = a :: tl /\ atom_char a = true /\ forallb atom_char tl = true.
Proof.
  destruct t as [|a tl]; [discriminate|].
  unfold atom_ok_lib, atom_ok. cbn [forallb]. intros H. apply andb_true_iff in H.
  exists a, tl. tauto.
Qed.

(* ---------- running over the text of one leaf ---------- *)

Lemma run_atom_tl o k tl : forall acc, forallb atom_char tl = true ->
  run tl (mkst o k (MTok acc)) = mkst o k (MTok (rev tl ++ acc)).
Proof.
  induction tl as [|c tl IH]; intros acc H; [reflexivity|].
  cbn [forallb] in H. apply andb_true_iff in H. destruct H as [Hc H].
  apply atom_char_inv in Hc. destruct Hc as (Hws & Hbrk & Hdq & Hbar).
  rewrite run_cons. unfold step at 1. cbn [md out stack]. rewrite Hws, Hbrk, Hdq, Hbar. cbn [orb].
  rewrite IH by assumption. cbn [rev]. rewrite <- app_assoc. reflexivity.
Qed.

Lemma run_atom o k t : atom_ok_lib t = true ->
  run t (mkst o k MTop) = mkst o k (MTok (rev t)).
Proof.
  intros H. apply atom_inv in H. destruct H as (a & tl & -> & Ha & Htl).
  rewrite run_cons. unfold step at 1. cbn [md].
  rewrite step_top_atom by assumption.
  now rewrite run_atom_tl.
Qed.

Lemma run_strbody o k body : forall acc,
  (strbody_ok body = true ->
   run body (mkst o k (MLit cDQ acc)) = mkst o k (MLit cDQ (rev body ++ acc))) /\
  (forall tl, body = cDQ :: tl -> strbody_ok tl = true ->
   run body (mkst o k (MLitQ acc)) = mkst o k (MLit cDQ (rev body ++ acc))).
Proof.
  induction body as [|c body IH]; intros acc.
  - split; [reflexivity|discriminate].
  - split.
    + intros H. rewrite run_cons. unfold step at 1. cbn [md out stack].
      cbn [strbody_ok] in H.
      destruct (N.eqb_spec c cDQ) as [Hc|Hc].
      * subst c. rewrite N.eqb_refl.
        destruct body as [|d body']; [discriminate|].
        apply andb_true_iff in H. destruct H as [Hd H].
        apply N.eqb_eq in Hd. subst d.
        destruct (IH (cDQ :: acc)) as [_ IH2].
        etransitivity; [exact (IH2 body' eq_refl H)|].
        cbn [rev]. rewrite <- !app_assoc. reflexivity.
      * destruct (IH (c :: acc)) as [IH1 _].
        etransitivity; [exact (IH1 H)|].
        cbn [rev]. rewrite <- !app_assoc. reflexivity.
    + intros tl E H. injection E as -> ->.
      rewrite run_cons. unfold step at 1. cbn [md out stack].
      rewrite N.eqb_refl.
      destruct (IH (cDQ :: acc)) as [IH1 _].
      etransitivity; [exact (IH1 H)|].
      cbn [rev]. rewrite <- !app_assoc. reflexivity.
Qed.

Lemma run_strlit o k t : strlit_ok t = true ->
  run t (mkst o k MTop) = mkst o k (MLitQ (rev t)).
Proof.
  intros H. apply strlit_inv in H. destruct H as (body & -> & Hb).
  rewrite run_cons.
  change (step (mkst o k MTop) cDQ) with (mkst o k (MLit cDQ [cDQ])).
  rewrite run_app.
  destruct (run_strbody o k body [cDQ]) as [R _]. rewrite (R Hb).
  rewrite run_cons, run_nil. unfold step. cbn [md out stack].
  rewrite !N.eqb_refl.
  cbn [rev]. rewrite rev_app_distr. reflexivity.
Qed.

Lemma run_litbody o k (q : char) body : forall acc,
  forallb (fun x => negb (N.eqb x q)) body = true ->
  run body (mkst o k (MLit q acc)) = mkst o k (MLit q (rev body ++ acc)).
Proof.
  induction body as [|c body IH]; intros acc H; [reflexivity|].
  cbn [forallb] in H. apply andb_true_iff in H. destruct H as [Hc H].
  apply negb_true_iff in Hc.
  rewrite run_cons. unfold step at 1. cbn [md out stack]. rewrite Hc.
  rewrite IH by assumption. cbn [rev]. rewrite <- app_assoc. reflexivity.
Qed.

Lemma run_qsym o k t : qsym_ok t = true ->
  run t (mkst o k MTop) = emit (L t) (mkst o k MTop).
Proof.
  intros H. apply qsym_inv in H. destruct H as (body & -> & Hb).
  rewrite run_cons.
  change (step (mkst o k MTop) cBAR) with (mkst o k (MLit cBAR [cBAR])).
  rewrite run_app, run_litbody by assumption.
  rewrite run_cons, run_nil. unfold step. cbn [md out stack].
  rewrite N.eqb_refl. change (N.eqb cBAR cDQ) with false. cbv iota.
  rewrite (emit_md _ o k _ MTop). f_equal. f_equal.
  cbn [rev]. rewrite rev_app_distr, rev_involutive. reflexivity.
Qed.

Lemma run_combody o k body : forall acc,
  forallb (fun x => negb (is_lb x)) body = true ->
  run body (mkst o k (MCom acc)) = mkst o k (MCom (rev body ++ acc)).
Proof.
  induction body as [|c body IH]; intros acc H; [reflexivity|].
  cbn [forallb] in H. apply andb_true_iff in H. destruct H as [Hc H].
  apply negb_true_iff in Hc. unfold is_lb in Hc.
  rewrite run_cons. unfold step at 1. cbn [md out stack]. rewrite Hc.
  rewrite IH by assumption. cbn [rev]. rewrite <- app_assoc. reflexivity.
Qed.

Lemma run_comment o k t : comment_ok t = true ->
  run t (mkst o k MTop) = emit (L t) (mkst o k MTop).
Proof.
  intros H. apply comment_inv in H. destruct H as (body & z & -> & Hz & Hb).
  rewrite run_cons.
  change (step (mkst o k MTop) cSEMI) with (mkst o k (MCom [cSEMI])).
  rewrite run_app, run_combody by assumption.
  rewrite run_cons, run_nil. unfold step. cbn [md out stack].
  unfold is_lb in Hz. rewrite Hz.
  rewrite (emit_md _ o k _ MTop). f_equal. f_equal.
  cbn [rev]. rewrite rev_app_distr, rev_involutive. reflexivity.
Qed.

(* ---------- terminating characters ---------- *)

Definition term (x : lexeme) (c : char) : bool :=
  match x with
  | Tok (a :: _) =>
      if N.eqb a cDQ then negb (N.eqb c cDQ)
      else if N.eqb a cBAR || N.eqb a cSEMI then true
      else is_ws c || is_brk c || N.eqb c cDQ || N.eqb c cBAR
  | _ => true
  end.

Lemma term_ws x c : is_ws c = true -> term x c = true.
Proof.
  intros H. destruct x as [| |[|a t]]; try reflexivity.
  cbn [term]. rewrite H. cbn [orb].
  destruct (N.eqb a cDQ).
  - apply is_ws_cases in H. destruct H as [ -> | [ -> | [ -> | -> ] ] ]; reflexivity.
  - destruct (_ || _); reflexivity.
Qed.

Lemma term_brk x c : is_brk c = true -> term x c = true.
Proof.
  intros H. destruct x as [| |[|a t]]; try reflexivity.
  cbn [term]. rewrite H, orb_true_r. cbn [orb].
  destruct (N.eqb a cDQ).
  - unfold is_brk in H. rewrite !orb_true_iff, !N.eqb_eq in H.
    destruct H as [ [ -> | -> ] | -> ]; reflexivity.
  - destruct (_ || _); reflexivity.
Qed.

Lemma leaf_ok_cases t : leaf_ok t = true ->
  atom_ok_lib t = true \/ strlit_ok t = true \/ qsym_ok t = true \/ comment_ok t = true.
Proof. unfold leaf_ok. rewrite !orb_true_iff. tauto. Qed.

Lemma term_dq x c : N.eqb c cDQ = true ->
  match x with Tok (a :: _) => N.eqb a cDQ = false | _ => True end -> term x c = true.
Proof.
  intros H Hx. destruct x as [| |[|a t]]; try reflexivity.
  cbn [term]. rewrite Hx, H, !orb_true_r. destruct (_ || _); reflexivity.
Qed.

Lemma term_bar x c : N.eqb c cBAR = true -> term x c = true.
Proof.
  intros H. destruct x as [| |[|a t]]; try reflexivity.
  cbn [term]. rewrite H, !orb_true_r. apply N.eqb_eq in H. subst c.
  destruct (N.eqb a cDQ); [reflexivity|]. destruct (_ || _); reflexivity.
Qed.

Lemma may_touch_term x y c r :
  lex_ok x = true -> lex_ok y = true -> may_touch x y = true ->
  lex_text y = c :: r -> term x c = true.
Proof.
  intros Hx Hy Hm Ht.
  destruct x as [| |s]; try reflexivity.
  destruct y as [| |t].
  - injection Ht as <- <-. now apply term_brk.
  - injection Ht as <- <-. now apply term_brk.
  - cbn [lex_text] in Ht. subst t. cbn [may_touch] in Hm.
    rewrite !orb_true_iff, !andb_true_iff, !orb_true_iff in Hm.
    destruct Hm as [ [ [Hm|Hm] | [Hm Hc] ] | [Hm [ [Hc|Hc] | Hc] ] ].
    + apply comment_inv in Hm. destruct Hm as (b & z & -> & _). reflexivity.
    + apply qsym_inv in Hm. destruct Hm as (b & -> & _). reflexivity.
    + apply strlit_inv in Hm. destruct Hm as (b & -> & _). exact Hc.
    + (* atom, then a comment *)
      apply comment_inv in Hc. destruct Hc as (b & z & E & _).
      injection E as -> _. now apply term_brk.
    + (* atom, then a string literal: the atom ends before the quote *)
      apply strlit_inv in Hc. destruct Hc as (b & E & _).
      injection E as -> _. apply term_dq; [reflexivity|].
      apply atom_inv in Hm. destruct Hm as (a & tl & -> & Ha & _).
      apply atom_char_inv in Ha. tauto.
    + (* atom, then a quoted symbol: the atom ends before the bar *)
      apply qsym_inv in Hc. destruct Hc as (b & E & _).
      injection E as -> _. now apply term_bar.
Qed.

(* ---------- one lexeme ---------- *)

Lemma tok_run o k t c : leaf_ok t = true -> term (Tok t) c = true ->
  run (t ++ [c]) (mkst o k MTop) = step (emit (L t) (mkst o k MTop)) c.
Proof.
  intros Hl Ht. rewrite run_app, run_cons, run_nil.
  apply leaf_ok_cases in Hl. destruct Hl as [H|[H|[H|H]]].
  - rewrite run_atom by assumption.
    apply atom_inv in H. destruct H as (a & tl & -> & Ha & _).
    apply atom_char_inv in Ha. destruct Ha as (_ & Hbrk & Hdq & Hbar).
    apply is_brk_inv in Hbrk. destruct Hbrk as (_ & _ & Hsemi).
    cbn [term] in Ht. rewrite Hdq, Hbar, Hsemi in Ht. cbn [orb] in Ht.
    unfold step at 1. cbn [md]. rewrite rev_involutive.
    rewrite (emit_md _ o k _ MTop).
    destruct (is_ws c) eqn:Hws.
    + now rewrite step_emit_ws.
    + cbn [orb] in Ht. rewrite Ht. now rewrite step_emit.
  - rewrite run_strlit by assumption.
    apply strlit_inv in H. destruct H as (b & -> & _).
    cbn [term] in Ht. rewrite N.eqb_refl in Ht. apply negb_true_iff in Ht.
    unfold step at 1. cbn [md]. rewrite Ht. rewrite rev_involutive.
    rewrite (emit_md _ o k _ MTop). now rewrite step_emit.
  - now rewrite run_qsym.
  - now rewrite run_comment.
Qed.

Lemma tok_fin o k t : leaf_ok t = true ->
  finish (run t (mkst o k MTop)) = rev (out (emit (L t) (mkst o k MTop))).
Proof.
  intros Hl.
  apply leaf_ok_cases in Hl. destruct Hl as [H|[H|[H|H]]].
  - rewrite run_atom by assumption. unfold finish. cbn [md].
    now rewrite rev_involutive.
  - rewrite run_strlit by assumption. unfold finish. cbn [md].
    now rewrite rev_involutive.
  - rewrite run_qsym by assumption. apply finish_top, md_emit.
  - rewrite run_comment by assumption. apply finish_top, md_emit.
Qed.

Lemma item_run x s c : md s = MTop -> lex_ok x = true -> term x c = true ->
  run (lex_text x ++ [c]) s = step (lex_step s x) c.
Proof.
  destruct s as [o k m]. cbn [md]. intros -> Hx Ht.
  destruct x as [| |t].
  - reflexivity.
  - reflexivity.
  - now apply tok_run.
Qed.

Lemma item_fin x s : md s = MTop -> lex_ok x = true ->
  finish (run (lex_text x) s) = rev (out (lex_step s x)).
Proof.
  destruct s as [o k m]. cbn [md]. intros -> Hx.
  destruct x as [| |t].
  - reflexivity.
  - cbn [lex_text lex_step]. rewrite run_cons, run_nil.
    change (step (mkst o k MTop) cRP) with (close (mkst o k MTop)).
    apply finish_top, md_close.
  - now apply tok_fin.
Qed.

(* ---------- the master lemma ---------- *)

Definition body (items : list (lexeme * str)) : str :=
  flat_map (fun it => lex_text (fst it) ++ snd it) items.

Lemma lex_text_nonempty y : lex_ok y = true -> exists c r, lex_text y = c :: r.
Proof.
  destruct y as [| |[|c t]]; cbn [lex_text]; intros H; try discriminate; eauto.
Qed.

Lemma master items : forall s, md s = MTop -> seps_ok items = true ->
  finish (run (body items) s) = rev (out (fold_left lex_step (map fst items) s)).
Proof.
  induction items as [|[x w] rest IH]; intros s Hmd Hs.
  - cbn. now apply finish_top.
  - cbn [seps_ok] in Hs. rewrite !andb_true_iff in Hs.
    destruct Hs as [[[Hx Hw] Ht] Hr].
    cbn [map fst fold_left]. unfold body. cbn [flat_map fst snd]. fold (body rest).
    rewrite <- app_assoc.
    assert (Hmd' : md (lex_step s x) = MTop) by apply md_lex_step.
    destruct (w ++ body rest) as [|c r] eqn:E.
    + rewrite app_nil_r. rewrite item_fin by assumption.
      apply app_eq_nil in E. destruct E as [_ E].
      rewrite <- (IH _ Hmd' Hr), E, run_nil. symmetry. now apply finish_top.
    + assert (Hc : term x c = true).
      { destruct w as [|c' w'].
        - cbn [app] in E. destruct rest as [|[y w2] rest']; [discriminate|].
          cbn [seps_ok] in Hr. rewrite !andb_true_iff in Hr.
          destruct Hr as [[[Hy _] _] _].
          destruct (lex_text_nonempty y Hy) as (c0 & r0 & Ey).
          unfold body in E. cbn [flat_map fst snd] in E. rewrite Ey in E.
          injection E as Ec _. subst c0.
          now apply (may_touch_term x y c r0).
        - injection E as -> _. unfold ws_ok in Hw. cbn [forallb] in Hw.
          apply andb_true_iff in Hw. now apply term_ws. }
      change (c :: r) with ([c] ++ r). rewrite app_assoc, run_app.
      rewrite item_run by assumption.
      rewrite <- run_cons, <- E, run_app.
      rewrite (run_ws w) by assumption.
      now apply IH.
Qed.

Lemma parse_render lead items :
  ws_ok lead = true -> seps_ok items = true ->
  parse (render lead items) = rev (out (fold_left lex_step (map fst items) init)).
Proof.
  intros Hl Hs. unfold parse, render. fold (body items).
  rewrite run_app, (run_ws lead) by (try assumption; reflexivity).
  now apply master.
Qed.

(* ---------- link to the standard nesting structure ---------- *)

Lemma structure_fold xs : forall s es,
  structure_aux xs (stack s) (out s) = Some es ->
  rev (out (fold_left lex_step xs s)) = es.
Proof.
  induction xs as [|x xs IH]; intros s es H.
  - cbn [structure_aux] in H. cbn [fold_left].
    destruct (stack s); [|discriminate]. now injection H.
  - cbn [fold_left]. apply IH. destruct s as [o k m]. cbn [stack out] in H.
    destruct x as [| |t]; cbn [structure_aux] in H.
    + exact H.
    + destruct k as [|f [|g fs]]; [discriminate| |]; exact H.
    + destruct k as [|f fs]; exact H.
Qed.

Theorem reader_standard_proof : forall lead items es,
  ws_ok lead = true -> seps_ok items = true ->
  structure (map fst items) = Some es ->
  parse (render lead items) = es.
Proof.
  intros lead items es Hl Hs H.
  rewrite parse_render by assumption.
  apply structure_fold. exact H.
Qed.

(* ---------- literals are opaque ---------- *)

Definition erase_str (s : str) : str :=
  if strlit_ok s then [cDQ; cDQ]
  else if qsym_ok s then [cBAR; cBAR]
  else s.

Definition erase_lex (x : lexeme) : lexeme :=
  match x with Tok s => Tok (erase_str s) | _ => x end.

Fixpoint erase (e : sexp) : sexp :=
  match e with
  | L s => L (erase_str s)
  | T l => T (map erase l)
  end.

Definition erase_st (s : st) : st :=
  mkst (map erase (out s)) (map (map erase) (stack s)) (md s).

Lemma erase_lex_step s x :
  erase_st (lex_step s x) = lex_step (erase_st s) (erase_lex x).
Proof.
  destruct s as [o k m]. destruct x as [| |t].
  - reflexivity.
  - destruct k as [|f [|g fs]]; try reflexivity.
    + unfold erase_st, lex_step, close, emit. cbn [stack out md map erase].
      now rewrite map_rev.
    + unfold erase_st, lex_step, close, emit. cbn [stack out md map erase].
      now rewrite map_rev.
  - destruct k as [|f fs]; reflexivity.
Qed.

Lemma erase_fold xs : forall s,
  erase_st (fold_left lex_step xs s) =
  fold_left lex_step (map erase_lex xs) (erase_st s).
Proof.
  induction xs as [|x xs IH]; intros s; [reflexivity|].
  cbn [fold_left map]. now rewrite IH, erase_lex_step.
Qed.

Theorem literal_opaque_proof : forall l1 items1 l2 items2,
  ws_ok l1 = true -> ws_ok l2 = true ->
  seps_ok items1 = true -> seps_ok items2 = true ->
  map erase_lex (map fst items1) = map erase_lex (map fst items2) ->
  map erase (parse (render l1 items1)) = map erase (parse (render l2 items2)).
Proof.
  intros l1 items1 l2 items2 H1 H2 S1 S2 E.
  rewrite !parse_render by assumption.
  rewrite !map_rev.
  change (map erase (out (fold_left lex_step (map fst items1) init)))
    with (out (erase_st (fold_left lex_step (map fst items1) init))).
  change (map erase (out (fold_left lex_step (map fst items2) init)))
    with (out (erase_st (fold_left lex_step (map fst items2) init))).
  now rewrite !erase_fold, E.
Qed.
