(* A compositional description of renderings (white-space chunks and lexemes),
   its conversion to the item lists of Spec.StdReader, and the structure of
   the token sequence of a list of s-expressions. *)
From DD Require Import Model.Lexer Spec.StdReader Proofs.Lex.Automaton.

(* ---------- structure of a flattened s-expression list ---------- *)

Lemma flat_T l : flat (T l) = LPar :: flat_map flat l ++ [RPar].
Proof. reflexivity. Qed.

Lemma structure_flat e : forall r k o,
  structure_aux (flat e ++ r) k o =
  match k with
  | [] => structure_aux r [] (e :: o)
  | f :: fs => structure_aux r ((e :: f) :: fs) o
  end.
Proof.
  induction e as [s|l IHl] using sexp_ind'; intros r k o.
  - destruct k; reflexivity.
  - assert (Hin : forall r f k o,
      structure_aux (flat_map flat l ++ r) (f :: k) o =
      structure_aux r ((rev l ++ f) :: k) o).
    { clear r k o. induction IHl as [|x l Hx _ IH]; intros r f k o; [reflexivity|].
      cbn [flat_map]. rewrite <- app_assoc, Hx, IH.
      cbn [rev]. rewrite <- app_assoc. reflexivity. }
    rewrite flat_T. cbn [app structure_aux]. rewrite <- app_assoc, Hin.
    cbn [app structure_aux]. rewrite app_nil_r, rev_involutive.
    destruct k; reflexivity.
Qed.

Lemma structure_flats_aux es : forall o,
  structure_aux (flats es) [] o = Some (rev o ++ es).
Proof.
  induction es as [|e es IH]; intros o.
  - cbn. now rewrite app_nil_r.
  - unfold flats. cbn [flat_map]. fold (flats es).
    rewrite structure_flat, IH. cbn [rev]. now rewrite <- app_assoc.
Qed.

Lemma structure_flats es : structure (flats es) = Some es.
Proof. unfold structure. now rewrite structure_flats_aux. Qed.

Lemma parse_of_tokens t es : tokens_of t (flats es) -> parse t = es.
Proof.
  intros (lead & items & Hl & Hs & Hm & ->).
  apply reader_standard_proof; try assumption.
  rewrite Hm. apply structure_flats.
Qed.

(* ---------- chunks ---------- *)

Inductive chunk := W (w : str) | X (x : lexeme).

Definition ctext1 (c : chunk) : str :=
  match c with W w => w | X x => lex_text x end.
Definition ctext (cs : list chunk) : str := flat_map ctext1 cs.

Fixpoint clex (cs : list chunk) : list lexeme :=
  match cs with
  | [] => []
  | W _ :: r => clex r
  | X x :: r => x :: clex r
  end.

Definition nonempty (w : str) : bool := match w with [] => false | _ => true end.
Definition is_lpar (x : lexeme) : bool := match x with LPar => true | _ => false end.
Definition is_rpar (x : lexeme) : bool := match x with RPar => true | _ => false end.

(* the flag says: the next lexeme may follow without white space *)
Fixpoint cok (b : bool) (cs : list chunk) : bool :=
  match cs with
  | [] => true
  | W w :: r => ws_ok w && cok (b || nonempty w) r
  | X x :: r => lex_ok x && (b || is_rpar x) && cok (is_lpar x) r
  end.

Fixpoint cend (b : bool) (cs : list chunk) : bool :=
  match cs with
  | [] => b
  | W w :: r => cend (b || nonempty w) r
  | X x :: r => cend (is_lpar x) r
  end.

Lemma clex_app a c : clex (a ++ c) = clex a ++ clex c.
Proof.
  induction a as [|[w|x] a IH]; cbn [app clex]; [reflexivity|assumption|now rewrite IH].
Qed.

Lemma ctext_app a c : ctext (a ++ c) = ctext a ++ ctext c.
Proof. apply flat_map_app. Qed.

Lemma cok_app a : forall b c, cok b (a ++ c) = cok b a && cok (cend b a) c.
Proof.
  induction a as [|[w|x] a IH]; intros b c; cbn [app cok cend].
  - reflexivity.
  - now rewrite IH, andb_assoc.
  - now rewrite IH, andb_assoc.
Qed.

Lemma cend_app a : forall b c, cend b (a ++ c) = cend (cend b a) c.
Proof.
  induction a as [|[w|x] a IH]; intros b c; cbn [app cend]; [reflexivity| |]; apply IH.
Qed.

(* ---------- renderings ---------- *)

Definition rend (b : bool) (t : str) (xs : list lexeme) (b' : bool) : Prop :=
  exists cs, t = ctext cs /\ clex cs = xs /\ cok b cs = true /\ cend b cs = b'.

Lemma rend_nil b : rend b [] [] b.
Proof. exists []. repeat split. Qed.

Lemma rend_app b b1 b2 t1 t2 xs1 xs2 :
  rend b t1 xs1 b1 -> rend b1 t2 xs2 b2 -> rend b (t1 ++ t2) (xs1 ++ xs2) b2.
Proof.
  intros (c1 & -> & <- & K1 & <-) (c2 & -> & <- & K2 & <-).
  exists (c1 ++ c2). rewrite ctext_app, clex_app, cok_app, cend_app, K1, K2.
  repeat split.
Qed.

Lemma rend_ws b w t xs b' : ws_ok w = true ->
  rend (b || nonempty w) t xs b' -> rend b (w ++ t) xs b'.
Proof.
  intros Hw (cs & -> & <- & K & <-).
  exists (W w :: cs). cbn [cok cend clex]. rewrite Hw, K. repeat split.
Qed.

Lemma rend_c b c t xs b' : is_ws c = true ->
  rend true t xs b' -> rend b (c :: t) xs b'.
Proof.
  intros Hc H. change (c :: t) with ([c] ++ t). apply rend_ws.
  - unfold ws_ok. cbn [forallb]. now rewrite Hc.
  - cbn [nonempty]. now rewrite orb_true_r.
Qed.

Lemma rend_lex b x t xs b' : lex_ok x = true -> b || is_rpar x = true ->
  rend (is_lpar x) t xs b' -> rend b (lex_text x ++ t) (x :: xs) b'.
Proof.
  intros Hx Hb (cs & -> & <- & K & <-).
  exists (X x :: cs). cbn [cok cend clex]. rewrite Hx, Hb, K. repeat split.
Qed.

Lemma rend_lp t xs b' : rend true t xs b' -> rend true (cLP :: t) (LPar :: xs) b'.
Proof. intros H. now apply (rend_lex true LPar). Qed.

Lemma rend_rp b t xs b' : rend false t xs b' -> rend b (cRP :: t) (RPar :: xs) b'.
Proof.
  intros H. apply (rend_lex b RPar); [reflexivity| |assumption].
  cbn [is_rpar]. now rewrite orb_true_r.
Qed.

Lemma rend_tok s t xs b' : leaf_ok s = true ->
  rend false t xs b' -> rend true (s ++ t) (Tok s :: xs) b'.
Proof. intros Hs H. now apply (rend_lex true (Tok s)). Qed.

(* weakening of the start flag *)
Lemma cok_true cs : forall b, cok b cs = true -> cok true cs = true /\ (cend b cs = true -> cend true cs = true).
Proof.
  induction cs as [|[w|x] cs IH]; intros b H; cbn [cok cend] in *.
  - split; [reflexivity|trivial].
  - apply andb_true_iff in H. destruct H as [Hw H].
    rewrite Hw. cbn [orb andb]. now apply (IH (b || nonempty w)).
  - rewrite !andb_true_iff in H. destruct H as [[Hx _] H].
    rewrite Hx, H. cbn [orb andb]. split; [reflexivity|trivial].
Qed.

(* ---------- conversion to item lists ---------- *)

Lemma seps_ok_cons2 x w y w2 rest :
  seps_ok ((x, w) :: (y, w2) :: rest) =
  lex_ok x && ws_ok w && (match w with [] => may_touch x y | _ => true end)
  && seps_ok ((y, w2) :: rest).
Proof. reflexivity. Qed.

Lemma ws_ok_app a c : ws_ok (a ++ c) = ws_ok a && ws_ok c.
Proof. apply forallb_app. Qed.

Lemma nonempty_app a c : nonempty (a ++ c) = nonempty a || nonempty c.
Proof. destruct a, c; reflexivity. Qed.

Lemma conv_items cs : forall cur acc,
  lex_ok cur = true -> ws_ok acc = true ->
  cok (nonempty acc || is_lpar cur) cs = true ->
  exists w items,
    seps_ok ((cur, w) :: items) = true /\
    map fst items = clex cs /\
    lex_text cur ++ acc ++ ctext cs = render [] ((cur, w) :: items).
Proof.
  induction cs as [|[w1|x] r IH]; intros cur acc Hcur Hacc H.
  - exists acc, []. cbn [seps_ok]. rewrite Hcur, Hacc.
    repeat split. unfold render. cbn. now rewrite !app_nil_r.
  - cbn [cok] in H. apply andb_true_iff in H. destruct H as [Hw1 H].
    destruct (IH cur (acc ++ w1)) as (w & items & S & M & E).
    + assumption.
    + now rewrite ws_ok_app, Hacc, Hw1.
    + rewrite nonempty_app.
      rewrite <- orb_assoc, (orb_comm (nonempty w1)), orb_assoc. exact H.
    + exists w, items. repeat split; try assumption.
      rewrite <- E. unfold ctext. cbn [flat_map ctext1].
      now rewrite <- !app_assoc.
  - cbn [cok] in H. rewrite !andb_true_iff in H. destruct H as [[Hx Hb] H].
    destruct (IH x []) as (w' & items' & S & M & E).
    + assumption.
    + reflexivity.
    + exact H.
    + exists acc, ((x, w') :: items'). repeat split.
      * rewrite seps_ok_cons2, Hcur, Hacc, S.
        cbn [andb]. rewrite andb_true_r.
        destruct acc as [|a acc]; [|reflexivity].
        cbn [nonempty orb] in Hb.
        destruct cur, x; try reflexivity; discriminate.
      * cbn [map fst clex]. now rewrite M.
      * unfold ctext. cbn [flat_map ctext1]. fold (ctext r).
        cbn [app] in E. rewrite E.
        unfold render. cbn [app flat_map fst snd]. now rewrite <- !app_assoc.
Qed.

Lemma conv_lead cs : forall lead, ws_ok lead = true -> cok true cs = true ->
  tokens_of (lead ++ ctext cs) (clex cs).
Proof.
  induction cs as [|[w|x] r IH]; intros lead Hl H.
  - exists lead, []. repeat split; try assumption.
  - cbn [cok orb] in H. apply andb_true_iff in H. destruct H as [Hw H].
    unfold ctext. cbn [flat_map ctext1 clex]. fold (ctext r).
    rewrite app_assoc. apply IH; [|assumption].
    now rewrite ws_ok_app, Hl, Hw.
  - cbn [cok orb] in H. rewrite !andb_true_iff in H. destruct H as [[Hx _] H].
    destruct (conv_items r x []) as (w & items & S & M & E);
      [assumption|reflexivity|exact H|].
    exists lead, ((x, w) :: items). repeat split; try assumption.
    + cbn [map fst clex]. now rewrite M.
    + unfold ctext. cbn [flat_map ctext1]. fold (ctext r).
      cbn [app] in E. rewrite E. reflexivity.
Qed.

Lemma rend_tokens t xs b' : rend true t xs b' -> tokens_of t xs.
Proof.
  intros (cs & -> & <- & K & _).
  apply (conv_lead cs []); [reflexivity|assumption].
Qed.
