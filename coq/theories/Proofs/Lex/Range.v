(* Range of the parser: every parsed expression is well formed (a comment that
   is cut off by the end of input gets its line break from the parser), so
   writing and re-parsing a parsed text is the identity. *)
From DD Require Import Model.Lexer Model.Writer Spec.StdReader.
From DD Require Import Proofs.Lex.Automaton Proofs.Lex.Render Proofs.Lex.Writers.

(* ---------- introduction lemmas for the leaf classes ---------- *)

Lemma strbody_ok_app_aux b : strbody_ok b = true -> forall a,
  (strbody_ok a = true -> strbody_ok (a ++ b) = true) /\
  (forall c, strbody_ok (c :: a) = true -> strbody_ok ((c :: a) ++ b) = true).
Proof.
  intros Hb. induction a as [|x a IH].
  - split; [trivial|]. intros c H. cbn [app strbody_ok] in *.
    destruct (N.eqb c cDQ); [discriminate|assumption].
  - destruct IH as [IH1 IH2]. split; [apply IH2|].
    intros c H. cbn [app]. cbn [strbody_ok] in H. cbn [strbody_ok].
    destruct (N.eqb c cDQ).
    + apply andb_true_iff in H. destruct H as [Hx H]. rewrite Hx. cbn [andb].
      now apply IH1.
    + now apply IH2.
Qed.

Lemma strbody_ok_app a b :
  strbody_ok a = true -> strbody_ok b = true -> strbody_ok (a ++ b) = true.
Proof. intros Ha Hb. now apply (strbody_ok_app_aux b Hb a). Qed.

Lemma strlit_ok_intro body : strbody_ok body = true ->
  strlit_ok (cDQ :: body ++ [cDQ]) = true.
Proof.
  intros H. unfold strlit_ok. rewrite N.eqb_refl, rev_app_distr. cbn [rev app].
  now rewrite N.eqb_refl, rev_involutive, H.
Qed.

Lemma qsym_ok_intro body :
  forallb (fun x => negb (N.eqb x cBAR)) body = true ->
  qsym_ok (cBAR :: body ++ [cBAR]) = true.
Proof.
  intros H. unfold qsym_ok. rewrite N.eqb_refl, rev_app_distr. cbn [rev app].
  now rewrite N.eqb_refl, forallb_rev, H.
Qed.

Lemma comment_ok_intro body z : is_lb z = true ->
  forallb (fun x => negb (is_lb x)) body = true ->
  comment_ok (cSEMI :: body ++ [z]) = true.
Proof.
  intros Hz H. unfold comment_ok. rewrite N.eqb_refl, rev_app_distr. cbn [rev app].
  now rewrite Hz, forallb_rev, H.
Qed.

Lemma atom_ok_lib_snoc t c : atom_ok_lib t = true -> atom_char c = true ->
  atom_ok_lib (t ++ [c]) = true.
Proof.
  destruct t as [|a tl]; [discriminate|]. unfold atom_ok_lib, atom_ok. cbn [app].
  intros H Hc. change (a :: tl ++ [c]) with ((a :: tl) ++ [c]).
  rewrite forallb_app. apply andb_true_intro. split; [exact H|].
  cbn [forallb]. now rewrite Hc.
Qed.

Lemma leaf_ok_atom t : atom_ok_lib t = true -> leaf_ok t = true.
Proof. intros H. unfold leaf_ok. now rewrite H. Qed.
Lemma leaf_ok_strlit t : strlit_ok t = true -> leaf_ok t = true.
Proof. intros H. unfold leaf_ok. rewrite H. now rewrite orb_true_r. Qed.
Lemma leaf_ok_qsym t : qsym_ok t = true -> leaf_ok t = true.
Proof. intros H. unfold leaf_ok. rewrite H. now rewrite !orb_true_r. Qed.
Lemma leaf_ok_comment t : comment_ok t = true -> leaf_ok t = true.
Proof. intros H. unfold leaf_ok. rewrite H. now rewrite !orb_true_r. Qed.

(* ---------- the invariant of the automaton ---------- *)

Definition mode_ok (m : mode) : Prop :=
  match m with
  | MTop => True
  | MTok acc => atom_ok_lib (rev acc) = true
  | MLit q acc =>
      (q = cDQ /\ exists body, rev acc = cDQ :: body /\ strbody_ok body = true) \/
      (q = cBAR /\ exists body, rev acc = cBAR :: body /\
                   forallb (fun x => negb (N.eqb x cBAR)) body = true)
  | MLitQ acc => exists body, rev acc = cDQ :: body ++ [cDQ] /\ strbody_ok body = true
  | MCom acc => exists body, rev acc = cSEMI :: body /\
                  forallb (fun x => negb (is_lb x)) body = true
  end.

Definition inv (s : st) : Prop :=
  forallb wf (out s) = true /\ forallb (forallb wf) (stack s) = true /\ mode_ok (md s).

Lemma inv_emit x o k m : wf x = true ->
  forallb wf o = true -> forallb (forallb wf) k = true ->
  inv (emit x (mkst o k m)).
Proof.
  intros Hx Ho Hk. unfold emit. cbn [stack out].
  destruct k as [|f fs]; unfold inv; cbn [out stack md mode_ok forallb].
  - rewrite Hx, Ho. auto.
  - cbn [forallb] in Hk. apply andb_true_iff in Hk. destruct Hk as [Hf Hfs].
    rewrite Hx, Ho, Hf, Hfs. auto.
Qed.

Lemma inv_close o k m :
  forallb wf o = true -> forallb (forallb wf) k = true ->
  inv (close (mkst o k m)).
Proof.
  intros Ho Hk. unfold close. cbn [stack out].
  destruct k as [|f fs].
  - unfold inv. cbn [out stack md mode_ok forallb]. auto.
  - cbn [forallb] in Hk. apply andb_true_iff in Hk. destruct Hk as [Hf Hfs].
    apply inv_emit; try assumption.
    cbn [wf]. now rewrite forallb_rev.
Qed.

Lemma inv_step_top s c : inv s -> md s = MTop -> inv (step_top s c).
Proof.
  destruct s as [o k m]. intros (Ho & Hk & _) Hm. cbn [out stack md] in *. subst m.
  unfold step_top. cbn [out stack].
  destruct (N.eqb c cDQ) eqn:Hdq.
  { apply N.eqb_eq in Hdq. subst c. cbn [orb].
    repeat split; try assumption. left. split; [reflexivity|]. now exists []. }
  destruct (N.eqb c cBAR) eqn:Hbar.
  { apply N.eqb_eq in Hbar. subst c. cbn [orb].
    repeat split; try assumption. right. split; [reflexivity|]. now exists []. }
  cbn [orb].
  destruct (N.eqb c cSEMI) eqn:Hsemi.
  { apply N.eqb_eq in Hsemi. subst c.
    repeat split; try assumption. now exists []. }
  destruct (N.eqb c cLP) eqn:Hlp.
  { repeat split; assumption. }
  destruct (N.eqb c cRP) eqn:Hrp.
  { now apply inv_close. }
  destruct (is_ws c) eqn:Hws.
  { repeat split; assumption. }
  repeat split; try assumption.
  cbn [md mode_ok rev app]. unfold atom_ok_lib, atom_ok. cbn [forallb]. rewrite andb_true_r.
  unfold atom_char, is_brk. now rewrite Hws, Hlp, Hrp, Hsemi, Hdq, Hbar.
Qed.

Lemma inv_step s c : inv s -> inv (step s c).
Proof.
  destruct s as [o k m]. intros (Ho & Hk & Hm). cbn [out stack md] in *.
  destruct m as [|acc|q acc|acc|acc]; unfold step; cbn [md out stack].
  - apply inv_step_top; [|reflexivity]. repeat split; assumption.
  - cbn [mode_ok] in Hm.
    destruct (is_ws c) eqn:Hws.
    { apply inv_emit; try assumption. now apply leaf_ok_atom. }
    destruct (is_brk c || N.eqb c cDQ || N.eqb c cBAR) eqn:Hbrk.
    { apply inv_step_top; [|apply md_emit].
      apply inv_emit; try assumption. now apply leaf_ok_atom. }
    repeat split; try assumption.
    cbn [md mode_ok rev]. apply atom_ok_lib_snoc; [assumption|].
    unfold atom_char. rewrite Hws. cbn [orb]. now rewrite Hbrk.
  - cbn [mode_ok] in Hm.
    destruct (N.eqb c q) eqn:Hcq.
    + apply N.eqb_eq in Hcq. subst c.
      destruct (N.eqb q cDQ) eqn:Hq.
      * apply N.eqb_eq in Hq. subst q.
        destruct Hm as [(_ & body & Er & Hb)|(Eq & _)];
          [|vm_compute in Eq; discriminate Eq].
        repeat split; try assumption.
        cbn [md mode_ok rev]. exists body. try unfold char in *; rewrite Er. now split.
      * destruct Hm as [(Eq & _)|(Eq & body & Er & Hb)];
          [subst q; rewrite N.eqb_refl in Hq; discriminate Hq|].
        subst q. apply inv_emit; try assumption.
        cbn [wf rev]. try unfold char in *; rewrite Er. apply leaf_ok_qsym.
        now apply (qsym_ok_intro body).
    + repeat split; try assumption.
      cbn [md mode_ok rev].
      destruct Hm as [(Eq & body & Er & Hb)|(Eq & body & Er & Hb)]; subst q.
      * left. split; [reflexivity|]. exists (body ++ [c]). try unfold char in *; rewrite Er. split; [reflexivity|].
        apply strbody_ok_app; [assumption|]. cbn [strbody_ok]. now rewrite Hcq.
      * right. split; [reflexivity|]. exists (body ++ [c]). try unfold char in *; rewrite Er. split; [reflexivity|].
        rewrite forallb_app, Hb. cbn [forallb]. now rewrite Hcq.
  - cbn [mode_ok] in Hm. destruct Hm as (body & Er & Hb).
    destruct (N.eqb c cDQ) eqn:Hc.
    + apply N.eqb_eq in Hc. subst c.
      repeat split; try assumption.
      cbn [md mode_ok rev]. left. split; [reflexivity|].
      exists (body ++ [cDQ; cDQ]). try unfold char in *; rewrite Er. split.
      * cbn [app]. now rewrite <- app_assoc.
      * apply strbody_ok_app; [assumption|reflexivity].
    + apply inv_step_top; [|apply md_emit].
      apply inv_emit; try assumption.
      cbn [wf]. try unfold char in *; rewrite Er. apply leaf_ok_strlit.
      now apply (strlit_ok_intro body).
  - cbn [mode_ok] in Hm. destruct Hm as (body & Er & Hb).
    fold (is_lb c). destruct (is_lb c) eqn:Hc.
    + apply inv_emit; try assumption.
      cbn [wf rev]. try unfold char in *; rewrite Er. apply leaf_ok_comment.
      now apply (comment_ok_intro body).
    + repeat split; try assumption.
      cbn [md mode_ok rev]. exists (body ++ [c]). try unfold char in *; rewrite Er. split; [reflexivity|].
      rewrite forallb_app, Hb. cbn [forallb]. now rewrite Hc.
Qed.

Lemma inv_run t : forall s, inv s -> inv (run t s).
Proof.
  induction t as [|c t IH]; intros s H; [assumption|].
  rewrite run_cons. apply IH. now apply inv_step.
Qed.

Lemma inv_init : inv init.
Proof. repeat split. Qed.

(* ---------- end of input ---------- *)

Lemma inv_finish s : inv s -> forallb wf (finish s) = true.
Proof.
  destruct s as [o k m]. intros (Ho & Hk & Hm). cbn [out stack md] in *.
  assert (Hall : forallb wf (rev o) = true) by now rewrite forallb_rev.
  assert (Hemit : forall x, wf x = true ->
                  forallb wf (rev (out (emit x (mkst o k m)))) = true).
  { intros x Hx. unfold emit. cbn [stack out].
    destruct k as [|f fs]; cbn [out]; [|assumption].
    rewrite forallb_rev. cbn [forallb]. now rewrite Hx, Ho. }
  destruct m as [|acc|q acc|acc|acc]; unfold finish; cbn [md out].
  - assumption.
  - apply Hemit. cbn [wf]. cbn [mode_ok] in Hm. now apply leaf_ok_atom.
  - assumption.
  - apply Hemit. cbn [wf]. cbn [mode_ok] in Hm. destruct Hm as (body & Er & Hb).
    try unfold char in *; rewrite Er.
    now apply leaf_ok_strlit, (strlit_ok_intro body).
  - apply Hemit. cbn [mode_ok] in Hm. destruct Hm as (body & Er & Hb).
    cbn [wf rev]. try unfold char in *; rewrite Er. apply leaf_ok_comment.
    now apply (comment_ok_intro body).
Qed.

Theorem parser_range_proof : forall t, forallb wf (parse t) = true.
Proof. intros t. unfold parse. apply inv_finish, inv_run, inv_init. Qed.

(* ---------- writing and re-parsing a parsed text ---------- *)

Theorem parsed_roundtrip_check_proof : forall t,
  parse (w_check (parse t)) = parse t.
Proof. intros t. apply parse_w_check_proof, parser_range_proof. Qed.

Theorem parsed_roundtrip_default_proof : forall t,
  parse (w_default (parse t)) = parse t.
Proof. intros t. apply parse_w_default_proof, parser_range_proof. Qed.

Theorem parsed_roundtrip_pretty_proof : forall t,
  parse (w_pretty (parse t)) = parse t.
Proof. intros t. apply parse_w_pretty_proof, parser_range_proof. Qed.

Theorem parsed_roundtrip_wrap_proof : forall t,
  parse (w_wrap (parse t)) = parse t.
Proof. intros t. apply parse_w_wrap_proof, parser_range_proof. Qed.
