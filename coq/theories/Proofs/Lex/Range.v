(* Range of the parser: every parsed expression is well formed, except that the
   last top-level one may be a comment cut off by the end of input; writing
   and re-parsing a parsed text normalises exactly that comment. *)
From DD Require Import Model.Lexer Model.Writer Spec.StdReader.
From DD Require Import Proofs.Lex.Automaton Proofs.Lex.Render Proofs.Lex.Writers.

(* ---------- definitions ---------- *)

(* a comment leaf without its final LF *)
Definition ucomment (e : sexp) : bool :=
  match e with
  | L (c :: body) => N.eqb c cSEMI && forallb (fun x => negb (N.eqb x cLF)) body
  | _ => false
  end.

Fixpoint wf_last (es : list sexp) : bool :=
  match es with
  | [] => true
  | e :: r =>
      match r with
      | [] => wf e || ucomment e
      | _ :: _ => wf e && wf_last r
      end
  end.

Definition norm1 (e : sexp) : sexp :=
  match e with
  | L s => if ucomment e then L (s ++ [cLF]) else e
  | T _ => e
  end.

Fixpoint norm (es : list sexp) : list sexp :=
  match es with
  | [] => []
  | e :: r =>
      match r with
      | [] => [norm1 e]
      | _ :: _ => e :: norm r
      end
  end.

(* ---------- introduction lemmas for the leaf classes ---------- *)

Lemma strbody_ok_app_aux b : strbody_ok b = true -> forall a,
  (strbody_ok a = true -> strbody_ok (a ++ b) = true) /\
  (forall c, strbody_ok (c :: a) = true -> strbody_ok ((c :: a) ++ b) = true).
Proof.
  intros Hb. induction a as [|x a IH].
  - split; [trivial|]. intros c H. cbn [app strbody_ok] in *.
    destruct (N.eqb c cDQ); [discriminate|assumption].
  - destruct IH as [IH1 IH2]. split; [apply IH2|].
    intros c H. cbn [app]. cbn [strbody_ok] in H. cbn [strbody_ok].
    destruct (N.eqb c cDQ).
    + apply andb_true_iff in H. destruct H as [Hx H]. rewrite Hx. cbn [andb].
      now apply IH1.
    + now apply IH2.
Qed.

Lemma strbody_ok_app a b :
  strbody_ok a = true -> strbody_ok b = true -> strbody_ok (a ++ b) = true.
Proof. intros Ha Hb. now apply (strbody_ok_app_aux b Hb a). Qed.

Lemma strlit_ok_intro body : strbody_ok body = true ->
  strlit_ok (cDQ :: body ++ [cDQ]) = true.
Proof.
  intros H. unfold strlit_ok. rewrite N.eqb_refl, rev_app_distr. cbn [rev app].
  now rewrite N.eqb_refl, rev_involutive, H.
Qed.

Lemma qsym_ok_intro body :
  forallb (fun x => negb (N.eqb x cBAR)) body = true ->
  qsym_ok (cBAR :: body ++ [cBAR]) = true.
Proof.
  intros H. unfold qsym_ok. rewrite N.eqb_refl, rev_app_distr. cbn [rev app].
  now rewrite N.eqb_refl, forallb_rev, H.
Qed.

Lemma comment_ok_intro body :
  forallb (fun x => negb (N.eqb x cLF)) body = true ->
  comment_ok (cSEMI :: body ++ [cLF]) = true.
Proof.
  intros H. unfold comment_ok. rewrite N.eqb_refl, rev_app_distr. cbn [rev app].
  now rewrite N.eqb_refl, forallb_rev, H.
Qed.

Lemma atom_ok_lib_snoc t c : atom_ok_lib t = true -> atom_char_tl c = true ->
  atom_ok_lib (t ++ [c]) = true.
Proof.
  destruct t as [|a tl]; [discriminate|]. cbn [app atom_ok_lib].
  intros H Hc. apply andb_true_iff in H. destruct H as [Ha Htl].
  apply andb_true_intro. split; [assumption|].
  rewrite forallb_app. apply andb_true_intro. split; [assumption|].
  cbn [forallb]. now rewrite Hc.
Qed.

Lemma leaf_ok_atom t : atom_ok_lib t = true -> leaf_ok t = true.
Proof. intros H. unfold leaf_ok. now rewrite H. Qed.
Lemma leaf_ok_strlit t : strlit_ok t = true -> leaf_ok t = true.
Proof. intros H. unfold leaf_ok. rewrite H. now rewrite orb_true_r. Qed.
Lemma leaf_ok_qsym t : qsym_ok t = true -> leaf_ok t = true.
Proof. intros H. unfold leaf_ok. rewrite H. now rewrite !orb_true_r. Qed.
Lemma leaf_ok_comment t : comment_ok t = true -> leaf_ok t = true.
Proof. intros H. unfold leaf_ok. rewrite H. now rewrite !orb_true_r. Qed.

(* ---------- the invariant of the automaton ---------- *)

Definition mode_ok (m : mode) : Prop :=
  match m with
  | MTop => True
  | MTok acc => atom_ok_lib (rev acc) = true
  | MLit q acc =>
      (q = cDQ /\ exists body, rev acc = cDQ :: body /\ strbody_ok body = true) \/
      (q = cBAR /\ exists body, rev acc = cBAR :: body /\
                   forallb (fun x => negb (N.eqb x cBAR)) body = true)
  | MLitQ acc => exists body, rev acc = cDQ :: body ++ [cDQ] /\ strbody_ok body = true
  | MCom acc => exists body, rev acc = cSEMI :: body /\
                  forallb (fun x => negb (N.eqb x cLF)) body = true
  end.

Definition inv (s : st) : Prop :=
  forallb wf (out s) = true /\ forallb (forallb wf) (stack s) = true /\ mode_ok (md s).

Lemma inv_emit x o k m : wf x = true ->
  forallb wf o = true -> forallb (forallb wf) k = true ->
  inv (emit x (mkst o k m)).
Proof.
  intros Hx Ho Hk. unfold emit. cbn [stack out].
  destruct k as [|f fs]; unfold inv; cbn [out stack md mode_ok forallb].
  - rewrite Hx, Ho. auto.
  - cbn [forallb] in Hk. apply andb_true_iff in Hk. destruct Hk as [Hf Hfs].
    rewrite Hx, Ho, Hf, Hfs. auto.
Qed.

Lemma inv_close o k m :
  forallb wf o = true -> forallb (forallb wf) k = true ->
  inv (close (mkst o k m)).
Proof.
  intros Ho Hk. unfold close. cbn [stack out].
  destruct k as [|f fs].
  - unfold inv. cbn [out stack md mode_ok forallb]. auto.
  - cbn [forallb] in Hk. apply andb_true_iff in Hk. destruct Hk as [Hf Hfs].
    apply inv_emit; try assumption.
    cbn [wf]. now rewrite forallb_rev.
Qed.

Lemma inv_step_top s c : inv s -> md s = MTop -> inv (step_top s c).
Proof.
  destruct s as [o k m]. intros (Ho & Hk & _) Hm. cbn [out stack md] in *. subst m.
  unfold step_top. cbn [out stack].
  destruct (N.eqb c cDQ) eqn:Hdq.
  { apply N.eqb_eq in Hdq. subst c. cbn [orb].
    repeat split; try assumption. left. split; [reflexivity|]. now exists []. }
  destruct (N.eqb c cBAR) eqn:Hbar.
  { apply N.eqb_eq in Hbar. subst c. cbn [orb].
    repeat split; try assumption. right. split; [reflexivity|]. now exists []. }
  cbn [orb].
  destruct (N.eqb c cSEMI) eqn:Hsemi.
  { apply N.eqb_eq in Hsemi. subst c.
    repeat split; try assumption. now exists []. }
  destruct (N.eqb c cLP) eqn:Hlp.
  { repeat split; assumption. }
  destruct (N.eqb c cRP) eqn:Hrp.
  { now apply inv_close. }
  destruct (is_ws c) eqn:Hws.
  { repeat split; assumption. }
  repeat split; try assumption.
  cbn [md mode_ok rev app atom_ok_lib forallb]. rewrite andb_true_r.
  unfold atom_char, is_brk. now rewrite Hws, Hlp, Hrp, Hsemi, Hdq, Hbar.
Qed.

Lemma inv_step s c : inv s -> inv (step s c).
Proof.
  destruct s as [o k m]. intros (Ho & Hk & Hm). cbn [out stack md] in *.
  destruct m as [|acc|q acc|acc|acc]; unfold step; cbn [md out stack].
  - apply inv_step_top; [|reflexivity]. repeat split; assumption.
  - cbn [mode_ok] in Hm.
    destruct (is_ws c) eqn:Hws.
    { apply inv_emit; try assumption. now apply leaf_ok_atom. }
    destruct (is_brk c) eqn:Hbrk.
    { apply inv_step_top; [|apply md_emit].
      apply inv_emit; try assumption. now apply leaf_ok_atom. }
    repeat split; try assumption.
    cbn [md mode_ok rev]. apply atom_ok_lib_snoc; [assumption|].
    unfold atom_char_tl. now rewrite Hws, Hbrk.
  - cbn [mode_ok] in Hm.
    destruct (N.eqb c q) eqn:Hcq.
    + apply N.eqb_eq in Hcq. subst c.
      destruct (N.eqb q cDQ) eqn:Hq.
      * apply N.eqb_eq in Hq. subst q.
        destruct Hm as [(_ & body & Er & Hb)|(Eq & _)];
          [|vm_compute in Eq; discriminate Eq].
        repeat split; try assumption.
        cbn [md mode_ok rev]. exists body. try unfold char in *; rewrite Er. now split.
      * destruct Hm as [(Eq & _)|(Eq & body & Er & Hb)];
          [subst q; rewrite N.eqb_refl in Hq; discriminate Hq|].
        subst q. apply inv_emit; try assumption.
        cbn [wf rev]. try unfold char in *; rewrite Er. apply leaf_ok_qsym.
        now apply (qsym_ok_intro body).
    + repeat split; try assumption.
      cbn [md mode_ok rev].
      destruct Hm as [(Eq & body & Er & Hb)|(Eq & body & Er & Hb)]; subst q.
      * left. split; [reflexivity|]. exists (body ++ [c]). try unfold char in *; rewrite Er. split; [reflexivity|].
        apply strbody_ok_app; [assumption|]. cbn [strbody_ok]. now rewrite Hcq.
      * right. split; [reflexivity|]. exists (body ++ [c]). try unfold char in *; rewrite Er. split; [reflexivity|].
        rewrite forallb_app, Hb. cbn [forallb]. now rewrite Hcq.
  - cbn [mode_ok] in Hm. destruct Hm as (body & Er & Hb).
    destruct (N.eqb c cDQ) eqn:Hc.
    + apply N.eqb_eq in Hc. subst c.
      repeat split; try assumption.
      cbn [md mode_ok rev]. left. split; [reflexivity|].
      exists (body ++ [cDQ; cDQ]). try unfold char in *; rewrite Er. split.
      * cbn [app]. now rewrite <- app_assoc.
      * apply strbody_ok_app; [assumption|reflexivity].
    + apply inv_step_top; [|apply md_emit].
      apply inv_emit; try assumption.
      cbn [wf]. try unfold char in *; rewrite Er. apply leaf_ok_strlit.
      now apply (strlit_ok_intro body).
  - cbn [mode_ok] in Hm. destruct Hm as (body & Er & Hb).
    destruct (N.eqb c cLF) eqn:Hc.
    + apply N.eqb_eq in Hc. subst c.
      apply inv_emit; try assumption.
      cbn [wf rev]. try unfold char in *; rewrite Er. apply leaf_ok_comment.
      now apply (comment_ok_intro body).
    + repeat split; try assumption.
      cbn [md mode_ok rev]. exists (body ++ [c]). try unfold char in *; rewrite Er. split; [reflexivity|].
      rewrite forallb_app, Hb. cbn [forallb]. now rewrite Hc.
Qed.

Lemma inv_run t : forall s, inv s -> inv (run t s).
Proof.
  induction t as [|c t IH]; intros s H; [assumption|].
  rewrite run_cons. apply IH. now apply inv_step.
Qed.

Lemma inv_init : inv init.
Proof. repeat split. Qed.

(* ---------- wf_last ---------- *)

Lemma wf_last_all es : forallb wf es = true -> wf_last es = true.
Proof.
  induction es as [|e r IH]; intros H; [reflexivity|].
  cbn [forallb] in H. apply andb_true_iff in H. destruct H as [He Hr].
  cbn [wf_last]. destruct r as [|e2 r'].
  - now rewrite He.
  - rewrite He. now apply IH.
Qed.

Lemma wf_last_snoc es e : forallb wf es = true -> wf e || ucomment e = true ->
  wf_last (es ++ [e]) = true.
Proof.
  intros Hes He. induction es as [|x es IH]; [exact He|].
  cbn [forallb] in Hes. apply andb_true_iff in Hes. destruct Hes as [Hx Hes].
  cbn [app wf_last].
  destruct (es ++ [e]) as [|y r] eqn:E.
  - now destruct es.
  - rewrite Hx. now apply IH.
Qed.

Lemma wf_last_rev_out x o : forallb wf o = true -> wf x || ucomment x = true ->
  wf_last (rev (x :: o)) = true.
Proof.
  intros Ho Hx. cbn [rev]. apply wf_last_snoc; [|assumption]. now rewrite forallb_rev.
Qed.

Lemma inv_finish s : inv s -> wf_last (finish s) = true.
Proof.
  destruct s as [o k m]. intros (Ho & Hk & Hm). cbn [out stack md] in *.
  assert (Hall : wf_last (rev o) = true).
  { apply wf_last_all. now rewrite forallb_rev. }
  assert (Hemit : forall x, wf x || ucomment x = true ->
                  wf_last (rev (out (emit x (mkst o k m)))) = true).
  { intros x Hx. unfold emit. cbn [stack out].
    destruct k as [|f fs]; cbn [out]; [|assumption].
    now apply wf_last_rev_out. }
  destruct m as [|acc|q acc|acc|acc]; unfold finish; cbn [md out].
  - assumption.
  - apply Hemit. cbn [wf]. cbn [mode_ok] in Hm. apply orb_true_iff. left.
    now apply leaf_ok_atom.
  - assumption.
  - apply Hemit. cbn [wf]. cbn [mode_ok] in Hm. destruct Hm as (body & Er & Hb).
    try unfold char in *; rewrite Er. apply orb_true_iff. left.
    now apply leaf_ok_strlit, (strlit_ok_intro body).
  - apply Hemit. cbn [mode_ok] in Hm. destruct Hm as (body & Er & Hb).
    try unfold char in *; rewrite Er. apply orb_true_iff. right.
    cbn [ucomment]. apply andb_true_intro. split; [apply N.eqb_refl|exact Hb].
Qed.

Theorem parser_range_proof : forall t, wf_last (parse t) = true.
Proof. intros t. unfold parse. apply inv_finish, inv_run, inv_init. Qed.

(* ---------- normalisation ---------- *)

Lemma ucomment_not_wf s : ucomment (L s) = true -> wf (L s) = false.
Proof.
  destruct s as [|c body]; [discriminate|]. cbn [ucomment wf].
  intros H. apply andb_true_iff in H. destruct H as [Hc Hb].
  apply N.eqb_eq in Hc. subst c.
  apply not_true_is_false. intros E.
  apply leaf_ok_cases in E. destruct E as [E|[E|[E|E]]].
  - apply atom_inv in E. destruct E as (a & tl & E & Ha & _).
    injection E as <- _. vm_compute in Ha. discriminate Ha.
  - apply strlit_inv in E. destruct E as (b & E & _).
    injection E as E _. vm_compute in E. discriminate E.
  - apply qsym_inv in E. destruct E as (b & E & _).
    injection E as E _. vm_compute in E. discriminate E.
  - apply comment_inv in E. destruct E as (b & E & _).
    injection E as ->. rewrite forallb_app in Hb. cbn [forallb] in Hb.
    rewrite N.eqb_refl in Hb. cbn [negb andb] in Hb.
    now rewrite andb_false_r in Hb.
Qed.

Lemma norm1_wf e : wf e = true -> norm1 e = e.
Proof.
  destruct e as [s|l]; [|reflexivity]. intros H. unfold norm1.
  destruct (ucomment (L s)) eqn:E; [|reflexivity].
  apply ucomment_not_wf in E. congruence.
Qed.

Lemma norm_wf es : forallb wf es = true -> norm es = es.
Proof.
  induction es as [|e r IH]; intros H; [reflexivity|].
  cbn [forallb] in H. apply andb_true_iff in H. destruct H as [He Hr].
  cbn [norm]. destruct r as [|e2 r'].
  - now rewrite norm1_wf.
  - now rewrite IH.
Qed.

Lemma norm_snoc es e : norm (es ++ [e]) = es ++ [norm1 e].
Proof.
  induction es as [|x es IH]; [reflexivity|].
  cbn [app norm]. destruct (es ++ [e]) as [|y r] eqn:E.
  - now destruct es.
  - now rewrite IH.
Qed.

Lemma wf_last_cases es : wf_last es = true ->
  forallb wf es = true \/
  exists es' s, es = es' ++ [L s] /\ forallb wf es' = true /\ ucomment (L s) = true.
Proof.
  induction es as [|e r IH]; intros H; [now left|].
  cbn [wf_last] in H. destruct r as [|e2 r'].
  - apply orb_true_iff in H. destruct H as [H|H].
    + left. cbn [forallb]. now rewrite H.
    + right. destruct e as [s|l]; [|discriminate].
      exists [], s. now repeat split.
  - apply andb_true_iff in H. destruct H as [He Hr].
    destruct (IH Hr) as [Hall|(es' & s & E & Hes' & Hs)].
    + left. cbn [forallb] in *. now rewrite He.
    + right. exists (e :: es'), s. rewrite E. repeat split; try assumption.
      cbn [forallb]. now rewrite He.
Qed.

(* ---------- writing a final unterminated comment ---------- *)

Lemma ucomment_inv s : ucomment (L s) = true ->
  is_comment s = true /\ leaf_ok (s ++ [cLF]) = true.
Proof.
  destruct s as [|c body]; [discriminate|]. cbn [ucomment].
  intros H. apply andb_true_iff in H. destruct H as [Hc Hb].
  split; [exact Hc|].
  apply N.eqb_eq in Hc. subst c. apply leaf_ok_comment.
  now apply (comment_ok_intro body).
Qed.

Lemma flats_app a b : flats (a ++ b) = flats a ++ flats b.
Proof. apply flat_map_app. Qed.

Lemma last_comment_tokens t' es' s tl :
  rend true t' (flats es') true -> ucomment (L s) = true -> ws_ok tl = true ->
  tokens_of (t' ++ cLF :: (s ++ [cLF]) ++ tl) (flats (es' ++ [L (s ++ [cLF])])).
Proof.
  intros R Hs Htl. apply ucomment_inv in Hs. destruct Hs as [_ Hl].
  rewrite flats_app. unfold flats at 2. cbn [flat_map flat app].
  apply (rend_tokens _ _ (false || nonempty tl)).
  apply (rend_app true true _); [assumption|].
  apply rend_c; [reflexivity|].
  apply rend_tok; [assumption|].
  rewrite <- (app_nil_r tl) at 1. apply rend_ws; [assumption|]. apply rend_nil.
Qed.

Lemma w_check_last s : is_comment s = true ->
  w_check [L s] = cLF :: (s ++ [cLF]) ++ [cLF].
Proof.
  destruct s as [|c body]; [discriminate|]. intros H.
  unfold w_check, w_compact. cbn [flat_map]. rewrite wc_L, H. cbn [fst sp app].
  now rewrite app_nil_r.
Qed.

Lemma w_pretty_last s : is_comment s = true ->
  w_pretty [L s] = cLF :: (s ++ [cLF]) ++ [].
Proof.
  destruct s as [|c body]; [discriminate|]. intros H.
  unfold w_pretty. cbn [flat_map]. rewrite wp_L, H. reflexivity.
Qed.

Lemma w_wrap_last s : is_comment s = true ->
  w_wrap [L s] = cLF :: (s ++ [cLF]) ++ [cLF].
Proof.
  destruct s as [|c body]; [discriminate|]. intros H.
  unfold w_wrap, w_wrap1. cbn [flat_map]. rewrite ww_L, H. cbn [fst wsep app].
  now rewrite app_nil_r.
Qed.

Lemma roundtrip_generic (w : list sexp -> str) (tl : str) :
  (forall a b, w (a ++ b) = w a ++ w b) ->
  (forall es, forallb wf es = true -> rend true (w es) (flats es) true) ->
  (forall s, is_comment s = true -> w [L s] = cLF :: (s ++ [cLF]) ++ tl) ->
  ws_ok tl = true ->
  forall es, wf_last es = true -> parse (w es) = norm es.
Proof.
  intros Happ Hrend Hlast Htl es H.
  apply wf_last_cases in H. destruct H as [H|(es' & s & -> & Hes' & Hs)].
  - rewrite norm_wf by assumption.
    apply parse_of_tokens. apply (rend_tokens _ _ true). now apply Hrend.
  - rewrite norm_snoc. unfold norm1. rewrite Hs.
    rewrite Happ, Hlast by (now apply ucomment_inv in Hs).
    apply parse_of_tokens.
    apply last_comment_tokens; try assumption. now apply Hrend.
Qed.

Theorem parsed_roundtrip_check_proof : forall t,
  parse (w_check (parse t)) = norm (parse t).
Proof.
  intros t. apply (roundtrip_generic w_check [cLF]).
  - intros a b. apply flat_map_app.
  - exact w_check_rend.
  - exact w_check_last.
  - reflexivity.
  - apply parser_range_proof.
Qed.

Theorem parsed_roundtrip_default_proof : forall t,
  parse (w_default (parse t)) = norm (parse t).
Proof. exact parsed_roundtrip_check_proof. Qed.

Theorem parsed_roundtrip_pretty_proof : forall t,
  parse (w_pretty (parse t)) = norm (parse t).
Proof.
  intros t. apply (roundtrip_generic w_pretty []).
  - intros a b. apply flat_map_app.
  - exact w_pretty_rend.
  - exact w_pretty_last.
  - reflexivity.
  - apply parser_range_proof.
Qed.

Theorem parsed_roundtrip_wrap_proof : forall t,
  parse (w_wrap (parse t)) = norm (parse t).
Proof.
  intros t. apply (roundtrip_generic w_wrap [cLF]).
  - intros a b. apply flat_map_app.
  - exact w_wrap_rend.
  - exact w_wrap_last.
  - reflexivity.
  - apply parser_range_proof.
Qed.
