(* Each of the four writers of Model.Writer produces a rendering of the token
   sequence [flats es]; hence the round trips and the token agreement (C07). *)
From DD Require Import Model.Lexer Model.Writer Spec.StdReader.
From DD Require Import Proofs.Lex.Automaton Proofs.Lex.Render.

(* ---------- small facts ---------- *)

Lemma leaf_ok_cons s : leaf_ok s = true -> exists c s', s = c :: s'.
Proof. destruct s as [|c s']; [discriminate|eauto]. Qed.

Lemma sp_ws ns : ws_ok (sp ns) = true.
Proof. destruct ns; reflexivity. Qed.

Lemma flag_sp ns b : ns || b = true -> b || nonempty (sp ns) = true.
Proof. intros H. destruct ns, b; try reflexivity; discriminate H. Qed.

Lemma spaces_ws n : ws_ok (spaces n) = true.
Proof. induction n as [|n IH]; [reflexivity|]. cbn [spaces]. exact IH. Qed.

Lemma rend_tok_end s : leaf_ok s = true -> rend true s [Tok s] false.
Proof.
  intros H. pose proof (rend_tok s [] [] false H (rend_nil false)) as R.
  now rewrite app_nil_r in R.
Qed.

Lemma rend_lf b : rend b [cLF] [] true.
Proof. apply rend_c; [reflexivity|apply rend_nil]. Qed.

(* ---------- the compact writer ---------- *)

Fixpoint wc_list (ns : bool) (l : list sexp) : str :=
  match l with
  | [] => []
  | x :: xs => let '(t, ns') := wc ns x in t ++ wc_list ns' xs
  end.

Lemma wc_T ns l : wc ns (T l) = (sp ns ++ cLP :: wc_list false l ++ [cRP], true).
Proof. reflexivity. Qed.

Lemma wc_list_cons ns x xs :
  wc_list ns (x :: xs) = fst (wc ns x) ++ wc_list (snd (wc ns x)) xs.
Proof. cbn [wc_list]. destruct (wc ns x). reflexivity. Qed.

Lemma wc_L ns c s' :
  wc ns (L (c :: s')) =
  (if is_comment (c :: s') then sp ns ++ cLF :: (c :: s') ++ [cLF]
   else sp ns ++ c :: s', true).
Proof. cbn [wc]. destruct (is_comment (c :: s')); reflexivity. Qed.

Lemma wc_rend e : forall ns b, wf e = true -> ns || b = true ->
  exists b', rend b (fst (wc ns e)) (flat e) b' /\ snd (wc ns e) = true.
Proof.
  induction e as [s|l IHl] using sexp_ind'; intros ns b Hwf Hb.
  - cbn [wf] in Hwf. destruct (leaf_ok_cons s Hwf) as (c & s' & ->).
    rewrite wc_L. cbn [flat].
    destruct (is_comment (c :: s')); cbn [fst snd].
    + exists true. split; [|reflexivity].
      apply rend_ws; [apply sp_ws|]. rewrite (flag_sp _ _ Hb).
      apply rend_c; [reflexivity|].
      apply rend_tok; [assumption|]. apply rend_lf.
    + exists false. split; [|reflexivity].
      apply rend_ws; [apply sp_ws|]. rewrite (flag_sp _ _ Hb).
      now apply rend_tok_end.
  - assert (Hin : forall ns b, forallb wf l = true -> ns || b = true ->
                  exists b', rend b (wc_list ns l) (flat_map flat l) b').
    { clear ns b Hwf Hb.
      induction IHl as [|x l Hx _ IH]; intros ns b Hwf Hb.
      - exists b. apply rend_nil.
      - cbn [forallb] in Hwf. apply andb_true_iff in Hwf. destruct Hwf as [Hwx Hwl].
        destruct (Hx ns b Hwx Hb) as (b1 & R1 & S1).
        destruct (IH true b1 Hwl eq_refl) as (b2 & R2).
        exists b2. rewrite wc_list_cons, S1. cbn [flat_map].
        now apply (rend_app b b1 b2). }
    cbn [wf] in Hwf.
    destruct (Hin false true Hwf eq_refl) as (b1 & R1).
    exists false. rewrite wc_T. cbn [fst snd]. split; [|reflexivity].
    rewrite flat_T.
    apply rend_ws; [apply sp_ws|]. rewrite (flag_sp _ _ Hb).
    apply rend_lp. apply (rend_app true b1 false); [assumption|].
    apply rend_rp, rend_nil.
Qed.

Lemma w_check_rend es : forallb wf es = true -> rend true (w_check es) (flats es) true.
Proof.
  induction es as [|e es IH]; intros H.
  - apply rend_nil.
  - cbn [forallb] in H. apply andb_true_iff in H. destruct H as [He Hes].
    unfold w_check, flats. cbn [flat_map].
    fold (w_check es). fold (flats es).
    apply (rend_app true true true); [|now apply IH].
    destruct (wc_rend e false true He eq_refl) as (b1 & R1 & _).
    rewrite <- (app_nil_r (flat e)).
    apply (rend_app true b1 true); [exact R1|apply rend_lf].
Qed.

(* ---------- the wrapping writer ---------- *)

Fixpoint ww_list (ns : bool) (col : nat) (l : list sexp) : str * nat :=
  match l with
  | [] => ([], col)
  | x :: xs => let '(t, (ns', col')) := ww ns col x in
               let '(r, col'') := ww_list ns' col' xs in (t ++ r, col'')
  end.

Lemma ww_T ns col l :
  ww ns col (T l) =
  let '(sep, col1) := wsep ns col 1 in
  let '(body, col2) := ww_list false (S col1) l in
  (sep ++ cLP :: body ++ [cRP], (true, S col2)).
Proof. reflexivity. Qed.

Lemma wsep_spec ns col len :
  ws_ok (fst (wsep ns col len)) = true /\ nonempty (fst (wsep ns col len)) = ns.
Proof.
  unfold wsep. destruct ns; [|split; reflexivity].
  destruct (Nat.ltb _ _); split; reflexivity.
Qed.

Lemma flag_ne ns b w : nonempty w = ns -> ns || b = true -> b || nonempty w = true.
Proof. intros -> H. now rewrite orb_comm. Qed.

Lemma ww_L ns col c s' :
  ww ns col (L (c :: s')) =
  if is_comment (c :: s')
  then (fst (wsep ns col (length (c :: s'))) ++ cLF :: (c :: s') ++ [cLF], (true, 0))
  else (fst (wsep ns col (length (c :: s'))) ++ c :: s',
        (true, snd (wsep ns col (length (c :: s'))) + length (c :: s'))).
Proof.
  cbn [ww]. destruct (wsep ns col (length (c :: s'))) as [sep col1].
  destruct (is_comment (c :: s')); reflexivity.
Qed.

Lemma ww_rend e : forall ns col b, wf e = true -> ns || b = true ->
  exists b', rend b (fst (ww ns col e)) (flat e) b' /\ fst (snd (ww ns col e)) = true.
Proof.
  induction e as [s|l IHl] using sexp_ind'; intros ns col b Hwf Hb.
  - cbn [wf] in Hwf. destruct (leaf_ok_cons s Hwf) as (c & s' & ->).
    rewrite ww_L. cbn [flat].
    destruct (wsep_spec ns col (length (c :: s'))) as [Hsep Hne].
    destruct (is_comment (c :: s')); cbn [fst snd].
    + exists true. split; [|reflexivity].
      apply rend_ws; [assumption|]. rewrite (flag_ne _ _ _ Hne Hb).
      apply rend_c; [reflexivity|].
      apply rend_tok; [assumption|]. apply rend_lf.
    + exists false. split; [|reflexivity].
      apply rend_ws; [assumption|]. rewrite (flag_ne _ _ _ Hne Hb).
      now apply rend_tok_end.
  - assert (Hin : forall ns col b, forallb wf l = true -> ns || b = true ->
                  exists b', rend b (fst (ww_list ns col l)) (flat_map flat l) b').
    { clear ns col b Hwf Hb.
      induction IHl as [|x l Hx _ IH]; intros ns col b Hwf Hb.
      - exists b. apply rend_nil.
      - cbn [forallb] in Hwf. apply andb_true_iff in Hwf. destruct Hwf as [Hwx Hwl].
        destruct (Hx ns col b Hwx Hb) as (b1 & R1 & S1).
        cbn [ww_list].
        destruct (ww ns col x) as [t [ns' col']]. cbn [fst snd] in R1, S1. subst ns'.
        destruct (IH true col' b1 Hwl eq_refl) as (b2 & R2).
        destruct (ww_list true col' l) as [r col''].
        exists b2. cbn [fst flat_map].
        now apply (rend_app b b1 b2). }
    cbn [wf] in Hwf.
    rewrite ww_T.
    destruct (wsep_spec ns col 1) as [Hsep Hne].
    destruct (wsep ns col 1) as [sep col1]. cbn [fst] in Hsep, Hne.
    destruct (Hin false (S col1) true Hwf eq_refl) as (b1 & R1).
    destruct (ww_list false (S col1) l) as [body col2]. cbn [fst snd] in *.
    exists false. split; [|reflexivity].
    rewrite flat_T.
    apply rend_ws; [assumption|]. rewrite (flag_ne _ _ _ Hne Hb).
    apply rend_lp. apply (rend_app true b1 false); [assumption|].
    apply rend_rp, rend_nil.
Qed.

Lemma w_wrap_rend es : forallb wf es = true -> rend true (w_wrap es) (flats es) true.
Proof.
  induction es as [|e es IH]; intros H.
  - apply rend_nil.
  - cbn [forallb] in H. apply andb_true_iff in H. destruct H as [He Hes].
    unfold w_wrap, flats. cbn [flat_map].
    fold (w_wrap es). fold (flats es).
    apply (rend_app true true true); [|now apply IH].
    destruct (ww_rend e false 0 true He eq_refl) as (b1 & R1 & _).
    rewrite <- (app_nil_r (flat e)).
    apply (rend_app true b1 true); [exact R1|apply rend_lf].
Qed.

(* ---------- the pretty printer ---------- *)

Fixpoint ts_list (first : bool) (l : list sexp) : str :=
  match l with
  | [] => []
  | x :: xs => (if first then [] else [cSP]) ++ to_str x ++ ts_list false xs
  end.

Lemma to_str_T l : to_str (T l) = cLP :: ts_list true l ++ [cRP].
Proof. reflexivity. Qed.

Definition wp_list (d : nat) : list sexp -> str :=
  fix go (l : list sexp) : str :=
    match l with
    | [] => []
    | x :: xs => wp (S d) x ++ go xs
    end.

Lemma wp_list_cons d x xs : wp_list d (x :: xs) = wp (S d) x ++ wp_list d xs.
Proof. reflexivity. Qed.

Lemma wp_T d l :
  wp d (T l) =
  if forallb is_leaf l then spaces (2 * d) ++ to_str (T l) ++ [cLF]
  else match l with
       | L h :: tl => spaces (2 * d) ++ cLP :: h ++ [cLF] ++ wp_list d tl
                      ++ spaces (2 * d) ++ [cRP; cLF]
       | _ => spaces (2 * d) ++ [cLP; cLF] ++ wp_list d l
              ++ spaces (2 * d) ++ [cRP; cLF]
       end.
Proof. reflexivity. Qed.

Lemma wp_L d c s' :
  wp d (L (c :: s')) =
  if is_comment (c :: s') then cLF :: (c :: s') ++ [cLF]
  else spaces (2 * d) ++ (c :: s') ++ [cLF].
Proof. reflexivity. Qed.

Lemma ts_list_rend l : forallb is_leaf l = true -> forallb wf l = true ->
  forall first b, negb first || b = true ->
  exists b', rend b (ts_list first l) (flat_map flat l) b'.
Proof.
  induction l as [|x l IH]; intros Hl Hwf first b Hb.
  - exists b. apply rend_nil.
  - cbn [forallb] in Hl, Hwf.
    apply andb_true_iff in Hl. destruct Hl as [Hx Hl].
    apply andb_true_iff in Hwf. destruct Hwf as [Hwx Hwl].
    destruct x as [s|l0]; [|discriminate].
    cbn [wf] in Hwx.
    destruct (IH Hl Hwl false false eq_refl) as (b2 & R2).
    exists b2. cbn [ts_list to_str flat_map flat app].
    apply rend_ws; [destruct first; reflexivity|].
    destruct first, b; try discriminate Hb; cbn [orb nonempty];
      now apply rend_tok.
Qed.

Lemma rend_close d : rend true (spaces (2 * d) ++ [cRP; cLF]) [RPar] true.
Proof.
  apply rend_ws; [apply spaces_ws|]. apply rend_rp, rend_lf.
Qed.

Lemma wp_rend e : forall d, wf e = true -> rend true (wp d e) (flat e) true.
Proof.
  induction e as [s|l IHl] using sexp_ind'; intros d Hwf.
  - cbn [wf] in Hwf. destruct (leaf_ok_cons s Hwf) as (c & s' & ->).
    rewrite wp_L. cbn [flat].
    destruct (is_comment (c :: s')).
    + apply rend_c; [reflexivity|].
      apply rend_tok; [assumption|]. apply rend_lf.
    + apply rend_ws; [apply spaces_ws|]. cbn [orb].
      apply rend_tok; [assumption|]. apply rend_lf.
  - assert (Hin : forall l', Forall (fun e => forall d, wf e = true ->
                                rend true (wp d e) (flat e) true) l' ->
                  forallb wf l' = true ->
                  rend true (wp_list d l') (flat_map flat l') true).
    { clear. intros l' F. induction F as [|x l Hx _ IH]; intros Hwf.
      - apply rend_nil.
      - cbn [forallb] in Hwf. apply andb_true_iff in Hwf. destruct Hwf as [Hwx Hwl].
        rewrite wp_list_cons. cbn [flat_map].
        apply (rend_app true true true); [now apply Hx|now apply IH]. }
    cbn [wf] in Hwf. rewrite wp_T, flat_T.
    destruct (forallb is_leaf l) eqn:Hleaf.
    + rewrite to_str_T.
      destruct (ts_list_rend l Hleaf Hwf true true eq_refl) as (b1 & R1).
      apply rend_ws; [apply spaces_ws|]. cbn [orb].
      cbn [app]. apply rend_lp. rewrite <- app_assoc.
      apply (rend_app true b1 true); [assumption|].
      apply rend_rp, rend_lf.
    + destruct l as [|[h|l0] tl].
      * discriminate Hleaf.
      * cbn [forallb wf] in Hwf. apply andb_true_iff in Hwf. destruct Hwf as [Hh Htl].
        apply rend_ws; [apply spaces_ws|]. cbn [orb].
        apply rend_lp. cbn [flat_map flat app].
        apply rend_tok; [assumption|].
        apply rend_c; [reflexivity|].
        apply (rend_app true true true); [|apply rend_close].
        apply Hin; [|assumption]. now apply Forall_inv_tail in IHl.
      * apply rend_ws; [apply spaces_ws|]. cbn [orb].
        cbn [app]. apply rend_lp. apply rend_c; [reflexivity|].
        apply (rend_app true true true); [|apply rend_close].
        now apply Hin.
Qed.

Lemma w_pretty_rend es : forallb wf es = true -> rend true (w_pretty es) (flats es) true.
Proof.
  induction es as [|e es IH]; intros H.
  - apply rend_nil.
  - cbn [forallb] in H. apply andb_true_iff in H. destruct H as [He Hes].
    unfold w_pretty, flats. cbn [flat_map].
    fold (w_pretty es). fold (flats es).
    apply (rend_app true true true); [now apply wp_rend|now apply IH].
Qed.

(* ---------- C07 theorems (b), (c), (d) ---------- *)

Lemma w_check_eq_default_proof : forall es, w_check es = w_default es.
Proof. reflexivity. Qed.

Theorem tokens_agree_proof : forall es, forallb wf es = true ->
  tokens_of (w_check es) (flats es) /\ tokens_of (w_default es) (flats es) /\
  tokens_of (w_pretty es) (flats es) /\ tokens_of (w_wrap es) (flats es).
Proof.
  intros es H. repeat split.
  - exact (rend_tokens _ _ _ (w_check_rend es H)).
  - exact (rend_tokens _ _ _ (w_check_rend es H)).
  - exact (rend_tokens _ _ _ (w_pretty_rend es H)).
  - exact (rend_tokens _ _ _ (w_wrap_rend es H)).
Qed.

Theorem parse_w_check_proof : forall es, forallb wf es = true -> parse (w_check es) = es.
Proof. intros es H. apply parse_of_tokens. now apply tokens_agree_proof. Qed.

Theorem parse_w_default_proof : forall es, forallb wf es = true -> parse (w_default es) = es.
Proof. intros es H. apply parse_of_tokens. now apply tokens_agree_proof. Qed.

Theorem parse_w_pretty_proof : forall es, forallb wf es = true -> parse (w_pretty es) = es.
Proof. intros es H. apply parse_of_tokens. now apply tokens_agree_proof. Qed.

Theorem parse_w_wrap_proof : forall es, forallb wf es = true -> parse (w_wrap es) = es.
Proof. intros es H. apply parse_of_tokens. now apply tokens_agree_proof. Qed.
