(* C14: the pass lists of both strategies contain exactly / only enabled
   mutator classes, for an arbitrary registry table. *)
From DD Require Import Model.Options Spec.EnabledSpec Proofs.Opt.OptBase.

Section Passes.
  Variable tables : list theory.

  Lemma in_get_mutators s names c :
    In c (get_mutators tables s names) <-> (In c names /\ enabled tables s c = true).
  Proof.
    unfold get_mutators, enabled. rewrite in_flat_map. split.
    - intros [x [Hx Hc]]. destruct (lookup_cls tables x) as [o |] eqn:L; [| destruct Hc].
      destruct (mv s o) eqn:M; [| destruct Hc]. destruct Hc as [Hc | []]. subst x.
      rewrite L. auto.
    - intros [Hn He]. exists c. split; [assumption |].
      destruct (lookup_cls tables c); [| discriminate]. rewrite He. now left.
  Qed.

  Lemma enabled_in_all s c : enabled tables s c = true -> In c (all_classes tables).
  Proof.
    unfold enabled, all_classes. destruct (lookup_cls tables c) as [o |] eqn:L; [| discriminate].
    intros _. exact (lookup_in_classes tables c o L).
  Qed.

  Section Hier.
    Variables p1 p2 late : list str.

    (* the last pass is exactly the set of enabled classes (no side condition needed) *)
    Lemma hier_last_pass_strong s c :
      In c (last (hier_passes tables p1 p2 late s) []) <-> enabled tables s c = true.
    Proof.
      unfold hier_passes. cbn [last]. rewrite in_get_mutators. split; [tauto |].
      intro He. split; [| assumption]. apply in_or_app.
      destruct (mem_str c late) eqn:M.
      - left. now apply mem_str_In.
      - right. unfold hier_main. apply filter_In. split.
        + exact (enabled_in_all s c He).
        + rewrite M. reflexivity.
    Qed.

    Lemma hier_last_pass_proof :
      registry_ok tables = true -> (forall x, In x late -> In x (all_classes tables)) ->
      forall s c, In c (last (hier_passes tables p1 p2 late s) []) <-> enabled tables s c = true.
    Proof. intros _ _. exact hier_last_pass_strong. Qed.

    Lemma hier_passes_sub_proof s p c :
      In p (hier_passes tables p1 p2 late s) -> In c p -> enabled tables s c = true.
    Proof.
      intros Hp Hc. unfold hier_passes in Hp. cbn [In] in Hp.
      repeat (destruct Hp as [Hp | Hp]; [subst p; apply in_get_mutators in Hc; tauto |]).
      destruct Hp.
    Qed.
  End Hier.

  Section Ddmin.
    Variables stage1 stage2 exclude : list str.

    Lemma erase_neq_binred : s_EraseNode <> s_BinaryReduction.
    Proof. unfold s_EraseNode, s_BinaryReduction. discriminate. Qed.

    (* minimal hypotheses: exclude is [BinaryReduction] and neither stage list names it *)
    Lemma ddmin_passes_spec_strong :
      exclude = [s_BinaryReduction] ->
      mem_str s_BinaryReduction (stage1 ++ stage2) = false ->
      forall s c, In c (concat (ddmin_passes tables stage1 stage2 exclude s))
                  <-> (enabled tables s c = true /\ c <> s_BinaryReduction).
    Proof.
      intros Hex Hnot s c. apply mem_str_false in Hnot.
      unfold ddmin_passes, ddmin_stage2_names. cbn [concat].
      rewrite !in_app_iff, !in_get_mutators, in_app_iff, filter_In. cbn [In]. split.
      - intros [[[[He | []] H] | [H1 H]] | [[[H2 | [Ha Hf]] H] | []]]; (split; [exact H |]).
        + subst c. exact erase_neq_binred.
        + intro E. subst c. apply Hnot. apply in_or_app. now left.
        + intro E. subst c. apply Hnot. apply in_or_app. now right.
        + intro E. apply negb_true_iff in Hf. apply mem_str_false in Hf. apply Hf.
          subst exclude c. now left.
      - intros [He Hne].
        destruct (mem_str c stage1) eqn:M1.
        { apply mem_str_In in M1. left. right. tauto. }
        destruct (mem_str c stage2) eqn:M2.
        { apply mem_str_In in M2. right. left. tauto. }
        right. left. split; [| assumption]. right. split.
        + exact (enabled_in_all s c He).
        + apply negb_true_iff. apply mem_str_false. subst exclude.
          apply mem_str_false in M1. apply mem_str_false in M2.
          rewrite !in_app_iff. cbn [In]. intros [[E | []] | [H | H]]; auto.
    Qed.

    Lemma ddmin_passes_spec_proof :
      registry_ok tables = true ->
      (forall x, In x stage1 -> In x (all_classes tables)) ->
      (forall x, In x stage2 -> In x (all_classes tables)) ->
      (forall x, In x exclude -> In x (all_classes tables)) ->
      exclude = [s_BinaryReduction] ->
      In s_EraseNode (all_classes tables) ->
      mem_str s_BinaryReduction (stage1 ++ stage2) = false ->
      forall s c, In c (concat (ddmin_passes tables stage1 stage2 exclude s))
                  <-> (enabled tables s c = true /\ c <> s_BinaryReduction).
    Proof. intros _ _ _ _ Hex _ Hnot. exact (ddmin_passes_spec_strong Hex Hnot). Qed.
  End Ddmin.
End Passes.
