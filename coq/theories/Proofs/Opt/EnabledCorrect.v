(* C14: the namespace after option parsing, pointwise; the effect of automatic
   theory detection; enabled = enabled_spec for an arbitrary registry table
   satisfying registry_ok. *)
From DD Require Import Model.Options Spec.EnabledSpec Proofs.Opt.OptBase.

Section Opt.
  Variable tables : list theory.
  Hypothesis Hok : registry_ok tables = true.

  Lemma registry_ok_inv :
    NoDup (flat_map opts_of tables) /\ NoDup (all_classes tables) /\ NoDup (map t_name tables).
  Proof.
    pose proof Hok as H. unfold registry_ok in H.
    apply andb_true_iff in H as [H H3]. apply andb_true_iff in H as [H1 H2].
    split; [| split].
    - apply nodup_str_NoDup. exact H1.
    - apply nodup_str_NoDup. exact H2.
    - apply nodup_str_NoDup. exact H3.
  Qed.

  Lemma opt_owner t t' co :
    In t tables -> In t' tables -> In co (opts_of t) -> In co (opts_of t') -> t = t'.
  Proof.
    intros Ht Ht' H H'. destruct registry_ok_inv as [Ho _].
    exact (NoDup_flat_map_owner opts_of tables t t' co Ho Ht Ht' H H').
  Qed.

  Lemma name_owner t t' : In t tables -> In t' tables -> t_name t = t_name t' -> t = t'.
  Proof.
    intros Ht Ht' E. destruct registry_ok_inv as [_ [_ Hn]].
    exact (NoDup_map_inj t_name tables t t' Hn Ht Ht' E).
  Qed.

  Lemma find_theory_some n th : find_theory tables n = Some th -> In th tables /\ t_name th = n.
  Proof.
    unfold find_theory. intro H. apply find_some in H as [H1 H2].
    apply str_eqb_eq in H2. auto.
  Qed.

  Lemma find_theory_none n : find_theory tables n = None -> forall t, In t tables -> t_name t <> n.
  Proof.
    unfold find_theory. intros H t Ht E. pose proof (find_none _ _ H t Ht) as H1.
    cbv beta in H1. rewrite E, str_eqb_refl in H1. discriminate.
  Qed.

  (* one option, seen from an option name co owned by theory t *)
  Lemma step_mv s o t co : In t tables -> In co (opts_of t) ->
    mv (step tables s o) co
    = match mentions co (t_name t) o with Some v => v | None => mv s co end.
  Proof.
    intros Ht Hco. destruct o as [x v | tn v |]; cbn [step mentions].
    - cbn [mv]. unfold upd. rewrite (str_eqb_sym x co).
      destruct (str_eqb co x); reflexivity.
    - destruct (find_theory tables tn) as [th |] eqn:F.
      + apply find_theory_some in F as [Hth Hn]. cbn [toggle_theory mv]. unfold upd_all.
        fold (mem_str co (opts_of th)).
        destruct (str_eqb tn (t_name t)) eqn:E.
        * apply str_eqb_eq in E. assert (th = t) by (apply name_owner; congruence). subst th.
          apply mem_str_In in Hco. rewrite Hco. reflexivity.
        * destruct (mem_str co (opts_of th)) eqn:M; [| reflexivity].
          apply mem_str_In in M. assert (th = t) by (apply (opt_owner th t co); assumption).
          subst th. rewrite Hn, str_eqb_refl in E. discriminate.
      + rewrite (str_eqb_neq tn (t_name t)); [reflexivity |].
        intro E. exact (find_theory_none tn F t Ht (eq_sym E)).
    - unfold toggle_all. rewrite toggle_fold_mv.
      assert (E : existsb (fun t0 => mem_str co (opts_of t0)) tables = true).
      { apply existsb_exists. exists t. split; [assumption | now apply mem_str_In]. }
      rewrite E. reflexivity.
  Qed.

  Definition gpred (tn : str) (o : copt) : bool :=
    match o with CGroup t _ => str_eqb t tn | CDisableAll => true | CMut _ _ => false end.

  Lemma step_gv s o t : In t tables ->
    gv (step tables s o) (t_name t) = None
    <-> (gv s (t_name t) = None /\ gpred (t_name t) o = false).
  Proof.
    intros Ht. destruct o as [x v | tn v |]; cbn [step gpred].
    - cbn [gv]. tauto.
    - destruct (find_theory tables tn) as [th |] eqn:F.
      + apply find_theory_some in F as [Hth Hn]. cbn [toggle_theory gv]. unfold upd.
        rewrite Hn, (str_eqb_sym (t_name t) tn).
        destruct (str_eqb tn (t_name t)).
        * split; [discriminate | intros [_ H]; discriminate].
        * tauto.
      + rewrite (str_eqb_neq tn (t_name t)); [tauto |].
        intro E. exact (find_theory_none tn F t Ht (eq_sym E)).
    - unfold toggle_all. rewrite toggle_fold_gv.
      assert (E : existsb (fun t0 => str_eqb (t_name t) (t_name t0)) tables = true).
      { apply existsb_exists. exists t. split; [assumption | apply str_eqb_refl]. }
      rewrite E. split; [discriminate | intros [_ H]; discriminate].
  Qed.

  Lemma parse_snoc os o : parse_opts tables (os ++ [o]) = step tables (parse_opts tables os) o.
  Proof. unfold parse_opts. rewrite fold_left_app. reflexivity. Qed.

  (* the namespace after parsing, pointwise *)
  Lemma parse_mv os t co : In t tables -> In co (opts_of t) ->
    mv (parse_opts tables os) co
    = match last_mention co (t_name t) os with Some v => v | None => true end.
  Proof.
    intros Ht Hco. induction os as [| o os IH] using rev_ind.
    - reflexivity.
    - rewrite parse_snoc, (step_mv _ _ t co Ht Hco), last_mention_snoc.
      destruct (mentions co (t_name t) o); [reflexivity | exact IH].
  Qed.

  Lemma parse_gv os t : In t tables ->
    gv (parse_opts tables os) (t_name t) = None <-> group_set (t_name t) os = false.
  Proof.
    intros Ht. induction os as [| o os IH] using rev_ind.
    - cbn. tauto.
    - rewrite parse_snoc, (step_gv _ _ t Ht), IH.
      change (group_set (t_name t) (os ++ [o])) with (existsb (gpred (t_name t)) (os ++ [o])).
      change (group_set (t_name t) os) with (existsb (gpred (t_name t)) os).
      rewrite existsb_app. cbn [existsb]. rewrite orb_false_r, orb_false_iff. tauto.
  Qed.

  (* automatic detection *)
  Definition toggled (rel : str -> bool) (s : ns) (t : theory) : bool :=
    match gv s (t_name t) with
    | Some _ => false
    | None => t_rel t && negb (rel (t_name t))
    end.
  Definition ad_step (rel : str -> bool) (s : ns) (t : theory) : ns :=
    match gv s (t_name t) with
    | Some _ => s
    | None => if t_rel t then (if rel (t_name t) then s else toggle_theory s t false) else s
    end.

  Lemma ad_step_eq rel s t :
    ad_step rel s t = if toggled rel s t then toggle_theory s t false else s.
  Proof.
    unfold ad_step, toggled.
    destruct (gv s (t_name t)), (t_rel t), (rel (t_name t)); reflexivity.
  Qed.

  Lemma ad_fold_mv rel ts : NoDup (map t_name ts) -> forall s o,
    mv (fold_left (ad_step rel) ts s) o
    = if existsb (fun t => toggled rel s t && mem_str o (opts_of t)) ts then false else mv s o.
  Proof.
    induction ts as [| t r IH]; cbn [map fold_left existsb]; intros Hnd s o.
    - reflexivity.
    - inversion Hnd as [| ? ? Hn Hd]; subst. rewrite (IH Hd).
      assert (E : existsb (fun t0 => toggled rel (ad_step rel s t) t0 && mem_str o (opts_of t0)) r
                  = existsb (fun t0 => toggled rel s t0 && mem_str o (opts_of t0)) r).
      { apply existsb_ext_in. intros t' Ht'. f_equal. unfold toggled.
        assert (G : gv (ad_step rel s t) (t_name t') = gv s (t_name t')).
        { rewrite ad_step_eq. destruct (toggled rel s t); [| reflexivity].
          cbn [toggle_theory gv]. unfold upd.
          destruct (str_eqb (t_name t') (t_name t)) eqn:E; [| reflexivity].
          apply str_eqb_eq in E. exfalso. apply Hn. rewrite <- E. now apply in_map. }
        rewrite G. reflexivity. }
      rewrite E, ad_step_eq. clear E. destruct (toggled rel s t); cbn [andb orb].
      + cbn [toggle_theory mv]. unfold upd_all. fold (mem_str o (opts_of t)).
        destruct (mem_str o (opts_of t)); cbn [orb]; [| reflexivity].
        destruct (existsb _ r); reflexivity.
      + reflexivity.
  Qed.

  Lemma auto_detect_mv rel s t co : In t tables -> In co (opts_of t) ->
    mv (auto_detect tables rel s) co = if toggled rel s t then false else mv s co.
  Proof.
    intros Ht Hco. destruct registry_ok_inv as [_ [_ Hn]].
    change (auto_detect tables rel s) with (fold_left (ad_step rel) tables s).
    rewrite (ad_fold_mv rel tables Hn).
    assert (E : existsb (fun t0 => toggled rel s t0 && mem_str co (opts_of t0)) tables
                = toggled rel s t).
    { destruct (toggled rel s t) eqn:T.
      - apply existsb_exists. exists t. split; [assumption |]. rewrite T. cbn [andb].
        now apply mem_str_In.
      - destruct (existsb (fun t0 => toggled rel s t0 && mem_str co (opts_of t0)) tables) eqn:E;
          [| reflexivity].
        apply existsb_exists in E as [t' [Ht' H]]. apply andb_true_iff in H as [H1 H2].
        apply mem_str_In in H2. assert (t' = t) by (apply (opt_owner t' t co); assumption).
        subst t'. congruence. }
    rewrite E. reflexivity.
  Qed.

  Theorem enabled_correct_proof os rel c :
    enabled tables (auto_detect tables rel (parse_opts tables os)) c
    = enabled_spec tables os rel c.
  Proof.
    unfold enabled, enabled_spec. pose proof (theory_of_lookup tables c) as H.
    destruct (theory_of tables c) as [t |].
    - destruct H as [Ht [co [L Hin]]]. rewrite L.
      assert (Hco : In co (opts_of t)).
      { unfold opts_of. apply in_map_iff. exists (c, co). split; [reflexivity | assumption]. }
      rewrite (auto_detect_mv rel _ t co Ht Hco), (parse_mv os t co Ht Hco).
      unfold toggled. pose proof (parse_gv os t Ht) as G.
      destruct (gv (parse_opts tables os) (t_name t)) as [b |];
        destruct (group_set (t_name t) os).
      + reflexivity.
      + destruct G as [_ G]. discriminate (G eq_refl).
      + destruct G as [G _]. discriminate (G eq_refl).
      + reflexivity.
    - rewrite H. reflexivity.
  Qed.
End Opt.


(* the statement in the order used by Props/C14.v *)
Lemma enabled_correct_stmt : forall tables os rel c,
  registry_ok tables = true ->
  enabled tables (auto_detect tables rel (parse_opts tables os)) c = enabled_spec tables os rel c.
Proof. intros tables os rel c H. exact (enabled_correct_proof tables H os rel c). Qed.

Lemma parse_mv_stmt : forall tables os t co,
  registry_ok tables = true -> In t tables -> In co (opts_of t) ->
  mv (parse_opts tables os) co
  = match last_mention co (t_name t) os with Some v => v | None => true end.
Proof. intros tables os t co H. exact (parse_mv tables H os t co). Qed.

(* needs no hypothesis on the registry *)
Lemma parse_gv_stmt : forall tables os t,
  In t tables ->
  (gv (parse_opts tables os) (t_name t) = None <-> group_set (t_name t) os = false).
Proof. intros tables os t. exact (parse_gv tables os t). Qed.

Lemma auto_detect_mv_stmt : forall tables rel s t co,
  registry_ok tables = true -> In t tables -> In co (opts_of t) ->
  mv (auto_detect tables rel s) co
  = match gv s (t_name t) with
    | Some _ => mv s co
    | None => if t_rel t && negb (rel (t_name t)) then false else mv s co
    end.
Proof.
  intros tables rel s t co H Ht Hco. rewrite (auto_detect_mv tables H rel s t co Ht Hco).
  unfold toggled. destruct (gv s (t_name t)); reflexivity.
Qed.
