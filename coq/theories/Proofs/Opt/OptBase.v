(* C14 auxiliary lemmas: string membership, duplicate-freeness, ownership of
   option names and theory names, folds of toggle_theory, and the link between
   theory_of (spec) and lookup_cls (model). *)
From DD Require Import Model.Options Spec.EnabledSpec.

Lemma str_eqb_sym a b : str_eqb a b = str_eqb b a.
Proof.
  destruct (str_eqb a b) eqn:E1, (str_eqb b a) eqn:E2; try reflexivity.
  - apply str_eqb_eq in E1. subst. rewrite str_eqb_refl in E2. discriminate.
  - apply str_eqb_eq in E2. subst. rewrite str_eqb_refl in E1. discriminate.
Qed.

Lemma str_eqb_neq a b : a <> b -> str_eqb a b = false.
Proof.
  intro H. destruct (str_eqb a b) eqn:E; [| reflexivity].
  apply str_eqb_eq in E. contradiction.
Qed.

Lemma mem_str_In x l : mem_str x l = true <-> In x l.
Proof.
  unfold mem_str. rewrite existsb_exists. split.
  - intros [y [Hy He]]. apply str_eqb_eq in He. now subst.
  - intro H. exists x. split; [assumption | apply str_eqb_refl].
Qed.

Lemma mem_str_false x l : mem_str x l = false <-> ~ In x l.
Proof.
  rewrite <- mem_str_In. destruct (mem_str x l); split; intro H.
  - discriminate.
  - exfalso. apply H. reflexivity.
  - intro H1. discriminate.
  - reflexivity.
Qed.

Lemma existsb_ext_in {A} (f g : A -> bool) l :
  (forall x, In x l -> f x = g x) -> existsb f l = existsb g l.
Proof.
  induction l as [| a r IH]; cbn [existsb]; intro H.
  - reflexivity.
  - rewrite (H a (or_introl eq_refl)), IH; [reflexivity |].
    intros x Hx. apply H. now right.
Qed.

Lemma nodup_str_NoDup l : nodup_str l = true -> NoDup l.
Proof.
  induction l as [| x r IH]; cbn [nodup_str]; intro H.
  - constructor.
  - apply andb_true_iff in H as [H1 H2]. apply negb_true_iff in H1.
    apply mem_str_false in H1. constructor; auto.
Qed.

Lemma NoDup_app_inv {A} (l1 l2 : list A) :
  NoDup (l1 ++ l2) -> NoDup l1 /\ NoDup l2 /\ (forall x, In x l1 -> In x l2 -> False).
Proof.
  induction l1 as [| a l1 IH]; cbn [app]; intro H.
  - split; [constructor | split; [assumption | intros x []]].
  - inversion H as [| ? ? Hn Hd]; subst. destruct (IH Hd) as [H1 [H2 H3]].
    split; [| split].
    + constructor; [| assumption]. intro Hin. apply Hn. apply in_or_app. now left.
    + assumption.
    + intros x [Hx | Hx] Hx2.
      * subst x. apply Hn. apply in_or_app. now right.
      * eauto.
Qed.

(* an element of a duplicate-free flat_map has a unique owner *)
Lemma NoDup_flat_map_owner {A B} (f : A -> list B) l a b x :
  NoDup (flat_map f l) -> In a l -> In b l -> In x (f a) -> In x (f b) -> a = b.
Proof.
  induction l as [| h r IH]; cbn [flat_map]; intros Hnd Ha Hb Hxa Hxb.
  - destruct Ha.
  - apply NoDup_app_inv in Hnd as [_ [Hr Hdis]].
    destruct Ha as [Ha | Ha], Hb as [Hb | Hb].
    + congruence.
    + subst h. exfalso. apply (Hdis x Hxa). apply in_flat_map. eauto.
    + subst h. exfalso. apply (Hdis x Hxb). apply in_flat_map. eauto.
    + auto.
Qed.

Lemma NoDup_map_inj {A B} (f : A -> B) l a b :
  NoDup (map f l) -> In a l -> In b l -> f a = f b -> a = b.
Proof.
  induction l as [| h r IH]; cbn [map]; intros Hnd Ha Hb E.
  - destruct Ha.
  - inversion Hnd as [| ? ? Hn Hd]; subst.
    destruct Ha as [Ha | Ha], Hb as [Hb | Hb].
    + congruence.
    + subst h. exfalso. apply Hn. rewrite E. now apply in_map.
    + subst h. exfalso. apply Hn. rewrite <- E. now apply in_map.
    + auto.
Qed.

(* folding toggle_theory with a constant value over a list of theories *)
Lemma toggle_fold_mv ts v s o :
  mv (fold_left (fun s t => toggle_theory s t v) ts s) o
  = if existsb (fun t => mem_str o (opts_of t)) ts then v else mv s o.
Proof.
  revert s; induction ts as [| t r IH]; intro s; cbn [fold_left existsb].
  - reflexivity.
  - rewrite IH. cbn [toggle_theory mv]. unfold upd_all, mem_str.
    destruct (existsb (str_eqb o) (opts_of t)), (existsb _ r); reflexivity.
Qed.

Lemma toggle_fold_gv ts v s tn :
  gv (fold_left (fun s t => toggle_theory s t v) ts s) tn
  = if existsb (fun t => str_eqb tn (t_name t)) ts then Some v else gv s tn.
Proof.
  revert s; induction ts as [| t r IH]; intro s; cbn [fold_left existsb].
  - reflexivity.
  - rewrite IH. cbn [toggle_theory gv]. unfold upd.
    destruct (str_eqb tn (t_name t)), (existsb _ r); reflexivity.
Qed.

(* theory_of (spec) and lookup_cls (model) find the same registry entry *)
Lemma theory_of_lookup ts c :
  match theory_of ts c with
  | Some t => In t ts /\ exists co, lookup_cls ts c = Some co /\ In (c, co) (t_reg t)
  | None => lookup_cls ts c = None
  end.
Proof.
  induction ts as [| t r IH]; cbn [theory_of lookup_cls].
  - reflexivity.
  - destruct (find (fun p => str_eqb (fst p) c) (t_reg t)) as [p |] eqn:F.
    + pose proof (find_some _ _ F) as [Hin Hp].
      assert (E : existsb (fun p => str_eqb (fst p) c) (t_reg t) = true)
        by (apply existsb_exists; eauto).
      rewrite E. split; [now left |]. exists (snd p). split; [reflexivity |].
      apply str_eqb_eq in Hp. destruct p as [pc po]. cbn [fst snd] in *. now subst.
    + assert (E : existsb (fun p => str_eqb (fst p) c) (t_reg t) = false).
      { destruct (existsb (fun p => str_eqb (fst p) c) (t_reg t)) eqn:E; [| reflexivity].
        apply existsb_exists in E as [p [Hin Hp]].
        pose proof (find_none _ _ F p Hin) as Hq. cbv beta in Hq. congruence. }
      rewrite E. destruct (theory_of r c).
      * destruct IH as [H1 H2]. split; [now right | assumption].
      * assumption.
Qed.

Lemma lookup_in_classes ts c o :
  lookup_cls ts c = Some o -> In c (flat_map (fun t => map fst (t_reg t)) ts).
Proof.
  induction ts as [| t r IH]; cbn [lookup_cls flat_map]; intro H.
  - discriminate.
  - apply in_or_app.
    destruct (find (fun p => str_eqb (fst p) c) (t_reg t)) as [p |] eqn:F.
    + left. apply find_some in F as [Hin Hp]. apply str_eqb_eq in Hp. subst c.
      now apply in_map.
    + right. auto.
Qed.

Lemma last_mention_snoc co tn os o :
  last_mention co tn (os ++ [o])
  = match mentions co tn o with Some v => Some v | None => last_mention co tn os end.
Proof.
  induction os as [| a r IH]; cbn [app last_mention].
  - destruct (mentions co tn o); reflexivity.
  - rewrite IH. destruct (mentions co tn o); reflexivity.
Qed.
