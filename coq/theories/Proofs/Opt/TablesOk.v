(* C14: the generated tables (Gen/Tables.v) satisfy the side conditions of the
   generic theorems.  Everything about the table contents is by computation. *)
From DD Require Import Base.Lit Model.Options Spec.EnabledSpec Gen.Tables.
From DD Require Import Proofs.Opt.OptBase Proofs.Opt.EnabledCorrect Proofs.Opt.Passes.
Local Open Scope list_scope.

(* every registered class of theory t is defined in the classes entry of the
   same theory, with mutations or global_mutations *)
Definition class_ok (cls : list (str * list (str * bool * bool * bool))) (t : theory) : bool :=
  match find (fun e => str_eqb (fst e) (t_name t)) cls with
  | Some e =>
      forallb (fun rc =>
        existsb (fun d => match d with
                          | (n, _, hm, hg) => str_eqb n (fst rc) && (hm || hg)
                          end) (snd e)) (t_reg t)
  | None => false
  end.

Definition sub_b (l1 l2 : list str) : bool := forallb (fun x => mem_str x l2) l1.

Fixpoint list_str_eqb (l1 l2 : list str) : bool :=
  match l1, l2 with
  | [], [] => true
  | x :: r1, y :: r2 => str_eqb x y && list_str_eqb r1 r2
  | _, _ => false
  end.

Definition tables_ok : bool :=
  registry_ok theories
  && forallb (class_ok classes) theories
  && sub_b hier_prelude1 (all_classes theories)
  && sub_b hier_prelude2 (all_classes theories)
  && sub_b hier_late (all_classes theories)
  && sub_b ddmin_stage1 (all_classes theories)
  && sub_b ddmin_stage2 (all_classes theories)
  && sub_b ddmin_exclude (all_classes theories)
  && list_str_eqb ddmin_exclude [s_BinaryReduction]
  && mem_str s_EraseNode (all_classes theories)
  && negb (mem_str s_BinaryReduction (ddmin_stage1 ++ ddmin_stage2)).

Lemma registry_sound_proof : tables_ok = true.
Proof. vm_compute. reflexivity. Qed.

Lemma sub_b_In l1 l2 : sub_b l1 l2 = true -> forall x, In x l1 -> In x l2.
Proof.
  unfold sub_b. intros H x Hx. rewrite forallb_forall in H. apply mem_str_In. exact (H x Hx).
Qed.

Lemma list_str_eqb_eq l1 l2 : list_str_eqb l1 l2 = true -> l1 = l2.
Proof.
  revert l2; induction l1 as [| x r IH]; intros [| y r2]; cbn [list_str_eqb]; intro H;
    try reflexivity; try discriminate.
  apply andb_true_iff in H as [H1 H2]. apply str_eqb_eq in H1. apply IH in H2. congruence.
Qed.

Lemma tables_ok_inv :
  tables_ok = true ->
  registry_ok theories = true
  /\ forallb (class_ok classes) theories = true
  /\ (forall x, In x hier_prelude1 -> In x (all_classes theories))
  /\ (forall x, In x hier_prelude2 -> In x (all_classes theories))
  /\ (forall x, In x hier_late -> In x (all_classes theories))
  /\ (forall x, In x ddmin_stage1 -> In x (all_classes theories))
  /\ (forall x, In x ddmin_stage2 -> In x (all_classes theories))
  /\ (forall x, In x ddmin_exclude -> In x (all_classes theories))
  /\ ddmin_exclude = [s_BinaryReduction]
  /\ In s_EraseNode (all_classes theories)
  /\ mem_str s_BinaryReduction (ddmin_stage1 ++ ddmin_stage2) = false.
Proof.
  unfold tables_ok. intro H.
  apply andb_true_iff in H as [H H11]. apply andb_true_iff in H as [H H10].
  apply andb_true_iff in H as [H H9]. apply andb_true_iff in H as [H H8].
  apply andb_true_iff in H as [H H7]. apply andb_true_iff in H as [H H6].
  apply andb_true_iff in H as [H H5]. apply andb_true_iff in H as [H H4].
  apply andb_true_iff in H as [H H3]. apply andb_true_iff in H as [H1 H2].
  apply negb_true_iff in H11.
  repeat (split; [first [assumption | apply sub_b_In; assumption] |]).
  split; [now apply list_str_eqb_eq |]. split; [now apply mem_str_In | assumption].
Qed.

Definition gen_facts := tables_ok_inv registry_sound_proof.

Lemma registry_ok_gen : registry_ok theories = true.
Proof. exact (proj1 gen_facts). Qed.

(* every registered class is a defined class of its theory that can mutate *)
Lemma registered_classes_defined : forall t rc,
  In t theories -> In rc (t_reg t) ->
  exists e d, find (fun e => str_eqb (fst e) (t_name t)) classes = Some e
              /\ In d (snd e) /\ fst (fst (fst d)) = fst rc
              /\ (snd (fst d) || snd d = true).
Proof.
  intros t rc Ht Hrc. destruct gen_facts as [_ [H _]].
  rewrite forallb_forall in H. specialize (H t Ht). unfold class_ok in H.
  destruct (find (fun e => str_eqb (fst e) (t_name t)) classes) as [e |]; [| discriminate].
  rewrite forallb_forall in H. specialize (H rc Hrc).
  apply existsb_exists in H as [d [Hd Hp]]. exists e, d.
  destruct d as [[[n hf] hm] hg]. apply andb_true_iff in Hp as [Hp1 Hp2].
  apply str_eqb_eq in Hp1. cbn [fst snd]. auto.
Qed.

Lemma enabled_correct_gen_proof : forall os rel c,
  enabled theories (auto_detect theories rel (parse_opts theories os)) c
  = enabled_spec theories os rel c.
Proof. intros os rel c. exact (enabled_correct_stmt theories os rel c registry_ok_gen). Qed.

Lemma hier_last_pass_gen_proof : forall s c,
  In c (last (hier_passes theories hier_prelude1 hier_prelude2 hier_late s) [])
  <-> enabled theories s c = true.
Proof.
  destruct gen_facts as [H1 [_ [_ [_ [H5 _]]]]].
  exact (hier_last_pass_proof theories hier_prelude1 hier_prelude2 hier_late H1 H5).
Qed.

Lemma hier_passes_sub_gen_proof : forall s p c,
  In p (hier_passes theories hier_prelude1 hier_prelude2 hier_late s) -> In c p ->
  enabled theories s c = true.
Proof. exact (hier_passes_sub_proof theories hier_prelude1 hier_prelude2 hier_late). Qed.

Lemma ddmin_passes_spec_gen_proof : forall s c,
  In c (concat (ddmin_passes theories ddmin_stage1 ddmin_stage2 ddmin_exclude s))
  <-> (enabled theories s c = true /\ c <> s_BinaryReduction).
Proof.
  destruct gen_facts as [H1 [_ [_ [_ [_ [H6 [H7 [H8 [H9 [H10 H11]]]]]]]]]].
  exact (ddmin_passes_spec_proof theories ddmin_stage1 ddmin_stage2 ddmin_exclude
           H1 H6 H7 H8 H9 H10 H11).
Qed.

(* helpers for the examples of Props/C14.v *)
Definition classes_of (tn : str) : list str :=
  match find_theory theories tn with Some t => map fst (t_reg t) | None => [] end.
Definition enabled_list (os : list copt) (rel : str -> bool) : list str :=
  filter (enabled theories (auto_detect theories rel (parse_opts theories os)))
         (all_classes theories).
