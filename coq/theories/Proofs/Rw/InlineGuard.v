(* C17 for InlineDefinedFuns AFTER the fix of finding F19 (Model/InlineRw.v,
   instantiate): smtlib.__instantiate returns the node itself -- and the mutator
   proposes nothing -- if a binder within the body binds a formal parameter again
   or binds a leaf of an actual argument (inline_guard, Proofs/Rw/InlineSide.v).

   Whenever there IS a proposal, the guard therefore did not hold, and that
   ESTABLISHES two of the conjuncts of the side condition inline_side
   (Proofs/Rw/InlineSide.v) of the value theorem and of inline_side_ty
   (Proofs/Rw/InlineSort.v) of the sort theorems:
     - no formal is bound again inside the body;
     - no leaf of an actual (of a formal that occurs in the body) is bound inside the body.
   What remains, inline_side_guarded / inline_side_ty_guarded, speaks about the
   DEFINITION only: the formals have the shape (p S ..) with a leaf p, the names
   are pairwise distinct and occur in the body in term (typed) positions only. *)
From DD Require Import Spec.Semantics Spec.Typing Model.Rewrites Model.LetRw Model.InlineRw.
From DD Require Import Proofs.Rw.EvalBase Proofs.Rw.TypeBase Proofs.Rw.LetSide Proofs.Rw.LetSubst.
From DD Require Import Proofs.Rw.InlineSide Proofs.Rw.InlineSubst Proofs.Rw.LetSort Proofs.Rw.InlineSort.
Local Open Scope list_scope.

(* inline_side without the two conjuncts that the guard of the mutator establishes.
   The actuals are not looked at: the parameter [args] is kept so that the condition
   can stand in the place of inline_side. *)
Definition inline_side_guarded (d : defn) (args : list sexp) : bool :=
  let ps := formal_names d in
  let body := d_body d in
  forallb formal_ok (d_formals d)
  && distinctb (map L ps)
  && forallb (fun p => term_pos_only p body) ps.

(* the same for sorts: inline_side_ty without those two conjuncts *)
Definition inline_side_ty_guarded (d : defn) (args : list sexp) : bool :=
  let ps := formal_names d in
  let body := d_body d in
  forallb formal_ok (d_formals d)
  && distinctb (map L ps)
  && forallb (fun p => type_pos_only p body) ps.

(* ================= what the guard establishes ================= *)
Lemma existsb_false_In {A} (f : A -> bool) (l : list A) x : existsb f l = false -> In x l -> f x = false.
Proof.
  intros He Hx. destruct (f x) eqn:E; [|reflexivity].
  assert (Ht : existsb f l = true) by (apply existsb_exists; now exists x). congruence.
Qed.

(* (a) no formal is bound inside the body *)
Lemma guard_false_formal d args p :
  inline_guard d args = false -> In p (formal_names d) -> mem_sexp (L p) (bound_syms (d_body d)) = false.
Proof.
  unfold inline_guard. intros Hg Hp. apply orb_false_iff in Hg as [Hg _].
  apply (existsb_false_In _ _ (L p) Hg). now apply in_map.
Qed.

(* (b) no leaf of ANY actual is bound inside the body (inline_side asks this only for the actuals of the
   formals that occur in the body: the guard is coarser) *)
Lemma guard_false_no_capture d args a :
  inline_guard d args = false -> In a args -> no_capture (d_body d) a = true.
Proof.
  unfold inline_guard, no_capture. intros Hg Ha. apply orb_false_iff in Hg as [_ Hg].
  apply negb_true_iff.
  destruct (existsb (fun n => is_leaf n && mem_sexp n (bound_syms (d_body d))) (subterms a)) eqn:E; [|reflexivity].
  apply existsb_exists in E as (n & Hn & Hb).
  rewrite (existsb_false_In _ _ n Hg) in Hb; [discriminate Hb|].
  apply in_flat_map. now exists a.
Qed.

(* conversely, the guard holds exactly if (a) or (b) fails *)
Lemma guard_true_inv d args :
  inline_guard d args = true ->
  (exists p, In p (formal_names d) /\ mem_sexp (L p) (bound_syms (d_body d)) = true)
  \/ (exists a, In a args /\ no_capture (d_body d) a = false).
Proof.
  unfold inline_guard, no_capture. intros Hg. apply orb_true_iff in Hg as [Hg | Hg].
  - left. apply existsb_exists in Hg as (f & Hf & Hb). apply in_map_iff in Hf as (p & <- & Hp). now exists p.
  - right. apply existsb_exists in Hg as (n & Hn & Hb). apply in_flat_map in Hn as (a & Ha & Hn).
    exists a. split; [assumption|]. apply negb_false_iff. apply existsb_exists. now exists n.
Qed.

Lemma guard_side d args :
  inline_guard d args = false -> inline_side_guarded d args = true -> inline_side d args = true.
Proof.
  unfold inline_side_guarded, inline_side. cbv zeta. intros Hg Hs.
  apply andb_true_iff in Hs as [Hs Hps]. rewrite Hs. cbn [andb].
  apply andb_true_iff. split; apply forallb_forall.
  - intros p Hp. rewrite forallb_forall in Hps. rewrite (Hps p Hp), (guard_false_formal d args p Hg Hp). reflexivity.
  - intros [p a] Hpa. cbn [fst snd]. apply in_combine_r in Hpa.
    rewrite (guard_false_no_capture d args a Hg Hpa). apply orb_true_r.
Qed.

Lemma guard_side_ty d args :
  inline_guard d args = false -> inline_side_ty_guarded d args = true -> inline_side_ty d args = true.
Proof.
  unfold inline_side_ty_guarded, inline_side_ty. cbv zeta. intros Hg Hs.
  apply andb_true_iff in Hs as [Hs Hps]. rewrite Hs. cbn [andb].
  apply andb_true_iff. split; apply forallb_forall.
  - intros p Hp. rewrite forallb_forall in Hps. rewrite (Hps p Hp), (guard_false_formal d args p Hg Hp). reflexivity.
  - intros [p a] Hpa. cbn [fst snd]. apply in_combine_r in Hpa.
    rewrite (guard_false_no_capture d args a Hg Hpa). apply orb_true_r.
Qed.

(* the weaker conditions are weaker *)
Lemma side_guarded_of_side d args : inline_side d args = true -> inline_side_guarded d args = true.
Proof.
  unfold inline_side_guarded, inline_side. cbv zeta. intros Hs.
  apply andb_true_iff in Hs as [Hs _]. apply andb_true_iff in Hs as [Hs Hps]. rewrite Hs. cbn [andb].
  rewrite forallb_forall in *. intros p Hp. specialize (Hps p Hp). now apply andb_true_iff in Hps as [Hps _].
Qed.

Lemma side_ty_guarded_of_side_ty d args : inline_side_ty d args = true -> inline_side_ty_guarded d args = true.
Proof.
  unfold inline_side_ty_guarded, inline_side_ty. cbv zeta. intros Hs.
  apply andb_true_iff in Hs as [Hs _]. apply andb_true_iff in Hs as [Hs Hps]. rewrite Hs. cbn [andb].
  rewrite forallb_forall in *. intros p Hp. specialize (Hps p Hp). now apply andb_true_iff in Hps as [Hps _].
Qed.

(* ================= a proposal: the guard did not hold ================= *)
Lemma proposal_guard_false : forall defs e l e' n d args,
  rw_inline defs e = Some l -> In e' l ->
  e = T (L n :: args) \/ (e = L n /\ args = []) ->
  lookup_def defs n = Some d ->
  forallb formal_ok (d_formals d) = true ->
  inline_guard d args = false.
Proof.
  intros defs e l e' n d args HR Hin He Hd Hok.
  unfold rw_inline in HR. cbv zeta in HR.
  destruct He as [-> | [-> ->]]; rewrite Hd in HR.
  - cbn [is_leaf andb] in HR.
    destruct (is_recursive defs n); [injection HR as <-; destruct Hin|].
    destruct (Nat.eqb (length (d_formals d)) (length args)) eqn:Elen.
    + apply Nat.eqb_eq in Elen.
      rewrite (instantiate_app d (L n) args Hok Elen) in HR.
      destruct (inline_guard d args); [|reflexivity].
      rewrite sexp_eqb_refl in HR. injection HR as <-. destruct Hin.
    + unfold instantiate in HR. rewrite Elen, sexp_eqb_refl in HR. injection HR as <-. destruct Hin.
  - cbn [is_leaf andb] in HR.
    destruct (Nat.eqb (length (d_formals d)) 0) eqn:Elen; cbn [negb] in HR; [|injection HR as <-; destruct Hin].
    apply Nat.eqb_eq, length_zero_iff_nil in Elen.
    unfold inline_guard, formal_names. rewrite Elen. reflexivity.
Qed.

(* inline_guard_gives_side: for a call that has a proposal, the weaker condition is the full one *)
Theorem inline_guard_gives_side : forall defs e l e' n d args,
  rw_inline defs e = Some l -> In e' l ->
  e = T (L n :: args) \/ (e = L n /\ args = []) ->
  lookup_def defs n = Some d ->
  inline_side_guarded d args = true -> inline_side d args = true.
Proof.
  intros defs e l e' n d args HR Hin He Hd Hs. apply guard_side; [|exact Hs].
  apply (proposal_guard_false defs e l e' n d args HR Hin He Hd).
  unfold inline_side_guarded in Hs. cbv zeta in Hs.
  apply andb_true_iff in Hs as [Hs _]. now apply andb_true_iff in Hs as [Hs _].
Qed.

Theorem inline_guard_gives_side_ty : forall defs e l e' n d args,
  rw_inline defs e = Some l -> In e' l ->
  e = T (L n :: args) \/ (e = L n /\ args = []) ->
  lookup_def defs n = Some d ->
  inline_side_ty_guarded d args = true -> inline_side_ty d args = true.
Proof.
  intros defs e l e' n d args HR Hin He Hd Hs. apply guard_side_ty; [|exact Hs].
  apply (proposal_guard_false defs e l e' n d args HR Hin He Hd).
  unfold inline_side_ty_guarded in Hs. cbv zeta in Hs.
  apply andb_true_iff in Hs as [Hs _]. now apply andb_true_iff in Hs as [Hs _].
Qed.

(* ================= the theorems with the weaker side conditions ================= *)
Theorem inline_identity_guarded : forall defs e l e' n d args rho v,
  rw_inline defs e = Some l -> In e' l ->
  e = T (L n :: args) \/ (e = L n /\ args = []) ->
  lookup_def defs n = Some d ->
  inline_side_guarded d args = true ->
  call_val rho d args = Some v -> eval rho e' = Some v.
Proof.
  intros defs e l e' n d args rho v HR Hin He Hd Hs.
  apply (inline_identity defs e l e' n d args rho v HR Hin He Hd).
  exact (inline_guard_gives_side defs e l e' n d args HR Hin He Hd Hs).
Qed.

Theorem inline_sort_guarded : forall defs e l e' n d args g sorts so,
  rw_inline defs e = Some l -> In e' l ->
  e = T (L n :: args) \/ (e = L n /\ args = []) ->
  lookup_def defs n = Some d ->
  inline_side_ty_guarded d args = true ->
  type_args g args = Some sorts ->
  type_of (bind_vars g (combine (formal_names d) sorts)) (d_body d) = Some so ->
  type_of g e' = Some so.
Proof.
  intros defs e l e' n d args g sorts so HR Hin He Hd Hs.
  apply (inline_sort defs e l e' n d args g sorts so HR Hin He Hd).
  exact (inline_guard_gives_side_ty defs e l e' n d args HR Hin He Hd Hs).
Qed.

(* with the (weakened) side condition of the value theorem and its missing part *)
Lemma inline_side_ty_guarded_of d args :
  inline_side_guarded d args = true -> inline_quant_side d = true -> inline_side_ty_guarded d args = true.
Proof.
  unfold inline_side_guarded, inline_quant_side, inline_side_ty_guarded. cbv zeta. intros H1 H2.
  apply andb_true_iff in H1 as [H1 Hps]. rewrite H1. cbn [andb]. rewrite forallb_forall in *. intros p Hp.
  apply tpo_qfree; [apply (Hps p Hp) | apply (H2 p Hp)].
Qed.

Theorem inline_sort'_guarded : forall defs e l e' n d args g sorts so,
  rw_inline defs e = Some l -> In e' l ->
  e = T (L n :: args) \/ (e = L n /\ args = []) ->
  lookup_def defs n = Some d ->
  inline_side_guarded d args = true -> inline_quant_side d = true ->
  type_args g args = Some sorts ->
  type_of (bind_vars g (combine (formal_names d) sorts)) (d_body d) = Some so ->
  type_of g e' = Some so.
Proof.
  intros defs e l e' n d args g sorts so HR Hin He Hd H1 H2.
  apply (inline_sort_guarded defs e l e' n d args g sorts so HR Hin He Hd). now apply inline_side_ty_guarded_of.
Qed.

Theorem inline_same_sort_guarded : forall defs l e' n d args g sig r so,
  rw_inline defs (T (L n :: args)) = Some l -> In e' l ->
  lookup_def defs n = Some d ->
  inline_side_ty_guarded d args = true ->
  user_head g n = true -> Typing.assoc n (e_funs g) = Some (sig, r) ->
  type_of (bind_vars g (combine (formal_names d) sig)) (d_body d) = Some r ->
  type_of g (T (L n :: args)) = Some so -> type_of g e' = Some so.
Proof.
  intros defs l e' n d args g sig r so HR Hin Hd Hs.
  apply (inline_same_sort defs l e' n d args g sig r so HR Hin Hd).
  exact (inline_guard_gives_side_ty defs (T (L n :: args)) l e' n d args HR Hin (or_introl eq_refl) Hd Hs).
Qed.

(* what the mutator proposes, for formals of the shape (p S ..): nothing if the guard holds,
   the substituted body (unless it is the call itself) otherwise *)
Lemma rw_inline_call defs n d args :
  lookup_def defs n = Some d -> is_recursive defs n = false ->
  forallb formal_ok (d_formals d) = true -> length (d_formals d) = length args ->
  rw_inline defs (T (L n :: args)) =
  Some (if inline_guard d args then []
        else let b := subst_map (combine (map L (formal_names d)) args) (d_body d) in
             if sexp_eqb b (T (L n :: args)) then [] else [b]).
Proof.
  intros Hd Hrec Hok Hlen. unfold rw_inline. cbv zeta. rewrite Hd, Hrec. cbn [is_leaf andb].
  rewrite (instantiate_app d (L n) args Hok Hlen).
  destruct (inline_guard d args); [now rewrite sexp_eqb_refl|].
  now destruct (sexp_eqb _ _).
Qed.
