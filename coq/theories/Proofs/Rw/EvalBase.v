(* Unfolding and inversion lemmas for the evaluation function of
   Spec/Semantics.v and for the recognisers of Model/Smtlib.v, used by the
   proofs of the rewrite identities (C17). *)
From DD Require Import Spec.Semantics Model.Rewrites.
Local Open Scope list_scope.

(* ---------- strings and s-expressions ---------- *)
Lemma iss_eq s x : iss s x = true -> s = lit x.
Proof. unfold iss. apply str_eqb_eq. Qed.

Lemma isop_eq s x : isop s x = true -> s = lit x.
Proof. unfold isop. apply str_eqb_eq. Qed.

Lemma sexp_eqb_eq : forall a b, sexp_eqb a b = true -> a = b.
Proof.
  induction a as [s | l IH] using sexp_ind'; intros [t | m] H; cbn [sexp_eqb] in H; try discriminate.
  - apply str_eqb_eq in H. now subst.
  - f_equal. revert m H. induction IH as [| x l Hx _ IHl]; intros [| y m] H; try discriminate; [reflexivity|].
    apply andb_true_iff in H as [H1 H2]. f_equal; [now apply Hx | now apply IHl].
Qed.

Lemma sexp_eqb_leaf x s : sexp_eqb x (L s) = true -> x = L s.
Proof. apply sexp_eqb_eq. Qed.

(* ---------- opt_all_v ---------- *)
Definition eval_args (rho : list (str * value)) (args : list sexp) : option (list value) :=
  opt_all_v (map (eval rho) args).

Lemma eval_args_nil rho : eval_args rho [] = Some [].
Proof. reflexivity. Qed.

Lemma eval_args_cons rho a l :
  eval_args rho (a :: l) =
  match eval rho a, eval_args rho l with Some v, Some r => Some (v :: r) | _, _ => None end.
Proof. reflexivity. Qed.

Lemma eval_args_cons_inv rho a l vs :
  eval_args rho (a :: l) = Some vs ->
  exists v r, eval rho a = Some v /\ eval_args rho l = Some r /\ vs = v :: r.
Proof.
  rewrite eval_args_cons. destruct (eval rho a) as [v|]; [|discriminate].
  destruct (eval_args rho l) as [r|]; [|discriminate]. intros H. injection H as <-. now exists v, r.
Qed.

Lemma eval_args_nil_inv rho vs : eval_args rho [] = Some vs -> vs = [].
Proof. cbn. congruence. Qed.

Lemma eval_args_length rho : forall l vs, eval_args rho l = Some vs -> length vs = length l.
Proof.
  induction l as [|a l IH]; intros vs H.
  - apply eval_args_nil_inv in H. now subst.
  - apply eval_args_cons_inv in H as (v & r & _ & Hr & ->). cbn. f_equal. now apply IH.
Qed.

(* ---------- unfolding eval ---------- *)
Lemma eval_op rho h args :
  isop h "_" = false -> isop h "let" = false ->
  eval rho (T (L h :: args)) =
  match eval_args rho args with Some vs => apply_op h vs | None => None end.
Proof. intros H1 H2. cbn [eval]. rewrite H1, H2. reflexivity. Qed.

Definition idx_of (i : sexp) : option N := match i with L s => dec_of s | T _ => None end.

Lemma eval_indexed rho op idx args :
  eval rho (T (T (L (lit "_") :: L op :: idx) :: args)) =
  match opt_all_v (map idx_of idx), eval_args rho args with
  | Some ix, Some vs => apply_indexed op ix vs
  | _, _ => None
  end.
Proof. reflexivity. Qed.

Lemma eval_bvlit rho digs w :
  eval rho (T [L (lit "_"); L (c_b :: c_v :: digs); L w]) =
  if all_digits digs then
    match dec_of w with
    | Some n => if N.ltb 0 n && N.ltb (dec_val digs) (2 ^ n) then Some (VV n (dec_val digs)) else None
    | None => None
    end
  else None.
Proof. cbn [eval]. change (isop (lit "_") "_") with true. cbv iota. rewrite !N.eqb_refl. reflexivity. Qed.

Lemma eval_leaf rho s : eval rho (L s) = match lookup_v s rho with Some v => Some v | None => const_value s end.
Proof. reflexivity. Qed.

(* ---------- the operators used by the rewrites ---------- *)
Lemma ap_not vs : apply_op (lit "not") vs = match vs with [VB b] => Some (VB (negb b)) | _ => None end.
Proof. reflexivity. Qed.
Lemma ap_and vs : apply_op (lit "and") vs =
  match all_bools vs with Some bs => if Nat.leb 2 (length vs) then Some (VB (forallb (fun b => b) bs)) else None | None => None end.
Proof. reflexivity. Qed.
Lemma ap_or vs : apply_op (lit "or") vs =
  match all_bools vs with Some bs => if Nat.leb 2 (length vs) then Some (VB (existsb (fun b => b) bs)) else None | None => None end.
Proof. reflexivity. Qed.
Lemma ap_xor vs : apply_op (lit "xor") vs =
  match all_bools vs with Some bs => if Nat.leb 2 (length vs) then Some (VB (fold_left xorb bs false)) else None | None => None end.
Proof. reflexivity. Qed.
Lemma ap_imp vs : apply_op (lit "=>") vs =
  match all_bools vs with
  | Some bs => if Nat.leb 2 (length vs) then Some (VB (fold_right (fun a acc => implb a acc) (last bs true) (removelast bs))) else None
  | None => None
  end.
Proof. reflexivity. Qed.
Lemma ap_eq vs : apply_op (lit "=") vs =
  if Nat.leb 2 (length vs) then match vs with v :: _ => Some (VB (chain value_eqb vs)) | [] => None end else None.
Proof. reflexivity. Qed.
Lemma ap_distinct vs : apply_op (lit "distinct") vs =
  if Nat.leb 2 (length vs) then Some (VB (pairwise_distinct vs)) else None.
Proof. reflexivity. Qed.
Lemma ap_ite vs : apply_op (lit "ite") vs = match vs with [VB c; a; b] => Some (if c then a else b) | _ => None end.
Proof. reflexivity. Qed.
Lemma ap_lt vs : apply_op (lit "<") vs =
  match all_ints vs with Some zs => if Nat.leb 2 (length vs) then Some (VB (chain Z.ltb zs)) else None | None => None end.
Proof. reflexivity. Qed.
Lemma ap_le vs : apply_op (lit "<=") vs =
  match all_ints vs with Some zs => if Nat.leb 2 (length vs) then Some (VB (chain Z.leb zs)) else None | None => None end.
Proof. reflexivity. Qed.
Lemma ap_gt vs : apply_op (lit ">") vs =
  match all_ints vs with Some zs => if Nat.leb 2 (length vs) then Some (VB (chain Z.gtb zs)) else None | None => None end.
Proof. reflexivity. Qed.
Lemma ap_ge vs : apply_op (lit ">=") vs =
  match all_ints vs with Some zs => if Nat.leb 2 (length vs) then Some (VB (chain Z.geb zs)) else None | None => None end.
Proof. reflexivity. Qed.
Lemma ap_bvnot vs : apply_op (lit "bvnot") vs = match vs with [VV w x] => Some (VV w (2 ^ w - 1 - x)) | _ => None end.
Proof. reflexivity. Qed.
Lemma ap_bvneg vs : apply_op (lit "bvneg") vs = match vs with [VV w x] => Some (VV w (bvmod w (- Z.of_N x))) | _ => None end.
Proof. reflexivity. Qed.
Lemma ap_bvnand vs : apply_op (lit "bvnand") vs =
  match all_bvs vs with Some (w, [x; y]) => Some (VV w (2 ^ w - 1 - N.land x y)) | _ => None end.
Proof. reflexivity. Qed.
Lemma ap_bvcomp vs : apply_op (lit "bvcomp") vs =
  match all_bvs vs with Some (w, [x; y]) => Some (VV 1 (if N.eqb x y then 1 else 0)) | _ => None end.
Proof. reflexivity. Qed.
Lemma ap_neq vs : apply_op (lit "!=") vs = None.
Proof. reflexivity. Qed.
Lemma ap_ltgt vs : apply_op (lit "<>") vs = None.
Proof. reflexivity. Qed.

Lemma ai_zext k w x : apply_indexed (lit "zero_extend") [k] [VV w x] = Some (VV (w + k) x).
Proof. reflexivity. Qed.
Lemma ai_sext k w x : apply_indexed (lit "sign_extend") [k] [VV w x] =
  Some (VV (w + k) (if msb w x then x + (2 ^ k - 1) * 2 ^ w else x)).
Proof. reflexivity. Qed.
Lemma ai_extract i j w x : apply_indexed (lit "extract") [i; j] [VV w x] =
  if N.leb j i && N.ltb i w then Some (VV (i - j + 1) ((x / 2 ^ j) mod 2 ^ (i - j + 1))) else None.
Proof. reflexivity. Qed.

(* eval of an application of a concrete operator *)
Ltac eval_op_tac := rewrite eval_op by reflexivity.

(* ---------- recognisers of indexed operators ---------- *)
(* An application whose head is recognised as the indexed operator [name] and
   which has a value has the head (_ name i1 .. icnt). *)
Lemma indexed_head rho h name cnt args v :
  is_indexed_operator h name cnt = true ->
  eval rho (T (h :: args)) = Some v ->
  exists idx, h = T (L (lit "_") :: L (lit name) :: idx) /\ length idx = cnt.
Proof.
  intros Hi Hev. destruct h as [s | l]; [discriminate|]. cbn [is_indexed_operator] in Hi.
  rewrite (Nat.add_comm cnt 2) in Hi.
  destruct l as [| [u | ?] [| [op | ?] idx]]; cbn in Hi; try discriminate; cbn [eval] in Hev; try discriminate.
  destruct (iss u "_") eqn:Eu; cbn in Hi; [|discriminate].
  apply iss_eq in Eu. subst u.
  apply andb_true_iff in Hi as [H1 H2]. apply str_eqb_eq in H1. subst op.
  exists idx. split; [reflexivity|]. apply Nat.eqb_eq in H2. lia.
Qed.

(* ---------- argument lists of known length ---------- *)
Lemma eval_args_1 rho args v : eval_args rho args = Some [v] -> exists x, args = [x] /\ eval rho x = Some v.
Proof.
  intros H. destruct args as [|x [|y r]].
  - discriminate.
  - apply eval_args_cons_inv in H as (v1 & r1 & H1 & _ & E). injection E as <- <-. now exists x.
  - apply eval_args_length in H. discriminate.
Qed.

Lemma eval_args_2 rho args v1 v2 :
  eval_args rho args = Some [v1; v2] -> exists x y, args = [x; y] /\ eval rho x = Some v1 /\ eval rho y = Some v2.
Proof.
  intros H. destruct args as [|x [|y [|z r]]]; try (apply eval_args_length in H; discriminate).
  apply eval_args_cons_inv in H as (a & r1 & H1 & H2 & E). injection E as <- <-.
  apply eval_args_cons_inv in H2 as (b & r2 & H2 & _ & E). injection E as <- <-.
  now exists x, y.
Qed.

Lemma eval_args_3 rho args v1 v2 v3 :
  eval_args rho args = Some [v1; v2; v3] ->
  exists x y z, args = [x; y; z] /\ eval rho x = Some v1 /\ eval rho y = Some v2 /\ eval rho z = Some v3.
Proof.
  intros H. destruct args as [|x [|y [|z [|u r]]]]; try (apply eval_args_length in H; discriminate).
  apply eval_args_cons_inv in H as (a & r1 & H1 & H2 & E). injection E as <- <-.
  apply eval_args_cons_inv in H2 as (b & r2 & H2 & H3 & E). injection E as <- <-.
  apply eval_args_cons_inv in H3 as (c & r3 & H3 & _ & E). injection E as <- <-.
  now exists x, y, z.
Qed.

Lemma eval_args_intro1 rho x v : eval rho x = Some v -> eval_args rho [x] = Some [v].
Proof. intros H. rewrite eval_args_cons, H. reflexivity. Qed.
Lemma eval_args_intro2 rho x y v1 v2 : eval rho x = Some v1 -> eval rho y = Some v2 -> eval_args rho [x; y] = Some [v1; v2].
Proof. intros H1 H2. rewrite !eval_args_cons, H1, H2. reflexivity. Qed.

(* generic inversion of the application of a plain operator *)
Lemma eval_op_inv rho h args v :
  isop h "_" = false -> isop h "let" = false ->
  eval rho (T (L h :: args)) = Some v ->
  exists vs, eval_args rho args = Some vs /\ apply_op h vs = Some v.
Proof.
  intros H1 H2 H. rewrite eval_op in H by assumption.
  destruct (eval_args rho args) as [vs|]; [|discriminate]. now exists vs.
Qed.

Lemma eval_op_intro rho h args vs :
  isop h "_" = false -> isop h "let" = false ->
  eval_args rho args = Some vs -> eval rho (T (L h :: args)) = apply_op h vs.
Proof. intros H1 H2 H. rewrite eval_op by assumption. now rewrite H. Qed.

(* inversions for the operators that occur at the root of the rewritten terms *)
Lemma eval_not_inv rho args v :
  eval rho (T (L (lit "not") :: args)) = Some v ->
  exists x b, args = [x] /\ eval rho x = Some (VB b) /\ v = VB (negb b).
Proof.
  intros H. apply eval_op_inv in H as (vs & Ha & Hv); try reflexivity.
  rewrite ap_not in Hv. destruct vs as [|[b | z | w n] [|? ?]]; try discriminate.
  injection Hv as <-. apply eval_args_1 in Ha as (x & -> & Hx). now exists x, b.
Qed.

Lemma eval_not_intro rho x b : eval rho x = Some (VB b) -> eval rho (T [L (lit "not"); x]) = Some (VB (negb b)).
Proof. intros H. rewrite (eval_op_intro rho _ _ [VB b]); try reflexivity. now apply eval_args_intro1. Qed.

Lemma eval_bvnot_inv rho args v :
  eval rho (T (L (lit "bvnot") :: args)) = Some v ->
  exists x w n, args = [x] /\ eval rho x = Some (VV w n) /\ v = VV w (2 ^ w - 1 - n).
Proof.
  intros H. apply eval_op_inv in H as (vs & Ha & Hv); try reflexivity.
  rewrite ap_bvnot in Hv. destruct vs as [|[b | z | w n] [|? ?]]; try discriminate.
  injection Hv as <-. apply eval_args_1 in Ha as (x & -> & Hx). now exists x, w, n.
Qed.

Lemma eval_bvneg_inv rho args v :
  eval rho (T (L (lit "bvneg") :: args)) = Some v ->
  exists x w n, args = [x] /\ eval rho x = Some (VV w n) /\ v = VV w (bvmod w (- Z.of_N n)).
Proof.
  intros H. apply eval_op_inv in H as (vs & Ha & Hv); try reflexivity.
  rewrite ap_bvneg in Hv. destruct vs as [|[b | z | w n] [|? ?]]; try discriminate.
  injection Hv as <-. apply eval_args_1 in Ha as (x & -> & Hx). now exists x, w, n.
Qed.

(* is_op on a term *)
Lemma is_op_inv a name : is_op a name = true -> exists r, a = T (L (lit name) :: r).
Proof.
  unfold is_op. destruct a as [s | [| [h | ?] r]]; try discriminate. intros H. apply iss_eq in H. subst. now exists r.
Qed.
