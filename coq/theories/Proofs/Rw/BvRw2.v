(* (ite (= x y) 1 0) = (bvcomp x y) and (= c (bvcomp x y)) = (= x y) / (not (= x y)). *)
From Coq Require Import ZifyBool.
From DD Require Import Spec.Semantics Model.Rewrites Proofs.Rw.DigitsRT Proofs.Rw.EvalBase Proofs.Rw.BoolRw Proofs.Rw.BvConst.
Local Open Scope list_scope.

Lemma ite_consts_inv (oa ob : option (Z * Z)) (r : sexp) l :
  match oa, ob with
  | Some (1, 1)%Z, Some (0, 1)%Z => Some [r]
  | Some (1, 1)%Z, None => None
  | Some _, _ => Some []
  | None, _ => None
  end = Some l -> forall e', In e' l -> oa = Some (1, 1)%Z /\ ob = Some (0, 1)%Z /\ e' = r.
Proof.
  intros H e' Hin.
  destruct oa as [[[|[?|?|]|?] [|[?|?|]|?]]|]; try discriminate H;
  try (injection H as <-; destruct Hin; fail);
  destruct ob as [[[|[?|?|]|?] [|[?|?|]|?]]|]; try discriminate H;
  try (injection H as <-; destruct Hin; fail).
  injection H as <-. destruct Hin as [<- | []]. auto.
Qed.

(* the operands of the equality are bit-vectors of one width (the term is well-sorted) *)
Definition same_bv (rho : list (str * value)) (x y : sexp) : Prop :=
  forall v1 v2, eval rho x = Some v1 -> eval rho y = Some v2 -> exists w n m, v1 = VV w n /\ v2 = VV w m.

Lemma value_eqb_bv w n m : value_eqb (VV w n) (VV w m) = N.eqb n m.
Proof. cbn. now rewrite N.eqb_refl. Qed.

Theorem bv_ite_to_bvcomp_identity : forall is_bv_term rho h eq x y rest e' l v,
  lit_free rho -> same_bv rho x y ->
  rw_bv_ite_to_bvcomp is_bv_term (T (L h :: T [L eq; x; y] :: rest)) = Some l -> In e' l ->
  eval rho (T (L h :: T [L eq; x; y] :: rest)) = Some v -> eval rho e' = Some v.
Proof.
  intros ibt rho h eq x y rest e' l v Hlf Hsame Hrw Hin Hev. unfold rw_bv_ite_to_bvcomp in Hrw.
  destruct (iss h "ite") eqn:Eh; [|no_prop Hrw Hin]. apply iss_eq in Eh. subst h.
  destruct (iss eq "=") eqn:Ee; cbn [andb] in Hrw; [|no_prop Hrw Hin]. apply iss_eq in Ee. subst eq.
  destruct (ibt x); [|no_prop Hrw Hin].
  apply eval_op_inv in Hev as (vs & Ha & Hv); try reflexivity.
  rewrite ap_ite in Hv.
  destruct vs as [|[c | ? | ? ?] [|va [|vb [|? ?]]]]; try discriminate Hv. injection Hv as <-.
  apply eval_args_3 in Ha as (t & a & b & E & Ht & Ea & Eb). injection E as <- ->.
  destruct (is_bv_const a) eqn:Ca; cbn [andb] in Hrw; [|no_prop Hrw Hin].
  destruct (is_bv_const b) eqn:Cb; [|no_prop Hrw Hin].
  destruct (ite_consts_inv _ _ _ _ Hrw e' Hin) as (Ba & Bb & ->).
  destruct (bv_const_eval rho a va Hlf Ca Ea) as (wa & na & -> & Ba' & _).
  destruct (bv_const_eval rho b vb Hlf Cb Eb) as (wb & nb & -> & Bb' & _).
  rewrite Ba in Ba'. rewrite Bb in Bb'. injection Ba' as A1 A2. injection Bb' as B1 B2.
  assert (na = 1%N) by lia. assert (wa = 1%N) by lia. assert (nb = 0%N) by lia. assert (wb = 1%N) by lia. subst.
  apply eval_bin_inv in Ht as (v1 & v2 & H1 & H2 & Hv); try reflexivity.
  destruct (Hsame v1 v2 H1 H2) as (w & n & m & -> & ->).
  rewrite ap_eq in Hv. cbn [length Nat.leb chain] in Hv. rewrite value_eqb_bv, andb_true_r in Hv. injection Hv as <-.
  unfold lf. rewrite (eval_bin_intro rho (lit "bvcomp") x y _ _ eq_refl eq_refl H1 H2).
  rewrite ap_bvcomp. cbn. rewrite N.eqb_refl. destruct (N.eqb n m); reflexivity.
Qed.

(* ---------- (= c (bvcomp x y)) ---------- *)
Theorem bv_elim_bvcomp_identity : forall bw rho h c g x y e' l v,
  lit_free rho ->
  (forall t w n, eval rho t = Some (VV w n) -> bw t = (-1)%Z \/ bw t = Z.of_N w) ->
  rw_bv_elim_bvcomp bw (T [L h; c; T (L g :: [x; y])]) = Some l -> In e' l ->
  eval rho (T [L h; c; T (L g :: [x; y])]) = Some v -> eval rho e' = Some v.
Proof.
  intros bw rho h c g x y e' l v Hlf Hbw Hrw Hin Hev. unfold rw_bv_elim_bvcomp in Hrw.
  destruct (iss h "=") eqn:Eh; cbn [andb] in Hrw; [|no_prop Hrw Hin]. apply iss_eq in Eh. subst h.
  cbn [length Nat.ltb Nat.leb andb] in Hrw.
  destruct (is_bv_const c) eqn:Cc; cbn [andb] in Hrw; [|no_prop Hrw Hin].
  destruct (Z.eqb (bw c) 1) eqn:Ew; cbn [andb] in Hrw; [|no_prop Hrw Hin]. apply Z.eqb_eq in Ew.
  cbn [existsb is_op orb] in Hrw.
  destruct (iss g "bvcomp") eqn:Eg; cbn [orb] in Hrw; [|no_prop Hrw Hin]. apply iss_eq in Eg. subst g.
  apply eval_bin_inv in Hev as (vc & vr & Hc & Hr & Hv); try reflexivity.
  destruct (bv_const_eval rho c vc Hlf Cc Hc) as (wc & nc & -> & Bc & Rc & _).
  rewrite Bc in Hrw. cbn [map is_op] in Hrw. change (iss (lit "bvcomp") "bvcomp") with true in Hrw.
  cbv iota in Hrw. cbn [args_of] in Hrw.
  destruct (Hbw c wc nc Hc) as [Hw | Hw]; [lia|]. assert (wc = 1%N) by lia. subst wc.
  apply eval_bin_inv in Hr as (v1 & v2 & H1 & H2 & Hvr); try reflexivity.
  rewrite ap_bvcomp in Hvr. destruct (all_bvs [v1; v2]) as [[w ns]|] eqn:Eb; [|discriminate Hvr].
  destruct ns as [|n [|m [|? ?]]]; try discriminate Hvr. injection Hvr as <-.
  unfold all_bvs in Eb. destruct v1 as [? | ? | w1 n1]; try discriminate Eb.
  destruct v2 as [? | ? | w2 n2]; try discriminate Eb. cbn in Eb.
  destruct (N.eqb w1 w2) eqn:E12; [|discriminate Eb]. apply N.eqb_eq in E12. subst w2.
  injection Eb as <- <- <-.
  rewrite ap_eq in Hv. cbn [length Nat.leb chain] in Hv. rewrite value_eqb_bv, andb_true_r in Hv. injection Hv as <-.
  assert (Hnc : nc = 0%N \/ nc = 1%N) by (change (2 ^ 1)%N with 2%N in Rc; lia).
  destruct Hnc as [-> | ->]; cbn [Z.of_N Z.eqb Pos.eqb] in Hrw; cbv iota in Hrw;
    injection Hrw as <-; destruct Hin as [<- | []]; cbn [node_of]; unfold lf.
  - assert (Hxy : eval rho (T [L (lit "="); x; y]) = Some (VB (N.eqb n1 n2))).
    { rewrite (eval_bin_intro rho (lit "=") x y _ _ eq_refl eq_refl H1 H2), ap_eq. cbn [length Nat.leb chain].
      now rewrite value_eqb_bv, andb_true_r. }
    rewrite (eval_not_intro rho _ _ Hxy). destruct (N.eqb n1 n2); reflexivity.
  - rewrite (eval_bin_intro rho (lit "=") x y _ _ eq_refl eq_refl H1 H2), ap_eq. cbn [length Nat.leb chain].
    rewrite value_eqb_bv, andb_true_r. destruct (N.eqb n1 n2); reflexivity.
Qed.
