(* Sort preservation of the Boolean, arithmetic and constant-free bit-vector rewrites. *)
From DD Require Import Spec.Typing Model.Rewrites Proofs.Rw.DigitsRT Proofs.Rw.EvalBase Proofs.Rw.BoolRw Proofs.Rw.TypeBase.
Local Open Scope list_scope.

Ltac plain := repeat split; reflexivity.

(* Boolean n-ary operators *)
Lemma bool_nary_2 (b : bool) t1 t2 s :
  (if b && all_eq sBool [t1; t2] then Some sBool else None) = Some s -> t1 = sBool /\ t2 = sBool /\ s = sBool.
Proof.
  destruct b; [|discriminate]. cbn [andb]. destruct (all_eq sBool [t1; t2]) eqn:E; [|discriminate].
  intros H. injection H as <-. apply all_eq_2 in E as [-> ->]. auto.
Qed.

Theorem bool_double_neg_sort : forall g e e' l s,
  rw_bool_double_neg e = Some l -> In e' l -> type_of g e = Some s -> type_of g e' = Some s.
Proof.
  intros g e e' l s Hrw Hin Hty. unfold rw_bool_double_neg in Hrw.
  destruct e as [s0 | [| [h | ?] [| a rest]]]; try (no_prop Hrw Hin).
  destruct (iss h "not") eqn:Eh; cbn [andb] in Hrw; [|no_prop Hrw Hin].
  destruct (is_op a "not") eqn:Ea; [|no_prop Hrw Hin].
  apply iss_eq in Eh. subst h. apply is_op_inv in Ea as (r & ->). cbn [args_of] in Hrw.
  destruct r as [|x r]; [discriminate|]. injection Hrw as <-. destruct Hin as [<- | []].
  apply type_not_inv in Hty as (y & E & Hy & ->). injection E as E1 E2. subst y rest.
  apply type_not_inv in Hy as (z & E & Hz & _). injection E as E1 E2. subst z r. exact Hz.
Qed.

Theorem bool_xor_binary_sort : forall g e e' l s,
  rw_bool_xor_binary e = Some l -> In e' l -> type_of g e = Some s -> type_of g e' = Some s.
Proof.
  intros g e e' l s Hrw Hin Hty. unfold rw_bool_xor_binary in Hrw.
  destruct e as [s0 | [| [h | ?] [| a [| b [| ? ?]]]]]; try (no_prop Hrw Hin).
  destruct (iss h "xor") eqn:Eh; [|no_prop Hrw Hin].
  apply iss_eq in Eh. subst h. injection Hrw as <-. destruct Hin as [<- | []].
  apply type_bin_inv in Hty as (t1 & t2 & H1 & H2 & Hs); [|plain].
  rewrite tapp_xor in Hs. apply bool_nary_2 in Hs as (-> & -> & ->).
  unfold lf. rewrite (type_bin_intro g (lit "distinct") a b _ _ ltac:(plain) H1 H2). reflexivity.
Qed.

(* de Morgan *)
Lemma all_eq_bool_cons t r : all_eq sBool (t :: r) = true -> t = sBool /\ all_eq sBool r = true.
Proof. rewrite all_eq_cons. intros H. apply andb_true_iff in H as [H1 H2]. split; [symmetry; now apply sexp_eqb_eq | exact H2]. Qed.

Lemma negated_types g : forall xs ts,
  type_args g xs = Some ts -> all_eq sBool ts = true ->
  type_args g (map (fun t => T [lf "not"; t]) xs) = Some ts.
Proof.
  induction xs as [|x xs IH]; intros ts Ha Hb.
  - apply type_args_nil_inv in Ha. subst ts. reflexivity.
  - apply type_args_cons_inv in Ha as (t & r & Hx & Hr & ->).
    apply all_eq_bool_cons in Hb as [-> Hb]. cbn [map].
    rewrite type_args_cons, (IH r Hr Hb). unfold lf. rewrite (type_not_intro g x Hx). reflexivity.
Qed.

Theorem bool_de_morgan_sort : forall g e e' l s,
  rw_bool_de_morgan e = Some l -> In e' l -> type_of g e = Some s -> type_of g e' = Some s.
Proof.
  intros g e e' l s Hrw Hin Hty. unfold rw_bool_de_morgan in Hrw.
  destruct e as [s0 | [| [h | ?] [| a rest]]]; try (no_prop Hrw Hin).
  destruct (iss h "not") eqn:Eh; cbn [andb] in Hrw; [|no_prop Hrw Hin].
  apply iss_eq in Eh. subst h.
  apply type_not_inv in Hty as (y & E & Hy & ->). injection E as E1 E2. subst y rest.
  destruct (is_op a "and") eqn:Eand.
  - cbn [orb] in Hrw. injection Hrw as <-. destruct Hin as [<- | []].
    apply is_op_inv in Eand as (r & ->). cbn [args_of].
    apply type_op_inv in Hy as (ts & Ha & Hs); [|plain].
    destruct ts as [|t ts]; [discriminate Hs|]. rewrite tapp_and in Hs.
    destruct (Nat.leb 2 (length (t :: ts))) eqn:El; [|discriminate Hs].
    destruct (all_eq sBool (t :: ts)) eqn:Ee; [|discriminate Hs].
    pose proof (negated_types g r _ Ha Ee) as Hn.
    destruct r as [|x r]; [discriminate Ha|].
    cbn [map] in *. rewrite node_of_cons. unfold lf at 1.
    rewrite (type_op_intro g (lit "or") _ _ ltac:(plain) Hn). rewrite tapp_or, El, Ee. reflexivity.
  - cbn [orb] in Hrw. destruct (is_op a "or") eqn:Eor; [|no_prop Hrw Hin].
    injection Hrw as <-. destruct Hin as [<- | []].
    apply is_op_inv in Eor as (r & ->). cbn [args_of].
    apply type_op_inv in Hy as (ts & Ha & Hs); [|plain].
    destruct ts as [|t ts]; [discriminate Hs|]. rewrite tapp_or in Hs.
    destruct (Nat.leb 2 (length (t :: ts))) eqn:El; [|discriminate Hs].
    destruct (all_eq sBool (t :: ts)) eqn:Ee; [|discriminate Hs].
    pose proof (negated_types g r _ Ha Ee) as Hn.
    destruct r as [|x r]; [discriminate Ha|].
    cbn [map] in *. rewrite node_of_cons. unfold lf at 1.
    rewrite (type_op_intro g (lit "and") _ _ ltac:(plain) Hn). rewrite tapp_and, El, Ee. reflexivity.
Qed.

Theorem bool_implication_sort : forall g h a b e' l s,
  rw_bool_implication (T [L h; a; b]) = Some l -> In e' l ->
  type_of g (T [L h; a; b]) = Some s -> type_of g e' = Some s.
Proof.
  intros g h a b e' l s Hrw Hin Hty. unfold rw_bool_implication in Hrw.
  destruct (iss h "=>") eqn:Eh; [|no_prop Hrw Hin].
  apply iss_eq in Eh. subst h. cbn in Hrw. injection Hrw as <-. destruct Hin as [<- | []].
  apply type_bin_inv in Hty as (t1 & t2 & H1 & H2 & Hs); [|plain].
  rewrite tapp_imp in Hs. apply bool_nary_2 in Hs as (-> & -> & ->).
  change (lf "or") with (L (lit "or")). change (lf "not") with (L (lit "not")).
  rewrite (type_bin_intro g (lit "or") _ b sBool sBool ltac:(plain) (type_not_intro g a H1) H2). reflexivity.
Qed.

(* the environment does not rebind false *)
Theorem bool_false_eq_sort : forall g h a b e' l s,
  assoc (lit "false") (e_vars g) = None ->
  rw_bool_false_eq (T [L h; a; b]) = Some l -> In e' l ->
  type_of g (T [L h; a; b]) = Some s -> type_of g e' = Some s.
Proof.
  intros g h a b e' l s Hfalse Hrw Hin Hty. unfold rw_bool_false_eq in Hrw.
  destruct (iss h "=") eqn:Eh; cbn [andb] in Hrw; [|no_prop Hrw Hin].
  apply iss_eq in Eh. subst h.
  apply type_bin_inv in Hty as (t1 & t2 & H1 & H2 & Hs); [|plain].
  rewrite tapp_eq in Hs. cbn [length Nat.leb andb] in Hs.
  destruct (all_eq t1 [t1; t2]) eqn:Ee; [|discriminate Hs]. injection Hs as <-.
  apply all_eq_2 in Ee as [_ ->].
  assert (Hf : forall t, sexp_eqb t (lf "false") = true -> type_of g t = Some sBool).
  { intros t Ht. apply sexp_eqb_eq in Ht. subst t. unfold lf. cbn [type_of]. rewrite Hfalse. reflexivity. }
  cbn [existsb filter] in Hrw.
  change (sexp_eqb (L (lit "=")) (lf "false")) with false in Hrw. cbn [orb] in Hrw.
  destruct (sexp_eqb a (lf "false")) eqn:Ea; destruct (sexp_eqb b (lf "false")) eqn:Eb;
    cbn [orb negb map make_and olist1] in Hrw; try (no_prop Hrw Hin);
    injection Hrw as <-; destruct Hin as [<- | []]; change (lf "not") with (L (lit "not")).
  - apply Hf in Ea. rewrite H1 in Ea. injection Ea as ->. now apply type_not_intro.
  - apply Hf in Eb. rewrite H2 in Eb. injection Eb as ->. now apply type_not_intro.
Qed.

(* the relations != and <> are not SMT-LIB operators: a user function of that
   name makes the rewrite ill-sorted, so they are excluded *)
Theorem arith_negate_relation_sort : forall g h r x y e' l s,
  iss r "!=" = false -> iss r "<>" = false ->
  rw_arith_negate_relation (T [L h; T [L r; x; y]]) = Some l -> In e' l ->
  type_of g (T [L h; T [L r; x; y]]) = Some s -> type_of g e' = Some s.
Proof.
  intros g h r x y e' l s Hne Hlg Hrw Hin Hty. unfold rw_arith_negate_relation in Hrw.
  destruct (iss h "not") eqn:Eh; [|no_prop Hrw Hin].
  apply iss_eq in Eh. subst h.
  apply type_not_inv in Hty as (t & E & Ht & ->). injection E as <-.
  unfold negator in Hrw. rewrite Hne, Hlg in Hrw.
  repeat match type of Hrw with
         | context [iss r ?s] => let E := fresh "Er" in destruct (iss r s) eqn:E; [apply iss_eq in E; subst r|]
         end;
  cbv beta iota in Hrw;
  try (no_prop Hrw Hin);
  injection Hrw as <-; destruct Hin as [<- | []]; unfold lf;
  apply type_bin_inv in Ht as (t1 & t2 & H1 & H2 & Hs); try plain.
  - rewrite (type_bin_intro g (lit "distinct") x y t1 t2 ltac:(plain) H1 H2). exact Hs.
  - rewrite (type_bin_intro g (lit ">=") x y t1 t2 ltac:(plain) H1 H2). exact Hs.
  - rewrite (type_bin_intro g (lit "<=") x y t1 t2 ltac:(plain) H1 H2). exact Hs.
  - rewrite (type_bin_intro g (lit "<") x y t1 t2 ltac:(plain) H1 H2). exact Hs.
  - rewrite (type_bin_intro g (lit ">") x y t1 t2 ltac:(plain) H1 H2). exact Hs.
  - rewrite (type_bin_intro g (lit "=") x y t1 t2 ltac:(plain) H1 H2). exact Hs.
Qed.

(* ---------- bvnand / double negation ---------- *)
Theorem bv_reflexive_nand_sort : forall g e e' l s,
  rw_bv_reflexive_nand e = Some l -> In e' l -> type_of g e = Some s -> type_of g e' = Some s.
Proof.
  intros g e e' l s Hrw Hin Hty. unfold rw_bv_reflexive_nand in Hrw.
  destruct e as [s0 | [| [h | ?] [| a [| b [| ? ?]]]]]; try (no_prop Hrw Hin).
  destruct (iss h "bvnand") eqn:Eh; cbn [andb] in Hrw; [|no_prop Hrw Hin].
  destruct (sexp_eqb a b) eqn:Eab; [|no_prop Hrw Hin].
  apply iss_eq in Eh. subst h. apply sexp_eqb_eq in Eab. subst b.
  injection Hrw as <-. destruct Hin as [<- | []].
  apply type_bin_inv in Hty as (t1 & t2 & H1 & H2 & Hs); [|plain].
  rewrite tapp_bvnand in Hs. destruct (Typing.bv_width t1) as [w|] eqn:Ew; [|discriminate Hs].
  destruct (Nat.leb 2 (length [t1; t2]) && all_eq t1 [t1; t2]); [|discriminate Hs]. injection Hs as <-.
  unfold lf. rewrite (type_op_intro g (lit "bvnot") [a] [t1] ltac:(plain) (type_args_intro1 _ _ _ H1)).
  rewrite tapp_bvnot, Ew. reflexivity.
Qed.

Lemma type_bvun_inv g op args s :
  plain_op op ->
  (forall t r, type_app g op (t :: r) =
     match Typing.bv_width t with Some _ => if Nat.eqb (length (t :: r)) 1 then Some t else None | None => None end) ->
  type_of g (T (L op :: args)) = Some s -> exists x, args = [x] /\ type_of g x = Some s.
Proof.
  intros Hp Happ H. apply type_op_inv in H as (ts & Ha & Hs); [|exact Hp].
  destruct ts as [|t r]; [discriminate Hs|]. rewrite Happ in Hs.
  destruct (Typing.bv_width t); [|discriminate Hs].
  destruct (Nat.eqb (length (t :: r)) 1) eqn:El; [|discriminate Hs]. injection Hs as <-.
  destruct r as [|? ?]; [|discriminate El]. apply type_args_1 in Ha as (x & -> & Hx). now exists x.
Qed.

Theorem bv_double_neg_sort : forall g e e' l s,
  rw_bv_double_neg e = Some l -> In e' l -> type_of g e = Some s -> type_of g e' = Some s.
Proof.
  intros g e e' l s Hrw Hin Hty. unfold rw_bv_double_neg in Hrw.
  destruct e as [s0 | [| [h | ?] rest]]; try (no_prop Hrw Hin).
  destruct (iss h "bvnot") eqn:Eh; cbn [andb] in Hrw.
  - apply iss_eq in Eh. subst h. change (iss (lit "bvnot") "bvneg") with false in Hrw. cbv iota in Hrw.
    destruct rest as [|a rest]; [no_prop Hrw Hin|].
    destruct (is_op a "bvnot") eqn:Ea; [|no_prop Hrw Hin].
    apply is_op_inv in Ea as (r & ->). cbn [args_of] in Hrw.
    destruct r as [|x r]; [discriminate|]. injection Hrw as <-. destruct Hin as [<- | []].
    apply (type_bvun_inv g (lit "bvnot") _ _ ltac:(plain) (tapp_bvnot g)) in Hty as (y & E & Hy). injection E as E1 E2. subst y rest.
    apply (type_bvun_inv g (lit "bvnot") _ _ ltac:(plain) (tapp_bvnot g)) in Hy as (z & E & Hz). injection E as E1 E2. subst z r.
    exact Hz.
  - destruct (iss h "bvneg") eqn:Eg; [|no_prop Hrw Hin].
    apply iss_eq in Eg. subst h.
    destruct rest as [|a rest]; [discriminate|].
    destruct (is_op a "bvneg") eqn:Ea; [|no_prop Hrw Hin].
    apply is_op_inv in Ea as (r & ->). cbn [args_of] in Hrw.
    destruct r as [|x r]; [discriminate|]. injection Hrw as <-. destruct Hin as [<- | []].
    apply (type_bvun_inv g (lit "bvneg") _ _ ltac:(plain) (tapp_bvneg g)) in Hty as (y & E & Hy). injection E as E1 E2. subst y rest.
    apply (type_bvun_inv g (lit "bvneg") _ _ ltac:(plain) (tapp_bvneg g)) in Hy as (z & E & Hz). injection E as E1 E2. subst z r.
    exact Hz.
Qed.
