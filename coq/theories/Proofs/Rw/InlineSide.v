(* The semantics of a call of a defined function and the side condition of the
   identity of InlineDefinedFuns at a use site (C17, Model/InlineRw.v).
   Definitions only; the proofs are in Proofs/Rw/InlineSubst.v.

   The mutator had NO guard against variable capture (finding F19); after the
   fix, smtlib.__instantiate refuses a call for which inline_guard holds.  The
   side condition inline_side still carries the two conjuncts that the guard
   establishes; inline_side_guarded (Proofs/Rw/InlineGuard.v) drops them. *)
From DD Require Import Spec.Semantics Model.LetRw Model.InlineRw Proofs.Rw.LetSide.
Local Open Scope list_scope.

(* a formal parameter (p S ..) whose name is a leaf *)
Definition formal_ok (f : sexp) : bool := match f with T (L _ :: _) => true | _ => false end.
Definition formal_name (f : sexp) : str := match f with T (L p :: _) => p | _ => [] end.
Definition formal_names (d : defn) : list str := map formal_name (d_formals d).

(* call by value: the actual arguments are evaluated in the valuation of the use
   site, the body in the SAME valuation extended by the parameters *)
Definition call_val (rho : list (str * value)) (d : defn) (args : list sexp) : option value :=
  match opt_all_v (map (eval rho) args) with
  | Some vs => eval (combine (formal_names d) vs ++ rho) (d_body d)
  | None => None
  end.

(* no leaf of a is bound by a binder inside body (the guard of LetSubstitution against capture) *)
Definition no_capture (body a : sexp) : bool :=
  negb (existsb (fun n => is_leaf n && mem_sexp n (bound_syms body)) (subterms a)).

(* SIDE for the call (f a1 .. an) of d = (define-fun f ((p1 S1) .. (pn Sn)) S body):
   - every formal has the shape (p S ..) with a leaf p;
   - the names p are pairwise distinct;
   - every p occurs in the body in term positions only and is not bound again inside the body;
   - for every p that occurs in the body, no leaf of its actual argument is bound inside the body.
   A name p_i may occur in an actual a_j: the substitution is simultaneous. *)
Definition inline_side (d : defn) (args : list sexp) : bool :=
  let ps := formal_names d in
  let body := d_body d in
  forallb formal_ok (d_formals d)
  && distinctb (map L ps)
  && forallb (fun p => term_pos_only p body && negb (mem_sexp (L p) (bound_syms body))) ps
  && forallb (fun pa => negb (occurs (fst pa) body) || no_capture body (snd pa)) (combine ps args).

(* the guard of smtlib.__instantiate (Model/InlineRw.v, instantiate) for formals of the shape (p S ..):
   a binder within the body binds a formal again, or binds a leaf of an actual argument *)
Definition inline_guard (d : defn) (args : list sexp) : bool :=
  existsb (fun f => mem_sexp f (bound_syms (d_body d))) (map L (formal_names d))
  || existsb (fun n => is_leaf n && mem_sexp n (bound_syms (d_body d))) (flat_map subterms args).
