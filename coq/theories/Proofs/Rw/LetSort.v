(* C17, the SORT half for the substitution-based mutators: LetSubstitution
   (Model/LetRw.v) and, through the general lemma [subst_map_type], the beta
   rule of InlineDefinedFuns (Proofs/Rw/InlineSort.v).  The typing function is
   type_of of Spec/Typing.v.

   The side condition term_pos_only of Proofs/Rw/LetSide.v follows eval; it
   does NOT exclude the sort positions of a quantifier: for
   (forall ((y Bool) (z Int)) ..) it checks the first binder with [occurs] but
   the following ones with term_pos_only, which accepts a leaf.  [type_pos_only]
   follows type_of instead: the binder list of forall/exists must not mention
   the name at all, of an annotation (! t ..) only t is looked at. *)
From DD Require Import Spec.Semantics Spec.Typing Model.Rewrites Model.LetRw Model.InlineRw.
From DD Require Import Proofs.Rw.EvalBase Proofs.Rw.TypeBase Proofs.Rw.LetSide Proofs.Rw.LetSubst Proofs.Rw.InlineSubst.
Local Open Scope list_scope.

(* ================= the side condition ================= *)
(* x occurs in e only where type_of types a term *)
Fixpoint type_pos_only (x : str) (e : sexp) : bool :=
  match e with
  | L _ => true
  | T [] => true
  | T (L h :: args) =>
      negb (str_eqb h x) &&
      (if Typing.is h "_" then forallb (fun a => negb (occurs x a)) args
       else if Typing.is h "let" then
         match args with
         | [T bs; body] =>
             forallb (fun b => match b with T [L _; t] => type_pos_only x t | _ => true end) bs
             && type_pos_only x body
         | _ => true
         end
       else if Typing.is h "forall" || Typing.is h "exists" then
         match args with
         | [T vs; body] => negb (occurs x (T vs)) && type_pos_only x body
         | _ => true
         end
       else if Typing.is h "!" then
         match args with t :: _ => type_pos_only x t | [] => true end
       else forallb (type_pos_only x) args)
  | T (T hd :: args) => negb (occurs x (T hd)) && forallb (type_pos_only x) args
  end.

(* SIDE for the whole let, for sorts: the let binds pairwise distinct symbols
   and every bound name occurs in the body in typed positions only *)
Definition let_side_ty (e : sexp) : bool :=
  match e with
  | T (_ :: T bs :: body :: _) =>
      distinctb (binder_vars e)
      && forallb (fun b => match b with T (L x :: _) => type_pos_only x body | _ => true end) bs
  | _ => true
  end.

(* the part of type_pos_only that term_pos_only does not give: x does not occur
   in the binder list of a quantifier (that type_of reaches) *)
Fixpoint quant_free (x : str) (e : sexp) : bool :=
  match e with
  | L _ => true
  | T [] => true
  | T (L h :: args) =>
      if Typing.is h "_" then true
      else if Typing.is h "let" then
         match args with
         | [T bs; body] =>
             forallb (fun b => match b with T [L _; t] => quant_free x t | _ => true end) bs
             && quant_free x body
         | _ => true
         end
      else if Typing.is h "forall" || Typing.is h "exists" then
         match args with
         | [T vs; body] => negb (occurs x (T vs)) && quant_free x body
         | _ => true
         end
      else forallb (quant_free x) args
  | T (T hd :: args) => forallb (quant_free x) args
  end.

Definition let_quant_side (e : sexp) : bool :=
  match e with
  | T (_ :: T bs :: body :: _) =>
      forallb (fun b => match b with T (L x :: _) => quant_free x body | _ => true end) bs
  | _ => true
  end.

Lemma typo_app x h args :
  type_pos_only x (T (L h :: args)) =
  negb (str_eqb h x) &&
  (if Typing.is h "_" then forallb (fun a => negb (occurs x a)) args
   else if Typing.is h "let" then
     match args with
     | [T bs; body] =>
         forallb (fun b => match b with T [L _; t] => type_pos_only x t | _ => true end) bs
         && type_pos_only x body
     | _ => true
     end
   else if Typing.is h "forall" || Typing.is h "exists" then
     match args with
     | [T vs; body] => negb (occurs x (T vs)) && type_pos_only x body
     | _ => true
     end
   else if Typing.is h "!" then
     match args with t :: _ => type_pos_only x t | [] => true end
   else forallb (type_pos_only x) args).
Proof. reflexivity. Qed.

Lemma typo_idx x hd args :
  type_pos_only x (T (T hd :: args)) = negb (occurs x (T hd)) && forallb (type_pos_only x) args.
Proof. reflexivity. Qed.

Lemma qfree_app x h args :
  quant_free x (T (L h :: args)) =
  if Typing.is h "_" then true
  else if Typing.is h "let" then
     match args with
     | [T bs; body] =>
         forallb (fun b => match b with T [L _; t] => quant_free x t | _ => true end) bs
         && quant_free x body
     | _ => true
     end
  else if Typing.is h "forall" || Typing.is h "exists" then
     match args with
     | [T vs; body] => negb (occurs x (T vs)) && quant_free x body
     | _ => true
     end
  else forallb (quant_free x) args.
Proof. reflexivity. Qed.

(* ================= lists of options, association lists ================= *)
Lemma opt_all_cons' {A} (o : option A) l :
  opt_all (o :: l) = match o, opt_all l with Some a, Some r => Some (a :: r) | _, _ => None end.
Proof. reflexivity. Qed.

Lemma opt_all_cons_inv' {A} (o : option A) l r :
  opt_all (o :: l) = Some r -> exists a r', o = Some a /\ opt_all l = Some r' /\ r = a :: r'.
Proof.
  rewrite opt_all_cons'. destruct o as [a|]; [|discriminate]. destruct (opt_all l) as [r'|]; [|discriminate].
  intros [= <-]. now exists a, r'.
Qed.

Lemma opt_all_fwd {A} (f g : sexp -> option A) : forall l r,
  (forall a p, In a l -> f a = Some p -> g a = Some p) ->
  opt_all (map f l) = Some r -> opt_all (map g l) = Some r.
Proof.
  induction l as [| a l IH]; intros r Hf H; [exact H|].
  cbn [map] in *. apply opt_all_cons_inv' in H as (p & r' & Hp & Hr & ->).
  rewrite opt_all_cons', (Hf a p (or_introl eq_refl) Hp), (IH r'); [reflexivity | | assumption].
  intros b q Hb. apply Hf. now right.
Qed.

Lemma opt_all_In {A} (f : sexp -> option A) : forall l r a,
  opt_all (map f l) = Some r -> In a l -> exists p, f a = Some p.
Proof.
  induction l as [| b l IH]; intros r a H Hin; [destruct Hin|].
  cbn [map] in H. apply opt_all_cons_inv' in H as (p & r' & Hp & Hr & ->).
  destruct Hin as [<- | Hin]; [now exists p | now apply (IH r')].
Qed.

Lemma assoc_app {A} s : forall (b r : list (str * A)),
  Typing.assoc s (b ++ r) = match Typing.assoc s b with Some v => Some v | None => Typing.assoc s r end.
Proof.
  induction b as [| [y v] b IH]; intros r; [reflexivity|].
  cbn [app Typing.assoc]. destruct (str_eqb y s); [reflexivity | apply IH].
Qed.

Lemma assoc_notin {A} s : forall (b : list (str * A)), (forall y v, In (y, v) b -> y <> s) -> Typing.assoc s b = None.
Proof.
  induction b as [| [y v] b IH]; intros H; [reflexivity|].
  cbn [Typing.assoc]. destruct (str_eqb y s) eqn:E.
  - apply str_eqb_eq in E. exfalso. apply (H y v); [now left | assumption].
  - apply IH. intros z w Hz. apply (H z w). now right.
Qed.

Lemma assoc_app_notin {A} s (b r : list (str * A)) :
  (forall y v, In (y, v) b -> y <> s) -> Typing.assoc s (b ++ r) = Typing.assoc s r.
Proof. intros H. now rewrite assoc_app, assoc_notin. Qed.

(* ================= unfolding type_of ================= *)
Definition leaf_default (ds : list dtype) (s : str) : option sexp :=
  match leaf_const_sort s with
  | Some so => Some so
  | None =>
      if is_decimal s then Some sReal
      else if mem_s s ["RNE"; "RNA"; "RTP"; "RTN"; "RTZ"]%string then Some sRM
      else match find_cons ds s with
           | Some (d, []) => Some d
           | _ => None
           end
  end.

Lemma type_of_leaf g s :
  type_of g (L s) = match Typing.assoc s (e_vars g) with Some so => Some so | None => leaf_default (e_dts g) s end.
Proof. reflexivity. Qed.

Lemma type_of_us g1 g2 h args :
  Typing.is h "_" = true -> type_of g1 (T (L h :: args)) = type_of g2 (T (L h :: args)).
Proof. intros H. cbn [type_of]. rewrite H. reflexivity. Qed.

Definition type_binding (g : env) (b : sexp) : option (str * sexp) :=
  match b with
  | T [L x; t] => match type_of g t with Some so => Some (x, so) | None => None end
  | _ => None
  end.

Definition quant_binding (b : sexp) : option (str * sexp) :=
  match b with T [L x; so] => Some (x, so) | _ => None end.

Lemma type_of_let g h args :
  Typing.is h "_" = false -> Typing.is h "let" = true ->
  type_of g (T (L h :: args)) =
  match args with
  | [T bs; body] =>
      match opt_all (map (type_binding g) bs) with
      | Some bound => type_of (bind_vars g bound) body
      | None => None
      end
  | _ => None
  end.
Proof. intros H1 H2. cbn [type_of]. rewrite H1, H2. reflexivity. Qed.

Lemma type_of_quant g h args :
  Typing.is h "_" = false -> Typing.is h "let" = false ->
  Typing.is h "forall" || Typing.is h "exists" = true ->
  type_of g (T (L h :: args)) =
  match args with
  | [T vs; body] =>
      match opt_all (map quant_binding vs) with
      | Some bound => match type_of (bind_vars g bound) body with
                      | Some so => if sexp_eqb so sBool then Some sBool else None
                      | None => None
                      end
      | None => None
      end
  | _ => None
  end.
Proof. intros H1 H2 H3. cbn [type_of]. rewrite H1, H2, H3. reflexivity. Qed.

Lemma type_of_bang g h args :
  Typing.is h "_" = false -> Typing.is h "let" = false ->
  Typing.is h "forall" || Typing.is h "exists" = false -> Typing.is h "!" = true ->
  type_of g (T (L h :: args)) = match args with t :: _ => type_of g t | [] => None end.
Proof. intros H1 H2 H3 H4. cbn [type_of]. rewrite H1, H2, H3, H4. reflexivity. Qed.

Lemma plain_of h :
  Typing.is h "_" = false -> Typing.is h "let" = false ->
  Typing.is h "forall" || Typing.is h "exists" = false -> Typing.is h "!" = false -> plain_op h.
Proof. intros H1 H2 H3 H4. apply orb_false_iff in H3 as [H3 H3']. repeat split; assumption. Qed.

Lemma type_of_idx g u op idx args :
  type_of g (T (T (L u :: L op :: idx) :: args)) =
  if Typing.is u "_" then
    match opt_all (map idx_str idx), type_args g args with
    | Some ix, Some ts => type_indexed op ix ts
    | _, _ => None
    end
  else None.
Proof. reflexivity. Qed.

Lemma type_app_ext g1 g2 h ts :
  e_funs g1 = e_funs g2 -> e_dts g1 = e_dts g2 -> type_app g1 h ts = type_app g2 h ts.
Proof. intros Hf Hd. unfold type_app. rewrite Hf, Hd. reflexivity. Qed.

Lemma type_binding_inv g b p :
  type_binding g b = Some p -> exists x t so, b = T [L x; t] /\ type_of g t = Some so /\ p = (x, so).
Proof.
  destruct b as [s | [| [x | ?] [| t [| ? ?]]]]; cbn [type_binding]; try discriminate.
  destruct (type_of g t) as [so|] eqn:E; [|discriminate]. intros [= <-]. exists x, t, so. repeat split; assumption.
Qed.

Lemma quant_binding_inv b p : quant_binding b = Some p -> exists x so, b = T [L x; so] /\ p = (x, so).
Proof.
  destruct b as [s | [| [x | ?] [| so [| ? ?]]]]; cbn [quant_binding]; try discriminate.
  intros [= <-]. now exists x, so.
Qed.

(* the names bound by typed bindings *)
Lemma tbound_names g : forall bs bound y w,
  opt_all (map (type_binding g) bs) = Some bound -> In (y, w) bound -> exists t, In (T [L y; t]) bs.
Proof.
  induction bs as [| b bs IH]; intros bound y w H Hin.
  - cbn in H. injection H as <-. destruct Hin.
  - cbn [map] in H. apply opt_all_cons_inv' in H as (p & r & Hp & Hr & ->).
    destruct Hin as [-> | Hin].
    + apply type_binding_inv in Hp as (x & t & so & -> & _ & [= <- <-]). exists t. now left.
    + destruct (IH r y w Hr Hin) as (t & Ht). exists t. now right.
Qed.

Lemma qbound_names : forall vs bound y w,
  opt_all (map quant_binding vs) = Some bound -> In (y, w) bound -> In (T [L y; w]) vs.
Proof.
  induction vs as [| b vs IH]; intros bound y w H Hin.
  - cbn in H. injection H as <-. destruct Hin.
  - cbn [map] in H. apply opt_all_cons_inv' in H as (p & r & Hp & Hr & ->).
    destruct Hin as [-> | Hin].
    + apply quant_binding_inv in Hp as (x & so & -> & [= <- <-]). now left.
    + right. now apply (IH r).
Qed.

Lemma type_args_ext g1 g2 args :
  (forall a, In a args -> type_of g1 a = type_of g2 a) -> type_args g1 args = type_args g2 args.
Proof. intros H. unfold type_args. f_equal. now apply map_ext_in. Qed.

Lemma type_args_fwd2 g1 g2 (f : sexp -> sexp) args ts :
  (forall a p, In a args -> type_of g1 a = Some p -> type_of g2 (f a) = Some p) ->
  type_args g1 args = Some ts -> type_args g2 (map f args) = Some ts.
Proof.
  intros Hf H. unfold type_args in *. rewrite map_map.
  now apply (opt_all_fwd (type_of g1) (fun a => type_of g2 (f a)) args ts).
Qed.

Lemma binder_vars_quant h vs body rest y r :
  Typing.is h "forall" || Typing.is h "exists" = true ->
  In (T (L y :: r)) vs -> In (L y) (binder_vars (T (L h :: T vs :: body :: rest))).
Proof.
  intros Hh Hin. apply orb_true_iff in Hh as [Hh | Hh]; apply is_eq in Hh; subst h; unfold binder_vars.
  - change (iss (lit "forall") "let" || iss (lit "forall") "forall" || iss (lit "forall") "exists" || iss (lit "forall") "lambda") with true.
    cbv iota. apply in_flat_map. exists (T (L y :: r)). split; [assumption | now left].
  - change (iss (lit "exists") "let" || iss (lit "exists") "forall" || iss (lit "exists") "exists" || iss (lit "exists") "lambda") with true.
    cbv iota. apply in_flat_map. exists (T (L y :: r)). split; [assumption | now left].
Qed.

(* ================= coincidence ================= *)
(* type_of depends only on the e_vars bindings of the leaves of the term (and on e_funs, e_dts) *)
Lemma type_coincidence : forall t g1 g2,
  e_funs g1 = e_funs g2 -> e_dts g1 = e_dts g2 ->
  (forall s, In (L s) (subterms t) -> Typing.assoc s (e_vars g1) = Typing.assoc s (e_vars g2)) ->
  type_of g1 t = type_of g2 t.
Proof.
  induction t as [s | l IH] using sexp_sub_ind; intros g1 g2 Hf Hd Hag.
  - rewrite !type_of_leaf, (Hag s (sub_refl _)), Hd. reflexivity.
  - assert (Hsub : forall a c, In a l -> In c (subterms a) -> forall s, In (L s) (subterms c) ->
                   Typing.assoc s (e_vars g1) = Typing.assoc s (e_vars g2)).
    { intros a c Ha Hc s Hs. apply Hag. apply (sub_child l a (L s) Ha). now apply (sub_trans a (L s) c). }
    assert (Hargs : forall args, incl args l -> type_args g1 args = type_args g2 args).
    { intros args Hi. apply type_args_ext. intros a Ha. apply (IH a a (Hi a Ha) (sub_refl a)); try assumption.
      apply (Hsub a a (Hi a Ha) (sub_refl a)). }
    assert (Hext : forall bound c, In c l -> forall s, In (L s) (subterms c) ->
              Typing.assoc s (e_vars (bind_vars g1 bound)) = Typing.assoc s (e_vars (bind_vars g2 bound))).
    { intros bound c Hc s Hs. cbn [bind_vars e_vars]. rewrite !assoc_app.
      rewrite (Hsub c c Hc (sub_refl _) s Hs). reflexivity. }
    destruct l as [| [h | hl] args]; [reflexivity | |].
    + destruct (Typing.is h "_") eqn:E1; [now apply type_of_us|].
      destruct (Typing.is h "let") eqn:E2.
      * rewrite !type_of_let by assumption.
        destruct args as [| [s | bs] [| body [| ? ?]]]; try reflexivity.
        assert (Hbs : map (type_binding g1) bs = map (type_binding g2) bs).
        { apply map_ext_in. intros b Hb.
          destruct b as [s | [| [x | ?] [| t [| ? ?]]]]; try reflexivity. cbn [type_binding].
          assert (Hin : In t (subterms (T bs))).
          { apply (sub_child bs (T [L x; t]) t Hb). apply (sub_child [L x; t] t); [right; now left | apply sub_refl]. }
          rewrite (IH (T bs) t (or_intror (or_introl eq_refl)) Hin g1 g2); [reflexivity | assumption | assumption |].
          apply (Hsub (T bs) t); [right; now left | assumption]. }
        rewrite Hbs. destruct (opt_all (map (type_binding g2) bs)) as [bound|]; [|reflexivity].
        apply (IH body body); [right; right; now left | apply sub_refl | assumption | assumption |].
        apply Hext. right; right; now left.
      * destruct (Typing.is h "forall" || Typing.is h "exists") eqn:E3.
        -- rewrite !type_of_quant by assumption.
           destruct args as [| [s | vs] [| body [| ? ?]]]; try reflexivity.
           destruct (opt_all (map quant_binding vs)) as [bound|]; [|reflexivity].
           rewrite (IH body body (or_intror (or_intror (or_introl eq_refl))) (sub_refl _)
                      (bind_vars g1 bound) (bind_vars g2 bound)); [reflexivity | assumption | assumption |].
           apply Hext. right; right; now left.
        -- destruct (Typing.is h "!") eqn:E4.
           ++ rewrite !type_of_bang by assumption. destruct args as [| t r]; [reflexivity|].
              apply (IH t t); [right; now left | apply sub_refl | assumption | assumption |].
              apply (Hsub t t); [right; now left | apply sub_refl].
           ++ rewrite !type_op by (now apply plain_of). rewrite (Hargs args) by (intros a Ha; now right).
              destruct (type_args g2 args) as [ts|]; [now apply type_app_ext | reflexivity].
    + destruct hl as [| [u | ?] [| [op | ?] idx]]; try reflexivity.
      rewrite !type_of_idx. rewrite (Hargs args) by (intros a Ha; now right). reflexivity.
Qed.

(* ================= the substitution lemma (simultaneous, two environments) ================= *)
Section SubstMapTy.
  Variable m : list (sexp * sexp).
  (* the keys are leaves *)
  Hypothesis Hkeys : forall k a, In (k, a) m -> exists p, k = L p.

  (* the two environments, on the leaves of c: a key has in g_in the sort that its
     replacement has in g_out, any other leaf is looked up alike *)
  Definition trel (c : sexp) (gi go : env) : Prop :=
    forall s, In (L s) (subterms c) ->
      match assoc_last m (L s) with
      | Some a => exists so, Typing.assoc s (e_vars gi) = Some so /\ type_of go a = Some so
      | None => Typing.assoc s (e_vars gi) = Typing.assoc s (e_vars go)
      end.

  Lemma trel_sub c c' gi go : In c' (subterms c) -> trel c gi go -> trel c' gi go.
  Proof. intros Hc H s Hs. apply H. now apply (sub_trans c (L s) c'). Qed.

  (* both environments extended by binders of B that bind no key occurring in B and no leaf of its replacement *)
  Lemma trel_bind B c gi go bound :
    safe m B -> In c (subterms B) -> trel B gi go ->
    (forall y w, In (y, w) bound -> In (L y) (bound_syms B)) ->
    trel c (bind_vars gi bound) (bind_vars go bound).
  Proof.
    intros Hsafe Hc Hrel Hb s Hs.
    assert (HsB : In (L s) (subterms B)) by (now apply (sub_trans B (L s) c)).
    specialize (Hrel s HsB). cbn [bind_vars e_vars].
    destruct (assoc_last m (L s)) as [a|] eqn:Ea.
    - destruct Hrel as (sa & Hlk & Hsa). destruct (Hsafe s a HsB Ea) as [Hs1 Hs2].
      exists sa. split.
      + rewrite assoc_app_notin; [assumption|]. intros y w Hy ->. apply Hs1. now apply (Hb s w).
      + rewrite <- Hsa. apply type_coincidence; [reflexivity | reflexivity |].
        intros z Hz. cbn [e_vars]. apply assoc_app_notin. intros y w Hy ->. apply (Hs2 z Hz). now apply (Hb z w).
    - rewrite !assoc_app, Hrel. reflexivity.
  Qed.

  Lemma subst_map_type : forall b gi go so,
    e_funs gi = e_funs go -> e_dts gi = e_dts go ->
    trel b gi go -> (forall p, key m p -> type_pos_only p b = true) -> safe m b ->
    type_of gi b = Some so -> type_of go (subst_map m b) = Some so.
  Proof.
    induction b as [s | l IH] using sexp_sub_ind; intros gi go so Hf Hd Hrel Htp Hsafe Hty.
    - rewrite subst_map_L. specialize (Hrel s (sub_refl _)). rewrite type_of_leaf in Hty.
      destruct (assoc_last m (L s)) as [a|].
      + destruct Hrel as (sa & Hlk & Ha). rewrite Hlk in Hty. now rewrite Ha.
      + rewrite type_of_leaf, <- Hrel, <- Hd. exact Hty.
    - rewrite (subst_map_T m Hkeys).
      assert (Hch : forall a c, In a l -> In c (subterms a) -> (forall p, key m p -> type_pos_only p c = true) ->
                    forall gi' go' so', e_funs gi' = e_funs go' -> e_dts gi' = e_dts go' -> trel c gi' go' ->
                    type_of gi' c = Some so' -> type_of go' (subst_map m c) = Some so').
      { intros a c Ha Hc Htc gi' go' so' Hf' Hd' Hrel' Hty'. apply (IH a c Ha Hc gi' go' so'); try assumption.
        apply (safe_sub m (T l) c); [now apply (sub_child l a) | assumption]. }
      destruct l as [| [h | hl] args]; [discriminate Hty | |].
      + cbn [map].
        assert (Hh : assoc_last m (L h) = None).
        { destruct (assoc_last m (L h)) as [a|] eqn:E; [|reflexivity]. apply assoc_key in E. specialize (Htp h E).
          rewrite typo_app, str_eqb_refl in Htp. discriminate Htp. }
        rewrite subst_map_L, Hh.
        assert (Htp2 : forall p, key m p ->
                  (if Typing.is h "_" then forallb (fun a => negb (occurs p a)) args
                   else if Typing.is h "let" then
                     match args with
                     | [T bs; body] =>
                         forallb (fun b => match b with T [L _; t] => type_pos_only p t | _ => true end) bs
                         && type_pos_only p body
                     | _ => true
                     end
                   else if Typing.is h "forall" || Typing.is h "exists" then
                     match args with
                     | [T vs; body] => negb (occurs p (T vs)) && type_pos_only p body
                     | _ => true
                     end
                   else if Typing.is h "!" then
                     match args with t :: _ => type_pos_only p t | [] => true end
                   else forallb (type_pos_only p) args) = true).
        { intros p Hp. specialize (Htp p Hp). rewrite typo_app in Htp. now apply andb_true_iff in Htp as [_ Htp]. }
        destruct (Typing.is h "_") eqn:E1.
        { rewrite (subst_map_noocc_list m Hkeys); [| exact Htp2].
          rewrite <- Hty. now apply type_of_us. }
        destruct (Typing.is h "let") eqn:E2.
        * rewrite type_of_let in Hty |- * by assumption.
          destruct args as [| [s | bs] [| body [| ? ?]]]; try discriminate Hty.
          cbn [map]. rewrite (subst_map_T m Hkeys).
          destruct (opt_all (map (type_binding gi) bs)) as [bound|] eqn:Eb; [|discriminate Hty].
          assert (Htp' : forall p, key m p ->
                    forallb (fun b => match b with T [L _; t] => type_pos_only p t | _ => true end) bs = true
                    /\ type_pos_only p body = true).
          { intros p Hp. specialize (Htp2 p Hp). now apply andb_true_iff in Htp2. }
          assert (Hbs : In (T bs) (L h :: T bs :: [body])) by (right; now left).
          assert (Hnames : forall y r, In (T (L y :: r)) bs -> In (L y) (bound_syms (T (L h :: T bs :: [body])))).
          { intros y r Hy. apply bound_syms_self. apply binder_vars_let with (r := r); [exact E2 | exact Hy]. }
          rewrite map_map.
          rewrite (opt_all_fwd (type_binding gi) (fun b => type_binding go (subst_map m b)) bs bound); [| | exact Eb].
          -- apply (Hch body body) with (gi' := bind_vars gi bound);
               [right; right; now left | apply sub_refl | intros p Hp; apply (Htp' p Hp) | exact Hf | exact Hd | | exact Hty].
             apply (trel_bind (T (L h :: T bs :: [body]))); [assumption | | assumption |].
             ++ apply (sub_child _ body); [right; right; now left | apply sub_refl].
             ++ intros y w Hy. destruct (tbound_names gi bs bound y w Eb Hy) as (ty & Hty'). now apply (Hnames y [ty]).
          -- intros b p Hb Hp. apply type_binding_inv in Hp as (y & ty & w & -> & Hty' & ->).
             rewrite (subst_map_T m Hkeys). cbn [map].
             assert (Hy : assoc_last m (L y) = None).
             { destruct (assoc_last m (L y)) as [a|] eqn:Ea; [|reflexivity]. exfalso.
               assert (HyT : In (L y) (subterms (T (L h :: T bs :: [body])))).
               { apply (sub_child _ (T bs) (L y) Hbs). apply (sub_child bs (T [L y; ty]) (L y) Hb).
                 apply (sub_child [L y; ty] (L y)); [now left | apply sub_refl]. }
               destruct (Hsafe y a HyT Ea) as [Hs1 _]. apply Hs1. now apply (Hnames y [ty]). }
             rewrite subst_map_L, Hy. cbn [type_binding].
             assert (Hin : In ty (subterms (T bs))).
             { apply (sub_child bs (T [L y; ty]) ty Hb). apply (sub_child [L y; ty] ty); [right; now left | apply sub_refl]. }
             rewrite (Hch (T bs) ty Hbs Hin) with (gi' := gi) (so' := w); [reflexivity | | exact Hf | exact Hd | | exact Hty'].
             ++ intros q Hq. destruct (Htp' q Hq) as [Hq1 _]. rewrite forallb_forall in Hq1. apply (Hq1 _ Hb).
             ++ apply (trel_sub (T (L h :: T bs :: [body])) ty); [|assumption]. apply (sub_child _ (T bs) ty Hbs Hin).
        * destruct (Typing.is h "forall" || Typing.is h "exists") eqn:E3.
          -- rewrite type_of_quant in Hty |- * by assumption.
             destruct args as [| [s | vs] [| body [| ? ?]]]; try discriminate Hty.
             cbn [map].
             assert (Hvs : subst_map m (T vs) = T vs).
             { apply (subst_map_noocc m Hkeys). intros p Hp. specialize (Htp2 p Hp).
               apply andb_true_iff in Htp2 as [Hocc _]. now apply negb_true_iff in Hocc. }
             rewrite Hvs.
             destruct (opt_all (map quant_binding vs)) as [bound|] eqn:Eb; [|discriminate Hty].
             destruct (type_of (bind_vars gi bound) body) as [sb|] eqn:Etb; [|discriminate Hty].
             rewrite (Hch body body) with (gi' := bind_vars gi bound) (so' := sb);
               [exact Hty | right; right; now left | apply sub_refl | | exact Hf | exact Hd | | exact Etb].
             ++ intros p Hp. specialize (Htp2 p Hp). now apply andb_true_iff in Htp2 as [_ Htp2].
             ++ apply (trel_bind (T (L h :: T vs :: [body]))); [assumption | | assumption |].
                ** apply (sub_child _ body); [right; right; now left | apply sub_refl].
                ** intros y w Hy. apply qbound_names with (y := y) (w := w) in Eb; [|exact Hy].
                   apply bound_syms_self. apply binder_vars_quant with (r := [w]); [exact E3 | exact Eb].
          -- destruct (Typing.is h "!") eqn:E4.
             ++ rewrite type_of_bang in Hty |- * by assumption.
                destruct args as [| t r]; [discriminate Hty|]. cbn [map].
                apply (Hch t t) with (gi' := gi); [right; now left | apply sub_refl | exact Htp2 | exact Hf | exact Hd | | exact Hty].
                apply (trel_sub (T (L h :: t :: r)) t); [|assumption]. apply (sub_child _ t); [right; now left | apply sub_refl].
             ++ rewrite type_op in Hty |- * by (now apply plain_of).
                destruct (type_args gi args) as [ts|] eqn:Ea; [|discriminate Hty].
                rewrite (type_args_fwd2 gi go (subst_map m) args ts); [now rewrite <- (type_app_ext gi go) | | exact Ea].
                intros a p Ha Hp.
                apply (Hch a a) with (gi' := gi); [now right | apply sub_refl | | exact Hf | exact Hd | | exact Hp].
                ** intros q Hq. specialize (Htp2 q Hq). rewrite forallb_forall in Htp2. now apply Htp2.
                ** apply (trel_sub (T (L h :: args)) a); [|assumption]. apply (sub_child _ a); [now right | apply sub_refl].
      + cbn [map].
        assert (Hhd : subst_map m (T hl) = T hl).
        { apply (subst_map_noocc m Hkeys). intros p Hp. specialize (Htp p Hp). rewrite typo_idx in Htp.
          apply andb_true_iff in Htp as [Hocc _]. now apply negb_true_iff in Hocc. }
        rewrite Hhd.
        destruct hl as [| [u | ?] [| [op | ?] idx]]; try (cbn [type_of] in Hty; discriminate Hty).
        rewrite type_of_idx in Hty |- *.
        destruct (Typing.is u "_"); [|discriminate Hty].
        destruct (opt_all (map idx_str idx)) as [ix|]; [|discriminate Hty].
        destruct (type_args gi args) as [ts|] eqn:Ea; [|discriminate Hty].
        rewrite (type_args_fwd2 gi go (subst_map m) args ts); [exact Hty | | exact Ea].
        intros a p Ha Hp.
        apply (Hch a a) with (gi' := gi); [now right | apply sub_refl | | exact Hf | exact Hd | | exact Hp].
        -- intros q Hq. specialize (Htp q Hq). rewrite typo_idx in Htp.
           apply andb_true_iff in Htp as [_ Htp]. rewrite forallb_forall in Htp. now apply Htp.
        -- apply (trel_sub (T (T (L u :: L op :: idx) :: args)) a); [|assumption].
           apply (sub_child _ a); [now right | apply sub_refl].
  Qed.
End SubstMapTy.

(* ================= one key: subst_all ================= *)
Lemma str_eqb_sym a b : str_eqb a b = str_eqb b a.
Proof.
  destruct (str_eqb a b) eqn:E1, (str_eqb b a) eqn:E2; try reflexivity.
  - apply str_eqb_eq in E1. subst b. rewrite str_eqb_refl in E2. discriminate E2.
  - apply str_eqb_eq in E2. subst b. rewrite str_eqb_refl in E1. discriminate E1.
Qed.

Lemma subst_all_map x t : forall e, subst_all (L x) t e = subst_map [(L x, t)] e.
Proof.
  induction e as [s | l IH] using sexp_ind'.
  - rewrite subst_L, subst_map_unfold. cbn [assoc_last sexp_eqb]. rewrite (str_eqb_sym x s).
    destruct (str_eqb s x); reflexivity.
  - rewrite subst_T, subst_map_unfold. cbn [assoc_last sexp_eqb]. f_equal.
    rewrite Forall_forall in IH. now apply map_ext_in.
Qed.

(* In an environment where x has the sort of t, replacing x by t in b keeps the
   sort of b, if no binder of b binds x or a leaf of t and x occurs in b in
   typed positions only. *)
Lemma subst_type x t st b g so :
  Typing.assoc x (e_vars g) = Some st -> type_of g t = Some st ->
  (forall s, s = x \/ In (L s) (subterms t) -> ~ In (L s) (bound_syms b)) ->
  type_pos_only x b = true ->
  type_of g b = Some so -> type_of g (subst_all (L x) t b) = Some so.
Proof.
  intros Hx Ht Hnb Htp Hty. rewrite subst_all_map.
  assert (Hk : forall k a, In (k, a) [(L x, t)] -> exists p, k = L p).
  { intros k a [H | []]. injection H as <- <-. now exists x. }
  apply (subst_map_type [(L x, t)] Hk b g g so eq_refl eq_refl); [| | | exact Hty].
  - intros s Hs. cbn [assoc_last sexp_eqb]. destruct (str_eqb x s) eqn:E; [|reflexivity].
    apply str_eqb_eq in E. subst s. exists st. now split.
  - intros p Hp. unfold key in Hp. cbn [map fst] in Hp. destruct Hp as [Hp | []]. injection Hp as <-. exact Htp.
  - intros s a Hs Ha. cbn [assoc_last sexp_eqb] in Ha. destruct (str_eqb x s) eqn:E; [|discriminate Ha].
    injection Ha as <-. apply str_eqb_eq in E. subst s. split.
    + apply Hnb. now left.
    + intros y Hy. apply Hnb. now right.
Qed.

(* ================= the let at the root ================= *)
(* the sort found for x is the sort of the first binding named x *)
Lemma tlookup_first g x t : forall bs bound,
  opt_all (map (type_binding g) bs) = Some bound ->
  first_named x (T [L x; t]) bs = true ->
  exists st, type_of g t = Some st /\ Typing.assoc x bound = Some st.
Proof.
  induction bs as [| b bs IH]; intros bound H Hf; [discriminate Hf|].
  cbn [map] in H. apply opt_all_cons_inv' in H as (p & r & Hp & Hr & ->).
  apply type_binding_inv in Hp as (y & ty & w & -> & Hty & ->).
  cbn [first_named] in Hf. cbn [Typing.assoc]. destruct (str_eqb y x) eqn:E.
  - apply sexp_eqb_eq in Hf. injection Hf as _ <-. now exists w.
  - now apply IH.
Qed.

(* one proposal: the binding (x t) is substituted *)
Lemma let_subst_var_sort h bs body x t l e' g so :
  Typing.is h "let" = true ->
  let_subst_var (L h) (T bs) body (bound_syms (T [L h; T bs; body])) (T [L x; t]) = Some l -> In e' l ->
  first_named x (T [L x; t]) bs = true -> type_pos_only x body = true ->
  type_of g (T [L h; T bs; body]) = Some so -> type_of g e' = Some so.
Proof.
  intros Hh Hv Hin Hf Htp Hty. pose proof (is_eq _ _ Hh) as ->.
  rewrite type_of_let in Hty by reflexivity.
  destruct (opt_all (map (type_binding g) bs)) as [bound|] eqn:Eb; [|discriminate Hty].
  destruct (tlookup_first g x t bs bound Eb Hf) as (st & Hst & Hlk).
  set (e := T [L (lit "let"); T bs; body]) in *.
  unfold let_subst_var in Hv.
  destruct (mem_sexp (L x) (subterms t)); [injection Hv as <-; destruct Hin|].
  destruct (mem_sexp (L x) (bound_syms body)) eqn:G2; [injection Hv as <-; destruct Hin|].
  destruct (existsb (fun n => is_leaf n && mem_sexp n (bound_syms e)) (subterms t)) eqn:G3; [injection Hv as <-; destruct Hin|].
  destruct (mem_sexp (L x) (subterms body)); injection Hv as <-; [|destruct Hin].
  destruct Hin as [<- | []].
  assert (HG3 : forall s, In (L s) (subterms t) -> ~ In (L s) (bound_syms e)).
  { intros s Hs Hb. enough (Htrue : existsb (fun n => is_leaf n && mem_sexp n (bound_syms e)) (subterms t) = true) by congruence.
    apply existsb_exists. exists (L s). split; [assumption|]. cbn [is_leaf andb]. now apply mem_sexp_true. }
  rewrite type_of_let by reflexivity. rewrite Eb.
  apply (subst_type x t st); try assumption.
  - cbn [bind_vars e_vars]. rewrite assoc_app, Hlk. reflexivity.
  - rewrite <- Hst. apply type_coincidence; [reflexivity | reflexivity |].
    intros s Hs. cbn [bind_vars e_vars]. apply assoc_app_notin.
    intros y w Hy E. subst y. destruct (tbound_names g bs bound s w Eb Hy) as (ty & Hty').
    apply (HG3 s Hs). apply bound_syms_self. now apply binder_vars_let with (r := [ty]).
  - intros s [-> | Hs].
    + now apply mem_sexp_false.
    + intros Hb. apply (HG3 s Hs). apply (bound_syms_sub e body); [|assumption].
      apply (sub_child _ body); [right; right; now left | apply sub_refl].
Qed.

Theorem let_subst_sort_at : forall h bs body x t l e' g so,
  is_op (T [h; T bs; body]) "let" = true ->
  let_subst_var h (T bs) body (bound_syms (T [h; T bs; body])) (T [L x; t]) = Some l -> In e' l ->
  first_named x (T [L x; t]) bs = true -> type_pos_only x body = true ->
  type_of g (T [h; T bs; body]) = Some so -> type_of g e' = Some so.
Proof.
  intros h bs body x t l e' g so Hop. destruct h as [h | ?]; [|discriminate Hop].
  now apply let_subst_var_sort.
Qed.

Theorem let_subst_sort : forall e l e' g so,
  rw_let_subst e = Some l -> In e' l -> let_side_ty e = true ->
  type_of g e = Some so -> type_of g e' = Some so.
Proof.
  intros e l e' g so HR Hin Hs Hty. unfold rw_let_subst in HR.
  destruct (is_op e "let") eqn:Eop; [| injection HR as <-; destruct Hin].
  apply is_op_inv in Eop as (r & ->).
  rewrite type_of_let in Hty by reflexivity.
  destruct r as [| [s | bs] [| body [| ? ?]]]; try discriminate Hty.
  destruct (opt_all (map (type_binding g) bs)) as [bound|] eqn:Eb; [|discriminate Hty].
  destruct (collect_opt_In _ _ _ HR Hin) as (o & Ho & Hino).
  apply in_map_iff in Ho as (var & Hvar & Hvin).
  destruct (opt_all_In _ _ _ _ Eb Hvin) as (p & Hp).
  apply type_binding_inv in Hp as (x & t & w & -> & _ & _).
  unfold let_side_ty in Hs. rewrite binder_vars_let_eq in Hs. apply andb_true_iff in Hs as [Hd Htp].
  rewrite forallb_forall in Htp. specialize (Htp _ Hvin). cbn beta iota in Htp.
  apply (let_subst_var_sort (lit "let") bs body x t o e' g so); try assumption; try reflexivity.
  - apply distinct_first; try assumption. intros b Hb.
    destruct (opt_all_In _ _ _ _ Eb Hb) as (q & Hq).
    apply type_binding_inv in Hq as (y & ty & _ & -> & _). now exists y, ty.
  - rewrite type_of_let by reflexivity. now rewrite Eb.
Qed.

(* ================= term_pos_only and type_pos_only ================= *)
Lemma tpo_qfree x : forall e, term_pos_only x e = true -> quant_free x e = true -> type_pos_only x e = true.
Proof.
  induction e as [s | l IH] using sexp_sub_ind; intros Ht Hq; [reflexivity|].
  assert (Hall : forall args, incl args l -> forallb (term_pos_only x) args = true ->
                 forallb (quant_free x) args = true -> forallb (type_pos_only x) args = true).
  { intros args Hi H1 H2. rewrite forallb_forall in *. intros a Ha.
    apply (IH a a (Hi a Ha) (sub_refl a)); [now apply H1 | now apply H2]. }
  destruct l as [| [h | hl] args]; [reflexivity | |].
  - rewrite tpo_app in Ht. rewrite qfree_app in Hq. rewrite typo_app.
    change (isop h "_") with (Typing.is h "_") in Ht. change (isop h "let") with (Typing.is h "let") in Ht.
    apply andb_true_iff in Ht as [Hhx Ht]. rewrite Hhx. cbn [andb].
    destruct (Typing.is h "_"); [exact Ht|].
    destruct (Typing.is h "let").
    + destruct args as [| [s | bs] [| body [| ? ?]]]; try reflexivity.
      apply andb_true_iff in Ht as [Ht1 Ht2]. apply andb_true_iff in Hq as [Hq1 Hq2].
      apply andb_true_iff. split.
      * rewrite forallb_forall in *. intros b Hb. specialize (Ht1 b Hb). specialize (Hq1 b Hb).
        destruct b as [s | [| [y | ?] [| t [| ? ?]]]]; try reflexivity.
        apply (IH (T bs) t); [right; now left | | assumption | assumption].
        apply (sub_child bs (T [L y; t]) t Hb). apply (sub_child [L y; t] t); [right; now left | apply sub_refl].
      * apply (IH body body); [right; right; now left | apply sub_refl | assumption | assumption].
    + destruct (Typing.is h "forall" || Typing.is h "exists").
      * destruct args as [| [s | vs] [| body [| ? ?]]]; try reflexivity.
        apply andb_true_iff in Hq as [Hq1 Hq2]. rewrite Hq1. cbn [andb].
        cbn [forallb] in Ht. apply andb_true_iff in Ht as [_ Ht]. apply andb_true_iff in Ht as [Ht _].
        apply (IH body body); [right; right; now left | apply sub_refl | assumption | assumption].
      * destruct (Typing.is h "!").
        -- destruct args as [| t r]; [reflexivity|]. cbn [forallb] in Ht, Hq.
           apply andb_true_iff in Ht as [Ht _]. apply andb_true_iff in Hq as [Hq _].
           apply (IH t t); [right; now left | apply sub_refl | assumption | assumption].
        -- apply Hall; [intros a Ha; now right | assumption | assumption].
  - rewrite tpo_idx in Ht. rewrite typo_idx. apply andb_true_iff in Ht as [Hocc Ht]. rewrite Hocc. cbn [andb].
    apply Hall; [intros a Ha; now right | assumption | exact Hq].
Qed.

Lemma let_side_ty_of e : let_side e = true -> let_quant_side e = true -> let_side_ty e = true.
Proof.
  destruct e as [s | [| h [| [s | bs] [| body r]]]]; try reflexivity.
  unfold let_side, let_quant_side, let_side_ty. intros H1 H2.
  apply andb_true_iff in H1 as [Hd H1]. rewrite Hd. cbn [andb].
  rewrite forallb_forall in *. intros b Hb. specialize (H1 b Hb). specialize (H2 b Hb).
  destruct b as [s | [| [x | ?] ?]]; try reflexivity. now apply tpo_qfree.
Qed.

(* the form with the side condition of the value theorem plus its missing part *)
Theorem let_subst_sort' : forall e l e' g so,
  rw_let_subst e = Some l -> In e' l -> let_side e = true -> let_quant_side e = true ->
  type_of g e = Some so -> type_of g e' = Some so.
Proof.
  intros e l e' g so HR Hin H1 H2. apply (let_subst_sort e l e' g so HR Hin). now apply let_side_ty_of.
Qed.
