(* Rewrites that compute on bit-vector constants: normalisation to (_ bvN w),
   extension of a constant, extraction from a constant. *)
From Coq Require Import ZifyBool.
From DD Require Import Spec.Semantics Model.Rewrites Proofs.Rw.DigitsRT Proofs.Rw.EvalBase Proofs.Rw.BoolRw Proofs.Rw.BvConst.
Local Open Scope list_scope.

(* ---------- constants built by the rewrites ---------- *)
Lemma eval_mk_bv_const rho n w :
  (0 < w)%N -> (n < 2 ^ w)%N -> eval rho (mk_bv_const (Z.of_N n) (Z.of_N w)) = Some (VV w n).
Proof.
  intros Hw Hn. unfold mk_bv_const. rewrite !z_to_dec_of_N.
  change (lit "bv" ++ to_dec n) with (c_b :: c_v :: to_dec n). unfold lf.
  rewrite eval_bvlit, all_digits_to_dec, dec_of_to_dec, dec_val_to_dec.
  apply N.ltb_lt in Hw, Hn. now rewrite Hw, Hn.
Qed.

Lemma eval_bin_lit rho tl :
  lit_free rho -> forallb is_bin tl = true -> tl <> [] ->
  eval rho (L (cHASH :: c_b :: tl)) = Some (VV (N.of_nat (length tl)) (bin_val tl)).
Proof.
  intros Hlf Hb Hne. rewrite eval_leaf. rewrite Hlf.
  - unfold const_value.
    change (isop (cHASH :: c_b :: tl) "true") with false.
    change (isop (cHASH :: c_b :: tl) "false") with false.
    change (all_digits (cHASH :: c_b :: tl)) with false. cbv iota.
    rewrite !N.eqb_refl, Hb. cbn [andb]. destruct tl; [congruence | reflexivity].
  - cbn [is_bv_const]. rewrite !N.eqb_refl, Hb. reflexivity.
Qed.

(* ---------- #b.. / #x.. = (_ bvN w) ---------- *)
Theorem bv_normalize_identity : forall rho e e' l v,
  lit_free rho ->
  rw_bv_normalize e = Some l -> In e' l -> eval rho e = Some v -> eval rho e' = Some v.
Proof.
  intros rho e e' l v Hlf Hrw Hin Hev. unfold rw_bv_normalize in Hrw.
  destruct e as [s | ?]; [|no_prop Hrw Hin].
  destruct (is_bv_const (L s)) eqn:Cc; [|no_prop Hrw Hin].
  destruct (bv_const_eval rho (L s) v Hlf Cc Hev) as (w & n & -> & Bc & Rn & Rw).
  rewrite Bc in Hrw. injection Hrw as <-. destruct Hin as [<- | []].
  now apply eval_mk_bv_const.
Qed.

(* ---------- indices of indexed operators ---------- *)
Lemma int_of_inv i k : int_of i = Some k -> exists s n, i = L s /\ dec_of s = Some n /\ k = Z.of_N n.
Proof.
  destruct i as [s | ?]; [|discriminate]. cbn [int_of]. destruct (dec_of s) as [n|] eqn:E; [|discriminate].
  intros H. injection H as <-. now exists s, n.
Qed.

Lemma get_indices_1 a b i : get_indices (T [a; b; i]) = match int_of i with Some v => Some [v] | None => None end.
Proof. reflexivity. Qed.
Lemma get_indices_2 a b i j :
  get_indices (T [a; b; i; j]) =
  match int_of i, int_of j with Some v, Some u => Some [v; u] | _, _ => None end.
Proof. cbn. destruct (int_of j); destruct (int_of i); reflexivity. Qed.

Lemma indexed_head_1 rho h name args v :
  is_indexed_operator h name 1 = true -> eval rho (T (h :: args)) = Some v ->
  exists i, h = T [L (lit "_"); L (lit name); i].
Proof.
  intros Hi Hev. destruct (indexed_head rho h name 1 args v Hi Hev) as (idx & -> & Hl).
  destruct idx as [|i [|? ?]]; try discriminate Hl. now exists i.
Qed.
Lemma indexed_head_2 rho h name args v :
  is_indexed_operator h name 2 = true -> eval rho (T (h :: args)) = Some v ->
  exists i j, h = T [L (lit "_"); L (lit name); i; j].
Proof.
  intros Hi Hev. destruct (indexed_head rho h name 2 args v Hi Hev) as (idx & -> & Hl).
  destruct idx as [|i [|j [|? ?]]]; try discriminate Hl. now exists i, j.
Qed.

(* evaluation of (_ op k) applied to one argument *)
Lemma eval_indexed_1 rho op s k args :
  dec_of s = Some k ->
  eval rho (T (T [L (lit "_"); L op; L s] :: args)) =
  match eval_args rho args with Some vs => apply_indexed op [k] vs | None => None end.
Proof. intros H. rewrite eval_indexed. cbn [map idx_of opt_all_v fold_right]. now rewrite H. Qed.
Lemma eval_indexed_2 rho op s t i j args :
  dec_of s = Some i -> dec_of t = Some j ->
  eval rho (T (T [L (lit "_"); L op; L s; L t] :: args)) =
  match eval_args rho args with Some vs => apply_indexed op [i; j] vs | None => None end.
Proof. intros H1 H2. rewrite eval_indexed. cbn [map idx_of opt_all_v fold_right]. now rewrite H1, H2. Qed.

Lemma apply_indexed_1_inv op k vs v :
  apply_indexed op [k] vs = Some v -> exists w x, vs = [VV w x].
Proof.
  unfold apply_indexed. destruct vs as [|[? | ? | w x] [|? ?]]; try discriminate. intros _. now exists w, x.
Qed.
Lemma apply_indexed_2_inv op i j vs v :
  apply_indexed op [i; j] vs = Some v -> exists w x, vs = [VV w x].
Proof.
  unfold apply_indexed. destruct vs as [|[? | ? | w x] [|? ?]]; try discriminate. intros _. now exists w, x.
Qed.

(* ---------- sign bit of a constant, read off its binary rendering ---------- *)
Lemma msb_to_bin w x : (0 < w)%N -> (x < 2 ^ w)%N ->
  (Z.eqb (Z.of_nat (length (to_bin x))) (Z.of_N w) && match to_bin x with d :: _ => N.eqb d 49 | [] => false end) = msb w x.
Proof.
  intros Hw Hx. unfold msb. destruct (N.eq_dec x 0) as [-> | Hnz].
  - rewrite N.bits_0. rewrite to_bin_zero. cbn [N.eqb Pos.eqb]. apply andb_false_r.
  - assert (Hlog : (N.log2 x < w)%N) by (apply N.log2_lt_pow2; lia).
    destruct (to_bin_head x ltac:(lia)) as (r & Hr).
    pose proof (length_to_bin x) as Hlen. rewrite Hr in *. rewrite N.eqb_refl, andb_true_r.
    destruct (N.eq_dec (N.log2 x) (w - 1)) as [E | E].
    + rewrite <- E, N.bit_log2 by exact Hnz. apply Z.eqb_eq. lia.
    + rewrite N.bits_above_log2 by lia. apply Z.eqb_neq. lia.
Qed.

(* ---------- extension of a constant ---------- *)
Theorem bv_eval_extend_identity : forall rho e e' l v,
  lit_free rho ->
  rw_bv_eval_extend e = Some l -> In e' l -> eval rho e = Some v -> eval rho e' = Some v.
Proof.
  intros rho e e' l v Hlf Hrw Hin Hev. unfold rw_bv_eval_extend in Hrw.
  destruct e as [s | [| h [| c rest]]]; try (no_prop Hrw Hin).
  destruct (is_indexed_operator h "zero_extend" 1) eqn:Ez.
  - (* zero_extend *)
    destruct (indexed_head_1 rho h _ _ v Ez Hev) as (i & ->).
    change (is_indexed_operator (T [L (lit "_"); L (lit "zero_extend"); i]) "sign_extend" 1) with false in Hrw.
    cbn [orb andb] in Hrw. destruct (is_bv_const c) eqn:Cc; [|no_prop Hrw Hin].
    rewrite get_indices_1 in Hrw.
    destruct (bv_const_value c) as [[vz wz]|] eqn:Bc; [|discriminate Hrw].
    destruct (int_of i) as [k|] eqn:Ei; [|discriminate Hrw].
    injection Hrw as <-. destruct Hin as [<- | []].
    apply int_of_inv in Ei as (s & kn & -> & Hs & ->).
    rewrite (eval_indexed_1 rho _ s kn _ Hs) in Hev.
    destruct (eval_args rho (c :: rest)) as [vs|] eqn:Ea; [|discriminate Hev].
    destruct (apply_indexed_1_inv _ _ _ _ Hev) as (w & x & ->).
    apply eval_args_1 in Ea as (c' & E & Hc). injection E as <- ->.
    destruct (bv_const_eval rho c _ Hlf Cc Hc) as (w' & x' & E & Bc' & Rx & Rw). injection E as <- <-.
    rewrite Bc in Bc'. injection Bc' as -> ->.
    rewrite ai_zext in Hev. injection Hev as <-.
    rewrite <- N2Z.inj_add. apply eval_mk_bv_const; [lia|].
    eapply N.lt_le_trans; [exact Rx|]. apply N.pow_le_mono_r; lia.
  - destruct (is_indexed_operator h "sign_extend" 1) eqn:Es; [|no_prop Hrw Hin].
    destruct (indexed_head_1 rho h _ _ v Es Hev) as (i & ->).
    cbn [orb andb] in Hrw. destruct (is_bv_const c) eqn:Cc; [|no_prop Hrw Hin].
    rewrite get_indices_1 in Hrw.
    destruct (bv_const_value c) as [[vz wz]|] eqn:Bc; [|discriminate Hrw].
    destruct (int_of i) as [k|] eqn:Ei; [|discriminate Hrw].
    apply int_of_inv in Ei as (s & kn & -> & Hs & ->).
    rewrite (eval_indexed_1 rho _ s kn _ Hs) in Hev.
    destruct (eval_args rho (c :: rest)) as [vs|] eqn:Ea; [|discriminate Hev].
    destruct (apply_indexed_1_inv _ _ _ _ Hev) as (w & x & ->).
    apply eval_args_1 in Ea as (c' & E & Hc). injection E as <- ->.
    destruct (bv_const_eval rho c _ Hlf Cc Hc) as (w' & x' & E & Bc' & Rx & Rw). injection E as <- <-.
    rewrite Bc in Bc'. injection Bc' as -> ->.
    rewrite ai_sext in Hev. injection Hev as <-.
    rewrite N2Z.id in Hrw. rewrite (msb_to_bin w x Rw Rx) in Hrw.
    destruct (msb w x) eqn:Em.
    + injection Hrw as <-. destruct Hin as [<- | []].
      assert (Hb : forallb is_bin (repeat_c 49%N (Z.to_nat (Z.of_N kn)) ++ to_bin x) = true).
      { rewrite forallb_app, is_bin_repeat_c, is_bin_to_bin by reflexivity. reflexivity. }
      rewrite eval_bin_lit; [|exact Hlf|exact Hb|].
      * rewrite <- (msb_to_bin w x Rw Rx) in Em. apply andb_true_iff in Em as [El _]. apply Z.eqb_eq in El.
        rewrite bin_val_app, bin_val_ones, bin_val_to_bin. rewrite app_length, length_repeat_c.
        rewrite Nnat.Nat2N.inj_add.
        replace (N.of_nat (Z.to_nat (Z.of_N kn))) with kn by lia.
        replace (N.of_nat (length (to_bin x))) with w by lia.
        f_equal. f_equal; lia.
      * intros E. apply (f_equal (@length _)) in E. rewrite app_length, length_to_bin in E. cbn in E. lia.
    + injection Hrw as <-. destruct Hin as [<- | []].
      rewrite <- N2Z.inj_add. apply eval_mk_bv_const; [lia|].
      eapply N.lt_le_trans; [exact Rx|]. apply N.pow_le_mono_r; lia.
Qed.

(* ---------- extraction from a constant ---------- *)
Lemma extract_arith x i j : (j <= i)%N -> ((x mod 2 ^ (i + 1)) / 2 ^ j = (x / 2 ^ j) mod 2 ^ (i - j + 1))%N.
Proof.
  intros H. replace (i + 1)%N with (j + (i - j + 1))%N by lia. rewrite N.pow_add_r.
  assert (Hj : (2 ^ j <> 0)%N) by (apply N.pow_nonzero; lia).
  rewrite N.mod_mul_r by (try exact Hj; apply N.pow_nonzero; lia).
  rewrite (N.mul_comm (2 ^ j)), N.div_add by exact Hj.
  rewrite N.div_small by (apply N.mod_lt; exact Hj). reflexivity.
Qed.

Lemma slice_extract x w i j : (0 < w)%N -> (x < 2 ^ w)%N -> (j <= i)%N -> (i < w)%N ->
  let b := to_bin x in
  let padded := repeat_c 48%N (Z.to_nat (Z.of_N w - Z.of_nat (length b))) ++ b in
  let n := Z.of_nat (length padded) in
  let sl := slice padded (n - Z.of_N i - 1) (n - Z.of_N j - 1 + 1) in
  forallb is_bin sl = true /\ length sl = N.to_nat (i - j + 1) /\ bin_val sl = ((x / 2 ^ j) mod 2 ^ (i - j + 1))%N.
Proof.
  intros Hw Hx Hji Hiw b padded n sl.
  pose proof (length_to_bin_le x w Hw Hx) as Hlb. fold b in Hlb.
  assert (Hlp : length padded = N.to_nat w).
  { unfold padded. rewrite app_length, length_repeat_c. lia. }
  assert (Hbp : forallb is_bin padded = true).
  { unfold padded. rewrite forallb_app, is_bin_repeat_c by reflexivity. apply is_bin_to_bin. }
  assert (Hvp : bin_val padded = x).
  { unfold padded. rewrite bin_val_app, bin_val_zeros. apply bin_val_to_bin. }
  assert (Hsl : sl = firstn (N.to_nat (i - j + 1)) (skipn (N.to_nat (w - 1 - i)) padded)).
  { unfold sl, slice, n. rewrite Hlp.
    replace (Z.ltb (Z.of_nat (N.to_nat w) - Z.of_N i - 1) 0) with false by lia.
    replace (Z.ltb (Z.of_nat (N.to_nat w) - Z.of_N j - 1 + 1) 0) with false by lia.
    cbn [orb]. f_equal; [lia|]. f_equal. lia. }
  rewrite Hsl. split; [|split].
  - apply is_bin_firstn. now apply is_bin_skipn.
  - rewrite firstn_length, skipn_length, Hlp. lia.
  - rewrite bin_val_firstn by now apply is_bin_skipn.
    rewrite bin_val_skipn by exact Hbp. rewrite skipn_length, Hlp, Hvp.
    replace (N.of_nat (N.to_nat w - N.to_nat (w - 1 - i))) with (i + 1)%N by lia.
    replace (N.of_nat (N.to_nat w - N.to_nat (w - 1 - i) - N.to_nat (i - j + 1))) with j by lia.
    now apply extract_arith.
Qed.

Theorem bv_extract_const_identity : forall rho e e' l v,
  lit_free rho ->
  rw_bv_extract_const e = Some l -> In e' l -> eval rho e = Some v -> eval rho e' = Some v.
Proof.
  intros rho e e' l v Hlf Hrw Hin Hev. unfold rw_bv_extract_const in Hrw.
  destruct e as [s | [| h [| c rest]]]; try (no_prop Hrw Hin).
  destruct (is_indexed_operator h "extract" 2) eqn:Ex; cbn [andb] in Hrw; [|no_prop Hrw Hin].
  destruct (indexed_head_2 rho h _ _ v Ex Hev) as (i & j & ->).
  destruct (is_bv_const c) eqn:Cc; [|no_prop Hrw Hin].
  rewrite get_indices_2 in Hrw.
  destruct (bv_const_value c) as [[vz wz]|] eqn:Bc; [|discriminate Hrw].
  destruct (int_of i) as [iz|] eqn:Ei; [|discriminate Hrw].
  destruct (int_of j) as [jz|] eqn:Ej; [|discriminate Hrw].
  injection Hrw as <-. destruct Hin as [<- | []].
  apply int_of_inv in Ei as (si & ni & -> & Hsi & ->).
  apply int_of_inv in Ej as (sj & nj & -> & Hsj & ->).
  rewrite (eval_indexed_2 rho _ si sj ni nj _ Hsi Hsj) in Hev.
  destruct (eval_args rho (c :: rest)) as [vs|] eqn:Ea; [|discriminate Hev].
  destruct (apply_indexed_2_inv _ _ _ _ _ Hev) as (w & x & ->).
  apply eval_args_1 in Ea as (c' & E & Hc). injection E as <- ->.
  destruct (bv_const_eval rho c _ Hlf Cc Hc) as (w' & x' & E & Bc' & Rx & Rw). injection E as <- <-.
  rewrite Bc in Bc'. injection Bc' as -> ->.
  rewrite ai_extract in Hev.
  destruct (N.leb nj ni && N.ltb ni w) eqn:Eji; [|discriminate Hev]. injection Hev as <-.
  apply andb_true_iff in Eji as [Hji Hiw]. apply N.leb_le in Hji. apply N.ltb_lt in Hiw.
  rewrite N2Z.id.
  match goal with |- eval rho (L (cHASH :: c_b :: ?sl)) = _ => set (SL := sl) end.
  assert (S : forallb is_bin SL = true /\ length SL = N.to_nat (ni - nj + 1) /\
              bin_val SL = ((x / 2 ^ nj) mod 2 ^ (ni - nj + 1))%N)
    by exact (slice_extract x w ni nj Rw Rx Hji Hiw).
  destruct S as (S1 & S2 & S3).
  rewrite eval_bin_lit; [|exact Hlf|exact S1|].
  - f_equal. f_equal; [|exact S3].
    transitivity (N.of_nat (N.to_nat (ni - nj + 1))); [f_equal; exact S2 | lia].
  - intros E. rewrite E in S2. cbn in S2. lia.
Qed.
