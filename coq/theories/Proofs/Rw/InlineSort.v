(* C17, the SORT half for InlineDefinedFuns at a use site (Model/InlineRw.v):
   the body of (define-fun f ((p1 S1) .. (pn Sn)) S body), in which the formals
   are replaced simultaneously by actuals of the sorts S1 .. Sn, has in the
   environment of the use site the sort that the body has in that environment
   extended by the formals.  The side condition is inline_side of
   Proofs/Rw/InlineSide.v with type_pos_only (Proofs/Rw/LetSort.v) in the place
   of term_pos_only; the mutator checks (after the fix of finding F19) only the
   part inline_guard of it, see Proofs/Rw/InlineGuard.v. *)
From DD Require Import Spec.Semantics Spec.Typing Model.Rewrites Model.LetRw Model.InlineRw.
From DD Require Import Proofs.Rw.EvalBase Proofs.Rw.TypeBase Proofs.Rw.LetSide Proofs.Rw.LetSubst.
From DD Require Import Proofs.Rw.InlineSide Proofs.Rw.InlineSubst Proofs.Rw.LetSort.
Local Open Scope list_scope.

(* the sort S of a formal (p S), as Typing.decl_env reads it *)
Definition formal_sort (f : sexp) : sexp := match f with T [_; so] => so | _ => L [] end.
Definition formal_sorts (d : defn) : list sexp := map formal_sort (d_formals d).

(* SIDE for sorts: inline_side with type_pos_only *)
Definition inline_side_ty (d : defn) (args : list sexp) : bool :=
  let ps := formal_names d in
  let body := d_body d in
  forallb formal_ok (d_formals d)
  && distinctb (map L ps)
  && forallb (fun p => type_pos_only p body && negb (mem_sexp (L p) (bound_syms body))) ps
  && forallb (fun pa => negb (occurs (fst pa) body) || no_capture body (snd pa)) (combine ps args).

(* what inline_side does not give: no formal occurs in the binder list of a quantifier of the body *)
Definition inline_quant_side (d : defn) : bool := forallb (fun p => quant_free p (d_body d)) (formal_names d).

(* the sort of a parameter is the sort of its actual argument *)
Lemma tparams_lookup g : forall ps args sorts p a,
  distinctb (map L ps) = true -> type_args g args = Some sorts ->
  In (p, a) (combine ps args) ->
  exists sa, Typing.assoc p (combine ps sorts) = Some sa /\ type_of g a = Some sa.
Proof.
  induction ps as [| p0 ps IH]; intros [| a0 args] sorts p a Hd Hty Hin; cbn [combine] in Hin; try (now destruct Hin).
  destruct Hin as [Hin | Hin];
    apply type_args_cons_inv in Hty as (s0 & r & Hs0 & Hr & ->);
    cbn [map distinctb] in Hd; apply andb_true_iff in Hd as [Hm Hd]; apply negb_true_iff, mem_sexp_false in Hm.
  - injection Hin as -> ->. exists s0. cbn [combine Typing.assoc]. rewrite str_eqb_refl. now split.
  - cbn [combine Typing.assoc]. destruct (str_eqb p0 p) eqn:E.
    + apply str_eqb_eq in E. subst p0. exfalso. apply Hm. apply in_combine_l in Hin. now apply in_map.
    + now apply (IH args r).
Qed.

(* the substituted body has the sort of the body *)
Lemma inline_beta_sort d args g sorts so :
  length (d_formals d) = length args ->
  inline_side_ty d args = true ->
  type_args g args = Some sorts ->
  type_of (bind_vars g (combine (formal_names d) sorts)) (d_body d) = Some so ->
  type_of g (subst_map (combine (map L (formal_names d)) args) (d_body d)) = Some so.
Proof.
  intros Hlen Hside Eargs Hbody.
  unfold inline_side_ty in Hside. cbv zeta in Hside.
  apply andb_true_iff in Hside as [Hside Hcap]. apply andb_true_iff in Hside as [Hside Hps].
  apply andb_true_iff in Hside as [Hok Hdist].
  rewrite forallb_forall in Hps, Hcap.
  set (ps := formal_names d) in *. set (body := d_body d) in *.
  assert (Hlen' : length (map L ps) = length args).
  { rewrite map_length. unfold ps, formal_names. now rewrite map_length. }
  set (m := combine (map L ps) args).
  assert (Hfst : map fst m = map L ps) by (now apply map_fst_combine).
  assert (HinL : forall s, In (L s) (map L ps) -> In s ps).
  { intros s Hs. apply in_map_iff in Hs as (q & [= ->] & Hq). exact Hq. }
  assert (Hpair : forall s a, assoc_last m (L s) = Some a -> In (s, a) (combine ps args)).
  { intros s a Ha. apply assoc_last_some in Ha. now apply combine_map_L. }
  assert (Hk : forall k a, In (k, a) m -> exists p, k = L p).
  { intros k a Hka. apply in_combine_l, in_map_iff in Hka as (p & <- & _). now exists p. }
  apply (subst_map_type m Hk body (bind_vars g (combine ps sorts)) g so eq_refl eq_refl); [| | | exact Hbody].
  - intros s Hs. cbn [bind_vars e_vars]. destruct (assoc_last m (L s)) as [a|] eqn:Ea.
    + destruct (tparams_lookup g ps args sorts s a Hdist Eargs (Hpair s a Ea)) as (sa & Hlk & Hsa).
      exists sa. split; [|exact Hsa]. now rewrite assoc_app, Hlk.
    + apply assoc_last_none in Ea. rewrite Hfst in Ea. apply assoc_app_notin.
      intros y w Hy ->. apply Ea. apply in_combine_l in Hy. now apply in_map.
  - intros p Hp. unfold key in Hp. rewrite Hfst in Hp. specialize (Hps p (HinL p Hp)).
    now apply andb_true_iff in Hps as [Hps _].
  - intros s a Hs Ha. pose proof (Hpair s a Ha) as Hsa. split.
    + specialize (Hps s (in_combine_l _ _ _ _ Hsa)). apply andb_true_iff in Hps as [_ Hps].
      now apply negb_true_iff, mem_sexp_false in Hps.
    + intros y Hy. specialize (Hcap (s, a) Hsa). cbn [fst snd] in Hcap.
      assert (Hocc : occurs s body = true) by (now apply mem_sexp_true).
      rewrite Hocc in Hcap. cbn [negb orb] in Hcap. now apply (no_capture_inv body a y).
Qed.

Lemma bind_vars_nil g e : type_of (bind_vars g []) e = type_of g e.
Proof. destruct g as [v f d]. reflexivity. Qed.

Theorem inline_sort : forall defs e l e' n d args g sorts so,
  rw_inline defs e = Some l -> In e' l ->
  e = T (L n :: args) \/ (e = L n /\ args = []) ->
  lookup_def defs n = Some d ->
  inline_side_ty d args = true ->
  type_args g args = Some sorts ->
  type_of (bind_vars g (combine (formal_names d) sorts)) (d_body d) = Some so ->
  type_of g e' = Some so.
Proof.
  intros defs e l e' n d args g sorts so HR Hin He Hd Hside Hargs Hbody.
  unfold rw_inline in HR. cbv zeta in HR.
  destruct He as [-> | [-> ->]]; rewrite Hd in HR.
  - cbn [is_leaf andb] in HR.
    destruct (is_recursive defs n); [injection HR as <-; destruct Hin|].
    destruct (Nat.eqb (length (d_formals d)) (length args)) eqn:Elen.
    + apply Nat.eqb_eq in Elen.
      assert (Hok : forallb formal_ok (d_formals d) = true).
      { unfold inline_side_ty in Hside. cbv zeta in Hside. apply andb_true_iff in Hside as [Hside _].
        apply andb_true_iff in Hside as [Hside _]. now apply andb_true_iff in Hside as [Hside _]. }
      rewrite (instantiate_app d (L n) args Hok Elen) in HR.
      destruct (inline_guard d args); [rewrite sexp_eqb_refl in HR; injection HR as <-; destruct Hin|].
      destruct (sexp_eqb _ _) in HR; injection HR as <-; [destruct Hin|].
      destruct Hin as [<- | []]. now apply (inline_beta_sort d args g sorts so).
    + unfold instantiate in HR. rewrite Elen, sexp_eqb_refl in HR. injection HR as <-. destruct Hin.
  - cbn [is_leaf andb instantiate] in HR.
    destruct (Nat.eqb (length (d_formals d)) 0) eqn:Elen; cbn [negb] in HR; [|injection HR as <-; destruct Hin].
    destruct (is_recursive defs n); [injection HR as <-; destruct Hin|].
    destruct (sexp_eqb _ _) in HR; injection HR as <-; [destruct Hin|].
    destruct Hin as [<- | []]. apply type_args_nil_inv in Hargs. subst sorts.
    rewrite combine_nil, bind_vars_nil in Hbody. exact Hbody.
Qed.

(* inline_side with its missing part *)
Lemma inline_side_ty_of d args : inline_side d args = true -> inline_quant_side d = true -> inline_side_ty d args = true.
Proof.
  unfold inline_side, inline_quant_side, inline_side_ty. cbv zeta. intros H1 H2.
  apply andb_true_iff in H1 as [H1 Hcap]. apply andb_true_iff in H1 as [H1 Hps]. rewrite H1, Hcap.
  cbn [andb]. rewrite andb_true_r. rewrite forallb_forall in *. intros p Hp.
  specialize (Hps p Hp). specialize (H2 p Hp). apply andb_true_iff in Hps as [Hp1 Hp2].
  rewrite Hp2, andb_true_r. now apply tpo_qfree.
Qed.

Theorem inline_sort' : forall defs e l e' n d args g sorts so,
  rw_inline defs e = Some l -> In e' l ->
  e = T (L n :: args) \/ (e = L n /\ args = []) ->
  lookup_def defs n = Some d ->
  inline_side d args = true -> inline_quant_side d = true ->
  type_args g args = Some sorts ->
  type_of (bind_vars g (combine (formal_names d) sorts)) (d_body d) = Some so ->
  type_of g e' = Some so.
Proof.
  intros defs e l e' n d args g sorts so HR Hin He Hd H1 H2.
  apply (inline_sort defs e l e' n d args g sorts so HR Hin He Hd). now apply inline_side_ty_of.
Qed.

(* ================= the sort of the call ================= *)
(* the operator names that type_app interprets itself, in its order *)
Definition builtin_op (op : str) : bool :=
  Typing.is op "not"
  || mem_s op ["and"; "or"; "xor"; "=>"]%string
  || mem_s op ["="; "distinct"]%string
  || Typing.is op "ite"
  || mem_s op ["+"; "*"]%string
  || Typing.is op "-"
  || mem_s op ["div"; "mod"]%string
  || Typing.is op "abs"
  || Typing.is op "/"
  || Typing.is op "to_real"
  || Typing.is op "to_int"
  || Typing.is op "is_int"
  || mem_s op ["<"; "<="; ">"; ">="]%string
  || mem_s op ["bvnot"; "bvneg"]%string
  || mem_s op ["bvand"; "bvor"; "bvxor"; "bvadd"; "bvmul"; "bvnand"; "bvnor"; "bvxnor"; "bvsub"; "bvudiv"; "bvurem";
               "bvsdiv"; "bvsrem"; "bvsmod"; "bvshl"; "bvlshr"; "bvashr"]%string
  || mem_s op ["bvult"; "bvule"; "bvugt"; "bvuge"; "bvslt"; "bvsle"; "bvsgt"; "bvsge"]%string
  || Typing.is op "bvcomp"
  || Typing.is op "concat"
  || Typing.is op "select"
  || Typing.is op "store"
  || Typing.is op "str.++"
  || Typing.is op "str.len"
  || mem_s op ["str.contains"; "str.prefixof"; "str.suffixof"; "str.<"; "str.<="]%string
  || mem_s op ["str.replace"; "str.replace_all"]%string
  || Typing.is op "str.at"
  || Typing.is op "str.substr"
  || Typing.is op "str.indexof"
  || Typing.is op "fp"
  || mem_s op ["fp.add"; "fp.sub"; "fp.mul"; "fp.div"]%string
  || mem_s op ["fp.neg"; "fp.abs"]%string
  || mem_s op ["fp.min"; "fp.max"; "fp.rem"]%string
  || mem_s op ["fp.lt"; "fp.leq"; "fp.gt"; "fp.geq"; "fp.eq"]%string
  || mem_s op ["fp.isNaN"; "fp.isZero"; "fp.isInfinite"; "fp.isNormal"; "fp.isSubnormal"; "fp.isNegative"; "fp.isPositive"]%string.

(* the head n of an application is typed by its signature in e_funs: n is no
   syntactic keyword of type_of, no operator of type_app, no constructor and no
   selector of a declared datatype *)
Definition user_head (g : env) (n : str) : bool :=
  negb (Typing.is n "_") && negb (Typing.is n "let") && negb (Typing.is n "forall") && negb (Typing.is n "exists")
  && negb (Typing.is n "!") && negb (builtin_op n)
  && match find_cons (e_dts g) n with Some _ => false | None => true end
  && match find_sel (e_dts g) n with Some _ => false | None => true end.

Lemma type_app_user g op t1 rest :
  builtin_op op = false -> find_cons (e_dts g) op = None -> find_sel (e_dts g) op = None ->
  type_app g op (t1 :: rest) =
  match Typing.assoc op (e_funs g) with
  | Some (args, r) =>
      if Nat.eqb (length (t1 :: rest)) (length args)
         && forallb (fun p => sexp_eqb (fst p) (snd p)) (combine (t1 :: rest) args) then Some r else None
  | None => None
  end.
Proof.
  intros Hb Hc Hs. unfold builtin_op in Hb.
  repeat (apply orb_false_iff in Hb; destruct Hb as [Hb ?Hb]).
  unfold type_app. cbv zeta.
  repeat match goal with Hx : ?c = false |- context [if ?c then _ else _] => rewrite Hx end.
  rewrite Hc, Hs. reflexivity.
Qed.

Lemma eqb_combine_eq : forall (ts args : list sexp),
  length ts = length args -> forallb (fun p => sexp_eqb (fst p) (snd p)) (combine ts args) = true -> ts = args.
Proof.
  induction ts as [| t ts IH]; intros [| a args] Hl H; try discriminate Hl; [reflexivity|].
  cbn [combine forallb fst snd] in H. apply andb_true_iff in H as [H1 H2]. apply sexp_eqb_eq in H1. subst a.
  f_equal. apply IH; [|assumption]. cbn [length] in Hl. congruence.
Qed.

Lemma user_head_inv g n :
  user_head g n = true ->
  plain_op n /\ builtin_op n = false /\ find_cons (e_dts g) n = None /\ find_sel (e_dts g) n = None.
Proof.
  unfold user_head. intros H.
  repeat (apply andb_true_iff in H; destruct H as [H ?H]).
  repeat match goal with Hx : negb _ = true |- _ => apply negb_true_iff in Hx end.
  destruct (find_cons (e_dts g) n); [discriminate|]. destruct (find_sel (e_dts g) n); [discriminate|].
  repeat split; assumption.
Qed.

(* a call typed by the signature: the actuals have the sorts of the signature, the call its result sort *)
Lemma call_sort_inv g n args sig r so :
  user_head g n = true -> Typing.assoc n (e_funs g) = Some (sig, r) ->
  type_of g (T (L n :: args)) = Some so -> type_args g args = Some sig /\ so = r.
Proof.
  intros Hu Hsig Hty. apply user_head_inv in Hu as (Hp & Hb & Hc & Hs).
  apply type_op_inv in Hty as (ts & Ha & Happ); [|exact Hp].
  destruct ts as [| t1 rest]; [discriminate Happ|].
  rewrite (type_app_user g n t1 rest Hb Hc Hs), Hsig in Happ.
  destruct (Nat.eqb (length (t1 :: rest)) (length sig)) eqn:El; [|discriminate Happ].
  destruct (forallb _ _) eqn:Ef in Happ; [|discriminate Happ].
  cbn [andb] in Happ. injection Happ as <-. apply Nat.eqb_eq in El.
  rewrite (eqb_combine_eq _ _ El Ef) in Ha. now split.
Qed.

Lemma combine_refl_eqb : forall l : list sexp, forallb (fun p => sexp_eqb (fst p) (snd p)) (combine l l) = true.
Proof. induction l as [| a l IH]; [reflexivity|]. cbn [combine forallb fst snd]. now rewrite sexp_eqb_refl, IH. Qed.

Lemma call_sort g n args sig r :
  user_head g n = true -> Typing.assoc n (e_funs g) = Some (sig, r) -> args <> [] ->
  type_args g args = Some sig -> type_of g (T (L n :: args)) = Some r.
Proof.
  intros Hu Hsig Hne Ha. apply user_head_inv in Hu as (Hp & Hb & Hc & Hs).
  rewrite (type_op_intro g n args sig Hp Ha).
  destruct sig as [| t1 rest].
  - apply type_args_length in Ha. destruct args; [now destruct Hne | discriminate Ha].
  - rewrite (type_app_user g n t1 rest Hb Hc Hs), Hsig, Nat.eqb_refl, combine_refl_eqb. reflexivity.
Qed.

(* the proposal has the sort of the call: for a call that the environment types by the signature
   (sig, r) of f, where the body of the definition has the sort r under the formals of those sorts *)
Theorem inline_same_sort : forall defs l e' n d args g sig r so,
  rw_inline defs (T (L n :: args)) = Some l -> In e' l ->
  lookup_def defs n = Some d ->
  inline_side_ty d args = true ->
  user_head g n = true -> Typing.assoc n (e_funs g) = Some (sig, r) ->
  type_of (bind_vars g (combine (formal_names d) sig)) (d_body d) = Some r ->
  type_of g (T (L n :: args)) = Some so -> type_of g e' = Some so.
Proof.
  intros defs l e' n d args g sig r so HR Hin Hd Hside Hu Hsig Hbody Hty.
  destruct (call_sort_inv g n args sig r so Hu Hsig Hty) as [Ha ->].
  apply (inline_sort defs (T (L n :: args)) l e' n d args g sig r HR Hin (or_introl eq_refl) Hd Hside Ha Hbody).
Qed.
