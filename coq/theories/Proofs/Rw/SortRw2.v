(* Sort preservation of the rewrites on bit-vector constants and indexed operators. *)
From Coq Require Import ZifyBool.
From DD Require Import Spec.Typing Model.Rewrites Proofs.Rw.DigitsRT Proofs.Rw.EvalBase Proofs.Rw.BoolRw
  Proofs.Rw.BvConst Proofs.Rw.BvRw2 Proofs.Rw.BvRw3 Proofs.Rw.TypeBase.
Local Open Scope list_scope.

Ltac plain := repeat split; reflexivity.

(* the environment binds no bit-vector literal, neither as a symbol nor as a constructor *)
Definition lit_free_ty (g : env) : Prop :=
  forall s, is_bv_const (L s) = true -> assoc s (e_vars g) = None /\ find_cons (e_dts g) s = None.

Lemma bv_const_type g c s :
  lit_free_ty g -> is_bv_const c = true -> type_of g c = Some s ->
  exists w n, s = sBV w /\ bv_const_value c = Some (Z.of_N n, Z.of_N w) /\ (n < 2 ^ w)%N /\ (0 < w)%N.
Proof.
  intros Hlf Hc Hty. destruct c as [s0 | l].
  - destruct (Hlf s0 Hc) as [Hv Hd]. cbn [type_of] in Hty. rewrite Hv, Hd in Hty. cbn [is_bv_const] in Hc.
    destruct s0 as [|c0 [|d tl]]; try discriminate Hc.
    destruct (N.eqb c0 cHASH) eqn:E0; [|discriminate Hc]. apply N.eqb_eq in E0. subst c0.
    cbn [andb] in Hc. unfold leaf_const_sort in Hty.
    change (Typing.is (cHASH :: d :: tl) "true" || Typing.is (cHASH :: d :: tl) "false") with false in Hty.
    change (all_digits (cHASH :: d :: tl)) with false in Hty. cbv iota in Hty.
    rewrite N.eqb_refl in Hty. cbn [andb] in Hty.
    change (is_decimal (cHASH :: d :: tl)) with
      (match split_dot (d :: tl) [cHASH] with Some (a, b) => all_digits a && all_digits b | None => false end) in Hty.
    destruct (N.eqb d c_b) eqn:Eb.
    + cbn [andb] in Hc. destruct (forallb is_bin tl) eqn:Et.
      * destruct tl as [|t0 tl'].
        -- apply N.eqb_eq in Eb. subst d. discriminate Hty.
        -- injection Hty as <-.
           exists (N.of_nat (length (t0 :: tl'))), (bin_val (t0 :: tl')). split; [reflexivity|].
           cbn [bv_const_value]. rewrite Eb. rewrite nat_N_Z. split; [reflexivity|]. split.
           ++ now apply bin_val_lt.
           ++ cbn [length]. lia.
      * cbn [orb] in Hc. apply N.eqb_eq in Eb. subst d. discriminate Hc.
    + cbn [andb orb] in Hc. destruct (N.eqb d c_x) eqn:Ex; [|discriminate Hc]. cbn [andb] in Hc.
      rewrite Hc in Hty. destruct tl as [|t0 tl'].
      * apply N.eqb_eq in Ex. subst d. discriminate Hty.
      * injection Hty as <-.
        exists (4 * N.of_nat (length (t0 :: tl')))%N, (hex_val (t0 :: tl')). split; [reflexivity|].
        cbn [bv_const_value]. rewrite Eb. split; [f_equal; f_equal; lia|]. split.
        -- now apply hex_val_lt.
        -- cbn [length]. lia.
  - cbn [is_bv_const] in Hc.
    destruct l as [|[h | ?] [|[b | ?] [|w' [|? ?]]]]; cbv iota in Hc; try discriminate Hc.
    apply andb_true_iff in Hc as [Hh Hb]. apply iss_eq in Hh. subst h.
    apply starts_bv in Hb as (digs & ->).
    destruct w' as [w' | ?]; [|discriminate Hty].
    rewrite type_bvlit in Hty.
    destruct (all_digits digs) eqn:Ed; [|discriminate Hty].
    destruct (dec_of w') as [m|] eqn:Ew; [|discriminate Hty].
    destruct (N.ltb 0 m && N.ltb (dec_val digs) (2 ^ m)) eqn:E; [|discriminate Hty].
    injection Hty as <-. apply andb_true_iff in E as [E1 E2]. apply N.ltb_lt in E1, E2.
    exists m, (dec_val digs). split; [reflexivity|].
    cbn [bv_const_value int_of]. unfold dec_of at 1. rewrite Ed, Ew. repeat split; assumption.
Qed.

Lemma type_mk_bv_const g n w :
  (0 < w)%N -> (n < 2 ^ w)%N -> type_of g (mk_bv_const (Z.of_N n) (Z.of_N w)) = Some (sBV w).
Proof.
  intros Hw Hn. unfold mk_bv_const. rewrite !z_to_dec_of_N.
  change (lit "bv" ++ to_dec n) with (c_b :: c_v :: to_dec n). unfold lf.
  rewrite type_bvlit, all_digits_to_dec, dec_of_to_dec, dec_val_to_dec.
  apply N.ltb_lt in Hw, Hn. now rewrite Hw, Hn.
Qed.

Lemma type_bin_lit g tl :
  lit_free_ty g -> forallb is_bin tl = true -> tl <> [] ->
  type_of g (L (cHASH :: c_b :: tl)) = Some (sBV (N.of_nat (length tl))).
Proof.
  intros Hlf Hb Hne. cbn [type_of].
  assert (Hc : is_bv_const (L (cHASH :: c_b :: tl)) = true).
  { cbn [is_bv_const]. rewrite !N.eqb_refl, Hb. reflexivity. }
  destruct (Hlf _ Hc) as [-> _]. unfold leaf_const_sort.
  change (Typing.is (cHASH :: c_b :: tl) "true" || Typing.is (cHASH :: c_b :: tl) "false") with false.
  change (all_digits (cHASH :: c_b :: tl)) with false. cbv iota.
  rewrite !N.eqb_refl, Hb. cbn [andb]. destruct tl; [congruence | reflexivity].
Qed.

Theorem bv_normalize_sort : forall g e e' l s,
  lit_free_ty g ->
  rw_bv_normalize e = Some l -> In e' l -> type_of g e = Some s -> type_of g e' = Some s.
Proof.
  intros g e e' l s Hlf Hrw Hin Hty. unfold rw_bv_normalize in Hrw.
  destruct e as [s0 | ?]; [|no_prop Hrw Hin].
  destruct (is_bv_const (L s0)) eqn:Cc; [|no_prop Hrw Hin].
  destruct (bv_const_type g (L s0) s Hlf Cc Hty) as (w & n & -> & Bc & Rn & Rw).
  rewrite Bc in Hrw. injection Hrw as <-. destruct Hin as [<- | []].
  now apply type_mk_bv_const.
Qed.

(* ---------- (ite (= x y) 1 0) and (= c (bvcomp x y)) ---------- *)
Theorem bv_ite_to_bvcomp_sort : forall is_bv_term g h eq x y rest e' l s,
  lit_free_ty g ->
  (forall t st, is_bv_term t = true -> type_of g t = Some st -> Typing.bv_width st <> None) ->
  rw_bv_ite_to_bvcomp is_bv_term (T (L h :: T [L eq; x; y] :: rest)) = Some l -> In e' l ->
  type_of g (T (L h :: T [L eq; x; y] :: rest)) = Some s -> type_of g e' = Some s.
Proof.
  intros ibt g h eq x y rest e' l s Hlf Hsound Hrw Hin Hty. unfold rw_bv_ite_to_bvcomp in Hrw.
  destruct (iss h "ite") eqn:Eh; [|no_prop Hrw Hin]. apply iss_eq in Eh. subst h.
  destruct (iss eq "=") eqn:Ee; cbn [andb] in Hrw; [|no_prop Hrw Hin]. apply iss_eq in Ee. subst eq.
  destruct (ibt x) eqn:Ex; [|no_prop Hrw Hin].
  apply type_op_inv in Hty as (ts & Ha & Hs); [|plain].
  rewrite tapp_ite in Hs.
  destruct ts as [|tc [|ta [|tb [|? ?]]]]; try discriminate Hs.
  destruct (sexp_eqb tc sBool && sexp_eqb ta tb); [|discriminate Hs]. injection Hs as <-.
  apply type_args_cons_inv in Ha as (tc' & r1 & Hc & Ha & E). injection E as <- <-.
  destruct rest as [|a rest]; [discriminate Ha|].
  apply type_args_cons_inv in Ha as (ta' & r2 & Hta & Ha & E). injection E as <- <-.
  destruct rest as [|b rest]; [discriminate Ha|].
  apply type_args_cons_inv in Ha as (tb' & r3 & Htb & Ha & E). injection E as <- <-.
  destruct (is_bv_const a) eqn:Ca; cbn [andb] in Hrw; [|no_prop Hrw Hin].
  destruct (is_bv_const b) eqn:Cb; [|no_prop Hrw Hin].
  destruct (ite_consts_inv _ _ _ _ Hrw e' Hin) as (Ba & Bb & ->).
  destruct (bv_const_type g a ta Hlf Ca Hta) as (wa & na & -> & Ba' & _).
  rewrite Ba in Ba'. injection Ba' as A1 A2. assert (wa = 1%N) by lia. subst wa.
  apply type_bin_inv in Hc as (t1 & t2 & H1 & H2 & Hs); [|plain].
  rewrite tapp_eq in Hs. cbn [length Nat.leb andb] in Hs.
  destruct (all_eq t1 [t1; t2]) eqn:Eq; [|discriminate Hs]. apply all_eq_2 in Eq as [_ ->].
  unfold lf. rewrite (type_bin_intro g (lit "bvcomp") x y t1 t1 ltac:(plain) H1 H2).
  rewrite tapp_bvcomp. destruct (Typing.bv_width t1) eqn:Ew.
  - cbn [length Nat.eqb andb]. now rewrite all_eq_same.
  - exfalso. exact (Hsound x t1 Ex H1 Ew).
Qed.

Theorem bv_elim_bvcomp_sort : forall bw g h c f x y e' l s,
  rw_bv_elim_bvcomp bw (T [L h; c; T (L f :: [x; y])]) = Some l -> In e' l ->
  type_of g (T [L h; c; T (L f :: [x; y])]) = Some s -> type_of g e' = Some s.
Proof.
  intros bw g h c f x y e' l s Hrw Hin Hty. unfold rw_bv_elim_bvcomp in Hrw.
  destruct (iss h "=") eqn:Eh; cbn [andb] in Hrw; [|no_prop Hrw Hin]. apply iss_eq in Eh. subst h.
  cbn [length Nat.ltb Nat.leb andb] in Hrw.
  destruct (is_bv_const c) eqn:Cc; cbn [andb] in Hrw; [|no_prop Hrw Hin].
  destruct (Z.eqb (bw c) 1) eqn:Ew; cbn [andb] in Hrw; [|no_prop Hrw Hin].
  cbn [existsb is_op orb] in Hrw.
  destruct (iss f "bvcomp") eqn:Eg; cbn [orb] in Hrw; [|no_prop Hrw Hin]. apply iss_eq in Eg. subst f.
  destruct (bv_const_value c) as [[vz wz]|]; [|discriminate Hrw].
  cbn [map is_op] in Hrw. change (iss (lit "bvcomp") "bvcomp") with true in Hrw.
  cbv iota in Hrw. cbn [args_of] in Hrw.
  apply type_bin_inv in Hty as (tc & tr & Hc & Hr & Hs); [|plain].
  rewrite tapp_eq in Hs. destruct (Nat.leb 2 (length [tc; tr]) && all_eq tc [tc; tr]); [|discriminate Hs].
  injection Hs as <-.
  apply type_bin_inv in Hr as (t1 & t2 & H1 & H2 & Hs); [|plain].
  rewrite tapp_bvcomp in Hs. destruct (Typing.bv_width t1); [|discriminate Hs].
  cbn [length Nat.eqb andb] in Hs. destruct (all_eq t1 [t1; t2]) eqn:Eq; [|discriminate Hs].
  assert (Hxy : type_of g (T [L (lit "="); x; y]) = Some sBool).
  { rewrite (type_bin_intro g (lit "=") x y t1 t2 ltac:(plain) H1 H2), tapp_eq.
    cbn [length Nat.leb andb]. now rewrite Eq. }
  destruct (Z.eqb vz 1); injection Hrw as <-; destruct Hin as [<- | []]; cbn [node_of]; unfold lf.
  - exact Hxy.
  - now apply type_not_intro.
Qed.

(* ---------- indexed operators ---------- *)
Lemma tidx_zext s t : type_indexed (lit "zero_extend") [s] [t] =
  match dec_of s with Some k => match Typing.bv_width t with Some w => Some (sBV (w + k)) | None => None end | None => None end.
Proof. unfold type_indexed. cbn [map opt_all fold_right]. destruct (dec_of s); [|reflexivity]. destruct (Typing.bv_width t); reflexivity. Qed.
Lemma tidx_sext s t : type_indexed (lit "sign_extend") [s] [t] =
  match dec_of s with Some k => match Typing.bv_width t with Some w => Some (sBV (w + k)) | None => None end | None => None end.
Proof. unfold type_indexed. cbn [map opt_all fold_right]. destruct (dec_of s); [|reflexivity]. destruct (Typing.bv_width t); reflexivity. Qed.
Lemma tidx_extract s1 s2 t : type_indexed (lit "extract") [s1; s2] [t] =
  match dec_of s1, dec_of s2 with
  | Some i, Some j => match Typing.bv_width t with
                      | Some w => if N.leb j i && N.ltb i w then Some (sBV (i - j + 1)) else None
                      | None => None end
  | _, _ => None
  end.
Proof. unfold type_indexed. cbn [map opt_all fold_right]. destruct (dec_of s2); destruct (dec_of s1); reflexivity. Qed.

Lemma type_idx1_inv g op i args s :
  type_of g (T (T [L (lit "_"); L op; i] :: args)) = Some s ->
  exists si a ta, i = L si /\ args = [a] /\ type_of g a = Some ta /\ type_indexed op [si] [ta] = Some s.
Proof.
  intros H. rewrite type_indexed_app in H. destruct i as [si | ?]; [|discriminate H].
  cbn [map idx_str opt_all fold_right] in H.
  destruct (type_args g args) as [ts|] eqn:Ea; [|discriminate H].
  assert (Hts : exists ta, ts = [ta]).
  { unfold type_indexed in H. cbn [map opt_all fold_right] in H.
    destruct (dec_of si); [|discriminate H]. destruct ts as [|ta [|? ?]]; try discriminate H. now exists ta. }
  destruct Hts as (ta & ->). apply type_args_1 in Ea as (a & -> & Ha). exists si, a, ta. repeat split; assumption.
Qed.

Lemma type_idx2_inv g i j args s :
  type_of g (T (T [L (lit "_"); L (lit "extract"); i; j] :: args)) = Some s ->
  exists si sj a ta, i = L si /\ j = L sj /\ args = [a] /\ type_of g a = Some ta /\
                     type_indexed (lit "extract") [si; sj] [ta] = Some s.
Proof.
  intros H. rewrite type_indexed_app in H. destruct i as [si | ?]; [|discriminate H].
  destruct j as [sj | ?]; [|discriminate H].
  cbn [map idx_str opt_all fold_right] in H.
  destruct (type_args g args) as [ts|] eqn:Ea; [|discriminate H].
  assert (Hts : exists ta, ts = [ta]).
  { unfold type_indexed in H. cbn [map opt_all fold_right] in H.
    destruct (dec_of sj); destruct (dec_of si); try discriminate H;
    destruct ts as [|ta [|? [|? ?]]]; try discriminate H; try (now exists ta). }
  destruct Hts as (ta & ->). apply type_args_1 in Ea as (a & -> & Ha). exists si, sj, a, ta. repeat split; assumption.
Qed.

Lemma type_idx1_intro g op si a ta :
  type_of g a = Some ta -> type_of g (T [T [L (lit "_"); L op; L si]; a]) = type_indexed op [si] [ta].
Proof. intros H. rewrite type_indexed_app. cbn [map idx_str opt_all fold_right]. now rewrite (type_args_intro1 g a ta H). Qed.
Lemma type_idx2_intro g op si sj a ta :
  type_of g a = Some ta -> type_of g (T [T [L (lit "_"); L op; L si; L sj]; a]) = type_indexed op [si; sj] [ta].
Proof. intros H. rewrite type_indexed_app. cbn [map idx_str opt_all fold_right]. now rewrite (type_args_intro1 g a ta H). Qed.

Lemma indexed_head_ty_1 g h name args s :
  is_indexed_operator h name 1 = true -> type_of g (T (h :: args)) = Some s ->
  exists i, h = T [L (lit "_"); L (lit name); i].
Proof.
  intros Hi Hty. destruct (indexed_head_ty g h name 1 args s Hi Hty) as (idx & -> & Hl).
  destruct idx as [|i [|? ?]]; try discriminate Hl. now exists i.
Qed.
Lemma indexed_head_ty_2 g h name args s :
  is_indexed_operator h name 2 = true -> type_of g (T (h :: args)) = Some s ->
  exists i j, h = T [L (lit "_"); L (lit name); i; j].
Proof.
  intros Hi Hty. destruct (indexed_head_ty g h name 2 args s Hi Hty) as (idx & -> & Hl).
  destruct idx as [|i [|j [|? ?]]]; try discriminate Hl. now exists i, j.
Qed.

Lemma sBV_eq a b : a = b -> sBV a = sBV b.
Proof. now intros ->. Qed.

(* ---------- extension of a constant ---------- *)
Theorem bv_eval_extend_sort : forall g e e' l s,
  lit_free_ty g ->
  rw_bv_eval_extend e = Some l -> In e' l -> type_of g e = Some s -> type_of g e' = Some s.
Proof.
  intros g e e' l s Hlf Hrw Hin Hty. unfold rw_bv_eval_extend in Hrw.
  destruct e as [s0 | [| h [| c rest]]]; try (no_prop Hrw Hin).
  assert (Hcommon : forall name, (name = "zero_extend" \/ name = "sign_extend") ->
            is_indexed_operator h name 1 = true -> is_bv_const c = true ->
            exists si k w n, h = T [L (lit "_"); L (lit name); L si] /\ dec_of si = Some k /\
                             bv_const_value c = Some (Z.of_N n, Z.of_N w) /\ (n < 2 ^ w)%N /\ (0 < w)%N /\
                             s = sBV (w + k)).
  { intros name Hname Hi Cc. destruct (indexed_head_ty_1 g h name _ s Hi Hty) as (i & ->).
    apply type_idx1_inv in Hty as (si & a & ta & -> & E & Ha & Hs). injection E as <- ->.
    destruct (bv_const_type g c ta Hlf Cc Ha) as (w & n & -> & Bc & Rn & Rw).
    assert (Hs' : match dec_of si with Some k => match Typing.bv_width (sBV w) with Some w => Some (sBV (w + k)) | None => None end | None => None end = Some s).
    { destruct Hname as [-> | ->]; [rewrite <- tidx_zext | rewrite <- tidx_sext]; exact Hs. }
    destruct (dec_of si) as [k|] eqn:Ek; [|discriminate Hs']. rewrite bv_width_sBV in Hs'. injection Hs' as <-.
    exists si, k, w, n. auto 10. }
  destruct (is_indexed_operator h "zero_extend" 1) eqn:Ez.
  - destruct (is_bv_const c) eqn:Cc; cbn [orb andb] in Hrw; [|no_prop Hrw Hin].
    destruct (Hcommon "zero_extend" (or_introl eq_refl) Ez eq_refl) as (si & k & w & n & -> & Hk & Bc & Rn & Rw & ->).
    change (is_indexed_operator (T [L (lit "_"); L (lit "zero_extend"); L si]) "sign_extend" 1) with false in Hrw.
    rewrite get_indices_1, Bc in Hrw. cbn [int_of] in Hrw. rewrite Hk in Hrw. cbn [andb] in Hrw.
    injection Hrw as <-. destruct Hin as [<- | []].
    rewrite <- N2Z.inj_add. apply type_mk_bv_const; [lia|].
    eapply N.lt_le_trans; [exact Rn|]. apply N.pow_le_mono_r; lia.
  - destruct (is_indexed_operator h "sign_extend" 1) eqn:Es; [|no_prop Hrw Hin].
    destruct (is_bv_const c) eqn:Cc; cbn [orb andb] in Hrw; [|no_prop Hrw Hin].
    destruct (Hcommon "sign_extend" (or_intror eq_refl) Es eq_refl) as (si & k & w & n & -> & Hk & Bc & Rn & Rw & ->).
    rewrite get_indices_1, Bc in Hrw. cbn [int_of] in Hrw. rewrite Hk in Hrw.
    rewrite N2Z.id in Hrw.
    destruct (Z.eqb (Z.of_nat (length (to_bin n))) (Z.of_N w) && match to_bin n with d :: _ => N.eqb d 49 | [] => false end) eqn:Em.
    + injection Hrw as <-. destruct Hin as [<- | []].
      apply andb_true_iff in Em as [El _]. apply Z.eqb_eq in El.
      assert (Hb : forallb is_bin (repeat_c 49%N (Z.to_nat (Z.of_N k)) ++ to_bin n) = true).
      { rewrite forallb_app, is_bin_repeat_c, is_bin_to_bin by reflexivity. reflexivity. }
      rewrite type_bin_lit; [|exact Hlf|exact Hb|].
      * f_equal. apply sBV_eq. rewrite app_length, length_repeat_c. lia.
      * intros E. apply (f_equal (@length _)) in E. rewrite app_length, length_to_bin in E. cbn in E. lia.
    + injection Hrw as <-. destruct Hin as [<- | []].
      rewrite <- N2Z.inj_add. apply type_mk_bv_const; [lia|].
      eapply N.lt_le_trans; [exact Rn|]. apply N.pow_le_mono_r; lia.
Qed.

(* ---------- extraction from a constant ---------- *)
Theorem bv_extract_const_sort : forall g e e' l s,
  lit_free_ty g ->
  rw_bv_extract_const e = Some l -> In e' l -> type_of g e = Some s -> type_of g e' = Some s.
Proof.
  intros g e e' l s Hlf Hrw Hin Hty. unfold rw_bv_extract_const in Hrw.
  destruct e as [s0 | [| h [| c rest]]]; try (no_prop Hrw Hin).
  destruct (is_indexed_operator h "extract" 2) eqn:Ex; cbn [andb] in Hrw; [|no_prop Hrw Hin].
  destruct (indexed_head_ty_2 g h _ _ s Ex Hty) as (i & j & ->).
  destruct (is_bv_const c) eqn:Cc; [|no_prop Hrw Hin].
  apply type_idx2_inv in Hty as (si & sj & a & ta & -> & -> & E & Ha & Hs). injection E as <- ->.
  destruct (bv_const_type g c ta Hlf Cc Ha) as (w & x & -> & Bc & Rx & Rw).
  rewrite tidx_extract, bv_width_sBV in Hs.
  destruct (dec_of si) as [ni|] eqn:Hsi; [|discriminate Hs].
  destruct (dec_of sj) as [nj|] eqn:Hsj; [|discriminate Hs].
  destruct (N.leb nj ni && N.ltb ni w) eqn:Eji; [|discriminate Hs]. injection Hs as <-.
  apply andb_true_iff in Eji as [Hji Hiw]. apply N.leb_le in Hji. apply N.ltb_lt in Hiw.
  rewrite get_indices_2, Bc in Hrw. cbn [int_of] in Hrw. rewrite Hsi, Hsj in Hrw.
  injection Hrw as <-. destruct Hin as [<- | []]. rewrite N2Z.id.
  match goal with |- type_of g (L (cHASH :: c_b :: ?sl)) = _ => set (SL := sl) end.
  assert (S : forallb is_bin SL = true /\ length SL = N.to_nat (ni - nj + 1) /\
              bin_val SL = ((x / 2 ^ nj) mod 2 ^ (ni - nj + 1))%N)
    by exact (slice_extract x w ni nj Rw Rx Hji Hiw).
  destruct S as (S1 & S2 & _).
  rewrite type_bin_lit; [|exact Hlf|exact S1|].
  - f_equal. apply sBV_eq.
    transitivity (N.of_nat (N.to_nat (ni - nj + 1))); [f_equal; exact S2 | lia].
  - intros E. rewrite E in S2. cbn in S2. lia.
Qed.
