(* Value preservation of the Boolean and arithmetic rewrites. *)
From Coq Require Import ZifyBool.
From DD Require Import Spec.Semantics Model.Rewrites Proofs.Rw.EvalBase.
Local Open Scope list_scope.

Ltac no_prop Hrw Hin := solve [injection Hrw as <-; destruct Hin].

(* binary applications *)
Lemma eval_bin_inv rho op x y v :
  isop op "_" = false -> isop op "let" = false ->
  eval rho (T [L op; x; y]) = Some v ->
  exists v1 v2, eval rho x = Some v1 /\ eval rho y = Some v2 /\ apply_op op [v1; v2] = Some v.
Proof.
  intros H1 H2 H. apply eval_op_inv in H as (vs & Ha & Hv); try assumption.
  apply eval_args_cons_inv in Ha as (v1 & r1 & Hx & Ha & ->).
  apply eval_args_cons_inv in Ha as (v2 & r2 & Hy & Ha & ->).
  apply eval_args_nil_inv in Ha. subst r2. now exists v1, v2.
Qed.

Lemma eval_bin_intro rho op x y v1 v2 :
  isop op "_" = false -> isop op "let" = false ->
  eval rho x = Some v1 -> eval rho y = Some v2 ->
  eval rho (T [L op; x; y]) = apply_op op [v1; v2].
Proof. intros H1 H2 Hx Hy. apply eval_op_intro; try assumption. now apply eval_args_intro2. Qed.

(* ---------- (not (not x)) = x ---------- *)
Theorem bool_double_neg_identity : forall rho e e' l v,
  rw_bool_double_neg e = Some l -> In e' l -> eval rho e = Some v -> eval rho e' = Some v.
Proof.
  intros rho e e' l v Hrw Hin Hev. unfold rw_bool_double_neg in Hrw.
  destruct e as [s | [| [h | ?] [| a rest]]]; try (no_prop Hrw Hin).
  destruct (iss h "not") eqn:Eh; cbn [andb] in Hrw; [|no_prop Hrw Hin].
  destruct (is_op a "not") eqn:Ea; [|no_prop Hrw Hin].
  apply iss_eq in Eh. subst h. apply is_op_inv in Ea as (r & ->). cbn [args_of] in Hrw.
  destruct r as [|x r]; [discriminate|]. injection Hrw as <-. destruct Hin as [<- | []].
  apply eval_not_inv in Hev as (y & b & E & Hy & ->). injection E as E1 E2. subst y rest.
  apply eval_not_inv in Hy as (z & c & E & Hz & Hb). injection E as E1 E2. subst z r.
  injection Hb as ->. rewrite negb_involutive. exact Hz.
Qed.

(* ---------- (xor a b) = (distinct a b) ---------- *)
Theorem bool_xor_binary_identity : forall rho e e' l v,
  rw_bool_xor_binary e = Some l -> In e' l -> eval rho e = Some v -> eval rho e' = Some v.
Proof.
  intros rho e e' l v Hrw Hin Hev. unfold rw_bool_xor_binary in Hrw.
  destruct e as [s | [| [h | ?] [| a [| b [| ? ?]]]]]; try (no_prop Hrw Hin).
  destruct (iss h "xor") eqn:Eh; [|no_prop Hrw Hin].
  apply iss_eq in Eh. subst h. injection Hrw as <-. destruct Hin as [<- | []].
  apply eval_bin_inv in Hev as (v1 & v2 & H1 & H2 & Hv); try reflexivity.
  unfold lf. rewrite (eval_bin_intro rho _ a b v1 v2); try reflexivity; try assumption.
  rewrite ap_xor in Hv. rewrite ap_distinct.
  destruct v1 as [x | ? | ? ?]; try discriminate; destruct v2 as [y | ? | ? ?]; try discriminate.
  cbn in Hv |- *. rewrite <- Hv. destruct x, y; reflexivity.
Qed.

(* ---------- de Morgan ---------- *)
Lemma all_bools_cons v vs :
  all_bools (v :: vs) = match v, all_bools vs with VB b, Some r => Some (b :: r) | _, _ => None end.
Proof. destruct v; reflexivity. Qed.

Lemma negated_args rho : forall xs vs bs,
  eval_args rho xs = Some vs -> all_bools vs = Some bs ->
  eval_args rho (map (fun t => T [lf "not"; t]) xs) = Some (map VB (map negb bs)) /\
  all_bools (map VB (map negb bs)) = Some (map negb bs) /\
  length (map VB (map negb bs)) = length vs.
Proof.
  induction xs as [|x xs IH]; intros vs bs Ha Hb.
  - apply eval_args_nil_inv in Ha. subst vs. cbn in Hb. injection Hb as <-. repeat split.
  - apply eval_args_cons_inv in Ha as (v & r & Hx & Hr & ->).
    rewrite all_bools_cons in Hb. destruct v as [b | ? | ? ?]; try discriminate.
    destruct (all_bools r) as [br|] eqn:Er; [|discriminate]. injection Hb as <-.
    destruct (IH r br Hr Er) as (I1 & I2 & I3). cbn [map]. split; [|split].
    + rewrite eval_args_cons, I1. unfold lf. rewrite (eval_not_intro rho x b Hx). reflexivity.
    + rewrite all_bools_cons, I2. reflexivity.
    + cbn [length]. now rewrite I3.
Qed.

Lemma existsb_map_negb bs : existsb (fun b => b) (map negb bs) = negb (forallb (fun b => b) bs).
Proof. induction bs as [|b bs IH]; [reflexivity|]. cbn. rewrite IH. destruct b; reflexivity. Qed.
Lemma forallb_map_negb bs : forallb (fun b => b) (map negb bs) = negb (existsb (fun b => b) bs).
Proof. induction bs as [|b bs IH]; [reflexivity|]. cbn. rewrite IH. destruct b; reflexivity. Qed.

Lemma node_of_cons h x xs : node_of h (x :: xs) = T (lf h :: x :: xs).
Proof. reflexivity. Qed.

Theorem bool_de_morgan_identity : forall rho e e' l v,
  rw_bool_de_morgan e = Some l -> In e' l -> eval rho e = Some v -> eval rho e' = Some v.
Proof.
  intros rho e e' l v Hrw Hin Hev. unfold rw_bool_de_morgan in Hrw.
  destruct e as [s | [| [h | ?] [| a rest]]]; try (no_prop Hrw Hin).
  destruct (iss h "not") eqn:Eh; cbn [andb] in Hrw; [|no_prop Hrw Hin].
  apply iss_eq in Eh. subst h.
  apply eval_not_inv in Hev as (y & b & E & Hy & ->). injection E as E1 E2. subst y rest.
  destruct (is_op a "and") eqn:Eand.
  - cbn [orb] in Hrw. injection Hrw as <-. destruct Hin as [<- | []].
    apply is_op_inv in Eand as (r & ->). cbn [args_of].
    apply eval_op_inv in Hy as (vs & Ha & Hv); try reflexivity.
    rewrite ap_and in Hv. destruct (all_bools vs) as [bs|] eqn:Eb; [|discriminate].
    destruct (Nat.leb 2 (length vs)) eqn:El; [|discriminate]. injection Hv as <-.
    destruct (negated_args rho r vs bs Ha Eb) as (I1 & I2 & I3).
    destruct r as [|x r]; [apply eval_args_nil_inv in Ha; subst vs; discriminate|].
    cbn [map] in *. rewrite node_of_cons. unfold lf at 1.
    rewrite (eval_op_intro rho (lit "or") _ _ eq_refl eq_refl I1). rewrite ap_or, I2, I3, El.
    now rewrite existsb_map_negb.
  - cbn [orb] in Hrw. destruct (is_op a "or") eqn:Eor; [|no_prop Hrw Hin].
    injection Hrw as <-. destruct Hin as [<- | []].
    apply is_op_inv in Eor as (r & ->). cbn [args_of].
    apply eval_op_inv in Hy as (vs & Ha & Hv); try reflexivity.
    rewrite ap_or in Hv. destruct (all_bools vs) as [bs|] eqn:Eb; [|discriminate].
    destruct (Nat.leb 2 (length vs)) eqn:El; [|discriminate]. injection Hv as <-.
    destruct (negated_args rho r vs bs Ha Eb) as (I1 & I2 & I3).
    destruct r as [|x r]; [apply eval_args_nil_inv in Ha; subst vs; discriminate|].
    cbn [map] in *. rewrite node_of_cons. unfold lf at 1.
    rewrite (eval_op_intro rho (lit "and") _ _ eq_refl eq_refl I1). rewrite ap_and, I2, I3, El.
    now rewrite forallb_map_negb.
Qed.

(* ---------- (=> a b) = (or (not a) b), binary ---------- *)
Theorem bool_implication_identity : forall rho h a b e' l v,
  rw_bool_implication (T [L h; a; b]) = Some l -> In e' l ->
  eval rho (T [L h; a; b]) = Some v -> eval rho e' = Some v.
Proof.
  intros rho h a b e' l v Hrw Hin Hev. unfold rw_bool_implication in Hrw.
  destruct (iss h "=>") eqn:Eh; [|no_prop Hrw Hin].
  apply iss_eq in Eh. subst h. cbn in Hrw. injection Hrw as <-. destruct Hin as [<- | []].
  apply eval_bin_inv in Hev as (v1 & v2 & H1 & H2 & Hv); try reflexivity.
  rewrite ap_imp in Hv.
  destruct v1 as [x | ? | ? ?]; try discriminate; destruct v2 as [y | ? | ? ?]; try discriminate.
  cbn in Hv. injection Hv as <-.
  change (lf "or") with (L (lit "or")). change (lf "not") with (L (lit "not")).
  rewrite (eval_bin_intro rho _ _ b (VB (negb x)) (VB y)); try reflexivity; try assumption.
  - rewrite ap_or. cbn. destruct x, y; reflexivity.
  - now apply eval_not_intro.
Qed.

(* ---------- (= false X) = (not X), binary ----------
   The evaluation of = does not check that both operands have the same sort
   and the valuation could bind the name false: both are excluded by
   hypotheses (they hold for every well-sorted SMT-LIB term). *)
Definition bool_valued (rho : list (str * value)) (t : sexp) : Prop :=
  forall u, eval rho t = Some u -> exists x, u = VB x.

Theorem bool_false_eq_identity : forall rho h a b e' l v,
  lookup_v (lit "false") rho = None ->
  bool_valued rho a -> bool_valued rho b ->
  rw_bool_false_eq (T [L h; a; b]) = Some l -> In e' l ->
  eval rho (T [L h; a; b]) = Some v -> eval rho e' = Some v.
Proof.
  intros rho h a b e' l v Hfalse Hba Hbb Hrw Hin Hev. unfold rw_bool_false_eq in Hrw.
  destruct (iss h "=") eqn:Eh; cbn [andb] in Hrw; [|no_prop Hrw Hin].
  apply iss_eq in Eh. subst h.
  apply eval_bin_inv in Hev as (v1 & v2 & H1 & H2 & Hv); try reflexivity.
  destruct (Hba _ H1) as (x & ->). destruct (Hbb _ H2) as (y & ->).
  rewrite ap_eq in Hv. cbn in Hv. injection Hv as <-.
  assert (Hf : forall t, sexp_eqb t (lf "false") = true -> eval rho t = Some (VB false)).
  { intros t Ht. apply sexp_eqb_eq in Ht. subst t. unfold lf. rewrite eval_leaf, Hfalse. reflexivity. }
  cbn [existsb filter] in Hrw.
  change (sexp_eqb (L (lit "=")) (lf "false")) with false in Hrw. cbn [orb] in Hrw.
  destruct (sexp_eqb a (lf "false")) eqn:Ea; destruct (sexp_eqb b (lf "false")) eqn:Eb;
    cbn [orb negb map make_and olist1] in Hrw; try (no_prop Hrw Hin);
    injection Hrw as <-; destruct Hin as [<- | []]; change (lf "not") with (L (lit "not")).
  - apply Hf in Ea. rewrite H1 in Ea. injection Ea as ->.
    rewrite (eval_not_intro rho b y H2). destruct y; reflexivity.
  - apply Hf in Eb. rewrite H2 in Eb. injection Eb as ->.
    rewrite (eval_not_intro rho a x H1). destruct x; reflexivity.
Qed.

(* ---------- (not (r x y)) = (r' x y), binary ---------- *)
Lemma all_ints_2 v1 v2 zs : all_ints [v1; v2] = Some zs -> exists z1 z2, v1 = VI z1 /\ v2 = VI z2 /\ zs = [z1; z2].
Proof.
  destruct v1 as [? | z1 | ? ?]; try discriminate; destruct v2 as [? | z2 | ? ?]; try discriminate.
  cbn. intros H. injection H as <-. now exists z1, z2.
Qed.

Theorem arith_negate_relation_identity : forall rho h r x y e' l v,
  rw_arith_negate_relation (T [L h; T [L r; x; y]]) = Some l -> In e' l ->
  eval rho (T [L h; T [L r; x; y]]) = Some v -> eval rho e' = Some v.
Proof.
  intros rho h r x y e' l v Hrw Hin Hev. unfold rw_arith_negate_relation in Hrw.
  destruct (iss h "not") eqn:Eh; [|no_prop Hrw Hin].
  apply iss_eq in Eh. subst h.
  apply eval_not_inv in Hev as (t & b & E & Ht & ->). injection E as <-.
  unfold negator in Hrw.
  repeat match type of Hrw with
         | context [iss r ?s] => let E := fresh "Er" in destruct (iss r s) eqn:E; [apply iss_eq in E; subst r|]
         end;
  cbv beta iota in Hrw;
  try (no_prop Hrw Hin);
  injection Hrw as <-; destruct Hin as [<- | []]; unfold lf;
  apply eval_bin_inv in Ht as (v1 & v2 & H1 & H2 & Hv); try reflexivity;
  rewrite (eval_bin_intro rho _ x y v1 v2); try reflexivity; try assumption.
  - (* = *) rewrite ap_eq in Hv. rewrite ap_distinct. cbn in Hv |- *. injection Hv as <-.
    destruct (value_eqb v1 v2); reflexivity.
  - (* < *) rewrite ap_lt in Hv. rewrite ap_ge. destruct (all_ints [v1; v2]) as [zs|] eqn:Ez; [|discriminate].
    apply all_ints_2 in Ez as (z1 & z2 & -> & -> & ->). cbn in Hv |- *. injection Hv as <-. f_equal. f_equal. lia.
  - (* > *) rewrite ap_gt in Hv. rewrite ap_le. destruct (all_ints [v1; v2]) as [zs|] eqn:Ez; [|discriminate].
    apply all_ints_2 in Ez as (z1 & z2 & -> & -> & ->). cbn in Hv |- *. injection Hv as <-. f_equal. f_equal. lia.
  - (* >= *) rewrite ap_ge in Hv. rewrite ap_lt. destruct (all_ints [v1; v2]) as [zs|] eqn:Ez; [|discriminate].
    apply all_ints_2 in Ez as (z1 & z2 & -> & -> & ->). cbn in Hv |- *. injection Hv as <-. f_equal. f_equal. lia.
  - (* <= *) rewrite ap_le in Hv. rewrite ap_gt. destruct (all_ints [v1; v2]) as [zs|] eqn:Ez; [|discriminate].
    apply all_ints_2 in Ez as (z1 & z2 & -> & -> & ->). cbn in Hv |- *. injection Hv as <-. f_equal. f_equal. lia.
  - (* != has no value *) rewrite ap_neq in Hv. discriminate.
  - (* <> has no value *) rewrite ap_ltgt in Hv. discriminate.
  - (* distinct *) rewrite ap_distinct in Hv. rewrite ap_eq. cbn in Hv |- *. injection Hv as <-.
    destruct (value_eqb v1 v2); reflexivity.
Qed.
