(* Nested extensions and extraction from a zero extension. *)
From Coq Require Import ZifyBool.
From DD Require Import Spec.Semantics Model.Rewrites Proofs.Rw.DigitsRT Proofs.Rw.EvalBase Proofs.Rw.Range
  Proofs.Rw.BoolRw Proofs.Rw.BvConst Proofs.Rw.BvRw3.
Local Open Scope list_scope.

(* ---------- the sign bit of a value in range ---------- *)
Lemma msb_spec w x : (0 < w)%N -> (x < 2 ^ w)%N -> msb w x = N.leb (2 ^ (w - 1)) x.
Proof.
  intros Hw Hx. unfold msb.
  assert (Hp : (2 ^ w = 2 * 2 ^ (w - 1))%N).
  { rewrite <- N.pow_succ_r'. f_equal. lia. }
  pose proof (pow2_pos (w - 1)) as Hpos.
  destruct (N.leb (2 ^ (w - 1)) x) eqn:E.
  - apply N.leb_le in E. apply N.testbit_true.
    assert (Hq : (x / 2 ^ (w - 1) = 1)%N).
    { symmetry. apply (N.div_unique x (2 ^ (w - 1)) 1 (x - 2 ^ (w - 1))); lia. }
    rewrite Hq. reflexivity.
  - apply N.leb_gt in E. apply N.testbit_false. rewrite N.div_small by exact E. reflexivity.
Qed.

Definition sext_val (j w x : N) : N := if msb w x then (x + (2 ^ j - 1) * 2 ^ w)%N else x.

Lemma sext_val_0 w x : sext_val 0 w x = x.
Proof. unfold sext_val. destruct (msb w x); [|reflexivity]. cbn. lia. Qed.

Lemma sext_val_lt j w x : (x < 2 ^ w)%N -> (sext_val j w x < 2 ^ (w + j))%N.
Proof.
  intros H. unfold sext_val. destruct (msb w x).
  - now apply sext_lt.
  - eapply N.lt_le_trans; [exact H|]. apply N.pow_le_mono_r; lia.
Qed.

Lemma sext_compose i j w x : (x < 2 ^ w)%N ->
  sext_val i (w + j) (sext_val j w x) = sext_val (j + i) w x.
Proof.
  intros Hx. destruct (N.eq_dec w 0) as [-> | Hw].
  - assert (x = 0%N) by (cbn in Hx; lia). subst x.
    unfold sext_val, msb. rewrite !N.bits_0. reflexivity.
  - pose proof (sext_val_lt j w x Hx) as Hlt.
    unfold sext_val at 1. rewrite (msb_spec (w + j) _ ltac:(lia) Hlt).
    unfold sext_val in *. rewrite (msb_spec w x ltac:(lia) Hx) in *.
    assert (Hp : (2 ^ w = 2 * 2 ^ (w - 1))%N).
    { rewrite <- N.pow_succ_r'. f_equal. lia. }
    pose proof (pow2_pos (w - 1)) as Hpos. pose proof (pow2_pos j) as Hj. pose proof (pow2_pos i) as Hi.
    destruct (N.leb (2 ^ (w - 1)) x) eqn:E.
    + apply N.leb_le in E.
      assert (Hm : N.leb (2 ^ (w + j - 1)) (x + (2 ^ j - 1) * 2 ^ w) = true).
      { apply N.leb_le. replace (w + j - 1)%N with (j + (w - 1))%N by lia. rewrite N.pow_add_r, Hp.
        revert E Hj Hpos. generalize (2 ^ (w - 1))%N (2 ^ j)%N. intros p q E Hj Hpos.
        assert (Hq : exists r, q = (r + 1)%N) by (exists (q - 1)%N; lia). destruct Hq as (r & ->).
        replace (r + 1 - 1)%N with r by lia. nia. }
      rewrite Hm. rewrite !N.pow_add_r.
      revert Hj Hi. generalize (2 ^ w)%N (2 ^ j)%N (2 ^ i)%N. intros a b c Hj Hi.
      assert (Hb : exists r, b = (r + 1)%N) by (exists (b - 1)%N; lia). destruct Hb as (b' & ->).
      assert (Hc : exists r, c = (r + 1)%N) by (exists (c - 1)%N; lia). destruct Hc as (c' & ->).
      replace (b' + 1 - 1)%N with b' by lia. replace (c' + 1 - 1)%N with c' by lia.
      replace ((b' + 1) * (c' + 1) - 1)%N with (b' * c' + b' + c')%N by nia. ring.
    + apply N.leb_gt in E.
      assert (Hm : N.leb (2 ^ (w + j - 1)) x = false).
      { apply N.leb_gt. eapply N.lt_le_trans; [exact E|]. apply N.pow_le_mono_r; lia. }
      rewrite Hm. reflexivity.
Qed.

(* ---------- nested extensions ---------- *)
Lemma merge_step rho op fuel e acc k inner v :
  merge_ext (S fuel) op e acc = Some (k, inner) -> eval rho e = Some v ->
  (k = acc /\ inner = e) \/
  (exists s ni a, e = T [T [L (lit "_"); L (lit op); L s]; a] /\ dec_of s = Some ni /\
                  merge_ext fuel op a (acc + Z.of_N ni)%Z = Some (k, inner)).
Proof.
  intros Hm Hev. cbn [merge_ext] in Hm. destruct (is_indexed_app e op 1) eqn:E.
  - right. destruct e as [? | [| h args]]; try discriminate E. cbn [is_indexed_app] in E.
    destruct (indexed_head_1 rho h op args v E Hev) as (i & ->).
    destruct args as [|a rest]; [discriminate Hm|]. rewrite get_indices_1 in Hm.
    destruct (int_of i) as [iz|] eqn:Ei; [|discriminate Hm].
    apply int_of_inv in Ei as (s & ni & -> & Hs & ->).
    rewrite (eval_indexed_1 rho _ s ni _ Hs) in Hev.
    destruct (eval_args rho (a :: rest)) as [vs|] eqn:Ea; [|discriminate Hev].
    destruct (apply_indexed_1_inv _ _ _ _ Hev) as (w & x & ->).
    apply eval_args_1 in Ea as (a' & Ea & _). injection Ea as <- ->.
    exists s, ni, a. auto.
  - left. injection Hm as <- <-. auto.
Qed.

Lemma eval_ext_inv rho op s ni a v :
  dec_of s = Some ni -> eval rho (T [T [L (lit "_"); L op; L s]; a]) = Some v ->
  exists w x, eval rho a = Some (VV w x) /\ apply_indexed op [ni] [VV w x] = Some v.
Proof.
  intros Hs Hev. rewrite (eval_indexed_1 rho _ s ni _ Hs) in Hev.
  destruct (eval_args rho [a]) as [vs|] eqn:Ea; [|discriminate Hev].
  destruct (apply_indexed_1_inv _ _ _ _ Hev) as (w & x & ->).
  apply eval_args_1 in Ea as (a' & Ea & Ha). injection Ea as <-. now exists w, x.
Qed.

Lemma merge_zext rho : forall fuel e acc k inner w x,
  merge_ext fuel "zero_extend" e acc = Some (k, inner) -> eval rho e = Some (VV w x) ->
  exists j wi, k = (acc + Z.of_N j)%Z /\ eval rho inner = Some (VV wi x) /\ w = (wi + j)%N.
Proof.
  induction fuel as [|fuel IH]; intros e acc k inner w x Hm Hev.
  - cbn in Hm. injection Hm as <- <-. exists 0%N, w. repeat split; [lia | exact Hev | lia].
  - destruct (merge_step rho _ fuel e acc k inner _ Hm Hev) as [(-> & ->) | (s & ni & a & -> & Hs & Hm')].
    + exists 0%N, w. repeat split; [lia | exact Hev | lia].
    + destruct (eval_ext_inv rho _ s ni a _ Hs Hev) as (wa & xa & Ha & Hv).
      rewrite ai_zext in Hv. injection Hv as <- <-.
      destruct (IH a _ k inner wa xa Hm' Ha) as (j & wi & -> & Hi & ->).
      exists (ni + j)%N, wi. repeat split; [lia | exact Hi | lia].
Qed.

Lemma merge_sext rho : rho_ok rho -> forall fuel e acc k inner w x,
  merge_ext fuel "sign_extend" e acc = Some (k, inner) -> eval rho e = Some (VV w x) ->
  exists j wi xi, k = (acc + Z.of_N j)%Z /\ eval rho inner = Some (VV wi xi) /\ w = (wi + j)%N /\ x = sext_val j wi xi.
Proof.
  intros Hrho. induction fuel as [|fuel IH]; intros e acc k inner w x Hm Hev.
  - cbn in Hm. injection Hm as <- <-. exists 0%N, w, x. rewrite sext_val_0. repeat split; [lia | exact Hev | lia].
  - destruct (merge_step rho _ fuel e acc k inner _ Hm Hev) as [(-> & ->) | (s & ni & a & -> & Hs & Hm')].
    + exists 0%N, w, x. rewrite sext_val_0. repeat split; [lia | exact Hev | lia].
    + destruct (eval_ext_inv rho _ s ni a _ Hs Hev) as (wa & xa & Ha & Hv).
      rewrite ai_sext in Hv. injection Hv as <- <-.
      destruct (IH a _ k inner wa xa Hm' Ha) as (j & wi & xi & -> & Hi & -> & ->).
      exists (j + ni)%N, wi, xi. repeat split; [lia | exact Hi | lia |].
      fold (sext_val ni (wi + j) (sext_val j wi xi)). apply sext_compose.
      exact (eval_range_bv _ _ _ _ Hrho Hi).
Qed.

Lemma eval_idx_head_1 rho op j a vs :
  eval_args rho [a] = Some vs ->
  eval rho (T [idx_head op [Z.of_N j]; a]) = apply_indexed (lit op) [j] vs.
Proof.
  intros Ha. unfold idx_head, lf. cbn [map]. rewrite z_to_dec_of_N.
  rewrite (eval_indexed_1 rho _ (to_dec j) j _ (dec_of_to_dec j)). now rewrite Ha.
Qed.

Theorem bv_merge_extend_identity : forall rho e e' l v,
  rho_ok rho ->
  rw_bv_merge_extend e = Some l -> In e' l -> eval rho e = Some v -> eval rho e' = Some v.
Proof.
  intros rho e e' l v Hrho Hrw Hin Hev. unfold rw_bv_merge_extend in Hrw.
  destruct e as [s | [| h [| a rest]]]; try (no_prop Hrw Hin).
  - (* a head without argument: the model raises or proposes nothing *)
    destruct (is_indexed_app (T [h]) "zero_extend" 1 || is_indexed_app (T [h]) "sign_extend" 1);
      [discriminate Hrw | no_prop Hrw Hin].
  - set (e := T (h :: a :: rest)) in *.
    destruct (is_indexed_app e "zero_extend" 1 && is_indexed_app a "zero_extend" 1) eqn:Ez.
    + destruct (merge_ext (size e) "zero_extend" e 0) as [[k inner]|] eqn:Em; [|discriminate Hrw].
      injection Hrw as <-. destruct Hin as [<- | []].
      apply andb_true_iff in Ez as [Ez _]. unfold e in Ez. cbn [is_indexed_app] in Ez.
      destruct (indexed_head_1 rho h _ _ v Ez Hev) as (i & Hh).
      assert (Hv : exists w x, v = VV w x).
      { unfold e in Hev. rewrite Hh in Hev. destruct i as [si | ?]; [|discriminate Hev].
        rewrite eval_indexed in Hev. cbn [map idx_of opt_all_v fold_right] in Hev.
        destruct (dec_of si) as [ni|]; [|discriminate Hev].
        destruct (eval_args rho (a :: rest)) as [vs|]; [|discriminate Hev].
        destruct (apply_indexed_1_inv _ _ _ _ Hev) as (w & x & ->). rewrite ai_zext in Hev.
        injection Hev as <-. eauto. }
      destruct Hv as (w & x & ->).
      destruct (merge_zext rho _ _ _ _ _ _ _ Em Hev) as (j & wi & -> & Hi & ->).
      rewrite Z.add_0_l. rewrite (eval_idx_head_1 rho _ j inner _ (eval_args_intro1 _ _ _ Hi)).
      apply ai_zext.
    + destruct (is_indexed_app e "sign_extend" 1 && is_indexed_app a "sign_extend" 1) eqn:Es; [|no_prop Hrw Hin].
      destruct (merge_ext (size e) "sign_extend" e 0) as [[k inner]|] eqn:Em; [|discriminate Hrw].
      injection Hrw as <-. destruct Hin as [<- | []].
      apply andb_true_iff in Es as [Es _]. unfold e in Es. cbn [is_indexed_app] in Es.
      destruct (indexed_head_1 rho h _ _ v Es Hev) as (i & Hh).
      assert (Hv : exists w x, v = VV w x).
      { unfold e in Hev. rewrite Hh in Hev. destruct i as [si | ?]; [|discriminate Hev].
        rewrite eval_indexed in Hev. cbn [map idx_of opt_all_v fold_right] in Hev.
        destruct (dec_of si) as [ni|]; [|discriminate Hev].
        destruct (eval_args rho (a :: rest)) as [vs|]; [|discriminate Hev].
        destruct (apply_indexed_1_inv _ _ _ _ Hev) as (w & x & ->). rewrite ai_sext in Hev.
        injection Hev as <-. eauto. }
      destruct Hv as (w & x & ->).
      destruct (merge_sext rho Hrho _ _ _ _ _ _ _ Em Hev) as (j & wi & xi & -> & Hi & -> & ->).
      rewrite Z.add_0_l. rewrite (eval_idx_head_1 rho _ j inner _ (eval_args_intro1 _ _ _ Hi)).
      apply ai_sext.
Qed.

(* ---------- extraction from a zero extension ---------- *)
Lemma eval_idx_head_2 rho op i j a vs :
  eval_args rho [a] = Some vs ->
  eval rho (T [idx_head op [Z.of_N i; Z.of_N j]; a]) = apply_indexed (lit op) [i; j] vs.
Proof.
  intros Ha. unfold idx_head, lf. cbn [map]. rewrite !z_to_dec_of_N.
  rewrite (eval_indexed_2 rho _ (to_dec i) (to_dec j) i j _ (dec_of_to_dec i) (dec_of_to_dec j)). now rewrite Ha.
Qed.

Lemma div_pow2_lt x w j : (x < 2 ^ w)%N -> (j <= w)%N -> (x / 2 ^ j < 2 ^ (w - j))%N.
Proof.
  intros Hx Hj. apply N.div_lt_upper_bound; [apply N.pow_nonzero; lia|].
  rewrite <- N.pow_add_r. replace (j + (w - j))%N with w by lia. exact Hx.
Qed.

Theorem bv_extract_zext_identity : forall bw rho e e' l v,
  rho_ok rho ->
  (forall t w n, eval rho t = Some (VV w n) -> bw t = (-1)%Z \/ bw t = Z.of_N w) ->
  rw_bv_extract_zext bw e = Some l -> In e' l -> eval rho e = Some v -> eval rho e' = Some v.
Proof.
  intros bw rho e e' l v Hrho Hbw Hrw Hin Hev. unfold rw_bv_extract_zext in Hrw.
  destruct e as [s | [| h [| inner rest]]]; try (no_prop Hrw Hin).
  destruct (is_indexed_operator h "extract" 2) eqn:Ex; cbn [andb] in Hrw; [|no_prop Hrw Hin].
  destruct (is_indexed_app inner "zero_extend" 1) eqn:Ez; [|no_prop Hrw Hin].
  destruct (indexed_head_2 rho h _ _ v Ex Hev) as (i & j & Hh).
  (* the indices of the extraction *)
  assert (Hij : exists si sj ni nj, i = L si /\ j = L sj /\ dec_of si = Some ni /\ dec_of sj = Some nj).
  { rewrite Hh in Hev. rewrite eval_indexed in Hev.
    destruct i as [si | ?]; [|discriminate Hev].
    destruct j as [sj | ?]; cbn [map idx_of opt_all_v fold_right] in Hev; [|destruct (dec_of si); discriminate Hev].
    destruct (dec_of si) as [ni|] eqn:E1; [|discriminate Hev]. destruct (dec_of sj) as [nj|] eqn:E2; [|discriminate Hev].
    now exists si, sj, ni, nj. }
  destruct Hij as (si & sj & ni & nj & -> & -> & Hsi & Hsj).
  pose proof Hev as Hev0. rewrite Hh in Hev.
  rewrite (eval_indexed_2 rho _ si sj ni nj _ Hsi Hsj) in Hev.
  destruct (eval_args rho (inner :: rest)) as [vs|] eqn:Ea; [|discriminate Hev].
  destruct (apply_indexed_2_inv _ _ _ _ _ Hev) as (W & X & ->).
  apply eval_args_1 in Ea as (c' & E & Hinner). injection E as <- ->.
  (* the zero extension *)
  destruct inner as [? | [| hz argsz]]; try discriminate Ez. cbn [is_indexed_app] in Ez.
  destruct (indexed_head_1 rho hz _ _ _ Ez Hinner) as (k & ->).
  assert (Hk : exists sk nk, k = L sk /\ dec_of sk = Some nk).
  { rewrite eval_indexed in Hinner.
    destruct k as [sk | ?]; cbn [map idx_of opt_all_v fold_right] in Hinner; [|discriminate Hinner]. destruct (dec_of sk) as [nk|] eqn:E1; [|discriminate Hinner].
    now exists sk, nk. }
  destruct Hk as (sk & nk & -> & Hsk).
  rewrite (eval_indexed_1 rho _ sk nk _ Hsk) in Hinner.
  destruct (eval_args rho argsz) as [vz|] eqn:Eaz; [|discriminate Hinner].
  destruct (apply_indexed_1_inv _ _ _ _ Hinner) as (wt & x & ->).
  apply eval_args_1 in Eaz as (term & -> & Hterm).
  rewrite ai_zext in Hinner. injection Hinner as <- <-.
  cbn [args_of] in Hrw.
  destruct (Z.leb (bw term) 0) eqn:Ew0; [no_prop Hrw Hin|]. apply Z.leb_gt in Ew0.
  destruct (Hbw term wt x Hterm) as [Hw | Hw]; [lia|].
  pose proof (eval_range_bv _ _ _ _ Hrho Hterm) as Rx.
  rewrite Hh, get_indices_2 in Hrw. cbn [int_of] in Hrw. rewrite Hsi, Hsj in Hrw.
  rewrite ai_extract in Hev.
  destruct (N.leb nj ni && N.ltb ni (wt + nk)) eqn:Eji; [|discriminate Hev]. injection Hev as <-.
  apply andb_true_iff in Eji as [Hji Hiw]. apply N.leb_le in Hji. apply N.ltb_lt in Hiw.
  rewrite Hw in Hrw.
  destruct (Z.leb (Z.of_N wt) (Z.of_N nj)) eqn:C1.
  - (* only zeros *)
    apply Z.leb_le in C1. injection Hrw as <-. destruct Hin as [<- | []].
    replace (Z.of_N ni - Z.of_N nj + 1)%Z with (Z.of_N (ni - nj + 1)) by lia.
    change 0%Z with (Z.of_N 0).
    rewrite eval_mk_bv_const; [|lia|apply pow2_pos].
    f_equal. f_equal. rewrite N.div_small; [symmetry; apply N.mod_0_l; apply N.pow_nonzero; lia|].
    eapply N.lt_le_trans; [exact Rx|]. apply N.pow_le_mono_r; lia.
  - apply Z.leb_gt in C1. destruct (Z.ltb (Z.of_N ni) (Z.of_N wt)) eqn:C2.
    + (* only the operand *)
      apply Z.ltb_lt in C2. injection Hrw as <-. destruct Hin as [<- | []].
      rewrite (eval_indexed_2 rho _ si sj ni nj _ Hsi Hsj), (eval_args_intro1 _ _ _ Hterm), ai_extract.
      replace (N.leb nj ni && N.ltb ni wt) with true; [reflexivity|].
      symmetry. apply andb_true_iff. split; [apply N.leb_le | apply N.ltb_lt]; lia.
    + (* across the boundary *)
      apply Z.ltb_ge in C2. injection Hrw as <-. destruct Hin as [<- | []].
      replace (Z.of_N ni - Z.of_N wt + 1)%Z with (Z.of_N (ni - wt + 1)) by lia.
      replace (Z.of_N wt - 1)%Z with (Z.of_N (wt - 1)) by lia.
      assert (Hin1 : eval rho (T [idx_head "extract" [Z.of_N (wt - 1); Z.of_N nj]; term]) =
                     Some (VV (wt - 1 - nj + 1) ((x / 2 ^ nj) mod 2 ^ (wt - 1 - nj + 1)))).
      { rewrite (eval_idx_head_2 rho _ _ _ term _ (eval_args_intro1 _ _ _ Hterm)), ai_extract.
        replace (N.leb nj (wt - 1) && N.ltb (wt - 1) wt) with true; [reflexivity|].
        symmetry. apply andb_true_iff. split; [apply N.leb_le | apply N.ltb_lt]; lia. }
      rewrite (eval_idx_head_1 rho _ _ _ _ (eval_args_intro1 _ _ _ Hin1)), ai_zext.
      f_equal. f_equal; [lia|].
      pose proof (div_pow2_lt x wt nj Rx ltac:(lia)) as Hd.
      rewrite !N.mod_small; [reflexivity| |].
      * eapply N.lt_le_trans; [exact Hd|]. apply N.pow_le_mono_r; lia.
      * eapply N.lt_le_trans; [exact Hd|]. apply N.pow_le_mono_r; lia.
Qed.
