(* Bit-vector constants: the value computed by the model's
   get_bv_constant_value agrees with the evaluation of the constant. *)
From DD Require Import Spec.Semantics Model.Rewrites Proofs.Rw.DigitsRT Proofs.Rw.EvalBase.
Local Open Scope list_scope.

(* the valuation binds no bit-vector literal (literals are not symbols) *)
Definition lit_free (rho : list (str * value)) : Prop :=
  forall s, is_bv_const (L s) = true -> lookup_v s rho = None.

Lemma starts_bv b : starts "bv" b = true -> exists digs, b = c_b :: c_v :: digs.
Proof.
  unfold starts. replace (lit "bv") with [c_b; c_v] by reflexivity.
  destruct b as [|c1 [|c2 digs]]; intros H.
  - discriminate H.
  - apply andb_true_iff in H as [_ H]. discriminate H.
  - apply andb_true_iff in H as [H1 H2]. apply andb_true_iff in H2 as [H2 _].
    apply N.eqb_eq in H1, H2. subst. now exists digs.
Qed.

Lemma bv_const_eval rho c v :
  lit_free rho -> is_bv_const c = true -> eval rho c = Some v ->
  exists w n, v = VV w n /\ bv_const_value c = Some (Z.of_N n, Z.of_N w) /\ (n < 2 ^ w)%N /\ (0 < w)%N.
Proof.
  intros Hlf Hc Hev. destruct c as [s | l].
  - rewrite eval_leaf, (Hlf s Hc) in Hev. cbn [is_bv_const] in Hc.
    destruct s as [|c0 [|d tl]]; try discriminate Hc.
    destruct (N.eqb c0 cHASH) eqn:E0; [|discriminate Hc]. apply N.eqb_eq in E0. subst c0.
    cbn [andb] in Hc. unfold const_value in Hev.
    change (isop (cHASH :: d :: tl) "true") with false in Hev.
    change (isop (cHASH :: d :: tl) "false") with false in Hev.
    change (all_digits (cHASH :: d :: tl)) with false in Hev. cbv iota in Hev.
    rewrite N.eqb_refl in Hev. cbn [andb] in Hev.
    destruct (N.eqb d c_b) eqn:Eb.
    + cbn [andb] in Hev, Hc. destruct (forallb is_bin tl) eqn:Et.
      * destruct tl as [|t0 tl']; [discriminate Hev|]. injection Hev as <-.
        exists (N.of_nat (length (t0 :: tl'))), (bin_val (t0 :: tl')). split; [reflexivity|].
        cbn [bv_const_value]. rewrite Eb. rewrite nat_N_Z. split; [reflexivity|]. split.
        -- now apply bin_val_lt.
        -- cbn [length]. lia.
      * cbn [orb] in Hc. apply N.eqb_eq in Eb. subst d. discriminate Hc.
    + cbn [andb orb] in Hev, Hc. destruct (N.eqb d c_x); [|discriminate Hc]. cbn [andb] in Hev, Hc.
      rewrite Hc in Hev. destruct tl as [|t0 tl']; [discriminate Hev|]. injection Hev as <-.
      exists (4 * N.of_nat (length (t0 :: tl')))%N, (hex_val (t0 :: tl')). split; [reflexivity|].
      cbn [bv_const_value]. rewrite Eb. split; [f_equal; f_equal; lia|]. split.
      * now apply hex_val_lt.
      * cbn [length]. lia.
  - cbn [is_bv_const] in Hc.
    destruct l as [|[h | ?] [|[b | ?] [|w' [|? ?]]]]; cbv iota in Hc; try discriminate Hc.
    apply andb_true_iff in Hc as [Hh Hb]. apply iss_eq in Hh. subst h.
    apply starts_bv in Hb as (digs & ->).
    destruct w' as [w' | ?]; [|discriminate Hev].
    rewrite eval_bvlit in Hev.
    destruct (all_digits digs) eqn:Ed; [|discriminate Hev].
    destruct (dec_of w') as [m|] eqn:Ew; [|discriminate Hev].
    destruct (N.ltb 0 m && N.ltb (dec_val digs) (2 ^ m)) eqn:E; [|discriminate Hev].
    injection Hev as <-. apply andb_true_iff in E as [E1 E2]. apply N.ltb_lt in E1, E2.
    exists m, (dec_val digs). split; [reflexivity|].
    cbn [bv_const_value int_of]. unfold dec_of at 1. rewrite Ed, Ew. repeat split; assumption.
Qed.
