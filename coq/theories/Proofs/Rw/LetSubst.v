(* C17 for LetSubstitution (Model/LetRw.v): substituting a let-bound variable
   by its term in the body of the let preserves the value of the let
   (Spec/Semantics.v), under the side conditions of Proofs/Rw/LetSide.v. *)
From DD Require Import Spec.Semantics Model.Rewrites Model.LetRw Proofs.Rw.EvalBase Proofs.Rw.LetSide.
Local Open Scope list_scope.

(* ================= s-expressions ================= *)
Lemma sexp_eqb_refl : forall a, sexp_eqb a a = true.
Proof.
  induction a as [s | l IH] using sexp_ind'; cbn [sexp_eqb].
  - apply str_eqb_refl.
  - induction IH as [| x l Hx _ IHl]; [reflexivity|]. now rewrite Hx, IHl.
Qed.

Lemma mem_sexp_true a l : mem_sexp a l = true <-> In a l.
Proof.
  unfold mem_sexp. rewrite existsb_exists. split.
  - intros (y & Hy & E). apply sexp_eqb_eq in E. now subst.
  - intros H. exists a. split; [assumption | apply sexp_eqb_refl].
Qed.

Lemma mem_sexp_false a l : mem_sexp a l = false <-> ~ In a l.
Proof.
  rewrite <- mem_sexp_true. destruct (mem_sexp a l); split; intro H; try reflexivity; try discriminate.
  exfalso. now apply H.
Qed.

Lemma subterms_T l : subterms (T l) = T l :: flat_map subterms l.
Proof.
  reflexivity.
Qed.

Lemma sub_refl e : In e (subterms e).
Proof. destruct e as [s | l]; [now left | rewrite subterms_T; now left]. Qed.

Lemma sub_child l a c : In a l -> In c (subterms a) -> In c (subterms (T l)).
Proof. intros Ha Hc. rewrite subterms_T. right. apply in_flat_map. now exists a. Qed.

Lemma sub_inv l c : In c (subterms (T l)) -> c = T l \/ exists a, In a l /\ In c (subterms a).
Proof.
  rewrite subterms_T. intros [H | H]; [left; now symmetry | right]. now apply in_flat_map in H.
Qed.

(* induction with the hypothesis for all strict subterms *)
Lemma sexp_sub_ind (P : sexp -> Prop) :
  (forall s, P (L s)) ->
  (forall l, (forall a c, In a l -> In c (subterms a) -> P c) -> P (T l)) ->
  forall e, P e.
Proof.
  intros HL HT e.
  assert (HQ : forall c, In c (subterms e) -> P c); [| apply HQ, sub_refl].
  induction e as [s | l IH] using sexp_ind'; intros c Hc.
  - destruct Hc as [<- | []]. apply HL.
  - rewrite Forall_forall in IH.
    assert (Hsub : forall a c', In a l -> In c' (subterms a) -> P c') by (intros a c' Ha Hc'; now apply (IH a)).
    apply sub_inv in Hc as [-> | (a & Ha & Hc)]; [now apply HT | now apply (Hsub a)].
Qed.

Lemma sub_trans : forall c a b, In a (subterms b) -> In b (subterms c) -> In a (subterms c).
Proof.
  induction c as [s | l IH] using sexp_ind'; intros a b Hab Hbc.
  - destruct Hbc as [<- | []]. exact Hab.
  - rewrite Forall_forall in IH. apply sub_inv in Hbc as [-> | (x & Hx & Hb)]; [exact Hab|].
    apply (sub_child l x); [assumption|]. now apply (IH x Hx a b).
Qed.

Lemma bound_syms_sub e c s : In c (subterms e) -> In s (bound_syms c) -> In s (bound_syms e).
Proof.
  unfold bound_syms. intros Hc Hs. apply in_flat_map in Hs as (n & Hn & Hs).
  apply in_flat_map. exists n. split; [now apply (sub_trans e n c) | assumption].
Qed.

Lemma bound_syms_self e s : In s (binder_vars e) -> In s (bound_syms e).
Proof. intros H. unfold bound_syms. apply in_flat_map. exists e. split; [apply sub_refl | assumption]. Qed.

Lemma binder_vars_let h bs body rest y r :
  isop h "let" = true -> In (T (L y :: r)) bs -> In (L y) (binder_vars (T (L h :: T bs :: body :: rest))).
Proof.
  intros Hh Hin. apply isop_eq in Hh. subst h. unfold binder_vars.
  change (iss (lit "let") "let") with true. cbn [orb].
  apply in_flat_map. exists (T (L y :: r)). split; [assumption | now left].
Qed.

(* ================= substitution ================= *)
Lemma subst_L x v s : subst_all (L x) v (L s) = if str_eqb s x then v else L s.
Proof. reflexivity. Qed.

Lemma subst_T x v l : subst_all (L x) v (T l) = T (map (subst_all (L x) v) l).
Proof.
  reflexivity.
Qed.

Lemma subst_noocc x v : forall e, occurs x e = false -> subst_all (L x) v e = e.
Proof.
  unfold occurs. induction e as [s | l IH] using sexp_ind'; intros H; apply mem_sexp_false in H.
  - rewrite subst_L. destruct (str_eqb s x) eqn:E; [|reflexivity].
    apply str_eqb_eq in E. subst s. exfalso. apply H. now left.
  - rewrite subst_T. f_equal. rewrite Forall_forall in IH.
    rewrite <- (map_id l) at 2. apply map_ext_in. intros a Ha. apply (IH a Ha).
    apply mem_sexp_false. intros Hc. apply H. now apply (sub_child l a).
Qed.

Lemma subst_noocc_list x v l :
  forallb (fun a => negb (occurs x a)) l = true -> map (subst_all (L x) v) l = l.
Proof.
  intros H. rewrite forallb_forall in H. rewrite <- (map_id l) at 2. apply map_ext_in.
  intros a Ha. apply subst_noocc. specialize (H a Ha). now destruct (occurs x a).
Qed.

(* ================= unfolding eval ================= *)
Lemma eval_us rho1 rho2 h args :
  isop h "_" = true -> eval rho1 (T (L h :: args)) = eval rho2 (T (L h :: args)).
Proof. intros H. cbn [eval]. rewrite H. reflexivity. Qed.

Definition eval_binding (rho : list (str * value)) (b : sexp) : option (str * value) :=
  match b with
  | T [L x; t] => match eval rho t with Some v => Some (x, v) | None => None end
  | _ => None
  end.

Lemma eval_let rho h args :
  isop h "_" = false -> isop h "let" = true ->
  eval rho (T (L h :: args)) =
  match args with
  | [T bs; body] =>
      match opt_all_v (map (eval_binding rho) bs) with
      | Some bound => eval (bound ++ rho) body
      | None => None
      end
  | _ => None
  end.
Proof. intros H1 H2. cbn [eval]. rewrite H1, H2. reflexivity. Qed.

Lemma eval_idx rho u op idx args :
  eval rho (T (T (L u :: L op :: idx) :: args)) =
  if isop u "_" then
    match opt_all_v (map idx_of idx), eval_args rho args with
    | Some ix, Some vs => apply_indexed op ix vs
    | _, _ => None
    end
  else None.
Proof. reflexivity. Qed.

Lemma eval_binding_inv rho b p :
  eval_binding rho b = Some p -> exists x t v, b = T [L x; t] /\ eval rho t = Some v /\ p = (x, v).
Proof.
  destruct b as [s | [| [x | ?] [| t [| ? ?]]]]; cbn [eval_binding]; try discriminate.
  destruct (eval rho t) as [v|] eqn:E; [|discriminate]. intros [= <-]. exists x, t, v. repeat split; assumption.
Qed.

Lemma opt_all_v_cons {A} (o : option A) l :
  opt_all_v (o :: l) = match o, opt_all_v l with Some a, Some r => Some (a :: r) | _, _ => None end.
Proof. reflexivity. Qed.

Lemma opt_all_v_cons_inv {A} (o : option A) l r :
  opt_all_v (o :: l) = Some r -> exists a r', o = Some a /\ opt_all_v l = Some r' /\ r = a :: r'.
Proof.
  rewrite opt_all_v_cons. destruct o as [a|]; [|discriminate]. destruct (opt_all_v l) as [r'|]; [|discriminate].
  intros [= <-]. now exists a, r'.
Qed.

(* the names bound by the bindings that have values *)
Lemma bound_names rho : forall bs bound y v,
  opt_all_v (map (eval_binding rho) bs) = Some bound -> In (y, v) bound ->
  exists t, In (T [L y; t]) bs.
Proof.
  induction bs as [| b bs IH]; intros bound y v H Hin.
  - cbn in H. injection H as <-. destruct Hin.
  - cbn [map] in H. apply opt_all_v_cons_inv in H as (p & r & Hp & Hr & ->).
    destruct Hin as [-> | Hin].
    + apply eval_binding_inv in Hp as (x & t & w & -> & _ & [= <- <-]). exists t. now left.
    + destruct (IH r y v Hr Hin) as (t & Ht). exists t. now right.
Qed.

(* monotone maps preserve the values of lists *)
Lemma opt_all_v_fwd {A} (f g : sexp -> option A) : forall l r,
  (forall a p, In a l -> f a = Some p -> g a = Some p) ->
  opt_all_v (map f l) = Some r -> opt_all_v (map g l) = Some r.
Proof.
  induction l as [| a l IH]; intros r Hf H; [exact H|].
  cbn [map] in *. apply opt_all_v_cons_inv in H as (p & r' & Hp & Hr & ->).
  rewrite opt_all_v_cons, (Hf a p (or_introl eq_refl) Hp), (IH r'); [reflexivity | | assumption].
  intros b q Hb. apply Hf. now right.
Qed.

Lemma eval_args_ext rho1 rho2 args :
  (forall a, In a args -> eval rho1 a = eval rho2 a) -> eval_args rho1 args = eval_args rho2 args.
Proof. intros H. unfold eval_args. f_equal. now apply map_ext_in. Qed.

(* ================= valuations ================= *)
Lemma lookup_app s : forall bound rho,
  lookup_v s (bound ++ rho) = match lookup_v s bound with Some v => Some v | None => lookup_v s rho end.
Proof.
  induction bound as [| [y v] bound IH]; intros rho; [reflexivity|].
  cbn [app lookup_v]. destruct (str_eqb y s); [reflexivity | apply IH].
Qed.

Lemma lookup_notin s : forall bound, (forall y v, In (y, v) bound -> y <> s) -> lookup_v s bound = None.
Proof.
  induction bound as [| [y v] bound IH]; intros H; [reflexivity|].
  cbn [lookup_v]. destruct (str_eqb y s) eqn:E.
  - apply str_eqb_eq in E. exfalso. apply (H y v); [now left | assumption].
  - apply IH. intros z w Hz. apply (H z w). now right.
Qed.

Lemma lookup_app_notin s bound rho :
  (forall y v, In (y, v) bound -> y <> s) -> lookup_v s (bound ++ rho) = lookup_v s rho.
Proof. intros H. now rewrite lookup_app, lookup_notin. Qed.

(* ================= coincidence ================= *)
(* eval depends only on the values of the leaves of the term *)
Lemma coincidence : forall t rho1 rho2,
  (forall s, In (L s) (subterms t) -> lookup_v s rho1 = lookup_v s rho2) ->
  eval rho1 t = eval rho2 t.
Proof.
  induction t as [s | l IH] using sexp_sub_ind; intros rho1 rho2 Hag.
  - rewrite !eval_leaf, (Hag s (sub_refl _)). reflexivity.
  - assert (Hsub : forall a c, In a l -> In c (subterms a) -> forall s, In (L s) (subterms c) -> lookup_v s rho1 = lookup_v s rho2).
    { intros a c Ha Hc s Hs. apply Hag. apply (sub_child l a (L s) Ha). now apply (sub_trans a (L s) c). }
    assert (Hargs : forall args, incl args l -> eval_args rho1 args = eval_args rho2 args).
    { intros args Hi. apply eval_args_ext. intros a Ha. apply (IH a a (Hi a Ha) (sub_refl a)).
      apply (Hsub a a (Hi a Ha) (sub_refl a)). }
    destruct l as [| [h | hl] args]; [reflexivity | |].
    + destruct (isop h "_") eqn:E1; [now apply eval_us|].
      destruct (isop h "let") eqn:E2.
      * rewrite !eval_let by assumption.
        destruct args as [| [s | bs] [| body [| ? ?]]]; try reflexivity.
        assert (Hbs : map (eval_binding rho1) bs = map (eval_binding rho2) bs).
        { apply map_ext_in. intros b Hb.
          destruct b as [s | [| [x | ?] [| t [| ? ?]]]]; try reflexivity. cbn [eval_binding].
          assert (Hin : In t (subterms (T bs))).
          { apply (sub_child bs (T [L x; t]) t Hb). apply (sub_child [L x; t] t); [right; now left | apply sub_refl]. }
          rewrite (IH (T bs) t (or_intror (or_introl eq_refl)) Hin rho1 rho2); [reflexivity|].
          apply (Hsub (T bs) t); [right; now left | assumption]. }
        rewrite Hbs. destruct (opt_all_v (map (eval_binding rho2) bs)) as [bound|]; [|reflexivity].
        apply (IH body body); [right; right; now left | apply sub_refl |].
        intros s Hs. rewrite !lookup_app.
        rewrite (Hsub body body (or_intror (or_intror (or_introl eq_refl))) (sub_refl _) s Hs). reflexivity.
      * rewrite !eval_op by assumption. rewrite (Hargs args); [reflexivity|]. intros a Ha. now right.
    + destruct hl as [| [u | ?] [| [op | ?] idx]]; try reflexivity.
      rewrite !eval_idx. rewrite (Hargs args); [reflexivity|]. intros a Ha. now right.
Qed.

(* ================= the substitution lemma ================= *)
Lemma tpo_app x h args :
  term_pos_only x (T (L h :: args)) =
  negb (str_eqb h x) &&
  (if isop h "_" then forallb (fun a => negb (occurs x a)) args
   else if isop h "let" then
     match args with
     | [T bs; body] =>
         forallb (fun b => match b with T [L _; t] => term_pos_only x t | _ => true end) bs
         && term_pos_only x body
     | _ => true
     end
   else forallb (term_pos_only x) args).
Proof. reflexivity. Qed.

Lemma tpo_idx x hd args :
  term_pos_only x (T (T hd :: args)) = negb (occurs x (T hd)) && forallb (term_pos_only x) args.
Proof. reflexivity. Qed.

Lemma eval_args_fwd rho (f : sexp -> sexp) args vs :
  (forall a p, In a args -> eval rho a = Some p -> eval rho (f a) = Some p) ->
  eval_args rho args = Some vs -> eval_args rho (map f args) = Some vs.
Proof.
  intros Hf H. unfold eval_args in *. rewrite map_map.
  now apply (opt_all_v_fwd (eval rho) (fun a => eval rho (f a)) args vs).
Qed.

Section Subst.
  Variables (x : str) (t : sexp) (vt : value).

  (* the names that no binder on the way may bind: x and the leaves of t *)
  Definition protected (s : str) : Prop := s = x \/ In (L s) (subterms t).

  Lemma env_ext bound rho :
    (forall y v, In (y, v) bound -> ~ protected y) ->
    lookup_v x rho = Some vt -> eval rho t = Some vt ->
    lookup_v x (bound ++ rho) = Some vt /\ eval (bound ++ rho) t = Some vt.
  Proof.
    intros Hb Hx Ht. split.
    - rewrite lookup_app_notin; [assumption|]. intros y v Hy E. apply (Hb y v Hy). now left.
    - rewrite <- Ht. apply coincidence. intros s Hs. apply lookup_app_notin.
      intros y v Hy E. apply (Hb y v Hy). right. now subst.
  Qed.

  (* In a valuation where x has the value of t, replacing x by t in b keeps
     the value of b, if no binder of b binds x or a leaf of t and x occurs in
     b in term positions only. *)
  Lemma subst_eval : forall b rho v,
    lookup_v x rho = Some vt -> eval rho t = Some vt ->
    (forall s, protected s -> ~ In (L s) (bound_syms b)) ->
    term_pos_only x b = true ->
    eval rho b = Some v -> eval rho (subst_all (L x) t b) = Some v.
  Proof.
    induction b as [s | l IH] using sexp_sub_ind; intros rho v Hx Ht Hnb Htp Hev.
    - rewrite subst_L. destruct (str_eqb s x) eqn:E; [|exact Hev].
      apply str_eqb_eq in E. subst s. rewrite eval_leaf, Hx in Hev. now rewrite Ht.
    - rewrite subst_T.
      assert (Hch : forall a c, In a l -> In c (subterms a) -> term_pos_only x c = true ->
                    forall rho' v', lookup_v x rho' = Some vt -> eval rho' t = Some vt ->
                    eval rho' c = Some v' -> eval rho' (subst_all (L x) t c) = Some v').
      { intros a c Ha Hc Htc rho' v' Hx' Ht' Hev'. apply (IH a c Ha Hc rho' v' Hx' Ht'); [|assumption|assumption].
        intros s Hs Hin. apply (Hnb s Hs). apply (bound_syms_sub (T l) c); [now apply (sub_child l a)|assumption]. }
      destruct l as [| [h | hl] args]; [discriminate Hev | |].
      + cbn [map]. rewrite tpo_app in Htp. apply andb_true_iff in Htp as [Hhx Htp]. apply negb_true_iff in Hhx.
        rewrite subst_L, Hhx.
        destruct (isop h "_") eqn:E1.
        { rewrite (subst_noocc_list _ _ _ Htp). exact Hev. }
        destruct (isop h "let") eqn:E2.
        * rewrite eval_let in Hev |- * by assumption.
          destruct args as [| [s | bs] [| body [| ? ?]]]; try discriminate Hev.
          cbn [map]. rewrite subst_T.
          apply andb_true_iff in Htp as [Htbs Htbody]. rewrite forallb_forall in Htbs.
          destruct (opt_all_v (map (eval_binding rho) bs)) as [bound|] eqn:Eb; [|discriminate Hev].
          assert (Hbs : In (T bs) (L h :: T bs :: [body])) by (right; now left).
          assert (Hnames : forall y r, In (T (L y :: r)) bs -> ~ protected y).
          { intros y r Hy Hp. apply (Hnb y Hp). apply bound_syms_self. now apply binder_vars_let with (r := r). }
          rewrite map_map.
          rewrite (opt_all_v_fwd (eval_binding rho) (fun b => eval_binding rho (subst_all (L x) t b)) bs bound);
            [| |exact Eb].
          -- destruct (env_ext bound rho) as [Hx' Ht']; try assumption.
             { intros y w Hy. destruct (bound_names rho bs bound y w Eb Hy) as (ty & Hty). now apply (Hnames y [ty]). }
             apply (Hch body body); try assumption; [right; right; now left | apply sub_refl].
          -- intros b p Hb Hp. apply eval_binding_inv in Hp as (y & ty & w & -> & Hty & ->).
             rewrite subst_T. cbn [map]. rewrite subst_L.
             destruct (str_eqb y x) eqn:Eyx.
             { apply str_eqb_eq in Eyx. exfalso. apply (Hnames y [ty] Hb). now left. }
             cbn [eval_binding].
             rewrite (Hch (T bs) ty Hbs) with (v' := w); try assumption; [reflexivity | | ].
             ++ apply (sub_child bs (T [L y; ty]) ty Hb). apply (sub_child [L y; ty] ty); [right; now left | apply sub_refl].
             ++ apply (Htbs _ Hb).
        * rewrite eval_op in Hev |- * by assumption.
          destruct (eval_args rho args) as [vs|] eqn:Ea; [|discriminate Hev].
          rewrite (eval_args_fwd rho (subst_all (L x) t) args vs); [exact Hev | | exact Ea].
          intros a p Ha Hp. rewrite forallb_forall in Htp.
          apply (Hch a a); try assumption; [now right | apply sub_refl | now apply Htp].
      + cbn [map]. rewrite tpo_idx in Htp. apply andb_true_iff in Htp as [Hocc Htp]. apply negb_true_iff in Hocc.
        rewrite (subst_noocc _ _ _ Hocc).
        destruct hl as [| [u | ?] [| [op | ?] idx]]; try (cbn [eval] in Hev; discriminate Hev).
        rewrite eval_idx in Hev |- *.
        destruct (isop u "_"); [|discriminate Hev].
        destruct (opt_all_v (map idx_of idx)) as [ix|]; [|discriminate Hev].
        destruct (eval_args rho args) as [vs|] eqn:Ea; [|discriminate Hev].
        rewrite (eval_args_fwd rho (subst_all (L x) t) args vs); [exact Hev | | exact Ea].
        intros a p Ha Hp. rewrite forallb_forall in Htp.
        apply (Hch a a); try assumption; [now right | apply sub_refl | now apply Htp].
  Qed.
End Subst.

(* ================= the let at the root ================= *)
Definition binding_name (v : sexp) : list sexp := match v with T (v0 :: _) => [v0] | _ => [] end.

Lemma binder_vars_let_eq bs body rest :
  binder_vars (T (L (lit "let") :: T bs :: body :: rest)) = flat_map binding_name bs.
Proof. reflexivity. Qed.

Lemma opt_all_v_In {A} (f : sexp -> option A) : forall l r a,
  opt_all_v (map f l) = Some r -> In a l -> exists p, f a = Some p.
Proof.
  induction l as [| b l IH]; intros r a H Hin; [destruct Hin|].
  cbn [map] in H. apply opt_all_v_cons_inv in H as (p & r' & Hp & Hr & ->).
  destruct Hin as [<- | Hin]; [now exists p | now apply (IH r')].
Qed.

Lemma collect_opt_In : forall ls l e',
  collect_opt ls = Some l -> In e' l -> exists o, In (Some o) ls /\ In e' o.
Proof.
  induction ls as [| [o|] ls IH]; intros l e' H Hin; cbn [collect_opt] in H.
  - injection H as <-. destruct Hin.
  - destruct (collect_opt ls) as [y|] eqn:E; [|discriminate]. injection H as <-.
    apply in_app_or in Hin as [Hin | Hin].
    + exists o. split; [now left | assumption].
    + destruct (IH y e' eq_refl Hin) as (o' & Ho' & Hin'). exists o'. split; [now right | assumption].
  - discriminate.
Qed.

(* the value found for x is the value of the first binding named x *)
Lemma lookup_first rho x t : forall bs bound,
  opt_all_v (map (eval_binding rho) bs) = Some bound ->
  first_named x (T [L x; t]) bs = true ->
  exists vt, eval rho t = Some vt /\ lookup_v x bound = Some vt.
Proof.
  induction bs as [| b bs IH]; intros bound H Hf; [discriminate Hf|].
  cbn [map] in H. apply opt_all_v_cons_inv in H as (p & r & Hp & Hr & ->).
  apply eval_binding_inv in Hp as (y & ty & w & -> & Hty & ->).
  cbn [first_named] in Hf. cbn [lookup_v]. destruct (str_eqb y x) eqn:E.
  - apply sexp_eqb_eq in Hf. injection Hf as _ <-. now exists w.
  - now apply IH.
Qed.

Lemma distinct_first x t : forall bs,
  (forall b, In b bs -> exists y ty, b = T [L y; ty]) ->
  distinctb (flat_map binding_name bs) = true ->
  In (T [L x; t]) bs -> first_named x (T [L x; t]) bs = true.
Proof.
  induction bs as [| b bs IH]; intros Hsh Hd Hin; [destruct Hin|].
  destruct (Hsh b (or_introl eq_refl)) as (y & ty & ->).
  cbn [flat_map binding_name app distinctb] in Hd. apply andb_true_iff in Hd as [Hm Hd].
  apply negb_true_iff, mem_sexp_false in Hm.
  cbn [first_named]. destruct (str_eqb y x) eqn:E.
  - destruct Hin as [Hin | Hin]; [rewrite Hin; apply sexp_eqb_refl|].
    apply str_eqb_eq in E. subst y. exfalso. apply Hm.
    apply in_flat_map. exists (T [L x; t]). split; [assumption | now left].
  - destruct Hin as [Hin | Hin].
    + injection Hin as -> _. now rewrite str_eqb_refl in E.
    + apply IH; [|assumption|assumption]. intros b Hb. apply Hsh. now right.
Qed.

(* one proposal: the binding (x t) is substituted *)
Lemma let_subst_var_sound h bs body x t l e' rho v :
  isop h "let" = true ->
  let_subst_var (L h) (T bs) body (bound_syms (T [L h; T bs; body])) (T [L x; t]) = Some l -> In e' l ->
  first_named x (T [L x; t]) bs = true -> term_pos_only x body = true ->
  eval rho (T [L h; T bs; body]) = Some v -> eval rho e' = Some v.
Proof.
  intros Hh Hv Hin Hf Htp Hev. pose proof (isop_eq _ _ Hh) as ->.
  rewrite eval_let in Hev by reflexivity.
  destruct (opt_all_v (map (eval_binding rho) bs)) as [bound|] eqn:Eb; [|discriminate Hev].
  destruct (lookup_first rho x t bs bound Eb Hf) as (vt & Hvt & Hlk).
  set (e := T [L (lit "let"); T bs; body]) in *.
  unfold let_subst_var in Hv.
  destruct (mem_sexp (L x) (subterms t)); [injection Hv as <-; destruct Hin|].
  destruct (mem_sexp (L x) (bound_syms body)) eqn:G2; [injection Hv as <-; destruct Hin|].
  destruct (existsb (fun n => is_leaf n && mem_sexp n (bound_syms e)) (subterms t)) eqn:G3; [injection Hv as <-; destruct Hin|].
  destruct (mem_sexp (L x) (subterms body)); injection Hv as <-; [|destruct Hin].
  destruct Hin as [<- | []].
  assert (HG3 : forall s, In (L s) (subterms t) -> ~ In (L s) (bound_syms e)).
  { intros s Hs Hb. enough (Htrue : existsb (fun n => is_leaf n && mem_sexp n (bound_syms e)) (subterms t) = true) by congruence.
    apply existsb_exists. exists (L s). split; [assumption|]. cbn [is_leaf andb]. now apply mem_sexp_true. }
  rewrite eval_let by reflexivity. rewrite Eb.
  apply (subst_eval x t vt); try assumption.
  - rewrite lookup_app, Hlk. reflexivity.
  - rewrite <- Hvt. apply coincidence. intros s Hs. apply lookup_app_notin.
    intros y w Hy E. subst y. destruct (bound_names rho bs bound s w Eb Hy) as (ty & Hty).
    apply (HG3 s Hs). apply bound_syms_self. now apply binder_vars_let with (r := [ty]).
  - intros s [-> | Hs].
    + now apply mem_sexp_false.
    + intros Hb. apply (HG3 s Hs). apply (bound_syms_sub e body); [|assumption].
      apply (sub_child _ body); [right; right; now left | apply sub_refl].
Qed.

Theorem let_subst_identity_at : forall h bs body x t l e' rho v,
  is_op (T [h; T bs; body]) "let" = true ->
  let_subst_var h (T bs) body (bound_syms (T [h; T bs; body])) (T [L x; t]) = Some l -> In e' l ->
  first_named x (T [L x; t]) bs = true -> term_pos_only x body = true ->
  eval rho (T [h; T bs; body]) = Some v -> eval rho e' = Some v.
Proof.
  intros h bs body x t l e' rho v Hop. destruct h as [h | ?]; [|discriminate Hop].
  now apply let_subst_var_sound.
Qed.

Theorem let_subst_identity : forall e l e' rho v,
  rw_let_subst e = Some l -> In e' l -> let_side e = true ->
  eval rho e = Some v -> eval rho e' = Some v.
Proof.
  intros e l e' rho v HR Hin Hs Hev. unfold rw_let_subst in HR.
  destruct (is_op e "let") eqn:Eop; [| injection HR as <-; destruct Hin].
  apply is_op_inv in Eop as (r & ->).
  rewrite eval_let in Hev by reflexivity.
  destruct r as [| [s | bs] [| body [| ? ?]]]; try discriminate Hev.
  destruct (opt_all_v (map (eval_binding rho) bs)) as [bound|] eqn:Eb; [|discriminate Hev].
  destruct (collect_opt_In _ _ _ HR Hin) as (o & Ho & Hino).
  apply in_map_iff in Ho as (var & Hvar & Hvin).
  destruct (opt_all_v_In _ _ _ _ Eb Hvin) as (p & Hp).
  apply eval_binding_inv in Hp as (x & t & w & -> & _ & _).
  unfold let_side in Hs. rewrite binder_vars_let_eq in Hs. apply andb_true_iff in Hs as [Hd Htp].
  rewrite forallb_forall in Htp. specialize (Htp _ Hvin). cbn beta iota in Htp.
  apply (let_subst_var_sound (lit "let") bs body x t o e' rho v); try assumption; try reflexivity.
  - apply distinct_first; try assumption. intros b Hb.
    destruct (opt_all_v_In _ _ _ _ Eb Hb) as (q & Hq).
    apply eval_binding_inv in Hq as (y & ty & _ & -> & _). now exists y, ty.
  - rewrite eval_let by reflexivity. now rewrite Eb.
Qed.

(* the guard against cycles (x occurs in t) is subsumed by the guard against
   capture (no leaf of t is bound by the let or within it) when the bound name
   is a leaf: x is bound by the let itself *)
Lemma cycle_guard_subsumed h vars body rest x t r :
  isop h "let" = true -> In (T (L x :: t :: r)) vars ->
  mem_sexp (L x) (subterms t) = true ->
  existsb (fun n => is_leaf n && mem_sexp n (bound_syms (T (L h :: T vars :: body :: rest)))) (subterms t) = true.
Proof.
  intros Hh Hin Hm. apply mem_sexp_true in Hm. apply existsb_exists. exists (L x). split; [assumption|].
  cbn [is_leaf andb]. apply mem_sexp_true, bound_syms_self. now apply binder_vars_let with (r := t :: r).
Qed.
