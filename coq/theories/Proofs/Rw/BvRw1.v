(* Value preservation of the bit-vector rewrites that need no constants:
   bvnand x x = bvnot x, double bvnot / bvneg, ite/bvcomp conversions. *)
From Coq Require Import ZifyBool.
From DD Require Import Spec.Semantics Model.Rewrites Proofs.Rw.DigitsRT Proofs.Rw.EvalBase Proofs.Rw.Range Proofs.Rw.BoolRw.
Local Open Scope list_scope.

(* ---------- (bvnand a a) = (bvnot a) ---------- *)
Theorem bv_reflexive_nand_identity : forall rho e e' l v,
  rw_bv_reflexive_nand e = Some l -> In e' l -> eval rho e = Some v -> eval rho e' = Some v.
Proof.
  intros rho e e' l v Hrw Hin Hev. unfold rw_bv_reflexive_nand in Hrw.
  destruct e as [s | [| [h | ?] [| a [| b [| ? ?]]]]]; try (no_prop Hrw Hin).
  destruct (iss h "bvnand") eqn:Eh; cbn [andb] in Hrw; [|no_prop Hrw Hin].
  destruct (sexp_eqb a b) eqn:Eab; [|no_prop Hrw Hin].
  apply iss_eq in Eh. subst h. apply sexp_eqb_eq in Eab. subst b.
  injection Hrw as <-. destruct Hin as [<- | []].
  apply eval_bin_inv in Hev as (v1 & v2 & H1 & H2 & Hv); try reflexivity.
  rewrite H1 in H2. injection H2 as <-.
  rewrite ap_bvnand in Hv. destruct v1 as [? | ? | w x]; try discriminate.
  cbn in Hv. rewrite N.eqb_refl in Hv. injection Hv as <-. rewrite N.land_diag.
  unfold lf. rewrite (eval_op_intro rho (lit "bvnot") [a] [VV w x] eq_refl eq_refl (eval_args_intro1 _ _ _ H1)).
  reflexivity.
Qed.

(* ---------- double bvnot / bvneg ---------- *)
Lemma bvnot_invol w n : (n < 2 ^ w -> 2 ^ w - 1 - (2 ^ w - 1 - n) = n)%N.
Proof. generalize (2 ^ w)%N. intros p H. lia. Qed.

Lemma bvneg_invol w n : (n < 2 ^ w)%N -> bvmod w (- Z.of_N (bvmod w (- Z.of_N n))) = n.
Proof.
  intros H. unfold bvmod. pose proof (pow2_pos w) as Hp.
  assert (Hz : (0 <= Z.of_N n < Z.of_N (2 ^ w))%Z) by lia.
  revert Hz. generalize (Z.of_N (2 ^ w)) as p. intros p Hz.
  rewrite Z2N.id by (apply Z.mod_pos_bound; lia).
  rewrite <- (N2Z.id n) at 2. f_equal.
  destruct (Z.eq_dec (Z.of_N n) 0) as [E | E].
  - rewrite E. change (- 0)%Z with 0%Z. rewrite (Z.mod_0_l p) by lia. change (- 0)%Z with 0%Z. apply Z.mod_0_l. lia.
  - assert (E1 : ((- Z.of_N n) mod p = p - Z.of_N n)%Z).
    { symmetry. apply (Z.mod_unique _ _ (-1)%Z); lia. }
    rewrite E1. symmetry. apply (Z.mod_unique _ _ (-1)%Z); lia.
Qed.

Theorem bv_double_neg_identity : forall rho e e' l v,
  rho_ok rho ->
  rw_bv_double_neg e = Some l -> In e' l -> eval rho e = Some v -> eval rho e' = Some v.
Proof.
  intros rho e e' l v Hrho Hrw Hin Hev. unfold rw_bv_double_neg in Hrw.
  destruct e as [s | [| [h | ?] rest]]; try (no_prop Hrw Hin).
  destruct (iss h "bvnot") eqn:Eh; cbn [andb] in Hrw.
  - apply iss_eq in Eh. subst h. change (iss (lit "bvnot") "bvneg") with false in Hrw. cbv iota in Hrw.
    destruct rest as [|a rest]; [no_prop Hrw Hin|].
    destruct (is_op a "bvnot") eqn:Ea; [|no_prop Hrw Hin].
    apply is_op_inv in Ea as (r & ->). cbn [args_of] in Hrw.
    destruct r as [|x r]; [discriminate|]. injection Hrw as <-. destruct Hin as [<- | []].
    apply eval_bvnot_inv in Hev as (y & w & n & E & Hy & ->). injection E as E1 E2. subst y rest.
    apply eval_bvnot_inv in Hy as (z & w' & m & E & Hz & Hv). injection E as E1 E2. subst z r.
    injection Hv as -> ->. rewrite bvnot_invol; [exact Hz|].
    exact (eval_range_bv _ _ _ _ Hrho Hz).
  - destruct (iss h "bvneg") eqn:Eg; [|no_prop Hrw Hin].
    apply iss_eq in Eg. subst h.
    destruct rest as [|a rest]; [discriminate|].
    destruct (is_op a "bvneg") eqn:Ea; [|no_prop Hrw Hin].
    apply is_op_inv in Ea as (r & ->). cbn [args_of] in Hrw.
    destruct r as [|x r]; [discriminate|]. injection Hrw as <-. destruct Hin as [<- | []].
    apply eval_bvneg_inv in Hev as (y & w & n & E & Hy & ->). injection E as E1 E2. subst y rest.
    apply eval_bvneg_inv in Hy as (z & w' & m & E & Hz & Hv). injection E as E1 E2. subst z r.
    injection Hv as -> ->. rewrite bvneg_invol; [exact Hz|].
    exact (eval_range_bv _ _ _ _ Hrho Hz).
Qed.
