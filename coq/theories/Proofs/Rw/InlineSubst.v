(* C17 for InlineDefinedFuns at a use site (Model/InlineRw.v): the beta rule.
   Replacing the call (f a1 .. an) by the body of f in which the formals are
   replaced SIMULTANEOUSLY by the actuals preserves the value of the call
   (call by value, Proofs/Rw/InlineSide.v), under the side condition
   inline_side -- of which the mutator checks (after the fix of finding F19)
   only the part inline_guard, see Proofs/Rw/InlineGuard.v.

   The substitution lemma relates TWO valuations: rho_in, in which the body is
   evaluated (the parameters are bound to the values of the actuals), and
   rho_out, in which the substituted body is evaluated (the valuation of the
   use site).  They agree on every leaf of the term that is not a key; a key
   has in rho_in the value that its replacement has in rho_out. *)
From DD Require Import Spec.Semantics Model.Rewrites Model.LetRw Model.InlineRw.
From DD Require Import Proofs.Rw.EvalBase Proofs.Rw.LetSide Proofs.Rw.LetSubst Proofs.Rw.InlineSide.
Local Open Scope list_scope.

(* ================= assoc_last, subst_map ================= *)
Lemma assoc_last_some : forall m e a, assoc_last m e = Some a -> In (e, a) m.
Proof.
  induction m as [| [k w] m IH]; intros e a H; cbn [assoc_last] in H; [discriminate|].
  destruct (assoc_last m e) as [x|] eqn:E.
  - injection H as <-. right. now apply IH.
  - destruct (sexp_eqb k e) eqn:Ek; [|discriminate]. injection H as <-.
    apply sexp_eqb_eq in Ek. subst k. now left.
Qed.

Lemma assoc_last_none : forall m e, assoc_last m e = None -> ~ In e (map fst m).
Proof.
  induction m as [| [k w] m IH]; intros e H Hin; [destruct Hin|].
  cbn [assoc_last] in H. destruct (assoc_last m e) eqn:E; [discriminate|].
  destruct (sexp_eqb k e) eqn:Ek; [discriminate|].
  destruct Hin as [Hin | Hin].
  - cbn [fst] in Hin. subst k. rewrite sexp_eqb_refl in Ek. discriminate.
  - now apply (IH e).
Qed.

Lemma subst_map_unfold m e :
  subst_map m e =
  match assoc_last m e with
  | Some v => v
  | None => match e with L _ => e | T l => T (map (subst_map m) l) end
  end.
Proof. destruct e; reflexivity. Qed.

Lemma subst_map_nil : forall e, subst_map [] e = e.
Proof.
  induction e as [s | l IH] using sexp_ind'; rewrite subst_map_unfold; cbn [assoc_last]; [reflexivity|].
  f_equal. rewrite Forall_forall in IH. rewrite <- (map_id l) at 2. now apply map_ext_in.
Qed.

Lemma eval_args_fwd2 rho1 rho2 (f : sexp -> sexp) args vs :
  (forall a p, In a args -> eval rho1 a = Some p -> eval rho2 (f a) = Some p) ->
  eval_args rho1 args = Some vs -> eval_args rho2 (map f args) = Some vs.
Proof.
  intros Hf H. unfold eval_args in *. rewrite map_map.
  now apply (opt_all_v_fwd (eval rho1) (fun a => eval rho2 (f a)) args vs).
Qed.

(* ================= the substitution lemma ================= *)
Section SubstMap.
  Variable m : list (sexp * sexp).
  (* the keys are leaves *)
  Hypothesis Hkeys : forall k a, In (k, a) m -> exists p, k = L p.

  Definition key (p : str) : Prop := In (L p) (map fst m).

  Lemma assoc_T l : assoc_last m (T l) = None.
  Proof.
    destruct (assoc_last m (T l)) as [a|] eqn:E; [|reflexivity].
    apply assoc_last_some in E. destruct (Hkeys _ _ E) as (p & Hp). discriminate Hp.
  Qed.

  Lemma assoc_key p a : assoc_last m (L p) = Some a -> key p.
  Proof.
    intros H. apply assoc_last_some in H. unfold key. apply in_map_iff. exists (L p, a). now split.
  Qed.

  Lemma subst_map_T l : subst_map m (T l) = T (map (subst_map m) l).
  Proof. rewrite subst_map_unfold, assoc_T. reflexivity. Qed.

  Lemma subst_map_L s : subst_map m (L s) = match assoc_last m (L s) with Some a => a | None => L s end.
  Proof. apply subst_map_unfold. Qed.

  Lemma subst_map_noocc : forall e, (forall p, key p -> occurs p e = false) -> subst_map m e = e.
  Proof.
    induction e as [s | l IH] using sexp_ind'; intros H.
    - rewrite subst_map_L. destruct (assoc_last m (L s)) as [a|] eqn:E; [|reflexivity].
      apply assoc_key in E. specialize (H s E). unfold occurs in H. apply mem_sexp_false in H.
      exfalso. apply H. now left.
    - rewrite subst_map_T. f_equal. rewrite Forall_forall in IH.
      rewrite <- (map_id l) at 2. apply map_ext_in. intros a Ha. apply (IH a Ha).
      intros p Hp. specialize (H p Hp). unfold occurs in *. apply mem_sexp_false in H.
      apply mem_sexp_false. intros Hc. apply H. now apply (sub_child l a).
  Qed.

  Lemma subst_map_noocc_list l :
    (forall p, key p -> forallb (fun a => negb (occurs p a)) l = true) -> map (subst_map m) l = l.
  Proof.
    intros H. rewrite <- (map_id l) at 2. apply map_ext_in. intros a Ha. apply subst_map_noocc.
    intros p Hp. specialize (H p Hp). rewrite forallb_forall in H. specialize (H a Ha).
    now destruct (occurs p a).
  Qed.

  (* the two valuations, on the leaves of c *)
  Definition rel (c : sexp) (rho_in rho_out : list (str * value)) : Prop :=
    forall s, In (L s) (subterms c) ->
      match assoc_last m (L s) with
      | Some a => exists va, lookup_v s rho_in = Some va /\ eval rho_out a = Some va
      | None => lookup_v s rho_in = lookup_v s rho_out
      end.

  (* no key that occurs in b and no leaf of its replacement is bound inside b *)
  Definition safe (b : sexp) : Prop :=
    forall s a, In (L s) (subterms b) -> assoc_last m (L s) = Some a ->
      ~ In (L s) (bound_syms b) /\ forall y, In (L y) (subterms a) -> ~ In (L y) (bound_syms b).

  Lemma rel_sub c c' ri ro : In c' (subterms c) -> rel c ri ro -> rel c' ri ro.
  Proof. intros Hc H s Hs. apply H. now apply (sub_trans c (L s) c'). Qed.

  Lemma safe_sub b c : In c (subterms b) -> safe b -> safe c.
  Proof.
    intros Hc H s a Hs Ha. destruct (H s a (sub_trans b (L s) c Hs Hc) Ha) as [H1 H2]. split.
    - intros Hb. apply H1. now apply (bound_syms_sub b c).
    - intros y Hy Hb. apply (H2 y Hy). now apply (bound_syms_sub b c).
  Qed.

  Lemma subst_map_eval : forall b ri ro v,
    rel b ri ro -> (forall p, key p -> term_pos_only p b = true) -> safe b ->
    eval ri b = Some v -> eval ro (subst_map m b) = Some v.
  Proof.
    induction b as [s | l IH] using sexp_sub_ind; intros ri ro v Hrel Htp Hsafe Hev.
    - rewrite subst_map_L. specialize (Hrel s (sub_refl _)). rewrite eval_leaf in Hev.
      destruct (assoc_last m (L s)) as [a|].
      + destruct Hrel as (va & Hlk & Ha). rewrite Hlk in Hev. now rewrite Ha.
      + rewrite eval_leaf, <- Hrel. exact Hev.
    - rewrite subst_map_T.
      assert (Hch : forall a c, In a l -> In c (subterms a) -> (forall p, key p -> term_pos_only p c = true) ->
                    forall ri' ro' v', rel c ri' ro' -> eval ri' c = Some v' -> eval ro' (subst_map m c) = Some v').
      { intros a c Ha Hc Htc ri' ro' v' Hrel' Hev'. apply (IH a c Ha Hc ri' ro' v'); try assumption.
        apply (safe_sub (T l) c); [now apply (sub_child l a) | assumption]. }
      destruct l as [| [h | hl] args]; [discriminate Hev | |].
      + cbn [map].
        assert (Hh : assoc_last m (L h) = None).
        { destruct (assoc_last m (L h)) as [a|] eqn:E; [|reflexivity]. apply assoc_key in E. specialize (Htp h E).
          rewrite tpo_app, str_eqb_refl in Htp. discriminate Htp. }
        rewrite subst_map_L, Hh.
        destruct (isop h "_") eqn:E1.
        { rewrite subst_map_noocc_list.
          - rewrite <- Hev. now apply eval_us.
          - intros p Hp. specialize (Htp p Hp). rewrite tpo_app, E1 in Htp.
            apply andb_true_iff in Htp as [_ Htp]. exact Htp. }
        destruct (isop h "let") eqn:E2.
        * rewrite eval_let in Hev |- * by assumption.
          destruct args as [| [s | bs] [| body [| ? ?]]]; try discriminate Hev.
          cbn [map]. rewrite subst_map_T.
          destruct (opt_all_v (map (eval_binding ri) bs)) as [bound|] eqn:Eb; [|discriminate Hev].
          assert (Htp' : forall p, key p ->
                    forallb (fun b => match b with T [L _; t] => term_pos_only p t | _ => true end) bs = true
                    /\ term_pos_only p body = true).
          { intros p Hp. specialize (Htp p Hp). rewrite tpo_app, E1, E2 in Htp.
            apply andb_true_iff in Htp as [_ Htp]. now apply andb_true_iff in Htp. }
          assert (Hbs : In (T bs) (L h :: T bs :: [body])) by (right; now left).
          assert (Hnames : forall y r, In (T (L y :: r)) bs -> In (L y) (bound_syms (T (L h :: T bs :: [body])))).
          { intros y r Hy. apply bound_syms_self. now apply binder_vars_let with (r := r). }
          rewrite map_map.
          rewrite (opt_all_v_fwd (eval_binding ri) (fun b => eval_binding ro (subst_map m b)) bs bound); [| | exact Eb].
          -- apply (Hch body body) with (ri' := bound ++ ri);
               [right; right; now left | apply sub_refl | intros p Hp; apply (Htp' p Hp) | | exact Hev].
             intros s Hs.
             assert (HsT : In (L s) (subterms (T (L h :: T bs :: [body])))).
             { apply (sub_child _ body); [right; right; now left | assumption]. }
             specialize (Hrel s HsT).
             destruct (assoc_last m (L s)) as [a|] eqn:Ea.
             ++ destruct Hrel as (va & Hlk & Hva). destruct (Hsafe s a HsT Ea) as [Hs1 Hs2].
                exists va. split.
                ** rewrite lookup_app_notin; [assumption|]. intros y w Hy ->.
                   destruct (bound_names ri bs bound s w Eb Hy) as (ty & Hty). apply Hs1. now apply (Hnames s [ty]).
                ** rewrite <- Hva. apply coincidence. intros z Hz. apply lookup_app_notin. intros y w Hy ->.
                   destruct (bound_names ri bs bound z w Eb Hy) as (ty & Hty). apply (Hs2 z Hz). now apply (Hnames z [ty]).
             ++ rewrite !lookup_app, Hrel. reflexivity.
          -- intros b p Hb Hp. apply eval_binding_inv in Hp as (y & ty & w & -> & Hty & ->).
             rewrite subst_map_T. cbn [map].
             assert (Hy : assoc_last m (L y) = None).
             { destruct (assoc_last m (L y)) as [a|] eqn:Ea; [|reflexivity]. exfalso.
               assert (HyT : In (L y) (subterms (T (L h :: T bs :: [body])))).
               { apply (sub_child _ (T bs) (L y) Hbs). apply (sub_child bs (T [L y; ty]) (L y) Hb).
                 apply (sub_child [L y; ty] (L y)); [now left | apply sub_refl]. }
               destruct (Hsafe y a HyT Ea) as [Hs1 _]. apply Hs1. now apply (Hnames y [ty]). }
             rewrite subst_map_L, Hy. cbn [eval_binding].
             assert (Hin : In ty (subterms (T bs))).
             { apply (sub_child bs (T [L y; ty]) ty Hb). apply (sub_child [L y; ty] ty); [right; now left | apply sub_refl]. }
             rewrite (Hch (T bs) ty Hbs Hin) with (ri' := ri) (v' := w); [reflexivity | | | exact Hty].
             ++ intros q Hq. destruct (Htp' q Hq) as [Hq1 _]. rewrite forallb_forall in Hq1. apply (Hq1 _ Hb).
             ++ apply (rel_sub (T (L h :: T bs :: [body])) ty); [|assumption]. apply (sub_child _ (T bs) ty Hbs Hin).
        * rewrite eval_op in Hev |- * by assumption.
          destruct (eval_args ri args) as [vs|] eqn:Ea; [|discriminate Hev].
          rewrite (eval_args_fwd2 ri ro (subst_map m) args vs); [exact Hev | | exact Ea].
          intros a p Ha Hp.
          apply (Hch a a) with (ri' := ri); [now right | apply sub_refl | | | exact Hp].
          -- intros q Hq. specialize (Htp q Hq). rewrite tpo_app, E1, E2 in Htp.
             apply andb_true_iff in Htp as [_ Htp]. rewrite forallb_forall in Htp. now apply Htp.
          -- apply (rel_sub (T (L h :: args)) a); [|assumption]. apply (sub_child _ a); [now right | apply sub_refl].
      + cbn [map].
        assert (Hhd : subst_map m (T hl) = T hl).
        { apply subst_map_noocc. intros p Hp. specialize (Htp p Hp). rewrite tpo_idx in Htp.
          apply andb_true_iff in Htp as [Hocc _]. now apply negb_true_iff in Hocc. }
        rewrite Hhd.
        destruct hl as [| [u | ?] [| [op | ?] idx]]; try (cbn [eval] in Hev; discriminate Hev).
        rewrite eval_idx in Hev |- *.
        destruct (isop u "_"); [|discriminate Hev].
        destruct (opt_all_v (map idx_of idx)) as [ix|]; [|discriminate Hev].
        destruct (eval_args ri args) as [vs|] eqn:Ea; [|discriminate Hev].
        rewrite (eval_args_fwd2 ri ro (subst_map m) args vs); [exact Hev | | exact Ea].
        intros a p Ha Hp.
        apply (Hch a a) with (ri' := ri); [now right | apply sub_refl | | | exact Hp].
        -- intros q Hq. specialize (Htp q Hq). rewrite tpo_idx in Htp.
           apply andb_true_iff in Htp as [_ Htp]. rewrite forallb_forall in Htp. now apply Htp.
        -- apply (rel_sub (T (T (L u :: L op :: idx) :: args)) a); [|assumption].
           apply (sub_child _ a); [now right | apply sub_refl].
  Qed.
End SubstMap.

(* ================= the definitions ================= *)
Lemma find_def_inv : forall defs n d, find_def defs n = Some d -> d_name d = n /\ In d defs.
Proof.
  induction defs as [| d0 defs IH]; intros n d H; cbn [find_def] in H; [discriminate|].
  destruct (str_eqb (d_name d0) n) eqn:E.
  - injection H as <-. apply str_eqb_eq in E. split; [assumption | now left].
  - destruct (IH n d H) as [H1 H2]. split; [assumption | now right].
Qed.

Lemma lookup_def_inv defs n d : lookup_def defs n = Some d -> d_name d = n /\ In d defs.
Proof.
  unfold lookup_def. intros H. apply find_def_inv in H as [H1 H2]. split; [assumption | now apply in_rev].
Qed.

(* ================= the map built from the formals ================= *)
Lemma bind_formals_ok : forall fs args,
  forallb formal_ok fs = true -> length fs = length args ->
  bind_formals fs args = Some (combine (map L (map formal_name fs)) args).
Proof.
  induction fs as [| f fs IH]; intros [| a args] Hok Hlen; try discriminate Hlen; [reflexivity|].
  cbn [forallb] in Hok. apply andb_true_iff in Hok as [Hf Hok].
  destruct f as [s | [| [p | ?] r]]; try discriminate Hf.
  cbn [bind_formals]. rewrite (IH args Hok); [reflexivity|]. cbn [length] in Hlen. congruence.
Qed.

Lemma map_fst_combine {A B} : forall (l : list A) (l' : list B), length l = length l' -> map fst (combine l l') = l.
Proof.
  induction l as [| a l IH]; intros [| b l'] H; try discriminate H; [reflexivity|].
  cbn [combine map fst]. f_equal. apply IH. cbn [length] in H. congruence.
Qed.

(* after the fix of F19: the node itself if the guard holds, the substituted body otherwise *)
Lemma instantiate_app d h args :
  forallb formal_ok (d_formals d) = true -> length (d_formals d) = length args ->
  instantiate d (T (h :: args)) =
  Some (if inline_guard d args then T (h :: args) else subst_map (combine (map L (formal_names d)) args) (d_body d)).
Proof.
  intros Hok Hlen. unfold instantiate, formal_names. cbv zeta.
  rewrite (bind_formals_ok _ _ Hok Hlen), Hlen, Nat.eqb_refl.
  assert (Hfst : map fst (combine (map L (map formal_name (d_formals d))) args) = map L (map formal_name (d_formals d))).
  { apply map_fst_combine. now rewrite !map_length. }
  unfold inline_guard, formal_names.
  destruct (combine (map L (map formal_name (d_formals d))) args) as [| p m] eqn:Ec.
  - cbn [map] in Hfst. rewrite <- Hfst.
    assert (Ha : args = []).
    { destruct args as [| a args]; [reflexivity|]. destruct (d_formals d); [discriminate Hlen | discriminate Ec]. }
    subst args. cbn [existsb flat_map orb]. now rewrite subst_map_nil.
  - rewrite Hfst. now destruct (_ || _).
Qed.

(* the guard does not hold: the substituted body, as before the fix *)
Lemma instantiate_app_unguarded d h args :
  forallb formal_ok (d_formals d) = true -> length (d_formals d) = length args ->
  inline_guard d args = false ->
  instantiate d (T (h :: args)) = Some (subst_map (combine (map L (formal_names d)) args) (d_body d)).
Proof. intros Hok Hlen Hg. rewrite (instantiate_app d h args Hok Hlen), Hg. reflexivity. Qed.

(* the guard holds: the node itself, rw_inline proposes nothing *)
Lemma instantiate_app_guarded d h args :
  forallb formal_ok (d_formals d) = true -> length (d_formals d) = length args ->
  inline_guard d args = true -> instantiate d (T (h :: args)) = Some (T (h :: args)).
Proof. intros Hok Hlen Hg. rewrite (instantiate_app d h args Hok Hlen), Hg. reflexivity. Qed.

Lemma combine_map_L : forall ps (args : list sexp) s a,
  In (L s, a) (combine (map L ps) args) -> In (s, a) (combine ps args).
Proof.
  induction ps as [| p ps IH]; intros [| a0 args] s a H; cbn [map combine] in H; try (now destruct H).
  destruct H as [H | H].
  - injection H as -> ->. now left.
  - right. now apply IH.
Qed.

(* the value of a parameter is the value of its actual argument *)
Lemma params_lookup rho : forall ps args vs p a,
  distinctb (map L ps) = true -> eval_args rho args = Some vs ->
  In (p, a) (combine ps args) ->
  exists va, lookup_v p (combine ps vs) = Some va /\ eval rho a = Some va.
Proof.
  induction ps as [| p0 ps IH]; intros [| a0 args] vs p a Hd Hev Hin; cbn [combine] in Hin; try (now destruct Hin).
  destruct Hin as [Hin | Hin];
    apply eval_args_cons_inv in Hev as (v0 & r & Hv0 & Hr & ->);
    cbn [map distinctb] in Hd; apply andb_true_iff in Hd as [Hm Hd]; apply negb_true_iff, mem_sexp_false in Hm.
  - injection Hin as -> ->. exists v0. cbn [combine lookup_v]. rewrite str_eqb_refl. now split.
  - cbn [combine lookup_v]. destruct (str_eqb p0 p) eqn:E.
    + apply str_eqb_eq in E. subst p0. exfalso. apply Hm. apply in_combine_l in Hin. now apply in_map.
    + now apply (IH args r).
Qed.

(* ================= the beta rule ================= *)
Lemma no_capture_inv body a y :
  no_capture body a = true -> In (L y) (subterms a) -> ~ In (L y) (bound_syms body).
Proof.
  unfold no_capture. intros H Hy Hb. apply negb_true_iff in H.
  enough (Ht : existsb (fun n => is_leaf n && mem_sexp n (bound_syms body)) (subterms a) = true) by congruence.
  apply existsb_exists. exists (L y). split; [assumption|]. cbn [is_leaf andb]. now apply mem_sexp_true.
Qed.

(* the substituted body has the value of the call *)
Lemma inline_beta d args rho v :
  length (d_formals d) = length args ->
  inline_side d args = true -> call_val rho d args = Some v ->
  eval rho (subst_map (combine (map L (formal_names d)) args) (d_body d)) = Some v.
Proof.
  intros Hlen Hside Hcall. unfold call_val in Hcall. fold (eval_args rho args) in Hcall.
  destruct (eval_args rho args) as [vs|] eqn:Eargs; [|discriminate Hcall].
  unfold inline_side in Hside. cbv zeta in Hside.
  apply andb_true_iff in Hside as [Hside Hcap]. apply andb_true_iff in Hside as [Hside Hps].
  apply andb_true_iff in Hside as [Hok Hdist].
  rewrite forallb_forall in Hps, Hcap.
  set (ps := formal_names d) in *. set (body := d_body d) in *.
  assert (Hlen' : length (map L ps) = length args).
  { rewrite map_length. unfold ps, formal_names. now rewrite map_length. }
  set (m := combine (map L ps) args).
  assert (Hfst : map fst m = map L ps) by (now apply map_fst_combine).
  assert (HinL : forall s, In (L s) (map L ps) -> In s ps).
  { intros s Hs. apply in_map_iff in Hs as (q & [= ->] & Hq). exact Hq. }
  assert (Hpair : forall s a, assoc_last m (L s) = Some a -> In (s, a) (combine ps args)).
  { intros s a Ha. apply assoc_last_some in Ha. now apply combine_map_L. }
  apply (subst_map_eval m) with (ri := combine ps vs ++ rho).
  - intros k a Hka. apply in_combine_l, in_map_iff in Hka as (p & <- & _). now exists p.
  - intros s Hs. destruct (assoc_last m (L s)) as [a|] eqn:Ea.
    + destruct (params_lookup rho ps args vs s a Hdist Eargs (Hpair s a Ea)) as (va & Hlk & Hva).
      exists va. split; [|exact Hva]. now rewrite lookup_app, Hlk.
    + apply assoc_last_none in Ea. rewrite Hfst in Ea. apply lookup_app_notin.
      intros y w Hy ->. apply Ea. apply in_combine_l in Hy. now apply in_map.
  - intros p Hp. unfold key in Hp. rewrite Hfst in Hp. specialize (Hps p (HinL p Hp)).
    now apply andb_true_iff in Hps as [Hps _].
  - intros s a Hs Ha. pose proof (Hpair s a Ha) as Hsa. split.
    + specialize (Hps s (in_combine_l _ _ _ _ Hsa)). apply andb_true_iff in Hps as [_ Hps].
      now apply negb_true_iff, mem_sexp_false in Hps.
    + intros y Hy. specialize (Hcap (s, a) Hsa). cbn [fst snd] in Hcap.
      assert (Hocc : occurs s body = true) by (now apply mem_sexp_true).
      rewrite Hocc in Hcap. cbn [negb orb] in Hcap. now apply (no_capture_inv body a y).
  - exact Hcall.
Qed.

Theorem inline_identity : forall defs e l e' n d args rho v,
  rw_inline defs e = Some l -> In e' l ->
  e = T (L n :: args) \/ (e = L n /\ args = []) ->
  lookup_def defs n = Some d ->
  inline_side d args = true ->
  call_val rho d args = Some v -> eval rho e' = Some v.
Proof.
  intros defs e l e' n d args rho v HR Hin He Hd Hside Hcall.
  unfold rw_inline in HR. cbv zeta in HR.
  destruct He as [-> | [-> ->]]; rewrite Hd in HR.
  - cbn [is_leaf andb] in HR.
    destruct (is_recursive defs n); [injection HR as <-; destruct Hin|].
    destruct (Nat.eqb (length (d_formals d)) (length args)) eqn:Elen.
    + apply Nat.eqb_eq in Elen.
      assert (Hok : forallb formal_ok (d_formals d) = true).
      { unfold inline_side in Hside. cbv zeta in Hside. apply andb_true_iff in Hside as [Hside _].
        apply andb_true_iff in Hside as [Hside _]. now apply andb_true_iff in Hside as [Hside _]. }
      rewrite (instantiate_app d (L n) args Hok Elen) in HR.
      destruct (inline_guard d args); [rewrite sexp_eqb_refl in HR; injection HR as <-; destruct Hin|].
      destruct (sexp_eqb _ _) in HR; injection HR as <-; [destruct Hin|].
      destruct Hin as [<- | []]. now apply inline_beta.
    + unfold instantiate in HR. rewrite Elen, sexp_eqb_refl in HR. injection HR as <-. destruct Hin.
  - cbn [is_leaf andb instantiate] in HR.
    destruct (Nat.eqb (length (d_formals d)) 0) eqn:Elen; cbn [negb] in HR; [|injection HR as <-; destruct Hin].
    destruct (is_recursive defs n); [injection HR as <-; destruct Hin|].
    destruct (sexp_eqb _ _) in HR; injection HR as <-; [destruct Hin|].
    destruct Hin as [<- | []]. unfold call_val in Hcall. cbn [map opt_all_v fold_right] in Hcall. rewrite combine_nil in Hcall. exact Hcall.
Qed.

(* a name that does not occur occurs in term positions only: inline_side asks nothing but the
   distinctness of a formal that the body does not mention *)
Lemma tpo_noocc x : forall e, occurs x e = false -> term_pos_only x e = true.
Proof.
  induction e as [s | l IH] using sexp_sub_ind; intros Hocc; [reflexivity|].
  assert (Hsub : forall a c, In a l -> In c (subterms a) -> occurs x c = false).
  { intros a c Ha Hc. unfold occurs in *. apply mem_sexp_false in Hocc. apply mem_sexp_false. intros Hx.
    apply Hocc. apply (sub_child l a (L x) Ha). now apply (sub_trans a (L x) c). }
  assert (Hargs : forall a, In a l -> term_pos_only x a = true).
  { intros a Ha. apply (IH a a Ha (sub_refl a)). apply (Hsub a a Ha (sub_refl a)). }
  destruct l as [| [h | hl] args]; [reflexivity | |].
  - rewrite tpo_app. apply andb_true_iff. split.
    + apply negb_true_iff. destruct (str_eqb h x) eqn:E; [|reflexivity]. apply str_eqb_eq in E. subst h.
      specialize (Hsub (L x) (L x) (or_introl eq_refl) (sub_refl _)). unfold occurs in Hsub.
      apply mem_sexp_false in Hsub. exfalso. apply Hsub. apply sub_refl.
    + destruct (isop h "_").
      { apply forallb_forall. intros a Ha. rewrite (Hsub a a (or_intror Ha) (sub_refl a)). reflexivity. }
      destruct (isop h "let").
      * destruct args as [| [s | bs] [| body [| ? ?]]]; try reflexivity.
        apply andb_true_iff. split; [|apply Hargs; right; right; now left].
        apply forallb_forall. intros b Hb. destruct b as [s | [| [y | ?] [| t [| ? ?]]]]; try reflexivity.
        assert (Hin : In t (subterms (T bs))).
        { apply (sub_child bs (T [L y; t]) t Hb). apply (sub_child [L y; t] t); [right; now left | apply sub_refl]. }
        apply (IH (T bs) t (or_intror (or_introl eq_refl)) Hin).
        apply (Hsub (T bs) t (or_intror (or_introl eq_refl)) Hin).
      * apply forallb_forall. intros a Ha. apply Hargs. now right.
  - rewrite tpo_idx. apply andb_true_iff. split.
    + rewrite (Hsub (T hl) (T hl) (or_introl eq_refl) (sub_refl _)). reflexivity.
    + apply forallb_forall. intros a Ha. apply Hargs. now right.
Qed.

(* what a binder binds is written in it *)
Lemma binder_vars_sub n s : In s (binder_vars n) -> In s (subterms n).
Proof.
  unfold binder_vars. destruct n as [? | [| [h | ?] [| n1 [| n2 r]]]]; try (intros []).
  destruct (iss h "let" || iss h "forall" || iss h "exists" || iss h "lambda").
  - destruct n1 as [? | vs]; [intros [] |]. intros H. apply in_flat_map in H as (v & Hv & Hs).
    destruct v as [? | [| v0 vr]]; try (now destruct Hs).
    destruct Hs as [Hs | []]. subst s.
    apply (sub_child _ (T vs)); [right; now left|]. apply (sub_child vs (T (v0 :: vr))); [assumption|].
    apply (sub_child _ v0); [now left | apply sub_refl].
  - destruct (iss h "match"); [| intros []]. destruct n2 as [? | cases]; [intros [] |].
    intros H. apply in_flat_map in H as (c & Hc & Hs). destruct c as [? | [| p pr]]; try (now destruct Hs).
    apply filter_In in Hs as [Hs _].
    apply (sub_child _ (T cases)); [right; right; now left|]. apply (sub_child cases (T (p :: pr))); [assumption|].
    apply (sub_child _ p); [now left | assumption].
Qed.

Lemma bound_syms_subterms e s : In s (bound_syms e) -> In s (subterms e).
Proof.
  unfold bound_syms. intros H. apply in_flat_map in H as (n & Hn & Hs).
  apply (sub_trans e s n); [now apply binder_vars_sub | assumption].
Qed.

(* a formal that the body does not mention satisfies its part of inline_side *)
Lemma unused_formal_side p body :
  occurs p body = false -> term_pos_only p body && negb (mem_sexp (L p) (bound_syms body)) = true.
Proof.
  intros H. rewrite (tpo_noocc p body H). cbn [andb]. apply negb_true_iff, mem_sexp_false. intros Hb.
  unfold occurs in H. apply mem_sexp_false in H. apply H. now apply bound_syms_subterms.
Qed.
