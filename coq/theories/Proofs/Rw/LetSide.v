(* Side conditions of the identity of LetSubstitution (C17, Model/LetRw.v).
   Definitions only; the proofs are in Proofs/Rw/LetSubst.v.

   subst_all replaces EVERY leaf equal to the bound name, also where eval
   (Spec/Semantics.v) reads a leaf syntactically: the head of an application,
   the parts of an indexed identifier (_ op i ..), the parts of a literal
   (_ bvN w).  [term_pos_only x b] says that x occurs in b only where eval
   evaluates a term; the recursion follows eval. *)
From DD Require Import Spec.Semantics Model.LetRw.
Local Open Scope list_scope.

(* the leaf x occurs somewhere in e *)
Definition occurs (x : str) (e : sexp) : bool := mem_sexp (L x) (subterms e).

Fixpoint term_pos_only (x : str) (e : sexp) : bool :=
  match e with
  | L _ => true
  | T [] => true
  | T (L h :: args) =>
      negb (str_eqb h x) &&
      (if isop h "_" then forallb (fun a => negb (occurs x a)) args
       else if isop h "let" then
         match args with
         | [T bs; body] =>
             forallb (fun b => match b with T [L _; t] => term_pos_only x t | _ => true end) bs
             && term_pos_only x body
         | _ => true
         end
       else forallb (term_pos_only x) args)
  | T (T hd :: args) => negb (occurs x (T hd)) && forallb (term_pos_only x) args
  end.

(* pairwise distinct *)
Fixpoint distinctb (l : list sexp) : bool :=
  match l with
  | [] => true
  | a :: r => negb (mem_sexp a r) && distinctb r
  end.

(* the first binding of bs whose name is x is the binding var *)
Fixpoint first_named (x : str) (var : sexp) (bs : list sexp) : bool :=
  match bs with
  | [] => false
  | b :: r =>
      match b with
      | T (L y :: _) => if str_eqb y x then sexp_eqb b var else first_named x var r
      | _ => first_named x var r
      end
  end.

(* SIDE for the whole let: the let binds pairwise distinct symbols (SMT-LIB
   requires that of a parallel let) and every bound name occurs in the body in
   term positions only *)
Definition let_side (e : sexp) : bool :=
  match e with
  | T (_ :: T bs :: body :: _) =>
      distinctb (binder_vars e)
      && forallb (fun b => match b with T (L x :: _) => term_pos_only x body | _ => true end) bs
  | _ => true
  end.
