(* Round trips of the numeral renderings used by the bit-vector rewrites:
   decimal (to_dec / dec_val), binary (to_bin / bin_val), ranges of bin_val and
   hex_val, and the arithmetic of binary strings (append, padding, slices). *)
From DD Require Import Base.Digits Model.Rewrites.
Local Open Scope list_scope.
Local Open Scope N_scope.

(* ---------- decimal ---------- *)
Definition dstep (a : N) (c : char) : N := a * 10 + digit_val c.

Lemma dec_val_fold s : dec_val s = fold_left dstep s 0.
Proof. reflexivity. Qed.

Lemma to_dec_aux_val : forall (f : nat) (n : N) (acc : str),
  n < 2 ^ N.of_nat f ->
  fold_left dstep (to_dec_aux f n acc) 0 = fold_left dstep acc n.
Proof.
  induction f as [|k IH]; intros n acc Hn.
  - cbn in Hn. assert (n = 0) as -> by lia. reflexivity.
  - cbn [to_dec_aux]. destruct (N.ltb n 10) eqn:E.
    + apply N.ltb_lt in E. cbn [fold_left]. unfold dstep at 2, digit_val.
      rewrite (N.mod_small n 10) by exact E.
      replace (0 * 10 + (48 + n - 48)) with n by lia. reflexivity.
    + apply N.ltb_ge in E. rewrite IH.
      * cbn [fold_left].
        change (dstep (n / 10) (48 + n mod 10)) with (n / 10 * 10 + (48 + n mod 10 - 48)).
        pose proof (N.div_mod n 10 ltac:(lia)) as Hdm.
        pose proof (N.mod_lt n 10 ltac:(lia)) as Hm.
        assert (Hq : n / 10 * 10 + (48 + n mod 10 - 48) = n).
        { revert Hdm Hm. generalize (n / 10) (n mod 10). intros q r Hdm Hm. lia. }
        rewrite Hq. reflexivity.
      * rewrite Nnat.Nat2N.inj_succ, N.pow_succ_r' in Hn.
        apply N.div_lt_upper_bound; [lia|].
        pose proof (N.pow_nonzero 2 (N.of_nat k) ltac:(lia)). lia.
Qed.

Lemma to_dec_aux_digits : forall (f : nat) (n : N) (acc : str),
  forallb is_digit acc = true -> forallb is_digit (to_dec_aux f n acc) = true.
Proof.
  induction f as [|k IH]; intros n acc Hacc; [exact Hacc|].
  cbn [to_dec_aux].
  assert (Hd : is_digit (48 + n mod 10) = true).
  { unfold is_digit. pose proof (N.mod_lt n 10 ltac:(lia)) as Hm.
    revert Hm. generalize (n mod 10). intros r Hm.
    apply andb_true_iff; split; apply N.leb_le; lia. }
  destruct (N.ltb n 10).
  - cbn [forallb]. now rewrite Hd, Hacc.
  - apply IH. cbn [forallb]. now rewrite Hd, Hacc.
Qed.

Lemma to_dec_aux_nonempty : forall (f : nat) (n : N) (acc : str),
  acc <> [] -> to_dec_aux f n acc <> [].
Proof.
  induction f as [|k IH]; intros n acc Hacc; [exact Hacc|].
  cbn [to_dec_aux]. destruct (N.ltb n 10); [discriminate|]. apply IH. discriminate.
Qed.

Lemma to_dec_nonempty n : to_dec n <> [].
Proof.
  unfold to_dec. cbn [to_dec_aux]. destruct (N.ltb n 10); [discriminate|].
  apply to_dec_aux_nonempty. discriminate.
Qed.

Lemma all_digits_to_dec n : all_digits (to_dec n) = true.
Proof.
  unfold all_digits. pose proof (to_dec_nonempty n) as Hne.
  destruct (to_dec n) as [|c r] eqn:E; [congruence|].
  rewrite <- E. unfold to_dec. apply to_dec_aux_digits. reflexivity.
Qed.

Lemma log2_fuel n : n < 2 ^ N.of_nat (S (N.to_nat (N.log2 n))).
Proof.
  rewrite Nnat.Nat2N.inj_succ, Nnat.N2Nat.id.
  destruct (N.eq_dec n 0) as [-> | Hnz]; [reflexivity|].
  apply N.log2_spec. lia.
Qed.

Lemma dec_val_to_dec n : dec_val (to_dec n) = n.
Proof.
  rewrite dec_val_fold. unfold to_dec. rewrite to_dec_aux_val by apply log2_fuel. reflexivity.
Qed.

Theorem dec_of_to_dec n : dec_of (to_dec n) = Some n.
Proof. unfold dec_of. now rewrite all_digits_to_dec, dec_val_to_dec. Qed.

(* z_to_dec on non-negative numbers *)
Lemma z_to_dec_of_N n : z_to_dec (Z.of_N n) = to_dec n.
Proof.
  unfold z_to_dec. destruct (Z.ltb (Z.of_N n) 0) eqn:E.
  - apply Z.ltb_lt in E. lia.
  - now rewrite N2Z.id.
Qed.

(* ---------- binary strings ---------- *)
Definition bstep (a : N) (c : char) : N := a * 2 + digit_val c.

Lemma bin_val_fold s : bin_val s = fold_left bstep s 0.
Proof. reflexivity. Qed.

Lemma lenN_app (s t : str) : N.of_nat (length (s ++ t)) = N.of_nat (length s) + N.of_nat (length t).
Proof. rewrite app_length. lia. Qed.

Lemma fold_bstep : forall (s : str) (a : N),
  fold_left bstep s a = a * 2 ^ N.of_nat (length s) + fold_left bstep s 0.
Proof.
  induction s as [|c s IH]; intros a.
  - cbn. lia.
  - cbn [fold_left length]. rewrite IH. rewrite (IH (bstep 0 c)).
    rewrite Nnat.Nat2N.inj_succ, N.pow_succ_r'. unfold bstep. 
    generalize (2 ^ N.of_nat (length s)). intros p. lia.
Qed.

Lemma bin_val_app s t : bin_val (s ++ t) = bin_val s * 2 ^ N.of_nat (length t) + bin_val t.
Proof.
  rewrite !bin_val_fold. rewrite fold_left_app. now rewrite fold_bstep.
Qed.

Lemma bin_val_cons c s : bin_val (c :: s) = digit_val c * 2 ^ N.of_nat (length s) + bin_val s.
Proof.
  change (c :: s) with ([c] ++ s). rewrite bin_val_app. cbn. 
  unfold bin_val at 1. cbn. reflexivity.
Qed.

Lemma is_bin_val c : is_bin c = true -> digit_val c < 2.
Proof.
  unfold is_bin, digit_val. intros H. apply orb_true_iff in H as [H | H]; apply N.eqb_eq in H; subst; cbn; lia.
Qed.

Lemma bin_step_lt p b d : b < p -> d < 2 -> d * p + b < 2 * p.
Proof. intros Hb Hd. assert (Hc : d = 0 \/ d = 1) by lia. destruct Hc as [-> | ->]; lia. Qed.

Lemma bin_val_lt : forall s, forallb is_bin s = true -> bin_val s < 2 ^ N.of_nat (length s).
Proof.
  induction s as [|c s IH]; intros H.
  - cbn. lia.
  - cbn [forallb] in H. apply andb_true_iff in H as [Hc Hs].
    rewrite bin_val_cons. specialize (IH Hs). apply is_bin_val in Hc.
    cbn [length]. rewrite Nnat.Nat2N.inj_succ, N.pow_succ_r'.
    apply bin_step_lt; assumption.
Qed.

Lemma hex_digit_lt c d : hex_digit c = Some d -> d < 16.
Proof.
  unfold hex_digit, is_digit. intros H.
  destruct (N.leb 48 c && N.leb c 57) eqn:E1.
  - apply andb_true_iff in E1 as [A B]. apply N.leb_le in A, B. injection H as <-. lia.
  - destruct (N.leb 97 c && N.leb c 102) eqn:E2.
    + apply andb_true_iff in E2 as [A B]. apply N.leb_le in A, B. injection H as <-. lia.
    + destruct (N.leb 65 c && N.leb c 70) eqn:E3; [|discriminate].
      apply andb_true_iff in E3 as [A B]. apply N.leb_le in A, B. injection H as <-. lia.
Qed.

Definition hstep (a : N) (c : char) : N := a * 16 + match hex_digit c with Some d => d | None => 0 end.

Lemma hex_val_lt_gen : forall s a, forallb is_hex s = true ->
  fold_left hstep s a < (a + 1) * 2 ^ (4 * N.of_nat (length s)).
Proof.
  induction s as [|c s IH]; intros a H.
  - cbn. lia.
  - cbn [forallb] in H. apply andb_true_iff in H as [Hc Hs].
    cbn [fold_left length]. specialize (IH (hstep a c) Hs).
    eapply N.lt_le_trans; [exact IH|].
    rewrite Nnat.Nat2N.inj_succ. replace (4 * N.succ (N.of_nat (length s))) with (4 + 4 * N.of_nat (length s)) by lia.
    rewrite N.pow_add_r. change (2 ^ 4) with 16.
    unfold hstep. unfold is_hex in Hc. destruct (hex_digit c) as [d|] eqn:E; [|discriminate].
    apply hex_digit_lt in E.
    generalize (2 ^ (4 * N.of_nat (length s))). intros p. nia.
Qed.

Lemma hex_val_lt s : forallb is_hex s = true -> hex_val s < 2 ^ (4 * N.of_nat (length s)).
Proof.
  intros H. pose proof (hex_val_lt_gen s 0 H) as G. 
  change (fold_left hstep s 0) with (hex_val s) in G. lia.
Qed.

(* ---------- to_bin ---------- *)
Lemma to_bin_aux_spec : forall (f : nat) (n : N) (acc : str),
  n < 2 ^ N.of_nat f ->
  exists s, to_bin_aux f n acc = s ++ acc /\ bin_val s = n /\ forallb is_bin s = true /\
            (0 < n -> length s = S (N.to_nat (N.log2 n)) /\ exists r, s = 49 :: r).
Proof.
  induction f as [|k IH]; intros n acc Hn.
  - cbn in Hn. assert (n = 0) as -> by lia. exists []. cbn. repeat split; lia.
  - cbn [to_bin_aux]. destruct (N.ltb n 2) eqn:E.
    + apply N.ltb_lt in E. exists [48 + n mod 2]. 
      assert (Hc : n = 0 \/ n = 1) by lia. destruct Hc as [-> | ->]; cbn; repeat split; try lia; try reflexivity.
      now exists [].
    + apply N.ltb_ge in E.
      assert (Hq : n / 2 < 2 ^ N.of_nat k).
      { rewrite Nnat.Nat2N.inj_succ, N.pow_succ_r' in Hn.
        apply N.div_lt_upper_bound; [lia|]. lia. }
      destruct (IH (n / 2) ((48 + n mod 2) :: acc) Hq) as (s & Hs & Hv & Hb & Hl).
      pose proof (N.div_mod n 2 ltac:(lia)) as Hdm.
      pose proof (N.mod_lt n 2 ltac:(lia)) as Hm.
      assert (Hpos : 0 < n / 2). { apply N.div_str_pos. lia. }
      assert (Hc : n mod 2 = 0 \/ n mod 2 = 1).
      { revert Hm. generalize (n mod 2). intros m Hm. lia. }
      destruct (Hl Hpos) as (Hlen & r & Hr).
      exists (s ++ [48 + n mod 2]). split; [|split; [|split]].
      * rewrite Hs. rewrite <- app_assoc. reflexivity.
      * rewrite bin_val_app, Hv. cbn [length]. change (2 ^ N.of_nat 1) with 2.
        unfold bin_val. cbn [fold_left]. unfold digit_val. 
        revert Hdm Hm. generalize (n / 2) (n mod 2). intros q m Hdm Hm. lia.
      * rewrite forallb_app. apply andb_true_iff. split; [exact Hb|]. cbn [forallb]. unfold is_bin.
        destruct Hc as [-> | ->]; reflexivity.
      * intros _. split.
        -- rewrite app_length, Hlen. cbn [length].
           assert (Hlog : N.log2 n = N.succ (N.log2 (n / 2))).
           { destruct Hc as [Hc | Hc]; rewrite Hc in Hdm.
             - rewrite Hdm at 1. rewrite N.add_0_r. apply N.log2_double. exact Hpos.
             - rewrite Hdm at 1. apply N.log2_succ_double. exact Hpos. }
           rewrite Hlog. lia.
        -- exists (r ++ [48 + n mod 2]). rewrite Hr. reflexivity.
Qed.

Lemma to_bin_spec n :
  bin_val (to_bin n) = n /\ forallb is_bin (to_bin n) = true /\
  length (to_bin n) = S (N.to_nat (N.log2 n)) /\ (0 < n -> exists r, to_bin n = 49 :: r).
Proof.
  destruct (N.eq_dec n 0) as [-> | Hnz].
  - cbn. repeat split. intros H. lia.
  - unfold to_bin. destruct (to_bin_aux_spec (S (N.to_nat (N.log2 n))) n [] (log2_fuel n)) as (s & Hs & Hv & Hb & Hl).
    rewrite app_nil_r in Hs. rewrite Hs. destruct (Hl ltac:(lia)) as (Hlen & Hr). repeat split; auto.
Qed.

Lemma bin_val_to_bin n : bin_val (to_bin n) = n.
Proof. apply to_bin_spec. Qed.
Lemma is_bin_to_bin n : forallb is_bin (to_bin n) = true.
Proof. apply to_bin_spec. Qed.
Lemma length_to_bin n : length (to_bin n) = S (N.to_nat (N.log2 n)).
Proof. apply to_bin_spec. Qed.
Lemma to_bin_head n : 0 < n -> exists r, to_bin n = 49 :: r.
Proof. apply to_bin_spec. Qed.
Lemma to_bin_zero : to_bin 0 = [48].
Proof. reflexivity. Qed.

(* length of the binary rendering against a width *)
Lemma length_to_bin_le n w : 0 < w -> n < 2 ^ w -> (length (to_bin n) <= N.to_nat w)%nat.
Proof.
  intros Hw Hn. rewrite length_to_bin.
  destruct (N.eq_dec n 0) as [-> | Hnz]; [cbn; lia|].
  assert (N.log2 n < w) by (apply N.log2_lt_pow2; lia). lia.
Qed.

(* ---------- repeated characters ---------- *)
Lemma length_repeat_c c k : length (repeat_c c k) = k.
Proof. induction k as [|k IH]; cbn; congruence. Qed.

Lemma is_bin_repeat_c c k : is_bin c = true -> forallb is_bin (repeat_c c k) = true.
Proof. intros H. induction k as [|k IH]; cbn; [reflexivity|]. now rewrite H, IH. Qed.

Lemma bin_val_zeros k : bin_val (repeat_c 48 k) = 0.
Proof.
  induction k as [|k IH]; [reflexivity|]. cbn [repeat_c]. rewrite bin_val_cons, IH. reflexivity.
Qed.

Lemma bin_val_ones k : bin_val (repeat_c 49 k) = 2 ^ N.of_nat k - 1.
Proof.
  induction k as [|k IH]; [reflexivity|]. cbn [repeat_c]. rewrite bin_val_cons, IH, length_repeat_c.
  rewrite Nnat.Nat2N.inj_succ, N.pow_succ_r'. change (digit_val 49) with 1.
  pose proof (N.pow_nonzero 2 (N.of_nat k) ltac:(lia)). lia.
Qed.

(* ---------- slices of binary strings ---------- *)
(* the bits of a binary string: dropping a prefix keeps the low bits, taking a prefix keeps the high bits *)
Lemma bin_val_skipn (s : str) (a : nat) : forallb is_bin s = true ->
  bin_val (skipn a s) = bin_val s mod 2 ^ N.of_nat (length s - a).
Proof.
  intros Hb. rewrite <- (firstn_skipn a s) in Hb. rewrite forallb_app in Hb. apply andb_true_iff in Hb as [_ Hb2].
  pose proof (bin_val_lt _ Hb2) as Hlt. rewrite skipn_length in Hlt.
  rewrite <- (firstn_skipn a s) at 2. rewrite bin_val_app. rewrite skipn_length.
  rewrite N.add_comm, N.mod_add by (apply N.pow_nonzero; lia). now rewrite N.mod_small.
Qed.

Lemma bin_val_firstn (s : str) (b : nat) : forallb is_bin s = true ->
  bin_val (firstn b s) = bin_val s / 2 ^ N.of_nat (length s - b).
Proof.
  intros Hb. rewrite <- (firstn_skipn b s) in Hb. rewrite forallb_app in Hb. apply andb_true_iff in Hb as [_ Hb2].
  pose proof (bin_val_lt _ Hb2) as Hlt. rewrite skipn_length in Hlt.
  rewrite <- (firstn_skipn b s) at 2. rewrite bin_val_app. rewrite skipn_length.
  rewrite N.div_add_l by (apply N.pow_nonzero; lia). rewrite (N.div_small _ _ Hlt). lia.
Qed.

Lemma is_bin_firstn (s : str) b : forallb is_bin s = true -> forallb is_bin (firstn b s) = true.
Proof.
  intros H. rewrite <- (firstn_skipn b s) in H. rewrite forallb_app in H. now apply andb_true_iff in H as [H _].
Qed.
Lemma is_bin_skipn (s : str) a : forallb is_bin s = true -> forallb is_bin (skipn a s) = true.
Proof.
  intros H. rewrite <- (firstn_skipn a s) in H. rewrite forallb_app in H. now apply andb_true_iff in H as [_ H].
Qed.
