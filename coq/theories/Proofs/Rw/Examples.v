(* Concrete valuation, environment and width oracles for the examples of
   Props/C17.v, with the proofs that they satisfy the hypotheses of the theorems. *)
From DD Require Import Spec.Semantics Spec.Typing Model.Rewrites.
Local Open Scope list_scope.

Definition ex_rho : list (str * value) :=
  [(lit "x", VV 4 10); (lit "y", VV 4 0); (lit "z", VV 4 15); (lit "o", VV 1 1);
   (lit "p", VB true); (lit "q", VB false); (lit "i", VI 3); (lit "j", VI (-2))].

Definition ex_g : env :=
  mk_env [(lit "x", sBV 4); (lit "y", sBV 4); (lit "z", sBV 4); (lit "o", sBV 1);
          (lit "p", sBool); (lit "q", sBool); (lit "i", sInt); (lit "j", sInt)] [] [].

(* an environment with a user function named != *)
Definition ex_g_neq : env :=
  mk_env [(lit "i", sInt); (lit "p", sBool)] [(lit "!=", ([sInt; sBool], sBool))] [].

(* width oracles that answer from the valuation / from the typing *)
Definition ex_bw (t : sexp) : Z := match eval ex_rho t with Some (VV w _) => Z.of_N w | _ => (-1)%Z end.
Definition ex_bw_ty (t : sexp) : Z :=
  match type_of ex_g t with
  | Some st => match Typing.bv_width st with Some w => Z.of_N w | None => (-1)%Z end
  | None => (-1)%Z
  end.
Definition ex_is_bv (t : sexp) : bool :=
  match type_of ex_g t with
  | Some st => match Typing.bv_width st with Some _ => true | None => false end
  | None => false
  end.

(* term builders *)
Definition ix (op : string) (ks : list string) : sexp := T (lf "_" :: lf op :: map lf ks).
Definition ext (i j : string) (t : sexp) : sexp := T [ix "extract" [i; j]; t].
Definition zx (k : string) (t : sexp) : sexp := T [ix "zero_extend" [k]; t].
Definition sx (k : string) (t : sexp) : sexp := T [ix "sign_extend" [k]; t].
Definition bvl (v w : string) : sexp := T [lf "_"; lf v; lf w].

Lemma ex_rho_ok : forall k u, lookup_v k ex_rho = Some u -> match u with VV w n => (n < 2 ^ w)%N | _ => True end.
Proof.
  intros k u H. unfold ex_rho in H. cbn [lookup_v] in H.
  repeat match type of H with
         | (if ?c then _ else _) = _ => destruct c; [injection H as <-; first [exact I | reflexivity]|]
         end.
  discriminate H.
Qed.

Lemma ex_rho_lit_free : forall s, is_bv_const (L s) = true -> lookup_v s ex_rho = None.
Proof.
  intros s H. destruct s as [|c [|d tl]]; try discriminate H. cbn [is_bv_const] in H.
  destruct (N.eqb c cHASH) eqn:E; [|discriminate H]. apply N.eqb_eq in E. subst c. reflexivity.
Qed.

Lemma ex_g_lit_free : forall s, is_bv_const (L s) = true -> assoc s (e_vars ex_g) = None /\ find_cons (e_dts ex_g) s = None.
Proof.
  intros s H. destruct s as [|c [|d tl]]; try discriminate H. cbn [is_bv_const] in H.
  destruct (N.eqb c cHASH) eqn:E; [|discriminate H]. apply N.eqb_eq in E. subst c. split; reflexivity.
Qed.

Lemma ex_bw_sound : forall t w n, eval ex_rho t = Some (VV w n) -> ex_bw t = (-1)%Z \/ ex_bw t = Z.of_N w.
Proof. intros t w n H. unfold ex_bw. rewrite H. now right. Qed.

Lemma ex_bw_ty_sound : forall t st, type_of ex_g t = Some st ->
  ex_bw_ty t = (-1)%Z \/ Some (Z.to_N (ex_bw_ty t)) = Typing.bv_width st.
Proof.
  intros t st H. unfold ex_bw_ty. rewrite H. destruct (Typing.bv_width st) as [w|]; [right | now left].
  now rewrite N2Z.id.
Qed.

Lemma ex_is_bv_sound : forall t st, ex_is_bv t = true -> type_of ex_g t = Some st -> Typing.bv_width st <> None.
Proof.
  intros t st H Ht. unfold ex_is_bv in H. rewrite Ht in H. destruct (Typing.bv_width st); [discriminate | discriminate H].
Qed.
