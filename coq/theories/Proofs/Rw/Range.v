(* Range invariant of the evaluation: every bit-vector value VV w n produced
   by eval satisfies n < 2^w, provided the valuation only holds such values. *)
From DD Require Import Spec.Semantics Model.Rewrites Proofs.Rw.DigitsRT Proofs.Rw.EvalBase.
Local Open Scope list_scope.
Local Open Scope N_scope.

Definition val_ok (v : value) : Prop := match v with VV w n => n < 2 ^ w | _ => True end.
Definition rho_ok (rho : list (str * value)) : Prop := forall k v, lookup_v k rho = Some v -> val_ok v.

Lemma pow2_pos w : 0 < 2 ^ w.
Proof. pose proof (N.pow_nonzero 2 w ltac:(lia)). lia. Qed.

Lemma bvmod_lt w z : bvmod w z < 2 ^ w.
Proof.
  unfold bvmod. pose proof (pow2_pos w) as Hp.
  pose proof (Z.mod_pos_bound z (Z.of_N (2 ^ w)) ltac:(lia)) as Hm. lia.
Qed.

Lemma lt_pow2_shiftr a w : a < 2 ^ w <-> N.shiftr a w = 0.
Proof.
  rewrite N.shiftr_div_pow2. pose proof (N.pow_nonzero 2 w ltac:(lia)) as Hp.
  split; intros H.
  - now apply N.div_small.
  - now apply N.div_small_iff in H.
Qed.

Lemma land_lt a b w : a < 2 ^ w -> b < 2 ^ w -> N.land a b < 2 ^ w.
Proof. rewrite !lt_pow2_shiftr, N.shiftr_land. intros -> ->. reflexivity. Qed.
Lemma lor_lt a b w : a < 2 ^ w -> b < 2 ^ w -> N.lor a b < 2 ^ w.
Proof. rewrite !lt_pow2_shiftr, N.shiftr_lor. intros -> ->. reflexivity. Qed.
Lemma lxor_lt a b w : a < 2 ^ w -> b < 2 ^ w -> N.lxor a b < 2 ^ w.
Proof. rewrite !lt_pow2_shiftr, N.shiftr_lxor. intros -> ->. reflexivity. Qed.

Lemma fold_inv (P : N -> Prop) (f : N -> N -> N) :
  (forall a b, P a -> P b -> P (f a b)) ->
  forall r x, P x -> Forall P r -> P (fold_left f r x).
Proof.
  intros Hf. induction r as [|y r IH]; intros x Hx Hr; [exact Hx|].
  inversion Hr as [|? ? Hy Hr']; subst. cbn [fold_left]. apply IH; [now apply Hf | exact Hr'].
Qed.

(* all_bvs keeps the range *)
Lemma opt_all_bv_ok w : forall (r : list value) ms,
  Forall val_ok r ->
  opt_all_v (map (fun v => match v with VV w' m => if N.eqb w w' then Some m else None | _ => None end) r) = Some ms ->
  Forall (fun n => n < 2 ^ w) ms.
Proof.
  induction r as [|v r IH]; intros ms Hr H.
  - cbn in H. injection H as <-. constructor.
  - inversion Hr as [|? ? Hv Hr']; subst. cbn [map opt_all_v fold_right] in H.
    destruct v as [b | z | w' m]; try discriminate.
    destruct (N.eqb w w') eqn:E; [|discriminate]. apply N.eqb_eq in E. subst w'.
    fold (opt_all_v (map (fun v => match v with VV w' m => if N.eqb w w' then Some m else None | _ => None end) r)) in H.
    destruct (opt_all_v _) as [ms'|] eqn:E'; [|discriminate]. injection H as <-.
    constructor; [exact Hv | now apply IH].
Qed.

Lemma all_bvs_ok vs w ns : Forall val_ok vs -> all_bvs vs = Some (w, ns) -> Forall (fun n => n < 2 ^ w) ns.
Proof.
  intros Hvs H. unfold all_bvs in H. destruct vs as [|[b | z | w' n] r]; try discriminate.
  inversion Hvs as [|? ? Hv Hr]; subst.
  destruct (opt_all_v _) as [ms|] eqn:E; [|discriminate]. injection H as <- <-.
  constructor; [exact Hv|]. eapply opt_all_bv_ok; eassumption.
Qed.

Lemma concat_ok : forall (r : list value) acc v,
  (forall u, acc = Some u -> val_ok u) -> Forall val_ok r ->
  fold_left (fun acc v => match acc, v with
                          | Some (VV wa a), VV wb b => Some (VV (wa + wb) (a * 2 ^ wb + b))
                          | _, _ => None end) r acc = Some v -> val_ok v.
Proof.
  induction r as [|y r IH]; intros acc v Hacc Hr H.
  - cbn in H. now apply Hacc.
  - inversion Hr as [|? ? Hy Hr']; subst. cbn [fold_left] in H. eapply IH; [|exact Hr'|exact H].
    intros u Hu. destruct acc as [[b | z | wa a]|]; try discriminate. destruct y as [b | z | wb c]; try discriminate.
    injection Hu as <-. specialize (Hacc _ eq_refl). cbn in Hacc, Hy |- *.
    rewrite N.pow_add_r. pose proof (pow2_pos wb). nia.
Qed.

Lemma sext_lt w k x : x < 2 ^ w -> x + (2 ^ k - 1) * 2 ^ w < 2 ^ (w + k).
Proof.
  intros Hx. rewrite N.pow_add_r. pose proof (pow2_pos k) as Hk.
  revert Hx Hk. generalize (2 ^ w) (2 ^ k). intros p q Hx Hk. nia.
Qed.

Lemma pow2_le_mono a b : a <= b -> 2 ^ a <= 2 ^ b.
Proof. intros H. apply N.pow_le_mono_r; lia. Qed.

Ltac inv_match H :=
  repeat match type of H with
         | match ?x with _ => _ end = Some _ => destruct x eqn:?; try discriminate H
         | (if ?x then _ else _) = Some _ => destruct x eqn:?; try discriminate H
         end.

Lemma apply_op_ok h vs v : Forall val_ok vs -> apply_op h vs = Some v -> val_ok v.
Proof.
  intros Hvs H. unfold apply_op in H.
  repeat match type of H with
         | (if isop h ?s then _ else _) = Some _ => destruct (isop h s)
         end;
  try discriminate H;
  try (inv_match H; injection H as <-; exact I).
  all: try (destruct (all_bvs vs) as [[w ns]|] eqn:Eb; [|discriminate H];
            pose proof (all_bvs_ok _ _ _ Hvs Eb) as Hns).
  all: try (destruct ns as [|x r]; [discriminate H|]; inversion Hns as [|? ? Hx Hr]; subst).
  all: try (destruct (Nat.leb 2 (length vs)); [|discriminate H]; injection H as <-; cbn [val_ok]).
  - (* ite *) inv_match H; injection H as <-; subst;
    inversion Hvs as [|? ? H1 Hvs1]; subst; inversion Hvs1 as [|? ? H2 Hvs2]; subst; inversion Hvs2 as [|? ? H3 Hvs3]; subst;
    match goal with |- val_ok (if ?c then _ else _) => destruct c end; assumption.
  - (* bvnot *) inv_match H. injection H as <-. cbn. pose proof (pow2_pos w). lia.
  - (* bvneg *) inv_match H. injection H as <-. cbn. apply bvmod_lt.
  - apply (fold_inv (fun n => n < 2 ^ w)); auto using land_lt.
  - apply (fold_inv (fun n => n < 2 ^ w)); auto using lor_lt.
  - apply (fold_inv (fun n => n < 2 ^ w)); auto using lxor_lt.
  - inv_match H. injection H as <-. cbn. pose proof (pow2_pos w). lia.
  - inv_match H. injection H as <-. cbn. pose proof (pow2_pos w). lia.
  - apply (fold_inv (fun n => n < 2 ^ w)); auto. intros a b _ _. apply N.mod_lt. apply N.pow_nonzero. lia.
  - apply (fold_inv (fun n => n < 2 ^ w)); auto. intros a b _ _. apply N.mod_lt. apply N.pow_nonzero. lia.
  - inv_match H. injection H as <-. cbn. apply bvmod_lt.
  - inv_match H; injection H as <-; cbn [val_ok]; match goal with |- (if ?c then _ else _) < _ => destruct c end; reflexivity.
  - (* concat *) destruct vs as [|[b | z | w x] r]; try discriminate H.
    destruct (Nat.leb 2 (length (VV w x :: r))); [|discriminate H].
    inversion Hvs as [|? ? Hx Hr]; subst. eapply concat_ok; [|exact Hr|exact H].
    intros u Hu. injection Hu as <-. exact Hx.
Qed.

Lemma apply_indexed_ok op ix vs v : Forall val_ok vs -> apply_indexed op ix vs = Some v -> val_ok v.
Proof.
  intros Hvs H. unfold apply_indexed in H.
  destruct ix as [|k [|j [|? ?]]]; try discriminate H;
  destruct vs as [|[b | z | w x] [|? ?]]; try discriminate H;
  inversion Hvs as [|? ? Hx _]; subst; cbn in Hx.
  - destruct (isop op "zero_extend").
    + injection H as <-. cbn. eapply N.lt_le_trans; [exact Hx|]. apply pow2_le_mono. lia.
    + destruct (isop op "sign_extend"); [|discriminate H]. injection H as <-. cbn.
      destruct (msb w x).
      * now apply sext_lt.
      * eapply N.lt_le_trans; [exact Hx|]. apply pow2_le_mono. lia.
  - destruct (isop op "extract"); [|discriminate H].
    destruct (N.leb j k && N.ltb k w); [|discriminate H]. injection H as <-. cbn.
    apply N.mod_lt. apply N.pow_nonzero. lia.
Qed.

Lemma const_value_ok s v : const_value s = Some v -> val_ok v.
Proof.
  unfold const_value. intros H.
  destruct (isop s "true"); [injection H as <-; exact I|].
  destruct (isop s "false"); [injection H as <-; exact I|].
  destruct (all_digits s); [injection H as <-; exact I|].
  destruct s as [|c [|d tl]]; try discriminate H.
  destruct (N.eqb c cHASH && N.eqb d c_b && forallb is_bin tl) eqn:E1.
  - destruct tl as [|t0 tl']; [discriminate H|]. injection H as <-. cbn [val_ok].
    apply andb_true_iff in E1 as [_ E1]. now apply bin_val_lt.
  - destruct (N.eqb c cHASH && N.eqb d c_x && forallb is_hex tl) eqn:E2; [|discriminate H].
    destruct tl as [|t0 tl']; [discriminate H|]. injection H as <-. cbn [val_ok].
    apply andb_true_iff in E2 as [_ E2]. now apply hex_val_lt.
Qed.

(* sizes of subterms *)
Lemma size_in x l : In x l -> (size x < size (T l))%nat.
Proof.
  cbn [size]. induction l as [|y l IH]; intros H; [destruct H|].
  cbn [fold_right]. destruct H as [-> | H]; [lia|]. specialize (IH H). lia.
Qed.

Lemma eval_args_ok rho args vs :
  (forall x, In x args -> forall v, eval rho x = Some v -> val_ok v) ->
  eval_args rho args = Some vs -> Forall val_ok vs.
Proof.
  revert vs. induction args as [|a args IH]; intros vs Hall H.
  - apply eval_args_nil_inv in H. subst. constructor.
  - apply eval_args_cons_inv in H as (v & r & Hv & Hr & ->). constructor.
    + eapply Hall; [left; reflexivity | exact Hv].
    + apply IH; [|exact Hr]. intros x Hx. apply Hall. now right.
Qed.

Lemma rho_ok_app bound rho : Forall (fun p => val_ok (snd p)) bound -> rho_ok rho -> rho_ok (bound ++ rho).
Proof.
  intros Hb Hr. induction Hb as [|[x u] bound Hu _ IH]; [exact Hr|].
  intros k v H. cbn [app lookup_v] in H. destruct (str_eqb x k).
  - injection H as <-. exact Hu.
  - now apply IH in H.
Qed.

Theorem eval_range_size : forall (n : nat) e rho v,
  (size e < n)%nat -> rho_ok rho -> eval rho e = Some v -> val_ok v.
Proof.
  induction n as [|n IH]; intros e rho v Hsz Hrho Hev; [lia|].
  destruct e as [s | l].
  - rewrite eval_leaf in Hev. destruct (lookup_v s rho) as [u|] eqn:E.
    + injection Hev as <-. eapply Hrho; eassumption.
    + eapply const_value_ok; eassumption.
  - assert (Hsub : forall x, In x l -> forall rho' v', rho_ok rho' -> eval rho' x = Some v' -> val_ok v').
    { intros x Hx rho' v' Hr' Hv'. eapply (IH x); [|exact Hr'|exact Hv']. apply size_in in Hx. lia. }
    destruct l as [|[h | hl] args]; [discriminate Hev| |].
    + destruct (isop h "_") eqn:E1.
      { cbn [eval] in Hev. rewrite E1 in Hev.
        destruct args as [|[b|?] [|[w|?] [|? ?]]]; try discriminate Hev.
        destruct b as [|c1 [|c2 digs]]; try discriminate Hev.
        destruct (N.eqb c1 c_b && N.eqb c2 c_v && all_digits digs); [|discriminate Hev].
        destruct (dec_of w) as [m|]; [|discriminate Hev].
        destruct (N.ltb 0 m && N.ltb (dec_val digs) (2 ^ m)) eqn:E; [|discriminate Hev].
        injection Hev as <-. cbn. apply andb_true_iff in E as [_ E]. now apply N.ltb_lt in E. }
      destruct (isop h "let") eqn:E2.
      { cbn [eval] in Hev. rewrite E1, E2 in Hev.
        destruct args as [|[?|bs] [|body [|? ?]]]; try discriminate Hev.
        destruct (opt_all_v _) as [bound|] eqn:Eb; [|discriminate Hev].
        eapply (IH body); [| |exact Hev].
        - assert (Hb : In body (L h :: [T bs; body])) by (right; right; left; reflexivity).
          apply size_in in Hb. lia.
        - apply rho_ok_app; [|exact Hrho].
          assert (Hbs : forall b, In b bs -> (size b < n)%nat).
          { intros b Hb. apply size_in in Hb.
            assert (Hb2 : In (T bs) (L h :: [T bs; body])) by (right; left; reflexivity).
            apply size_in in Hb2. lia. }
          clear Hev Hsub Hsz. revert bound Eb. induction bs as [|b bs IHbs]; intros bound Eb.
          + cbn in Eb. injection Eb as <-. constructor.
          + cbn [map opt_all_v fold_right] in Eb.
            destruct b as [?|[|[x|?] [|t [|? ?]]]]; try discriminate Eb.
            destruct (eval rho t) as [u|] eqn:Et; [|discriminate Eb].
            match type of Eb with match ?o with _ => _ end = _ => destruct o as [bound'|] eqn:Eb' end; [|discriminate Eb].
            injection Eb as <-. constructor.
            * cbn [snd]. eapply (IH t); [|exact Hrho|exact Et].
              assert (Ht : In t [L x; t]) by (right; left; reflexivity). apply size_in in Ht.
              specialize (Hbs (T [L x; t]) ltac:(left; reflexivity)). lia.
            * apply IHbs; [|exact Eb']. intros b Hb. apply Hbs. now right. }
      apply eval_op_inv in Hev as (vs & Ha & Hv); try assumption.
      eapply apply_op_ok; [|exact Hv]. eapply eval_args_ok; [|exact Ha].
      intros x Hx u Hu. eapply Hsub; [right; exact Hx | exact Hrho | exact Hu].
    + destruct hl as [|[u|?] [|[op|?] idx]]; try discriminate Hev.
      cbn [eval] in Hev. destruct (isop u "_"); [|discriminate Hev].
      destruct (opt_all_v (map _ idx)) as [ix|]; [|discriminate Hev].
      fold (eval_args rho args) in Hev. destruct (eval_args rho args) as [vs|] eqn:Ea; [|discriminate Hev].
      eapply apply_indexed_ok; [|exact Hev]. eapply eval_args_ok; [|exact Ea].
      intros x Hx w Hw. eapply Hsub; [right; exact Hx | exact Hrho | exact Hw].
Qed.

Theorem eval_range rho e v : rho_ok rho -> eval rho e = Some v -> val_ok v.
Proof. intros Hr He. apply (eval_range_size (S (size e)) e rho v); [apply Nat.lt_succ_diag_r | exact Hr | exact He]. Qed.

Corollary eval_range_bv rho e w n : rho_ok rho -> eval rho e = Some (VV w n) -> n < 2 ^ w.
Proof. intros Hr He. exact (eval_range rho e (VV w n) Hr He). Qed.
