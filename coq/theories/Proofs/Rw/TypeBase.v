(* Unfolding and inversion lemmas for the typing function of Spec/Typing.v,
   used by the sort-preservation proofs of the rewrites (C17). *)
From DD Require Import Spec.Typing Model.Rewrites Proofs.Rw.DigitsRT Proofs.Rw.EvalBase.
Local Open Scope list_scope.

Lemma is_eq s x : Typing.is s x = true -> s = lit x.
Proof. unfold Typing.is. apply str_eqb_eq. Qed.

Lemma sexp_eqb_refl : forall a, sexp_eqb a a = true.
Proof.
  induction a as [s | l IH] using sexp_ind'; cbn [sexp_eqb]; [apply str_eqb_refl|].
  induction IH as [| x l Hx _ IHl]; [reflexivity|]. now rewrite Hx, IHl.
Qed.

(* ---------- typed argument lists ---------- *)
Definition type_args (g : env) (args : list sexp) : option (list sexp) := opt_all (map (type_of g) args).

Lemma type_args_cons g a l :
  type_args g (a :: l) = match type_of g a, type_args g l with Some v, Some r => Some (v :: r) | _, _ => None end.
Proof. reflexivity. Qed.

Lemma type_args_cons_inv g a l ts :
  type_args g (a :: l) = Some ts -> exists t r, type_of g a = Some t /\ type_args g l = Some r /\ ts = t :: r.
Proof.
  rewrite type_args_cons. destruct (type_of g a) as [t|]; [|discriminate].
  destruct (type_args g l) as [r|]; [|discriminate]. intros H. injection H as <-. now exists t, r.
Qed.

Lemma type_args_nil_inv g ts : type_args g [] = Some ts -> ts = [].
Proof. cbn. congruence. Qed.

Lemma type_args_length g : forall l ts, type_args g l = Some ts -> length ts = length l.
Proof.
  induction l as [|a l IH]; intros ts H.
  - apply type_args_nil_inv in H. now subst.
  - apply type_args_cons_inv in H as (t & r & _ & Hr & ->). cbn. f_equal. now apply IH.
Qed.

Lemma type_args_1 g args t : type_args g args = Some [t] -> exists x, args = [x] /\ type_of g x = Some t.
Proof.
  intros H. destruct args as [|x [|y r]].
  - discriminate.
  - apply type_args_cons_inv in H as (t1 & r1 & H1 & _ & E). injection E as <- <-. now exists x.
  - apply type_args_length in H. discriminate.
Qed.

Lemma type_args_intro1 g x t : type_of g x = Some t -> type_args g [x] = Some [t].
Proof. intros H. rewrite type_args_cons, H. reflexivity. Qed.
Lemma type_args_intro2 g x y t1 t2 : type_of g x = Some t1 -> type_of g y = Some t2 -> type_args g [x; y] = Some [t1; t2].
Proof. intros H1 H2. rewrite !type_args_cons, H1, H2. reflexivity. Qed.

(* ---------- unfolding type_of ---------- *)
Definition plain_op (h : str) : Prop :=
  Typing.is h "_" = false /\ Typing.is h "let" = false /\ Typing.is h "forall" = false /\
  Typing.is h "exists" = false /\ Typing.is h "!" = false.

Lemma type_op g h args : plain_op h ->
  type_of g (T (L h :: args)) = match type_args g args with Some ts => type_app g h ts | None => None end.
Proof.
  intros (H1 & H2 & H3 & H4 & H5). cbn [type_of]. rewrite H1, H2, H3, H4, H5. reflexivity.
Qed.

Ltac plain := repeat split; reflexivity.

Lemma type_op_inv g h args s : plain_op h ->
  type_of g (T (L h :: args)) = Some s -> exists ts, type_args g args = Some ts /\ type_app g h ts = Some s.
Proof.
  intros Hp H. rewrite type_op in H by exact Hp.
  destruct (type_args g args) as [ts|]; [|discriminate]. now exists ts.
Qed.

Lemma type_op_intro g h args ts : plain_op h ->
  type_args g args = Some ts -> type_of g (T (L h :: args)) = type_app g h ts.
Proof. intros Hp H. rewrite type_op by exact Hp. now rewrite H. Qed.

Lemma type_bin_inv g op x y s : plain_op op ->
  type_of g (T [L op; x; y]) = Some s ->
  exists t1 t2, type_of g x = Some t1 /\ type_of g y = Some t2 /\ type_app g op [t1; t2] = Some s.
Proof.
  intros Hp H. apply type_op_inv in H as (ts & Ha & Hs); [|exact Hp].
  apply type_args_cons_inv in Ha as (t1 & r1 & Hx & Ha & ->).
  apply type_args_cons_inv in Ha as (t2 & r2 & Hy & Ha & ->).
  apply type_args_nil_inv in Ha. subst r2. now exists t1, t2.
Qed.

Lemma type_bin_intro g op x y t1 t2 : plain_op op ->
  type_of g x = Some t1 -> type_of g y = Some t2 -> type_of g (T [L op; x; y]) = type_app g op [t1; t2].
Proof. intros Hp Hx Hy. apply type_op_intro; [exact Hp|]. now apply type_args_intro2. Qed.

Definition idx_str (i : sexp) : option str := match i with L s => Some s | T _ => None end.

Lemma type_indexed_app g op idx args :
  type_of g (T (T (L (lit "_") :: L op :: idx) :: args)) =
  match opt_all (map idx_str idx), type_args g args with
  | Some ix, Some ts => type_indexed op ix ts
  | _, _ => None
  end.
Proof. reflexivity. Qed.

Lemma type_bvlit g digs w :
  type_of g (T [L (lit "_"); L (c_b :: c_v :: digs); L w]) =
  if all_digits digs then
    match dec_of w with
    | Some n => if N.ltb 0 n && N.ltb (dec_val digs) (2 ^ n) then Some (sBV n) else None
    | None => None
    end
  else None.
Proof. cbn [type_of]. change (Typing.is (lit "_") "_") with true. cbv iota. rewrite !N.eqb_refl. reflexivity. Qed.

(* ---------- the operators used by the rewrites ---------- *)
Lemma tapp_nil g op : type_app g op [] = None.
Proof. reflexivity. Qed.
Lemma tapp_not g t r : type_app g (lit "not") (t :: r) =
  if Nat.eqb (length (t :: r)) 1 && all_eq sBool (t :: r) then Some sBool else None.
Proof. reflexivity. Qed.
Lemma tapp_and g t r : type_app g (lit "and") (t :: r) =
  if Nat.leb 2 (length (t :: r)) && all_eq sBool (t :: r) then Some sBool else None.
Proof. reflexivity. Qed.
Lemma tapp_or g t r : type_app g (lit "or") (t :: r) =
  if Nat.leb 2 (length (t :: r)) && all_eq sBool (t :: r) then Some sBool else None.
Proof. reflexivity. Qed.
Lemma tapp_xor g t r : type_app g (lit "xor") (t :: r) =
  if Nat.leb 2 (length (t :: r)) && all_eq sBool (t :: r) then Some sBool else None.
Proof. reflexivity. Qed.
Lemma tapp_imp g t r : type_app g (lit "=>") (t :: r) =
  if Nat.leb 2 (length (t :: r)) && all_eq sBool (t :: r) then Some sBool else None.
Proof. reflexivity. Qed.
Lemma tapp_eq g t r : type_app g (lit "=") (t :: r) =
  if Nat.leb 2 (length (t :: r)) && all_eq t (t :: r) then Some sBool else None.
Proof. reflexivity. Qed.
Lemma tapp_distinct g t r : type_app g (lit "distinct") (t :: r) =
  if Nat.leb 2 (length (t :: r)) && all_eq t (t :: r) then Some sBool else None.
Proof. reflexivity. Qed.
Lemma tapp_ite g ts : type_app g (lit "ite") ts =
  match ts with [c; a; b] => if sexp_eqb c sBool && sexp_eqb a b then Some a else None | _ => None end.
Proof. destruct ts as [|? [|? [|? [|? ?]]]]; reflexivity. Qed.
Lemma tapp_lt g t r : type_app g (lit "<") (t :: r) =
  if Nat.leb 2 (length (t :: r)) && is_arith t && all_eq t (t :: r) then Some sBool else None.
Proof. reflexivity. Qed.
Lemma tapp_le g t r : type_app g (lit "<=") (t :: r) =
  if Nat.leb 2 (length (t :: r)) && is_arith t && all_eq t (t :: r) then Some sBool else None.
Proof. reflexivity. Qed.
Lemma tapp_gt g t r : type_app g (lit ">") (t :: r) =
  if Nat.leb 2 (length (t :: r)) && is_arith t && all_eq t (t :: r) then Some sBool else None.
Proof. reflexivity. Qed.
Lemma tapp_ge g t r : type_app g (lit ">=") (t :: r) =
  if Nat.leb 2 (length (t :: r)) && is_arith t && all_eq t (t :: r) then Some sBool else None.
Proof. reflexivity. Qed.
Lemma tapp_bvnot g t r : type_app g (lit "bvnot") (t :: r) =
  match Typing.bv_width t with Some _ => if Nat.eqb (length (t :: r)) 1 then Some t else None | None => None end.
Proof. reflexivity. Qed.
Lemma tapp_bvneg g t r : type_app g (lit "bvneg") (t :: r) =
  match Typing.bv_width t with Some _ => if Nat.eqb (length (t :: r)) 1 then Some t else None | None => None end.
Proof. reflexivity. Qed.
Lemma tapp_bvnand g t r : type_app g (lit "bvnand") (t :: r) =
  match Typing.bv_width t with Some _ => if Nat.leb 2 (length (t :: r)) && all_eq t (t :: r) then Some t else None | None => None end.
Proof. reflexivity. Qed.
Lemma tapp_bvcomp g t r : type_app g (lit "bvcomp") (t :: r) =
  match Typing.bv_width t with Some _ => if Nat.eqb (length (t :: r)) 2 && all_eq t (t :: r) then Some (sBV 1) else None | None => None end.
Proof. reflexivity. Qed.

(* ---------- sorts ---------- *)
Lemma bv_width_sBV n : Typing.bv_width (sBV n) = Some n.
Proof. unfold sBV. cbn [Typing.bv_width]. change (Typing.is (lit "_") "_" && Typing.is (lit "BitVec") "BitVec") with true. apply dec_of_to_dec. Qed.

Lemma all_eq_cons s t r : all_eq s (t :: r) = sexp_eqb s t && all_eq s r.
Proof. reflexivity. Qed.

Lemma all_eq_1 s t : all_eq s [t] = true -> t = s.
Proof. rewrite all_eq_cons. intros H. apply andb_true_iff in H as [H _]. symmetry. now apply sexp_eqb_eq. Qed.

Lemma all_eq_2 s t1 t2 : all_eq s [t1; t2] = true -> t1 = s /\ t2 = s.
Proof.
  rewrite !all_eq_cons. intros H. apply andb_true_iff in H as [H1 H2]. apply andb_true_iff in H2 as [H2 _].
  split; symmetry; now apply sexp_eqb_eq.
Qed.

Lemma all_eq_same s : all_eq s [s; s] = true.
Proof. rewrite !all_eq_cons, sexp_eqb_refl. reflexivity. Qed.

(* ---------- not ---------- *)
Lemma type_not_inv g args s :
  type_of g (T (L (lit "not") :: args)) = Some s ->
  exists x, args = [x] /\ type_of g x = Some sBool /\ s = sBool.
Proof.
  intros H. apply type_op_inv in H as (ts & Ha & Hs); [|plain].
  destruct ts as [|t r]; [discriminate Hs|]. rewrite tapp_not in Hs.
  destruct (Nat.eqb (length (t :: r)) 1) eqn:El; [|discriminate Hs].
  destruct (all_eq sBool (t :: r)) eqn:Ee; [|discriminate Hs]. injection Hs as <-.
  destruct r as [|? ?]; [|discriminate El]. apply all_eq_1 in Ee. subst t.
  apply type_args_1 in Ha as (x & -> & Hx). now exists x.
Qed.

Lemma type_not_intro g x : type_of g x = Some sBool -> type_of g (T [L (lit "not"); x]) = Some sBool.
Proof. intros H. rewrite (type_op_intro g _ _ [sBool]); [reflexivity | plain | now apply type_args_intro1]. Qed.

(* ---------- recognisers of indexed operators ---------- *)
Lemma indexed_head_ty g h name cnt args s :
  is_indexed_operator h name cnt = true ->
  type_of g (T (h :: args)) = Some s ->
  exists idx, h = T (L (lit "_") :: L (lit name) :: idx) /\ length idx = cnt.
Proof.
  intros Hi Hev. destruct h as [s0 | l]; [discriminate|]. cbn [is_indexed_operator] in Hi.
  rewrite (Nat.add_comm cnt 2) in Hi.
  destruct l as [| [u | ?] [| [op | ?] idx]]; cbn in Hi; try discriminate; cbn [type_of] in Hev; try discriminate.
  destruct (iss u "_") eqn:Eu; cbn in Hi; [|discriminate].
  apply iss_eq in Eu. subst u.
  apply andb_true_iff in Hi as [H1 H2]. apply str_eqb_eq in H1. subst op.
  exists idx. split; [reflexivity|]. apply Nat.eqb_eq in H2. lia.
Qed.
