(* Sort preservation of the merge of nested extensions and of the extraction
   from a zero extension. *)
From Coq Require Import ZifyBool.
From DD Require Import Spec.Typing Model.Rewrites Proofs.Rw.DigitsRT Proofs.Rw.EvalBase Proofs.Rw.BoolRw
  Proofs.Rw.BvRw3 Proofs.Rw.TypeBase Proofs.Rw.SortRw2.
Local Open Scope list_scope.

Definition ext_typing (op : string) : Prop :=
  forall s t, type_indexed (lit op) [s] [t] =
    match dec_of s with Some k => match Typing.bv_width t with Some w => Some (sBV (w + k)) | None => None end | None => None end.

Lemma merge_step_ty g op fuel e acc k inner s :
  merge_ext (S fuel) op e acc = Some (k, inner) -> type_of g e = Some s ->
  (is_indexed_app e op 1 = false /\ k = acc /\ inner = e) \/
  (exists si ni a, e = T [T [L (lit "_"); L (lit op); L si]; a] /\ dec_of si = Some ni /\
                   merge_ext fuel op a (acc + Z.of_N ni)%Z = Some (k, inner)).
Proof.
  intros Hm Hty. cbn [merge_ext] in Hm. destruct (is_indexed_app e op 1) eqn:E.
  - right. destruct e as [? | [| h args]]; try discriminate E. cbn [is_indexed_app] in E.
    destruct (indexed_head_ty_1 g h op args s E Hty) as (i & ->).
    destruct args as [|a rest]; [discriminate Hm|]. rewrite get_indices_1 in Hm.
    destruct (int_of i) as [iz|] eqn:Ei; [|discriminate Hm].
    apply int_of_inv in Ei as (si & ni & -> & Hs & ->).
    apply type_idx1_inv in Hty as (si' & a' & ta & E1 & E2 & _ & _). injection E2 as <- ->.
    exists si, ni, a. auto.
  - left. injection Hm as <- <-. auto.
Qed.

Lemma merge_ty g op : ext_typing op -> forall fuel e acc k inner s w,
  merge_ext fuel op e acc = Some (k, inner) -> type_of g e = Some s -> Typing.bv_width s = Some w ->
  exists j si wi, k = (acc + Z.of_N j)%Z /\ type_of g inner = Some si /\ Typing.bv_width si = Some wi /\ w = (wi + j)%N.
Proof.
  intros Hop. induction fuel as [|fuel IH]; intros e acc k inner s w Hm Hty Hw.
  - cbn in Hm. injection Hm as <- <-. exists 0%N, s, w. repeat split; [lia | exact Hty | exact Hw | lia].
  - destruct (merge_step_ty g _ fuel e acc k inner s Hm Hty) as [(_ & -> & ->) | (si & ni & a & -> & Hs & Hm')].
    + exists 0%N, s, w. repeat split; [lia | exact Hty | exact Hw | lia].
    + apply type_idx1_inv in Hty as (si' & a' & ta & E1 & E2 & Ha & Ht). injection E1 as <-. injection E2 as <-.
      rewrite Hop, Hs in Ht. destruct (Typing.bv_width ta) as [wa|] eqn:Ewa; [|discriminate Ht].
      injection Ht as <-. rewrite bv_width_sBV in Hw. injection Hw as <-.
      destruct (IH a _ k inner ta wa Hm' Ha Ewa) as (j & sti & wi & -> & Hi & Hwi & ->).
      exists (ni + j)%N, sti, wi. repeat split; [lia | exact Hi | exact Hwi | lia].
Qed.

Lemma type_idx_head_1 g op j a ta :
  type_of g a = Some ta ->
  type_of g (T [idx_head op [Z.of_N j]; a]) = type_indexed (lit op) [to_dec j] [ta].
Proof.
  intros Ha. unfold idx_head, lf. cbn [map]. rewrite z_to_dec_of_N. now apply type_idx1_intro.
Qed.
Lemma type_idx_head_2 g op i j a ta :
  type_of g a = Some ta ->
  type_of g (T [idx_head op [Z.of_N i; Z.of_N j]; a]) = type_indexed (lit op) [to_dec i; to_dec j] [ta].
Proof.
  intros Ha. unfold idx_head, lf. cbn [map]. rewrite !z_to_dec_of_N. now apply type_idx2_intro.
Qed.

Lemma merge_top g op e a rest h l e' s :
  ext_typing op -> e = T (h :: a :: rest) ->
  is_indexed_app e op 1 = true ->
  match merge_ext (size e) op e 0 with
  | Some (k, inner) => Some [T [idx_head op [k]; inner]]
  | None => None
  end = Some l -> In e' l -> type_of g e = Some s -> type_of g e' = Some s.
Proof.
  intros Hop He Happ Hrw Hin Hty.
  destruct (merge_ext (size e) op e 0) as [[k inner]|] eqn:Em; [|discriminate Hrw].
  injection Hrw as <-. destruct Hin as [<- | []].
  assert (Hsz : exists f, size e = S f) by (rewrite He; cbn [size]; eauto). destruct Hsz as (f & Hf).
  rewrite Hf in Em.
  destruct (merge_step_ty g _ f e 0 k inner s Em Hty) as [(Hno & _ & _) | (si & ni & a0 & E0 & Hs & Hm')].
  - rewrite Happ in Hno. discriminate Hno.
  - pose proof Hty as Hty0. rewrite E0 in Hty.
    apply type_idx1_inv in Hty as (si' & a' & ta & E1 & E2 & Ha & Ht). injection E1 as <-. injection E2 as <-.
    rewrite Hop, Hs in Ht. destruct (Typing.bv_width ta) as [wa|] eqn:Ewa; [|discriminate Ht].
    injection Ht as <-.
    destruct (merge_ty g op Hop f a0 _ k inner ta wa Hm' Ha Ewa) as (j & sti & wi & -> & Hi & Hwi & ->).
    replace (0 + Z.of_N ni + Z.of_N j)%Z with (Z.of_N (ni + j)) by lia.
    rewrite (type_idx_head_1 g op _ inner sti Hi), Hop, dec_of_to_dec, Hwi.
    f_equal. apply sBV_eq. lia.
Qed.

Theorem bv_merge_extend_sort : forall g e e' l s,
  rw_bv_merge_extend e = Some l -> In e' l -> type_of g e = Some s -> type_of g e' = Some s.
Proof.
  intros g e e' l s Hrw Hin Hty. unfold rw_bv_merge_extend in Hrw.
  destruct e as [s0 | [| h [| a rest]]]; try (no_prop Hrw Hin).
  - destruct (is_indexed_app (T [h]) "zero_extend" 1 || is_indexed_app (T [h]) "sign_extend" 1);
      [discriminate Hrw | no_prop Hrw Hin].
  - set (e := T (h :: a :: rest)) in *.
    destruct (is_indexed_app e "zero_extend" 1 && is_indexed_app a "zero_extend" 1) eqn:Ez.
    + apply andb_true_iff in Ez as [Ez _].
      exact (merge_top g "zero_extend" e a rest h l e' s tidx_zext eq_refl Ez Hrw Hin Hty).
    + destruct (is_indexed_app e "sign_extend" 1 && is_indexed_app a "sign_extend" 1) eqn:Es; [|no_prop Hrw Hin].
      apply andb_true_iff in Es as [Es _].
      exact (merge_top g "sign_extend" e a rest h l e' s tidx_sext eq_refl Es Hrw Hin Hty).
Qed.

(* ---------- extraction from a zero extension ---------- *)
Theorem bv_extract_zext_sort : forall bw g e e' l s,
  (forall t st, type_of g t = Some st -> bw t = (-1)%Z \/ Some (Z.to_N (bw t)) = Typing.bv_width st) ->
  rw_bv_extract_zext bw e = Some l -> In e' l -> type_of g e = Some s -> type_of g e' = Some s.
Proof.
  intros bw g e e' l s Hbw Hrw Hin Hty. unfold rw_bv_extract_zext in Hrw.
  destruct e as [s0 | [| h [| inner rest]]]; try (no_prop Hrw Hin).
  destruct (is_indexed_operator h "extract" 2) eqn:Ex; cbn [andb] in Hrw; [|no_prop Hrw Hin].
  destruct (is_indexed_app inner "zero_extend" 1) eqn:Ez; [|no_prop Hrw Hin].
  destruct (indexed_head_ty_2 g h _ _ s Ex Hty) as (i & j & ->).
  apply type_idx2_inv in Hty as (si & sj & a & tinner & -> & -> & E & Hinner & Hs). injection E as <- ->.
  rewrite tidx_extract in Hs.
  destruct (dec_of si) as [ni|] eqn:Hsi; [|discriminate Hs].
  destruct (dec_of sj) as [nj|] eqn:Hsj; [|discriminate Hs].
  destruct (Typing.bv_width tinner) as [W|] eqn:EW; [|discriminate Hs].
  destruct (N.leb nj ni && N.ltb ni W) eqn:Eji; [|discriminate Hs]. injection Hs as <-.
  apply andb_true_iff in Eji as [Hji Hiw]. apply N.leb_le in Hji. apply N.ltb_lt in Hiw.
  destruct inner as [? | [| hz argsz]]; try discriminate Ez. cbn [is_indexed_app] in Ez.
  destruct (indexed_head_ty_1 g hz _ _ _ Ez Hinner) as (k & ->).
  apply type_idx1_inv in Hinner as (sk & term & tt & -> & -> & Hterm & Ht).
  rewrite tidx_zext in Ht. destruct (dec_of sk) as [nk|] eqn:Hsk; [|discriminate Ht].
  destruct (Typing.bv_width tt) as [wt|] eqn:Ewt; [|discriminate Ht]. injection Ht as <-.
  rewrite bv_width_sBV in EW. injection EW as <-.
  cbn [args_of] in Hrw.
  destruct (Z.leb (bw term) 0) eqn:Ew0; [no_prop Hrw Hin|]. apply Z.leb_gt in Ew0.
  destruct (Hbw term tt Hterm) as [Hw | Hw]; [lia|]. rewrite Ewt in Hw. injection Hw as Hw.
  assert (Hwz : bw term = Z.of_N wt) by lia. assert (Hwt : (0 < wt)%N) by lia.
  rewrite get_indices_2 in Hrw. cbn [int_of] in Hrw. rewrite Hsi, Hsj in Hrw. rewrite Hwz in Hrw.
  destruct (Z.leb (Z.of_N wt) (Z.of_N nj)) eqn:C1.
  - injection Hrw as <-. destruct Hin as [<- | []].
    replace (Z.of_N ni - Z.of_N nj + 1)%Z with (Z.of_N (ni - nj + 1)) by lia.
    change 0%Z with (Z.of_N 0). apply type_mk_bv_const; [lia|].
    pose proof (N.pow_nonzero 2 (ni - nj + 1) ltac:(lia)). lia.
  - apply Z.leb_gt in C1. destruct (Z.ltb (Z.of_N ni) (Z.of_N wt)) eqn:C2.
    + apply Z.ltb_lt in C2. injection Hrw as <-. destruct Hin as [<- | []].
      rewrite (type_idx2_intro g _ si sj term tt Hterm), tidx_extract, Hsi, Hsj, Ewt.
      replace (N.leb nj ni && N.ltb ni wt) with true; [reflexivity|].
      symmetry. apply andb_true_iff. split; [apply N.leb_le | apply N.ltb_lt]; lia.
    + apply Z.ltb_ge in C2. injection Hrw as <-. destruct Hin as [<- | []].
      replace (Z.of_N ni - Z.of_N wt + 1)%Z with (Z.of_N (ni - wt + 1)) by lia.
      replace (Z.of_N wt - 1)%Z with (Z.of_N (wt - 1)) by lia.
      assert (Hin1 : type_of g (T [idx_head "extract" [Z.of_N (wt - 1); Z.of_N nj]; term]) =
                     Some (sBV (wt - 1 - nj + 1))).
      { rewrite (type_idx_head_2 g _ _ _ term tt Hterm), tidx_extract, !dec_of_to_dec, Ewt.
        replace (N.leb nj (wt - 1) && N.ltb (wt - 1) wt) with true; [reflexivity|].
        symmetry. apply andb_true_iff. split; [apply N.leb_le | apply N.ltb_lt]; lia. }
      rewrite (type_idx_head_1 g _ _ _ _ Hin1), tidx_zext, dec_of_to_dec, bv_width_sBV.
      f_equal. apply sBV_eq. lia.
Qed.
