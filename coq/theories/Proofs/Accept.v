(* Proofs for C09/C10: the translated decision code computes the documented rule. *)
From DD Require Import Model.Exec.

Lemma wf_match_truthy m : wf_match m = true -> truthy (v_ostr m) = match m with Some _ => true | None => false end.
Proof. destruct m as [[|c s]|]; cbn; intros H; try reflexivity; discriminate. Qed.

Lemma py_eqb_str a b : py_eqb (VStr a) (VStr b) = str_eqb a b.
Proof. reflexivity. Qed.

Lemma str_eqb_sym a b : str_eqb a b = str_eqb b a.
Proof.
  revert b; induction a as [|x a IH]; intros [|y b]; cbn; try reflexivity.
  rewrite N.eqb_sym, IH. reflexivity.
Qed.

(* matches_golden on defined records *)
Lemma matches_golden_spec io ie mo me g r :
  wf_match mo = true -> wf_match me = true ->
  matches_golden (run_of g) (run_of r) (VBool io) (VBool ie) (v_ostr mo) (v_ostr me)
  = Ok (run_ok io ie mo me g r).
Proof.
  intros Hmo Hme.
  unfold matches_golden, run_ok, stream_ok, run_of, if_, e_ne, e_not, e_or, e_notin, e_in, bind, ret.
  cbn [r_exit r_out r_err py_eqb truthy negb].
  destruct (Z.eqb (code r) (code g)) eqn:Ec; cbn [negb andb truthy]; [|reflexivity].
  destruct io, ie; cbn [negb orb andb truthy];
  destruct mo as [[|c1 s1]|]; try discriminate Hmo;
  destruct me as [[|c2 s2]|]; try discriminate Hme;
  cbn [v_ostr truthy py_in py_eqb negb orb andb];
  try reflexivity;
  repeat match goal with
  | |- context [substrb ?a ?b] => destruct (substrb a b); cbn [truthy negb andb]
  | |- context [str_eqb ?a ?b] => destruct (str_eqb a b); cbn [truthy negb andb]
  end; try reflexivity.
Qed.

Lemma execute_checked c o : unchecked c = false -> execute c (Exits o) = run_of o.
Proof. unfold execute. intros ->. reflexivity. Qed.

Theorem accept_iff_lemma c g gcc r rcc :
  wf_ccfg c = true ->
  check (cfg_of c) (run_of g) (run_of gcc) (run_of r) (run_of rcc) = Ok (accept_spec c g gcc r rcc).
Proof.
  intros Hwf. unfold wf_ccfg in Hwf.
  apply andb_prop in Hwf as [Hwf H4]. apply andb_prop in Hwf as [Hwf H3]. apply andb_prop in Hwf as [H1 H2].
  unfold check, accept_spec.
  cbn [cfg_of o_ignore_output o_ignore_out o_ignore_err o_match_out o_match_err o_cmd_cc
       o_ignore_output_cc o_match_out_cc o_match_err_cc].
  unfold if_, e_not, e_or, bind, ret, v_bool. cbn [truthy].
  assert (E1 : forall a b : bool, (if a then Ok (VBool a) else Ok (VBool b)) = Ok (VBool (a || b))).
  { intros [|] [|]; reflexivity. }
  rewrite !E1.
  rewrite (matches_golden_spec _ _ _ _ g r H1 H2).
  destruct (run_ok (ign_output c || ign_out c) (ign_output c || ign_err c) (m_out c) (m_err c) g r);
    cbn [truthy negb andb]; [|reflexivity].
  destruct (has_cc c); cbn [truthy]; [|reflexivity].
  rewrite (matches_golden_spec _ _ _ _ gcc rcc H3 H4).
  destruct (run_ok _ _ _ _ gcc rcc); reflexivity.
Qed.

(* the golden run has been validated: configured match strings occur in it *)
Definition contains_opt (m : option str) (s : str) : bool :=
  match m with Some p => substrb p s | None => true end.
Definition golden_valid (c : ccfg) (g gcc : outcome) : bool :=
  contains_opt (m_out c) (sout g) && contains_opt (m_err c) (serr g)
  && contains_opt (m_out_cc c) (sout gcc) && contains_opt (m_err_cc c) (serr gcc).

Lemma run_ok_self io ie mo me g :
  contains_opt mo (sout g) = true -> contains_opt me (serr g) = true -> run_ok io ie mo me g g = true.
Proof.
  intros H1 H2. unfold run_ok, stream_ok. rewrite Z.eqb_refl. cbn [andb].
  destruct mo, me; cbn [contains_opt] in *; rewrite ?H1, ?H2, ?str_eqb_refl, ?orb_true_r; reflexivity.
Qed.

Lemma accept_self c g gcc : golden_valid c g gcc = true -> accept_spec c g gcc g gcc = true.
Proof.
  unfold golden_valid. intros H.
  apply andb_prop in H as [H H4]. apply andb_prop in H as [H H3]. apply andb_prop in H as [H1 H2].
  unfold accept_spec. rewrite (run_ok_self _ _ _ _ g H1 H2), (run_ok_self _ _ _ _ gcc H3 H4).
  destruct (has_cc c); reflexivity.
Qed.

(* --unchecked: nothing is run (execute returns one fixed record for the golden
   and for every candidate run), so every candidate is accepted *)
Definition o_unchecked_rec : outcome := mk_outcome 0 s_unchecked s_unchecked.

Lemma execute_unchecked c b : unchecked c = true -> execute c b = run_of o_unchecked_rec.
Proof. unfold execute. intros ->. reflexivity. Qed.

Theorem unchecked_accepts_lemma c b0 b0cc b bcc :
  wf_ccfg c = true -> unchecked c = true ->
  golden_valid c o_unchecked_rec o_unchecked_rec = true ->
  check_run c (execute c b0) (execute c b0cc) b bcc = Ok true.
Proof.
  intros Hwf Hu Hv. unfold check_run. rewrite !(execute_unchecked c _ Hu).
  rewrite accept_iff_lemma by exact Hwf. rewrite accept_self by exact Hv. reflexivity.
Qed.

(* ---- C10: runs that exceed the time limit ---- *)

Lemma matches_golden_timeout g io ie mo me :
  matches_golden (run_of g) timed_out io ie mo me = Ok false.
Proof. reflexivity. Qed.

Theorem timeout_rejected_lemma c g gcc rcc :
  check (cfg_of c) (run_of g) gcc timed_out rcc = Ok false.
Proof.
  unfold check. cbn [cfg_of o_ignore_output o_ignore_out o_ignore_err o_match_out o_match_err o_cmd_cc].
  unfold if_, e_not, e_or, bind, ret, v_bool. cbn [truthy].
  destruct (ign_output c), (ign_out c), (ign_err c); cbn [truthy]; rewrite matches_golden_timeout; reflexivity.
Qed.

Theorem timeout_cc_rejected_lemma c g gcc r b :
  has_cc c = true ->
  check (cfg_of c) (run_of g) (run_of gcc) r timed_out = Ok b -> b = false.
Proof.
  intros Hcc. unfold check.
  cbn [cfg_of o_ignore_output o_ignore_out o_ignore_err o_match_out o_match_err o_cmd_cc
       o_ignore_output_cc o_match_out_cc o_match_err_cc].
  rewrite Hcc.
  unfold if_, e_not, e_or, bind, ret, v_bool. cbn [truthy].
  destruct (ign_output c), (ign_out c), (ign_err c); cbn [truthy];
  match goal with |- context [matches_golden (run_of g) r ?a ?b ?x ?y] =>
    destruct (matches_golden (run_of g) r a b x y) as [[|]|] end; cbn [truthy negb];
  rewrite ?matches_golden_timeout; cbn [truthy negb]; intros H; inversion H; reflexivity.
Qed.

(* "unless the golden run ended the same way": golden and candidate both timed
   out and no match string is configured *)
Theorem same_way_accepted_lemma io ie :
  matches_golden timed_out timed_out (VBool io) (VBool ie) VNone VNone = Ok true.
Proof. destruct io, ie; reflexivity. Qed.

(* with a match string on a stream that is not ignored the comparison raises
   TypeError on a timed-out candidate (both strategies catch it = reject); after
   the repair of do_golden_runs this needs a timed-out golden run, which stops
   ddSMT before any test *)
Theorem timeout_match_raises c s ie me :
  matches_golden timed_out timed_out (VBool false) ie (VStr (c :: s)) me = Exn TypeError.
Proof. reflexivity. Qed.
