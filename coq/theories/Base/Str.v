(* Characters are Unicode code points (N); strings are lists of them.
   ddSMT's lexical decisions only ever test ASCII characters; Python slicing is
   by code point, which [list N] reproduces. *)
From Coq Require Export List NArith ZArith Bool Lia.
Export ListNotations.

Definition char := N.
Definition str := list N.

Definition cTAB : char := 9%N.
Definition cLF  : char := 10%N.
Definition cCR  : char := 13%N.
Definition cSP  : char := 32%N.
Definition cDQ  : char := 34%N.   (* double quote *)
Definition cLP  : char := 40%N.
Definition cRP  : char := 41%N.
Definition cSEMI: char := 59%N.
Definition cBAR : char := 124%N.

Definition ceqb (a b : char) : bool := N.eqb a b.

Fixpoint str_eqb (a b : str) : bool :=
  match a, b with
  | [], [] => true
  | x :: a', y :: b' => N.eqb x y && str_eqb a' b'
  | _, _ => false
  end.

Lemma str_eqb_eq a b : str_eqb a b = true <-> a = b.
Proof.
  revert b; induction a as [|x a IH]; intros [|y b]; cbn [str_eqb]; split; intro H;
    try reflexivity; try discriminate.
  - apply andb_true_iff in H as [H1 H2]. apply N.eqb_eq in H1. apply IH in H2. congruence.
  - injection H as -> ->. rewrite N.eqb_refl. cbn. now apply IH.
Qed.

Lemma str_eqb_refl a : str_eqb a a = true.
Proof. now apply str_eqb_eq. Qed.

(* white space recognised by the reader: space, tab, LF, CR *)
Definition is_ws (c : char) : bool :=
  N.eqb c cSP || N.eqb c cTAB || N.eqb c cLF || N.eqb c cCR.

(* characters that end an atom without being consumed *)
Definition is_brk (c : char) : bool :=
  N.eqb c cLP || N.eqb c cRP || N.eqb c cSEMI.

Fixpoint spaces (n : nat) : str :=
  match n with O => [] | S k => cSP :: spaces k end.
