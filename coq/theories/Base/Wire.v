(* Wire format shared by the correspondence drivers: a value is an integer or a
   list of values.  Both the OCaml driver (extracted code) and the in-Coq
   vm_compute shard evaluate [run : Z -> wire -> wire]. *)
From DD Require Export Base.Sexp.

Inductive wire := WN (n : Z) | WL (l : list wire).

Definition w_str (s : str) : wire := WL (map (fun c => WN (Z.of_N c)) s).
Definition w_bool (b : bool) : wire := WN (if b then 1 else 0)%Z.
Definition w_nat (n : nat) : wire := WN (Z.of_nat n).

Fixpoint w_sexp (e : sexp) : wire :=
  match e with
  | L s => WL [WN 0%Z; w_str s]
  | T l => WL (WN 1%Z :: map w_sexp l)
  end.
Definition w_sexps (l : list sexp) : wire := WL (map w_sexp l).

Definition r_char (w : wire) : char := match w with WN n => Z.to_N n | WL _ => 0%N end.
Definition r_str (w : wire) : str := match w with WL l => map r_char l | WN _ => [] end.
Definition r_Z (w : wire) : Z := match w with WN n => n | WL _ => 0%Z end.
Definition r_nat (w : wire) : nat := Z.to_nat (r_Z w).
Definition r_bool (w : wire) : bool := negb (Z.eqb (r_Z w) 0).
Definition r_list (w : wire) : list wire := match w with WL l => l | WN _ => [] end.

Fixpoint r_sexp (w : wire) : sexp :=
  match w with
  | WL (WN 0%Z :: s :: nil) => L (r_str s)
  | WL (WN _ :: l) => T (map r_sexp l)
  | _ => L []
  end.
Definition r_sexps (w : wire) : list sexp := map r_sexp (r_list w).

Definition w_err : wire := WL [WN (-1)%Z].
