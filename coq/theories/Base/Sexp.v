(* Pure s-expression structure ("shape") and its nested induction principle. *)
From DD Require Export Base.Str.

Inductive sexp := L (s : str) | T (l : list sexp).

Section SexpInd.
  Variable P : sexp -> Prop.
  Hypothesis HL : forall s, P (L s).
  Hypothesis HT : forall l, Forall P l -> P (T l).
  Fixpoint sexp_ind' (e : sexp) : P e :=
    match e with
    | L s => HL s
    | T l => HT l ((fix go (l : list sexp) : Forall P l :=
                      match l with
                      | [] => Forall_nil _
                      | x :: xs => Forall_cons _ (sexp_ind' x) (go xs)
                      end) l)
    end.
End SexpInd.

Fixpoint sexp_eqb (a b : sexp) : bool :=
  match a, b with
  | L s, L t => str_eqb s t
  | T l, T m =>
      (fix go (l m : list sexp) : bool :=
         match l, m with
         | [], [] => true
         | x :: l', y :: m' => sexp_eqb x y && go l' m'
         | _, _ => false
         end) l m
  | _, _ => false
  end.

Definition is_leaf (e : sexp) : bool := match e with L _ => true | T _ => false end.

(* number of nodes (leaves and lists) *)
Fixpoint size (e : sexp) : nat :=
  match e with
  | L _ => 1
  | T l => S (fold_right (fun x a => size x + a) 0 l)
  end.
Definition sizes (l : list sexp) : nat := fold_right (fun x a => size x + a) 0 l.
