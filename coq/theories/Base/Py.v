(* A small shallow embedding of the Python fragment the translated decision
   code uses: values, truthiness, exceptions as a result monad, comparison and
   membership operators.  No proofs here. *)
From DD Require Export Base.Str.

Inductive exn := IndexError | AttributeError | TypeError | AssertionError | ValueError | KeyError | StopIter.
Inductive res (A : Type) := Ok (a : A) | Exn (k : exn).
Arguments Ok {A} a.
Arguments Exn {A} k.

Definition bind {A B} (x : res A) (f : A -> res B) : res B :=
  match x with Ok a => f a | Exn k => Exn k end.
Notation "x >>= f" := (bind x f) (at level 50, left associativity).

Inductive pyval :=
| VNone
| VBool (b : bool)
| VInt (z : Z)
| VStr (s : str)
| VList (n : nat).          (* a list of which only the length matters (argv) *)

Definition truthy (v : pyval) : bool :=
  match v with
  | VNone => false
  | VBool b => b
  | VInt z => negb (Z.eqb z 0)
  | VStr s => match s with [] => false | _ => true end
  | VList n => match n with O => false | _ => true end
  end.

Definition py_eqb (a b : pyval) : bool :=
  match a, b with
  | VNone, VNone => true
  | VBool x, VBool y => Bool.eqb x y
  | VInt x, VInt y => Z.eqb x y
  | VBool x, VInt y | VInt y, VBool x => Z.eqb (if x then 1 else 0) y
  | VStr x, VStr y => str_eqb x y
  | VList x, VList y => Nat.eqb x y      (* only used for identical argv *)
  | _, _ => false
  end.

Fixpoint prefixb (p s : str) : bool :=
  match p, s with
  | [], _ => true
  | a :: p', b :: s' => N.eqb a b && prefixb p' s'
  | _ :: _, [] => false
  end.
Fixpoint substrb (p s : str) : bool :=
  prefixb p s || match s with [] => false | _ :: s' => substrb p s' end.

(* a in b *)
Definition py_in (a b : pyval) : res pyval :=
  match a, b with
  | VStr p, VStr s => Ok (VBool (substrb p s))
  | _, _ => Exn TypeError       (* argument of type NoneType is not iterable, ... *)
  end.

Definition ret {A} (a : A) : res A := Ok a.
Definition e_eq (a b : res pyval) : res pyval := a >>= fun x => b >>= fun y => ret (VBool (py_eqb x y)).
Definition e_ne (a b : res pyval) : res pyval := a >>= fun x => b >>= fun y => ret (VBool (negb (py_eqb x y))).
Definition e_in (a b : res pyval) : res pyval := a >>= fun x => b >>= fun y => py_in x y.
Definition e_notin (a b : res pyval) : res pyval :=
  a >>= fun x => b >>= fun y => py_in x y >>= fun v => ret (VBool (negb (truthy v))).
Definition e_not (a : res pyval) : res pyval := a >>= fun x => ret (VBool (negb (truthy x))).
Definition e_or (a b : res pyval) : res pyval := a >>= fun x => if truthy x then ret x else b.
Definition e_and (a b : res pyval) : res pyval := a >>= fun x => if truthy x then b else ret x.
Definition if_ {A} (c : res pyval) (t e : res A) : res A := c >>= fun v => if truthy v then t else e.

(* subprocess result as checker.RunInfo(exit, out, err, runtime) *)
Record runinfo := mk_run { r_exit : pyval; r_out : pyval; r_err : pyval }.
