(* What ddsmt.nodes.Node is: an identity, a cached hash and data (a string or a
   tuple of nodes).  Leaves always carry hash(data), so only tuples store it.
   The hash functions are arbitrary (Python randomises them per interpreter):
   nothing is assumed about them.  Node construction threads the allocator
   (the shared multiprocessing.Value counter).  No proofs here. *)
From DD Require Export Base.Sexp.

Inductive node := NL (id : Z) (s : str) | NT (id : Z) (h : Z) (l : list node).

Section NodeInd.
  Variable P : node -> Prop.
  Hypothesis HL : forall i s, P (NL i s).
  Hypothesis HT : forall i h l, Forall P l -> P (NT i h l).
  Fixpoint node_ind' (n : node) : P n :=
    match n with
    | NL i s => HL i s
    | NT i h l => HT i h l ((fix go (l : list node) : Forall P l :=
                      match l with
                      | [] => Forall_nil _
                      | x :: xs => Forall_cons _ (node_ind' x) (go xs)
                      end) l)
    end.
End NodeInd.

Definition nid (n : node) : Z := match n with NL i _ => i | NT i _ _ => i end.
Definition n_is_leaf (n : node) : bool := match n with NL _ _ => true | NT _ _ _ => false end.
Definition children (n : node) : list node := match n with NL _ _ => [] | NT _ _ l => l end.

Fixpoint shape (n : node) : sexp :=
  match n with
  | NL _ s => L s
  | NT _ _ l => T (map shape l)
  end.

(* all identities, in depth-first pre-order *)
Fixpoint ids (n : node) : list Z :=
  match n with
  | NL i _ => [i]
  | NT i _ l => i :: flat_map ids l
  end.
Definition ids_l (l : list node) : list Z := flat_map ids l.

Fixpoint nsize (n : node) : nat :=
  match n with
  | NL _ _ => 1
  | NT _ _ l => S (fold_right (fun x a => nsize x + a) 0 l)
  end.
Definition nsizes (l : list node) : nat := fold_right (fun x a => nsize x + a) 0 l.

Section Hash.
  Variable hstr : str -> Z.
  Variable htup : list Z -> Z.

  Definition nhash (n : node) : Z := match n with NL _ s => hstr s | NT _ h _ => h end.

  (* structural hash of a shape: what a freshly built tree carries *)
  Fixpoint shash (e : sexp) : Z :=
    match e with
    | L s => hstr s
    | T l => htup (map shash l)
    end.

  (* Node(str) and Node( *children ): the counter is incremented first *)
  Definition mk_leaf (next : Z) (s : str) : node * Z := (NL (next + 1) s, (next + 1)%Z).
  Definition mk_tuple (next : Z) (l : list node) : node * Z :=
    (NT (next + 1) (htup (map nhash l)) l, (next + 1)%Z).

  (* build a fresh tree from a shape (what the parser does, post-order ids) *)
  Fixpoint build (next : Z) (e : sexp) : node * Z :=
    match e with
    | L s => mk_leaf next s
    | T l =>
        let '(cs, next') :=
          (fix go (next : Z) (l : list sexp) : list node * Z :=
             match l with
             | [] => ([], next)
             | x :: xs => let '(n, nx) := build next x in
                          let '(ns, nx') := go nx xs in (n :: ns, nx')
             end) next l in
        mk_tuple next' cs
    end.

  (* every cached hash is the structural hash of the subtree *)
  Fixpoint hash_ok (n : node) : bool :=
    match n with
    | NL _ _ => true
    | NT _ h l => Z.eqb h (htup (map nhash l)) && forallb hash_ok l
    end.
End Hash.
