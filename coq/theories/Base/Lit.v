(* String literals for generated tables: Coq strings converted to code-point lists. *)
From Coq Require Export String Ascii.
From DD Require Export Base.Str.
Fixpoint lit (s : string) : str :=
  match s with
  | EmptyString => []
  | String a r => N.of_nat (nat_of_ascii a) :: lit r
  end.
