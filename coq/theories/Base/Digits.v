(* Decimal / binary / hexadecimal numerals as code-point strings. *)
From DD Require Export Base.Str.

Definition is_digit (c : char) : bool := N.leb 48 c && N.leb c 57.
Definition digit_val (c : char) : N := (c - 48)%N.

(* int(s) for a non-empty all-digit string (Python: str.isdigit / regex [0-9]+) *)
Definition all_digits (s : str) : bool := match s with [] => false | _ => forallb is_digit s end.
Definition dec_val (s : str) : N := fold_left (fun a c => (a * 10 + digit_val c)%N) s 0%N.
Definition dec_of (s : str) : option N := if all_digits s then Some (dec_val s) else None.

(* str(n) *)
Fixpoint to_dec_aux (fuel : nat) (n : N) (acc : str) : str :=
  match fuel with
  | O => acc
  | S k => let d := (48 + n mod 10)%N in
           if N.ltb n 10 then d :: acc else to_dec_aux k (n / 10)%N (d :: acc)
  end.
Definition to_dec (n : N) : str := to_dec_aux (S (N.to_nat (N.log2 n))) n [].

Definition is_bin (c : char) : bool := N.eqb c 48 || N.eqb c 49.
Definition bin_val (s : str) : N := fold_left (fun a c => (a * 2 + digit_val c)%N) s 0%N.
Definition hex_digit (c : char) : option N :=
  if is_digit c then Some (c - 48)%N
  else if N.leb 97 c && N.leb c 102 then Some (c - 87)%N
  else if N.leb 65 c && N.leb c 70 then Some (c - 55)%N
  else None.
Definition is_hex (c : char) : bool := match hex_digit c with Some _ => true | None => false end.
Definition hex_val (s : str) : N :=
  fold_left (fun a c => (a * 16 + match hex_digit c with Some d => d | None => 0 end)%N) s 0%N.

Definition cHASH : char := 35%N.
Definition c_b : char := 98%N.
Definition c_x : char := 120%N.
Definition c_v : char := 118%N.
Definition cDOT : char := 46%N.
