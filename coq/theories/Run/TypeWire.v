From DD Require Import Base.Wire Spec.Typing.
Definition w_osexp (o : option sexp) : wire := match o with Some e => WL [w_sexp e] | None => WL [] end.
Definition dispatch_type (f : Z) (w : wire) : wire :=
  match f, w with
  | 50, WL [cmds; bound; t] =>
      let g := decl_env (r_sexps cmds) in
      let bs := map (fun p => match p with WL [n; s] => (r_str n, r_sexp s) | _ => ([], L []) end) (r_list bound) in
      w_osexp (type_of (bind_vars g bs) (r_sexp t))
  | _, _ => w_err
  end%Z.

From DD Require Import Model.Smtlib.
Definition r_info (lk dtc : wire) : info :=
  mk_info (map (fun p => match p with WL [n; WL [s]] => (r_str n, Some (r_sexp s)) | WL [n; _] => (r_str n, None) | _ => ([], None) end) (r_list lk))
          (map (fun p => match p with WL [n; s] => (r_str n, r_sexp s) | _ => ([], L []) end) (r_list dtc)).
Definition dispatch_smtlib (f : Z) (w : wire) : wire :=
  match f, w with
  | 51, WL [lk; dtc; idx; t] => w_osexp (get_sort (r_info lk dtc) (r_bool idx) (r_sexp t))
  | 52, WL [lk; dtc; t] => WN (get_bv_width (r_info lk dtc) (r_sexp t))
  | _, _ => w_err
  end%Z.
