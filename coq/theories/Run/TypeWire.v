From DD Require Import Base.Wire Spec.Typing.
Definition w_osexp (o : option sexp) : wire := match o with Some e => WL [w_sexp e] | None => WL [] end.
Definition dispatch_type (f : Z) (w : wire) : wire :=
  match f, w with
  | 50, WL [cmds; bound; t] =>
      let g := decl_env (r_sexps cmds) in
      let bs := map (fun p => match p with WL [n; s] => (r_str n, r_sexp s) | _ => ([], L []) end) (r_list bound) in
      w_osexp (type_of (bind_vars g bs) (r_sexp t))
  | _, _ => w_err
  end%Z.
