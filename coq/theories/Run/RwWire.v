From DD Require Import Base.Wire Spec.Semantics Model.Smtlib Model.Rewrites.
Local Open Scope list_scope.

Definition w_value (v : value) : wire :=
  match v with
  | VB b => WL [WN 0%Z; w_bool b]
  | VI z => WL [WN 1%Z; WN z]
  | VV w n => WL [WN 2%Z; WN (Z.of_N w); WN (Z.of_N n)]
  end.
Definition r_value (w : wire) : value :=
  match w with
  | WL [WN 0%Z; b] => VB (r_bool b)
  | WL [WN 1%Z; WN z] => VI z
  | WL [WN _; WN a; WN b] => VV (Z.to_N a) (Z.to_N b)
  | _ => VB false
  end.
Definition w_ovalue (o : option value) : wire := match o with Some v => WL [w_value v] | None => WL [] end.
Definition w_olist (o : option (list sexp)) : wire := match o with Some l => WL [WN 1%Z; w_sexps l] | None => WL [WN 0%Z] end.

Definition r_bw (w : wire) : sexp -> Z :=
  fun t => match find (fun p => match p with WL [x; _] => sexp_eqb (r_sexp x) t | _ => false end) (r_list w) with
           | Some (WL [_; WN z]) => z
           | _ => (-1)%Z
           end.
Definition r_isbv (w : wire) : sexp -> bool := fun t => existsb (fun x => sexp_eqb (r_sexp x) t) (r_list w).

Definition dispatch_rw (f : Z) (w : wire) : wire :=
  match f, w with
  | 59, WL [rho; t] =>
      w_ovalue (eval (map (fun p => match p with WL [n; v] => (r_str n, r_value v) | _ => ([], VB false) end) (r_list rho)) (r_sexp t))
  | _, WL [t; bws; bvs] =>
      let e := r_sexp t in
      let bw := r_bw bws in
      match f with
      | 60 => w_olist (rw_bool_double_neg e)
      | 61 => w_olist (rw_bool_de_morgan e)
      | 62 => w_olist (rw_bool_false_eq e)
      | 63 => w_olist (rw_bool_implication e)
      | 64 => w_olist (rw_bool_xor_binary e)
      | 65 => w_olist (rw_arith_negate_relation e)
      | 66 => w_olist (rw_bv_normalize e)
      | 67 => w_olist (rw_bv_double_neg e)
      | 68 => w_olist (rw_bv_elim_bvcomp bw e)
      | 69 => w_olist (rw_bv_eval_extend e)
      | 70 => w_olist (rw_bv_extract_const e)
      | 71 => w_olist (rw_bv_extract_zext bw e)
      | 72 => w_olist (rw_bv_ite_to_bvcomp (r_isbv bvs) e)
      | 73 => w_olist (rw_bv_reflexive_nand e)
      | 74 => w_olist (rw_bv_merge_extend e)
      | _ => w_err
      end
  | _, _ => w_err
  end%Z.
