(* Monitor: replays the action sequence reconstructed from the recorded history
   of a real run in the scheduler model (Model/SchedHier.v, input := Z = digest
   index, redup := identity on digests). *)
From DD Require Import Base.Wire Model.SchedHier.
From Coq Require Import ZArith.
Local Open Scope list_scope.

Definition r_action (w : wire) : action :=
  match w with
  | WL [WN 0%Z] => AGen
  | WL [WN 1%Z] => APStop
  | WL [WN 2%Z; WN i; b] => AWork (Z.to_nat i) (r_bool b)
  | WL [WN 3%Z; WN i] => AConsume (Z.to_nat i)
  | _ => AEndSweep
  end.

Definition r_cands (w : wire) : nat -> Z -> list (nat * Z) :=
  fun p b =>
    match find (fun e => match e with WL [WN p'; WN b'; _] => Nat.eqb (Z.to_nat p') p && Z.eqb b' b | _ => false end) (r_list w) with
    | Some (WL [_; _; l]) => map (fun x => match x with WL [WN n; WN c] => (Z.to_nat n, c) | _ => (0, 0%Z) end) (r_list l)
    | _ => []
    end.
Definition r_accept (w : wire) : Z -> bool :=
  fun c => existsb (fun e => match e with WL [WN c'; b] => Z.eqb c' c && r_bool b | _ => false end) (r_list w).

Definition w_state (s : hst Z) : wire :=
  WL [w_nat (pass Z s); w_nat (skip Z s); w_bool (fresh Z s); WN (cur Z s); w_bool (finished Z s); w_bool (abort Z s)].

(* returns (index of the first action the model does not allow or -1, state after every AEndSweep, final state, writes oldest first) *)
Fixpoint replay_trace (cands : nat -> Z -> list (nat * Z)) (accept : Z -> bool) (np : nat)
         (s : hst Z) (l : list action) (k : Z) (acc : list wire) : Z * list wire * hst Z :=
  match l with
  | [] => ((-1)%Z, rev acc, s)
  | a :: r =>
      match exec Z cands accept (fun x => x) np s a with
      | Some s' => replay_trace cands accept np s' r (k + 1)%Z (match a with AEndSweep => w_state s' :: acc | _ => acc end)
      | None => (k, rev acc, s)
      end
  end.

Definition dispatch_sched (f : Z) (w : wire) : wire :=
  match f, w with
  | 80, WL [WN np; WN i0; tbl; acc; acts] =>
      let '(bad, bounds, s) := replay_trace (r_cands tbl) (r_accept acc) (Z.to_nat np) (init Z i0) (map r_action (r_list acts)) 0%Z [] in
      WL [WN bad; WL bounds; w_state s; WL (map (fun x => WN x) (rev (writes Z s)))]
  | _, _ => w_err
  end%Z.

(* ---- ddmin: one task generator ---- *)
From DD Require Import Model.SchedDdmin.
Definition r_daction (w : wire) : daction :=
  match w with
  | WL [WN 0%Z] => DGen
  | WL [WN 2%Z; WN i; b] => DWork (Z.to_nat i) (r_bool b)
  | WL [WN 3%Z; WN i] => DConsume (Z.to_nat i)
  | _ => DEndRound
  end.
(* table: [k, base, [cands]] *)
Definition r_dcands (w : wire) : nat -> Z -> list Z :=
  fun k b =>
    match find (fun e => match e with WL [WN k'; WN b'; _] => Nat.eqb (Z.to_nat k') k && Z.eqb b' b | _ => false end) (r_list w) with
    | Some (WL [_; _; l]) => map r_Z (r_list l)
    | _ => []
    end.
Fixpoint dreplay_idx (cands : nat -> Z -> list Z) (accept : Z -> bool) (n : nat) (s : dst Z) (l : list daction) (k : Z) : Z * dst Z :=
  match l with
  | [] => ((-1)%Z, s)
  | a :: r => match dexec Z cands accept n s a with
              | Some s' => dreplay_idx cands accept n s' r (k + 1)%Z
              | None => (k, s)
              end
  end.
Definition dispatch_ddmin (f : Z) (w : wire) : wire :=
  match f, w with
  | 81, WL [WN n; WN i0; tbl; acc; acts] =>
      let '(bad, s) := dreplay_idx (r_dcands tbl) (r_accept acc) (Z.to_nat n) (dinit Z i0) (map r_daction (r_list acts)) 0%Z in
      WL [WN bad; WN (dcur Z s); w_bool (ddone Z s); WL (map (fun x => WN x) (rev (dwrites Z s)))]
  | _, _ => w_err
  end%Z.
