(* Monitor: replays the action sequence reconstructed from the recorded history
   of a real run in the scheduler model (Model/SchedHier.v, input := Z = digest
   index, redup := identity on digests). *)
From DD Require Import Base.Wire Model.SchedHier.
From Coq Require Import ZArith.
Local Open Scope list_scope.

Definition r_action (w : wire) : action :=
  match w with
  | WL [WN 0%Z] => AGen
  | WL [WN 1%Z] => APStop
  | WL [WN 2%Z; WN i; b] => AWork (Z.to_nat i) (r_bool b)
  | WL [WN 3%Z; WN i] => AConsume (Z.to_nat i)
  | _ => AEndSweep
  end.

Definition r_cands (w : wire) : nat -> Z -> list (nat * Z) :=
  fun p b =>
    match find (fun e => match e with WL [WN p'; WN b'; _] => Nat.eqb (Z.to_nat p') p && Z.eqb b' b | _ => false end) (r_list w) with
    | Some (WL [_; _; l]) => map (fun x => match x with WL [WN n; WN c] => (Z.to_nat n, c) | _ => (0, 0%Z) end) (r_list l)
    | _ => []
    end.
Definition r_accept (w : wire) : Z -> bool :=
  fun c => existsb (fun e => match e with WL [WN c'; b] => Z.eqb c' c && r_bool b | _ => false end) (r_list w).

Definition w_state (s : hst Z) : wire :=
  WL [w_nat (pass Z s); w_nat (skip Z s); w_bool (fresh Z s); WN (cur Z s); w_bool (finished Z s); w_bool (abort Z s)].

(* returns (index of the first action the model does not allow or -1, state after every AEndSweep, final state, writes oldest first) *)
Fixpoint replay_trace (cands : nat -> Z -> list (nat * Z)) (accept : Z -> bool) (np : nat)
         (s : hst Z) (l : list action) (k : Z) (acc : list wire) : Z * list wire * hst Z :=
  match l with
  | [] => ((-1)%Z, rev acc, s)
  | a :: r =>
      match exec Z cands accept (fun x => x) np s a with
      | Some s' => replay_trace cands accept np s' r (k + 1)%Z (match a with AEndSweep => w_state s' :: acc | _ => acc end)
      | None => (k, rev acc, s)
      end
  end.

Definition dispatch_sched (f : Z) (w : wire) : wire :=
  match f, w with
  | 80, WL [WN np; WN i0; tbl; acc; acts] =>
      let '(bad, bounds, s) := replay_trace (r_cands tbl) (r_accept acc) (Z.to_nat np) (init Z i0) (map r_action (r_list acts)) 0%Z [] in
      WL [WN bad; WL bounds; w_state s; WL (map (fun x => WN x) (rev (writes Z s)))]
  | _, _ => w_err
  end%Z.
