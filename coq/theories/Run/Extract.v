From Coq Require Extraction ExtrOcamlBasic.
From DD Require Import Base.Wire Run.Dispatch.
Extraction Language OCaml.
Extraction "model.ml" dispatch.
