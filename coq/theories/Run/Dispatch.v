(* Dispatcher used by the correspondence drivers: function number -> wire -> wire. *)
From DD Require Import Base.Wire Model.Lexer Model.Writer Spec.StdReader Run.NodeWire Run.CheckWire Run.OptWire Run.TypeWire Run.RwWire Run.SchedWire Run.CoreWire Run.DdTopWire Run.MoreWire1 Run.MoreWire2 Run.MoreWire3 Run.MoreWire4 Run.DeclWire Run.RelWire Run.ConseqWire.

Definition r_lexeme (w : wire) : lexeme :=
  match w with WN 0%Z => LPar | WN _ => RPar | WL _ => Tok (r_str w) end.
Definition r_items (w : wire) : list (lexeme * str) :=
  map (fun it => match it with WL [x; s] => (r_lexeme x, r_str s) | _ => (LPar, []) end) (r_list w).
Definition w_opt_sexps (o : option (list sexp)) : wire :=
  match o with Some l => WL [WN 1%Z; w_sexps l] | None => WL [WN 0%Z] end.

Definition dispatch (f : Z) (w : wire) : wire :=
  match f with
  | 1 => w_sexps (parse (r_str w))
  | 2 => w_str (w_check (r_sexps w))
  | 3 => w_str (w_default (r_sexps w))
  | 4 => w_str (w_pretty (r_sexps w))
  | 5 => w_str (w_wrap (r_sexps w))
  | 6 => w_opt_sexps (structure (map fst (r_items w)))
  | 7 => w_bool (seps_ok (r_items w))
  | 8 => w_bool (forallb wf (r_sexps w))
  | 9 => match w with WL [l; it] => w_str (render (r_str l) (r_items it)) | _ => w_err end
  | _ => if (Z.leb 10 f && Z.ltb f 30)%Z then dispatch_node f w
         else if (Z.leb 30 f && Z.ltb f 40)%Z then dispatch_check f w
         else if (Z.eqb f 50)%Z then dispatch_type f w
         else if (Z.leb 90 f && Z.ltb f 100)%Z then dispatch_core f w
         else if (Z.eqb f 80)%Z then dispatch_sched f w
         else if (Z.eqb f 81)%Z then dispatch_ddmin f w
         else if (Z.eqb f 82)%Z then dispatch_ddtop f w
         else if (Z.leb 100 f && Z.ltb f 110)%Z then dispatch_more1 f w
         else if (Z.leb 110 f && Z.ltb f 120)%Z then dispatch_more2 f w
         else if (Z.leb 120 f && Z.ltb f 130)%Z then dispatch_more3 f w
         else if (Z.leb 130 f && Z.ltb f 140)%Z then dispatch_more4 f w
         else if (Z.leb 140 f && Z.ltb f 150)%Z then dispatch_decl f w
         else if (Z.leb 150 f && Z.ltb f 160)%Z then dispatch_rel f w
         else if (Z.leb 160 f && Z.ltb f 170)%Z then dispatch_conseq f w
         else if (Z.leb 59 f && Z.ltb f 80)%Z then dispatch_rw f w
         else if (Z.leb 51 f && Z.ltb f 59)%Z then dispatch_smtlib f w
         else if (Z.eqb f 45)%Z then dispatch_cli f w
         else if (Z.eqb f 46)%Z then dispatch_file f w
         else if (Z.leb 40 f && Z.ltb f 50)%Z then dispatch_opt f w else w_err
  end%Z.
