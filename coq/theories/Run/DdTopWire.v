(* Wire interface of Model/DdminTop.v (dispatch 82): the model's reduce is run on tables read off the history of a real
   sequential ddmin run: inputs are numbers (one per distinct token sequence), mutators are numbers, and the abstract
   functions are look-ups:  nfiltered (m, x) -> n;  cexprs x -> z;  cands (m, g, x0, k, x) -> the candidate that the run
   adopted at that point (every listed candidate was accepted; anything else proposes nothing).  redup = identity (it
   preserves the token sequence). *)
From DD Require Import Base.Wire Model.DdminTop.
Local Open Scope list_scope.

Definition r_zs (w : wire) : list Z := map r_Z (r_list w).
Definition lookup_nf (t : list wire) (m x : Z) : nat :=
  match find (fun e => match e with WL [WN a; WN b; _] => Z.eqb a m && Z.eqb b x | _ => false end) t with
  | Some (WL [_; _; WN n]) => Z.to_nat n
  | _ => O
  end.
Definition lookup_cx (t : list wire) (x : Z) : Z :=
  match find (fun e => match e with WL [WN a; _] => Z.eqb a x | _ => false end) t with
  | Some (WL [_; WN n]) => n
  | _ => 0%Z
  end.
Definition lookup_cd (t : list wire) (m : Z) (g : nat) (x0 : Z) (k : nat) (x : Z) : list Z :=
  match find (fun e => match e with
                       | WL [WN a; WN b; WN c; WN d; WN e'; _] =>
                           Z.eqb a m && Z.eqb b (Z.of_nat g) && Z.eqb c x0 && Z.eqb d (Z.of_nat k) && Z.eqb e' x
                       | _ => false end) t with
  | Some (WL [_; _; _; _; _; WN c]) => [c]
  | _ => []
  end.

Definition dispatch_ddtop (f : Z) (w : wire) : wire :=
  match f, w with
  | 82, WL [s1; s2; WN x; nf; cx; cd; WN fuel] =>
      match reduce Z Z (lookup_nf (r_list nf)) (lookup_cd (r_list cd)) (fun _ => true) (fun z => z) (lookup_cx (r_list cx))
                   (r_zs s1) (r_zs s2) (Z.to_nat fuel) x [] with
      | Some (y, ws) => WL [WN 1%Z; WN y; WL (map WN ws)]
      | None => WL [WN 0%Z]
      end
  | _, _ => w_err
  end%Z.
