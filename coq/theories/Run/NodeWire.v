(* Wire encoding of nodes and replacement maps, and the concrete hash functions
   used when the models are executed (the theorems hold for arbitrary ones). *)
From DD Require Import Base.Wire Base.Node Model.NodeEq Model.Pickle Model.Copy Model.Trav
  Model.Subst Model.Redup Model.Alloc.

Definition hmod : Z := 2147483629%Z.
Definition hstr0 (s : str) : Z :=
  fold_left (fun h c => ((h * 31 + Z.of_N c + 7) mod hmod)%Z) s 17%Z.
Definition htup0 (l : list Z) : Z :=
  fold_left (fun h x => ((h * 1000003 + x + 3) mod hmod)%Z) l 23%Z.

(* [0 id str] | [1 id child ...]; hashes are recomputed, so decoded nodes are hash_ok *)
Fixpoint r_node_h (hs : str -> Z) (ht : list Z -> Z) (w : wire) : node :=
  match w with
  | WL [WN 0%Z; WN i; s] => NL i (r_str s)
  | WL (WN _ :: WN i :: l) => let cs := map (r_node_h hs ht) l in NT i (ht (map (nhash hs) cs)) cs
  | _ => NL 0 []
  end.
Definition r_node := r_node_h hstr0 htup0.
(* the constant hash: every comparison goes through the structural walk *)
Definition hstr1 (_ : str) : Z := 1%Z.
Definition htup1 (_ : list Z) : Z := 1%Z.
Definition r_node1 := r_node_h hstr1 htup1.
Definition r_nodes (w : wire) : list node := map r_node (r_list w).

Fixpoint w_node (n : node) : wire :=
  match n with
  | NL i s => WL [WN 0%Z; WN i; w_str s]
  | NT i _ l => WL (WN 1%Z :: WN i :: map w_node l)
  end.
Definition w_nodes (l : list node) : wire := WL (map w_node l).
Definition w_onode (o : option node) : wire := match o with Some n => WL [w_node n] | None => WL [] end.
Definition r_onode (w : wire) : option node := match w with WL [x] => Some (r_node x) | _ => None end.

Definition r_irepl (w : wire) : irepl :=
  map (fun kv => match kv with WL [WN k; v] => (k, r_onode v) | _ => (0%Z, None) end) (r_list w).
Definition r_srepl (w : wire) : srepl :=
  map (fun kv => match kv with WL [k; v] => (r_node k, r_onode v) | _ => (NL 0 [], None) end) (r_list w).

Definition big_fuel (l : list node) : nat := 4 * nsizes l + 16.

Definition dispatch_node (f : Z) (w : wire) : wire :=
  match f, w with
  | 10, WL [a; b] => w_bool (node_eq hstr0 (r_node a) (r_node b))
  | 11, WL [a; b] => match node_eq_sm hstr0 (big_fuel [r_node a; r_node b]) (r_node a) (r_node b) with
                     | Some r => w_bool r | None => w_err end
  | 25, WL [a; b] => w_bool (node_eq hstr1 (r_node1 a) (r_node1 b))
  | 26, WL [a; b] => match node_eq_sm hstr1 (big_fuel [r_node1 a; r_node1 b]) (r_node1 a) (r_node1 b) with
                     | Some r => w_bool r | None => w_err end
  | 12, WL [a; WN nx] => w_onode (unpk hstr0 htup0 (pk (r_node a)) nx)
  | 13, WL [a; WN nx] => w_node (fst (copy hstr0 htup0 nx (r_node a)))
  | 14, WL [l; WN md] => WL (map (fun n => WN (nid n)) (dfs md (r_nodes l)))
  | 15, WL [l; WN md] => match bfs md (r_nodes l) with
                         | Some r => WL (map (fun n => WN (nid n)) r) | None => w_err end
  | 16, l => w_nat (count_nodes (r_nodes l))
  | 17, l => w_nat (count_exprs (r_nodes l))
  | 18, WN n => WL (map (fun p => WL [WN (fst p); WN (snd p)]) (binary_search (Z.to_nat n)))
  | 19, WL [a; WN md] => WL (map (fun n => WN (nid n)) (dfs_node md (r_node a)))
  | 20, WL [l; ri; rs; WN nx] =>
      let '(ch, r, _) := substitute hstr0 htup0 (r_nodes l) (r_irepl ri) (r_srepl rs) nx in
      WL [w_bool ch; w_nodes r]
  | 21, WL [l; ri; rs; WN nx] =>
      match substitute_sm hstr0 htup0 (big_fuel (r_nodes l)) (r_nodes l) (r_irepl ri) (r_srepl rs) nx with
      | Some (ch, r, _) => WL [w_bool ch; w_nodes r]
      | None => w_err
      end
  | 22, WL [l; ri; rs; vars; WN nx] =>
      let '(ch, r, _) := apply_simp hstr0 htup0 (r_nodes l) (r_irepl ri) (r_srepl rs) (r_nodes vars) nx in
      WL [w_bool ch; w_nodes r]
  | 23, WL [a; ri; rs; WN nx] =>
      w_onode (fst (substitute_node hstr0 htup0 (r_node a) (r_irepl ri) (r_srepl rs) nx))
  | 24, WL [l; WN nx] => w_nodes (fst (reduplicate hstr0 htup0 (r_nodes l) nx))
  | 27, WL [WN c; WL evs] =>
      let ps := map (fun e => match e with WN p => Z.to_nat p | WL _ => O end) evs in
      WL [WL (map WN (issued c ps)); WN (final c ps); WL (map WN (issued_local c ps))]
  | _, _ => w_err
  end%Z.
