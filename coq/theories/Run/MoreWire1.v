(* Wire interface of Model/SmtlibRw.v (dispatch numbers 100-109). *)
From DD Require Import Base.Wire Model.Rewrites Run.RwWire.
Local Open Scope list_scope.
Definition dispatch_more1 (f : Z) (w : wire) : wire := w_err.
