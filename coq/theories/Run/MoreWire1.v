(* Wire interface of Model/SmtlibRw.v (dispatch numbers 100-109).
   100 CheckSatAssuming, 102 RemoveAnnotation, 103 RemoveRecursiveFunction,
   104 SimplifyLogic, 105 SimplifyQuotedSymbols, 106 BoolNegateQuantifier
   (101 was reserved for PushPopRemoval, which /repo does not have). *)
From DD Require Import Base.Wire Model.Rewrites Model.SmtlibRw Run.RwWire.
Local Open Scope list_scope.
Definition dispatch_more1 (f : Z) (w : wire) : wire :=
  match f, w with
  | 100, WL [t] => w_olist (rw_check_sat_assuming (r_sexp t))
  | 102, WL [t] => w_olist (rw_remove_annotation (r_sexp t))
  | 103, WL [t] => w_olist (rw_remove_rec_fun (r_sexp t))
  | 104, WL [t] => w_olist (rw_simplify_logic (r_sexp t))
  | 105, WL [t] => w_olist (rw_simplify_quoted (r_sexp t))
  | 106, WL [t] => w_olist (rw_bool_negate_quant (r_sexp t))
  | _, _ => w_err
  end%Z.
