From DD Require Import Base.Wire Base.Py Model.Exec.

Definition r_pyval (w : wire) : pyval :=
  match w with
  | WL [] => VNone
  | WL [WN 0%Z; WN b] => VBool (negb (Z.eqb b 0))
  | WL [WN 1%Z; WN z] => VInt z
  | WL [WN 2%Z; s] => VStr (r_str s)
  | WL [WN 3%Z; WN n] => VList (Z.to_nat n)
  | _ => VNone
  end.
Definition r_runinfo (w : wire) : runinfo :=
  match w with WL [a; b; c] => mk_run (r_pyval a) (r_pyval b) (r_pyval c) | _ => timed_out end.
Definition r_ostr (w : wire) : option str := match w with WL [s] => Some (r_str s) | _ => None end.
Definition r_ccfg (w : wire) : ccfg :=
  match w with
  | WL [a; b; c; d; e; f; g; h; i; j] =>
      mk_ccfg (r_bool a) (r_bool b) (r_bool c) (r_ostr d) (r_ostr e) (r_bool f) (r_bool g) (r_ostr h) (r_ostr i) (r_bool j)
  | _ => mk_ccfg false false false None None false false None None false
  end.
Definition r_outcome (w : wire) : outcome :=
  match w with WL [WN c; o; e] => mk_outcome c (r_str o) (r_str e) | _ => mk_outcome 0 [] [] end.
(* a run record: an outcome, or [] for the timed-out record *)
Definition r_run (w : wire) : runinfo := match w with WL [] => timed_out | _ => run_of (r_outcome w) end.
Definition w_resb (r : res bool) : wire := match r with Ok b => WL [WN 1%Z; w_bool b] | Exn _ => WL [WN 0%Z] end.

Definition dispatch_check (f : Z) (w : wire) : wire :=
  match f, w with
  | 30, WL [g; r; io; ie; mo; me] =>
      w_resb (matches_golden (r_runinfo g) (r_runinfo r) (r_pyval io) (r_pyval ie) (r_pyval mo) (r_pyval me))
  | 31, WL [c; g; gcc; r; rcc] => w_resb (check (cfg_of (r_ccfg c)) (r_run g) (r_run gcc) (r_run r) (r_run rcc))
  | 32, WL [c; g; gcc; r; rcc] =>
      w_bool (accept_spec (r_ccfg c) (r_outcome g) (r_outcome gcc) (r_outcome r) (r_outcome rcc))
  | _, _ => w_err
  end%Z.

From DD Require Import Model.Cli.
Definition dispatch_cli (f : Z) (w : wire) : wire :=
  match f, w with
  | 45, WL [a; oo; oi; b; c; d; e; hc; cr; ce; j; lo; dec; r; rc; g; h; i] =>
      let o := run_cli (mk_inv (r_bool a) (r_bool oo) (r_bool oi) (r_bool b) (r_bool c) (r_bool d) (r_bool e) (r_bool hc) (r_bool cr) (r_bool ce)
                               (r_bool j) (r_bool lo) (r_bool dec) (r_bool r) (r_bool rc) (r_bool g) (r_bool h)
                               (if r_bool i then Some TypeError else None)) in
      WL [WN (exit_status o); w_nat (diagnostic_lines o)]
  | _, _ => w_err
  end%Z.

From DD Require Import Model.FileProto.
(* op wire: [0] open tmp | [1 chunk] write tmp | [2] close tmp | [3] rename | [4] unlink tmp | [5] open out trunc | [6 chunk] write out | [7] close out *)
Definition r_op (w : wire) : op :=
  match w with
  | WL [WN 0%Z] => OOpenTmp | WL [WN 1%Z; c] => OWriteTmp (r_str c) | WL [WN 2%Z] => OCloseTmp
  | WL [WN 3%Z] => ORename | WL [WN 4%Z] => OUnlinkTmp | WL [WN 5%Z] => OOpenOutTrunc
  | WL [WN 6%Z; c] => OWriteOut (r_str c) | _ => OCloseOut
  end.
Definition w_ostr (o : option str) : wire := match o with Some s => WL [w_str s] | None => WL [] end.
(* content of the output path after every prefix of the observed operation history *)
Fixpoint out_trace (s : fs) (l : list op) : list wire :=
  match l with
  | [] => []
  | o :: r => let s' := exec_op s o in w_ostr (f_out s') :: out_trace s' r
  end.
Definition dispatch_file (f : Z) (w : wire) : wire :=
  match f, w with
  | 46, WL [prev; ops] => WL (out_trace (mk_fs (r_ostr prev) None) (map r_op (r_list ops)))
  | _, _ => w_err
  end%Z.
