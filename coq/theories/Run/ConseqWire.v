(* Wire interface of Model/Defaults.v (dispatch numbers 160-169).
   160: [sort; [[key; [c ...]] ...]]  ->  [] (None: the implementation raises) | [[c ...]]     default_constants
   161: [script; sort]                ->  [name ...]                                            variables_with_sort
   162: script                        ->  [[key; [c ...]] ...]                                  dt_constants (as a dict: order of first insertion)
   163: script                        ->  [[name; [] | [sort]] ...]                             __sort_lookup: keys in the order of first insertion, final values
   164: script                        ->  [name ...]                                            the text keys of __constants (order of first insertion)
   165: [script; [sort ...]]          ->  [[name ...] ...]                                      variables_with_sort for several sorts *)
From DD Require Import Base.Wire Model.Defaults Run.DeclWire Run.TypeWire.
Local Open Scope list_scope.

Definition r_dtc (w : wire) : list (sexp * list sexp) :=
  map (fun p => match p with WL [k; l] => (r_sexp k, r_sexps l) | _ => (T [], []) end) (r_list w).
Definition w_dtc (t : list (sexp * list sexp)) : wire := WL (map (fun p => WL [w_sexp (fst p); w_sexps (snd p)]) t).

Definition lookup_items (script : list sexp) : list (str * option sexp) :=
  let lk := final_lookup script in
  map (fun k => (k, match alookup k lk with Some o => o | None => None end)) (dedup_first [] (rev (map fst lk))).

Definition dispatch_conseq (f : Z) (w : wire) : wire :=
  match f, w with
  | 160, WL [so; dtc] =>
      match default_constants (r_dtc dtc) (r_sexp so) with Some l => WL [w_sexps l] | None => WL [] end
  | 161, WL [script; so] => w_strs (variables_with_sort (r_sexps script) (r_sexp so))
  | 162, _ => w_dtc (dt_constants (r_sexps w))
  | 163, _ => WL (map (fun p => WL [w_str (fst p); w_osexp (snd p)]) (lookup_items (r_sexps w)))
  | 164, _ => w_strs (dedup_first [] (const_names (r_sexps w)))
  | 165, WL [script; sorts] => let sc := r_sexps script in WL (map (fun so => w_strs (variables_with_sort sc (r_sexp so))) (r_list sorts))
  | _, _ => w_err
  end%Z.
