(* Wire interface of Model/OracleRw.v (dispatch numbers 120-129).
     120 [t]                          ArithmeticStrengthenRelation
     121 [t]                          BoolXORRemoveConstant
     122 [t]                          FPShortSort
     123 [t]                          StringSimplifyConstant
     124 [t; sels; ctors]             RemoveDatatypeIdentity   sels = [[key; constructor; index] ...], ctors = [key ...]
     125 [t; isdef; sort; dc]         Constants                sort = [] | [s], dc = [0] | [1; [c ...]]
     126 [t; isdef; sort; vars]       ReplaceByVariable (inc)  vars = [name ...]
     127 [t; isdef; sort; vars]       ReplaceByVariable (dec) *)
From DD Require Import Base.Wire Model.Rewrites Model.OracleRw Run.RwWire.
Local Open Scope list_scope.

Definition r_osexp (w : wire) : option sexp := match w with WL (s :: _) => Some (r_sexp s) | _ => None end.
Definition r_olist (w : wire) : option (list sexp) :=
  match w with WL [WN 1%Z; l] => Some (r_sexps l) | _ => None end.
Definition r_sels (w : wire) : list (sexp * (sexp * nat)) :=
  map (fun p => match p with WL [k; c; i] => (r_sexp k, (r_sexp c, r_nat i)) | _ => (T [], (T [], O)) end) (r_list w).

Definition dispatch_more3 (f : Z) (w : wire) : wire :=
  match f, w with
  | 120, WL [t] => w_olist (rw_arith_strengthen (r_sexp t))
  | 121, WL [t] => w_olist (rw_bool_xor_const (r_sexp t))
  | 122, WL [t] => w_olist (rw_fp_short_sort (r_sexp t))
  | 123, WL [t] => w_olist (rw_str_simp_const (r_sexp t))
  | 124, WL [t; sels; ctors] => w_olist (rw_dt_identity (r_sels sels) (r_sexps ctors) (r_sexp t))
  | 125, WL [t; isdef; sort; dc] => w_olist (rw_constants (r_bool isdef) (r_osexp sort) (r_olist dc) (r_sexp t))
  | 126, WL [t; isdef; sort; vars] =>
      w_olist (rw_replace_by_var true (r_bool isdef) (r_osexp sort) (map r_str (r_list vars)) (r_sexp t))
  | 127, WL [t; isdef; sort; vars] =>
      w_olist (rw_replace_by_var false (r_bool isdef) (r_osexp sort) (map r_str (r_list vars)) (r_sexp t))
  | _, _ => w_err
  end%Z.
