(* Wire interface of Model/OracleRw.v (dispatch numbers 120-129). *)
From DD Require Import Base.Wire Model.Rewrites Run.RwWire.
Local Open Scope list_scope.
Definition dispatch_more3 (f : Z) (w : wire) : wire := w_err.
