From DD Require Import Base.Wire Model.Options Spec.EnabledSpec Gen.Tables.

Definition r_copt (w : wire) : copt :=
  match w with
  | WL [WN 0%Z; o; v] => CMut (r_str o) (r_bool v)
  | WL [WN 1%Z; t; v] => CGroup (r_str t) (r_bool v)
  | _ => CDisableAll
  end.
Definition r_rel (w : wire) : str -> bool :=
  fun t => existsb (fun p => match p with WL [n; b] => str_eqb (r_str n) t && r_bool b | _ => false end) (r_list w).
Definition w_strs (l : list str) : wire := WL (map w_str l).

Definition dispatch_opt (f : Z) (w : wire) : wire :=
  match f, w with
  | 40, WL [os; rels] =>
      let opts := map r_copt (r_list os) in
      let s := auto_detect theories (r_rel rels) (parse_opts theories opts) in
      WL [ w_strs (filter (enabled theories s) (all_classes theories));
           WL (map w_strs (hier_passes theories hier_prelude1 hier_prelude2 hier_late s));
           WL (map w_strs (ddmin_passes theories ddmin_stage1 ddmin_stage2 ddmin_exclude s));
           w_strs (filter (enabled_spec theories opts (r_rel rels)) (all_classes theories)) ]
  | _, _ => w_err
  end%Z.
