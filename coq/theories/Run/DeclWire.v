(* Wire interface of Model/Declared.v (dispatch numbers 140-142).
   140: [script; [name ...]]  ->  [is_declared script name ...]   (booleans)
   141: script                ->  declared_table script           (list of strings)
   142: script                ->  [tbl_sort; tbl_other; tbl_constr; tbl_sel; tbl_tokens]  (the five tables, lists of strings) *)
From DD Require Import Base.Wire Model.Declared.
Local Open Scope list_scope.

Definition w_strs (l : list str) : wire := WL (map w_str l).

Definition dispatch_decl (f : Z) (w : wire) : wire :=
  match f, w with
  | 140, WL [script; names] =>
      let s := r_sexps script in
      WL (map (fun n => w_bool (is_declared s (r_str n))) (r_list names))
  | 141, _ => w_strs (declared_table (r_sexps w))
  | 142, _ =>
      let s := r_sexps w in
      WL [w_strs (tbl_sort s); w_strs (tbl_other s); w_strs (tbl_constr s); w_strs (tbl_sel s); w_strs (tbl_tokens s)]
  | _, _ => w_err
  end%Z.
