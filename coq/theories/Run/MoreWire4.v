(* Wire interface of Model/GlobalRw.v (dispatch numbers 130-139). *)
From DD Require Import Base.Wire Model.Rewrites Run.RwWire.
Local Open Scope list_scope.
Definition dispatch_more4 (f : Z) (w : wire) : wire := w_err.
