(* Wire interface of Model/GlobalRw.v (dispatch numbers 130-136).
   A gsimp travels as [ids; struct; fresh] with ids = [[path; value] ...], struct = [[key; value] ...],
   value = [] (deleted) | [shape]; the result of a model as [0] (raises) | [1; [gsimp ...]]. *)
From DD Require Import Base.Wire Model.Rewrites Model.GlobalRw Run.RwWire Run.CoreWire.
Local Open Scope list_scope.

Definition w_osexp (o : option sexp) : wire := match o with Some x => WL [w_sexp x] | None => WL [] end.
Definition w_path (p : path) : wire := WL (map w_nat p).
Definition w_gsimp (g : gsimp) : wire :=
  match g with
  | GS ids st fr =>
      WL [WL (map (fun pv => WL [w_path (fst pv); w_osexp (snd pv)]) ids);
          WL (map (fun kv => WL [w_sexp (fst kv); w_osexp (snd kv)]) st);
          w_sexps fr]
  end.
Definition w_ogsimps (o : option (list gsimp)) : wire :=
  match o with Some l => WL [WN 1%Z; WL (map w_gsimp l)] | None => WL [WN 0%Z] end.

Definition r_path (w : wire) : path := map r_nat (r_list w).
Definition r_oZ (w : wire) : option Z := match w with WL [WN z] => Some z | _ => None end.
(* [[name; [w]] ...] *)
Definition r_vars (w : wire) : list (str * option Z) :=
  map (fun p => match p with WL [n; v] => (r_str n, r_oZ v) | _ => ([], None) end) (r_list w).
(* [[shape; [w]] ...]: get_bv_width; a term that is not listed counts as raising *)
Definition r_obw (w : wire) : sexp -> option Z :=
  fun t => match find (fun p => match p with WL [x; _] => sexp_eqb (r_sexp x) t | _ => false end) (r_list w) with
           | Some (WL [_; v]) => r_oZ v
           | _ => None
           end.
Fixpoint path_eqb (a b : path) : bool :=
  match a, b with
  | [], [] => true
  | x :: a', y :: b' => Nat.eqb x y && path_eqb a' b'
  | _, _ => false
  end.
Definition r_paths (w : wire) : path -> bool := fun p => existsb (fun x => path_eqb (r_path x) p) (r_list w).

Definition dispatch_more4 (f : Z) (w : wire) : wire :=
  match f, w with
  | 130, WL [t; sorts; vars; isdef; decl; id; here] =>
      w_ogsimps (rw_fresh_var (r_gs sorts) (r_vars vars) (r_bool isdef) (r_isvar decl) (r_Z id) (r_path here) (r_sexp t))
  | 131, WL [t; sorts; bws; decl; here] =>
      w_ogsimps (rw_bv_reduce_bw (r_gs sorts) (r_obw bws) (r_isvar decl) (r_path here) (r_sexp t))
  | 132, WL [t; sorts; defs; here] =>
      w_ogsimps (rw_bv_merge_bw (r_gs sorts) (r_defs defs) (r_path here) (r_sexp t))
  | 133, WL [t; decl] => w_ogsimps (rw_str_contains (r_isvar decl) (r_sexp t))
  | 134, WL [t; input; defpaths] => w_ogsimps (rw_elim_var (r_sexps input) (r_paths defpaths) (r_sexp t))
  | 135, WL [t; here] => w_ogsimps (rw_remove_constructor (r_path here) (r_sexp t))
  | 136, WL [t; here] => w_ogsimps (rw_remove_datatype (r_path here) (r_sexp t))
  | _, _ => w_err
  end%Z.
