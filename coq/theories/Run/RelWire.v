(* Wire interface of Model/Relevance.v (dispatch numbers 150-159).
   150: [theory name; script] -> relevant (on the script cleaned by without_comments);
   151: theory name -> has_is_relevant;
   152: [theory name; script] -> relevant_raw (the tests on the script as it is);
   153: shape -> [] (None) | [shape]: without_comments. *)
From DD Require Import Base.Wire Model.Relevance.
Local Open Scope list_scope.

Definition dispatch_rel (f : Z) (w : wire) : wire :=
  match f, w with
  | 150, WL [name; script] => w_bool (relevant (r_str name) (r_sexps script))
  | 151, name => w_bool (has_is_relevant (r_str name))
  | 152, WL [name; script] => w_bool (relevant_raw (r_str name) (r_sexps script))
  | 153, e => match without_comments (r_sexp e) with Some y => WL [w_sexp y] | None => WL [] end
  | _, _ => w_err
  end%Z.
