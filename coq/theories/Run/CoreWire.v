(* Wire interface of Model/CoreRw.v (dispatch numbers 90-96). *)
From DD Require Import Base.Wire Model.Smtlib Model.Rewrites Model.CoreRw Model.LetRw Model.InlineRw Run.RwWire.
Local Open Scope list_scope.

Definition r_gs (w : wire) : sexp -> option sexp :=
  fun t => match find (fun p => match p with WL [x; _] => sexp_eqb (r_sexp x) t | _ => false end) (r_list w) with
           | Some (WL [_; WL [s]]) => Some (r_sexp s)
           | _ => None
           end.
Definition r_isvar (w : wire) : str -> bool := fun s => existsb (fun x => str_eqb (r_str x) s) (r_list w).

Definition r_defs (w : wire) : list defn :=
  map (fun d => match d with WL [n; fs; b] => mk_defn (r_str n) (r_sexps fs) (r_sexp b) | _ => mk_defn [] [] (T []) end) (r_list w).

Definition dispatch_core (f : Z) (w : wire) : wire :=
  match f, w with
  | 90, WL [t] => w_olist (rw_erase_child (r_sexp t))
  | 91, WL [t; sorts] => w_olist (rw_replace_by_child (r_gs sorts) (r_sexp t))
  | 92, WL [t] => w_olist (rw_merge_children (r_sexp t))
  | 93, WL [t] => w_olist (rw_sort_children (r_sexp t))
  | 94, WL [t] => w_olist (rw_binary_reduction (r_sexp t))
  | 95, WL [t] => w_olist (rw_let_elim (r_sexp t))
  | 98, WL [t; defs] => w_olist (rw_inline (r_defs defs) (r_sexp t))
  | 97, WL [t] => w_olist (rw_let_subst (r_sexp t))
  | 96, WL [name; vars] => WL (map w_str (ssn_names (r_isvar vars) (r_str name)))
  | _, _ => w_err
  end%Z.
