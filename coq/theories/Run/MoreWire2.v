(* Wire interface of Model/ConstRw.v (dispatch numbers 110-119). *)
From DD Require Import Base.Wire Model.Rewrites Run.RwWire.
Local Open Scope list_scope.
Definition dispatch_more2 (f : Z) (w : wire) : wire := w_err.
