(* Wire interface of Model/ConstRw.v (dispatch numbers 110-119).  The models need no oracle: the argument is the node,
   optionally followed by (ignored) tables in the layout of Run/RwWire.v. *)
From DD Require Import Base.Wire Model.Rewrites Model.ConstRw Run.RwWire.
Local Open Scope list_scope.
Definition dispatch_more2 (f : Z) (w : wire) : wire :=
  match w with
  | WL (t :: _) =>
      let e := r_sexp t in
      match f with
      | 110 => w_olist (rw_bv_concat_zext e)
      | 111 => w_olist (rw_bv_simp_consts e)
      | 112 => w_olist (rw_bv_to_bool e)
      | 113 => w_olist (rw_bv_zext_pred e)
      | 114 => w_olist (rw_arith_simp_const e)
      | 115 => w_olist (rw_arith_split_nary e)
      | 116 => w_olist (rw_seq_nth_unit e)
      | 117 => w_olist (rw_str_indexof e)
      | 118 => w_olist (rw_str_replace_all e)
      | _ => w_err
      end
  | _ => w_err
  end%Z.
