(* Which mutators are enabled, as documented (property C14), independently of
   the namespace bookkeeping: the last option that mentions a mutator (itself,
   its group, --disable-all) decides, default on; afterwards a group the user
   never set is switched off iff the theory can be detected and the input
   declares nothing of it. *)
From DD Require Export Model.Options.

Section Spec.
  Variable tables : list theory.

  (* the theory that registers class c (the first one), and its option *)
  Fixpoint theory_of (ts : list theory) (c : str) : option theory :=
    match ts with
    | [] => None
    | t :: r => if existsb (fun p => str_eqb (fst p) c) (t_reg t) then Some t else theory_of r c
    end.

  (* does option o mention (class option co, theory name tn)?  Some v = sets it to v *)
  Definition mentions (co tn : str) (o : copt) : option bool :=
    match o with
    | CMut x v => if str_eqb x co then Some v else None
    | CGroup t v => if str_eqb t tn then Some v else None
    | CDisableAll => Some false
    end.
  (* scan from the right: the last mention decides *)
  Fixpoint last_mention (co tn : str) (os : list copt) : option bool :=
    match os with
    | [] => None
    | o :: r => match last_mention co tn r with
                | Some v => Some v
                | None => mentions co tn o
                end
    end.
  Definition group_set (tn : str) (os : list copt) : bool :=
    existsb (fun o => match o with CGroup t _ => str_eqb t tn | CDisableAll => true | CMut _ _ => false end) os.

  Definition enabled_spec (os : list copt) (rel : str -> bool) (c : str) : bool :=
    match theory_of tables c, lookup_cls tables c with
    | Some t, Some co =>
        if negb (group_set (t_name t) os) && t_rel t && negb (rel (t_name t)) then false
        else match last_mention co (t_name t) os with Some v => v | None => true end
    | _, _ => false
    end.

  (* soundness conditions of the registry, decidable by computation on Gen/Tables.v:
     option names pairwise distinct over all theories, class names pairwise
     distinct, theory names pairwise distinct *)
  Fixpoint nodup_str (l : list str) : bool :=
    match l with [] => true | x :: r => negb (mem_str x r) && nodup_str r end.
  Definition registry_ok : bool :=
    nodup_str (flat_map (fun t => map snd (t_reg t)) tables)
    && nodup_str (all_classes tables)
    && nodup_str (map t_name tables).
End Spec.
