(* SMT-LIB typing written independently of ddSMT's sort inference: a function
   [type_of env e] returning the sort of a well-sorted term (None = ill-sorted
   or outside the supported fragment).  Core, Ints, Reals, FixedSizeBitVectors,
   ArraysEx, Strings (fragment), FloatingPoint (fragment), non-parametric
   datatypes, user functions, let, quantifiers, annotations.  Sorts are
   s-expressions.  No proofs here. *)
From DD Require Export Base.Sexp Base.Digits Base.Lit.
Open Scope string_scope.

Definition sBool := L (lit "Bool").
Definition sInt := L (lit "Int").
Definition sReal := L (lit "Real").
Definition sString := L (lit "String").
Definition sRM := L (lit "RoundingMode").
Definition sBV (n : N) : sexp := T [L (lit "_"); L (lit "BitVec"); L (to_dec n)].
Definition sFP (e s : N) : sexp := T [L (lit "_"); L (lit "FloatingPoint"); L (to_dec e); L (to_dec s)].
Definition sArray (i e : sexp) : sexp := T [L (lit "Array"); i; e].

Definition is s (x : string) : bool := str_eqb s (lit x).
Fixpoint mem_s (s : str) (l : list string) : bool :=
  match l with [] => false | x :: r => is s x || mem_s s r end.

Definition bv_width (s : sexp) : option N :=
  match s with
  | T [L a; L b; L n] => if is a "_" && is b "BitVec" then dec_of n else None
  | _ => None
  end.
Definition fp_widths (s : sexp) : option (N * N) :=
  match s with
  | T [L a; L b; L e; L m] =>
      if is a "_" && is b "FloatingPoint" then
        match dec_of e, dec_of m with Some x, Some y => Some (x, y) | _, _ => None end
      else None
  | _ => None
  end.

(* datatype: name, constructors (name, selectors (name, sort)) *)
Definition dtype := (str * list (str * list (str * sexp)))%type.
Record env := mk_env {
  e_vars : list (str * sexp);                     (* constants, let- and quantifier-bound symbols *)
  e_funs : list (str * (list sexp * sexp));       (* declared/defined functions with arguments *)
  e_dts : list dtype }.

Fixpoint assoc {A} (k : str) (l : list (str * A)) : option A :=
  match l with [] => None | (x, v) :: r => if str_eqb x k then Some v else assoc k r end.

Definition bind_vars (g : env) (bs : list (str * sexp)) : env := mk_env (bs ++ e_vars g) (e_funs g) (e_dts g).

(* constructors and selectors *)
Fixpoint find_cons (ds : list dtype) (c : str) : option (sexp * list (str * sexp)) :=
  match ds with
  | [] => None
  | (d, cs) :: r => match assoc c cs with Some sels => Some (L d, sels) | None => find_cons r c end
  end.
Fixpoint find_sel_in (cs : list (str * list (str * sexp))) (s : str) : option sexp :=
  match cs with
  | [] => None
  | (_, sels) :: r => match assoc s sels with Some so => Some so | None => find_sel_in r s end
  end.
Fixpoint find_sel (ds : list dtype) (s : str) : option (sexp * sexp) :=
  match ds with
  | [] => None
  | (d, cs) :: r => match find_sel_in cs s with Some so => Some (L d, so) | None => find_sel r s end
  end.

(* leaves *)
Definition leaf_const_sort (s : str) : option sexp :=
  if is s "true" || is s "false" then Some sBool
  else if all_digits s then Some sInt
  else match s with
       | c :: d :: tl =>
           if N.eqb c cHASH && N.eqb d c_b then
             (if forallb is_bin tl then match tl with [] => None | _ => Some (sBV (N.of_nat (length tl))) end else None)
           else if N.eqb c cHASH && N.eqb d c_x then
             (if forallb is_hex tl then match tl with [] => None | _ => Some (sBV (4 * N.of_nat (length tl))) end else None)
           else if N.eqb c cDQ then Some sString       (* string literal (lexically checked by the reader) *)
           else None
       | _ => None
       end.
(* decimal: digits '.' digits *)
Fixpoint split_dot (s : str) (acc : str) : option (str * str) :=
  match s with
  | [] => None
  | c :: r => if N.eqb c cDOT then Some (rev acc, r) else split_dot r (c :: acc)
  end.
Definition is_decimal (s : str) : bool :=
  match split_dot s [] with Some (a, b) => all_digits a && all_digits b | None => false end.

Definition all_eq (s : sexp) (l : list sexp) : bool := forallb (sexp_eqb s) l.
Definition opt_all {A} (l : list (option A)) : option (list A) :=
  fold_right (fun x acc => match x, acc with Some a, Some r => Some (a :: r) | _, _ => None end) (Some []) l.

Definition is_arith (s : sexp) : bool := sexp_eqb s sInt || sexp_eqb s sReal.

(* operators on already typed arguments *)
Definition type_app (g : env) (op : str) (ts : list sexp) : option sexp :=
  let n := length ts in
  let all s := all_eq s ts in
  match ts with
  | [] => None
  | t1 :: rest =>
      if is op "not" then (if Nat.eqb n 1 && all sBool then Some sBool else None)
      else if mem_s op ["and"; "or"; "xor"; "=>"] then (if Nat.leb 2 n && all sBool then Some sBool else None)
      else if mem_s op ["="; "distinct"] then (if Nat.leb 2 n && all t1 then Some sBool else None)
      else if is op "ite" then
        match ts with [c; a; b] => if sexp_eqb c sBool && sexp_eqb a b then Some a else None | _ => None end
      else if mem_s op ["+"; "*"] then (if Nat.leb 2 n && is_arith t1 && all t1 then Some t1 else None)
      else if is op "-" then (if is_arith t1 && all t1 then Some t1 else None)
      else if mem_s op ["div"; "mod"] then (if Nat.leb 2 n && all sInt then Some sInt else None)
      else if is op "abs" then (if Nat.eqb n 1 && all sInt then Some sInt else None)
      else if is op "/" then (if Nat.leb 2 n && all sReal then Some sReal else None)
      else if is op "to_real" then (if Nat.eqb n 1 && all sInt then Some sReal else None)
      else if is op "to_int" then (if Nat.eqb n 1 && all sReal then Some sInt else None)
      else if is op "is_int" then (if Nat.eqb n 1 && all sReal then Some sBool else None)
      else if mem_s op ["<"; "<="; ">"; ">="] then (if Nat.leb 2 n && is_arith t1 && all t1 then Some sBool else None)
      else if mem_s op ["bvnot"; "bvneg"] then
        match bv_width t1 with Some _ => if Nat.eqb n 1 then Some t1 else None | None => None end
      else if mem_s op ["bvand"; "bvor"; "bvxor"; "bvadd"; "bvmul"; "bvnand"; "bvnor"; "bvxnor"; "bvsub"; "bvudiv"; "bvurem";
                        "bvsdiv"; "bvsrem"; "bvsmod"; "bvshl"; "bvlshr"; "bvashr"] then
        match bv_width t1 with Some _ => if Nat.leb 2 n && all t1 then Some t1 else None | None => None end
      else if mem_s op ["bvult"; "bvule"; "bvugt"; "bvuge"; "bvslt"; "bvsle"; "bvsgt"; "bvsge"] then
        match bv_width t1 with Some _ => if Nat.eqb n 2 && all t1 then Some sBool else None | None => None end
      else if is op "bvcomp" then
        match bv_width t1 with Some _ => if Nat.eqb n 2 && all t1 then Some (sBV 1) else None | None => None end
      else if is op "concat" then
        match opt_all (map bv_width ts) with
        | Some ws => if Nat.leb 2 n then Some (sBV (fold_right N.add 0%N ws)) else None
        | None => None
        end
      else if is op "select" then
        match ts with [T [L a; i; e]; j] => if is a "Array" && sexp_eqb i j then Some e else None | _ => None end
      else if is op "store" then
        match ts with [T [L a; i; e]; j; v] => if is a "Array" && sexp_eqb i j && sexp_eqb e v then Some t1 else None | _ => None end
      else if is op "str.++" then (if Nat.leb 2 n && all sString then Some sString else None)
      else if is op "str.len" then (if Nat.eqb n 1 && all sString then Some sInt else None)
      else if mem_s op ["str.contains"; "str.prefixof"; "str.suffixof"; "str.<"; "str.<="] then
        (if Nat.eqb n 2 && all sString then Some sBool else None)
      else if mem_s op ["str.replace"; "str.replace_all"] then (if Nat.eqb n 3 && all sString then Some sString else None)
      else if is op "str.at" then
        match ts with [a; b] => if sexp_eqb a sString && sexp_eqb b sInt then Some sString else None | _ => None end
      else if is op "str.substr" then
        match ts with [a; b; c] => if sexp_eqb a sString && sexp_eqb b sInt && sexp_eqb c sInt then Some sString else None | _ => None end
      else if is op "str.indexof" then
        match ts with [a; b; c] => if sexp_eqb a sString && sexp_eqb b sString && sexp_eqb c sInt then Some sInt else None | _ => None end
      else if is op "fp" then
        match ts with
        | [a; b; c] => match bv_width a, bv_width b, bv_width c with
                       | Some 1%N, Some e, Some m => Some (sFP e (m + 1))
                       | _, _, _ => None
                       end
        | _ => None
        end
      else if mem_s op ["fp.add"; "fp.sub"; "fp.mul"; "fp.div"] then
        match ts with [r; a; b] => match fp_widths a with
                                   | Some _ => if sexp_eqb r sRM && sexp_eqb a b then Some a else None
                                   | None => None end
        | _ => None end
      else if mem_s op ["fp.neg"; "fp.abs"] then
        match fp_widths t1 with Some _ => if Nat.eqb n 1 then Some t1 else None | None => None end
      else if mem_s op ["fp.min"; "fp.max"; "fp.rem"] then
        match fp_widths t1 with Some _ => if Nat.eqb n 2 && all t1 then Some t1 else None | None => None end
      else if mem_s op ["fp.lt"; "fp.leq"; "fp.gt"; "fp.geq"; "fp.eq"] then
        match fp_widths t1 with Some _ => if Nat.leb 2 n && all t1 then Some sBool else None | None => None end
      else if mem_s op ["fp.isNaN"; "fp.isZero"; "fp.isInfinite"; "fp.isNormal"; "fp.isSubnormal"; "fp.isNegative"; "fp.isPositive"] then
        match fp_widths t1 with Some _ => if Nat.eqb n 1 then Some sBool else None | None => None end
      else
        match find_cons (e_dts g) op with
        | Some (d, sels) =>
            if Nat.eqb n (length sels) && forallb (fun p => sexp_eqb (fst p) (snd (snd p))) (combine ts sels) then Some d else None
        | None =>
            match find_sel (e_dts g) op with
            | Some (d, so) => (if Nat.eqb n 1 && sexp_eqb t1 d then Some so else None)
            | None =>
                match assoc op (e_funs g) with
                | Some (args, r) =>
                    if Nat.eqb n (length args) && forallb (fun p => sexp_eqb (fst p) (snd p)) (combine ts args) then Some r else None
                | None => None
                end
            end
        end
  end.

(* indexed operators (_ op k ...) applied to typed arguments *)
Definition type_indexed (op : str) (idx : list str) (ts : list sexp) : option sexp :=
  match opt_all (map dec_of idx), ts with
  | Some [k], [t] =>
      match bv_width t with
      | Some w =>
          if mem_s op ["zero_extend"; "sign_extend"] then Some (sBV (w + k))
          else if is op "repeat" then (if N.ltb 0 k then Some (sBV (w * k)) else None)
          else if mem_s op ["rotate_left"; "rotate_right"] then Some t
          else None
      | None => if is op "divisible" && sexp_eqb t sInt && N.ltb 0 k then Some sBool else None
      end
  | Some [i; j], [t] =>
      if is op "extract" then
        match bv_width t with
        | Some w => if N.leb j i && N.ltb i w then Some (sBV (i - j + 1)) else None
        | None => None
        end
      else None
  | Some [e; m], [r; t] =>
      if is op "to_fp" && sexp_eqb r sRM && (sexp_eqb t sReal || match fp_widths t with Some _ => true | None => false end)
      then Some (sFP e m) else None
  | _, _ => None
  end.

Fixpoint type_of (g : env) (e : sexp) : option sexp :=
  match e with
  | L s =>
      match assoc s (e_vars g) with
      | Some so => Some so
      | None =>
          match leaf_const_sort s with
          | Some so => Some so
          | None =>
              if is_decimal s then Some sReal
              else if mem_s s ["RNE"; "RNA"; "RTP"; "RTN"; "RTZ"] then Some sRM
              else match find_cons (e_dts g) s with
                   | Some (d, []) => Some d
                   | _ => None
                   end
          end
      end
  | T (L h :: args) =>
      if is h "_" then
        (* (_ bvN w) *)
        match args with
        | [L b; L w] =>
            match b with
            | c1 :: c2 :: digs =>
                if N.eqb c1 c_b && N.eqb c2 c_v && all_digits digs then
                  match dec_of w with Some n => if N.ltb 0 n && N.ltb (dec_val digs) (2 ^ n) then Some (sBV n) else None | None => None end
                else None
            | _ => None
            end
        | _ => None
        end
      else if is h "let" then
        match args with
        | [T bs; body] =>
            match opt_all (map (fun b => match b with
                                         | T [L x; t] => match type_of g t with Some so => Some (x, so) | None => None end
                                         | _ => None
                                         end) bs) with
            | Some bound => type_of (bind_vars g bound) body
            | None => None
            end
        | _ => None
        end
      else if is h "forall" || is h "exists" then
        match args with
        | [T vs; body] =>
            match opt_all (map (fun b => match b with T [L x; so] => Some (x, so) | _ => None end) vs) with
            | Some bound => match type_of (bind_vars g bound) body with
                            | Some so => if sexp_eqb so sBool then Some sBool else None
                            | None => None
                            end
            | None => None
            end
        | _ => None
        end
      else if is h "!" then
        match args with t :: _ => type_of g t | [] => None end
      else
        match opt_all (map (type_of g) args) with
        | Some ts => type_app g h ts
        | None => None
        end
  | T (T (L u :: L op :: idx) :: args) =>
      if is u "_" then
        match opt_all (map (fun i => match i with L s => Some s | T _ => None end) idx),
              opt_all (map (type_of g) args) with
        | Some ix, Some ts => type_indexed op ix ts
        | _, _ => None
        end
      else None
  | _ => None
  end.

(* environment of a script: declarations in order (each symbol bound once) *)
Definition decl_env (cmds : list sexp) : env :=
  fold_left (fun g c =>
    match c with
    | T [L k; L x; so] =>
        if is k "declare-const" then mk_env ((x, so) :: e_vars g) (e_funs g) (e_dts g)
        else if is k "declare-datatype" then
          match so with
          | T cs => mk_env (e_vars g) (e_funs g)
                      ((x, map (fun c => match c with
                                         | T (L cn :: sels) => (cn, map (fun s => match s with T [L sn; ss] => (sn, ss) | _ => ([], L []) end) sels)
                                         | _ => ([], [])
                                         end) cs) :: e_dts g)
          | _ => g
          end
        else g
    | T [L k; L x; T args; so] =>
        if is k "declare-fun" then
          match args with
          | [] => mk_env ((x, so) :: e_vars g) (e_funs g) (e_dts g)
          | _ => mk_env (e_vars g) ((x, (args, so)) :: e_funs g) (e_dts g)
          end
        else g
    | T [L k; L x; T params; so; _] =>
        if is k "define-fun" then
          match params with
          | [] => mk_env ((x, so) :: e_vars g) (e_funs g) (e_dts g)
          | _ => mk_env (e_vars g) ((x, (map (fun p => match p with T [_; ps] => ps | _ => L [] end) params, so)) :: e_funs g) (e_dts g)
          end
        else g
    | _ => g
    end) cmds (mk_env [] [] []).
