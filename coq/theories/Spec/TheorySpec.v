(* "The script declares something of theory T", from the SMT-LIB point of view
   and independently of ddSMT's code (property C14: automatic detection may
   disable a theory group only if the input declares nothing of that theory).

   A script declares something of a theory if one of its top-level commands
   carries, in a SORT POSITION, a sort that is or contains a sort of the
   theory.  Sort positions: the sort of declare-const / declare-var; arguments
   and result of declare-fun; formals and result of define-fun / define-fun-rec
   / define-funs-rec; the sort of define-const; the body of define-sort; the
   field sorts of the constructors of declare-datatype(s) / declare-codatatype(s)
   (plain or (par ...)); the sort of a variable bound by forall / exists
   anywhere inside the term of an assert or inside a definition body.
   Sorts of the theories:
     arithmetic  Int, Real
     bv          (_ BitVec n)
     fp          Float16, Float32, Float64, Float128, (_ FloatingPoint e s), RoundingMode
     strings     String, RegLan, (Seq S)
     datatypes   none; instead every declare-(co)datatype(s) command counts.
   Sorts nest: (Array Int (_ BitVec 8)) mentions both arithmetic and bv.
   Sort symbols are compared by their plain spelling (the quoted spelling |Int|
   of the same SMT-LIB symbol is not covered by this specification).
   No reference to Model/. *)
From DD Require Export Base.Sexp Base.Lit.
Open Scope string_scope.
Local Open Scope list_scope.

Inductive thy := Arith | BV | FP | Strings | Datatypes.

Definition thy_name (t : thy) : str :=
  match t with
  | Arith => lit "arithmetic" | BV => lit "bv" | FP => lit "fp"
  | Strings => lit "strings" | Datatypes => lit "datatypes"
  end.

Definition sym (x : string) : sexp := L (lit x).

(* the sorts that belong to a theory *)
Inductive theory_sort : thy -> sexp -> Prop :=
| ts_int : theory_sort Arith (sym "Int")
| ts_real : theory_sort Arith (sym "Real")
| ts_bv n : theory_sort BV (T [sym "_"; sym "BitVec"; L n])
| ts_f16 : theory_sort FP (sym "Float16")
| ts_f32 : theory_sort FP (sym "Float32")
| ts_f64 : theory_sort FP (sym "Float64")
| ts_f128 : theory_sort FP (sym "Float128")
| ts_fp e s : theory_sort FP (T [sym "_"; sym "FloatingPoint"; L e; L s])
| ts_rm : theory_sort FP (sym "RoundingMode")
| ts_string : theory_sort Strings (sym "String")
| ts_reglan : theory_sort Strings (sym "RegLan")
| ts_seq S : theory_sort Strings (T [sym "Seq"; S]).

(* sort ::= identifier | (identifier sort+): a sort mentions a theory if it is a
   sort of the theory or one of its argument sorts mentions the theory (the
   indices of an indexed identifier (_ name i...) are not argument sorts) *)
Inductive sort_mentions (t : thy) : sexp -> Prop :=
| m_here S : theory_sort t S -> sort_mentions t S
| m_arg f args a : f <> sym "_" -> In a args -> sort_mentions t a -> sort_mentions t (T (f :: args)).

(* sub-term relation (reflexive, transitive) *)
Inductive subterm : sexp -> sexp -> Prop :=
| st_refl e : subterm e e
| st_child a l e : In a l -> subterm e a -> subterm e (T l).

(* S is the sort of a variable bound by a quantifier somewhere inside term e *)
Definition quantifier (q : sexp) : Prop := q = sym "forall" \/ q = sym "exists".
Definition binder_sort (S e : sexp) : Prop :=
  exists q vars body x, quantifier q /\ subterm (T [q; T vars; body]) e /\ In (T [x; S]) vars.

(* S is a field sort of the constructor list ctors = ((c (sel S) ...) ...) *)
Definition field_sort (S : sexp) (ctors : list sexp) : Prop :=
  exists c fields sel, In (T (c :: fields)) ctors /\ In (T [sel; S]) fields.
(* datatype_dec ::= (constructor+) | (par (symbol+) (constructor+)) *)
Inductive dtdec_sort (S : sexp) : sexp -> Prop :=
| dd_plain ctors : field_sort S ctors -> dtdec_sort S (T ctors)
| dd_par params ctors : field_sort S ctors -> dtdec_sort S (T [sym "par"; T params; T ctors]).

Definition fun_def_kw (k : sexp) : Prop := k = sym "define-fun" \/ k = sym "define-fun-rec".
Definition dt1_kw (k : sexp) : Prop := k = sym "declare-datatype" \/ k = sym "declare-codatatype".
Definition dtn_kw (k : sexp) : Prop := k = sym "declare-datatypes" \/ k = sym "declare-codatatypes".

(* S occurs in a sort position of command c *)
Inductive cmd_sort (S : sexp) : sexp -> Prop :=
| cs_declare_const x : cmd_sort S (T [sym "declare-const"; x; S])
| cs_declare_var x : cmd_sort S (T [sym "declare-var"; x; S])
| cs_declare_fun_arg f args R : In S args -> cmd_sort S (T [sym "declare-fun"; f; T args; R])
| cs_declare_fun_res f args : cmd_sort S (T [sym "declare-fun"; f; T args; S])
| cs_define_fun_formal k f formals R body x :
    fun_def_kw k -> In (T [x; S]) formals -> cmd_sort S (T [k; f; T formals; R; body])
| cs_define_fun_res k f formals body :
    fun_def_kw k -> cmd_sort S (T [k; f; T formals; S; body])
| cs_define_fun_body k f formals R body :
    fun_def_kw k -> binder_sort S body -> cmd_sort S (T [k; f; T formals; R; body])
| cs_define_funs_rec_formal decls bodies f formals R x :
    In (T [f; T formals; R]) decls -> In (T [x; S]) formals ->
    cmd_sort S (T [sym "define-funs-rec"; T decls; T bodies])
| cs_define_funs_rec_res decls bodies f formals :
    In (T [f; T formals; S]) decls -> cmd_sort S (T [sym "define-funs-rec"; T decls; T bodies])
| cs_define_funs_rec_body decls bodies b :
    In b bodies -> binder_sort S b -> cmd_sort S (T [sym "define-funs-rec"; T decls; T bodies])
| cs_define_const x body : cmd_sort S (T [sym "define-const"; x; S; body])
| cs_define_const_body x R body :
    binder_sort S body -> cmd_sort S (T [sym "define-const"; x; R; body])
| cs_define_sort name params : cmd_sort S (T [sym "define-sort"; name; T params; S])
| cs_assert t : binder_sort S t -> cmd_sort S (T [sym "assert"; t])
| cs_datatype k name dec : dt1_kw k -> dtdec_sort S dec -> cmd_sort S (T [k; name; dec])
| cs_datatypes k sorts decs dec :
    dtn_kw k -> In dec decs -> dtdec_sort S dec -> cmd_sort S (T [k; T sorts; T decs]).

(* a declare-(co)datatype(s) command *)
Definition dt_command (c : sexp) : Prop :=
  exists k rest, (dt1_kw k \/ dtn_kw k) /\ c = T (k :: rest).

Definition cmd_declares (t : thy) (c : sexp) : Prop :=
  (exists S, cmd_sort S c /\ sort_mentions t S) \/ (t = Datatypes /\ dt_command c).

Definition spec_declares_theory (t : thy) (script : list sexp) : Prop :=
  exists c, In c script /\ cmd_declares t c.

(* ---- SMT-LIB symbol identity and comments ----
   A comment is not part of the script, and |Int| is another spelling of the
   symbol Int: the wide specification is the specification of the script with
   all comment leaves removed (at any depth) and all quoted symbols unquoted.
   A comment is a leaf whose text starts with ';'.  The empty symbol || has no
   unquoted spelling and stays. *)
Definition is_comment (s : str) : bool := match s with c :: _ => N.eqb c 59%N | [] => false end.
Definition plain_symbol (s : str) : str :=
  match s with
  | b :: r => if N.eqb b 124%N && Nat.leb 2 (length r) && N.eqb (last r 0%N) 124%N then removelast r else s
  | [] => s
  end.
(* zero (a comment) or one s-expression *)
Fixpoint strip (e : sexp) : list sexp :=
  match e with
  | L s => if is_comment s then [] else [L (plain_symbol s)]
  | T l => [T ((fix go (l : list sexp) : list sexp :=
                  match l with [] => [] | x :: r => strip x ++ go r end) l)]
  end.
Definition clean_spec (script : list sexp) : list sexp := flat_map strip script.

Definition spec_declares_theory_wide (t : thy) (script : list sexp) : Prop :=
  spec_declares_theory t (clean_spec script).
