(* WIDER specification of "the script declares, defines or binds the symbol n": Spec/DeclaredSpec.v plus every other
   way a symbol gets into a script -- a :named label, a match pattern, a lambda binder, define-const, declare-var
   (SMT-LIB 2.6 / 2.7 and common extensions) -- and, subsuming them all and the declarations with comments at any
   depth: any name that occurs in the script as a token.  A mutator that introduces a declaration must stay clear of
   all of these.  Independent of Model/Declared.v. *)
From DD Require Export Spec.DeclaredSpec.
Open Scope string_scope.
Local Open Scope list_scope.

(* the name occurs as a token (a leaf) of a command of the script *)
Definition occurs (script : list sexp) (x : str) : Prop := exists c, In c script /\ subterm (L x) c.

(* (! t a ... :named x a ...) *)
Definition named_label (t : sexp) (x : str) : Prop :=
  exists body before after, t = T (L (lit "!") :: body :: before ++ L (lit ":named") :: L x :: after).
(* (lambda ((x S) ...) t) *)
Definition lambda_binds (t : sexp) (x : str) : Prop :=
  exists bs rest, t = T (L (lit "lambda") :: T bs :: rest) /\ sorted_var x bs.
(* (match t ((p t) ...)): the variables of a pattern x or (c x ...) *)
Definition match_binds (t : sexp) (x : str) : Prop :=
  exists scrutinee cases rest p body,
    t = T (L (lit "match") :: scrutinee :: T cases :: rest) /\ In (T [p; body]) cases /\ subterm (L x) p.
(* (define-const x S t), (declare-var x S) *)
Definition cmd_declares_more (c : sexp) (x : str) : Prop :=
  (exists S t, command c "define-const" [L x; S; t]) \/ (exists S, command c "declare-var" [L x; S]).

Definition binds_wide (script : list sexp) (x : str) : Prop :=
  binds script x \/
  occurs script x \/
  exists c, In c script /\
    (cmd_declares_more c x \/ exists t, subterm t c /\ (named_label t x \/ lambda_binds t x \/ match_binds t x)).

(* the script holds the symbol n, in whichever spelling *)
Definition spec_declares_wide (script : list sexp) (n : str) : Prop :=
  exists x, binds_wide script x /\ same_symbol x n.
