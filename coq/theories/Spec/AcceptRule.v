(* The acceptance rule as documented (property C09), written independently of
   the code: a boolean function of the comparison options and of the
   (exit code, stdout, stderr) outcomes of golden and candidate runs. *)
From DD Require Export Base.Py.

Record ccfg := mk_ccfg {
  ign_output : bool; ign_out : bool; ign_err : bool;
  m_out : option str; m_err : option str;
  has_cc : bool;
  ign_output_cc : bool;
  m_out_cc : option str; m_err_cc : option str;
  unchecked : bool }.

Record outcome := mk_outcome { code : Z; sout : str; serr : str }.

(* a stream is fine if it is ignored, or contains the configured match string,
   or (absent a match string) equals the golden stream *)
Definition stream_ok (ignored : bool) (mtch : option str) (gold cand : str) : bool :=
  ignored || match mtch with Some m => substrb m cand | None => str_eqb gold cand end.

Definition run_ok (io ie : bool) (mo me : option str) (g r : outcome) : bool :=
  Z.eqb (code r) (code g) && stream_ok io mo (sout g) (sout r) && stream_ok ie me (serr g) (serr r).

Definition accept_spec (c : ccfg) (g gcc r rcc : outcome) : bool :=
  run_ok (ign_output c || ign_out c) (ign_output c || ign_err c) (m_out c) (m_err c) g r
  && (if has_cc c then run_ok (ign_output_cc c) (ign_output_cc c) (m_out_cc c) (m_err_cc c) gcc rcc else true).

(* a configured match string is non-empty (an empty one is Python-falsy and
   behaves like no match string: documented assumption) *)
Definition wf_match (m : option str) : bool := match m with Some [] => false | _ => true end.
Definition wf_ccfg (c : ccfg) : bool :=
  wf_match (m_out c) && wf_match (m_err c) && wf_match (m_out_cc c) && wf_match (m_err_cc c).
