(* Specification of a standard-conforming SMT-LIB reader, written independently
   of ddSMT's scanner: lexeme classes, rendering of a lexeme sequence with
   separators, and the nesting structure it denotes.  Short enough to read in
   minutes.  No proofs here. *)
From DD Require Export Base.Sexp.

(* ---- lexeme classes (as boolean predicates on the token text) ---- *)

(* an atom: symbol, numeral, decimal, hexadecimal, binary, keyword ...:
   non-empty, no white space / parenthesis / semicolon, and it does not contain
   a double quote or a bar (those start other lexemes) *)
Definition atom_char (c : char) : bool :=
  negb (is_ws c || is_brk c || N.eqb c cDQ || N.eqb c cBAR).
Definition atom_ok (s : str) : bool :=
  match s with [] => false | _ => forallb atom_char s end.

(* (ddSMT's scanner used to accept a quote or a bar inside an atom; since fix F41 it does not: the liberal class
   of earlier versions is kept as a name only and is the standard one) *)
Definition atom_ok_lib (s : str) : bool := atom_ok s.

(* body of a string literal: any characters, a double quote only doubled *)
Fixpoint strbody_ok (s : str) : bool :=
  match s with
  | [] => true
  | c :: tl =>
      if N.eqb c cDQ then
        match tl with
        | d :: tl' => N.eqb d cDQ && strbody_ok tl'
        | [] => false
        end
      else strbody_ok tl
  end.
Definition strlit_ok (s : str) : bool :=
  match s with
  | c :: tl => N.eqb c cDQ &&
      match rev tl with
      | d :: body_rev => N.eqb d cDQ && strbody_ok (rev body_rev)
      | [] => false
      end
  | [] => false
  end.

Definition qsym_ok (s : str) : bool :=
  match s with
  | c :: tl => N.eqb c cBAR &&
      match rev tl with
      | d :: body_rev => N.eqb d cBAR && forallb (fun x => negb (N.eqb x cBAR)) body_rev
      | [] => false
      end
  | [] => false
  end.

(* a comment leaf as the reader keeps it: semicolon, text without line-breaking character, and the line-breaking
   character (LF or CR) that ends it *)
Definition is_lb (c : char) : bool := N.eqb c cLF || N.eqb c cCR.
Definition comment_ok (s : str) : bool :=
  match s with
  | c :: tl => N.eqb c cSEMI &&
      match rev tl with
      | d :: body_rev => is_lb d && forallb (fun x => negb (is_lb x)) body_rev
      | [] => false
      end
  | [] => false
  end.

Definition leaf_ok (s : str) : bool :=
  atom_ok_lib s || strlit_ok s || qsym_ok s || comment_ok s.
Definition leaf_std (s : str) : bool :=
  atom_ok s || strlit_ok s || qsym_ok s || comment_ok s.

Fixpoint wf (e : sexp) : bool :=
  match e with
  | L s => leaf_ok s
  | T l => forallb wf l
  end.

(* ---- lexeme sequences ---- *)

Inductive lexeme := LPar | RPar | Tok (s : str).

Definition lex_text (x : lexeme) : str :=
  match x with LPar => [cLP] | RPar => [cRP] | Tok s => s end.

Definition lex_ok (x : lexeme) : bool :=
  match x with Tok s => leaf_ok s | _ => true end.

(* may the separator between x and the following lexeme y be empty? *)
Definition may_touch (x y : lexeme) : bool :=
  match x, y with
  | LPar, _ | RPar, _ => true
  | _, LPar | _, RPar => true
  | Tok s, Tok t =>
      comment_ok s || qsym_ok s
      || (strlit_ok s && match t with c :: _ => negb (N.eqb c cDQ) | [] => true end)
      || (atom_ok_lib s && (comment_ok t || strlit_ok t || qsym_ok t))
  end.

Definition ws_ok (w : str) : bool := forallb is_ws w.

(* items: each lexeme with the white space that follows it *)
Fixpoint seps_ok (items : list (lexeme * str)) : bool :=
  match items with
  | [] => true
  | (x, w) :: rest =>
      lex_ok x && ws_ok w &&
      match rest with
      | [] => true
      | (y, _) :: _ => (match w with [] => may_touch x y | _ => true end)
      end && seps_ok rest
  end.

Definition render (lead : str) (items : list (lexeme * str)) : str :=
  lead ++ flat_map (fun it => lex_text (fst it) ++ snd it) items.

(* ---- structure ---- *)

(* standard nesting: a stack of open lists; None on unbalanced input *)
Fixpoint structure_aux (xs : list lexeme) (stack : list (list sexp)) (out : list sexp)
  : option (list sexp) :=
  match xs with
  | [] => match stack with [] => Some (rev out) | _ => None end
  | LPar :: r => structure_aux r ([] :: stack) out
  | RPar :: r =>
      match stack with
      | [] => None
      | f :: [] => structure_aux r [] (T (rev f) :: out)
      | f :: g :: fs => structure_aux r ((T (rev f) :: g) :: fs) out
      end
  | Tok s :: r =>
      match stack with
      | [] => structure_aux r [] (L s :: out)
      | f :: fs => structure_aux r ((L s :: f) :: fs) out
      end
  end.

Definition structure (xs : list lexeme) : option (list sexp) := structure_aux xs [] [].

(* the token sequence of a list of s-expressions *)
Fixpoint flat (e : sexp) : list lexeme :=
  match e with
  | L s => [Tok s]
  | T l => LPar :: flat_map flat l ++ [RPar]
  end.
Definition flats (es : list sexp) : list lexeme := flat_map flat es.

(* standard tokeniser used to compare renderings: defined through the scanner's
   inverse -- a text t has token sequence xs if it is a rendering of xs *)
Definition tokens_of (t : str) (xs : list lexeme) : Prop :=
  exists lead items, ws_ok lead = true /\ seps_ok items = true /\
                     map fst items = xs /\ t = render lead items.
