(* SPECIFICATION, from the point of view of SMT-LIB 2.6 (not of ddSMT's code), of
     "the script declares, defines or binds the symbol n"
   for WELL-FORMED declaring commands.  Independent of Model/Declared.v: only s-expressions and string literals are
   used.  Sort names (declare-sort, define-sort, the names of datatypes, sort parameters) live in another name space
   and are not symbols in this sense.
     - a comment is a leaf whose text starts with a semicolon; the comments on the top level of a command are no
       part of the command;
     - a symbol x and its quoted spelling |x| are the same symbol: [plain]. *)
From DD Require Export Base.Sexp Base.Lit.
Open Scope string_scope.
Local Open Scope list_scope.

(* ---- symbols: |x| is x ---- *)
Definition quoted (s : str) : bool :=
  match s with c :: ((_ :: _) as r) => N.eqb c cBAR && N.eqb (last r 0%N) cBAR | _ => false end.
Definition plain (s : str) : str := if quoted s then removelast (tl s) else s.
Definition same_symbol (a b : str) : Prop := plain a = plain b.

(* ---- commands, read without the comments on their top level ---- *)
Definition comment (e : sexp) : bool := match e with L (c :: _) => N.eqb c cSEMI | _ => false end.
Inductive without_comments : list sexp -> list sexp -> Prop :=
| WC_nil : without_comments [] []
| WC_skip c l l' : comment c = true -> without_comments l l' -> without_comments (c :: l) l'
| WC_keep x l l' : comment x = false -> without_comments l l' -> without_comments (x :: l) (x :: l').
(* the command c is (k a1 ... an) *)
Definition command (c : sexp) (k : string) (args : list sexp) : Prop :=
  exists l, c = T l /\ without_comments l (L (lit k) :: args).

(* ---- subterms ---- *)
Inductive subterm : sexp -> sexp -> Prop :=
| Sub_refl e : subterm e e
| Sub_child t x l : In x l -> subterm t x -> subterm t (T l).

(* ---- what a well-formed command declares ---- *)
(* (x S) among the sorted variables / selector declarations ps *)
Definition sorted_var (x : str) (ps : list sexp) : Prop := exists S, In (T [L x; S]) ps.
(* a function declaration (f ((x S) ...) S) of define-funs-rec *)
Definition fun_dec (f : str) (ps : list sexp) (d : sexp) : Prop := exists S, d = T [L f; T ps; S].
(* the constructor declaration (c (s S) ...) declares c and the selectors s *)
Definition constr_declares (k : sexp) (x : str) : Prop :=
  exists c sels, k = T (L c :: sels) /\ (x = c \/ sorted_var x sels).
(* a datatype declaration: ((c ...) ...) or (par (X ...) ((c ...) ...)) *)
Definition is_par (d : sexp) : Prop := exists r, d = T (L (lit "par") :: r).
Definition datatype_declares (d : sexp) (x : str) : Prop :=
  (exists cs, d = T cs /\ ~ is_par d /\ exists k, In k cs /\ constr_declares k x) \/
  (exists params cs, d = T [L (lit "par"); T params; T cs] /\ exists k, In k cs /\ constr_declares k x).
(* a sort declaration (D arity) of declare-datatypes *)
Definition sort_dec (s : sexp) : Prop := exists D k, s = T [L D; L k].

Inductive cmd_declares (c : sexp) (x : str) : Prop :=
| D_declare_const S :
    command c "declare-const" [L x; S] -> cmd_declares c x
| D_declare_fun Ss S :
    command c "declare-fun" [L x; T Ss; S] -> cmd_declares c x
| D_define_fun ps S body :
    command c "define-fun" [L x; T ps; S; body] -> cmd_declares c x
| D_define_fun_formal f ps S body :
    command c "define-fun" [L f; T ps; S; body] -> sorted_var x ps -> cmd_declares c x
| D_define_fun_rec ps S body :
    command c "define-fun-rec" [L x; T ps; S; body] -> cmd_declares c x
| D_define_fun_rec_formal f ps S body :
    command c "define-fun-rec" [L f; T ps; S; body] -> sorted_var x ps -> cmd_declares c x
| D_define_funs_rec decs bodies ps d :
    command c "define-funs-rec" [T decs; T bodies] -> In d decs -> fun_dec x ps d -> cmd_declares c x
| D_define_funs_rec_formal decs bodies f ps d :
    command c "define-funs-rec" [T decs; T bodies] -> In d decs -> fun_dec f ps d -> sorted_var x ps -> cmd_declares c x
| D_declare_datatype D d :
    command c "declare-datatype" [L D; d] -> datatype_declares d x -> cmd_declares c x
| D_declare_datatypes sorts decs d :
    command c "declare-datatypes" [T sorts; T decs] ->
    Forall sort_dec sorts -> length sorts = length decs ->       (* one datatype declaration per sort *)
    In d decs -> datatype_declares d x -> cmd_declares c x.

(* ---- variables bound by let, forall, exists anywhere in the script ---- *)
Definition binder_binds (t : sexp) (x : str) : Prop :=
  exists h bs rest, t = T (L h :: T bs :: rest) /\
    (h = lit "let" \/ h = lit "forall" \/ h = lit "exists") /\ sorted_var x bs.

(* the script declares, defines or binds exactly the spelling x *)
Definition binds (script : list sexp) (x : str) : Prop :=
  exists c, In c script /\ (cmd_declares c x \/ exists t, subterm t c /\ binder_binds t x).

(* the script declares the symbol n, in whichever spelling *)
Definition spec_declares (script : list sexp) (n : str) : Prop :=
  exists x, binds script x /\ same_symbol x n.
