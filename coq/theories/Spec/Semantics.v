(* Values and evaluation of SMT-LIB terms (Core, Ints, FixedSizeBitVectors,
   let), written independently of ddSMT: the semantics against which the
   rewrites documented as identities are proved (C17).  None = the term is
   outside the fragment or ill-sorted.  No proofs here. *)
From DD Require Export Base.Sexp Base.Digits Base.Lit.
Open Scope string_scope.
Local Open Scope list_scope.

Inductive value :=
| VB (b : bool)
| VI (z : Z)
| VV (w : N) (n : N).        (* bit-vector of width w with value n < 2^w *)

Definition value_eqb (a b : value) : bool :=
  match a, b with
  | VB x, VB y => Bool.eqb x y
  | VI x, VI y => Z.eqb x y
  | VV w n, VV w' n' => N.eqb w w' && N.eqb n n'
  | _, _ => false
  end.

Definition isop (s : str) (x : string) : bool := str_eqb s (lit x).
Fixpoint lookup_v (k : str) (l : list (str * value)) : option value :=
  match l with [] => None | (x, v) :: r => if str_eqb x k then Some v else lookup_v k r end.

Definition opt_all_v {A} (l : list (option A)) : option (list A) :=
  fold_right (fun x acc => match x, acc with Some a, Some r => Some (a :: r) | _, _ => None end) (Some []) l.

Definition all_bools (vs : list value) : option (list bool) := opt_all_v (map (fun v => match v with VB b => Some b | _ => None end) vs).
Definition all_ints (vs : list value) : option (list Z) := opt_all_v (map (fun v => match v with VI z => Some z | _ => None end) vs).
(* all bit-vectors of one width *)
Definition all_bvs (vs : list value) : option (N * list N) :=
  match vs with
  | VV w n :: r =>
      match opt_all_v (map (fun v => match v with VV w' m => if N.eqb w w' then Some m else None | _ => None end) r) with
      | Some ms => Some (w, n :: ms)
      | None => None
      end
  | _ => None
  end.

Fixpoint chain {A} (rel : A -> A -> bool) (l : list A) : bool :=
  match l with
  | a :: ((b :: _) as r) => rel a b && chain rel r
  | _ => true
  end.
Fixpoint pairwise_distinct (l : list value) : bool :=
  match l with
  | [] => true
  | a :: r => forallb (fun b => negb (value_eqb a b)) r && pairwise_distinct r
  end.

Definition msb (w n : N) : bool := N.testbit n (w - 1).
Definition to_signed (w n : N) : Z := if msb w n then (Z.of_N n - Z.of_N (2 ^ w))%Z else Z.of_N n.
Definition bvmod (w : N) (z : Z) : N := Z.to_N (z mod Z.of_N (2 ^ w)).

(* leaf constants *)
Definition const_value (s : str) : option value :=
  if isop s "true" then Some (VB true) else if isop s "false" then Some (VB false)
  else if all_digits s then Some (VI (Z.of_N (dec_val s)))
  else match s with
       | c :: d :: tl =>
           if N.eqb c cHASH && N.eqb d c_b && forallb is_bin tl then
             match tl with [] => None | _ => Some (VV (N.of_nat (length tl)) (bin_val tl)) end
           else if N.eqb c cHASH && N.eqb d c_x && forallb is_hex tl then
             match tl with [] => None | _ => Some (VV (4 * N.of_nat (length tl)) (hex_val tl)) end
           else None
       | _ => None
       end.

Definition apply_op (op : str) (vs : list value) : option value :=
  let n := length vs in
  if isop op "not" then match vs with [VB b] => Some (VB (negb b)) | _ => None end
  else if isop op "and" then match all_bools vs with Some bs => if Nat.leb 2 n then Some (VB (forallb (fun b => b) bs)) else None | None => None end
  else if isop op "or" then match all_bools vs with Some bs => if Nat.leb 2 n then Some (VB (existsb (fun b => b) bs)) else None | None => None end
  else if isop op "xor" then match all_bools vs with Some bs => if Nat.leb 2 n then Some (VB (fold_left xorb bs false)) else None | None => None end
  else if isop op "=>" then
    match all_bools vs with
    | Some bs => if Nat.leb 2 n then Some (VB (fold_right (fun a acc => implb a acc) (last bs true) (removelast bs))) else None
    | None => None
    end
  else if isop op "=" then
    (if Nat.leb 2 n then match vs with v :: _ => Some (VB (chain value_eqb vs)) | [] => None end else None)
  else if isop op "distinct" then (if Nat.leb 2 n then Some (VB (pairwise_distinct vs)) else None)
  else if isop op "ite" then match vs with [VB c; a; b] => Some (if c then a else b) | _ => None end
  else if isop op "+" then match all_ints vs with Some zs => if Nat.leb 2 n then Some (VI (fold_left Z.add zs 0%Z)) else None | None => None end
  else if isop op "*" then match all_ints vs with Some zs => if Nat.leb 2 n then Some (VI (fold_left Z.mul zs 1%Z)) else None | None => None end
  else if isop op "-" then
    match all_ints vs with
    | Some [z] => Some (VI (- z))
    | Some (z :: r) => Some (VI (fold_left Z.sub r z))
    | _ => None
    end
  else if isop op "<" then match all_ints vs with Some zs => if Nat.leb 2 n then Some (VB (chain Z.ltb zs)) else None | None => None end
  else if isop op "<=" then match all_ints vs with Some zs => if Nat.leb 2 n then Some (VB (chain Z.leb zs)) else None | None => None end
  else if isop op ">" then match all_ints vs with Some zs => if Nat.leb 2 n then Some (VB (chain Z.gtb zs)) else None | None => None end
  else if isop op ">=" then match all_ints vs with Some zs => if Nat.leb 2 n then Some (VB (chain Z.geb zs)) else None | None => None end
  else if isop op "bvnot" then match vs with [VV w x] => Some (VV w (2 ^ w - 1 - x)) | _ => None end
  else if isop op "bvneg" then match vs with [VV w x] => Some (VV w (bvmod w (- Z.of_N x))) | _ => None end
  else if isop op "bvand" then match all_bvs vs with Some (w, x :: r) => if Nat.leb 2 n then Some (VV w (fold_left N.land r x)) else None | _ => None end
  else if isop op "bvor" then match all_bvs vs with Some (w, x :: r) => if Nat.leb 2 n then Some (VV w (fold_left N.lor r x)) else None | _ => None end
  else if isop op "bvxor" then match all_bvs vs with Some (w, x :: r) => if Nat.leb 2 n then Some (VV w (fold_left N.lxor r x)) else None | _ => None end
  else if isop op "bvnand" then match all_bvs vs with Some (w, [x; y]) => Some (VV w (2 ^ w - 1 - N.land x y)) | _ => None end
  else if isop op "bvnor" then match all_bvs vs with Some (w, [x; y]) => Some (VV w (2 ^ w - 1 - N.lor x y)) | _ => None end
  else if isop op "bvadd" then match all_bvs vs with Some (w, x :: r) => if Nat.leb 2 n then Some (VV w (fold_left (fun a b => (a + b) mod 2 ^ w)%N r x)) else None | _ => None end
  else if isop op "bvmul" then match all_bvs vs with Some (w, x :: r) => if Nat.leb 2 n then Some (VV w (fold_left (fun a b => (a * b) mod 2 ^ w)%N r x)) else None | _ => None end
  else if isop op "bvsub" then match all_bvs vs with Some (w, [x; y]) => Some (VV w (bvmod w (Z.of_N x - Z.of_N y))) | _ => None end
  else if isop op "bvcomp" then match all_bvs vs with Some (w, [x; y]) => Some (VV 1 (if N.eqb x y then 1 else 0)) | _ => None end
  else if isop op "bvult" then match all_bvs vs with Some (w, [x; y]) => Some (VB (N.ltb x y)) | _ => None end
  else if isop op "bvule" then match all_bvs vs with Some (w, [x; y]) => Some (VB (N.leb x y)) | _ => None end
  else if isop op "bvugt" then match all_bvs vs with Some (w, [x; y]) => Some (VB (N.ltb y x)) | _ => None end
  else if isop op "bvuge" then match all_bvs vs with Some (w, [x; y]) => Some (VB (N.leb y x)) | _ => None end
  else if isop op "bvslt" then match all_bvs vs with Some (w, [x; y]) => Some (VB (Z.ltb (to_signed w x) (to_signed w y))) | _ => None end
  else if isop op "bvsle" then match all_bvs vs with Some (w, [x; y]) => Some (VB (Z.leb (to_signed w x) (to_signed w y))) | _ => None end
  else if isop op "bvsgt" then match all_bvs vs with Some (w, [x; y]) => Some (VB (Z.ltb (to_signed w y) (to_signed w x))) | _ => None end
  else if isop op "bvsge" then match all_bvs vs with Some (w, [x; y]) => Some (VB (Z.leb (to_signed w y) (to_signed w x))) | _ => None end
  else if isop op "concat" then
    (* left to right: the first argument holds the most significant bits *)
    match vs with
    | VV w x :: r =>
        if Nat.leb 2 n then
          fold_left (fun acc v => match acc, v with
                                  | Some (VV wa a), VV wb b => Some (VV (wa + wb) (a * 2 ^ wb + b))
                                  | _, _ => None end) r (Some (VV w x))
        else None
    | _ => None
    end
  else None.

Definition apply_indexed (op : str) (idx : list N) (vs : list value) : option value :=
  match idx, vs with
  | [k], [VV w x] =>
      if isop op "zero_extend" then Some (VV (w + k) x)
      else if isop op "sign_extend" then Some (VV (w + k) (if msb w x then x + (2 ^ k - 1) * 2 ^ w else x))
      else None
  | [i; j], [VV w x] =>
      if isop op "extract" then (if N.leb j i && N.ltb i w then Some (VV (i - j + 1) ((x / 2 ^ j) mod 2 ^ (i - j + 1))) else None)
      else None
  | _, _ => None
  end.

Fixpoint eval (rho : list (str * value)) (e : sexp) : option value :=
  match e with
  | L s => match lookup_v s rho with Some v => Some v | None => const_value s end
  | T (L h :: args) =>
      if isop h "_" then
        match args with
        | [L b; L w] =>
            match b with
            | c1 :: c2 :: digs =>
                if N.eqb c1 c_b && N.eqb c2 c_v && all_digits digs then
                  match dec_of w with
                  | Some n => if N.ltb 0 n && N.ltb (dec_val digs) (2 ^ n) then Some (VV n (dec_val digs)) else None
                  | None => None
                  end
                else None
            | _ => None
            end
        | _ => None
        end
      else if isop h "let" then
        match args with
        | [T bs; body] =>
            match opt_all_v (map (fun b => match b with
                                           | T [L x; t] => match eval rho t with Some v => Some (x, v) | None => None end
                                           | _ => None end) bs) with
            | Some bound => eval (bound ++ rho) body
            | None => None
            end
        | _ => None
        end
      else match opt_all_v (map (eval rho) args) with
           | Some vs => apply_op h vs
           | None => None
           end
  | T (T (L u :: L op :: idx) :: args) =>
      if isop u "_" then
        match opt_all_v (map (fun i => match i with L s => dec_of s | T _ => None end) idx),
              opt_all_v (map (eval rho) args) with
        | Some ix, Some vs => apply_indexed op ix vs
        | _, _ => None
        end
      else None
  | _ => None
  end.
