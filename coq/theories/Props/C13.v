(* C13 property theorems (placeholder until the reduplication development lands). *)
From DD Require Import Model.Redup.
Theorem mem_nil : forall i, mem i [] = false.
Proof. reflexivity. Qed.
Print Assumptions mem_nil.
