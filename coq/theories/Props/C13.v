(* C13 property theorems: reduplicate keeps shapes and cached hashes, returns a
   duplicate-free input unchanged without allocating, and makes all identities
   of the result distinct.  Proofs are in Proofs/Redup. *)
From DD Require Import Model.Redup.
From DD Require Import Proofs.Redup.RedupProofs.
From DD Require Import Model.Alloc Proofs.Alloc.AllocProofs Proofs.Alloc.AllocRedup.

Local Open Scope Z_scope.

Theorem redup_shape : forall hstr htup l next,
  map shape (fst (reduplicate hstr htup l next)) = map shape l.
Proof. exact redup_shape_proof. Qed.
Print Assumptions redup_shape.

Theorem redup_nodup : forall hstr htup l next,
  (forall i, In i (ids_l l) -> i <= next) ->
  NoDup (ids_l (fst (reduplicate hstr htup l next))).
Proof. exact redup_nodup_proof. Qed.
Print Assumptions redup_nodup.

Theorem redup_keeps : forall hstr htup l next,
  NoDup (ids_l l) ->
  fst (reduplicate hstr htup l next) = l /\ snd (reduplicate hstr htup l next) = next.
Proof. exact redup_keeps_proof. Qed.
Print Assumptions redup_keeps.

Theorem redup_hash_ok : forall hstr htup l next,
  forallb (hash_ok hstr htup) l = true ->
  forallb (hash_ok hstr htup) (fst (reduplicate hstr htup l next)) = true.
Proof. exact redup_hash_ok_proof. Qed.
Print Assumptions redup_hash_ok.

(* an element none of whose identities occurs before it, and whose own
   identities are distinct, is returned as the identical node at its position *)
Theorem redup_keeps_unique : forall hstr htup pre x post next,
  (forall i, In i (ids_l (pre ++ x :: post)) -> i <= next) ->
  NoDup (ids x) ->
  (forall i, In i (ids x) -> ~ In i (ids_l pre)) ->
  exists pre' post',
    fst (reduplicate hstr htup (pre ++ x :: post) next) = pre' ++ x :: post' /\
    length pre' = length pre.
Proof. exact redup_keeps_unique_proof. Qed.
Print Assumptions redup_keeps_unique.

Theorem redup_keeps_unique_count : forall hstr htup pre x post next,
  (forall i, In i (ids_l (pre ++ x :: post)) -> i <= next) ->
  (forall i, In i (ids x) -> count_occ Z.eq_dec (ids_l (pre ++ x :: post)) i = 1%nat) ->
  exists pre' post',
    fst (reduplicate hstr htup (pre ++ x :: post) next) = pre' ++ x :: post' /\
    length pre' = length pre.
Proof. exact redup_keeps_unique_count_proof. Qed.
Print Assumptions redup_keeps_unique_count.

(* ---- the allocator across the processes of the pool (Model/Alloc.v) ----
   The premise "every identity of the input is at most the counter" of the
   theorems above is a property of the allocator: one counter cell shared by the
   main process and all workers.  A history is the list of processes in the
   order in which they allocate. *)

(* the identities issued are exactly c+1 .. final, one per allocation *)
Theorem shared_ids_range : forall c evs i, In i (issued c evs) <-> c < i <= final c evs.
Proof. exact issued_range. Qed.
Print Assumptions shared_ids_range.

Theorem shared_ids_distinct : forall c evs, NoDup (issued c evs).
Proof. exact issued_nodup. Qed.
Print Assumptions shared_ids_distinct.

(* an allocation after a point of the history, by whichever process, returns an identity not issued before it *)
Theorem shared_later_fresh : forall c evs1 evs2 i,
  In i (issued (final c evs1) evs2) -> ~ In i (issued c evs1) /\ c < i.
Proof. exact later_fresh. Qed.
Print Assumptions shared_later_fresh.

Theorem shared_history_splits : forall c evs1 evs2,
  issued c (evs1 ++ evs2) = issued c evs1 ++ issued (final c evs1) evs2.
Proof. exact shared_split. Qed.
Print Assumptions shared_history_splits.

(* composition with reduplicate: an input whose identities are old (at most c) or were issued by the shared
   allocator since, in any processes, is re-duplicated to pairwise distinct identities in the main process *)
Theorem redup_nodup_shared : forall hstr htup l c evs,
  (forall i, In i (ids_l l) -> i <= c \/ In i (issued c evs)) ->
  NoDup (ids_l (fst (reduplicate hstr htup l (final c evs)))).
Proof. exact redup_nodup_shared_proof. Qed.
Print Assumptions redup_nodup_shared.

(* per-process copies of the counter: fine for one process alone, refuted with two (worker 1 repeats the
   identity the main process 0 has just handed out) *)
Theorem local_counter_single_process : forall c p n, issued_local c (repeat p n) = issued c (repeat p n).
Proof. exact local_single. Qed.
Print Assumptions local_counter_single_process.

Theorem local_counters_refuted : forall c, ~ NoDup (issued_local c [0%nat; 1%nat]).
Proof. exact local_collides. Qed.
Print Assumptions local_counters_refuted.

Example shared_history_example :
  issued 10 [0%nat; 2%nat; 1%nat; 0%nat] = [11; 12; 13; 14] /\ final 10 [0%nat; 2%nat; 1%nat; 0%nat] = 14 /\
  issued_local 10 [0%nat; 2%nat; 1%nat; 0%nat] = [11; 11; 11; 12].
Proof. vm_compute. repeat split. Qed.
