(* C13 property theorems: reduplicate keeps shapes and cached hashes, returns a
   duplicate-free input unchanged without allocating, and makes all identities
   of the result distinct.  Proofs are in Proofs/Redup. *)
From DD Require Import Model.Redup.
From DD Require Import Proofs.Redup.RedupProofs.

Local Open Scope Z_scope.

Theorem redup_shape : forall hstr htup l next,
  map shape (fst (reduplicate hstr htup l next)) = map shape l.
Proof. exact redup_shape_proof. Qed.
Print Assumptions redup_shape.

Theorem redup_nodup : forall hstr htup l next,
  (forall i, In i (ids_l l) -> i <= next) ->
  NoDup (ids_l (fst (reduplicate hstr htup l next))).
Proof. exact redup_nodup_proof. Qed.
Print Assumptions redup_nodup.

Theorem redup_keeps : forall hstr htup l next,
  NoDup (ids_l l) ->
  fst (reduplicate hstr htup l next) = l /\ snd (reduplicate hstr htup l next) = next.
Proof. exact redup_keeps_proof. Qed.
Print Assumptions redup_keeps.

Theorem redup_hash_ok : forall hstr htup l next,
  forallb (hash_ok hstr htup) l = true ->
  forallb (hash_ok hstr htup) (fst (reduplicate hstr htup l next)) = true.
Proof. exact redup_hash_ok_proof. Qed.
Print Assumptions redup_hash_ok.

(* an element none of whose identities occurs before it, and whose own
   identities are distinct, is returned as the identical node at its position *)
Theorem redup_keeps_unique : forall hstr htup pre x post next,
  (forall i, In i (ids_l (pre ++ x :: post)) -> i <= next) ->
  NoDup (ids x) ->
  (forall i, In i (ids x) -> ~ In i (ids_l pre)) ->
  exists pre' post',
    fst (reduplicate hstr htup (pre ++ x :: post) next) = pre' ++ x :: post' /\
    length pre' = length pre.
Proof. exact redup_keeps_unique_proof. Qed.
Print Assumptions redup_keeps_unique.

Theorem redup_keeps_unique_count : forall hstr htup pre x post next,
  (forall i, In i (ids_l (pre ++ x :: post)) -> i <= next) ->
  (forall i, In i (ids x) -> count_occ Z.eq_dec (ids_l (pre ++ x :: post)) i = 1%nat) ->
  exists pre' post',
    fst (reduplicate hstr htup (pre ++ x :: post) next) = pre' ++ x :: post' /\
    length pre' = length pre.
Proof. exact redup_keeps_unique_count_proof. Qed.
Print Assumptions redup_keeps_unique_count.
