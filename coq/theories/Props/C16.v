(* C16: for every subterm of a well-sorted input in which each symbol is bound
   once, the sort the oracle infers is unknown or the term's actual sort, and
   the bit-width it infers is unknown (-1) or the actual width.
   Model: Model/Smtlib.v (oracle), specification: Spec/Typing.v (type_of).
   Hypotheses (Proofs/Sort/SortHyps.v): lookup_agrees, consts_unbound,
   ops_unbound, sorts_canon, cons_agree; binders: Proofs/Sort/Subterms.v (reach,
   binders_ok); scripts: Proofs/Sort/Decls.v (script_ok). *)
From DD Require Import Model.Smtlib Spec.Typing.
From DD Require Import Proofs.Sort.DecRT Proofs.Sort.SortBase Proofs.Sort.TypeApp Proofs.Sort.SortHyps
  Proofs.Sort.TableChecks Proofs.Sort.Width Proofs.Sort.SortSound Proofs.Sort.Corollaries
  Proofs.Sort.Decls Proofs.Sort.Subterms Proofs.Sort.SortExamples.
Local Open Scope list_scope.

(* W1 *)
Theorem bv_width_sound : forall I g e w s,
  lookup_agrees I g -> consts_unbound g -> ops_unbound g -> sorts_canon I ->
  Smtlib.bv_width I e = Some w -> w <> (-1)%Z -> type_of g e = Some s ->
  s = sBV (Z.to_N w) /\ (0 <= w)%Z.
Proof. exact bv_width_sound_proof. Qed.
Print Assumptions bv_width_sound.

Theorem bv_width_sound_weak : forall I g e w s,
  lookup_agrees I g -> consts_unbound g -> ops_unbound g ->
  Smtlib.bv_width I e = Some w -> w <> (-1)%Z -> type_of g e = Some s ->
  Typing.bv_width s = Some (Z.to_N w) /\ (0 <= w)%Z.
Proof. exact bv_width_sound_weak_proof. Qed.
Print Assumptions bv_width_sound_weak.

(* W2 *)
Theorem get_sort_sound : forall I g e idx s' s,
  lookup_agrees I g -> consts_unbound g -> ops_unbound g -> sorts_canon I -> cons_agree I g ->
  Smtlib.get_sort I idx e = Some s' -> type_of g e = Some s -> s' = s.
Proof. exact get_sort_sound_proof. Qed.
Print Assumptions get_sort_sound.

(* F69: a list with a comment (a leaf whose text starts with ';') among its children has no sort *)
Theorem comment_operand_has_no_sort : forall I idx e,
  has_comment_operand e = true -> Smtlib.get_sort I idx e = None.
Proof. exact comment_operand_has_no_sort_proof. Qed.
Print Assumptions comment_operand_has_no_sort.

(* p : Bool, b, c : Int in the lookup table: (ite ; c<LF> p b c) has no sort, (ite p b c) has sort Int;
   the same one level down, below an ite whose sort is the sort of that operand *)
Example ite_comment_has_no_sort :
  let I := mk_info [(lit "p", Some sBool); (lit "b", Some sInt); (lit "c", Some sInt)] [] in
  let lf := fun s => L (lit s) in
  Smtlib.get_sort I false (T [lf "ite"; lf "; c"; lf "p"; lf "b"; lf "c"]) = None /\
  Smtlib.get_sort I false (T [lf "ite"; lf "p"; lf "b"; lf "c"]) = Some sInt /\
  Smtlib.get_sort I false (T [lf "ite"; lf "p"; T [lf "ite"; lf "; c"; lf "p"; lf "b"; lf "c"]; lf "c"]) = None /\
  Smtlib.get_sort I false (T [lf "ite"; lf "p"; T [lf "ite"; lf "p"; lf "b"; lf "c"]; lf "c"]) = Some sInt.
Proof. exact ex_ite_comment. Qed.
Print Assumptions ite_comment_has_no_sort.

(* W3 *)
Theorem sort_unknown_or_actual : forall I g e idx s,
  lookup_agrees I g -> consts_unbound g -> ops_unbound g -> sorts_canon I -> cons_agree I g ->
  type_of g e = Some s ->
  Smtlib.get_sort I idx e = None \/ Smtlib.get_sort I idx e = type_of g e.
Proof. exact sort_unknown_or_actual_proof. Qed.
Print Assumptions sort_unknown_or_actual.

Theorem width_unknown_or_actual : forall I g e s,
  lookup_agrees I g -> consts_unbound g -> ops_unbound g -> sorts_canon I ->
  type_of g e = Some s ->
  Smtlib.get_bv_width I e = (-1)%Z \/ Smtlib.get_bv_width I e = (-2)%Z \/
  ((0 <= Smtlib.get_bv_width I e)%Z /\ s = sBV (Z.to_N (Smtlib.get_bv_width I e))).
Proof. exact width_unknown_or_actual_proof. Qed.
Print Assumptions width_unknown_or_actual.

Theorem width_unknown_or_actual_weak : forall I g e s,
  lookup_agrees I g -> consts_unbound g -> ops_unbound g ->
  type_of g e = Some s ->
  Smtlib.get_bv_width I e = (-1)%Z \/ Smtlib.get_bv_width I e = (-2)%Z \/
  ((0 <= Smtlib.get_bv_width I e)%Z /\ Typing.bv_width s = Some (Z.to_N (Smtlib.get_bv_width I e))).
Proof. exact width_unknown_or_actual_weak_proof. Qed.
Print Assumptions width_unknown_or_actual_weak.

(* every subterm, in its own typing environment *)
Theorem subterm_sound : forall I g e s g' e',
  lookup_agrees I g -> consts_unbound g -> ops_unbound g -> sorts_canon I -> cons_agree I g ->
  type_of g e = Some s -> reach I g e g' e' ->
  exists s', type_of g' e' = Some s' /\
    (forall idx, Smtlib.get_sort I idx e' = None \/ Smtlib.get_sort I idx e' = Some s') /\
    (Smtlib.get_bv_width I e' = (-1)%Z \/ Smtlib.get_bv_width I e' = (-2)%Z \/
     ((0 <= Smtlib.get_bv_width I e')%Z /\ s' = sBV (Z.to_N (Smtlib.get_bv_width I e')))).
Proof. exact subterm_sound_proof. Qed.
Print Assumptions subterm_sound.

(* W4 *)
Theorem collect_decls_agrees : forall cmds,
  script_ok cmds = true ->
  lookup_agrees (collect_decls cmds) (decl_env cmds) /\
  consts_unbound (decl_env cmds) /\ ops_unbound (decl_env cmds) /\
  sorts_canon (collect_decls cmds) /\ cons_agree (collect_decls cmds) (decl_env cmds).
Proof. exact collect_decls_agrees_proof. Qed.
Print Assumptions collect_decls_agrees.

Theorem dec_round_trip : forall n, dec_of (to_dec n) = Some n.
Proof. exact dec_of_to_dec. Qed.
Print Assumptions dec_round_trip.

(* the hypotheses are satisfiable: a script with constants, functions, a datatype *)
Example hyps_satisfiable :
  lookup_agrees ex_I ex_g /\ consts_unbound ex_g /\ ops_unbound ex_g /\ sorts_canon ex_I /\ cons_agree ex_I ex_g.
Proof. exact ex_hyps. Qed.
Print Assumptions hyps_satisfiable.

Example reach_example : reach ex_I ex_g ex_q (bind_vars ex_g [(lit "y", sInt)]) (L (lit "y")).
Proof. exact ex_reach. Qed.

Example type_of_example :
  type_of (mk_env [(lit "x", sBV 4)] [] []) (T [T [L (lit "_"); L (lit "extract"); L (lit "2"); L (lit "1")]; L (lit "x")]) = Some (sBV 2).
Proof. vm_compute. reflexivity. Qed.
Print Assumptions type_of_example.

(* ---- the CONSEQUENCE clause of the property as theorems (Props/C16Conseq.v): Model/Defaults.v models
   get_default_constants and get_variables_with_sort (former oracle arguments of the mutator models), and the replacements
   of Constants, ReplaceByVariable and IntroduceFreshVariable 'of the same sort' are well-sorted for Spec/Typing.type_of *)
From DD Require Import Props.C16Conseq.
Theorem c16_default_constants_typed : ltac:(let t := type of default_constants_typed in exact t).
Proof. exact default_constants_typed. Qed.
Print Assumptions c16_default_constants_typed.
Theorem c16_variables_with_sort_typed : ltac:(let t := type of variables_with_sort_typed in exact t).
Proof. exact variables_with_sort_typed. Qed.
Print Assumptions c16_variables_with_sort_typed.
Theorem c16_constants_replacement_well_sorted : ltac:(let t := type of constants_replacement_well_sorted in exact t).
Proof. exact constants_replacement_well_sorted. Qed.
Print Assumptions c16_constants_replacement_well_sorted.
Theorem c16_replace_by_variable_well_sorted : ltac:(let t := type of replace_by_variable_well_sorted in exact t).
Proof. exact replace_by_variable_well_sorted. Qed.
Print Assumptions c16_replace_by_variable_well_sorted.
Theorem c16_fresh_variable_well_sorted : ltac:(let t := type of fresh_variable_well_sorted in exact t).
Proof. exact fresh_variable_well_sorted. Qed.
Print Assumptions c16_fresh_variable_well_sorted.
