(* C16 property theorems (placeholder until the sort-inference development lands). *)
From DD Require Import Spec.Typing.
Example type_of_example :
  type_of (mk_env [(lit "x", sBV 4)] [] []) (T [T [L (lit "_"); L (lit "extract"); L (lit "2"); L (lit "1")]; L (lit "x")]) = Some (sBV 2).
Proof. vm_compute. reflexivity. Qed.
Print Assumptions type_of_example.
