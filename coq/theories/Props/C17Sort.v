(* C17, the SORT half for the two substitution-based mutators: the replacement
   proposed by LetSubstitution (Model/LetRw.v) and by InlineDefinedFuns
   (Model/InlineRw.v) has the sort of the replaced term, for the typing function
   type_of of Spec/Typing.v.  (The VALUE half is in Props/C17Let.v and
   Props/C17Inline.v.)  Statements only; proofs in Proofs/Rw/LetSort.v and
   Proofs/Rw/InlineSort.v, where the side conditions are defined:

     type_pos_only x b   x occurs in b only where type_of types a term.  It is
                         term_pos_only (Proofs/Rw/LetSide.v, designed for eval)
                         adapted to type_of: the binder list of a forall/exists
                         must not mention x at all (term_pos_only checks only the
                         FIRST binder with [occurs] and accepts a sort that is the
                         leaf x in the following ones: cex_let_sort_quant_sort);
                         of an annotation (! t ..) only t is looked at.
     quant_free x b      x does not occur in the binder list of a quantifier of b
                         (in the positions that type_of reaches):
                         term_pos_only x b && quant_free x b -> type_pos_only x b
     let_side_ty e       let_side (the bound names are pairwise distinct) with
                         type_pos_only in the place of term_pos_only
     let_quant_side e    quant_free x body for every bound name x
     inline_side_ty d a  inline_side (Proofs/Rw/InlineSide.v) with type_pos_only
     inline_quant_side d quant_free p body for every formal p
     inline_guard d a    the guard of the mutator (after the fix of F19, Proofs/Rw/InlineSide.v)
     inline_side_ty_guarded d a
                         inline_side_ty without the two conjuncts that the guard establishes
                         (Proofs/Rw/InlineGuard.v): formal_ok, distinct names, type_pos_only
     builtin_op n        n is one of the operator names that type_app interprets
     user_head g n       an application with the head n is typed by the signature
                         of n in e_funs g: n is not _, let, forall, exists, !,
                         no builtin_op, no constructor or selector of e_dts g. *)
From DD Require Import Spec.Semantics Spec.Typing Model.Rewrites Model.LetRw Model.InlineRw.
From DD Require Import Proofs.Rw.TypeBase Proofs.Rw.LetSide Proofs.Rw.InlineSide Proofs.Rw.InlineSubst.
From DD Require Import Proofs.Rw.LetSort Proofs.Rw.InlineSort Proofs.Rw.InlineGuard.
Local Open Scope list_scope.

(* ================= (A) LetSubstitution ================= *)

(* every proposal of the mutator for a let whose bound names are pairwise
   distinct and occur in the body in typed positions only, in every environment *)
Theorem rw_let_subst_sort : forall e l e' g s,
  rw_let_subst e = Some l -> In e' l -> let_side_ty e = true ->
  type_of g e = Some s -> type_of g e' = Some s.
Proof. exact let_subst_sort. Qed.
Print Assumptions rw_let_subst_sort.

(* the same with the side condition of the value theorem (rw_let_subst_identity)
   and the ONE further condition that sorts need: no bound name occurs in the
   binder list of a quantifier of the body *)
Theorem rw_let_subst_sort_let_side : forall e l e' g s,
  rw_let_subst e = Some l -> In e' l -> let_side e = true -> let_quant_side e = true ->
  type_of g e = Some s -> type_of g e' = Some s.
Proof. exact let_subst_sort'. Qed.
Print Assumptions rw_let_subst_sort_let_side.

(* one proposal, with the side condition of the substituted binding (x t) only *)
Theorem rw_let_subst_sort_at : forall h bs body x t l e' g s,
  is_op (T [h; T bs; body]) "let" = true ->
  let_subst_var h (T bs) body (bound_syms (T [h; T bs; body])) (T [L x; t]) = Some l -> In e' l ->
  first_named x (T [L x; t]) bs = true -> type_pos_only x body = true ->
  type_of g (T [h; T bs; body]) = Some s -> type_of g e' = Some s.
Proof. exact let_subst_sort_at. Qed.
Print Assumptions rw_let_subst_sort_at.

(* the lemma behind both: in an environment where x has the sort of t, replacing
   x by t keeps the sort of b, if no binder of b binds x or a leaf of t *)
Theorem subst_all_type : forall x t st b g s,
  Typing.assoc x (e_vars g) = Some st -> type_of g t = Some st ->
  (forall y, y = x \/ In (L y) (subterms t) -> ~ In (L y) (bound_syms b)) ->
  type_pos_only x b = true ->
  type_of g b = Some s -> type_of g (subst_all (L x) t b) = Some s.
Proof. exact subst_type. Qed.
Print Assumptions subst_all_type.

(* type_of depends only on the e_vars bindings of the leaves of the term (and on
   e_funs, e_dts: the head of an application is not looked up in e_vars) *)
Theorem type_of_coincidence : forall t g1 g2,
  e_funs g1 = e_funs g2 -> e_dts g1 = e_dts g2 ->
  (forall y, In (L y) (subterms t) -> Typing.assoc y (e_vars g1) = Typing.assoc y (e_vars g2)) ->
  type_of g1 t = type_of g2 t.
Proof. exact type_coincidence. Qed.
Print Assumptions type_of_coincidence.

(* the two side conditions: term_pos_only and quant_free give type_pos_only *)
Theorem type_pos_only_of_term_pos_only : forall x e,
  term_pos_only x e = true -> quant_free x e = true -> type_pos_only x e = true.
Proof. exact tpo_qfree. Qed.
Print Assumptions type_pos_only_of_term_pos_only.

(* ================= (B) InlineDefinedFuns ================= *)

(* the general lemma, with two environments: g_in for the term b, g_out for the
   substituted term.  On the leaves of b: a key has in g_in the sort that its
   replacement has in g_out, any other leaf is looked up alike.  No key that
   occurs in b and no leaf of its replacement is bound inside b; the keys occur
   in typed positions only. *)
Theorem subst_map_type2 : forall m,
  (forall k a, In (k, a) m -> exists p, k = L p) ->
  forall b g_in g_out s,
  e_funs g_in = e_funs g_out -> e_dts g_in = e_dts g_out ->
  (forall y, In (L y) (subterms b) ->
     match assoc_last m (L y) with
     | Some a => exists sa, Typing.assoc y (e_vars g_in) = Some sa /\ type_of g_out a = Some sa
     | None => Typing.assoc y (e_vars g_in) = Typing.assoc y (e_vars g_out)
     end) ->
  (forall p, In (L p) (map fst m) -> type_pos_only p b = true) ->
  (forall y a, In (L y) (subterms b) -> assoc_last m (L y) = Some a ->
     ~ In (L y) (bound_syms b) /\ forall z, In (L z) (subterms a) -> ~ In (L z) (bound_syms b)) ->
  type_of g_in b = Some s -> type_of g_out (subst_map m b) = Some s.
Proof. exact subst_map_type. Qed.
Print Assumptions subst_map_type2.

(* the beta rule for sorts: the actuals have the sorts [sorts], the body has the
   sort s under the formals of those sorts *)
Theorem inline_beta_rule_sort : forall d args g sorts s,
  length (d_formals d) = length args ->
  inline_side_ty d args = true ->
  type_args g args = Some sorts ->
  type_of (bind_vars g (combine (formal_names d) sorts)) (d_body d) = Some s ->
  type_of g (subst_map (combine (map L (formal_names d)) args) (d_body d)) = Some s.
Proof. exact inline_beta_sort. Qed.
Print Assumptions inline_beta_rule_sort.

(* every proposal of the mutator at a use site e = (n a1 .. an), (n) or n *)
Theorem rw_inline_sort : forall defs e l e' n d args g sorts s,
  rw_inline defs e = Some l -> In e' l ->
  e = T (L n :: args) \/ (e = L n /\ args = []) ->
  lookup_def defs n = Some d ->
  inline_side_ty d args = true ->
  type_args g args = Some sorts ->
  type_of (bind_vars g (combine (formal_names d) sorts)) (d_body d) = Some s ->
  type_of g e' = Some s.
Proof. exact inline_sort. Qed.
Print Assumptions rw_inline_sort.

(* the same with the side condition of the value theorem (rw_inline_identity) and its missing part *)
Theorem rw_inline_sort_inline_side : forall defs e l e' n d args g sorts s,
  rw_inline defs e = Some l -> In e' l ->
  e = T (L n :: args) \/ (e = L n /\ args = []) ->
  lookup_def defs n = Some d ->
  inline_side d args = true -> inline_quant_side d = true ->
  type_args g args = Some sorts ->
  type_of (bind_vars g (combine (formal_names d) sorts)) (d_body d) = Some s ->
  type_of g e' = Some s.
Proof. exact inline_sort'. Qed.
Print Assumptions rw_inline_sort_inline_side.

(* the proposal has the sort of the call: the environment types the applications
   of n by the signature (sig, r) and the body of the definition has the sort r
   under the formals of the sorts sig *)
Theorem rw_inline_same_sort : forall defs l e' n d args g sig r s,
  rw_inline defs (T (L n :: args)) = Some l -> In e' l ->
  lookup_def defs n = Some d ->
  inline_side_ty d args = true ->
  user_head g n = true -> Typing.assoc n (e_funs g) = Some (sig, r) ->
  type_of (bind_vars g (combine (formal_names d) sig)) (d_body d) = Some r ->
  type_of g (T (L n :: args)) = Some s -> type_of g e' = Some s.
Proof. exact inline_same_sort. Qed.
Print Assumptions rw_inline_same_sort.

(* what user_head gives: a typed call has the result sort of the signature, its actuals the argument sorts *)
Theorem user_call_sort_inv : forall g n args sig r s,
  user_head g n = true -> Typing.assoc n (e_funs g) = Some (sig, r) ->
  type_of g (T (L n :: args)) = Some s -> type_args g args = Some sig /\ s = r.
Proof. exact call_sort_inv. Qed.
Print Assumptions user_call_sort_inv.

Theorem user_call_sort : forall g n args sig r,
  user_head g n = true -> Typing.assoc n (e_funs g) = Some (sig, r) -> args <> [] ->
  type_args g args = Some sig -> type_of g (T (L n :: args)) = Some r.
Proof. exact call_sort. Qed.
Print Assumptions user_call_sort.

(* ================= the premises are satisfiable ================= *)
Definition mklet (bs : list sexp) (body : sexp) : sexp := T [lf "let"; T bs; body].
Definition bd (x : string) (t : sexp) : sexp := T [lf x; t].
Definition ap (h : string) (args : list sexp) : sexp := T (lf h :: args).
Definition qf (vs : list sexp) (body : sexp) : sexp := T [lf "forall"; T vs; body].
Definition g_a : env := mk_env [(lit "a", sInt)] [] [].

(* (let ((x (+ a 1))) (> x x)) with a : Int is Bool; one proposal *)
Example ex_let_sort :
  let e := mklet [bd "x" (ap "+" [lf "a"; lf "1"])] (ap ">" [lf "x"; lf "x"]) in
  let e' := mklet [bd "x" (ap "+" [lf "a"; lf "1"])] (ap ">" [ap "+" [lf "a"; lf "1"]; ap "+" [lf "a"; lf "1"]]) in
  rw_let_subst e = Some [e'] /\ let_side_ty e = true /\ let_side e = true /\ let_quant_side e = true /\
  type_of g_a e = Some sBool.
Proof. vm_compute. repeat split. Qed.

Example ex_let_sort_applied :
  type_of g_a (mklet [bd "x" (ap "+" [lf "a"; lf "1"])] (ap ">" [ap "+" [lf "a"; lf "1"]; ap "+" [lf "a"; lf "1"]]))
  = Some sBool.
Proof.
  apply (rw_let_subst_sort (mklet [bd "x" (ap "+" [lf "a"; lf "1"])] (ap ">" [lf "x"; lf "x"])) _ _ g_a sBool
           (proj1 ex_let_sort)); [left; reflexivity | vm_compute; reflexivity | vm_compute; reflexivity].
Qed.

(* under a quantifier whose binder list does not mention the bound name:
   (let ((x (+ a 1))) (forall ((y Int)) (> y x))) *)
Example ex_let_sort_quant :
  let e := mklet [bd "x" (ap "+" [lf "a"; lf "1"])] (qf [bd "y" (lf "Int")] (ap ">" [lf "y"; lf "x"])) in
  let e' := mklet [bd "x" (ap "+" [lf "a"; lf "1"])] (qf [bd "y" (lf "Int")] (ap ">" [lf "y"; ap "+" [lf "a"; lf "1"]])) in
  rw_let_subst e = Some [e'] /\ let_side_ty e = true /\ type_of g_a e = Some sBool /\ type_of g_a e' = Some sBool.
Proof. vm_compute. repeat split. Qed.

(* type_pos_only is not stronger than term_pos_only either: the bound name in an attribute of an annotation,
   (let ((f 1)) (! (+ f 1) :pattern ((f 2)))) -- type_of looks at the annotated term only *)
Example ex_let_sort_annotation :
  let e := mklet [bd "f" (lf "1")] (T [lf "!"; ap "+" [lf "f"; lf "1"]; lf ":pattern"; T [ap "f" [lf "2"]]]) in
  exists e', rw_let_subst e = Some [e'] /\ let_side_ty e = true /\ let_side e = false /\
             type_of g_a e = Some sInt /\ type_of g_a e' = Some sInt.
Proof. eexists. vm_compute. repeat split. Qed.

(* ================= why the side conditions are needed ================= *)
(* the further condition (let_quant_side, the difference between let_side and let_side_ty): the bound name is
   the SORT of a quantified variable that is not the first of its binder list,
   (let ((Int 5)) (forall ((y Bool) (z Int)) (> z 0))) is Bool, the proposal
   (let ((Int 5)) (forall ((y Bool) (z 5)) (> z 0))) has no sort; let_side holds *)
Example cex_let_sort_quant_sort :
  let e := mklet [bd "Int" (lf "5")] (qf [bd "y" (lf "Bool"); bd "z" (lf "Int")] (ap ">" [lf "z"; lf "0"])) in
  exists e', rw_let_subst e = Some [e'] /\ type_of g_a e = Some sBool /\ type_of g_a e' = None /\
             let_side e = true /\ let_quant_side e = false /\ let_side_ty e = false.
Proof. eexists. vm_compute. repeat split. Qed.

(* the bound name is the head of an application that the environment types by a signature:
   (let ((f 5)) (f 1)) with f : Int -> Int *)
Definition g_f : env := mk_env [] [(lit "f", ([sInt], sInt))] [].
Example cex_let_sort_head :
  let e := mklet [bd "f" (lf "5")] (ap "f" [lf "1"]) in
  exists e', rw_let_subst e = Some [e'] /\ type_of g_f e = Some sInt /\ type_of g_f e' = None /\ let_side_ty e = false.
Proof. eexists. vm_compute. repeat split. Qed.

(* ... the width of a literal: (let ((4 3)) (_ bv5 4)) : (_ BitVec 4) becomes (_ bv5 3) : (_ BitVec 3) *)
Example cex_let_sort_bvlit :
  let e := mklet [bd "4" (lf "3")] (T [lf "_"; lf "bv5"; lf "4"]) in
  exists e', rw_let_subst e = Some [e'] /\ type_of g_a e = Some (sBV 4) /\ type_of g_a e' = Some (sBV 3) /\
             let_side_ty e = false.
Proof. eexists. vm_compute. repeat split. Qed.

(* ... an index: (let ((1 2)) ((_ zero_extend 1) #b1)) : (_ BitVec 2) becomes ((_ zero_extend 2) #b1) : (_ BitVec 3) *)
Example cex_let_sort_index :
  let e := mklet [bd "1" (lf "2")] (T [T [lf "_"; lf "zero_extend"; lf "1"]; lf "#b1"]) in
  exists e', rw_let_subst e = Some [e'] /\ type_of g_a e = Some (sBV 2) /\ type_of g_a e' = Some (sBV 3) /\
             let_side_ty e = false.
Proof. eexists. vm_compute. repeat split. Qed.

(* two bindings of one name: (let ((x 1) (x true)) x) is Int, the second proposal Bool *)
Example cex_let_sort_duplicate :
  let e := mklet [bd "x" (lf "1"); bd "x" (lf "true")] (lf "x") in
  exists e1 e2, rw_let_subst e = Some [e1; e2] /\ type_of g_a e = Some sInt /\ type_of g_a e1 = Some sInt /\
                type_of g_a e2 = Some sBool /\ let_side_ty e = false.
Proof. do 2 eexists. vm_compute. repeat split. Qed.

(* the guard of the mutator against capture is needed for sorts too:
   (let ((x (+ a 1))) (let ((a true)) (ite a x 0))) is Int; without the guard, (+ a 1) under a : Bool *)
Example cex_let_sort_unguarded_capture :
  let t := ap "+" [lf "a"; lf "1"] in
  let body := mklet [bd "a" (lf "true")] (ap "ite" [lf "a"; lf "x"; lf "0"]) in
  rw_let_subst (mklet [bd "x" t] body) = Some [] /\ let_side_ty (mklet [bd "x" t] body) = true /\
  type_of g_a (mklet [bd "x" t] body) = Some sInt /\
  type_of g_a (mklet [bd "x" t] (subst_all (lf "x") t body)) = None.
Proof. vm_compute. repeat split. Qed.

(* ================= (B): examples ================= *)
Definition fm (x : string) : sexp := T [lf x; lf "Int"].
Definition g_ab : env := mk_env [(lit "a", sInt); (lit "b", sInt)] [(lit "f", ([sInt; sInt], sInt))] [].

(* (define-fun f ((a Int) (b Int)) Int (- a b)) and the call (f b a): the actuals are the formals, swapped *)
Definition d_sub : defn := mk_defn (lit "f") [fm "a"; fm "b"] (ap "-" [lf "a"; lf "b"]).
Example ex_inline_sort :
  rw_inline [d_sub] (ap "f" [lf "b"; lf "a"]) = Some [ap "-" [lf "b"; lf "a"]] /\
  lookup_def [d_sub] (lit "f") = Some d_sub /\ inline_side_ty d_sub [lf "b"; lf "a"] = true /\
  user_head g_ab (lit "f") = true /\ Typing.assoc (lit "f") (e_funs g_ab) = Some (formal_sorts d_sub, sInt) /\
  type_of (bind_vars g_ab (combine (formal_names d_sub) (formal_sorts d_sub))) (d_body d_sub) = Some sInt /\
  type_of g_ab (ap "f" [lf "b"; lf "a"]) = Some sInt.
Proof. vm_compute. repeat split. Qed.

Example ex_inline_sort_applied : type_of g_ab (ap "-" [lf "b"; lf "a"]) = Some sInt.
Proof.
  apply (rw_inline_same_sort [d_sub] _ _ (lit "f") d_sub [lf "b"; lf "a"] g_ab (formal_sorts d_sub) sInt sInt
           (proj1 ex_inline_sort)); [left; reflexivity | | | | | |]; vm_compute; reflexivity.
Qed.

(* a defined constant, used as a leaf: (define-fun c () Int (+ a 1)) *)
Definition d_c : defn := mk_defn (lit "c") [] (ap "+" [lf "a"; lf "1"]).
Example ex_inline_sort_constant : type_of g_ab (ap "+" [lf "a"; lf "1"]) = Some sInt.
Proof.
  apply (rw_inline_sort [d_c] (lf "c") [ap "+" [lf "a"; lf "1"]] _ (lit "c") d_c [] g_ab [] sInt);
    [vm_compute; reflexivity | left; reflexivity | right; split; reflexivity | | | |]; vm_compute; reflexivity.
Qed.

(* the part of inline_side_ty that inline_side lacks: a formal that is the sort of a quantified variable,
   (define-fun f ((Int Int)) Bool (forall ((y Bool) (z Int)) (> z 0))) and the call (f 5) *)
Definition g_fb : env := mk_env [] [(lit "f", ([sInt], sBool))] [].
Definition d_qs : defn :=
  mk_defn (lit "f") [fm "Int"] (qf [bd "y" (lf "Bool"); bd "z" (lf "Int")] (ap ">" [lf "z"; lf "0"])).
Example cex_inline_sort_quant_sort :
  exists e', rw_inline [d_qs] (ap "f" [lf "5"]) = Some [e'] /\
             type_of (bind_vars g_fb (combine (formal_names d_qs) [sInt])) (d_body d_qs) = Some sBool /\
             type_of g_fb (ap "f" [lf "5"]) = Some sBool /\ type_of g_fb e' = None /\
             inline_side d_qs [lf "5"] = true /\ inline_quant_side d_qs = false /\ inline_side_ty d_qs [lf "5"] = false.
Proof. eexists. vm_compute. repeat split. Qed.

(* F19, capture, for sorts: (define-fun g ((x Int)) Int (let ((y true)) (ite y x 0))) and the call (g y), y : Int:
   the call is Int, the substituted body (let ((y true)) (ite y y 0)) has no sort.  Before the fix of F19 that
   was the proposal; the guard holds and nothing is proposed now *)
Definition g_gy : env := mk_env [(lit "y", sInt)] [(lit "g", ([sInt], sInt))] [].
Definition d_cap : defn := mk_defn (lit "g") [fm "x"] (mklet [bd "y" (lf "true")] (ap "ite" [lf "y"; lf "x"; lf "0"])).
Example cex_inline_sort_capture :
  exists e', subst_map (combine (map L (formal_names d_cap)) [lf "y"]) (d_body d_cap) = e' /\
             e' = mklet [bd "y" (lf "true")] (ap "ite" [lf "y"; lf "y"; lf "0"]) /\
             type_of (bind_vars g_gy (combine (formal_names d_cap) [sInt])) (d_body d_cap) = Some sInt /\
             type_of g_gy (ap "g" [lf "y"]) = Some sInt /\ type_of g_gy e' = None /\
             inline_side_ty d_cap [lf "y"] = false /\
             inline_guard d_cap [lf "y"] = true /\ rw_inline [d_cap] (ap "g" [lf "y"]) = Some [].
Proof. eexists. vm_compute. repeat split. Qed.

(* two formals of one name: (define-fun f ((a Int) (a Bool)) Int a), (f 1 true): the first one counts for
   the environment, the last one for the substitution *)
Definition g_dup : env := mk_env [] [(lit "f", ([sInt; sBool], sInt))] [].
Definition d_dup : defn := mk_defn (lit "f") [fm "a"; T [lf "a"; lf "Bool"]] (lf "a").
Example cex_inline_sort_duplicate_formals :
  rw_inline [d_dup] (ap "f" [lf "1"; lf "true"]) = Some [lf "true"] /\
  type_of (bind_vars g_dup (combine (formal_names d_dup) (formal_sorts d_dup))) (d_body d_dup) = Some sInt /\
  type_of g_dup (ap "f" [lf "1"; lf "true"]) = Some sInt /\ type_of g_dup (lf "true") = Some sBool /\
  inline_side_ty d_dup [lf "1"; lf "true"] = false.
Proof. vm_compute. repeat split. Qed.

(* user_head: a definition named like an operator of type_app is not typed by its signature,
   (define-fun + ((a Int) (b Int)) Bool (> a b)): the call (+ 1 2) is Int, the proposal (> 1 2) Bool *)
Definition g_plus : env := mk_env [] [(lit "+", ([sInt; sInt], sBool))] [].
Definition d_plus : defn := mk_defn (lit "+") [fm "a"; fm "b"] (ap ">" [lf "a"; lf "b"]).
Example cex_inline_sort_builtin_name :
  rw_inline [d_plus] (ap "+" [lf "1"; lf "2"]) = Some [ap ">" [lf "1"; lf "2"]] /\
  inline_side_ty d_plus [lf "1"; lf "2"] = true /\
  type_of (bind_vars g_plus (combine (formal_names d_plus) [sInt; sInt])) (d_body d_plus) = Some sBool /\
  type_of g_plus (ap "+" [lf "1"; lf "2"]) = Some sInt /\ type_of g_plus (ap ">" [lf "1"; lf "2"]) = Some sBool /\
  user_head g_plus (lit "+") = false.
Proof. vm_compute. repeat split. Qed.

(* ================= (B) after the fix of F19: the guard carries a part of the side condition ================= *)

(* a proposal for the call means that the guard did not hold; with it, the weaker condition is the full one *)
Theorem rw_inline_guard_gives_side_ty : forall defs e l e' n d args,
  rw_inline defs e = Some l -> In e' l ->
  e = T (L n :: args) \/ (e = L n /\ args = []) ->
  lookup_def defs n = Some d ->
  inline_side_ty_guarded d args = true -> inline_side_ty d args = true.
Proof. exact inline_guard_gives_side_ty. Qed.
Print Assumptions rw_inline_guard_gives_side_ty.

Theorem inline_unguarded_side_ty : forall d args,
  inline_guard d args = false -> inline_side_ty_guarded d args = true -> inline_side_ty d args = true.
Proof. exact guard_side_ty. Qed.
Print Assumptions inline_unguarded_side_ty.

Theorem inline_side_ty_gives_guarded : forall d args, inline_side_ty d args = true -> inline_side_ty_guarded d args = true.
Proof. exact side_ty_guarded_of_side_ty. Qed.
Print Assumptions inline_side_ty_gives_guarded.

(* rw_inline_sort with the weaker side condition *)
Theorem rw_inline_sort_guarded : forall defs e l e' n d args g sorts s,
  rw_inline defs e = Some l -> In e' l ->
  e = T (L n :: args) \/ (e = L n /\ args = []) ->
  lookup_def defs n = Some d ->
  inline_side_ty_guarded d args = true ->
  type_args g args = Some sorts ->
  type_of (bind_vars g (combine (formal_names d) sorts)) (d_body d) = Some s ->
  type_of g e' = Some s.
Proof. exact inline_sort_guarded. Qed.
Print Assumptions rw_inline_sort_guarded.

(* rw_inline_sort_inline_side with the weaker side condition of the value theorem (rw_inline_identity_guarded) *)
Theorem rw_inline_sort_inline_side_guarded : forall defs e l e' n d args g sorts s,
  rw_inline defs e = Some l -> In e' l ->
  e = T (L n :: args) \/ (e = L n /\ args = []) ->
  lookup_def defs n = Some d ->
  inline_side_guarded d args = true -> inline_quant_side d = true ->
  type_args g args = Some sorts ->
  type_of (bind_vars g (combine (formal_names d) sorts)) (d_body d) = Some s ->
  type_of g e' = Some s.
Proof. exact inline_sort'_guarded. Qed.
Print Assumptions rw_inline_sort_inline_side_guarded.

(* rw_inline_same_sort with the weaker side condition *)
Theorem rw_inline_same_sort_guarded : forall defs l e' n d args g sig r s,
  rw_inline defs (T (L n :: args)) = Some l -> In e' l ->
  lookup_def defs n = Some d ->
  inline_side_ty_guarded d args = true ->
  user_head g n = true -> Typing.assoc n (e_funs g) = Some (sig, r) ->
  type_of (bind_vars g (combine (formal_names d) sig)) (d_body d) = Some r ->
  type_of g (T (L n :: args)) = Some s -> type_of g e' = Some s.
Proof. exact inline_same_sort_guarded. Qed.
Print Assumptions rw_inline_same_sort_guarded.

Definition qe (vs : list sexp) (body : sexp) : sexp := T [lf "exists"; T vs; body].
Definition g_q : env := mk_env [(lit "q", sInt); (lit "y", sInt)] [(lit "g", ([sInt], sBool)); (lit "f", ([sInt], sBool))] [].

(* the capture instance of F19 with a quantifier: (define-fun g ((p Int)) Bool (exists ((y Int)) (> y p))), (g y) *)
Definition d_ex : defn := mk_defn (lit "g") [fm "p"] (qe [fm "y"] (ap ">" [lf "y"; lf "p"])).
Example f19_no_proposal_sort :
  rw_inline [d_ex] (ap "g" [lf "y"]) = Some [] /\ inline_guard d_ex [lf "y"] = true /\
  inline_side_ty_guarded d_ex [lf "y"] = true /\ inline_side_ty d_ex [lf "y"] = false.
Proof. vm_compute. repeat split. Qed.

(* a formal that is bound again: (define-fun f ((x Int)) Bool (forall ((x Int)) (>= SQ 0))), SQ the product of
   x and x, and the call (f (- 5)): the substituted body has the binder ((- 5) Int) and no sort *)
Definition d_all : defn := mk_defn (lit "f") [fm "x"] (qf [fm "x"] (ap ">=" [ap "*" [lf "x"; lf "x"]; lf "0"])).
Example f19_rebound_no_proposal_sort :
  rw_inline [d_all] (ap "f" [ap "-" [lf "5"]]) = Some [] /\ inline_guard d_all [ap "-" [lf "5"]] = true /\
  type_of g_q (ap "f" [ap "-" [lf "5"]]) = Some sBool /\
  type_of g_q (subst_map (combine (map L (formal_names d_all)) [ap "-" [lf "5"]]) (d_body d_all)) = None.
Proof. vm_compute. repeat split. Qed.

(* not vacuous: the quantifier binds neither the formal nor a leaf of the actual, (g (+ q 1)) *)
Example ex_inline_sort_guarded :
  let a := ap "+" [lf "q"; lf "1"] in
  rw_inline [d_ex] (ap "g" [a]) = Some [qe [fm "y"] (ap ">" [lf "y"; a])] /\
  lookup_def [d_ex] (lit "g") = Some d_ex /\ inline_side_ty_guarded d_ex [a] = true /\
  user_head g_q (lit "g") = true /\ Typing.assoc (lit "g") (e_funs g_q) = Some (formal_sorts d_ex, sBool) /\
  type_of (bind_vars g_q (combine (formal_names d_ex) (formal_sorts d_ex))) (d_body d_ex) = Some sBool /\
  type_of g_q (ap "g" [a]) = Some sBool.
Proof. vm_compute. repeat split. Qed.

Example ex_inline_sort_guarded_applied :
  type_of g_q (qe [fm "y"] (ap ">" [lf "y"; ap "+" [lf "q"; lf "1"]])) = Some sBool.
Proof.
  apply (rw_inline_same_sort_guarded [d_ex] _ _ (lit "g") d_ex [ap "+" [lf "q"; lf "1"]] g_q (formal_sorts d_ex) sBool sBool
           (proj1 ex_inline_sort_guarded)); [left; reflexivity | | | | | |]; vm_compute; reflexivity.
Qed.
