(* C03, layer 3, partial ranking: a measure [mu : sexp -> nat] (a polynomial
   interpretation, Proofs/Measure/Weights.v and Mu.v) that every one of the 15
   modelled rewrites (Model/Rewrites.v) strictly decreases, at the root (M1)
   and, [mu] being strictly monotone in every child position (M2), at any
   position of a term.  Hence no chain of these rewrites returns to its start
   (in particular none is a no-op), the rewrite relation is well founded and
   the length of every chain is bounded by the measure of its start (M3).
   This is a ranking for the modelled rewrites only: the tool's other mutators
   are not covered (the known cycles go through EliminateVariable,
   ReplaceByVariable and InlineDefinedFuns; see the C03 cycle search).
   Statements only; proofs in Proofs/Measure. *)
From Coq Require Import Relations.
From DD Require Import Model.Rewrites.
From DD Require Import Proofs.Measure.Weights Proofs.Measure.Mu Proofs.Measure.RootBase
  Proofs.Measure.RootBool Proofs.Measure.RootBv Proofs.Measure.Step Proofs.Measure.Examples.
Local Open Scope list_scope.

(* ================= M1: decrease at the root ================= *)
Theorem c03m_bool_double_neg : forall e l e',
  rw_bool_double_neg e = Some l -> In e' l -> mu e' < mu e.
Proof. exact bool_double_neg_decr. Qed.
Print Assumptions c03m_bool_double_neg.

Theorem c03m_bool_de_morgan : forall e l e',
  rw_bool_de_morgan e = Some l -> In e' l -> mu e' < mu e.
Proof. exact bool_de_morgan_decr. Qed.
Print Assumptions c03m_bool_de_morgan.

Theorem c03m_bool_false_eq : forall e l e',
  rw_bool_false_eq e = Some l -> In e' l -> mu e' < mu e.
Proof. exact bool_false_eq_decr. Qed.
Print Assumptions c03m_bool_false_eq.

Theorem c03m_bool_implication : forall e l e',
  rw_bool_implication e = Some l -> In e' l -> mu e' < mu e.
Proof. exact bool_implication_decr. Qed.
Print Assumptions c03m_bool_implication.

Theorem c03m_bool_xor_binary : forall e l e',
  rw_bool_xor_binary e = Some l -> In e' l -> mu e' < mu e.
Proof. exact bool_xor_binary_decr. Qed.
Print Assumptions c03m_bool_xor_binary.

Theorem c03m_arith_negate_relation : forall e l e',
  rw_arith_negate_relation e = Some l -> In e' l -> mu e' < mu e.
Proof. exact arith_negate_relation_decr. Qed.
Print Assumptions c03m_arith_negate_relation.

Theorem c03m_bv_normalize : forall e l e',
  rw_bv_normalize e = Some l -> In e' l -> mu e' < mu e.
Proof. exact bv_normalize_decr. Qed.
Print Assumptions c03m_bv_normalize.

Theorem c03m_bv_double_neg : forall e l e',
  rw_bv_double_neg e = Some l -> In e' l -> mu e' < mu e.
Proof. exact bv_double_neg_decr. Qed.
Print Assumptions c03m_bv_double_neg.

(* for every width oracle *)
Theorem c03m_bv_elim_bvcomp : forall (bw : sexp -> Z) e l e',
  rw_bv_elim_bvcomp bw e = Some l -> In e' l -> mu e' < mu e.
Proof. exact bv_elim_bvcomp_decr. Qed.
Print Assumptions c03m_bv_elim_bvcomp.

Theorem c03m_bv_eval_extend : forall e l e',
  rw_bv_eval_extend e = Some l -> In e' l -> mu e' < mu e.
Proof. exact bv_eval_extend_decr. Qed.
Print Assumptions c03m_bv_eval_extend.

Theorem c03m_bv_extract_const : forall e l e',
  rw_bv_extract_const e = Some l -> In e' l -> mu e' < mu e.
Proof. exact bv_extract_const_decr. Qed.
Print Assumptions c03m_bv_extract_const.

(* for every width oracle *)
Theorem c03m_bv_extract_zext : forall (bw : sexp -> Z) e l e',
  rw_bv_extract_zext bw e = Some l -> In e' l -> mu e' < mu e.
Proof. exact bv_extract_zext_decr. Qed.
Print Assumptions c03m_bv_extract_zext.

(* for every sort oracle *)
Theorem c03m_bv_ite_to_bvcomp : forall (is_bv_term : sexp -> bool) e l e',
  rw_bv_ite_to_bvcomp is_bv_term e = Some l -> In e' l -> mu e' < mu e.
Proof. exact bv_ite_to_bvcomp_decr. Qed.
Print Assumptions c03m_bv_ite_to_bvcomp.

Theorem c03m_bv_reflexive_nand : forall e l e',
  rw_bv_reflexive_nand e = Some l -> In e' l -> mu e' < mu e.
Proof. exact bv_reflexive_nand_decr. Qed.
Print Assumptions c03m_bv_reflexive_nand.

Theorem c03m_bv_merge_extend : forall e l e',
  rw_bv_merge_extend e = Some l -> In e' l -> mu e' < mu e.
Proof. exact bv_merge_extend_decr. Qed.
Print Assumptions c03m_bv_merge_extend.

(* ================= M2: monotonicity ================= *)
Theorem c03m_mu_positive : forall e, 1 <= mu e.
Proof. exact mu_pos. Qed.
Print Assumptions c03m_mu_positive.

(* every child position, the head position included *)
Theorem c03m_mu_monotone : forall pre x y post,
  mu y < mu x -> mu (T (pre ++ y :: post)) < mu (T (pre ++ x :: post)).
Proof. exact mu_mono. Qed.
Print Assumptions c03m_mu_monotone.

Theorem c03m_mu_monotone_arg : forall h pre x y post,
  mu y < mu x -> mu (T (h :: pre ++ y :: post)) < mu (T (h :: pre ++ x :: post)).
Proof. exact mu_mono_arg. Qed.
Print Assumptions c03m_mu_monotone_arg.

(* a rewrite of S15 applied at any position of a term *)
Theorem c03m_step_decreases : forall t t', step S15 t t' -> mu t' < mu t.
Proof. exact step_S15_decreases. Qed.
Print Assumptions c03m_step_decreases.

(* the same for every set of rewrites that decrease the measure at the root *)
Theorem c03m_step_decreases_gen : forall S : rewrite -> Prop,
  (forall R, S R -> forall e l e', R e = Some l -> In e' l -> mu e' < mu e) ->
  forall t t', step S t t' -> mu t' < mu t.
Proof. exact step_decreases. Qed.
Print Assumptions c03m_step_decreases_gen.

(* ================= M3: no cycles, well-foundedness ================= *)
Theorem c03m_no_cycles_partial : forall t t', clos_trans sexp (step S15) t t' -> t <> t'.
Proof. exact no_cycles_partial. Qed.
Print Assumptions c03m_no_cycles_partial.

Theorem c03m_no_noop_partial : forall t, ~ step S15 t t.
Proof. exact no_noop_partial. Qed.
Print Assumptions c03m_no_noop_partial.

Theorem c03m_step_well_founded : well_founded (fun t' t => step S15 t t').
Proof. exact step_S15_wf. Qed.
Print Assumptions c03m_step_well_founded.

Theorem c03m_chain_bounded : forall n t t', chain S15 n t t' -> n + mu t' <= mu t.
Proof. exact chain_S15_bounded. Qed.
Print Assumptions c03m_chain_bounded.

(* ================= M4: the boundary, by computation ================= *)
(* no modelled rewrite is left out of S15; what the measure has to get right: *)
(* the node count is not a ranking *)
Example c03m_size_grows_de_morgan : chk_size rw_bool_de_morgan (nt (T [lf "and"; x; y])) = (6, Some [8]).
Proof. exact size_grows_de_morgan. Qed.
Example c03m_size_grows_normalize : chk_size rw_bv_normalize (lf "#b101") = (1, Some [4]).
Proof. exact size_grows_normalize. Qed.
(* the relation symbols are swapped in inverse pairs; the removed negation pays *)
Example c03m_negator_inverse_pairs :
  (negator (lit "="), negator (lit "distinct"), negator (lit "<"), negator (lit ">="), negator (lit ">"), negator (lit "<="))
  = (Some "distinct", Some "=", Some ">=", Some "<", Some "<=", Some ">")%string.
Proof. exact negator_inverse_pairs. Qed.
Example c03m_negate_eq : rw_arith_negate_relation (nt (T [lf "="; x; y])) = Some [T [lf "distinct"; x; y]]
  /\ mu (nt (T [lf "="; x; y])) = 8 /\ mu (T [lf "distinct"; x; y]) = 5.
Proof. exact negate_eq. Qed.
Example c03m_negate_distinct : rw_arith_negate_relation (nt (T [lf "distinct"; x; y])) = Some [T [lf "="; x; y]]
  /\ mu (nt (T [lf "distinct"; x; y])) = 10 /\ mu (T [lf "="; x; y]) = 4.
Proof. exact negate_distinct. Qed.
(* the constant notations are translated in both directions, but not in a cycle *)
Example c03m_const_chain_extract :
  rw_bv_extract_const (T [ex "0" "0"; bvc "1" "1"]) = Some [lf "#b1"]
  /\ rw_bv_normalize (lf "#b1") = Some [bvc "1" "1"]
  /\ (mu (T [ex "0" "0"; bvc "1" "1"]), mu (lf "#b1"), mu (bvc "1" "1")) = (148, 4, 3).
Proof. exact const_chain_extract. Qed.
Example c03m_const_chain_sign_extend :
  rw_bv_eval_extend (T [se "1"; lf "#b1"]) = Some [lf "#b11"]
  /\ rw_bv_normalize (lf "#b11") = Some [bvc "3" "2"]
  /\ (mu (T [se "1"; lf "#b1"]), mu (lf "#b11"), mu (bvc "3" "2")) = (144, 4, 3).
Proof. exact const_chain_sign_extend. Qed.
(* a chain of three rewrites at different positions *)
Example c03m_chain_of_three : chain S15 3 t0 t3 /\ (mu t0, mu t1, mu t2, mu t3) = (22, 21, 11, 10).
Proof. exact chain_of_three. Qed.
