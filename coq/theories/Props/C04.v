(* C04: every run completes; meaningful exit status.
   (1) the exit status of the executable is 0 exactly when minimisation ran to
       completion (or --parser-test); usage errors give one diagnostic line;
   (2) a failure inside one mutator costs only that mutator's candidates (both
       call sites guard every call: the mutator is an arbitrary res-valued
       function here, so this covers all registered mutators and any future one);
   (3) the reader and the renderers are total functions (no exception on any
       text): they are Gallina functions without an error result
       (Model/Lexer.parse : str -> list sexp etc.), tied to the code by
       correspondence on arbitrary texts (C07/C08) and on the malformed stream.
   The absence of internal errors in collect_information, theory detection and
   the strategies' bookkeeping on malformed inputs is tied by the malformed-
   stream correspondence and real runs only (see DESIGN.md). *)
From DD Require Import Model.Cli Proofs.CliProofs Model.Lexer Model.Writer.

Theorem exit_status_zero_iff : forall o, exit_status o = 0%Z <-> (o = Completed \/ o = ParserTest).
Proof. exact exit_status_lemma. Qed.
Print Assumptions exit_status_zero_iff.

Theorem completed_iff : forall i,
  run_cli i = Completed <->
  (in_regular i = true /\ out_ok i = true /\ out_is_in i = false /\ parser_test i = false /\ has_cmd i = true /\ cmd_regular i = true /\ cmd_exec i = true
   /\ (has_cc i = true -> cc_regular i = true /\ cc_exec i = true /\ cc_runs i = true)
   /\ jobs_ok i = true /\ limits_ok i = true /\ in_decodable i = true /\ cmd_runs i = true /\ golden_has_match i = true /\ interrupted i = false /\ internal i = None).
Proof. exact run_cli_completed. Qed.
Print Assumptions completed_iff.

Theorem command_cannot_run : forall i,
  run_cli i = CommandCannotRun -> exit_status (run_cli i) = 1%Z /\ diagnostic_lines (run_cli i) = 1.
Proof. exact cannot_run_status. Qed.
Print Assumptions command_cannot_run.

Theorem status_zero_needs_every_check : forall i,
  exit_status (run_cli i) = 0%Z -> parser_test i = false ->
  in_regular i = true /\ out_ok i = true /\ out_is_in i = false /\ has_cmd i = true /\ cmd_regular i = true /\ cmd_exec i = true /\ jobs_ok i = true
  /\ limits_ok i = true /\ in_decodable i = true /\ cmd_runs i = true.
Proof. exact status_zero_checks. Qed.
Print Assumptions status_zero_needs_every_check.

Theorem usage_diag : forall i e,
  run_cli i = Usage e -> exit_status (run_cli i) = 1%Z /\ diagnostic_lines (run_cli i) = 1.
Proof. exact usage_one_line. Qed.
Print Assumptions usage_diag.

Theorem golden_match_missing : forall i, run_cli i = MatchStringMissing -> exit_status (run_cli i) = 1%Z.
Proof. exact match_missing_status. Qed.
Print Assumptions golden_match_missing.

Theorem mutator_isolated : forall (node simp : Type) (ms1 ms2 : list (mutator node simp)) m n k,
  (m_filter _ _ m n = Exn k \/ m_mutations _ _ m n = Exn k) ->
  mutate_node _ _ (ms1 ++ m :: ms2) n = mutate_node _ _ (ms1 ++ ms2) n.
Proof. exact mutator_isolated_lemma. Qed.
Print Assumptions mutator_isolated.

Theorem mutator_isolated_other_nodes : forall (node simp : Type) (ms : list (mutator node simp)) ns1 ns2 n,
  mutate_nodes _ _ ms (ns1 ++ n :: ns2) =
  mutate_nodes _ _ ms ns1 ++ mutate_node _ _ ms n ++ mutate_nodes _ _ ms ns2.
Proof. exact mutator_isolated_nodes. Qed.
Print Assumptions mutator_isolated_other_nodes.

(* the reader is total: every text has a parse (no exception result exists) *)
Theorem parse_total : forall t : str, exists es, parse t = es.
Proof. intros t. eexists. reflexivity. Qed.
Print Assumptions parse_total.
