(* C14 property theorems: which mutators are enabled after option processing
   and automatic theory detection (model Model/Options.v) agrees with the
   independent specification Spec/EnabledSpec.v for every registry table that
   passes registry_ok; the generated tables Gen/Tables.v pass tables_ok (by
   computation); the pass lists of both strategies consist of enabled classes.
   Proofs (and the definitions tables_ok, class_ok, sub_b, list_str_eqb,
   classes_of, enabled_list) are in Proofs/Opt. *)
From DD Require Import Base.Lit Model.Options Spec.EnabledSpec Gen.Tables.
From DD Require Import Proofs.Opt.OptBase Proofs.Opt.EnabledCorrect Proofs.Opt.Passes
  Proofs.Opt.TablesOk.
Local Open Scope list_scope.

(* E1: model = specification, any registry table *)
Theorem enabled_correct : forall tables os rel c,
  registry_ok tables = true ->
  enabled tables (auto_detect tables rel (parse_opts tables os)) c = enabled_spec tables os rel c.
Proof. exact enabled_correct_stmt. Qed.
Print Assumptions enabled_correct.

(* E1a: the namespace after parsing, pointwise (no function extensionality) *)
Theorem parse_mv_spec : forall tables os t co,
  registry_ok tables = true -> In t tables -> In co (opts_of t) ->
  mv (parse_opts tables os) co
  = match last_mention co (t_name t) os with Some v => v | None => true end.
Proof. exact parse_mv_stmt. Qed.
Print Assumptions parse_mv_spec.

Theorem parse_gv_spec : forall tables os t,
  In t tables ->
  (gv (parse_opts tables os) (t_name t) = None <-> group_set (t_name t) os = false).
Proof. exact parse_gv_stmt. Qed.
Print Assumptions parse_gv_spec.

(* E1b: detection changes an option only through the theory that owns it *)
Theorem auto_detect_mv_spec : forall tables rel s t co,
  registry_ok tables = true -> In t tables -> In co (opts_of t) ->
  mv (auto_detect tables rel s) co
  = match gv s (t_name t) with
    | Some _ => mv s co
    | None => if t_rel t && negb (rel (t_name t)) then false else mv s co
    end.
Proof. exact auto_detect_mv_stmt. Qed.
Print Assumptions auto_detect_mv_spec.

(* E2: the generated tables *)
Theorem registry_sound : tables_ok = true.
Proof. exact registry_sound_proof. Qed.
Print Assumptions registry_sound.

Theorem registered_classes_defined_gen : forall t rc,
  In t theories -> In rc (t_reg t) ->
  exists e d, find (fun e => str_eqb (fst e) (t_name t)) classes = Some e
              /\ In d (snd e) /\ fst (fst (fst d)) = fst rc
              /\ (snd (fst d) || snd d = true).
Proof. exact registered_classes_defined. Qed.
Print Assumptions registered_classes_defined_gen.

Theorem enabled_correct_gen : forall os rel c,
  enabled theories (auto_detect theories rel (parse_opts theories os)) c
  = enabled_spec theories os rel c.
Proof. exact enabled_correct_gen_proof. Qed.
Print Assumptions enabled_correct_gen.

(* E3: hierarchical passes *)
Theorem hier_last_pass : forall tables p1 p2 late,
  registry_ok tables = true -> (forall x, In x late -> In x (all_classes tables)) ->
  forall s c, In c (last (hier_passes tables p1 p2 late s) []) <-> enabled tables s c = true.
Proof. exact hier_last_pass_proof. Qed.
Print Assumptions hier_last_pass.

(* the same without the two hypotheses, which the proof does not use *)
Theorem hier_last_pass_nohyp : forall tables p1 p2 late s c,
  In c (last (hier_passes tables p1 p2 late s) []) <-> enabled tables s c = true.
Proof. exact hier_last_pass_strong. Qed.
Print Assumptions hier_last_pass_nohyp.

Theorem hier_passes_sub : forall tables p1 p2 late s p c,
  In p (hier_passes tables p1 p2 late s) -> In c p -> enabled tables s c = true.
Proof. exact hier_passes_sub_proof. Qed.
Print Assumptions hier_passes_sub.

Theorem hier_last_pass_gen : forall s c,
  In c (last (hier_passes theories hier_prelude1 hier_prelude2 hier_late s) [])
  <-> enabled theories s c = true.
Proof. exact hier_last_pass_gen_proof. Qed.
Print Assumptions hier_last_pass_gen.

Theorem hier_passes_sub_gen : forall s p c,
  In p (hier_passes theories hier_prelude1 hier_prelude2 hier_late s) -> In c p ->
  enabled theories s c = true.
Proof. exact hier_passes_sub_gen_proof. Qed.
Print Assumptions hier_passes_sub_gen.

(* E4: ddmin passes.  The last hypothesis is an additional side condition
   (BinaryReduction is in neither stage list); without it the statement is false. *)
Theorem ddmin_passes_spec : forall tables stage1 stage2 exclude,
  registry_ok tables = true ->
  (forall x, In x stage1 -> In x (all_classes tables)) ->
  (forall x, In x stage2 -> In x (all_classes tables)) ->
  (forall x, In x exclude -> In x (all_classes tables)) ->
  exclude = [s_BinaryReduction] ->
  In s_EraseNode (all_classes tables) ->
  mem_str s_BinaryReduction (stage1 ++ stage2) = false ->
  forall s c, In c (concat (ddmin_passes tables stage1 stage2 exclude s))
              <-> (enabled tables s c = true /\ c <> s_BinaryReduction).
Proof. exact ddmin_passes_spec_proof. Qed.
Print Assumptions ddmin_passes_spec.

(* the same with only the hypotheses the proof uses *)
Theorem ddmin_passes_spec_min : forall tables stage1 stage2 exclude,
  exclude = [s_BinaryReduction] ->
  mem_str s_BinaryReduction (stage1 ++ stage2) = false ->
  forall s c, In c (concat (ddmin_passes tables stage1 stage2 exclude s))
              <-> (enabled tables s c = true /\ c <> s_BinaryReduction).
Proof. exact ddmin_passes_spec_strong. Qed.
Print Assumptions ddmin_passes_spec_min.

Theorem ddmin_passes_spec_gen : forall s c,
  In c (concat (ddmin_passes theories ddmin_stage1 ddmin_stage2 ddmin_exclude s))
  <-> (enabled theories s c = true /\ c <> s_BinaryReduction).
Proof. exact ddmin_passes_spec_gen_proof. Qed.
Print Assumptions ddmin_passes_spec_gen.

(* E5: examples over the generated tables (enabled_list = the registered
   classes that are enabled, classes_of = the registered classes of a theory) *)

(* --disable-all --constants --bv, nothing of any theory declared in the input *)
Example ex_disable_all_then_enable :
  enabled_list [CDisableAll; CMut (lit "constants") true; CGroup (lit "bv") true] (fun _ => false)
  = lit "Constants" :: classes_of (lit "bv").
Proof. vm_compute. reflexivity. Qed.

(* the order matters: --bv --disable-all --constants leaves only Constants *)
Example ex_order_matters :
  enabled_list [CGroup (lit "bv") true; CDisableAll; CMut (lit "constants") true] (fun _ => false)
  = [lit "Constants"].
Proof. vm_compute. reflexivity. Qed.

(* the user only says --no-bv-zero-concat, the input uses bit-vectors only:
   detection switches off arithmetic, datatypes, fp and strings, which the user
   did not mention; theories without is_relevant stay on *)
Example ex_auto_detect_off :
  enabled_list [CMut (lit "bv-zero-concat") false] (fun tn => str_eqb tn (lit "bv"))
  = filter (fun c => negb (str_eqb c (lit "BVConcatToZeroExtend")))
      (classes_of (lit "core") ++ classes_of (lit "bv") ++ classes_of (lit "boolean")
       ++ classes_of (lit "smtlib")).
Proof. vm_compute. reflexivity. Qed.

Example ex_auto_detect_fp_off :
  enabled theories (auto_detect theories (fun tn => str_eqb tn (lit "bv"))
                      (parse_opts theories [CMut (lit "bv-zero-concat") false]))
          (lit "FPShortSort") = false.
Proof. vm_compute. reflexivity. Qed.

(* a group the user set explicitly is not touched by detection *)
Example ex_explicit_group_kept :
  enabled_list [CDisableAll; CGroup (lit "fp") true] (fun _ => false) = classes_of (lit "fp").
Proof. vm_compute. reflexivity. Qed.

(* an unknown group name is ignored and does not count as a mention *)
Example ex_unknown_group :
  enabled_list [CGroup (lit "nonesuch") false] (fun _ => true) = all_classes theories.
Proof. vm_compute. reflexivity. Qed.

(* the passes of both strategies after --disable-all --constants --bv *)
Example ex_hier_last :
  last (hier_passes theories hier_prelude1 hier_prelude2 hier_late
          (auto_detect theories (fun _ => false)
             (parse_opts theories [CDisableAll; CMut (lit "constants") true; CGroup (lit "bv") true])))
       []
  = lit "Constants" :: classes_of (lit "bv").
Proof. vm_compute. reflexivity. Qed.

Example ex_ddmin_default_no_binred :
  existsb (str_eqb s_BinaryReduction)
    (concat (ddmin_passes theories ddmin_stage1 ddmin_stage2 ddmin_exclude ns0)) = false
  /\ enabled theories ns0 s_BinaryReduction = true.
Proof. vm_compute. split; reflexivity. Qed.
