(* C14 property theorems (placeholder until the options development lands). *)
From DD Require Import Model.Options.
Theorem upd_same : forall (f : str -> bool) k v, upd f k v k = v.
Proof. intros. unfold upd. rewrite str_eqb_refl. reflexivity. Qed.
Print Assumptions upd_same.
