(* C15 property theorems: every proposed simplification consists of leaves that
   are single tokens, so that the tree kept in memory equals what a reader
   parses from the file that was written.
   K1: well-formedness is a property of the token sequence.
   K2: the token specification of substitute yields single tokens when the
       input and the replacement values consist of single tokens.
   K3/K4: the result of substitute / apply_simp is well formed and is read back
       unchanged from each of the four renderings.
   K5: each modelled rewrite proposes replacements that are well formed when
       the rewritten node is (subterms and freshly written atoms).
   Proofs are in Proofs/Closure. *)
From DD Require Import Base.Lit Model.Subst Model.Lexer Model.Writer Model.Rewrites Spec.StdReader.
From DD Require Import Proofs.Subst.SubstBase Proofs.Subst.SubstTokens Proofs.Subst.SubstClosed.
From DD Require Import Proofs.Closure.Tokens Proofs.Closure.Closed Proofs.Closure.Atoms
  Proofs.Closure.RwClosed Proofs.Closure.Examples.
Local Open Scope list_scope.
Local Open Scope Z_scope.

(* ---- K1 ---- *)
Theorem wf_iff_tokens : forall e,
  wf e = true <-> Forall (fun x => lex_ok x = true) (flat e).
Proof. exact wf_iff_tokens_proof. Qed.
Print Assumptions wf_iff_tokens.

Theorem wfs_iff_tokens : forall es,
  forallb wf es = true <-> Forall (fun x => lex_ok x = true) (flats es).
Proof. exact wfs_iff_tokens_proof. Qed.
Print Assumptions wfs_iff_tokens.

Theorem flats_shape : forall l, flats (map shape l) = flat_map toks l.
Proof. exact flats_shape_proof. Qed.
Print Assumptions flats_shape.

(* ---- K2 ---- *)
Theorem spec_toks_ok : forall hstr ri rs l,
  forallb wf (map shape l) = true ->
  (forall v, In v (vals_i ri ++ vals_s rs) -> wf (shape v) = true) ->
  Forall (fun x => lex_ok x = true) (flat_map (spec_toks hstr ri rs) l).
Proof. exact spec_toks_ok_proof. Qed.
Print Assumptions spec_toks_ok.

(* ---- K3 ---- *)
Theorem closed_apply : forall hstr htup l ri rs next,
  NoDup (ids_l l) ->
  (forall j, In j (ids_l l) -> j <= next) ->
  (forall v x y, In v (vals_i ri ++ vals_s rs) -> In x (subnodes v) -> In y (subnodes_l l) ->
                 nid x = nid y -> shape x = shape y) ->
  forallb wf (map shape l) = true ->
  (forall v, In v (vals_i ri ++ vals_s rs) -> wf (shape v) = true) ->
  let r := snd (fst (substitute hstr htup l ri rs next)) in
  forallb wf (map shape r) = true /\
  parse (w_check (map shape r)) = map shape r /\
  parse (w_default (map shape r)) = map shape r /\
  parse (w_pretty (map shape r)) = map shape r /\
  parse (w_wrap (map shape r)) = map shape r.
Proof. exact closed_apply_proof. Qed.
Print Assumptions closed_apply.

(* ---- K4 ---- *)
Theorem closed_apply_simp : forall hstr htup l ri rs vars next,
  NoDup (ids_l l) ->
  (forall j, In j (ids_l l) -> j <= next) ->
  (forall v x y, In v (vals_i ri ++ vals_s rs) -> In x (subnodes v) -> In y (subnodes_l l) ->
                 nid x = nid y -> shape x = shape y) ->
  forallb wf (map shape l) = true ->
  (forall v, In v (vals_i ri ++ vals_s rs) -> wf (shape v) = true) ->
  forallb wf (map shape vars) = true ->
  let r := snd (fst (apply_simp hstr htup l ri rs vars next)) in
  forallb wf (map shape r) = true /\
  parse (w_check (map shape r)) = map shape r /\
  parse (w_default (map shape r)) = map shape r /\
  parse (w_pretty (map shape r)) = map shape r /\
  parse (w_wrap (map shape r)) = map shape r.
Proof. exact closed_apply_simp_proof. Qed.
Print Assumptions closed_apply_simp.

(* the result of apply_simp is the substituted list, possibly with the
   declarations inserted after a prefix of set-info / set-logic commands *)
Theorem apply_simp_shape : forall hstr htup l ri rs vars next,
  let s := snd (fst (substitute hstr htup l ri rs next)) in
  let r := snd (fst (apply_simp hstr htup l ri rs vars next)) in
  r = s \/ exists pre post, s = pre ++ post /\ r = pre ++ vars ++ post /\
                            forallb is_prefix_cmd pre = true.
Proof. exact apply_simp_shape_proof. Qed.
Print Assumptions apply_simp_shape.

(* ---- K5: freshly written numerals ---- *)
Theorem to_dec_digits : forall n, forallb is_digit (to_dec n) = true /\ to_dec n <> [].
Proof. exact to_dec_digits_proof. Qed.
Print Assumptions to_dec_digits.

Theorem to_bin_digits : forall n, forallb is_digit (to_bin n) = true /\ to_bin n <> [].
Proof. exact to_bin_digits_proof. Qed.
Print Assumptions to_bin_digits.

Theorem digits_leaf : forall s, s <> [] -> forallb is_digit s = true -> leaf_ok s = true.
Proof. exact digits_leaf_proof. Qed.
Print Assumptions digits_leaf.

Theorem z_to_dec_is_leaf : forall z, leaf_ok (z_to_dec z) = true.
Proof. exact z_to_dec_leaf. Qed.
Print Assumptions z_to_dec_is_leaf.

Theorem bv_name_is_leaf : forall z, leaf_ok (lit "bv" ++ z_to_dec z) = true.
Proof. exact bv_name_leaf. Qed.
Print Assumptions bv_name_is_leaf.

Theorem bin_lit_is_leaf : forall ds, forallb is_digit ds = true -> leaf_ok (cHASH :: c_b :: ds) = true.
Proof. exact bin_lit_leaf. Qed.
Print Assumptions bin_lit_is_leaf.

(* ---- K5: per-rewrite closure ---- *)
Theorem rw_bool_double_neg_wf : forall e l e',
  wf e = true -> rw_bool_double_neg e = Some l -> In e' l -> wf e' = true.
Proof. exact rw_bool_double_neg_closed. Qed.
Print Assumptions rw_bool_double_neg_wf.

Theorem rw_bool_de_morgan_wf : forall e l e',
  wf e = true -> rw_bool_de_morgan e = Some l -> In e' l -> wf e' = true.
Proof. exact rw_bool_de_morgan_closed. Qed.
Print Assumptions rw_bool_de_morgan_wf.

Theorem rw_bool_false_eq_wf : forall e l e',
  wf e = true -> rw_bool_false_eq e = Some l -> In e' l -> wf e' = true.
Proof. exact rw_bool_false_eq_closed. Qed.
Print Assumptions rw_bool_false_eq_wf.

Theorem rw_bool_implication_wf : forall e l e',
  wf e = true -> rw_bool_implication e = Some l -> In e' l -> wf e' = true.
Proof. exact rw_bool_implication_closed. Qed.
Print Assumptions rw_bool_implication_wf.

Theorem rw_bool_xor_binary_wf : forall e l e',
  wf e = true -> rw_bool_xor_binary e = Some l -> In e' l -> wf e' = true.
Proof. exact rw_bool_xor_binary_closed. Qed.
Print Assumptions rw_bool_xor_binary_wf.

Theorem rw_arith_negate_relation_wf : forall e l e',
  wf e = true -> rw_arith_negate_relation e = Some l -> In e' l -> wf e' = true.
Proof. exact rw_arith_negate_relation_closed. Qed.
Print Assumptions rw_arith_negate_relation_wf.

Theorem rw_bv_normalize_wf : forall e l e',
  wf e = true -> rw_bv_normalize e = Some l -> In e' l -> wf e' = true.
Proof. exact rw_bv_normalize_closed. Qed.
Print Assumptions rw_bv_normalize_wf.

Theorem rw_bv_double_neg_wf : forall e l e',
  wf e = true -> rw_bv_double_neg e = Some l -> In e' l -> wf e' = true.
Proof. exact rw_bv_double_neg_closed. Qed.
Print Assumptions rw_bv_double_neg_wf.

Theorem rw_bv_elim_bvcomp_wf : forall bw e l e',
  wf e = true -> rw_bv_elim_bvcomp bw e = Some l -> In e' l -> wf e' = true.
Proof. exact rw_bv_elim_bvcomp_closed. Qed.
Print Assumptions rw_bv_elim_bvcomp_wf.

Theorem rw_bv_eval_extend_wf : forall e l e',
  wf e = true -> rw_bv_eval_extend e = Some l -> In e' l -> wf e' = true.
Proof. exact rw_bv_eval_extend_closed. Qed.
Print Assumptions rw_bv_eval_extend_wf.

Theorem rw_bv_extract_const_wf : forall e l e',
  wf e = true -> rw_bv_extract_const e = Some l -> In e' l -> wf e' = true.
Proof. exact rw_bv_extract_const_closed. Qed.
Print Assumptions rw_bv_extract_const_wf.

Theorem rw_bv_extract_zext_wf : forall bw e l e',
  wf e = true -> rw_bv_extract_zext bw e = Some l -> In e' l -> wf e' = true.
Proof. exact rw_bv_extract_zext_closed. Qed.
Print Assumptions rw_bv_extract_zext_wf.

Theorem rw_bv_ite_to_bvcomp_wf : forall p e l e',
  wf e = true -> rw_bv_ite_to_bvcomp p e = Some l -> In e' l -> wf e' = true.
Proof. exact rw_bv_ite_to_bvcomp_closed. Qed.
Print Assumptions rw_bv_ite_to_bvcomp_wf.

Theorem rw_bv_reflexive_nand_wf : forall e l e',
  wf e = true -> rw_bv_reflexive_nand e = Some l -> In e' l -> wf e' = true.
Proof. exact rw_bv_reflexive_nand_closed. Qed.
Print Assumptions rw_bv_reflexive_nand_wf.

Theorem rw_bv_merge_extend_wf : forall e l e',
  wf e = true -> rw_bv_merge_extend e = Some l -> In e' l -> wf e' = true.
Proof. exact rw_bv_merge_extend_closed. Qed.
Print Assumptions rw_bv_merge_extend_wf.

(* ---- examples ---- *)

(* the hypotheses of K3/K4 hold for: input (set-logic QF_LIA) (assert (> x 1)),
   the leaf x (identity 6) replaced by (+ y 2), y declared *)
Example closed_apply_ex_hyps :
  NoDup (ids_l ex_input) /\
  (forall j, In j (ids_l ex_input) -> j <= ex_next) /\
  (forall v x y, In v (vals_i ex_ri ++ vals_s []) -> In x (subnodes v) ->
                 In y (subnodes_l ex_input) -> nid x = nid y -> shape x = shape y) /\
  forallb wf (map shape ex_input) = true /\
  (forall v, In v (vals_i ex_ri ++ vals_s []) -> wf (shape v) = true) /\
  forallb wf (map shape ex_vars) = true.
Proof. exact (conj ex_nodup (conj ex_bound (conj ex_coherent (conj ex_input_wf (conj ex_vals_wf ex_vars_wf))))). Qed.

(* K3 applied to it *)
Example closed_apply_ex :
  let r := snd (fst (substitute ex_hs ex_ht ex_input ex_ri [] ex_next)) in
  forallb wf (map shape r) = true /\
  parse (w_check (map shape r)) = map shape r /\
  parse (w_default (map shape r)) = map shape r /\
  parse (w_pretty (map shape r)) = map shape r /\
  parse (w_wrap (map shape r)) = map shape r.
Proof.
  exact (closed_apply ex_hs ex_ht ex_input ex_ri [] ex_next
           ex_nodup ex_bound ex_coherent ex_input_wf ex_vals_wf).
Qed.

(* K4 applied to it *)
Example closed_apply_simp_ex :
  let r := snd (fst (apply_simp ex_hs ex_ht ex_input ex_ri [] ex_vars ex_next)) in
  forallb wf (map shape r) = true /\
  parse (w_check (map shape r)) = map shape r /\
  parse (w_default (map shape r)) = map shape r /\
  parse (w_pretty (map shape r)) = map shape r /\
  parse (w_wrap (map shape r)) = map shape r.
Proof.
  exact (closed_apply_simp ex_hs ex_ht ex_input ex_ri [] ex_vars ex_next
           ex_nodup ex_bound ex_coherent ex_input_wf ex_vals_wf ex_vars_wf).
Qed.

(* the same by computation, with the resulting trees *)
Example closed_apply_ex_compute :
  let r := snd (fst (substitute ex_hs ex_ht ex_input ex_ri [] ex_next)) in
  let r' := snd (fst (apply_simp ex_hs ex_ht ex_input ex_ri [] ex_vars ex_next)) in
  map shape r = [ T [lf "set-logic"; lf "QF_LIA"];
                  T [lf "assert"; T [lf ">"; T [lf "+"; lf "y"; lf "2"]; lf "1"]] ] /\
  map shape r' = [ T [lf "set-logic"; lf "QF_LIA"];
                   T [lf "declare-const"; lf "y"; lf "Int"];
                   T [lf "assert"; T [lf ">"; T [lf "+"; lf "y"; lf "2"]; lf "1"]] ] /\
  parse (w_check (map shape r)) = map shape r /\ parse (w_default (map shape r)) = map shape r /\
  parse (w_pretty (map shape r)) = map shape r /\ parse (w_wrap (map shape r)) = map shape r /\
  parse (w_check (map shape r')) = map shape r' /\ parse (w_default (map shape r')) = map shape r' /\
  parse (w_pretty (map shape r')) = map shape r' /\ parse (w_wrap (map shape r')) = map shape r'.
Proof. vm_compute. repeat split; reflexivity. Qed.

(* the hypothesis on the replacement values is needed: a value whose leaf is
   the text of two tokens is one leaf in memory and two leaves in the file *)
Example closed_apply_needs_wf :
  let r := snd (fst (substitute ex_hs ex_ht ex_input [(6, Some (NL 10 (lit "y z")))] [] ex_next)) in
  wf (L (lit "y z")) = false /\
  map shape r = [ T [lf "set-logic"; lf "QF_LIA"]; T [lf "assert"; T [lf ">"; lf "y z"; lf "1"]] ] /\
  parse (w_check (map shape r))
    = [ T [lf "set-logic"; lf "QF_LIA"]; T [lf "assert"; T [lf ">"; lf "y"; lf "z"; lf "1"]] ].
Proof. vm_compute. repeat split; reflexivity. Qed.

(* rewrites that write numerals, evaluated *)
Example rw_closed_ex :
  rw_bv_normalize (lf "#b101") = Some [T [lf "_"; lf "bv5"; lf "3"]] /\
  rw_bv_extract_const (T [T [lf "_"; lf "extract"; lf "2"; lf "1"]; lf "#b0110"]) = Some [lf "#b11"] /\
  rw_bv_eval_extend (T [T [lf "_"; lf "sign_extend"; lf "2"]; lf "#b10"]) = Some [lf "#b1110"] /\
  rw_bool_de_morgan (T [lf "not"; T [lf "and"; lf "a"; lf "b"]])
    = Some [T [lf "or"; T [lf "not"; lf "a"]; T [lf "not"; lf "b"]]].
Proof. vm_compute. repeat split; reflexivity. Qed.

(* closure of the structural mutators, of LetSubstitution and of the names proposed by SimplifySymbolNames
   (Model/CoreRw.v, Model/LetRw.v; statements in Props/CoreRw.v and Props/C17Let.v) *)
From DD Require Import Props.CoreRw Props.C17Let.
Theorem c15_erase_child_closed : ltac:(let t := type of core_erase_child_closed in exact t).
Proof. exact core_erase_child_closed. Qed.
Print Assumptions c15_erase_child_closed.
Theorem c15_replace_by_child_closed : ltac:(let t := type of core_replace_by_child_closed in exact t).
Proof. exact core_replace_by_child_closed. Qed.
Print Assumptions c15_replace_by_child_closed.
Theorem c15_merge_children_closed : ltac:(let t := type of core_merge_children_closed in exact t).
Proof. exact core_merge_children_closed. Qed.
Print Assumptions c15_merge_children_closed.
Theorem c15_sort_children_closed : ltac:(let t := type of core_sort_children_closed in exact t).
Proof. exact core_sort_children_closed. Qed.
Print Assumptions c15_sort_children_closed.
Theorem c15_binary_reduction_closed : ltac:(let t := type of core_binary_reduction_closed in exact t).
Proof. exact core_binary_reduction_closed. Qed.
Print Assumptions c15_binary_reduction_closed.
Theorem c15_let_elim_closed : ltac:(let t := type of core_let_elim_closed in exact t).
Proof. exact core_let_elim_closed. Qed.
Print Assumptions c15_let_elim_closed.
Theorem c15_let_subst_closed : ltac:(let t := type of rw_let_subst_wf in exact t).
Proof. exact rw_let_subst_wf. Qed.
Print Assumptions c15_let_subst_closed.
Theorem c15_symbol_names_are_symbols : ltac:(let t := type of core_ssn_symbol_wf in exact t).
Proof. exact core_ssn_symbol_wf. Qed.
Print Assumptions c15_symbol_names_are_symbols.

From DD Require Import Props.C17Inline.
Theorem c15_inline_closed : ltac:(let t := type of rw_inline_wf in exact t).
Proof. exact rw_inline_wf. Qed.
Print Assumptions c15_inline_closed.

(* closure of 15 further mutators (Model/SmtlibRw.v, Model/ConstRw.v; statements in Props/SmtlibRwProps.v and Props/ConstRwProps.v) *)
From DD Require Import Props.SmtlibRwProps Props.ConstRwProps.
Theorem c15_simplify_logic_closed : ltac:(let t := type of more1_simplify_logic_closed in exact t).
Proof. exact more1_simplify_logic_closed. Qed.
Print Assumptions c15_simplify_logic_closed.
Theorem c15_simplify_quoted_closed : ltac:(let t := type of more1_simplify_quoted_closed in exact t).
Proof. exact more1_simplify_quoted_closed. Qed.
Print Assumptions c15_simplify_quoted_closed.
Theorem c15_remove_rec_fun_closed : ltac:(let t := type of more1_remove_rec_fun_closed in exact t).
Proof. exact more1_remove_rec_fun_closed. Qed.
Print Assumptions c15_remove_rec_fun_closed.
Theorem c15_negate_quant_closed : ltac:(let t := type of more1_negate_quant_closed in exact t).
Proof. exact more1_negate_quant_closed. Qed.
Print Assumptions c15_negate_quant_closed.
Theorem c15_arith_simp_const_closed : ltac:(let t := type of rw_arith_simp_const_wf in exact t).
Proof. exact rw_arith_simp_const_wf. Qed.
Print Assumptions c15_arith_simp_const_closed.
Theorem c15_bv_simp_consts_closed : ltac:(let t := type of rw_bv_simp_consts_wf in exact t).
Proof. exact rw_bv_simp_consts_wf. Qed.
Print Assumptions c15_bv_simp_consts_closed.
Theorem c15_bv_to_bool_closed : ltac:(let t := type of rw_bv_to_bool_wf in exact t).
Proof. exact rw_bv_to_bool_wf. Qed.
Print Assumptions c15_bv_to_bool_closed.
Theorem c15_str_replace_all_closed : ltac:(let t := type of rw_str_replace_all_wf in exact t).
Proof. exact rw_str_replace_all_wf. Qed.
Print Assumptions c15_str_replace_all_closed.

(* the last 14 mutators (Model/OracleRw.v, Model/GlobalRw.v): closure relative to well-formed oracle values, and FRESHNESS of the
   declarations that the three declaring mutators introduce: (declare-const n sort) with n not declared, pairwise distinct,
   and used in the replacement (statements in Props/OracleRwProps.v, Props/GlobalRwProps.v) *)
From DD Require Import Props.OracleRwProps Props.GlobalRwProps.
Theorem c15_constants_closed : ltac:(let t := type of rw_constants_wf in exact t).
Proof. exact rw_constants_wf. Qed.
Print Assumptions c15_constants_closed.
Theorem c15_replace_by_var_closed : ltac:(let t := type of rw_replace_by_var_wf in exact t).
Proof. exact rw_replace_by_var_wf. Qed.
Print Assumptions c15_replace_by_var_closed.
Theorem c15_str_simp_const_is_string_literal : ltac:(let t := type of rw_str_simp_const_strlit in exact t).
Proof. exact rw_str_simp_const_strlit. Qed.
Print Assumptions c15_str_simp_const_is_string_literal.
Theorem c15_fresh_var_wf : ltac:(let t := type of rw_fresh_var_wf in exact t).
Proof. exact rw_fresh_var_wf. Qed.
Print Assumptions c15_fresh_var_wf.
Theorem c15_fresh_var_freshness : ltac:(let t := type of rw_fresh_var_freshness in exact t).
Proof. exact rw_fresh_var_freshness. Qed.
Print Assumptions c15_fresh_var_freshness.
Theorem c15_bv_reduce_bw_freshness : ltac:(let t := type of rw_bv_reduce_bw_freshness in exact t).
Proof. exact rw_bv_reduce_bw_freshness. Qed.
Print Assumptions c15_bv_reduce_bw_freshness.
Theorem c15_str_contains_freshness : ltac:(let t := type of rw_str_contains_freshness in exact t).
Proof. exact rw_str_contains_freshness. Qed.
Print Assumptions c15_str_contains_freshness.
Theorem c15_elim_var_wf : ltac:(let t := type of rw_elim_var_wf in exact t).
Proof. exact rw_elim_var_wf. Qed.
Print Assumptions c15_elim_var_wf.

(* ---- "is this name taken" is no longer an oracle: Model/Declared.v models the tables of collect_information that
   is_declared_symbol consults (since the repair: every token of the input as well), Spec/DeclaredSpec.v / DeclaredWide.v say
   independently what a script declares, binds or mentions, and Props/DeclaredProps.v proves completeness and connects it with
   the freshness theorems above: a declaration proposed by one of the three declaring mutators declares a name that is no token
   of the script (modulo bars), whichever way of declaring or binding a symbol SMT-LIB offers *)
From DD Require Import Props.DeclaredProps.
Theorem c15_declared_completeness : ltac:(let t := type of completeness in exact t).
Proof. exact completeness. Qed.
Print Assumptions c15_declared_completeness.
Theorem c15_declared_completeness_wide : ltac:(let t := type of completeness_wide in exact t).
Proof. exact completeness_wide. Qed.
Print Assumptions c15_declared_completeness_wide.
Theorem c15_every_token_is_taken : ltac:(let t := type of occurs_is_declared in exact t).
Proof. exact occurs_is_declared. Qed.
Print Assumptions c15_every_token_is_taken.
Theorem c15_bars_do_not_matter : ltac:(let t := type of aliasing in exact t).
Proof. exact aliasing. Qed.
Print Assumptions c15_bars_do_not_matter.
Theorem c15_fresh_variable_is_fresh_for_the_script : ltac:(let t := type of introduce_fresh_variable_fresh_wrt_wide_spec in exact t).
Proof. exact introduce_fresh_variable_fresh_wrt_wide_spec. Qed.
Print Assumptions c15_fresh_variable_is_fresh_for_the_script.
Theorem c15_reduced_bw_variable_is_fresh_for_the_script : ltac:(let t := type of bv_reduce_bw_fresh_wrt_wide_spec in exact t).
Proof. exact bv_reduce_bw_fresh_wrt_wide_spec. Qed.
Print Assumptions c15_reduced_bw_variable_is_fresh_for_the_script.
Theorem c15_str_contains_variables_are_fresh_for_the_script : ltac:(let t := type of str_contains_fresh_wrt_wide_spec in exact t).
Proof. exact str_contains_fresh_wrt_wide_spec. Qed.
Print Assumptions c15_str_contains_variables_are_fresh_for_the_script.
Theorem c15_declared_monotone_under_insertion : ltac:(let t := type of monotone_is_declared_insert in exact t).
Proof. exact monotone_is_declared_insert. Qed.
Print Assumptions c15_declared_monotone_under_insertion.
