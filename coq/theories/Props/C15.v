(* C15 property theorems (placeholder until the closure development lands). *)
From DD Require Import Spec.StdReader.
Theorem leaf_ok_nonempty : leaf_ok [] = false.
Proof. reflexivity. Qed.
Print Assumptions leaf_ok_nonempty.
