(* C01: the output file reproduces the golden behaviour.
   Composition of the scheduler's chain theorem (every interleaving, any number
   of workers), the renderers' token agreement (C07), shape preservation of
   re-duplication (C13) and lexical closure of candidates (C15, hypothesis
   cands_wf), for any command that depends on the token sequence only. *)
From DD Require Import Model.Lexer Model.Writer Spec.StdReader Model.SchedHier Proofs.Golden.

(* every content written to the output file is a candidate that was tested and
   accepted; in every output format it has that candidate's token sequence, and
   the command accepts it again *)
Theorem golden :
  forall (cmd : str -> bool),
    (forall t1 t2 xs, tokens_of t1 xs -> tokens_of t2 xs -> cmd t1 = cmd t2) ->
  forall (cands : nat -> ginput -> list (nat * ginput)),
    (forall p x n c, forallb wf x = true -> In (n, c) (cands p x) -> forallb wf c = true) ->
  forall npasses i s w,
    forallb wf i = true ->
    reachable ginput cands (gaccept cmd) gredup npasses i s -> In w (writes s) ->
    (exists c, w = c /\ In (c, true) (checked s) /\ cmd (w_check c) = true) /\
    tokens_of (w_default w) (flats w) /\ tokens_of (w_pretty w) (flats w) /\
    tokens_of (w_wrap w) (flats w) /\ tokens_of (w_check w) (flats w) /\
    cmd (w_default w) = true /\ cmd (w_pretty w) = true /\ cmd (w_wrap w) = true.
Proof. exact golden_lemma. Qed.
Print Assumptions golden.

(* the file left at exit is the last accepted input, the command accepts it in
   every output format, and it parses back to the list ddSMT holds in memory *)
Theorem golden_at_exit :
  forall (cmd : str -> bool),
    (forall t1 t2 xs, tokens_of t1 xs -> tokens_of t2 xs -> cmd t1 = cmd t2) ->
  forall (cands : nat -> ginput -> list (nat * ginput)),
    (forall p x n c, forallb wf x = true -> In (n, c) (cands p x) -> forallb wf c = true) ->
  forall npasses i s,
    forallb wf i = true ->
    reachable ginput cands (gaccept cmd) gredup npasses i s ->
    match writes s with
    | w :: _ => cur s = w /\ cmd (w_default w) = true /\ cmd (w_pretty w) = true /\ cmd (w_wrap w) = true
                /\ parse (w_default w) = w /\ parse (w_pretty w) = w /\ parse (w_wrap w) = w
    | [] => cur s = i
    end.
Proof. exact golden_final. Qed.
Print Assumptions golden_at_exit.
