(* C03, union ranking: ONE no-cycle / well-foundedness theorem for the union of
   28 of ddSMT's 53 mutators, applied in any order at any positions of a term.

   Measure: the triple  tri e = (size e, wchars e, disorder e)  ordered
   lexicographically (lex3), where
     size     = number of nodes (Base/Sexp.v),
     wchars   = weighted number of characters of all leaves; the letter N and the
                characters < and > weigh 2, the letter x weighs 7, every other
                character 1 (Proofs/Union/Tri.v),
     disorder = inversions of the child sizes, summed over all nodes
                (Proofs/Core/Sort.v).
   lex3 is a well-founded strict linear order; replacing a child by a smaller
   term (in this order) makes the parent smaller (when the child's size is
   unchanged the inversions of the parent are unchanged); every member of the
   union decreases the triple at the root, for ALL s-expressions and all values
   of the oracle arguments (which may change from step to step).

   The union U (Proofs/Union/Union.v, spelled out by [c03u_members]):
     EraseNode, ReplaceByChild, MergeWithChildren, SortChildren, BinaryReduction,
     LetElimination; CheckSatAssuming, RemoveAnnotation, RemoveRecursiveFunction,
     SimplifyLogic, SimplifyQuotedSymbols; BoolDoubleNegation, BoolXORBinary,
     ArithmeticNegateRelation, BVDoubleNegation, BVEvalExtend, BVExtractConstants,
     BVIteToBVComp, BVReflexiveNand, BVMergeReducedExtend (rw_bv_merge_extend);
     BVZeroExtendPredicate, SeqNthUnit, StringReplaceAll; ArithmeticStrengthenRelation,
     FPShortSort, RemoveDatatypeIdentity;
     and, under a guard on the node, StringIndexOfNotFound (the node has an
     operand) and StringSimplifyConstant (the leaf has two characters at least:
     true of every well-formed leaf the filter accepts).
   Not members, each with a computed proposal that is not smaller (section D):
     BoolNegateQuantifier; BoolDeMorgan, BoolFalseEq, BoolImplication, BVNormalize,
     BVElimBVComp, BVExtractZeroExtend; BVConcatToZeroExtend, BVSimplifyConstants,
     BVTransformToBool, ArithmeticSimplifyConstant, ArithmeticSplitNaryRelation;
     BoolXORRemoveConstant, Constants, ReplaceByVariable (both modes).
   Statements only; proofs in Proofs/Union. *)
From Coq Require Import Relations.
From DD Require Import Model.CoreRw Model.SmtlibRw Model.ConstRw Model.OracleRw Spec.StdReader.
From DD Require Import Proofs.Core.Sort Proofs.Core.Step Proofs.More1.Examples.
From DD Require Import Proofs.Union.Lex3 Proofs.Union.Tri Proofs.Union.RootA Proofs.Union.RootB Proofs.Union.RootC
  Proofs.Union.Union Proofs.Union.Examples.
Local Open Scope list_scope.

(* ================= A. the order ================= *)
Theorem c03u_lex3_wf : well_founded lex3.
Proof. exact lex3_wf. Qed.
Print Assumptions c03u_lex3_wf.

Theorem c03u_lex3_trans : forall p q r, lex3 p q -> lex3 q r -> lex3 p r.
Proof. exact lex3_trans. Qed.
Print Assumptions c03u_lex3_trans.

Theorem c03u_lex3_irrefl : forall p, ~ lex3 p p.
Proof. exact lex3_irrefl. Qed.
Print Assumptions c03u_lex3_irrefl.

Theorem c03u_lex3_total : forall p q, lex3 p q \/ p = q \/ lex3 q p.
Proof. exact lex3_total. Qed.
Print Assumptions c03u_lex3_total.

Theorem c03u_tri_lt_unfold : forall a b,
  tri_lt a b <->
  size a < size b \/ (size a = size b /\ wchars a < wchars b) \/
  (size a = size b /\ wchars a = wchars b /\ disorder a < disorder b).
Proof. exact tri_lt_unfold. Qed.
Print Assumptions c03u_tri_lt_unfold.

Theorem c03u_tri_lt_wf : well_founded tri_lt.
Proof. exact tri_lt_wf. Qed.
Print Assumptions c03u_tri_lt_wf.

(* monotone in every child position *)
Theorem c03u_child_monotone : forall pre x y post,
  tri_lt y x -> tri_lt (T (pre ++ y :: post)) (T (pre ++ x :: post)).
Proof. exact child_tri. Qed.
Print Assumptions c03u_child_monotone.

(* ================= B. the union ================= *)
Theorem c03u_members : forall R, U R <->
  R = rw_erase_child \/ (exists gs, R = rw_replace_by_child gs) \/ R = rw_merge_children \/
  R = rw_sort_children \/ R = rw_binary_reduction \/ R = rw_let_elim \/
  R = rw_check_sat_assuming \/ R = rw_remove_annotation \/ R = rw_remove_rec_fun \/
  R = rw_simplify_logic \/ R = rw_simplify_quoted \/
  R = rw_bool_double_neg \/ R = rw_bool_xor_binary \/ R = rw_arith_negate_relation \/
  R = rw_bv_double_neg \/ R = rw_bv_eval_extend \/ R = rw_bv_extract_const \/
  (exists p, R = rw_bv_ite_to_bvcomp p) \/ R = rw_bv_reflexive_nand \/ R = rw_bv_merge_extend \/
  R = rw_bv_zext_pred \/ R = rw_seq_nth_unit \/ R = rw_str_replace_all \/
  R = guard has_arg rw_str_indexof \/
  R = rw_arith_strengthen \/ R = rw_fp_short_sort \/ (exists sels ctors, R = rw_dt_identity sels ctors) \/
  R = guard str_lit_long rw_str_simp_const.
Proof. exact U_iff. Qed.
Print Assumptions c03u_members.

(* the structural set of no_cycles_structural is a subset, for every sort oracle *)
Theorem c03u_contains_structural : forall gs R, Score gs R -> U R.
Proof. exact Score_in_U. Qed.
Print Assumptions c03u_contains_structural.

Theorem c03u_structural_step : forall gs t t', cstep gs t t' -> step U t t'.
Proof. exact cstep_in_ustep. Qed.
Print Assumptions c03u_structural_step.

(* the guards: [guard P R e = if P e then R e else Some []]; they are transparent on the nodes that matter *)
Theorem c03u_guard_def : forall P R e, guard P R e = if P e then R e else Some [].
Proof. reflexivity. Qed.
Print Assumptions c03u_guard_def.

Theorem c03u_str_indexof_guard : forall e,
  e <> T [lf "str.indexof"] -> guard has_arg rw_str_indexof e = rw_str_indexof e.
Proof. exact str_indexof_guard_same. Qed.
Print Assumptions c03u_str_indexof_guard.

Theorem c03u_str_simp_const_guard : forall e,
  wf e = true -> guard str_lit_long rw_str_simp_const e = rw_str_simp_const e.
Proof. exact str_simp_const_guard_same. Qed.
Print Assumptions c03u_str_simp_const_guard.

(* ================= C. the theorems ================= *)
(* every member decreases the triple at the root *)
Theorem c03u_root_decreases : forall R, U R -> forall e l e', R e = Some l -> In e' l -> tri_lt e' e.
Proof. exact U_tdecreasing. Qed.
Print Assumptions c03u_root_decreases.

Theorem ustep_decreases : forall t t',
  step U t t' ->
  size t' < size t \/
  (size t' = size t /\ wchars t' < wchars t) \/
  (size t' = size t /\ wchars t' = wchars t /\ disorder t' < disorder t).
Proof. exact Union.ustep_decreases. Qed.
Print Assumptions ustep_decreases.

Theorem usteps_decrease : forall t t', clos_trans sexp (step U) t t' -> tri_lt t' t.
Proof. exact usteps_lex. Qed.
Print Assumptions usteps_decrease.

Theorem no_cycles_union : forall t t', clos_trans sexp (step U) t t' -> t <> t'.
Proof. exact Union.no_cycles_union. Qed.
Print Assumptions no_cycles_union.

Theorem no_noop_union : forall t, ~ step U t t.
Proof. exact Union.no_noop_union. Qed.
Print Assumptions no_noop_union.

Theorem ustep_wf : well_founded (fun a b => step U b a).
Proof. exact Union.ustep_wf. Qed.
Print Assumptions ustep_wf.

Theorem no_infinite_chain_union : forall f : nat -> sexp, ~ (forall n, step U (f n) (f (S n))).
Proof. exact Union.no_infinite_chain_union. Qed.
Print Assumptions no_infinite_chain_union.

(* ================= D. non-vacuity and the candidates that are not members ================= *)
Example c03u_ex_three_members :
  ex_nn = rd "(not (not (xor p q)))" /\
  U rw_bool_double_neg /\ U rw_erase_child /\ U (rw_replace_by_child (fun _ => None)) /\
  rw_bool_double_neg ex_nn = Some [rd "(xor p q)"] /\
  rw_erase_child ex_nn = Some [rd "((not (xor p q)))"; rd "(not)"] /\
  rw_replace_by_child (fun _ => None) ex_nn = Some [rd "(not (xor p q))"].
Proof. exact ex_three_members. Qed.

(* four steps through BoolDoubleNegation, BoolXORBinary, SortChildren, ArithmeticStrengthenRelation; the
   component that decreases is size, wchars, disorder, wchars *)
Example c03u_ex_chain :
  ch0 = rd "(assert (and (not (not (xor p q))) r))" /\ ch1 = rd "(assert (and (xor p q) r))" /\
  ch2 = rd "(assert (and (distinct p q) r))" /\ ch3 = rd "(assert (and r (distinct p q)))" /\
  ch4 = rd "(assert (and r (= p q)))" /\
  step U ch0 ch1 /\ step U ch1 ch2 /\ step U ch2 ch3 /\ step U ch3 ch4 /\
  chain U 4 ch0 ch4 /\ clos_trans sexp (step U) ch0 ch4 /\
  map tri [ch0; ch1; ch2; ch3; ch4] = [(13, 27, 1); (9, 21, 1); (9, 20, 1); (9, 20, 0); (9, 13, 0)].
Proof.
  destruct ex_chain_terms as (H0 & H1 & H2 & H3 & H4). destruct ex_chain as [Hc Ht].
  exact (conj H0 (conj H1 (conj H2 (conj H3 (conj H4 (conj ex_step1 (conj ex_step2 (conj ex_step3 (conj ex_step4
          (conj Hc (conj Ht ex_chain_triples))))))))))).
Qed.

(* [refutes R e l e']: R e = Some l, e' is one of l, and e' is not smaller than e in the triple order *)
Theorem c03u_refutes_def : forall R e l e',
  refutes R e l e' <-> (R e = Some l /\ In e' l /\ tri_ltb e' e = false).
Proof. intros; reflexivity. Qed.
Print Assumptions c03u_refutes_def.

Theorem c03u_tri_ltb_spec : forall a b, tri_ltb a b = true <-> tri_lt a b.
Proof. exact tri_ltb_spec. Qed.
Print Assumptions c03u_tri_ltb_spec.

(* a refuted rewrite is not ranked by the triple, and adding it to any set breaks the decrease of the steps *)
Theorem c03u_refutes_not_ranked : forall R e l e',
  refutes R e l e' -> ~ (forall e l e', R e = Some l -> In e' l -> tri_lt e' e).
Proof. exact refutes_not_tdecr. Qed.
Print Assumptions c03u_refutes_not_ranked.

Theorem c03u_refutes_step : forall (S : rewrite -> Prop) R e l e',
  S R -> refutes R e l e' -> exists t t', step S t t' /\ ~ tri_lt t' t.
Proof. exact refutes_step. Qed.
Print Assumptions c03u_refutes_step.

Example c03u_drop_bool_negate_quant :
  refutes rw_bool_negate_quant (rd "(not (forall ((x Int)) (> x 0)))")
    [rd "(exists ((x Int)) (not (> x 0)))"] (rd "(exists ((x Int)) (not (> x 0)))") /\
  tri (rd "(not (forall ((x Int)) (> x 0)))") = (12, 29, 0) /\ tri (rd "(exists ((x Int)) (not (> x 0)))") = (12, 35, 0).
Proof. exact (conj drop_bool_negate_quant drop_bool_negate_quant_triples). Qed.

Example c03u_drop_bool_de_morgan :
  refutes rw_bool_de_morgan (rd "(not (and a b))") [rd "(or (not a) (not b))"] (rd "(or (not a) (not b))").
Proof. exact drop_bool_de_morgan. Qed.

Example c03u_drop_bool_false_eq :
  refutes rw_bool_false_eq (rd "(= false a b)") [rd "(and (not a) (not b))"] (rd "(and (not a) (not b))").
Proof. exact drop_bool_false_eq. Qed.

Example c03u_drop_bool_implication :
  refutes rw_bool_implication (rd "(=> a b)") [rd "(or (not a) b)"] (rd "(or (not a) b)").
Proof. exact drop_bool_implication. Qed.

Example c03u_drop_bv_normalize : refutes rw_bv_normalize (rd "#b101") [rd "(_ bv5 3)"] (rd "(_ bv5 3)").
Proof. exact drop_bv_normalize. Qed.

Example c03u_drop_bv_elim_bvcomp :
  refutes (rw_bv_elim_bvcomp (fun _ => 1%Z)) (rd "(= #b1 (bvcomp a b) c)")
    [rd "(and (= a b) (= #b1 c))"] (rd "(and (= a b) (= #b1 c))").
Proof. exact drop_bv_elim_bvcomp. Qed.

Example c03u_drop_bv_extract_zext :
  refutes (rw_bv_extract_zext (fun _ => 3%Z)) (rd "((_ extract 5 0) ((_ zero_extend 4) x))")
    [rd "((_ zero_extend 3) ((_ extract 2 0) x))"] (rd "((_ zero_extend 3) ((_ extract 2 0) x))").
Proof. exact drop_bv_extract_zext. Qed.

Example c03u_drop_bv_concat_zext :
  refutes rw_bv_concat_zext (rd "(concat #b00 x)") [rd "((_ zero_extend 2) x)"] (rd "((_ zero_extend 2) x)").
Proof. exact drop_bv_concat_zext. Qed.

Example c03u_drop_bv_simp_consts : exists l, refutes rw_bv_simp_consts (rd "#xff") l (rd "#b00000000").
Proof. exact drop_bv_simp_consts. Qed.

Example c03u_drop_bv_to_bool :
  refutes rw_bv_to_bool (rd "(= #b1 (bvor a b))") [rd "(or (= #b1 a) (= #b1 b))"] (rd "(or (= #b1 a) (= #b1 b))").
Proof. exact drop_bv_to_bool. Qed.

Example c03u_drop_arith_simp_const :
  refutes rw_arith_simp_const (rd "9007199254740993") [rd "4503599627370496"; rd "900719925474099"] (rd "4503599627370496").
Proof. exact drop_arith_simp_const. Qed.

Example c03u_drop_arith_split_nary :
  refutes rw_arith_split_nary (rd "(<= a b c)") [rd "(and (<= a b) (<= b c))"] (rd "(and (<= a b) (<= b c))").
Proof. exact drop_arith_split_nary. Qed.

Example c03u_drop_bool_xor_const :
  refutes rw_bool_xor_const (rd "(xor p true)") [rd "(xor p)"; rd "(not (xor p))"] (rd "(not (xor p))").
Proof. exact drop_bool_xor_const. Qed.

Example c03u_drop_constants :
  refutes (rw_constants false (Some (lf "Int")) (Some [lf "0"; lf "1"])) (rd "y") [rd "0"; rd "1"] (rd "0").
Proof. exact drop_constants. Qed.

Example c03u_drop_replace_by_var :
  refutes (rw_replace_by_var true false (Some (lf "Int")) [lit "z"]) (rd "m") [rd "z"] (rd "z") /\
  refutes (rw_replace_by_var false false (Some (lf "Int")) [lit "a"]) (rd "m") [rd "a"] (rd "a").
Proof. exact (conj drop_replace_by_var_inc drop_replace_by_var_dec). Qed.

(* the guards are needed *)
Example c03u_drop_str_indexof_unguarded :
  refutes rw_str_indexof (rd "(str.indexof)") [rd "(- 1)"] (rd "(- 1)").
Proof. exact drop_str_indexof_unguarded. Qed.

Example c03u_drop_str_simp_const_unguarded :
  refutes rw_str_simp_const (L [cDQ]) [L empty_strlit; L empty_strlit; L empty_strlit] (L empty_strlit).
Proof. exact drop_str_simp_const_unguarded. Qed.

Example c03u_guarded_fire :
  guard has_arg rw_str_indexof (rd "(str.indexof s t 0)") = Some [rd "(- 1)"] /\
  (exists r, guard str_lit_long rw_str_simp_const (L (quote (lit "abcdefgh"))) = Some (L empty_strlit :: L (quote (lit "abcd")) :: r)).
Proof. exact ex_guarded_fire. Qed.
