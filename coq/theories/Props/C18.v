(* C18: with one job (FIFO processing and delivery) the sequence of accepted
   inputs is a function of the initial input: write histories of any two
   executions are prefix-comparable and equal when both finished.  The model is
   parametric in the hash functions and in process ids: nothing in it depends
   on them.  Hypothesis: the candidate enumeration [cands] itself does not
   depend on node identities (false for IntroduceFreshVariable: known finding F18). *)
From Coq Require Import Sorted.
From DD Require Import Model.SchedHier Props.SchedHierProps.

Theorem c18_seq_deterministic : ltac:(let t := type of seq_deterministic in exact t).
Proof. exact seq_deterministic. Qed.
Print Assumptions c18_seq_deterministic.

Theorem c18_seq_deterministic_final : ltac:(let t := type of seq_deterministic_final in exact t).
Proof. exact seq_deterministic_final. Qed.
Print Assumptions c18_seq_deterministic_final.

Theorem c18_seq_refines : ltac:(let t := type of seq_refines in exact t).
Proof. exact seq_refines. Qed.
Print Assumptions c18_seq_refines.
About seq_deterministic. About seq_deterministic_final.
