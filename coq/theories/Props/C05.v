(* C05: accepted inputs form a chain; stale parallel results are never adopted.
   The theorems are about every path (every interleaving of producer, workers
   and result consumption, any number of workers) of Model/SchedHier.v; they are
   restated here from Props/SchedHierProps.v (proofs in Proofs/Sched/). *)
From DD Require Import Model.SchedHier Props.SchedHierProps Model.SchedDdmin Props.SchedDdminProps.

(* a result is adopted only if it was computed against the current input and accepted *)
Theorem c05_no_stale : ltac:(let t := type of no_stale in exact t).
Proof. exact no_stale. Qed.
Print Assumptions c05_no_stale.

(* the write history is a chain of single accepted derivations from the initial input *)
Theorem c05_chain : ltac:(let t := type of chain in exact t).
Proof. exact chain. Qed.
Print Assumptions c05_chain.

(* every written content was tested and accepted before it was written *)
Theorem c05_written_was_checked : ltac:(let t := type of written_was_checked in exact t).
Proof. exact written_was_checked. Qed.
Print Assumptions c05_written_was_checked.

Theorem c05_checked_sound : ltac:(let t := type of checked_sound in exact t).
Proof. exact checked_sound. Qed.
Print Assumptions c05_checked_sound.

(* the current input (= the file) is the last element of the chain *)
Theorem c05_file_is_last : ltac:(let t := type of file_is_last in exact t).
Proof. exact file_is_last. Qed.
Print Assumptions c05_file_is_last.
About no_stale. About chain. About file_is_last.

(* ---- the ddmin strategy (Model/SchedDdmin.v: _check_par / _check_seq of one task generator) ---- *)

(* a success is adopted only if it was computed against the current input; later successes of the round are ignored *)
Theorem c05_ddmin_no_stale : ltac:(let t := type of d_no_stale in exact t).
Proof. exact d_no_stale. Qed.
Print Assumptions c05_ddmin_no_stale.

Theorem c05_ddmin_chain : ltac:(let t := type of d_chain in exact t).
Proof. exact d_chain. Qed.
Print Assumptions c05_ddmin_chain.

Theorem c05_ddmin_written_was_checked : ltac:(let t := type of d_written_was_checked in exact t).
Proof. exact d_written_was_checked. Qed.
Print Assumptions c05_ddmin_written_was_checked.

Theorem c05_ddmin_file_is_last : ltac:(let t := type of d_file_is_last in exact t).
Proof. exact d_file_is_last. Qed.
Print Assumptions c05_ddmin_file_is_last.
About d_no_stale. About d_chain.

(* the whole ddmin strategy (Model/DdminTop.v: reduce, _apply_mutator, sequential generators): everything written was
   accepted, and the written inputs form a chain at token level -- each is a candidate proposed for an input with the tokens
   of its immediate predecessor (re-duplication in between does not change tokens) *)
From DD Require Import Props.DdminTopProps.
Theorem c05_ddmin_reduce_writes : ltac:(let t := type of top_reduce_writes in exact t).
Proof. exact top_reduce_writes. Qed.
Print Assumptions c05_ddmin_reduce_writes.
Theorem c05_ddmin_reduce_chain : ltac:(let t := type of top_reduce_chain in exact t).
Proof. exact top_reduce_chain. Qed.
Print Assumptions c05_ddmin_reduce_chain.
Theorem c05_ddmin_chain_nth : ltac:(let t := type of top_chain_nth in exact t).
Proof. exact top_chain_nth. Qed.
Print Assumptions c05_ddmin_chain_nth.
