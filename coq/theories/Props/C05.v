(* C05 property theorems (placeholder until the scheduler development lands). *)
From DD Require Import Model.SchedHier.
Theorem init_not_finished : forall (input : Type) (i : input), finished input (init input i) = false.
Proof. reflexivity. Qed.
Print Assumptions init_not_finished.
