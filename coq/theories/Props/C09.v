(* C09: a candidate is accepted iff it matches the golden run as documented.
   [check] and [matches_golden] are regenerated from ddsmt/checker.py on every run. *)
From DD Require Import Model.Exec Proofs.Accept.

(* the translated decision code computes exactly the documented rule, for all
   option combinations and all (exit code, stdout, stderr) outcomes *)
Theorem accept_iff : forall c g gcc r rcc,
  wf_ccfg c = true ->
  check (cfg_of c) (run_of g) (run_of gcc) (run_of r) (run_of rcc) = Ok (accept_spec c g gcc r rcc).
Proof. exact accept_iff_lemma. Qed.
Print Assumptions accept_iff.

(* with --unchecked every candidate is accepted without running anything *)
Theorem unchecked_accepts : forall c b0 b0cc b bcc,
  wf_ccfg c = true -> unchecked c = true ->
  golden_valid c o_unchecked_rec o_unchecked_rec = true ->
  check_run c (execute c b0) (execute c b0cc) b bcc = Ok true.
Proof. exact unchecked_accepts_lemma. Qed.
Print Assumptions unchecked_accepts.

(* a run equal to a validated golden run is accepted (the rule is reflexive) *)
Theorem golden_accepts_itself : forall c g gcc,
  golden_valid c g gcc = true -> accept_spec c g gcc g gcc = true.
Proof. exact accept_self. Qed.
Print Assumptions golden_accepts_itself.

(* argv = original arguments followed by one file name carrying the input file's
   extension; --unchecked returns before anything is spawned (facts read off the
   source of execute / check_exprs / tmpfiles on this run) *)
Theorem argv_shape :
  fact_argv_is_cmd_plus_filename = true /\ fact_tmpfile_has_infile_ext = true /\
  fact_unchecked_shortcut = true /\ fact_check_exprs_writes_then_checks = true.
Proof. repeat split; reflexivity. Qed.
Print Assumptions argv_shape.

(* the record of a run that ended in time carries the exit status and both streams, decoded injectively (undecodable
   bytes are kept as lone surrogates, so that different outputs remain different: F35/F41); read off the source of execute *)
Theorem record_of_a_finished_run : fact_normal_record = true.
Proof. reflexivity. Qed.
Print Assumptions record_of_a_finished_run.

(* non-vacuity: a configuration with a match string and a cross check *)
Example accept_example :
  let c := mk_ccfg false false true (Some [102;111;111]%N) None true true None None false in
  let g := mk_outcome 1 [120;102;111;111;121]%N [101]%N in
  let r := mk_outcome 1 [102;111;111]%N [122]%N in
  wf_ccfg c = true /\ accept_spec c g g r r = true /\
  check (cfg_of c) (run_of g) (run_of g) (run_of r) (run_of r) = Ok true /\
  check (cfg_of c) (run_of g) (run_of g) (run_of r) (run_of (mk_outcome 2 [] [])) = Ok false.
Proof. vm_compute. repeat split; reflexivity. Qed.
