(* C11 property theorems (placeholder until the substitution development lands). *)
From DD Require Import Model.Subst.
Theorem remove_id_nil : forall i, remove_id [] i = [].
Proof. reflexivity. Qed.
Print Assumptions remove_id_nil.
