(* C11 property theorems: the explicit-stack loop of substitute computes the
   structural function within linear fuel; untouched subtrees are returned as
   the identical node; token-level exactness; introduce_variables / apply_simp.
   Proofs (and the definitions clean, toks, spec_toks, subnodes_l) are in
   Proofs/Subst. *)
From DD Require Import Base.Lit Model.Subst Spec.StdReader.
From DD Require Import Proofs.Subst.SubstBase Proofs.Subst.SubstMachine
  Proofs.Subst.SubstIdentity Proofs.Subst.SubstTokens Proofs.Subst.SubstClosed
  Proofs.Subst.IntroVars.

Local Open Scope Z_scope.

(* S1 *)
Theorem subst_refines : forall hstr htup l ri rs next,
  substitute_sm hstr htup (2 * nsizes l + 2) l ri rs next
  = Some (substitute hstr htup l ri rs next).
Proof. exact subst_refines_proof. Qed.
Print Assumptions subst_refines.

Theorem subst_refines_ge : forall hstr htup fuel l ri rs next,
  (2 * nsizes l + 2 <= fuel)%nat ->
  substitute_sm hstr htup fuel l ri rs next = Some (substitute hstr htup l ri rs next).
Proof. exact subst_refines_ge_proof. Qed.
Print Assumptions subst_refines_ge.

(* S2 *)
Theorem subst_identity : forall hstr htup rs e st,
  clean hstr (s_ri st) rs e -> hash_ok hstr htup e = true ->
  fst (subst1 hstr htup rs e st) = [e] /\
  s_ri (snd (subst1 hstr htup rs e st)) = s_ri st /\
  s_changed (snd (subst1 hstr htup rs e st)) = s_changed st.
Proof. exact subst_identity_proof. Qed.
Print Assumptions subst_identity.

(* S3 *)
Theorem subst_unchanged : forall hstr htup l ri rs next,
  (forall e, In e l -> clean hstr ri rs e) -> forallb (hash_ok hstr htup) l = true ->
  fst (fst (substitute hstr htup l ri rs next)) = false /\
  snd (fst (substitute hstr htup l ri rs next)) = l.
Proof. exact subst_unchanged_proof. Qed.
Print Assumptions subst_unchanged.

(* the same without the hypothesis on the cached hashes *)
Theorem subst_unchanged_nohash : forall hstr htup l ri rs next,
  (forall e, In e l -> clean hstr ri rs e) ->
  fst (fst (substitute hstr htup l ri rs next)) = false /\
  snd (fst (substitute hstr htup l ri rs next)) = l.
Proof. exact subst_unchanged_nohash_proof. Qed.
Print Assumptions subst_unchanged_nohash.

(* The variant with the unrestricted hypothesis (node_eq implies equal shape for ALL pairs)
   is vacuous (see node_eq_unrestricted_unsound in Proofs/Subst/SubstTokens.v) and is
   deliberately not listed here. *)

(* S4 with node_eq assumed sound only on the pairs (rebuilt tuple, original
   tuple) that arise: the tuple is a node of the input, its children have been
   processed from a state whose identity map is included in the given one and
   whose allocator is not below the initial one *)
Theorem subst_tokens_strong : forall hstr htup l ri rs next,
  NoDup (ids_l l) ->
  (forall i h cl st, In (NT i h cl) (subnodes_l l) ->
     incl (s_ri st) ri -> next <= s_next st ->
     node_eq hstr
       (fst (mk_tuple hstr htup (s_next (snd (subst_list hstr htup rs cl st)))
                      (fst (subst_list hstr htup rs cl st))))
       (NT i h cl) = true ->
     shape (fst (mk_tuple hstr htup (s_next (snd (subst_list hstr htup rs cl st)))
                          (fst (subst_list hstr htup rs cl st))))
       = shape (NT i h cl)) ->
  flat_map toks (snd (fst (substitute hstr htup l ri rs next)))
  = flat_map (spec_toks hstr ri rs) l.
Proof. exact subst_tokens_strong_proof. Qed.
Print Assumptions subst_tokens_strong.

(* S4 without a hypothesis on node_eq: identities of the input are distinct and
   not above the allocator, and a node of a replacement value (vals_i, vals_s)
   that shares its identity with a node of the input has the same shape *)
Theorem subst_tokens_closed : forall hstr htup l ri rs next,
  NoDup (ids_l l) ->
  (forall j, In j (ids_l l) -> j <= next) ->
  (forall v x y, In v (vals_i ri ++ vals_s rs) -> In x (subnodes v) -> In y (subnodes_l l) ->
                 nid x = nid y -> shape x = shape y) ->
  flat_map toks (snd (fst (substitute hstr htup l ri rs next)))
  = flat_map (spec_toks hstr ri rs) l.
Proof. exact subst_tokens_closed_proof. Qed.
Print Assumptions subst_tokens_closed.

(* S5 *)
Theorem introduce_variables_spec : forall l vars,
  exists pre post,
    l = pre ++ post /\
    introduce_variables l vars = pre ++ vars ++ post /\
    forallb is_prefix_cmd pre = true /\
    match post with x :: _ => is_prefix_cmd x = false | [] => True end.
Proof. exact introduce_variables_spec_proof. Qed.
Print Assumptions introduce_variables_spec.

(* F70: comments before (and between) the leading set-info / set-logic commands belong to the prefix *)
Theorem introduce_variables_skips_header_comments : forall i s rest vars,
  introduce_variables (NL i (59%N :: s) :: rest) vars = NL i (59%N :: s) :: introduce_variables rest vars.
Proof. exact introduce_variables_skips_header_comments_proof. Qed.
Print Assumptions introduce_variables_skips_header_comments.

Example introduce_variables_header_comment :
  let header := NL 1 (lit "; header") in
  let setlogic := NT 4 0 [NL 2 (lit "set-logic"); NL 3 (lit "X")] in
  let decl := NT 8 0 [NL 5 (lit "declare-const"); NL 6 (lit "a"); NL 7 (lit "Bool")] in
  let var := NT 12 0 [NL 9 (lit "declare-const"); NL 10 (lit "v"); NL 11 (lit "Bool")] in
  introduce_variables [header; setlogic; decl] [var] = [header; setlogic; var; decl].
Proof. exact introduce_variables_header_comment_ex. Qed.
Print Assumptions introduce_variables_header_comment.

Theorem apply_simp_spec : forall hstr htup l ri rs vars next ch r nx,
  substitute hstr htup l ri rs next = (ch, r, nx) ->
  apply_simp hstr htup l ri rs vars next =
    (if ch then (true, match vars with [] => r | _ => introduce_variables r vars end, nx)
     else (false, l, nx)) /\
  (ch = false -> r = l).
Proof. exact apply_simp_spec_proof. Qed.
Print Assumptions apply_simp_spec.
