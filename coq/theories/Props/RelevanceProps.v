(* C14, the relevance oracle closed: the relevance test of
   mutators.auto_detect_theories (Model/Relevance.v, tied to the implementation
   by harness/relcorr.py, dispatch 150-153) is complete for the SMT-LIB level
   specification "the script declares something of theory T"
   (Spec/TheorySpec.v), and composed with the options model (Model/Options.v,
   Props/C14.v) over the generated registry Gen/Tables.v: detection keeps the
   options of a declared theory as the command line set them, and changes an
   option only if the user did not set the group, the theory is reported
   irrelevant and, by completeness, the script declares nothing of it.

   [relevant] is the repaired test (the tests run on the copies made by
   smtlib.without_comments: comments removed, quoted symbols unquoted); it is
   complete for the WIDE specification [spec_declares_theory_wide] (the
   specification of the script without comments and with unquoted symbols, i.e.
   up to SMT-LIB symbol identity), and for the narrow one on scripts without
   comments and quoted symbols.  [relevant_raw] is the test on the script as it
   is (before the repair); it is complete for the narrow specification only
   (part II).  Proofs are in Proofs/Relevance. *)
From Coq Require Import Permutation.
From DD Require Import Base.Lit Model.Lexer Model.Options Spec.EnabledSpec Gen.Tables Model.Relevance Spec.TheorySpec.
From DD Require Import Proofs.Relevance.RelBase Proofs.Relevance.Complete Proofs.Relevance.Mono
  Proofs.Relevance.Compose Proofs.Relevance.Necessary Proofs.Relevance.Clean Proofs.Relevance.ComposeClean.
Open Scope string_scope.
Local Open Scope list_scope.

(* ================= I. the repaired test [relevant] ================= *)
(* rel_of script = fun n => relevant n script *)

Theorem relevant_unfold : forall n script, relevant n script = relevant_raw n (clean_script script).
Proof. exact relevant_unfold_stmt. Qed.
Print Assumptions relevant_unfold.

(* the specification's cleaning (defined without reference to the model) is the model's *)
Theorem clean_spec_agrees : forall script, clean_spec script = clean_script script.
Proof. exact clean_spec_agrees_stmt. Qed.
Print Assumptions clean_spec_agrees.

(* (a) completeness *)
Theorem relevance_complete_wide : forall T script,
  spec_declares_theory_wide T script -> relevant (thy_name T) script = true.
Proof. exact completeness_wide_stmt. Qed.
Print Assumptions relevance_complete_wide.

Theorem not_relevant_not_declared_wide : forall T script,
  relevant (thy_name T) script = false -> ~ spec_declares_theory_wide T script.
Proof. exact not_relevant_not_declared_wide_stmt. Qed.
Print Assumptions not_relevant_not_declared_wide.

(* the narrow specification, on scripts without comment leaves and quoted symbols
   (without this hypothesis it fails: ex_narrow_spec_comment_as_width below) *)
Theorem relevance_complete : forall T script,
  forallb plain script = true -> spec_declares_theory T script -> relevant (thy_name T) script = true.
Proof. exact completeness_plain_stmt. Qed.
Print Assumptions relevance_complete.

Theorem relevant_plain : forall n script,
  forallb plain script = true -> relevant n script = relevant_raw n script.
Proof. exact relevant_plain_stmt. Qed.
Print Assumptions relevant_plain.

(* (b) composition with the options model *)
Theorem tables_rel_agree : forall t, In t theories -> t_rel t = has_is_relevant (t_name t).
Proof. exact tables_rel_agree_stmt. Qed.
Print Assumptions tables_rel_agree.

Theorem thy_in_tables : forall T, exists t, In t theories /\ t_name t = thy_name T /\ t_rel t = true.
Proof. exact thy_in_tables_stmt. Qed.
Print Assumptions thy_in_tables.

Theorem detection_keeps_declared_theory_wide : forall script s T t co,
  In t theories -> t_name t = thy_name T -> In co (opts_of t) ->
  gv s (t_name t) = None ->
  spec_declares_theory_wide T script ->
  mv (auto_detect theories (rel_of script) s) co = mv s co.
Proof. exact detection_keeps_wide_stmt. Qed.
Print Assumptions detection_keeps_declared_theory_wide.

Theorem detection_keeps_declared_theory : forall script s T t co,
  In t theories -> t_name t = thy_name T -> In co (opts_of t) ->
  gv s (t_name t) = None ->
  forallb plain script = true -> spec_declares_theory T script ->
  mv (auto_detect theories (rel_of script) s) co = mv s co.
Proof. exact detection_keeps_plain_stmt. Qed.
Print Assumptions detection_keeps_declared_theory.

Theorem explicit_group_untouched : forall script s t co v,
  In t theories -> In co (opts_of t) -> gv s (t_name t) = Some v ->
  mv (auto_detect theories (rel_of script) s) co = mv s co.
Proof. exact explicit_group_untouched_clean_stmt. Qed.
Print Assumptions explicit_group_untouched.

Theorem disabled_only_if_nothing_declared_wide : forall script s T t co,
  In t theories -> t_name t = thy_name T -> In co (opts_of t) ->
  mv (auto_detect theories (rel_of script) s) co <> mv s co ->
  gv s (t_name t) = None /\ relevant (thy_name T) script = false
  /\ ~ spec_declares_theory_wide T script.
Proof. exact disabled_only_if_wide_stmt. Qed.
Print Assumptions disabled_only_if_nothing_declared_wide.

(* any group of the registry, also those outside the specification *)
Theorem changed_only_if_irrelevant : forall script s t co,
  In t theories -> In co (opts_of t) ->
  mv (auto_detect theories (rel_of script) s) co <> mv s co ->
  gv s (t_name t) = None /\ has_is_relevant (t_name t) = true
  /\ relevant (t_name t) script = false
  /\ mv (auto_detect theories (rel_of script) s) co = false.
Proof. exact changed_only_if_irrelevant_clean_stmt. Qed.
Print Assumptions changed_only_if_irrelevant.

(* from the command line to the enabled mutator classes *)
Theorem declared_theory_classes_as_cli_wide : forall os script T t c,
  theory_of theories c = Some t -> t_name t = thy_name T ->
  spec_declares_theory_wide T script ->
  enabled theories (auto_detect theories (rel_of script) (parse_opts theories os)) c
  = enabled_spec theories os (fun _ => true) c.
Proof. exact declared_theory_classes_wide_stmt. Qed.
Print Assumptions declared_theory_classes_as_cli_wide.

(* (c) monotone in the script, insensitive to order and multiplicity *)
Theorem relevant_monotone : forall n s1 s2,
  (forall c, In c s1 -> In c s2) -> relevant n s1 = true -> relevant n s2 = true.
Proof. exact relevant_clean_incl_stmt. Qed.
Print Assumptions relevant_monotone.

Theorem relevant_app : forall n a b, relevant n (a ++ b) = relevant n a || relevant n b.
Proof. exact relevant_clean_app_stmt. Qed.
Print Assumptions relevant_app.

Theorem relevant_insert : forall n a c b,
  relevant n (a ++ b) = true -> relevant n (a ++ c :: b) = true.
Proof. exact relevant_clean_insert_stmt. Qed.
Print Assumptions relevant_insert.

Theorem relevant_permutation : forall n s1 s2, Permutation s1 s2 -> relevant n s1 = relevant n s2.
Proof. exact relevant_clean_perm_stmt. Qed.
Print Assumptions relevant_permutation.

Theorem relevant_same_commands : forall n s1 s2,
  (forall c, In c s1 <-> In c s2) -> relevant n s1 = relevant n s2.
Proof. exact relevant_clean_same_commands_stmt. Qed.
Print Assumptions relevant_same_commands.

Theorem relevant_pointwise : forall n s,
  has_is_relevant n = true ->
  (relevant n s = true <-> exists c, In c s /\ relevant n [c] = true).
Proof. exact relevant_clean_pointwise_stmt. Qed.
Print Assumptions relevant_pointwise.

(* a necessary condition of the wide specification (the model over-approximates) *)
Theorem spec_wide_needs_declaring_command : forall T script,
  spec_declares_theory_wide T script -> existsb may_declare (clean_script script) = true.
Proof. exact spec_wide_needs_declaring_command_stmt. Qed.
Print Assumptions spec_wide_needs_declaring_command.

(* ================= II. the test on the script as it is [relevant_raw] ================= *)
(* rel_of_raw script = fun n => relevant_raw n script *)

(* (a) completeness *)
Theorem relevance_complete_raw : forall T script,
  spec_declares_theory T script -> relevant_raw (thy_name T) script = true.
Proof. exact completeness_stmt. Qed.
Print Assumptions relevance_complete_raw.

Theorem not_relevant_not_declared_raw : forall T script,
  relevant_raw (thy_name T) script = false -> ~ spec_declares_theory T script.
Proof. exact not_relevant_not_declared_stmt. Qed.
Print Assumptions not_relevant_not_declared_raw.

(* (b) composition with the options model *)

Theorem detection_keeps_declared_theory_raw : forall script s T t co,
  In t theories -> t_name t = thy_name T -> In co (opts_of t) ->
  gv s (t_name t) = None ->
  spec_declares_theory T script ->
  mv (auto_detect theories (rel_of_raw script) s) co = mv s co.
Proof. exact detection_keeps_stmt. Qed.
Print Assumptions detection_keeps_declared_theory_raw.

Theorem explicit_group_untouched_raw : forall script s t co v,
  In t theories -> In co (opts_of t) -> gv s (t_name t) = Some v ->
  mv (auto_detect theories (rel_of_raw script) s) co = mv s co.
Proof. exact explicit_group_untouched_stmt. Qed.
Print Assumptions explicit_group_untouched_raw.

Theorem disabled_only_if_nothing_declared_raw : forall script s T t co,
  In t theories -> t_name t = thy_name T -> In co (opts_of t) ->
  mv (auto_detect theories (rel_of_raw script) s) co <> mv s co ->
  gv s (t_name t) = None /\ relevant_raw (thy_name T) script = false /\ ~ spec_declares_theory T script.
Proof. exact disabled_only_if_stmt. Qed.
Print Assumptions disabled_only_if_nothing_declared_raw.

(* any group of the registry, also those outside the specification *)
Theorem changed_only_if_irrelevant_raw : forall script s t co,
  In t theories -> In co (opts_of t) ->
  mv (auto_detect theories (rel_of_raw script) s) co <> mv s co ->
  gv s (t_name t) = None /\ has_is_relevant (t_name t) = true
  /\ relevant_raw (t_name t) script = false
  /\ mv (auto_detect theories (rel_of_raw script) s) co = false.
Proof. exact changed_only_if_irrelevant_stmt. Qed.
Print Assumptions changed_only_if_irrelevant_raw.

(* from the command line to the enabled mutator classes *)
Theorem declared_theory_classes_as_cli_raw : forall os script T t c,
  theory_of theories c = Some t -> t_name t = thy_name T ->
  spec_declares_theory T script ->
  enabled theories (auto_detect theories (rel_of_raw script) (parse_opts theories os)) c
  = enabled_spec theories os (fun _ => true) c.
Proof. exact declared_theory_classes_stmt. Qed.
Print Assumptions declared_theory_classes_as_cli_raw.

(* (c) monotone in the script, insensitive to order and multiplicity *)
Theorem relevant_raw_monotone : forall n s1 s2,
  (forall c, In c s1 -> In c s2) -> relevant_raw n s1 = true -> relevant_raw n s2 = true.
Proof. exact relevant_incl_stmt. Qed.
Print Assumptions relevant_raw_monotone.

Theorem relevant_raw_app : forall n a b, relevant_raw n (a ++ b) = relevant_raw n a || relevant_raw n b.
Proof. exact relevant_app_stmt. Qed.
Print Assumptions relevant_raw_app.

Theorem relevant_raw_insert : forall n a c b,
  relevant_raw n (a ++ b) = true -> relevant_raw n (a ++ c :: b) = true.
Proof. exact relevant_insert_stmt. Qed.
Print Assumptions relevant_raw_insert.

Theorem relevant_raw_permutation : forall n s1 s2, Permutation s1 s2 -> relevant_raw n s1 = relevant_raw n s2.
Proof. exact relevant_perm_stmt. Qed.
Print Assumptions relevant_raw_permutation.

Theorem relevant_raw_same_commands : forall n s1 s2,
  (forall c, In c s1 <-> In c s2) -> relevant_raw n s1 = relevant_raw n s2.
Proof. exact relevant_same_commands_stmt. Qed.
Print Assumptions relevant_raw_same_commands.

Theorem relevant_raw_pointwise : forall n s,
  has_is_relevant n = true ->
  (relevant_raw n s = true <-> exists c, In c s /\ relevant_raw n [c] = true).
Proof. exact relevant_pointwise_stmt. Qed.
Print Assumptions relevant_raw_pointwise.

(* a necessary condition of the specification (the model over-approximates) *)
Theorem spec_needs_declaring_command : forall T script,
  spec_declares_theory T script -> existsb may_declare script = true.
Proof. exact spec_needs_declaring_command_stmt. Qed.
Print Assumptions spec_needs_declaring_command.

(* (d) examples; scripts are read with the model of ddSMT's reader *)
Definition script (s : string) : list sexp := parse (lit s).
Definition rel5 (sc : list sexp) : list bool :=
  map (fun n => relevant (lit n) sc) ["arithmetic"; "bv"; "datatypes"; "fp"; "strings"].
Definition rel5_raw (sc : list sexp) : list bool :=
  map (fun n => relevant_raw (lit n) sc) ["arithmetic"; "bv"; "datatypes"; "fp"; "strings"].

(* a bit-vector sort only in a quantifier binder inside an assert *)
Example ex_bv_in_binder :
  rel5 (script "(assert (forall ((x (_ BitVec 4))) (= x x)))") = [false; true; false; false; false].
Proof. vm_compute. reflexivity. Qed.
Example ex_bv_in_binder_spec : spec_declares_theory BV (script "(assert (forall ((x (_ BitVec 4))) (= x x)))").
Proof.
  eexists. split; [vm_compute; left; reflexivity |].
  left. eexists. split.
  - apply cs_assert. exists (sym "forall"). do 3 eexists. split; [now left |]. split; [apply st_refl |]. now left.
  - apply m_here. apply (ts_bv (lit "4")).
Qed.

Example ex_declare_fun_int :
  rel5 (script "(declare-fun f (Int) Bool)") = [true; false; false; false; false].
Proof. vm_compute. reflexivity. Qed.
Example ex_declare_fun_int_spec : spec_declares_theory Arith (script "(declare-fun f (Int) Bool)").
Proof.
  eexists. split; [vm_compute; left; reflexivity |].
  left. exists (sym "Int"). split; [apply cs_declare_fun_arg; now left | apply m_here; apply ts_int].
Qed.

(* a datatype with a Real field: datatypes and arithmetic *)
Example ex_datatype_real :
  rel5 (script "(declare-datatype L ((nil) (cons (hd Real) (tl L))))") = [true; false; true; false; false].
Proof. vm_compute. reflexivity. Qed.
Example ex_datatype_real_spec_arith :
  spec_declares_theory Arith (script "(declare-datatype L ((nil) (cons (hd Real) (tl L))))").
Proof.
  eexists. split; [vm_compute; left; reflexivity |].
  left. eexists. split.
  - apply (cs_datatype _ (sym "declare-datatype")); [now left |]. apply dd_plain.
    do 3 eexists. split; [right; now left |]. now left.
  - apply m_here. apply ts_real.
Qed.
Example ex_datatype_real_spec_dt :
  spec_declares_theory Datatypes (script "(declare-datatype L ((nil) (cons (hd Real) (tl L))))").
Proof.
  eexists. split; [vm_compute; left; reflexivity |].
  right. split; [reflexivity |]. exists (sym "declare-datatype"). eexists.
  split; [left; now left | reflexivity].
Qed.

(* nested sorts mention every theory inside *)
Example ex_nested_sort :
  rel5 (script "(declare-const a (Array Int (_ BitVec 8)))") = [true; true; false; false; false].
Proof. vm_compute. reflexivity. Qed.
Example ex_nested_sort_spec : spec_declares_theory BV (script "(declare-const a (Array Int (_ BitVec 8)))").
Proof.
  eexists. split; [vm_compute; left; reflexivity |].
  left. eexists. split; [apply cs_declare_const |].
  apply (m_arg _ (sym "Array") _ (T [sym "_"; sym "BitVec"; L (lit "8")])); [discriminate | right; now left |].
  apply m_here. apply ts_bv.
Qed.

(* only Bool: none of the five; the groups without is_relevant are never disabled *)
Example ex_bool_only :
  rel5 (script "(set-logic ALL)(declare-const p Bool)(declare-fun f (Bool Bool) Bool)(define-fun g ((a Bool)) Bool (not a))(assert (forall ((b Bool)) (=> b (f b (g p)))))(check-sat)")
  = [false; false; false; false; false].
Proof. vm_compute. reflexivity. Qed.
Example ex_never_disabled :
  map (fun n => relevant (lit n) []) ["core"; "boolean"; "smtlib"; "arithmetic"; "bv"; "datatypes"; "fp"; "strings"]
  = [true; true; true; false; false; false; false; false].
Proof. vm_compute. reflexivity. Qed.

(* with the options model: only Bool declared, nothing set by the user: the
   arithmetic option is switched off; with an Int declaration it stays on *)
Example ex_compose_off :
  mv (auto_detect theories (rel_of (script "(declare-const p Bool)")) (parse_opts theories [])) (lit "arith-constants") = false.
Proof. vm_compute. reflexivity. Qed.
Example ex_compose_on :
  mv (auto_detect theories (rel_of (script "(declare-const p Int)")) (parse_opts theories [])) (lit "arith-constants") = true.
Proof. vm_compute. reflexivity. Qed.

(* quirks of the sort tests that the model mirrors *)
Example ex_bv_quirks :
  map (fun s => relevant (lit "bv") (script s))
    ["(declare-const x (_ BitVec 8))"; "(declare-const x (_ BitVec w))"; "(declare-const x (_ BitVec (a b)))";
     "(declare-const x (_ BitVec))"; "(declare-const x (_ BitVec 8 9))"; "(declare-const x (BitVec 8))";
     "(_ BitVec 8)"; "((_ BitVec 8))"; "(assert (= #b01 (_ bv1 2)))"]
  = [true; true; true; false; false; false; true; false; false].
Proof. vm_compute. reflexivity. Qed.
Example ex_fp_quirks :
  map (fun s => relevant (lit "fp") (script s))
    ["(x Float16)"; "(x Float32)"; "(x Float64)"; "(x Float128)"; "(x Float8)"; "(x Float)"; "(x Float32x)";
     "(x (_ FloatingPoint 8 24))"; "(x (_ FloatingPoint a b))"; "(x (_ FloatingPoint 8))"; "(x (_ FloatingPoint 8 24 1))";
     "(x RoundingMode)"; "(x (RoundingMode))"; "(x RNE)"; "Float32"; "(Float32)"]
  = [true; true; true; true; false; false; false; true; true; false; false; true; true; false; false; true].
Proof. vm_compute. reflexivity. Qed.
Example ex_strings_quirks :
  map (fun s => relevant (lit "strings") (script s))
    ["(x String)"; "(x RegLan)"; "(x (Seq Int))"; "(x (Seq))"; "(x (Seq a b))"; "(Seq)"; "(x Seq)"; "((Seq Int))";
     "(assert (str.contains a b))"]
  = [true; true; true; true; true; true; false; false; false].
Proof. vm_compute. reflexivity. Qed.

(* OVER-APPROXIMATION (allowed by C14, which only forbids disabling a needed
   theory): the model says relevant although the (wide) specification does not hold *)
(* the symbol Int used as a term *)
Example ex_over_term :
  relevant (lit "arithmetic") (script "(assert (= Int Int))") = true
  /\ ~ spec_declares_theory_wide Arith (script "(assert (= Int Int))").
Proof.
  split; [vm_compute; reflexivity |]. intros H. apply spec_wide_needs_declaring_command in H.
  vm_compute in H. discriminate.
Qed.
(* inside set-info *)
Example ex_over_set_info :
  relevant (lit "arithmetic") (script "(set-info :source Int)") = true
  /\ ~ spec_declares_theory_wide Arith (script "(set-info :source Int)").
Proof.
  split; [vm_compute; reflexivity |]. intros H. apply spec_wide_needs_declaring_command in H.
  vm_compute in H. discriminate.
Qed.
(* a sort annotation inside a term: not one of the sort positions of the specification *)
Example ex_over_as :
  relevant (lit "fp") (script "(assert (= x (as y Float32)))") = true
  /\ ~ spec_declares_theory_wide FP (script "(assert (= x (as y Float32)))").
Proof.
  split; [vm_compute; reflexivity |]. intros H. apply spec_wide_needs_declaring_command in H.
  vm_compute in H. discriminate.
Qed.
(* a top-level node that is no command at all *)
Example ex_over_no_command :
  relevant (lit "bv") (script "(_ BitVec 8)") = true /\ ~ spec_declares_theory_wide BV (script "(_ BitVec 8)").
Proof.
  split; [vm_compute; reflexivity |]. intros H. apply spec_wide_needs_declaring_command in H.
  vm_compute in H. discriminate.
Qed.
(* Int as the NAME of a declared constant of sort Bool *)
Example ex_over_name :
  relevant (lit "arithmetic") (script "(declare-const Int Bool)") = true
  /\ ~ spec_declares_theory_wide Arith (script "(declare-const Int Bool)").
Proof. split; [vm_compute; reflexivity | unfold spec_declares_theory_wide; refute_spec]. Qed.
(* an index of an indexed identifier is not an argument sort *)
Example ex_over_index :
  relevant (lit "arithmetic") (script "(declare-const x (_ Foo Int))") = true
  /\ ~ spec_declares_theory_wide Arith (script "(declare-const x (_ Foo Int))").
Proof. split; [vm_compute; reflexivity | unfold spec_declares_theory_wide; refute_spec]. Qed.
(* a malformed bit-vector sort with a list as width passes is_bv_sort *)
Example ex_over_bv_width :
  relevant (lit "bv") (script "(declare-const x (_ BitVec (a b)))") = true
  /\ ~ spec_declares_theory_wide BV (script "(declare-const x (_ BitVec (a b)))").
Proof. split; [vm_compute; reflexivity | unfold spec_declares_theory_wide; refute_spec]. Qed.

(* REPAIRED: quoted spellings of sort names (|Int| and Int are the same SMT-LIB
   symbol) are seen by the repaired test; the test on the script as it is
   missed them (the finding that led to the repair) *)
Example ex_quoted_sort_symbol_seen :
  rel5 (script "(declare-const x |Int|)(declare-const y (_ |BitVec| 8))(declare-const s |String|)(declare-const r |RoundingMode|)")
  = [true; true; false; true; true]
  /\ rel5_raw (script "(declare-const x |Int|)(declare-const y (_ |BitVec| 8))(declare-const s |String|)(declare-const r |RoundingMode|)")
  = [false; false; false; false; false].
Proof. vm_compute. split; reflexivity. Qed.
Example ex_quoted_sort_symbol_spec :
  spec_declares_theory_wide Arith (script "(declare-const x |Int|)(assert (> x 0))")
  /\ ~ spec_declares_theory Arith (script "(declare-const x |Int|)(assert (> x 0))").
Proof.
  split.
  - unfold spec_declares_theory_wide. eexists. split; [vm_compute; left; reflexivity |].
    left. exists (sym "Int"). split; [apply cs_declare_const | apply m_here; apply ts_int].
  - intros (c & Hc & Hd). vm_compute in Hc. destruct Hc as [<- | [<- | []]].
    + refute_command Hd.
    + assert (H : may_declare (T [sym "assert"; T [sym ">"; sym "x"; sym "0"]]) = true)
        by (apply (cmd_declares_may Arith); exact Hd).
      vm_compute in H. discriminate.
Qed.

(* REPAIRED: comments inside a sort or in front of the command name *)
Example ex_comment_in_bv_sort :
  rel5 (script "(declare-const x (_ BitVec ; width
 8))") = [false; true; false; false; false]
  /\ rel5_raw (script "(declare-const x (_ BitVec ; width
 8))") = [false; false; false; false; false].
Proof. vm_compute. split; reflexivity. Qed.
Example ex_comment_in_bv_sort_spec :
  spec_declares_theory_wide BV (script "(declare-const x (_ BitVec ; width
 8))").
Proof.
  unfold spec_declares_theory_wide. eexists. split; [vm_compute; left; reflexivity |].
  left. eexists. split; [apply cs_declare_const | apply m_here; apply (ts_bv (lit "8"))].
Qed.
Example ex_comment_before_command_name :
  rel5 (script "(; c
 declare-datatypes ((D 0)) (((c))))") = [false; false; true; false; false]
  /\ rel5_raw (script "(; c
 declare-datatypes ((D 0)) (((c))))") = [false; false; false; false; false].
Proof. vm_compute. split; reflexivity. Qed.
Example ex_comment_before_command_name_spec :
  spec_declares_theory_wide Datatypes (script "(; c
 declare-datatypes ((D 0)) (((c))))").
Proof.
  unfold spec_declares_theory_wide. eexists. split; [vm_compute; left; reflexivity |].
  right. split; [reflexivity |]. exists (sym "declare-datatypes"). eexists.
  split; [right; now left | reflexivity].
Qed.
Example ex_comment_in_seq_sort :
  rel5 (script "(declare-const s ( ; c
 Seq Bool))") = [false; false; false; false; true]
  /\ rel5_raw (script "(declare-const s ( ; c
 Seq Bool))") = [false; false; false; false; false].
Proof. vm_compute. split; reflexivity. Qed.
Example ex_comment_in_seq_sort_spec :
  spec_declares_theory_wide Strings (script "(declare-const s ( ; c
 Seq Bool))").
Proof.
  unfold spec_declares_theory_wide. eexists. split; [vm_compute; left; reflexivity |].
  left. eexists. split; [apply cs_declare_const | apply m_here; apply ts_seq].
Qed.

(* smtlib.without_comments: comments vanish at any depth, a list of comments
   becomes (), a top-level comment disappears, |Int| becomes Int, || stays, the
   text of |;x| is not taken for a comment *)
Example ex_without_comments :
  clean_script (script "(x || |Int| |;x|) (; c
) ; d
 (a (b ; e
 ; f
) c)")
  = [T [L (lit "x"); L (lit "||"); L (lit "Int"); L (lit ";x")]; T []; T [L (lit "a"); T [L (lit "b")]; L (lit "c")]].
Proof. vm_compute. reflexivity. Qed.

(* why completeness for the NARROW specification needs the hypothesis "no
   comments": the narrow specification takes any leaf as the width of a
   bit-vector sort, also a comment; without the comment this is no sort *)
Example ex_narrow_spec_comment_as_width :
  spec_declares_theory BV (script "(declare-const x (_ BitVec ; c
))")
  /\ relevant (lit "bv") (script "(declare-const x (_ BitVec ; c
))") = false
  /\ relevant_raw (lit "bv") (script "(declare-const x (_ BitVec ; c
))") = true
  /\ ~ spec_declares_theory_wide BV (script "(declare-const x (_ BitVec ; c
))").
Proof.
  split; [| split; [vm_compute; reflexivity | split; [vm_compute; reflexivity |]]].
  - eexists. split; [vm_compute; left; reflexivity |].
    left. eexists. split; [apply cs_declare_const | apply m_here; apply ts_bv].
  - unfold spec_declares_theory_wide. refute_spec.
Qed.

(* a comment that mentions a sort is a leaf of its own and does not count *)
Example ex_comment :
  rel5 (script "(declare-const x ; Int
 Bool)") = [false; false; false; false; false].
Proof. vm_compute. reflexivity. Qed.
