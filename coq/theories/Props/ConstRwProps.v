(* Properties of the rewrites of Model/ConstRw.v (BVConcatToZeroExtend, BVSimplifyConstants, BVTransformToBool,
   BVZeroExtendPredicate, ArithmeticSimplifyConstant, ArithmeticSplitNaryRelation, SeqNthUnit, StringIndexOfNotFound,
   StringReplaceAll).  Statements only; proofs in Proofs/More2.
   (a) closure: every replacement of a well-formed node (Spec/StdReader.v) is well formed;
   (b) value preservation (Spec/Semantics.v) where the mutator is meant as an identity, and examples where it is not;
   (c) an example of a non-trivial proposal per mutator. *)
From DD Require Import Spec.Semantics Spec.StdReader Model.Rewrites Model.ConstRw.
From DD Require Import Proofs.Closure.RwClosed Proofs.Rw.BvConst Proofs.More2.Closed Proofs.More2.Ident Proofs.More2.ToBool Proofs.More2.Examples.
Local Open Scope list_scope.

(* ================= (a) closure ================= *)
Theorem rw_bv_concat_zext_wf : forall e l e', wf e = true -> rw_bv_concat_zext e = Some l -> In e' l -> wf e' = true.
Proof. exact rw_bv_concat_zext_closed. Qed.
Print Assumptions rw_bv_concat_zext_wf.

Theorem rw_bv_simp_consts_wf : forall e l e', wf e = true -> rw_bv_simp_consts e = Some l -> In e' l -> wf e' = true.
Proof. exact rw_bv_simp_consts_closed. Qed.
Print Assumptions rw_bv_simp_consts_wf.

Theorem rw_bv_to_bool_wf : forall e l e', wf e = true -> rw_bv_to_bool e = Some l -> In e' l -> wf e' = true.
Proof. exact rw_bv_to_bool_closed. Qed.
Print Assumptions rw_bv_to_bool_wf.

Theorem rw_bv_zext_pred_wf : forall e l e', wf e = true -> rw_bv_zext_pred e = Some l -> In e' l -> wf e' = true.
Proof. exact rw_bv_zext_pred_closed. Qed.
Print Assumptions rw_bv_zext_pred_wf.

Theorem rw_arith_simp_const_wf : forall e l e', wf e = true -> rw_arith_simp_const e = Some l -> In e' l -> wf e' = true.
Proof. exact rw_arith_simp_const_closed. Qed.
Print Assumptions rw_arith_simp_const_wf.

Theorem rw_arith_split_nary_wf : forall e l e', wf e = true -> rw_arith_split_nary e = Some l -> In e' l -> wf e' = true.
Proof. exact rw_arith_split_nary_closed. Qed.
Print Assumptions rw_arith_split_nary_wf.

Theorem rw_seq_nth_unit_wf : forall e l e', wf e = true -> rw_seq_nth_unit e = Some l -> In e' l -> wf e' = true.
Proof. exact rw_seq_nth_unit_closed. Qed.
Print Assumptions rw_seq_nth_unit_wf.

Theorem rw_str_indexof_wf : forall e l e', wf e = true -> rw_str_indexof e = Some l -> In e' l -> wf e' = true.
Proof. exact rw_str_indexof_closed. Qed.
Print Assumptions rw_str_indexof_wf.

Theorem rw_str_replace_all_wf : forall e l e', wf e = true -> rw_str_replace_all e = Some l -> In e' l -> wf e' = true.
Proof. exact rw_str_replace_all_closed. Qed.
Print Assumptions rw_str_replace_all_wf.

(* ================= (b) value preservation ================= *)
(* BVConcatToZeroExtend on a binary concat; bit-vector literals are not bound by the valuation *)
Theorem rw_bv_concat_zext_identity : forall rho h c x e' l v,
  (forall s, is_bv_const (L s) = true -> lookup_v s rho = None) ->
  rw_bv_concat_zext (T [L h; c; x]) = Some l -> In e' l ->
  eval rho (T [L h; c; x]) = Some v -> eval rho e' = Some v.
Proof. exact bv_concat_zext_identity. Qed.
Print Assumptions rw_bv_concat_zext_identity.

(* BVZeroExtendPredicate under =, distinct and the unsigned comparisons, whatever the two indices are *)
Theorem rw_bv_zext_pred_identity : forall rho h a b e' l v,
  existsb (iss h) ["="; "distinct"; "bvult"; "bvule"; "bvugt"; "bvuge"]%string = true ->
  rw_bv_zext_pred (T [L h; a; b]) = Some l -> In e' l ->
  eval rho (T [L h; a; b]) = Some v -> eval rho e' = Some v.
Proof. exact bv_zext_pred_identity. Qed.
Print Assumptions rw_bv_zext_pred_identity.

(* ArithmeticSplitNaryRelation for every relation it accepts except distinct *)
Theorem rw_arith_split_nary_identity : forall rho h args e' l v,
  iss h "distinct" = false ->
  rw_arith_split_nary (T (L h :: args)) = Some l -> In e' l ->
  eval rho (T (L h :: args)) = Some v -> eval rho e' = Some v.
Proof. exact arith_split_nary_identity. Qed.
Print Assumptions rw_arith_split_nary_identity.

(* BVTransformToBool when the constant it picks is the bit 1 (it also accepts the bit 0: refuted below); the valuation
   holds bit-vector values in range *)
Theorem rw_bv_to_bool_one_identity : forall rho h a b e' l v,
  (forall k u, lookup_v k rho = Some u -> match u with VV w n => (n < 2 ^ w)%N | _ => True end) ->
  (forall c u, c = a \/ c = b -> is_bv_const c = true -> eval rho c = Some u -> u = VV 1 1) ->
  rw_bv_to_bool (T [L h; a; b]) = Some l -> In e' l ->
  eval rho (T [L h; a; b]) = Some v -> eval rho e' = Some v.
Proof. exact bv_to_bool_one_identity. Qed.
Print Assumptions rw_bv_to_bool_one_identity.

(* ---- the theorems apply: their premises are satisfiable ---- *)
Example ex_to_bool_one_applied :
  eval cr_rho (T [lf "xor"; T [lf "="; lf "#b1"; lf "a"]; T [lf "="; lf "#b1"; lf "b"]; T [lf "="; lf "#b1"; lf "a"]]) = Some (VB false).
Proof.
  apply (rw_bv_to_bool_one_identity cr_rho (lit "=") (T [lf "bvxor"; lf "a"; lf "b"; lf "a"]) (lf "#b1") _
           [T [lf "xor"; T [lf "="; lf "#b1"; lf "a"]; T [lf "="; lf "#b1"; lf "b"]; T [lf "="; lf "#b1"; lf "a"]]] _ cr_rho_ok);
    [| vm_compute; reflexivity | left; reflexivity | vm_compute; reflexivity].
  intros c u [-> | ->] Hc Hu; [discriminate Hc|]. vm_compute in Hu. now injection Hu as <-.
Qed.

Example ex_concat_zext_applied : eval cr_rho (zxs "2" (lf "x")) = Some (VV 6 10).
Proof.
  apply (rw_bv_concat_zext_identity cr_rho (lit "concat") (lf "#b00") (lf "x") _ [zxs "2" (lf "x")] _ cr_rho_lit_free);
    [vm_compute; reflexivity | left; reflexivity | vm_compute; reflexivity].
Qed.

Example ex_zext_pred_applied : eval cr_rho (T [lf "bvult"; zxs "2" (lf "x"); lf "z"]) = Some (VB true).
Proof.
  apply (rw_bv_zext_pred_identity cr_rho (lit "bvult") (zxs "3" (lf "x")) (zxs "1" (lf "z")) _
           [T [lf "bvult"; zxs "2" (lf "x"); lf "z"]] _ eq_refl);
    [vm_compute; reflexivity | left; reflexivity | vm_compute; reflexivity].
Qed.

Example ex_split_nary_applied :
  eval cr_rho (T [lf "and"; T [lf "<"; lf "j"; lf "i"]; T [lf "<"; lf "i"; lf "k"]; T [lf "<"; lf "k"; lf "i"]]) = Some (VB false).
Proof.
  apply (rw_arith_split_nary_identity cr_rho (lit "<") [lf "j"; lf "i"; lf "k"; lf "i"] _
           [T [lf "and"; T [lf "<"; lf "j"; lf "i"]; T [lf "<"; lf "i"; lf "k"]; T [lf "<"; lf "k"; lf "i"]]] _ eq_refl);
    [vm_compute; reflexivity | left; reflexivity | vm_compute; reflexivity].
Qed.

(* ---- where the mutators are not identities (documented weaknesses of the implementation) ---- *)
(* an n-ary concat loses every operand after the second *)
Example rw_bv_concat_zext_nary_refuted :
  let e := T [lf "concat"; lf "#b00"; lf "x"; lf "y"] in
  exists e', rw_bv_concat_zext e = Some [e'] /\ eval cr_rho e = Some (VV 10 160) /\ eval cr_rho e' = Some (VV 6 10).
Proof. eexists. vm_compute. repeat split. Qed.

(* signed comparisons: zero extension makes both operands non-negative *)
Example rw_bv_zext_pred_signed_refuted :
  let e := T [lf "bvslt"; zxs "1" (lf "x"); zxs "1" (lf "y")] in
  exists e', rw_bv_zext_pred e = Some [e'] /\ e' = T [lf "bvslt"; lf "x"; lf "y"] /\
             eval cr_rho e = Some (VB false) /\ eval cr_rho e' = Some (VB true).
Proof. eexists. vm_compute. repeat split. Qed.

Example rw_bv_zext_pred_signed_refuted_sge :
  let e := T [lf "bvsge"; zxs "3" (lf "x"); zxs "1" (lf "z")] in
  exists e', rw_bv_zext_pred e = Some [e'] /\ e' = T [lf "bvsge"; zxs "2" (lf "x"); lf "z"] /\
             eval cr_rho e = Some (VB false) /\ eval cr_rho e' = Some (VB true).
Proof. eexists. vm_compute. repeat split. Qed.

(* BVTransformToBool also accepts the constant 0, for which none of the three translations holds *)
Example rw_bv_to_bool_zero_refuted_bvor :
  let e := T [lf "="; lf "#b0"; T [lf "bvor"; lf "a"; lf "b"]] in
  exists e', rw_bv_to_bool e = Some [e'] /\ e' = T [lf "or"; T [lf "="; lf "#b0"; lf "a"]; T [lf "="; lf "#b0"; lf "b"]] /\
             eval cr_rho e = Some (VB false) /\ eval cr_rho e' = Some (VB true).
Proof. eexists. vm_compute. repeat split. Qed.

Example rw_bv_to_bool_zero_refuted_bvand :
  let e := T [lf "="; T [lf "bvand"; lf "a"; lf "b"]; T [lf "_"; lf "bv0"; lf "1"]] in
  exists e', rw_bv_to_bool e = Some [e'] /\ eval cr_rho e = Some (VB true) /\ eval cr_rho e' = Some (VB false).
Proof. eexists. vm_compute. repeat split. Qed.

Example rw_bv_to_bool_zero_refuted_bvxor :
  let e := T [lf "="; lf "#b0"; T [lf "bvxor"; lf "a"; lf "a"]] in
  exists e', rw_bv_to_bool e = Some [e'] /\ eval cr_rho e = Some (VB true) /\ eval cr_rho e' = Some (VB false).
Proof. eexists. vm_compute. repeat split. Qed.

(* with the constant 1 the same terms keep their value *)
Example ex_bv_to_bool_one :
  let e := T [lf "="; lf "#b1"; T [lf "bvor"; lf "a"; lf "b"]] in
  rw_bv_to_bool e = Some [T [lf "or"; T [lf "="; lf "#b1"; lf "a"]; T [lf "="; lf "#b1"; lf "b"]]] /\
  eval cr_rho e = Some (VB true) /\
  eval cr_rho (T [lf "or"; T [lf "="; lf "#b1"; lf "a"]; T [lf "="; lf "#b1"; lf "b"]]) = Some (VB true).
Proof. vm_compute. repeat split. Qed.

(* distinct is not transitive: only neighbours stay compared *)
Example rw_arith_split_nary_distinct_refuted :
  let e := T [lf "distinct"; lf "i"; lf "j"; lf "i"] in
  exists e', rw_arith_split_nary e = Some [e'] /\ e' = T [lf "and"; T [lf "distinct"; lf "i"; lf "j"]; T [lf "distinct"; lf "j"; lf "i"]] /\
             eval cr_rho e = Some (VB false) /\ eval cr_rho e' = Some (VB true).
Proof. eexists. vm_compute. repeat split. Qed.

(* ================= (c) proposals ================= *)
Example ex_bv_concat_zext :
  let e := T [lf "concat"; T [lf "_"; lf "bv0"; lf "12"]; lf "x"] in
  rw_bv_concat_zext e = Some [zxs "12" (lf "x")] /\ eval cr_rho e = Some (VV 16 10) /\ eval cr_rho (zxs "12" (lf "x")) = Some (VV 16 10).
Proof. vm_compute. repeat split. Qed.

Example ex_bv_concat_zext_raises : rw_bv_concat_zext (T [lf "concat"; lf "#x00"]) = None /\ rw_bv_concat_zext (T [lf "concat"; lf "#b"; lf "x"]) = None.
Proof. vm_compute. repeat split. Qed.

Example ex_bv_simp_consts :
  rw_bv_simp_consts (lf "#xff") = Some [lf "#b00000000"; lf "#b00000001"; lf "#b00000111"; lf "#b00011111"; lf "#b01111111"] /\
  rw_bv_simp_consts (T [lf "_"; lf "bv5"; lf "4"]) = Some [lf "#b0000"; lf "#b0001"; lf "#b0010"] /\
  rw_bv_simp_consts (lf "#b01") = Some [].
Proof. vm_compute. repeat split. Qed.

(* ill-formed numerals that Python's int() accepts: a negative value is written with its sign inside the padding, a
   negative width is read as the sign option of the format *)
Example ex_bv_simp_consts_negative :
  rw_bv_simp_consts (T [lf "_"; lf "bv-5"; lf "8"]) = Some [lf "#b00000000"; lf "#b00000001"; lf "#b000000-1"; lf "#b000000-1"; lf "#b00000-11"] /\
  rw_bv_simp_consts (T [lf "_"; lf "bv5"; lf "-3"]) = Some [lf "#b000"; lf "#b001"; lf "#b010"].
Proof. vm_compute. repeat split. Qed.

Example ex_bv_to_bool :
  rw_bv_to_bool (T [lf "="; T [lf "bvxor"; lf "a"; lf "b"; lf "a"]; T [lf "_"; lf "bv1"; lf "1"]]) =
  Some [T [lf "xor"; T [lf "="; T [lf "_"; lf "bv1"; lf "1"]; lf "a"]; T [lf "="; T [lf "_"; lf "bv1"; lf "1"]; lf "b"];
           T [lf "="; T [lf "_"; lf "bv1"; lf "1"]; lf "a"]]] /\
  rw_bv_to_bool (T [lf "="; lf "#b1"; T [lf "bvand"]]) = Some [lf "and"] /\
  rw_bv_to_bool (T [lf "="; lf "#b11"; T [lf "_"; lf "bv1"; lf "w"]]) = None.
Proof. vm_compute. repeat split. Qed.

Example ex_bv_zext_pred :
  let e := T [lf "bvult"; zxs "3" (lf "x"); zxs "1" (lf "z")] in
  rw_bv_zext_pred e = Some [T [lf "bvult"; zxs "2" (lf "x"); lf "z"]] /\ eval cr_rho e = Some (VB true) /\
  rw_bv_zext_pred (T [lf "="; zxs "2" (lf "x"); zxs "2" (lf "y")]) = Some [T [lf "="; lf "x"; lf "y"]] /\
  rw_bv_zext_pred (T [lf "distinct"; zxs "0" (lf "x"); zxs "7" (lf "y")]) = Some [T [lf "distinct"; lf "x"; zxs "7" (lf "y")]].
Proof. vm_compute. repeat split. Qed.

Example ex_arith_simp_const :
  rw_arith_simp_const (lf "100") = Some [lf "50"; lf "10"] /\
  rw_arith_simp_const (lf "12.5") = Some [lf "12"; lf "12."] /\
  rw_arith_simp_const (lf "2.0") = Some [lf "1"; lf "0"] /\
  rw_arith_simp_const (lf "1.0") = Some [] /\
  rw_arith_simp_const (T [lf "/"; lf "7"; lf "2"]) = Some [lf "3"; T [T [lf "/"; lf "7"]]] /\
  rw_arith_simp_const (T [lf "/"; lf "4"; lf "0"]) = Some [lf "2"; lf "0"].
Proof. vm_compute. repeat split. Qed.

(* the constant goes through a binary64 float: 2^53 + 1 is halved as 2^53, a decimal that rounds to 1.0 is left alone *)
Example ex_arith_simp_const_float :
  rw_arith_simp_const (lf "9007199254740993") = Some [lf "4503599627370496"; lf "900719925474099"] /\
  rw_arith_simp_const (lf "0.99999999999999999999") = Some [] /\
  rw_arith_simp_const (lf "2.0000000000000000001") = Some [lf "1"; lf "0"].
Proof. vm_compute. repeat split. Qed.

Example ex_arith_split_nary :
  let e := T [lf "<="; lf "j"; lf "i"; lf "i"; lf "k"] in
  rw_arith_split_nary e = Some [T [lf "and"; T [lf "<="; lf "j"; lf "i"]; T [lf "<="; lf "i"; lf "i"]; T [lf "<="; lf "i"; lf "k"]]] /\
  eval cr_rho e = Some (VB true) /\ rw_arith_split_nary (T [lf "<="; lf "j"; lf "i"]) = Some [].
Proof. vm_compute. repeat split. Qed.

(* the index of seq.nth is not looked at *)
Example ex_seq_nth_unit :
  rw_seq_nth_unit (T [lf "seq.nth"; T [lf "seq.unit"; T [lf "+"; lf "i"; lf "1"]]; lf "5"]) = Some [T [lf "+"; lf "i"; lf "1"]] /\
  rw_seq_nth_unit (T [lf "seq.nth"; T [lf "seq.unit"]; lf "0"]) = None.
Proof. vm_compute. repeat split. Qed.

Example ex_str_indexof :
  rw_str_indexof (T [lf "str.indexof"; lf "s"; lf "t"; lf "0"]) = Some [T [lf "-"; lf "1"]] /\
  eval cr_rho (T [lf "-"; lf "1"]) = Some (VI (-1)).
Proof. vm_compute. repeat split. Qed.

Example ex_str_replace_all :
  rw_str_replace_all (T [lf "str.replace_all"; lf "s"; lf "t"; lf "u"]) = Some [T [lf "str.replace"; lf "s"; lf "t"; lf "u"]] /\
  rw_str_replace_all (T [lf "str.replace_all"]) = Some [lf "str.replace"].
Proof. vm_compute. repeat split. Qed.
