(* Properties of the ddmin checking loop model (Model/SchedDdmin.v).
   Statements only; the proofs are in Proofs/Ddmin/. *)
From Coq Require Import Wellfounded.
From DD Require Import Model.SchedDdmin.
From DD Require Import Proofs.Ddmin.DdminBase Proofs.Ddmin.DdminInv Proofs.Ddmin.DdminTerm
                       Proofs.Ddmin.DdminSeq.

(* D1: a success is adopted only if it was computed against the current
   input; the adopted input is an accepted candidate of that subset *)
Theorem d_no_stale :
  forall (input : Type) (cands : nat -> input -> list input) (accept : input -> bool)
         (nsubsets : nat) (i : input) (s : dst input) (k : nat) (s' : dst input)
         (r : dresult input) (c : input),
    dreachable input cands accept nsubsets i s ->
    nth_error (dresults s) k = Some r ->
    r_succ r = Some c ->
    dskip s = false ->
    dexec input cands accept nsubsets s (DConsume k) = Some s' ->
    r_base r = dcur s /\ dcur s' = c /\ accept c = true /\ In c (cands (r_id r) (dcur s)).
Proof. exact d_no_stale_lemma. Qed.
Print Assumptions d_no_stale.

(* a later success of the same round is ignored *)
Theorem d_ignored :
  forall (input : Type) (cands : nat -> input -> list input) (accept : input -> bool)
         (nsubsets : nat) (s : dst input) (k : nat) (s' : dst input)
         (r : dresult input) (c : input),
    nth_error (dresults s) k = Some r ->
    r_succ r = Some c ->
    dskip s = true ->
    dexec input cands accept nsubsets s (DConsume k) = Some s' ->
    dcur s' = dcur s /\ dwrites s' = dwrites s /\ dstart s' = dstart s /\ dindex s' = dindex s.
Proof. exact d_ignored_lemma. Qed.
Print Assumptions d_ignored.

(* D2: the write history is a chain of accepted candidates starting at the
   initial input; every written input was tested and accepted before it was
   written; the verdict log is faithful *)
Theorem d_chain :
  forall (input : Type) (cands : nat -> input -> list input) (accept : input -> bool)
         (nsubsets : nat) (i : input) (s : dst input),
    dreachable input cands accept nsubsets i s ->
    chain_from cands accept i (rev (dwrites s)).
Proof. exact d_chain_lemma. Qed.
Print Assumptions d_chain.

Theorem d_written_was_checked :
  forall (input : Type) (cands : nat -> input -> list input) (accept : input -> bool)
         (nsubsets : nat) (i : input) (s : dst input) (w : input),
    dreachable input cands accept nsubsets i s ->
    In w (dwrites s) -> In (w, true) (dchecked s).
Proof. exact d_written_was_checked_lemma. Qed.
Print Assumptions d_written_was_checked.

Theorem d_checked_sound :
  forall (input : Type) (cands : nat -> input -> list input) (accept : input -> bool)
         (nsubsets : nat) (i : input) (s : dst input) (x : input) (b : bool),
    dreachable input cands accept nsubsets i s ->
    In (x, b) (dchecked s) -> accept x = b.
Proof. exact d_checked_sound_lemma. Qed.
Print Assumptions d_checked_sound.

(* D3: the current input is the last content written *)
Theorem d_file_is_last :
  forall (input : Type) (cands : nat -> input -> list input) (accept : input -> bool)
         (nsubsets : nat) (i : input) (s : dst input),
    dreachable input cands accept nsubsets i s ->
    match dwrites s with w :: _ => dcur s = w | [] => dcur s = i end.
Proof. exact d_file_is_last_lemma. Qed.
Print Assumptions d_file_is_last.

(* D4: at most nsubsets adoptions in one call; the restart index lies beyond
   the number of adoptions so far *)
Theorem d_round_progress :
  forall (input : Type) (cands : nat -> input -> list input) (accept : input -> bool)
         (nsubsets : nat) (i : input) (s : dst input),
    dreachable input cands accept nsubsets i s ->
    length (dwrites s) <= nsubsets.
Proof. exact d_round_progress_lemma. Qed.
Print Assumptions d_round_progress.

Theorem d_restart_index :
  forall (input : Type) (cands : nat -> input -> list input) (accept : input -> bool)
         (nsubsets : nat) (i : input) (s : dst input) (k : nat),
    dreachable input cands accept nsubsets i s ->
    dstart s = Some k ->
    length (dwrites s) <= k /\ k <= dindex s /\ dindex s <= nsubsets.
Proof. exact d_restart_index_lemma. Qed.
Print Assumptions d_restart_index.

(* final states are quiescent and terminal; other reachable states can move *)
Theorem d_done_quiescent :
  forall (input : Type) (cands : nat -> input -> list input) (accept : input -> bool)
         (nsubsets : nat) (i : input) (s : dst input),
    dreachable input cands accept nsubsets i s ->
    ddone s = true ->
    dskip s = false /\ dpending s = [] /\ dresults s = [] /\ dindex s = nsubsets.
Proof. exact d_done_lemma. Qed.
Print Assumptions d_done_quiescent.

Theorem d_done_terminal :
  forall (input : Type) (cands : nat -> input -> list input) (accept : input -> bool)
         (nsubsets : nat) (s : dst input) (a : daction),
    ddone s = true -> dexec input cands accept nsubsets s a = None.
Proof. exact d_done_terminal_lemma. Qed.
Print Assumptions d_done_terminal.

Theorem d_no_deadlock :
  forall (input : Type) (cands : nat -> input -> list input) (accept : input -> bool)
         (nsubsets : nat) (i : input) (s : dst input),
    dreachable input cands accept nsubsets i s ->
    ddone s = false ->
    exists a s', dexec input cands accept nsubsets s a = Some s'.
Proof. exact d_no_deadlock_lemma. Qed.
Print Assumptions d_no_deadlock.

(* D5: termination, without any hypothesis on accept or cands: every step
   from a reachable state decreases the lexicographic variant
   (nsubsets - adoptions, skip flag, remaining work of the round) *)
Theorem d_step_decreases :
  forall (input : Type) (cands : nat -> input -> list input) (accept : input -> bool)
         (nsubsets : nat) (i : input) (s : dst input) (a : daction) (s' : dst input),
    dreachable input cands accept nsubsets i s ->
    dexec input cands accept nsubsets s a = Some s' ->
    dmlt nsubsets s' s.
Proof. exact d_step_decreases_lemma. Qed.
Print Assumptions d_step_decreases.

Theorem d_variant_wf :
  forall (input : Type) (nsubsets : nat), well_founded (@dmlt input nsubsets).
Proof. exact dmlt_wf. Qed.
Print Assumptions d_variant_wf.

Theorem d_terminates :
  forall (input : Type) (cands : nat -> input -> list input) (accept : input -> bool)
         (nsubsets : nat) (i : input),
    well_founded (fun s' s : dst input =>
                    dreachable input cands accept nsubsets i s /\
                    dstep input cands accept nsubsets s s').
Proof. exact d_terminates_lemma. Qed.
Print Assumptions d_terminates.

Theorem d_no_infinite_run :
  forall (input : Type) (cands : nat -> input -> list input) (accept : input -> bool)
         (nsubsets : nat) (i : input) (f : nat -> dst input),
    dreachable input cands accept nsubsets i (f 0) ->
    (forall n, dstep input cands accept nsubsets (f n) (f (S n))) ->
    False.
Proof. exact d_no_infinite_run_lemma. Qed.
Print Assumptions d_no_infinite_run.

(* D6: the sequential special case: every generated task is worked on and
   consumed before the next generator step *)
Theorem seq_run_reachable :
  forall (input : Type) (cands : nat -> input -> list input) (accept : input -> bool)
         (nsubsets : nat) (i : input) (s : dst input),
    seq_run cands accept nsubsets i s ->
    dreachable input cands accept nsubsets i s.
Proof. exact seq_run_reachable_lemma. Qed.
Print Assumptions seq_run_reachable.

(* between blocks nothing is pending or outstanding, and the run refines the
   textbook sequential loop sq_step *)
Theorem seq_refines :
  forall (input : Type) (cands : nat -> input -> list input) (accept : input -> bool)
         (nsubsets : nat) (i : input) (s : dst input),
    seq_run cands accept nsubsets i s ->
    dpending s = [] /\ dresults s = [] /\
    exists n, sq_iter cands accept nsubsets n (i, 0, []) = Some (cfg_of s).
Proof. exact seq_refines_lemma. Qed.
Print Assumptions seq_refines.

Theorem seq_done :
  forall (input : Type) (cands : nat -> input -> list input) (accept : input -> bool)
         (nsubsets : nat) (i : input) (s : dst input),
    seq_run cands accept nsubsets i s ->
    ddone s = true ->
    sq_step cands accept nsubsets (cfg_of s) = None.
Proof. exact seq_done_lemma. Qed.
Print Assumptions seq_done.

Theorem seq_progress :
  forall (input : Type) (cands : nat -> input -> list input) (accept : input -> bool)
         (nsubsets : nat) (i : input) (s : dst input),
    seq_run cands accept nsubsets i s ->
    ddone s = false ->
    exists s', seq_next cands accept nsubsets s = Some s'.
Proof. exact seq_progress_lemma. Qed.
Print Assumptions seq_progress.

Theorem seq_deterministic :
  forall (input : Type) (cands : nat -> input -> list input) (accept : input -> bool)
         (nsubsets : nat) (i : input) (s1 s2 : dst input),
    seq_run cands accept nsubsets i s1 ->
    seq_run cands accept nsubsets i s2 ->
    (exists n, seq_iter cands accept nsubsets n s1 = Some s2) \/
    (exists n, seq_iter cands accept nsubsets n s2 = Some s1).
Proof. exact seq_deterministic_lemma. Qed.
Print Assumptions seq_deterministic.

Theorem seq_final :
  forall (input : Type) (cands : nat -> input -> list input) (accept : input -> bool)
         (nsubsets : nat) (i : input) (s1 s2 : dst input),
    seq_run cands accept nsubsets i s1 ->
    seq_run cands accept nsubsets i s2 ->
    ddone s1 = true -> ddone s2 = true -> s1 = s2.
Proof. exact seq_final_lemma. Qed.
Print Assumptions seq_final.

(* ------------------------------------------------------------------ *)
(* Examples (non-vacuity) *)

Module DEx.
  Definition cands (k x : nat) : list nat :=
    if Nat.ltb k x then [x - 1; x - 2] else [].
  Definition accept (c : nat) : bool := Nat.leb 2 c.
  Definition nsubsets : nat := 4.

  (* two workers.  Round 1: three tasks for input 5; tasks 1 and 0 both
     succeed; the result of task 1 arrives first and is adopted (restart at
     subset 2); the worker of task 2 sees the abort flag; the success of
     task 0 is ignored.  Round 2 restarts at subset 2 for input 4, adopts 3
     (restart at subset 3).  Round 3 generates nothing and the loop ends. *)
  Definition run_par : list daction :=
    [DGen; DGen; DGen; DWork 1 false; DWork 0 false; DConsume 0; DWork 0 true;
     DConsume 0; DConsume 0; DEndRound;
     DGen; DWork 0 false; DConsume 0; DEndRound;
     DGen; DEndRound].

  Definition final (l : list daction) : option (bool * nat * list nat * nat) :=
    match dreplay nat cands accept nsubsets (dinit 5) l with
    | Some s => Some (ddone s, dcur s, dwrites s, dindex s)
    | None => None
    end.

  Example run_par_finishes : final run_par = Some (true, 3, [3; 4], 4).
  Proof. vm_compute. reflexivity. Qed.

  (* the state right before the second success is consumed: a success was
     already adopted in this round, and the outstanding result is a success *)
  Example run_par_ignored :
    match dreplay nat cands accept nsubsets (dinit 5) (firstn 7 run_par) with
    | Some s =>
        dskip s = true /\ dcur s = 4 /\
        option_map (fun r => (r_id r, r_base r, r_succ r)) (nth_error (dresults s) 0)
          = Some (0, 5, Some 4) /\
        option_map (fun s' => (dcur s', dwrites s'))
                   (dexec nat cands accept nsubsets s (DConsume 0)) = Some (4, [4])
    | None => False
    end.
  Proof. vm_compute. repeat split; reflexivity. Qed.

  (* after DEndRound the generator restarts at subset 2 *)
  Example run_par_restart :
    option_map (fun s => (dindex s, dcur s, dstopped s, dskip s, dstart s))
               (dreplay nat cands accept nsubsets (dinit 5) (firstn 10 run_par))
    = Some (2, 4, false, false, None).
  Proof. vm_compute. reflexivity. Qed.

  (* a worker may not pretend to have seen the abort flag before it is set *)
  Example early_abort_rejected :
    dreplay nat cands accept nsubsets (dinit 5) [DGen; DWork 0 true] = None.
  Proof. vm_compute. reflexivity. Qed.

  (* the round cannot end while a result is outstanding *)
  Example early_end_rejected :
    dreplay nat cands accept nsubsets (dinit 5) [DGen; DWork 0 false; DEndRound] = None.
  Proof. vm_compute. reflexivity. Qed.

  Example ex_reach_par : exists s,
    dreplay nat cands accept nsubsets (dinit 5) run_par = Some s /\
    dreachable nat cands accept nsubsets 5 s /\ ddone s = true /\ dwrites s = [3; 4].
  Proof.
    destruct (dreplay nat cands accept nsubsets (dinit 5) run_par) as [ s | ] eqn:E.
    - exists s. split; [ reflexivity | ]. split.
      + eapply dreplay_reachable; [ apply DR0 | exact E ].
      + revert E. vm_compute. intros E. injection E as <-. split; reflexivity.
    - revert E. vm_compute. discriminate.
  Qed.

  (* the sequential run of the same instance: 5 -> 4 -> 3 -> 2 *)
  Example ex_seq :
    option_map (fun s => (ddone s, dcur s, dwrites s, dindex s))
               (seq_iter cands accept nsubsets 8 (dinit 5)) = Some (true, 2, [2; 3; 4], 4).
  Proof. vm_compute. reflexivity. Qed.

  Example ex_seq_run : exists s,
    seq_run cands accept nsubsets 5 s /\ ddone s = true /\ dcur s = 2.
  Proof.
    destruct (seq_iter cands accept nsubsets 8 (dinit 5)) as [ s | ] eqn:E.
    - exists s. split.
      + eapply seq_iter_run; [ apply SQ0 | exact E ].
      + revert E. vm_compute. intros E. injection E as <-. split; reflexivity.
    - revert E. vm_compute. discriminate.
  Qed.

  Example ex_sq_spec :
    sq_iter cands accept nsubsets 4 (5, 0, []) = Some (2, 4, [2; 3; 4]) /\
    sq_iter cands accept nsubsets 5 (5, 0, []) = None.
  Proof. vm_compute. split; reflexivity. Qed.

  (* the theorems applied to the instance *)
  Example ex_bounded : forall s,
    dreachable nat cands accept nsubsets 5 s -> length (dwrites s) <= 4.
  Proof.
    intros s Hr. exact (d_round_progress nat cands accept nsubsets 5 s Hr).
  Qed.

  Example ex_terminates : forall f : nat -> dst nat,
    f 0 = dinit 5 -> (forall n, dstep nat cands accept nsubsets (f n) (f (S n))) -> False.
  Proof.
    intros f H0 Hs.
    apply (d_no_infinite_run nat cands accept nsubsets 5 f); [ | exact Hs ].
    rewrite H0. apply DR0.
  Qed.

  Example ex_all_accepted : forall s w,
    dreachable nat cands accept nsubsets 5 s -> In w (dwrites s) -> 2 <= w.
  Proof.
    intros s w Hr Hw.
    pose proof (d_written_was_checked nat cands accept nsubsets 5 s w Hr Hw) as H1.
    pose proof (d_checked_sound nat cands accept nsubsets 5 s w true Hr H1) as H2.
    unfold accept in H2. apply Nat.leb_le in H2. exact H2.
  Qed.
End DEx.
