(* C17: the rewrites documented as identities preserve the value of every term
   that has one (Spec/Semantics.v) and the sort of every well-sorted term
   (Spec/Typing.v).  Statements only; proofs in Proofs/Rw. *)
From DD Require Import Spec.Semantics Spec.Typing Model.Rewrites.
From DD Require Import Proofs.Rw.Range Proofs.Rw.BoolRw Proofs.Rw.BvConst Proofs.Rw.BvRw1 Proofs.Rw.BvRw2 Proofs.Rw.BvRw3 Proofs.Rw.BvRw4.
From DD Require Import Proofs.Rw.SortRw1 Proofs.Rw.SortRw2 Proofs.Rw.SortRw3 Proofs.Rw.Examples.
Local Open Scope list_scope.

(* ================= value preservation ================= *)

(* ---- Boolean and arithmetic rewrites ---- *)
Theorem rw_bool_double_neg_identity : forall rho e e' l v,
  rw_bool_double_neg e = Some l -> In e' l -> eval rho e = Some v -> eval rho e' = Some v.
Proof. exact bool_double_neg_identity. Qed.
Print Assumptions rw_bool_double_neg_identity.

Theorem rw_bool_xor_binary_identity : forall rho e e' l v,
  rw_bool_xor_binary e = Some l -> In e' l -> eval rho e = Some v -> eval rho e' = Some v.
Proof. exact bool_xor_binary_identity. Qed.
Print Assumptions rw_bool_xor_binary_identity.

Theorem rw_bool_de_morgan_identity : forall rho e e' l v,
  rw_bool_de_morgan e = Some l -> In e' l -> eval rho e = Some v -> eval rho e' = Some v.
Proof. exact bool_de_morgan_identity. Qed.
Print Assumptions rw_bool_de_morgan_identity.

(* binary implication *)
Theorem rw_bool_implication_identity : forall rho h a b e' l v,
  rw_bool_implication (T [L h; a; b]) = Some l -> In e' l ->
  eval rho (T [L h; a; b]) = Some v -> eval rho e' = Some v.
Proof. exact bool_implication_identity. Qed.
Print Assumptions rw_bool_implication_identity.

(* binary equality with false; the valuation does not rebind false and the
   operands are Boolean (the evaluation of = does not check the sorts) *)
Theorem rw_bool_false_eq_identity : forall rho h a b e' l v,
  lookup_v (lit "false") rho = None ->
  (forall u, eval rho a = Some u -> exists x, u = VB x) ->
  (forall u, eval rho b = Some u -> exists x, u = VB x) ->
  rw_bool_false_eq (T [L h; a; b]) = Some l -> In e' l ->
  eval rho (T [L h; a; b]) = Some v -> eval rho e' = Some v.
Proof. exact bool_false_eq_identity. Qed.
Print Assumptions rw_bool_false_eq_identity.

(* negation of a binary relation *)
Theorem rw_arith_negate_relation_identity : forall rho h r x y e' l v,
  rw_arith_negate_relation (T [L h; T [L r; x; y]]) = Some l -> In e' l ->
  eval rho (T [L h; T [L r; x; y]]) = Some v -> eval rho e' = Some v.
Proof. exact arith_negate_relation_identity. Qed.
Print Assumptions rw_arith_negate_relation_identity.

(* ---- bit-vector rewrites ---- *)
Theorem rw_bv_reflexive_nand_identity : forall rho e e' l v,
  rw_bv_reflexive_nand e = Some l -> In e' l -> eval rho e = Some v -> eval rho e' = Some v.
Proof. exact bv_reflexive_nand_identity. Qed.
Print Assumptions rw_bv_reflexive_nand_identity.

(* the valuation holds bit-vector values in range *)
Theorem rw_bv_double_neg_identity : forall rho e e' l v,
  (forall k u, lookup_v k rho = Some u -> match u with VV w n => (n < 2 ^ w)%N | _ => True end) ->
  rw_bv_double_neg e = Some l -> In e' l -> eval rho e = Some v -> eval rho e' = Some v.
Proof. exact bv_double_neg_identity. Qed.
Print Assumptions rw_bv_double_neg_identity.

(* range invariant of the evaluation *)
Theorem eval_in_range : forall rho e w n,
  (forall k u, lookup_v k rho = Some u -> match u with VV w n => (n < 2 ^ w)%N | _ => True end) ->
  eval rho e = Some (VV w n) -> (n < 2 ^ w)%N.
Proof. exact eval_range_bv. Qed.
Print Assumptions eval_in_range.

(* the equality compares bit-vectors of one width; literals are not bound by the valuation *)
Theorem rw_bv_ite_to_bvcomp_identity : forall is_bv_term rho h eq x y rest e' l v,
  (forall s, is_bv_const (L s) = true -> lookup_v s rho = None) ->
  (forall v1 v2, eval rho x = Some v1 -> eval rho y = Some v2 -> exists w n m, v1 = VV w n /\ v2 = VV w m) ->
  rw_bv_ite_to_bvcomp is_bv_term (T (L h :: T [L eq; x; y] :: rest)) = Some l -> In e' l ->
  eval rho (T (L h :: T [L eq; x; y] :: rest)) = Some v -> eval rho e' = Some v.
Proof. exact bv_ite_to_bvcomp_identity. Qed.
Print Assumptions rw_bv_ite_to_bvcomp_identity.

Theorem rw_bv_elim_bvcomp_identity : forall bw rho h c g x y e' l v,
  (forall s, is_bv_const (L s) = true -> lookup_v s rho = None) ->
  (forall t w n, eval rho t = Some (VV w n) -> bw t = (-1)%Z \/ bw t = Z.of_N w) ->
  rw_bv_elim_bvcomp bw (T [L h; c; T (L g :: [x; y])]) = Some l -> In e' l ->
  eval rho (T [L h; c; T (L g :: [x; y])]) = Some v -> eval rho e' = Some v.
Proof. exact bv_elim_bvcomp_identity. Qed.
Print Assumptions rw_bv_elim_bvcomp_identity.

Theorem rw_bv_normalize_identity : forall rho e e' l v,
  (forall s, is_bv_const (L s) = true -> lookup_v s rho = None) ->
  rw_bv_normalize e = Some l -> In e' l -> eval rho e = Some v -> eval rho e' = Some v.
Proof. exact bv_normalize_identity. Qed.
Print Assumptions rw_bv_normalize_identity.

Theorem rw_bv_eval_extend_identity : forall rho e e' l v,
  (forall s, is_bv_const (L s) = true -> lookup_v s rho = None) ->
  rw_bv_eval_extend e = Some l -> In e' l -> eval rho e = Some v -> eval rho e' = Some v.
Proof. exact bv_eval_extend_identity. Qed.
Print Assumptions rw_bv_eval_extend_identity.

Theorem rw_bv_extract_const_identity : forall rho e e' l v,
  (forall s, is_bv_const (L s) = true -> lookup_v s rho = None) ->
  rw_bv_extract_const e = Some l -> In e' l -> eval rho e = Some v -> eval rho e' = Some v.
Proof. exact bv_extract_const_identity. Qed.
Print Assumptions rw_bv_extract_const_identity.

Theorem rw_bv_merge_extend_identity : forall rho e e' l v,
  (forall k u, lookup_v k rho = Some u -> match u with VV w n => (n < 2 ^ w)%N | _ => True end) ->
  rw_bv_merge_extend e = Some l -> In e' l -> eval rho e = Some v -> eval rho e' = Some v.
Proof. exact bv_merge_extend_identity. Qed.
Print Assumptions rw_bv_merge_extend_identity.

Theorem rw_bv_extract_zext_identity : forall bw rho e e' l v,
  (forall k u, lookup_v k rho = Some u -> match u with VV w n => (n < 2 ^ w)%N | _ => True end) ->
  (forall t w n, eval rho t = Some (VV w n) -> bw t = (-1)%Z \/ bw t = Z.of_N w) ->
  rw_bv_extract_zext bw e = Some l -> In e' l -> eval rho e = Some v -> eval rho e' = Some v.
Proof. exact bv_extract_zext_identity. Qed.
Print Assumptions rw_bv_extract_zext_identity.

(* ================= sort preservation ================= *)
Theorem rw_bool_double_neg_sort : forall g e e' l s,
  rw_bool_double_neg e = Some l -> In e' l -> type_of g e = Some s -> type_of g e' = Some s.
Proof. exact bool_double_neg_sort. Qed.
Print Assumptions rw_bool_double_neg_sort.

Theorem rw_bool_xor_binary_sort : forall g e e' l s,
  rw_bool_xor_binary e = Some l -> In e' l -> type_of g e = Some s -> type_of g e' = Some s.
Proof. exact bool_xor_binary_sort. Qed.
Print Assumptions rw_bool_xor_binary_sort.

Theorem rw_bool_de_morgan_sort : forall g e e' l s,
  rw_bool_de_morgan e = Some l -> In e' l -> type_of g e = Some s -> type_of g e' = Some s.
Proof. exact bool_de_morgan_sort. Qed.
Print Assumptions rw_bool_de_morgan_sort.

Theorem rw_bool_implication_sort : forall g h a b e' l s,
  rw_bool_implication (T [L h; a; b]) = Some l -> In e' l ->
  type_of g (T [L h; a; b]) = Some s -> type_of g e' = Some s.
Proof. exact bool_implication_sort. Qed.
Print Assumptions rw_bool_implication_sort.

Theorem rw_bool_false_eq_sort : forall g h a b e' l s,
  assoc (lit "false") (e_vars g) = None ->
  rw_bool_false_eq (T [L h; a; b]) = Some l -> In e' l ->
  type_of g (T [L h; a; b]) = Some s -> type_of g e' = Some s.
Proof. exact bool_false_eq_sort. Qed.
Print Assumptions rw_bool_false_eq_sort.

(* the relation is not one of the two non-SMT-LIB names the mutator also accepts *)
Theorem rw_arith_negate_relation_sort : forall g h r x y e' l s,
  iss r "!=" = false -> iss r "<>" = false ->
  rw_arith_negate_relation (T [L h; T [L r; x; y]]) = Some l -> In e' l ->
  type_of g (T [L h; T [L r; x; y]]) = Some s -> type_of g e' = Some s.
Proof. exact arith_negate_relation_sort. Qed.
Print Assumptions rw_arith_negate_relation_sort.

Theorem rw_bv_reflexive_nand_sort : forall g e e' l s,
  rw_bv_reflexive_nand e = Some l -> In e' l -> type_of g e = Some s -> type_of g e' = Some s.
Proof. exact bv_reflexive_nand_sort. Qed.
Print Assumptions rw_bv_reflexive_nand_sort.

Theorem rw_bv_double_neg_sort : forall g e e' l s,
  rw_bv_double_neg e = Some l -> In e' l -> type_of g e = Some s -> type_of g e' = Some s.
Proof. exact bv_double_neg_sort. Qed.
Print Assumptions rw_bv_double_neg_sort.

(* literals are bound neither as symbols nor as constructors; is_bv_term is sound *)
Theorem rw_bv_ite_to_bvcomp_sort : forall is_bv_term g h eq x y rest e' l s,
  (forall s0, is_bv_const (L s0) = true -> assoc s0 (e_vars g) = None /\ find_cons (e_dts g) s0 = None) ->
  (forall t st, is_bv_term t = true -> type_of g t = Some st -> Typing.bv_width st <> None) ->
  rw_bv_ite_to_bvcomp is_bv_term (T (L h :: T [L eq; x; y] :: rest)) = Some l -> In e' l ->
  type_of g (T (L h :: T [L eq; x; y] :: rest)) = Some s -> type_of g e' = Some s.
Proof. exact bv_ite_to_bvcomp_sort. Qed.
Print Assumptions rw_bv_ite_to_bvcomp_sort.

Theorem rw_bv_elim_bvcomp_sort : forall bw g h c f x y e' l s,
  rw_bv_elim_bvcomp bw (T [L h; c; T (L f :: [x; y])]) = Some l -> In e' l ->
  type_of g (T [L h; c; T (L f :: [x; y])]) = Some s -> type_of g e' = Some s.
Proof. exact bv_elim_bvcomp_sort. Qed.
Print Assumptions rw_bv_elim_bvcomp_sort.

Theorem rw_bv_normalize_sort : forall g e e' l s,
  (forall s0, is_bv_const (L s0) = true -> assoc s0 (e_vars g) = None /\ find_cons (e_dts g) s0 = None) ->
  rw_bv_normalize e = Some l -> In e' l -> type_of g e = Some s -> type_of g e' = Some s.
Proof. exact bv_normalize_sort. Qed.
Print Assumptions rw_bv_normalize_sort.

Theorem rw_bv_eval_extend_sort : forall g e e' l s,
  (forall s0, is_bv_const (L s0) = true -> assoc s0 (e_vars g) = None /\ find_cons (e_dts g) s0 = None) ->
  rw_bv_eval_extend e = Some l -> In e' l -> type_of g e = Some s -> type_of g e' = Some s.
Proof. exact bv_eval_extend_sort. Qed.
Print Assumptions rw_bv_eval_extend_sort.

Theorem rw_bv_extract_const_sort : forall g e e' l s,
  (forall s0, is_bv_const (L s0) = true -> assoc s0 (e_vars g) = None /\ find_cons (e_dts g) s0 = None) ->
  rw_bv_extract_const e = Some l -> In e' l -> type_of g e = Some s -> type_of g e' = Some s.
Proof. exact bv_extract_const_sort. Qed.
Print Assumptions rw_bv_extract_const_sort.

Theorem rw_bv_merge_extend_sort : forall g e e' l s,
  rw_bv_merge_extend e = Some l -> In e' l -> type_of g e = Some s -> type_of g e' = Some s.
Proof. exact bv_merge_extend_sort. Qed.
Print Assumptions rw_bv_merge_extend_sort.

(* the width oracle agrees with the typing *)
Theorem rw_bv_extract_zext_sort : forall bw g e e' l s,
  (forall t st, type_of g t = Some st -> bw t = (-1)%Z \/ Some (Z.to_N (bw t)) = Typing.bv_width st) ->
  rw_bv_extract_zext bw e = Some l -> In e' l -> type_of g e = Some s -> type_of g e' = Some s.
Proof. exact bv_extract_zext_sort. Qed.
Print Assumptions rw_bv_extract_zext_sort.

(* ================= examples: the premises are satisfiable ================= *)
Example ex_bool_double_neg :
  let e := T [lf "not"; T [lf "not"; lf "p"]] in
  rw_bool_double_neg e = Some [lf "p"] /\ eval ex_rho e = Some (VB true) /\ type_of ex_g e = Some sBool.
Proof. vm_compute. repeat split. Qed.

Example ex_bool_xor_binary :
  let e := T [lf "xor"; lf "p"; lf "q"] in
  rw_bool_xor_binary e = Some [T [lf "distinct"; lf "p"; lf "q"]] /\ eval ex_rho e = Some (VB true) /\ type_of ex_g e = Some sBool.
Proof. vm_compute. repeat split. Qed.

Example ex_bool_de_morgan :
  let e := T [lf "not"; T [lf "and"; lf "p"; lf "q"; lf "p"]] in
  rw_bool_de_morgan e = Some [T [lf "or"; T [lf "not"; lf "p"]; T [lf "not"; lf "q"]; T [lf "not"; lf "p"]]] /\
  eval ex_rho e = Some (VB true) /\ type_of ex_g e = Some sBool.
Proof. vm_compute. repeat split. Qed.

Example ex_bool_implication :
  let e := T [lf "=>"; lf "p"; lf "q"] in
  rw_bool_implication e = Some [T [lf "or"; T [lf "not"; lf "p"]; lf "q"]] /\ eval ex_rho e = Some (VB false) /\ type_of ex_g e = Some sBool.
Proof. vm_compute. repeat split. Qed.

Example ex_bool_false_eq :
  let e := T [lf "="; lf "false"; lf "q"] in
  rw_bool_false_eq e = Some [T [lf "not"; lf "q"]] /\ eval ex_rho e = Some (VB true) /\ type_of ex_g e = Some sBool /\
  lookup_v (lit "false") ex_rho = None /\ assoc (lit "false") (e_vars ex_g) = None.
Proof. vm_compute. repeat split. Qed.

Example ex_arith_negate_relation :
  let e := T [lf "not"; T [lf "<"; lf "i"; lf "j"]] in
  rw_arith_negate_relation e = Some [T [lf ">="; lf "i"; lf "j"]] /\ eval ex_rho e = Some (VB true) /\ type_of ex_g e = Some sBool.
Proof. vm_compute. repeat split. Qed.

Example ex_bv_reflexive_nand :
  let e := T [lf "bvnand"; lf "x"; lf "x"] in
  rw_bv_reflexive_nand e = Some [T [lf "bvnot"; lf "x"]] /\ eval ex_rho e = Some (VV 4 5) /\ type_of ex_g e = Some (sBV 4).
Proof. vm_compute. repeat split. Qed.

Example ex_bv_double_neg :
  let e := T [lf "bvneg"; T [lf "bvneg"; lf "x"]] in
  rw_bv_double_neg e = Some [lf "x"] /\ eval ex_rho e = Some (VV 4 10) /\ type_of ex_g e = Some (sBV 4).
Proof. vm_compute. repeat split. Qed.

Example ex_bv_double_neg_applied : eval ex_rho (lf "z") = Some (VV 4 15).
Proof.
  apply (rw_bv_double_neg_identity ex_rho (T [lf "bvnot"; T [lf "bvnot"; lf "z"]]) (lf "z") [lf "z"] (VV 4 15) ex_rho_ok);
    [vm_compute; reflexivity | left; reflexivity | vm_compute; reflexivity].
Qed.

Example ex_bv_ite_to_bvcomp :
  let e := T [lf "ite"; T [lf "="; lf "x"; lf "y"]; lf "#b1"; bvl "bv0" "1"] in
  rw_bv_ite_to_bvcomp ex_is_bv e = Some [T [lf "bvcomp"; lf "x"; lf "y"]] /\
  eval ex_rho e = Some (VV 1 0) /\ type_of ex_g e = Some (sBV 1).
Proof. vm_compute. repeat split. Qed.

Example ex_bv_ite_to_bvcomp_sort_applied : type_of ex_g (T [lf "bvcomp"; lf "x"; lf "y"]) = Some (sBV 1).
Proof.
  apply (rw_bv_ite_to_bvcomp_sort ex_is_bv ex_g (lit "ite") (lit "=") (lf "x") (lf "y") [lf "#b1"; lf "#b0"]
           _ [T [lf "bvcomp"; lf "x"; lf "y"]] _ ex_g_lit_free ex_is_bv_sound);
    [vm_compute; reflexivity | left; reflexivity | vm_compute; reflexivity].
Qed.

Example ex_bv_elim_bvcomp :
  let e := T [lf "="; lf "#b0"; T [lf "bvcomp"; lf "x"; lf "y"]] in
  rw_bv_elim_bvcomp ex_bw e = Some [T [lf "not"; T [lf "="; lf "x"; lf "y"]]] /\
  eval ex_rho e = Some (VB true) /\ type_of ex_g e = Some sBool.
Proof. vm_compute. repeat split. Qed.

Example ex_bv_elim_bvcomp_applied : eval ex_rho (T [lf "="; lf "x"; lf "y"]) = Some (VB false).
Proof.
  apply (rw_bv_elim_bvcomp_identity ex_bw ex_rho (lit "=") (bvl "bv1" "1") (lit "bvcomp") (lf "x") (lf "y")
           _ [T [lf "="; lf "x"; lf "y"]] _ ex_rho_lit_free ex_bw_sound);
    [vm_compute; reflexivity | left; reflexivity | vm_compute; reflexivity].
Qed.

Example ex_bv_normalize :
  let e := lf "#x0a1B" in
  rw_bv_normalize e = Some [bvl "bv2587" "16"] /\ eval ex_rho e = Some (VV 16 2587) /\ type_of ex_g e = Some (sBV 16).
Proof. vm_compute. repeat split. Qed.

Example ex_bv_eval_extend_sign :
  let e := sx "3" (lf "#b101") in
  rw_bv_eval_extend e = Some [lf "#b111101"] /\ eval ex_rho e = Some (VV 6 61) /\ type_of ex_g e = Some (sBV 6).
Proof. vm_compute. repeat split. Qed.

Example ex_bv_eval_extend_zero_width1 :
  let e := sx "3" (bvl "bv0" "1") in
  rw_bv_eval_extend e = Some [bvl "bv0" "4"] /\ eval ex_rho e = Some (VV 4 0) /\ type_of ex_g e = Some (sBV 4).
Proof. vm_compute. repeat split. Qed.

Example ex_bv_extract_const :
  let e := ext "5" "2" (lf "#x05") in
  rw_bv_extract_const e = Some [lf "#b0001"] /\ eval ex_rho e = Some (VV 4 1) /\ type_of ex_g e = Some (sBV 4).
Proof. vm_compute. repeat split. Qed.

Example ex_bv_merge_extend :
  let e := sx "2" (sx "1" (sx "1" (lf "o"))) in
  rw_bv_merge_extend e = Some [sx "4" (lf "o")] /\ eval ex_rho e = Some (VV 5 31) /\ type_of ex_g e = Some (sBV 5).
Proof. vm_compute. repeat split. Qed.

Example ex_bv_extract_zext_across :
  let e := ext "5" "2" (zx "4" (lf "x")) in
  rw_bv_extract_zext ex_bw e = Some [zx "2" (ext "3" "2" (lf "x"))] /\
  eval ex_rho e = Some (VV 4 2) /\ type_of ex_g e = Some (sBV 4) /\ rw_bv_extract_zext ex_bw_ty e = rw_bv_extract_zext ex_bw e.
Proof. vm_compute. repeat split. Qed.

Example ex_bv_extract_zext_zeros :
  let e := ext "7" "4" (zx "4" (lf "x")) in
  rw_bv_extract_zext ex_bw e = Some [bvl "bv0" "4"] /\ eval ex_rho e = Some (VV 4 0).
Proof. vm_compute. repeat split. Qed.

Example ex_bv_extract_zext_operand :
  let e := ext "3" "0" (zx "4" (lf "z")) in
  rw_bv_extract_zext ex_bw e = Some [ext "3" "0" (lf "z")] /\ eval ex_rho e = Some (VV 4 15).
Proof. vm_compute. repeat split. Qed.

Example ex_bv_extract_zext_applied : eval ex_rho (zx "2" (ext "3" "2" (lf "x"))) = Some (VV 4 2).
Proof.
  apply (rw_bv_extract_zext_identity ex_bw ex_rho (ext "5" "2" (zx "4" (lf "x"))) _ [zx "2" (ext "3" "2" (lf "x"))] _
           ex_rho_ok ex_bw_sound);
    [vm_compute; reflexivity | left; reflexivity | vm_compute; reflexivity].
Qed.

Example ex_bv_extract_zext_sort_applied : type_of ex_g (zx "2" (ext "3" "2" (lf "x"))) = Some (sBV 4).
Proof.
  apply (rw_bv_extract_zext_sort ex_bw_ty ex_g (ext "5" "2" (zx "4" (lf "x"))) _ [zx "2" (ext "3" "2" (lf "x"))] _
           ex_bw_ty_sound);
    [vm_compute; reflexivity | left; reflexivity | vm_compute; reflexivity].
Qed.

(* ================= why the restrictions are needed ================= *)
(* n-ary implication: the model chains the implications, SMT-LIB associates to the right *)
Example cex_bool_implication_nary :
  let e := T [lf "=>"; lf "p"; lf "q"; lf "q"] in
  exists e', rw_bool_implication e = Some [e'] /\ eval ex_rho e = Some (VB true) /\ eval ex_rho e' = Some (VB false).
Proof. eexists. vm_compute. repeat split. Qed.

(* negation of a chained relation *)
Example cex_arith_negate_relation_nary :
  let e := T [lf "not"; T [lf "<"; lf "j"; lf "i"; lf "j"]] in
  exists e', rw_arith_negate_relation e = Some [e'] /\ eval ex_rho e = Some (VB true) /\ eval ex_rho e' = Some (VB false).
Proof. eexists. vm_compute. repeat split. Qed.

Example cex_arith_negate_distinct_nary :
  let e := T [lf "not"; T [lf "distinct"; lf "i"; lf "i"; lf "j"]] in
  exists e', rw_arith_negate_relation e = Some [e'] /\ eval ex_rho e = Some (VB true) /\ eval ex_rho e' = Some (VB false).
Proof. eexists. vm_compute. repeat split. Qed.

(* a user function named != : the rewritten term is ill-sorted *)
Example cex_arith_negate_relation_user_neq :
  let e := T [lf "not"; T [lf "!="; lf "i"; lf "p"]] in
  exists e', rw_arith_negate_relation e = Some [e'] /\ type_of ex_g_neq e = Some sBool /\ type_of ex_g_neq e' = None.
Proof. eexists. vm_compute. repeat split. Qed.

(* the evaluation of = does not check the sorts: an ill-sorted equality has a value *)
Example cex_bool_false_eq_ill_sorted :
  let e := T [lf "="; lf "false"; lf "i"] in
  exists e', rw_bool_false_eq e = Some [e'] /\ eval ex_rho e = Some (VB false) /\ eval ex_rho e' = None /\ type_of ex_g e = None.
Proof. eexists. vm_compute. repeat split. Qed.

(* an unsound is_bv_term makes the ite rewrite ill-sorted *)
Example cex_bv_ite_to_bvcomp_unsound_oracle :
  let e := T [lf "ite"; T [lf "="; lf "p"; lf "q"]; lf "#b1"; lf "#b0"] in
  exists e', rw_bv_ite_to_bvcomp (fun _ => true) e = Some [e'] /\ type_of ex_g e = Some (sBV 1) /\ type_of ex_g e' = None.
Proof. eexists. vm_compute. repeat split. Qed.

(* LetSubstitution (after fix F31; Model/LetRw.v): the proposal has the value of the node under every valuation,
   provided the bound names occur in the body in term positions only and are pairwise distinct (let_side; both
   conditions hold of well-sorted terms and are shown necessary by examples in Props/C17Let.v) *)
From DD Require Import Props.C17Let.
Theorem c17_let_subst_identity : ltac:(let t := type of rw_let_subst_identity in exact t).
Proof. exact rw_let_subst_identity. Qed.
Print Assumptions c17_let_subst_identity.
Theorem c17_let_subst_identity_at : ltac:(let t := type of rw_let_subst_identity_at in exact t).
Proof. exact rw_let_subst_identity_at. Qed.
Print Assumptions c17_let_subst_identity_at.

(* InlineDefinedFuns at a use site (Model/InlineRw.v): the beta rule for eval.  The implementation had no capture guards
   (known finding F19), so capture-freeness is a hypothesis of c17_inline_identity (inline_side: formals of the shape (p S)
   with pairwise distinct names that occur in the body in term positions only and are not bound again there; no leaf of an
   actual whose formal occurs in the body is bound inside the body); every condition is shown necessary by an example in
   Props/C17Inline.v.  After the fix of F19 (the model mirrors the guard of smtlib.__instantiate) the last two conditions are
   established by the guard whenever there is a proposal: c17_inline_identity_guarded asks inline_side_guarded only (formals
   of the shape (p S), pairwise distinct names, term positions only) *)
From DD Require Import Props.C17Inline.
Theorem c17_inline_identity : ltac:(let t := type of rw_inline_identity in exact t).
Proof. exact rw_inline_identity. Qed.
Print Assumptions c17_inline_identity.
Theorem c17_inline_beta_rule : ltac:(let t := type of inline_beta_rule in exact t).
Proof. exact inline_beta_rule. Qed.
Print Assumptions c17_inline_beta_rule.
Theorem c17_inline_identity_guarded : ltac:(let t := type of rw_inline_identity_guarded in exact t).
Proof. exact rw_inline_identity_guarded. Qed.
Print Assumptions c17_inline_identity_guarded.
Theorem c17_inline_guard_gives_side : ltac:(let t := type of rw_inline_guard_gives_side in exact t).
Proof. exact rw_inline_guard_gives_side. Qed.
Print Assumptions c17_inline_guard_gives_side.

(* value preservation of three further rewrites (Model/ConstRw.v); the forms in which they are NOT identities (n-ary concat,
   signed predicates, distinct chains, BVTransformToBool with #b0) are refuted by examples in Props/ConstRwProps.v -- none of
   these mutators is on the property's list of documented identities *)
From DD Require Import Props.ConstRwProps.
Theorem c17_bv_concat_zext_identity : ltac:(let t := type of rw_bv_concat_zext_identity in exact t).
Proof. exact rw_bv_concat_zext_identity. Qed.
Print Assumptions c17_bv_concat_zext_identity.
Theorem c17_bv_zext_pred_identity : ltac:(let t := type of rw_bv_zext_pred_identity in exact t).
Proof. exact rw_bv_zext_pred_identity. Qed.
Print Assumptions c17_bv_zext_pred_identity.
Theorem c17_arith_split_nary_identity : ltac:(let t := type of rw_arith_split_nary_identity in exact t).
Proof. exact rw_arith_split_nary_identity. Qed.
Print Assumptions c17_arith_split_nary_identity.

(* the SORT half for the two substitution-based mutators (Props/C17Sort.v): a substitution lemma for Spec/Typing.type_of
   between two environments; the side conditions are those of the value theorems with "term positions" read for type_of
   (sort positions of quantifier binders excluded too), each shown necessary by an Example there *)
From DD Require Import Props.C17Sort.
Theorem c17_let_subst_sort : ltac:(let t := type of rw_let_subst_sort in exact t).
Proof. exact rw_let_subst_sort. Qed.
Print Assumptions c17_let_subst_sort.
Theorem c17_let_subst_sort_let_side : ltac:(let t := type of rw_let_subst_sort_let_side in exact t).
Proof. exact rw_let_subst_sort_let_side. Qed.
Print Assumptions c17_let_subst_sort_let_side.
Theorem c17_inline_sort : ltac:(let t := type of rw_inline_sort in exact t).
Proof. exact rw_inline_sort. Qed.
Print Assumptions c17_inline_sort.
Theorem c17_inline_same_sort : ltac:(let t := type of rw_inline_same_sort in exact t).
Proof. exact rw_inline_same_sort. Qed.
Print Assumptions c17_inline_same_sort.
Theorem c17_inline_sort_guarded : ltac:(let t := type of rw_inline_sort_guarded in exact t).
Proof. exact rw_inline_sort_guarded. Qed.
Print Assumptions c17_inline_sort_guarded.
Theorem c17_inline_same_sort_guarded : ltac:(let t := type of rw_inline_same_sort_guarded in exact t).
Proof. exact rw_inline_same_sort_guarded. Qed.
Print Assumptions c17_inline_same_sort_guarded.
Theorem c17_type_of_coincidence : ltac:(let t := type of type_of_coincidence in exact t).
Proof. exact type_of_coincidence. Qed.
Print Assumptions c17_type_of_coincidence.
