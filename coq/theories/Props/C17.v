(* C17 property theorems (placeholder until the semantics development lands). *)
From DD Require Import Spec.Typing.
Example bv_sort_example : bv_width (sBV 12) = Some 12%N.
Proof. vm_compute. reflexivity. Qed.
Print Assumptions bv_sort_example.
