(* C17: the rewrites documented as identities preserve the value of every term
   that has one (Spec/Semantics.v).  Statements only; proofs in Proofs/Rw. *)
From DD Require Import Spec.Semantics Model.Rewrites.
From DD Require Import Proofs.Rw.Range Proofs.Rw.BoolRw Proofs.Rw.BvConst Proofs.Rw.BvRw1 Proofs.Rw.BvRw2 Proofs.Rw.BvRw3 Proofs.Rw.BvRw4.
Local Open Scope list_scope.

(* ---- Boolean and arithmetic rewrites ---- *)
Theorem rw_bool_double_neg_identity : forall rho e e' l v,
  rw_bool_double_neg e = Some l -> In e' l -> eval rho e = Some v -> eval rho e' = Some v.
Proof. exact bool_double_neg_identity. Qed.
Print Assumptions rw_bool_double_neg_identity.

Theorem rw_bool_xor_binary_identity : forall rho e e' l v,
  rw_bool_xor_binary e = Some l -> In e' l -> eval rho e = Some v -> eval rho e' = Some v.
Proof. exact bool_xor_binary_identity. Qed.
Print Assumptions rw_bool_xor_binary_identity.

Theorem rw_bool_de_morgan_identity : forall rho e e' l v,
  rw_bool_de_morgan e = Some l -> In e' l -> eval rho e = Some v -> eval rho e' = Some v.
Proof. exact bool_de_morgan_identity. Qed.
Print Assumptions rw_bool_de_morgan_identity.

(* binary implication *)
Theorem rw_bool_implication_identity : forall rho h a b e' l v,
  rw_bool_implication (T [L h; a; b]) = Some l -> In e' l ->
  eval rho (T [L h; a; b]) = Some v -> eval rho e' = Some v.
Proof. exact bool_implication_identity. Qed.
Print Assumptions rw_bool_implication_identity.

(* binary equality with false; the valuation does not rebind false and the
   operands are Boolean (the evaluation of = does not check the sorts) *)
Theorem rw_bool_false_eq_identity : forall rho h a b e' l v,
  lookup_v (lit "false") rho = None ->
  (forall u, eval rho a = Some u -> exists x, u = VB x) ->
  (forall u, eval rho b = Some u -> exists x, u = VB x) ->
  rw_bool_false_eq (T [L h; a; b]) = Some l -> In e' l ->
  eval rho (T [L h; a; b]) = Some v -> eval rho e' = Some v.
Proof. exact bool_false_eq_identity. Qed.
Print Assumptions rw_bool_false_eq_identity.

(* negation of a binary relation *)
Theorem rw_arith_negate_relation_identity : forall rho h r x y e' l v,
  rw_arith_negate_relation (T [L h; T [L r; x; y]]) = Some l -> In e' l ->
  eval rho (T [L h; T [L r; x; y]]) = Some v -> eval rho e' = Some v.
Proof. exact arith_negate_relation_identity. Qed.
Print Assumptions rw_arith_negate_relation_identity.

(* ---- bit-vector rewrites ---- *)
Theorem rw_bv_reflexive_nand_identity : forall rho e e' l v,
  rw_bv_reflexive_nand e = Some l -> In e' l -> eval rho e = Some v -> eval rho e' = Some v.
Proof. exact bv_reflexive_nand_identity. Qed.
Print Assumptions rw_bv_reflexive_nand_identity.

(* the valuation holds bit-vector values in range *)
Theorem rw_bv_double_neg_identity : forall rho e e' l v,
  (forall k u, lookup_v k rho = Some u -> match u with VV w n => (n < 2 ^ w)%N | _ => True end) ->
  rw_bv_double_neg e = Some l -> In e' l -> eval rho e = Some v -> eval rho e' = Some v.
Proof. exact bv_double_neg_identity. Qed.
Print Assumptions rw_bv_double_neg_identity.

(* range invariant of the evaluation *)
Theorem eval_in_range : forall rho e w n,
  (forall k u, lookup_v k rho = Some u -> match u with VV w n => (n < 2 ^ w)%N | _ => True end) ->
  eval rho e = Some (VV w n) -> (n < 2 ^ w)%N.
Proof. exact eval_range_bv. Qed.
Print Assumptions eval_in_range.

(* the equality compares bit-vectors of one width; literals are not bound by the valuation *)
Theorem rw_bv_ite_to_bvcomp_identity : forall is_bv_term rho h eq x y rest e' l v,
  (forall s, is_bv_const (L s) = true -> lookup_v s rho = None) ->
  (forall v1 v2, eval rho x = Some v1 -> eval rho y = Some v2 -> exists w n m, v1 = VV w n /\ v2 = VV w m) ->
  rw_bv_ite_to_bvcomp is_bv_term (T (L h :: T [L eq; x; y] :: rest)) = Some l -> In e' l ->
  eval rho (T (L h :: T [L eq; x; y] :: rest)) = Some v -> eval rho e' = Some v.
Proof. exact bv_ite_to_bvcomp_identity. Qed.
Print Assumptions rw_bv_ite_to_bvcomp_identity.

Theorem rw_bv_elim_bvcomp_identity : forall bw rho h c g x y e' l v,
  (forall s, is_bv_const (L s) = true -> lookup_v s rho = None) ->
  (forall t w n, eval rho t = Some (VV w n) -> bw t = (-1)%Z \/ bw t = Z.of_N w) ->
  rw_bv_elim_bvcomp bw (T [L h; c; T (L g :: [x; y])]) = Some l -> In e' l ->
  eval rho (T [L h; c; T (L g :: [x; y])]) = Some v -> eval rho e' = Some v.
Proof. exact bv_elim_bvcomp_identity. Qed.
Print Assumptions rw_bv_elim_bvcomp_identity.

Theorem rw_bv_normalize_identity : forall rho e e' l v,
  (forall s, is_bv_const (L s) = true -> lookup_v s rho = None) ->
  rw_bv_normalize e = Some l -> In e' l -> eval rho e = Some v -> eval rho e' = Some v.
Proof. exact bv_normalize_identity. Qed.
Print Assumptions rw_bv_normalize_identity.

Theorem rw_bv_eval_extend_identity : forall rho e e' l v,
  (forall s, is_bv_const (L s) = true -> lookup_v s rho = None) ->
  rw_bv_eval_extend e = Some l -> In e' l -> eval rho e = Some v -> eval rho e' = Some v.
Proof. exact bv_eval_extend_identity. Qed.
Print Assumptions rw_bv_eval_extend_identity.

Theorem rw_bv_extract_const_identity : forall rho e e' l v,
  (forall s, is_bv_const (L s) = true -> lookup_v s rho = None) ->
  rw_bv_extract_const e = Some l -> In e' l -> eval rho e = Some v -> eval rho e' = Some v.
Proof. exact bv_extract_const_identity. Qed.
Print Assumptions rw_bv_extract_const_identity.

Theorem rw_bv_merge_extend_identity : forall rho e e' l v,
  (forall k u, lookup_v k rho = Some u -> match u with VV w n => (n < 2 ^ w)%N | _ => True end) ->
  rw_bv_merge_extend e = Some l -> In e' l -> eval rho e = Some v -> eval rho e' = Some v.
Proof. exact bv_merge_extend_identity. Qed.
Print Assumptions rw_bv_merge_extend_identity.

Theorem rw_bv_extract_zext_identity : forall bw rho e e' l v,
  (forall k u, lookup_v k rho = Some u -> match u with VV w n => (n < 2 ^ w)%N | _ => True end) ->
  (forall t w n, eval rho t = Some (VV w n) -> bw t = (-1)%Z \/ bw t = Z.of_N w) ->
  rw_bv_extract_zext bw e = Some l -> In e' l -> eval rho e = Some v -> eval rho e' = Some v.
Proof. exact bv_extract_zext_identity. Qed.
Print Assumptions rw_bv_extract_zext_identity.
