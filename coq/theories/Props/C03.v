(* C03: minimisation always terminates.
   Layer 1 (strategy loop): in the hierarchical scheduler model every execution
   is finite whenever accepted candidates strictly decrease a measure
   (no_infinite_run, for all interleavings), and the number of adoptions is
   bounded by the measure of the initial input (adoptions_bounded).
   Layer 2 (bounded delivery): the explicit-stack substitution, the only
   unbounded loop reachable from a mutator, terminates within 2*size+2
   iterations (subst_refines, C11); the two-stack equality within
   2*(size a + size b)+2 (eq_sm_refines, C12).
   Layer 3 (no cycles): FALSE as a global statement (ddSMT's FAQ says no global
   ranking exists); for the 15 modelled rewrites one measure decreases under
   every rewrite applied at any position (no_cycles_partial, Props/C03Measure.v);
   for the other mutators cycles are searched, not proved. *)
From Coq Require Import Wellfounded.
From DD Require Import Model.SchedHier Props.SchedHierProps Props.C11 Props.C12 Model.SchedDdmin Props.SchedDdminProps Props.C03Measure.

Theorem c03_no_infinite_run : ltac:(let t := type of no_infinite_run in exact t).
Proof. exact no_infinite_run. Qed.
Print Assumptions c03_no_infinite_run.

Theorem c03_sweep_progress : ltac:(let t := type of sweep_progress in exact t).
Proof. exact sweep_progress. Qed.
Print Assumptions c03_sweep_progress.

Theorem c03_adoptions_bounded : ltac:(let t := type of adoptions_bounded in exact t).
Proof. exact adoptions_bounded. Qed.
Print Assumptions c03_adoptions_bounded.

(* the ddmin checking loop is index-bound: it terminates for EVERY command and candidate function *)
Theorem c03_ddmin_no_infinite_run : ltac:(let t := type of d_no_infinite_run in exact t).
Proof. exact d_no_infinite_run. Qed.
Print Assumptions c03_ddmin_no_infinite_run.

Theorem c03_ddmin_adoptions_bounded : ltac:(let t := type of d_round_progress in exact t).
Proof. exact d_round_progress. Qed.
Print Assumptions c03_ddmin_adoptions_bounded.

Theorem c03_substitute_terminates : ltac:(let t := type of subst_refines in exact t).
Proof. exact subst_refines. Qed.
Print Assumptions c03_substitute_terminates.

Theorem c03_equality_terminates : ltac:(let t := type of eq_sm_refines in exact t).
Proof. exact eq_sm_refines. Qed.
Print Assumptions c03_equality_terminates.
About no_infinite_run. About subst_refines.

(* no chain of the 15 modelled rewrites, applied at any positions, returns to its start; no no-ops; bounded chains *)
Theorem c03_no_cycles_partial : ltac:(let t := type of c03m_no_cycles_partial in exact t).
Proof. exact c03m_no_cycles_partial. Qed.
Print Assumptions c03_no_cycles_partial.

Theorem c03_rewrite_chains_bounded : ltac:(let t := type of c03m_chain_bounded in exact t).
Proof. exact c03m_chain_bounded. Qed.
Print Assumptions c03_rewrite_chains_bounded.
About c03m_no_cycles_partial.

(* the structural mutators (EraseNode, ReplaceByChild, MergeWithChildren, SortChildren, BinaryReduction, LetElimination;
   Model/CoreRw.v): every step at any position strictly decreases (size, disorder) lexicographically; no chain of them
   returns to its start, none is a no-op, chains are bounded by size^3 + size^2 (Props/CoreRw.v) *)
From DD Require Import Props.CoreRw.
Theorem c03_no_cycles_structural : ltac:(let t := type of no_cycles_structural in exact t).
Proof. exact no_cycles_structural. Qed.
Print Assumptions c03_no_cycles_structural.

Theorem c03_structural_chains_bounded : ltac:(let t := type of core_chain_bounded in exact t).
Proof. exact core_chain_bounded. Qed.
Print Assumptions c03_structural_chains_bounded.

(* SimplifySymbolNames: every proposed name is strictly shorter (a chain of renamings of one symbol is finite) and never
   a constant or a reserved word (F24, F30) *)
Theorem c03_symbol_names_shorter : ltac:(let t := type of core_ssn_shorter in exact t).
Proof. exact core_ssn_shorter. Qed.
Print Assumptions c03_symbol_names_shorter.

Theorem c03_symbol_names_plain : ltac:(let t := type of core_ssn_plain in exact t).
Proof. exact core_ssn_plain. Qed.
Print Assumptions c03_symbol_names_plain.

(* the ddmin strategy as a whole (Model/DdminTop.v): the granularity loop needs no assumption; under a measure that
   re-duplication preserves and every accepted candidate decreases, reduce terminates with fuel S (mu x), the stage-1
   and round loops included (a round with non-zero net reduction has adopted something) *)
From DD Require Import Props.DdminTopProps.
Theorem c03_ddmin_apply_mutator_terminates : ltac:(let t := type of top_apply_mutator_terminates in exact t).
Proof. exact top_apply_mutator_terminates. Qed.
Print Assumptions c03_ddmin_apply_mutator_terminates.
Theorem c03_ddmin_reduce_terminates : ltac:(let t := type of top_reduce_terminates in exact t).
Proof. exact top_reduce_terminates. Qed.
Print Assumptions c03_ddmin_reduce_terminates.
Theorem c03_ddmin_adoptions_bounded_by_measure : ltac:(let t := type of top_reduce_mu in exact t).
Proof. exact top_reduce_mu. Qed.
Print Assumptions c03_ddmin_adoptions_bounded_by_measure.

(* further per-mutator termination facts (Model/OracleRw.v, Model/GlobalRw.v): ReplaceByVariable on leaves follows a strict
   order on names (no chain of leaf replacements returns); Constants proposes nothing for a default constant; string constants
   get strictly shorter; EliminateVariable passes its occurs check *)
From DD Require Import Props.OracleRwProps Props.GlobalRwProps.
Theorem c03_replace_by_var_no_cycle : ltac:(let t := type of rw_replace_by_var_no_cycle in exact t).
Proof. exact rw_replace_by_var_no_cycle. Qed.
Print Assumptions c03_replace_by_var_no_cycle.
Theorem c03_constants_fixpoint : ltac:(let t := type of rw_constants_fixpoint in exact t).
Proof. exact rw_constants_fixpoint. Qed.
Print Assumptions c03_constants_fixpoint.
Theorem c03_str_simp_const_shorter : ltac:(let t := type of rw_str_simp_const_shorter in exact t).
Proof. exact rw_str_simp_const_shorter. Qed.
Print Assumptions c03_str_simp_const_shorter.
Theorem c03_elim_var_occurs_check : ltac:(let t := type of rw_elim_var_sound in exact t).
Proof. exact rw_elim_var_sound. Qed.
Print Assumptions c03_elim_var_occurs_check.

(* ONE relation for 28 mutators (Props/C03Union.v): the six structural ones, five of Model/SmtlibRw.v, nine of
   Model/Rewrites.v, four of Model/ConstRw.v and four of Model/OracleRw.v, mixed freely at any positions of a term and with
   any oracle values at every step, strictly decrease the triple (number of nodes, weighted number of characters, disorder of
   the children's sizes) in the lexicographic order; hence no cycles, no no-ops, no infinite chain.  The mutators that do
   not fit are each refuted by an Example there (they grow the term or keep the triple). *)
From DD Require Import Props.C03Union.
Theorem c03_union_members : ltac:(let t := type of c03u_members in exact t).
Proof. exact c03u_members. Qed.
Print Assumptions c03_union_members.
Theorem c03_union_step_decreases : ltac:(let t := type of ustep_decreases in exact t).
Proof. exact ustep_decreases. Qed.
Print Assumptions c03_union_step_decreases.
Theorem c03_no_cycles_union : ltac:(let t := type of no_cycles_union in exact t).
Proof. exact no_cycles_union. Qed.
Print Assumptions c03_no_cycles_union.
Theorem c03_no_noop_union : ltac:(let t := type of no_noop_union in exact t).
Proof. exact no_noop_union. Qed.
Print Assumptions c03_no_noop_union.
Theorem c03_union_wf : ltac:(let t := type of ustep_wf in exact t).
Proof. exact ustep_wf. Qed.
Print Assumptions c03_union_wf.
Theorem c03_no_infinite_chain_union : ltac:(let t := type of no_infinite_chain_union in exact t).
Proof. exact no_infinite_chain_union. Qed.
Print Assumptions c03_no_infinite_chain_union.
