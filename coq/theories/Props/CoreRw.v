(* The structural mutators of ddSMT (Model/CoreRw.v: EraseNode, ReplaceByChild,
   MergeWithChildren, SortChildren, BinaryReduction, LetElimination) and the
   candidate names of SimplifySymbolNames, for ALL s-expressions and all
   oracles (no well-sortedness assumption):
   (S) five of the six strictly decrease the number of nodes; (R) ReplaceByChild
   respects the sort oracle; (O) SortChildren permutes the children into a
   sorted list, keeps the size, is idempotent and strictly decreases the
   inversion count [disorder]; (C) applied at any position of a term the six
   strictly decrease (size, disorder) lexicographically: no cycles,
   well-foundedness, chains bounded by size^3 + size^2; (W) every proposal of a
   well-formed node is well formed (C15); (N) the candidate names.
   Statements only; proofs in Proofs/Core. *)
From Coq Require Import Relations Permutation Sorted.
From DD Require Import Model.CoreRw Spec.StdReader Proofs.Closure.RwClosed.
From DD Require Import Proofs.Core.Base Proofs.Core.Size Proofs.Core.Sort Proofs.Core.Closed
  Proofs.Core.Step Proofs.Core.Names Proofs.Core.Examples.
Local Open Scope list_scope.

(* ================= boolean equality ================= *)
Theorem core_sexp_eqb_iff : forall a b, sexp_eqb a b = true <-> a = b.
Proof. exact sexp_eqb_iff. Qed.
Print Assumptions core_sexp_eqb_iff.

Theorem core_osexp_eqb_iff : forall a b, osexp_eqb a b = true <-> a = b.
Proof. exact osexp_eqb_iff. Qed.
Print Assumptions core_osexp_eqb_iff.

(* ================= (S) size ================= *)
Theorem core_erase_child_size : forall e l e',
  rw_erase_child e = Some l -> In e' l -> size e' < size e.
Proof. exact erase_child_size. Qed.
Print Assumptions core_erase_child_size.

(* for every sort oracle *)
Theorem core_replace_by_child_size : forall (gs : sexp -> option sexp) e l e',
  rw_replace_by_child gs e = Some l -> In e' l -> size e' < size e.
Proof. exact replace_by_child_size. Qed.
Print Assumptions core_replace_by_child_size.

Theorem core_merge_children_size : forall e l e',
  rw_merge_children e = Some l -> In e' l -> size e' < size e.
Proof. exact merge_children_size. Qed.
Print Assumptions core_merge_children_size.

(* exactly: the inner application and its head disappear *)
Theorem core_merge_children_size2 : forall e l e',
  rw_merge_children e = Some l -> In e' l -> size e' + 2 = size e.
Proof. exact merge_children_size2. Qed.
Print Assumptions core_merge_children_size2.

(* nodes.binary_search, for every n: each section is a non-empty range in [0, n] *)
Theorem core_binary_search_range : forall n a b,
  In (a, b) (binary_search n) -> (0 <= a /\ a < b /\ b <= Z.of_nat n)%Z.
Proof. exact binary_search_range. Qed.
Print Assumptions core_binary_search_range.

Theorem core_binary_reduction_size : forall e l e',
  rw_binary_reduction e = Some l -> In e' l -> size e' < size e.
Proof. exact binary_reduction_size. Qed.
Print Assumptions core_binary_reduction_size.

Theorem core_let_elim_size : forall e l e',
  rw_let_elim e = Some l -> In e' l -> size e' < size e.
Proof. exact let_elim_size. Qed.
Print Assumptions core_let_elim_size.

(* ================= (R) ReplaceByChild and the oracle ================= *)
Theorem core_replace_by_child_sort : forall (gs : sexp -> option sexp) e l e',
  rw_replace_by_child gs e = Some l -> In e' l -> gs e' = gs e.
Proof. exact replace_by_child_sort. Qed.
Print Assumptions core_replace_by_child_sort.

Theorem core_replace_by_child_in : forall (gs : sexp -> option sexp) e l e',
  rw_replace_by_child gs e = Some l -> In e' l -> exists c, e = T c /\ In e' (tl c).
Proof. exact replace_by_child_in. Qed.
Print Assumptions core_replace_by_child_in.

(* ================= (O) SortChildren ================= *)
Theorem core_sort_children_size : forall e l e',
  rw_sort_children e = Some l -> In e' l -> size e' = size e /\ e' <> e.
Proof. exact sort_children_size. Qed.
Print Assumptions core_sort_children_size.

Theorem core_sort_children_perm : forall e l e',
  rw_sort_children e = Some l -> In e' l ->
  exists c c', e = T c /\ e' = T c' /\ Permutation c' c /\
               StronglySorted (fun a b => size a <= size b) c'.
Proof. exact sort_children_perm. Qed.
Print Assumptions core_sort_children_perm.

Theorem core_sort_children_sorted : forall e l e',
  rw_sort_children e = Some l -> In e' l ->
  exists c', e' = T c' /\ Sorted (fun a b => size a <= size b) c'.
Proof. exact sort_children_sorted. Qed.
Print Assumptions core_sort_children_sorted.

Theorem core_sort_children_le1 : forall e l, rw_sort_children e = Some l -> length l <= 1.
Proof. exact sort_children_le1. Qed.
Print Assumptions core_sort_children_le1.

Theorem core_sort_children_idem : forall e s,
  rw_sort_children e = Some [s] -> rw_sort_children s = Some [].
Proof. exact sort_children_idem. Qed.
Print Assumptions core_sort_children_idem.

(* inv_list l = number of pairs i < j with l_i > l_j;
   disorder e = sum over all nodes of e of inv_list (sizes of the children) *)
Theorem core_inv_list_cons : forall x r,
  inv_list (x :: r) = length (filter (fun y => Nat.ltb y x) r) + inv_list r.
Proof. reflexivity. Qed.
Theorem core_disorder_T : forall l,
  disorder (T l) = inv_list (map size l) + fold_right (fun x a => disorder x + a) 0 l.
Proof. reflexivity. Qed.
Theorem core_disorder_L : forall s, disorder (L s) = 0.
Proof. reflexivity. Qed.

Theorem core_sort_children_disorder : forall e s,
  rw_sort_children e = Some [s] -> disorder s < disorder e.
Proof. exact sort_children_disorder. Qed.
Print Assumptions core_sort_children_disorder.

Theorem core_disorder_sq : forall e, disorder e <= size e * size e.
Proof. exact disorder_sq. Qed.
Print Assumptions core_disorder_sq.

(* ================= (C) rewriting at any position ================= *)
(* cstep gs = Proofs/Measure/Step.step over the six mutators: a proposal of one
   of them replaces the node at some position of the term *)
Theorem core_cstep_def : forall gs, cstep gs = step (Score gs).
Proof. reflexivity. Qed.

Theorem core_cstep_decreases : forall gs t t',
  cstep gs t t' -> size t' < size t \/ (size t' = size t /\ disorder t' < disorder t).
Proof. exact cstep_decreases. Qed.
Print Assumptions core_cstep_decreases.

Theorem core_csteps_decrease : forall gs t t',
  clos_trans sexp (cstep gs) t t' ->
  size t' < size t \/ (size t' = size t /\ disorder t' < disorder t).
Proof. exact csteps_lex. Qed.
Print Assumptions core_csteps_decrease.

Theorem no_cycles_structural : forall gs t t', clos_trans sexp (cstep gs) t t' -> t <> t'.
Proof. exact Step.no_cycles_structural. Qed.
Print Assumptions no_cycles_structural.

Theorem core_no_noop : forall gs t, ~ cstep gs t t.
Proof. exact no_noop_structural. Qed.
Print Assumptions core_no_noop.

Theorem core_cstep_wf : forall gs, well_founded (fun a b => cstep gs b a).
Proof. exact cstep_wf. Qed.
Print Assumptions core_cstep_wf.

(* a natural-number ranking (valid because disorder <= size^2) and the chain bound *)
Theorem core_cstep_rank : forall gs t t',
  cstep gs t t' ->
  size t' * size t' * size t' + disorder t' < size t * size t * size t + disorder t.
Proof. exact cstep_rank. Qed.
Print Assumptions core_cstep_rank.

Theorem core_chain_bounded : forall gs n t t',
  chain (Score gs) n t t' -> n <= size t * size t * size t + size t * size t.
Proof. exact cchain_bounded_size. Qed.
Print Assumptions core_chain_bounded.

(* ================= (W) closure, C15 ================= *)
Theorem core_erase_child_closed : closed_rw rw_erase_child.
Proof. exact rw_erase_child_closed. Qed.
Print Assumptions core_erase_child_closed.

Theorem core_replace_by_child_closed : forall gs, closed_rw (rw_replace_by_child gs).
Proof. exact rw_replace_by_child_closed. Qed.
Print Assumptions core_replace_by_child_closed.

Theorem core_merge_children_closed : closed_rw rw_merge_children.
Proof. exact rw_merge_children_closed. Qed.
Print Assumptions core_merge_children_closed.

Theorem core_sort_children_closed : closed_rw rw_sort_children.
Proof. exact rw_sort_children_closed. Qed.
Print Assumptions core_sort_children_closed.

Theorem core_binary_reduction_closed : closed_rw rw_binary_reduction.
Proof. exact rw_binary_reduction_closed. Qed.
Print Assumptions core_binary_reduction_closed.

Theorem core_let_elim_closed : closed_rw rw_let_elim.
Proof. exact rw_let_elim_closed. Qed.
Print Assumptions core_let_elim_closed.

(* ================= (N) SimplifySymbolNames ================= *)
Theorem core_ssn_shorter : forall (isvar : str -> bool) s t,
  In t (ssn_names isvar s) -> length t < length s.
Proof. exact ssn_shorter. Qed.
Print Assumptions core_ssn_shorter.

Theorem core_ssn_not_var : forall (isvar : str -> bool) s t,
  In t (ssn_names isvar s) -> isvar t = false.
Proof. exact ssn_not_var. Qed.
Print Assumptions core_ssn_not_var.

Theorem core_ssn_plain : forall (isvar : str -> bool) s t,
  is_piped s = false -> In t (ssn_names isvar s) ->
  t <> [] /\ is_reserved t = false /\ is_const_leaf t = false /\
  exists a b, s = a ++ t ++ b.
Proof. exact ssn_plain. Qed.
Print Assumptions core_ssn_plain.

Theorem core_ssn_plain_chars : forall (isvar : str -> bool) (P : char -> Prop) s t,
  is_piped s = false -> In t (ssn_names isvar s) -> Forall P s -> Forall P t.
Proof. exact ssn_plain_chars. Qed.
Print Assumptions core_ssn_plain_chars.

Theorem core_ssn_piped : forall (isvar : str -> bool) s t,
  is_piped s = true -> In t (ssn_names isvar s) ->
  2 <= length t /\ hd 0%N t = cBAR /\ last t 0%N = cBAR /\
  exists u a b, t = cBAR :: u ++ [cBAR] /\ u <> [] /\ removelast (tl s) = a ++ u ++ b.
Proof. exact ssn_piped. Qed.
Print Assumptions core_ssn_piped.

(* token-hood: candidates of a standard symbol (atom or quoted symbol) are
   standard symbols of the same kind.  (Since the scanner's fix F41 there are no liberal
   atoms any more -- Examples.ex_names_no_liberal --, so [core_ssn_atom] covers every
   well-formed leaf that is not piped, not a string literal and not a comment:
   [core_ssn_leaf_wf] below; string literals and comments stay outside,
   Examples.ex_names_strlit / ex_names_comment.) *)
Theorem core_ssn_atom : forall (isvar : str -> bool) s t,
  atom_ok s = true -> In t (ssn_names isvar s) -> atom_ok t = true.
Proof. exact ssn_atom. Qed.
Print Assumptions core_ssn_atom.

Theorem core_ssn_qsym : forall (isvar : str -> bool) s t,
  qsym_ok s = true -> In t (ssn_names isvar s) -> qsym_ok t = true.
Proof. exact ssn_qsym. Qed.
Print Assumptions core_ssn_qsym.

Theorem core_ssn_symbol_wf : forall (isvar : str -> bool) s t,
  atom_ok s = true \/ qsym_ok s = true -> In t (ssn_names isvar s) ->
  leaf_std t = true /\ wf (L t) = true.
Proof. exact ssn_symbol_wf. Qed.
Print Assumptions core_ssn_symbol_wf.

Theorem core_ssn_leaf_wf : forall (isvar : str -> bool) s t,
  wf (L s) = true -> strlit_ok s = false -> comment_ok s = false ->
  In t (ssn_names isvar s) ->
  leaf_std t = true /\ wf (L t) = true.
Proof. exact ssn_leaf_wf. Qed.
Print Assumptions core_ssn_leaf_wf.

(* ... and, since the mutator leaves string literals and comments alone (fix F47), for every well-formed leaf *)
Theorem core_ssn_any_leaf_wf : forall (isvar : str -> bool) s t,
  wf (L s) = true -> In t (ssn_names isvar s) -> leaf_std t = true /\ wf (L t) = true.
Proof. exact ssn_any_leaf_wf. Qed.
Print Assumptions core_ssn_any_leaf_wf.

(* ================= non-vacuity ================= *)
Example core_ex_erase :
  rw_erase_child (T [a_; b_; c_]) = Some [T [b_; c_]; T [a_; c_]; T [a_; b_]].
Proof. exact ex_erase. Qed.
Example core_ex_replace :
  rw_replace_by_child gs0 (T [lf "f"; a_; T [lf "g"; b_]]) = Some [a_; T [lf "g"; b_]].
Proof. exact ex_replace. Qed.
Example core_ex_merge :
  rw_merge_children (T [lf "and"; a_; T [lf "and"; b_; c_]; T [lf "or"; a_]; T [lf "and"; c_]])
  = Some [T [lf "and"; a_; b_; c_; T [lf "or"; a_]; T [lf "and"; c_]];
          T [lf "and"; a_; T [lf "and"; b_; c_]; T [lf "or"; a_]; c_]].
Proof. exact ex_merge. Qed.
Example core_ex_sort :
  rw_sort_children (T [lf "f"; T [a_; b_]; c_; T [a_]]) = Some [T [lf "f"; c_; T [a_]; T [a_; b_]]].
Proof. exact ex_sort. Qed.
Example core_ex_binary : exists l, rw_binary_reduction n8 = Some l /\ length l = 6.
Proof. eexists. split; [exact ex_binary|reflexivity]. Qed.
Example core_ex_let :
  rw_let_elim (T [lf "let"; T [T [a_; b_]]; T [lf "f"; a_]]) = Some [T [lf "f"; a_]].
Proof. exact ex_let. Qed.
Example core_ex_names3 : ssn_names novar (lit "abcd") = [lit "ab"; lit "abc"; lit "bcd"].
Proof. exact ex_names3. Qed.
Example core_ex_names_piped :
  ssn_names novar (lit "|abcd|") = [lit "|ab|"; lit "|abc|"; lit "|bcd|"].
Proof. exact ex_names_piped. Qed.
Example core_ex_cchain : chain (Score gs0) 2 (T [lf "f"; T [a_; b_]; c_]) (T [lf "f"; c_]).
Proof. exact ex_cchain. Qed.
