(* C08 property theorems: the reader tokenises SMT-LIB text as the standard
   prescribes.  Proofs are in Proofs/Lex/Automaton.v. *)
From DD Require Import Model.Lexer Spec.StdReader Proofs.Lex.Automaton.

Theorem reader_standard : forall lead items es,
  ws_ok lead = true -> seps_ok items = true ->
  structure (map fst items) = Some es ->
  parse (render lead items) = es.
Proof. exact reader_standard_proof. Qed.
Print Assumptions reader_standard.

(* the hypotheses are satisfiable on a nested list holding a string literal
   with a parenthesis in it, directly followed by a comment *)
Example reader_standard_ex :
  let lead := [cSP; cLF] in
  let items := [(LPar, []); (Tok [97%N; 34%N], [cSP; cTAB]);
                (Tok [cDQ; cLP; cDQ; cDQ; cDQ], []);
                (Tok [cSEMI; 120%N; cRP; cLF], []);
                (LPar, []); (RPar, []); (Tok [cBAR; cSP; cDQ; cBAR], []);
                (RPar, [cLF]); (Tok [98%N], [])] in
  let es := [T [L [97%N; 34%N]; L [cDQ; cLP; cDQ; cDQ; cDQ];
                L [cSEMI; 120%N; cRP; cLF]; T []; L [cBAR; cSP; cDQ; cBAR]];
             L [98%N]] in
  ws_ok lead = true /\ seps_ok items = true /\
  structure (map fst items) = Some es /\ parse (render lead items) = es.
Proof. vm_compute. repeat split; reflexivity. Qed.

Theorem literal_opaque : forall l1 items1 l2 items2,
  ws_ok l1 = true -> ws_ok l2 = true ->
  seps_ok items1 = true -> seps_ok items2 = true ->
  map erase_lex (map fst items1) = map erase_lex (map fst items2) ->
  map erase (parse (render l1 items1)) = map erase (parse (render l2 items2)).
Proof. exact literal_opaque_proof. Qed.
Print Assumptions literal_opaque.

Example literal_opaque_ex :
  let items1 := [(LPar, []); (Tok [97%N], [cSP]); (Tok [cDQ; cLP; cDQ], []);
                 (Tok [cBAR; cRP; cBAR], []); (RPar, [])] in
  let items2 := [(LPar, [cLF]); (Tok [97%N], [cSP]);
                 (Tok [cDQ; cRP; cSEMI; cDQ; cDQ; cDQ], [cSP]);
                 (Tok [cBAR; cLP; cLP; cBAR], []); (RPar, [])] in
  seps_ok items1 = true /\ seps_ok items2 = true /\
  map erase_lex (map fst items1) = map erase_lex (map fst items2) /\
  map erase (parse (render [] items1)) =
    [T [L [97%N]; L [cDQ; cDQ]; L [cBAR; cBAR]]] /\
  map erase (parse (render [cSP] items2)) =
    [T [L [97%N]; L [cDQ; cDQ]; L [cBAR; cBAR]]].
Proof. vm_compute. repeat split; reflexivity. Qed.
