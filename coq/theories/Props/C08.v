(* C08 property theorems: the reader tokenises SMT-LIB text as the standard
   prescribes.  Proofs are in Proofs/Lex/Automaton.v. *)
From DD Require Import Model.Lexer Spec.StdReader Proofs.Lex.Automaton.

Theorem reader_standard : forall lead items es,
  ws_ok lead = true -> seps_ok items = true ->
  structure (map fst items) = Some es ->
  parse (render lead items) = es.
Proof. exact reader_standard_proof. Qed.
Print Assumptions reader_standard.

(* the hypotheses are satisfiable on a nested list holding an atom directly
   followed by a string literal (with a parenthesis in it), which is directly
   followed by a comment that ends with CR; an atom directly followed by a
   quoted symbol and one directly followed by a comment *)
Example reader_standard_ex :
  let lead := [cSP; cLF] in
  let items := [(LPar, []); (Tok [97%N; 35%N], []);
                (Tok [cDQ; cLP; cDQ; cDQ; cDQ], []);
                (Tok [cSEMI; 120%N; cRP; cCR], []);
                (LPar, []); (RPar, []); (Tok [99%N], []); (Tok [cBAR; cSP; cDQ; cBAR], []);
                (Tok [100%N], []); (Tok [cSEMI; cLF], [cTAB]);
                (RPar, [cLF]); (Tok [98%N], [])] in
  let es := [T [L [97%N; 35%N]; L [cDQ; cLP; cDQ; cDQ; cDQ];
                L [cSEMI; 120%N; cRP; cCR]; T []; L [99%N]; L [cBAR; cSP; cDQ; cBAR];
                L [100%N]; L [cSEMI; cLF]];
             L [98%N]] in
  ws_ok lead = true /\ seps_ok items = true /\
  structure (map fst items) = Some es /\ parse (render lead items) = es.
Proof. vm_compute. repeat split; reflexivity. Qed.

(* ---- the scanner after fix F41, on texts: an atom ends before a double quote
   or a bar, a comment ends at the first line-breaking character (LF or CR) ---- *)

(*  x"a"  is the atom x followed by the string literal "a"  *)
Example parse_atom_strlit_ex :
  parse [120%N; cDQ; 97%N; cDQ] = [L [120%N]; L [cDQ; 97%N; cDQ]].
Proof. vm_compute. reflexivity. Qed.

(*  (f a|b c| d)  : the atom a, then the quoted symbol |b c|  *)
Example parse_atom_qsym_ex :
  parse [cLP; 102%N; cSP; 97%N; cBAR; 98%N; cSP; 99%N; cBAR; cSP; 100%N; cRP] =
  [T [L [102%N]; L [97%N]; L [cBAR; 98%N; cSP; 99%N; cBAR]; L [100%N]]].
Proof. vm_compute. reflexivity. Qed.

(*  (f #b01"s")  : the binary literal #b01, then the string literal "s"  *)
Example parse_bin_strlit_ex :
  parse [cLP; 102%N; cSP; 35%N; 98%N; 48%N; 49%N; cDQ; 115%N; cDQ; cRP] =
  [T [L [102%N]; L [35%N; 98%N; 48%N; 49%N]; L [cDQ; 115%N; cDQ]]].
Proof. vm_compute. reflexivity. Qed.

(*  ; c<CR>(a)<LF>  : the comment ends at the CR, the list after it is read  *)
Example parse_comment_cr_ex :
  parse [cSEMI; cSP; 99%N; cCR; cLP; 97%N; cRP; cLF] =
  [L [cSEMI; cSP; 99%N; cCR]; T [L [97%N]]].
Proof. vm_compute. reflexivity. Qed.

(*  (a ; c<CR> b)  : b is not swallowed by the comment  *)
Example parse_comment_cr_inner_ex :
  parse [cLP; 97%N; cSP; cSEMI; cSP; 99%N; cCR; cSP; 98%N; cRP] =
  [T [L [97%N]; L [cSEMI; cSP; 99%N; cCR]; L [98%N]]].
Proof. vm_compute. reflexivity. Qed.

(* these five texts are legal renderings, so the results above are the ones
   [reader_standard] prescribes *)
Example parse_new_texts_std_ex :
  seps_ok [(Tok [120%N], []); (Tok [cDQ; 97%N; cDQ], [])] = true /\
  seps_ok [(LPar, []); (Tok [102%N], [cSP]); (Tok [97%N], []);
           (Tok [cBAR; 98%N; cSP; 99%N; cBAR], [cSP]); (Tok [100%N], []); (RPar, [])] = true /\
  seps_ok [(LPar, []); (Tok [102%N], [cSP]); (Tok [35%N; 98%N; 48%N; 49%N], []);
           (Tok [cDQ; 115%N; cDQ], []); (RPar, [])] = true /\
  seps_ok [(Tok [cSEMI; cSP; 99%N; cCR], []); (LPar, []); (Tok [97%N], []); (RPar, [cLF])] = true /\
  seps_ok [(LPar, []); (Tok [97%N], [cSP]); (Tok [cSEMI; cSP; 99%N; cCR], [cSP]);
           (Tok [98%N], []); (RPar, [])] = true /\
  render [] [(Tok [120%N], []); (Tok [cDQ; 97%N; cDQ], [])] = [120%N; cDQ; 97%N; cDQ] /\
  render [] [(Tok [cSEMI; cSP; 99%N; cCR], []); (LPar, []); (Tok [97%N], []); (RPar, [cLF])] =
    [cSEMI; cSP; 99%N; cCR; cLP; 97%N; cRP; cLF].
Proof. vm_compute. repeat split; reflexivity. Qed.

(* a quote or a bar inside an atom is not a lexeme of the standard, and not a leaf:
   the text  a, double quote, b  is the atom a and an unterminated literal (which the scanner drops) *)
Example parse_no_liberal_ex :
  leaf_ok [97%N; cDQ; 98%N] = false /\ parse [97%N; cDQ; 98%N] = [L [97%N]].
Proof. vm_compute. split; reflexivity. Qed.

Theorem literal_opaque : forall l1 items1 l2 items2,
  ws_ok l1 = true -> ws_ok l2 = true ->
  seps_ok items1 = true -> seps_ok items2 = true ->
  map erase_lex (map fst items1) = map erase_lex (map fst items2) ->
  map erase (parse (render l1 items1)) = map erase (parse (render l2 items2)).
Proof. exact literal_opaque_proof. Qed.
Print Assumptions literal_opaque.

Example literal_opaque_ex :
  let items1 := [(LPar, []); (Tok [97%N], [cSP]); (Tok [cDQ; cLP; cDQ], []);
                 (Tok [cBAR; cRP; cBAR], []); (RPar, [])] in
  let items2 := [(LPar, [cLF]); (Tok [97%N], [cSP]);
                 (Tok [cDQ; cRP; cSEMI; cDQ; cDQ; cDQ], [cSP]);
                 (Tok [cBAR; cLP; cLP; cBAR], []); (RPar, [])] in
  seps_ok items1 = true /\ seps_ok items2 = true /\
  map erase_lex (map fst items1) = map erase_lex (map fst items2) /\
  map erase (parse (render [] items1)) =
    [T [L [97%N]; L [cDQ; cDQ]; L [cBAR; cBAR]]] /\
  map erase (parse (render [cSP] items2)) =
    [T [L [97%N]; L [cDQ; cDQ]; L [cBAR; cBAR]]].
Proof. vm_compute. repeat split; reflexivity. Qed.
