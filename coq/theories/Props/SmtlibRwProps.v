(* The models of Model/SmtlibRw.v -- CheckSatAssuming, RemoveAnnotation,
   RemoveRecursiveFunction, SimplifyLogic, SimplifyQuotedSymbols (local
   mutations) and BoolNegateQuantifier -- for ALL s-expressions:
   (W) closure, C15: every proposal for a well-formed node is well formed
       (wf of Spec/StdReader.v); for SimplifyLogic whatever leaf follows
       set-logic (atom, string literal, quoted symbol, comment); for
       SimplifyQuotedSymbols the hypothesis wf is needed (the regular
       expression is matched against a prefix: counterexample below);
   (S) measures: RemoveAnnotation and RemoveRecursiveFunction strictly decrease
       the number of nodes; CheckSatAssuming, SimplifyLogic and
       BoolNegateQuantifier never increase it but keep it on the usual inputs
       ((check-sat-assuming), (set-logic X), (not (Q vars body))), and
       SimplifyQuotedSymbols always keeps it; what decreases instead is stated
       for each;
   (E) computed examples: see Proofs/More1/Examples.v (checked by vm_compute).
   Statements only; proofs in Proofs/More1. *)
From DD Require Import Model.SmtlibRw Spec.StdReader.
From DD Require Import Proofs.More1.Basic Proofs.More1.Quoted Proofs.More1.Logic Proofs.More1.Examples.
Local Open Scope list_scope.

(* ================= (W) closure ================= *)
Theorem more1_check_sat_assuming_closed : forall e l e',
  wf e = true -> rw_check_sat_assuming e = Some l -> In e' l -> wf e' = true.
Proof. exact check_sat_assuming_closed. Qed.
Print Assumptions more1_check_sat_assuming_closed.

Theorem more1_remove_annotation_closed : forall e l e',
  wf e = true -> rw_remove_annotation e = Some l -> In e' l -> wf e' = true.
Proof. exact remove_annotation_closed. Qed.
Print Assumptions more1_remove_annotation_closed.

Theorem more1_remove_rec_fun_closed : forall e l e',
  wf e = true -> rw_remove_rec_fun e = Some l -> In e' l -> wf e' = true.
Proof. exact remove_rec_fun_closed. Qed.
Print Assumptions more1_remove_rec_fun_closed.

(* the candidate names are written afresh: str.replace keeps every lexeme class *)
Theorem more1_simplify_logic_closed : forall e l e',
  wf e = true -> rw_simplify_logic e = Some l -> In e' l -> wf e' = true.
Proof. exact simplify_logic_closed. Qed.
Print Assumptions more1_simplify_logic_closed.

Theorem more1_simplify_quoted_closed : forall e l e',
  wf e = true -> rw_simplify_quoted e = Some l -> In e' l -> wf e' = true.
Proof. exact simplify_quoted_closed. Qed.
Print Assumptions more1_simplify_quoted_closed.

(* more precisely: on a well-formed leaf the match is a full match, the proposal is the text between the bars *)
Theorem more1_simplify_quoted_simple : forall e l e',
  wf e = true -> rw_simplify_quoted e = Some l -> In e' l ->
  exists body, e = L (cBAR :: body ++ [cBAR]) /\ e' = L body /\ body <> [] /\ forallb simple_char body = true.
Proof. exact simplify_quoted_simple. Qed.
Print Assumptions more1_simplify_quoted_simple.

(* without wf the closure statement is false: a leaf with a bar inside (no reader produces it) *)
Theorem more1_simplify_quoted_needs_wf :
  rw_simplify_quoted (lf "|a|b c|") = Some [lf "a|b c"] /\
  wf (lf "|a|b c|") = false /\ wf (lf "a|b c") = false.
Proof. exact ex_simplify_quoted_prefix. Qed.
Print Assumptions more1_simplify_quoted_needs_wf.

(* well formed, but not a symbol any more *)
Theorem more1_simplify_quoted_not_symbol :
  rw_simplify_quoted (lf "|12|") = Some [lf "12"] /\ is_int_const (lf "12") = true /\
  rw_simplify_quoted (lf "|1.5|") = Some [lf "1.5"] /\ is_real_const (lf "1.5") = true /\
  rw_simplify_quoted (lf "|true|") = Some [lf "true"] /\ is_bool_const (lf "true") = true /\
  rw_simplify_quoted (lf "|let|") = Some [lf "let"] /\ is_reserved (lit "let") = true /\
  rw_simplify_quoted (lf "|_|") = Some [lf "_"] /\ is_reserved (lit "_") = true.
Proof. exact ex_simplify_quoted_not_symbol. Qed.
Print Assumptions more1_simplify_quoted_not_symbol.

Theorem more1_negate_quant_closed : forall e l e',
  wf e = true -> rw_bool_negate_quant e = Some l -> In e' l -> wf e' = true.
Proof. exact negate_quant_closed. Qed.
Print Assumptions more1_negate_quant_closed.

(* ================= (S) measures ================= *)
(* CheckSatAssuming: fewer nodes, except on (check-sat-assuming), where the head gets 9 characters shorter *)
Theorem more1_check_sat_assuming_size : forall e l e',
  rw_check_sat_assuming e = Some l -> In e' l ->
  e' = T [lf "check-sat"] /\ (size e' < size e \/ e = T [lf "check-sat-assuming"]).
Proof. exact check_sat_assuming_size. Qed.
Print Assumptions more1_check_sat_assuming_size.

Theorem more1_remove_annotation_size : forall e l e',
  rw_remove_annotation e = Some l -> In e' l -> size e' < size e.
Proof. exact remove_annotation_size. Qed.
Print Assumptions more1_remove_annotation_size.

(* a declaration and a body disappear *)
Theorem more1_remove_rec_fun_size : forall e l e',
  rw_remove_rec_fun e = Some l -> In e' l -> size e' + 2 <= size e.
Proof. exact remove_rec_fun_size. Qed.
Print Assumptions more1_remove_rec_fun_size.

Theorem more1_remove_rec_fun_shape : forall e l e',
  rw_remove_rec_fun e = Some l -> In e' l ->
  exists h l1 l2 i, e = T [h; T l1; T l2] /\ length l1 = length l2 /\ i < length l1 /\
                    e' = T [h; T (erase_at i l1); T (erase_at i l2)].
Proof. exact remove_rec_fun_inv. Qed.
Print Assumptions more1_remove_rec_fun_shape.

(* SimplifyLogic: not more nodes (the same number on (set-logic X)); the name gets strictly smaller in
   length + number of letters N (NRA -> LRA, NIA -> LIA and NIRA -> LIRA keep the length) *)
Definition letters_N (s : str) : nat := length (filter (N.eqb 78%N) s).
Theorem more1_simplify_logic_size : forall e l e',
  rw_simplify_logic e = Some l -> In e' l ->
  size e' <= size e /\
  exists s rest c, e = T (lf "set-logic" :: L s :: rest) /\ e' = T [lf "set-logic"; L c] /\
                   c <> [] /\ length c + letters_N c < length s + letters_N s.
Proof. exact simplify_logic_size. Qed.
Print Assumptions more1_simplify_logic_size.

Theorem more1_simplify_logic_same_length :
  rw_simplify_logic (rd "(set-logic NRA)") = Some [rd "(set-logic LRA)"] /\
  size (rd "(set-logic NRA)") = size (rd "(set-logic LRA)") /\
  length (lit "NRA") = length (lit "LRA") /\ lm (lit "LRA") < lm (lit "NRA").
Proof. exact ex_simplify_logic_same_length. Qed.
Print Assumptions more1_simplify_logic_same_length.

(* SimplifyQuotedSymbols: a leaf stays a leaf; its text loses the two bars (for every leaf, well formed or not) *)
Definition text_len (e : sexp) : nat := match e with L s => length s | T _ => 0 end.
Theorem more1_simplify_quoted_size : forall e l e',
  rw_simplify_quoted e = Some l -> In e' l -> size e' = size e /\ text_len e' + 2 = text_len e.
Proof. exact simplify_quoted_size. Qed.
Print Assumptions more1_simplify_quoted_size.

(* BoolNegateQuantifier: not more nodes (the same number on (not (Q vars body))); the total size of the negated
   terms decreases strictly *)
Theorem more1_negate_quant_size : forall e l e',
  rw_bool_negate_quant e = Some l -> In e' l -> size e' <= size e.
Proof. exact negate_quant_size. Qed.
Print Assumptions more1_negate_quant_size.

Fixpoint neg_weight (e : sexp) : nat :=
  match e with
  | L _ => 0
  | T l => (match l with L h :: a :: _ => if iss h "not" then size a else 0 | _ => 0 end)
           + fold_right (fun x acc => neg_weight x + acc) 0 l
  end.
Theorem more1_negate_quant_weight : forall e l e',
  rw_bool_negate_quant e = Some l -> In e' l -> neg_weight e' < neg_weight e.
Proof. exact negate_quant_notw. Qed.
Print Assumptions more1_negate_quant_weight.

Theorem more1_negate_quant_shape : forall e l e',
  rw_bool_negate_quant e = Some l -> In e' l ->
  exists q vars body qr r,
    e = T (lf "not" :: T (lf q :: vars :: body :: qr) :: r) /\
    ((q = "exists" /\ e' = T [lf "forall"; vars; T [lf "not"; body]]) \/
     (q = "forall" /\ e' = T [lf "exists"; vars; T [lf "not"; body]]))%string.
Proof. exact negate_quant_inv. Qed.
Print Assumptions more1_negate_quant_shape.

(* ================= (E) a non-trivial proposal of each mutator ================= *)
Theorem more1_ex_check_sat_assuming :
  rw_check_sat_assuming (rd "(check-sat-assuming (a (not b)))") = Some [rd "(check-sat)"].
Proof. exact ex_check_sat_assuming. Qed.
Print Assumptions more1_ex_check_sat_assuming.

Theorem more1_ex_remove_annotation :
  rw_remove_annotation (rd "(! (> x 0) :named n :pattern ((f x)))") = Some [rd "(> x 0)"].
Proof. exact ex_remove_annotation. Qed.
Print Assumptions more1_ex_remove_annotation.

Theorem more1_ex_remove_rec_fun :
  rw_remove_rec_fun (rd "(define-funs-rec ((f ((x Int)) Int) (g ((y Int)) Int) (h () Bool)) ((g x) (f y) true))") =
  Some [rd "(define-funs-rec ((g ((y Int)) Int) (h () Bool)) ((f y) true))";
        rd "(define-funs-rec ((f ((x Int)) Int) (h () Bool)) ((g x) true))";
        rd "(define-funs-rec ((f ((x Int)) Int) (g ((y Int)) Int)) ((g x) (f y)))"].
Proof. exact ex_remove_rec_fun. Qed.
Print Assumptions more1_ex_remove_rec_fun.

Theorem more1_ex_simplify_logic :
  rw_simplify_logic (rd "(set-logic QF_UFDTNIRA)") =
  Some [rd "(set-logic QF_DTNIRA)"; rd "(set-logic QF_UFDNIRA)"; rd "(set-logic QF_UFDTLIRA)"].
Proof. exact ex_simplify_logic. Qed.
Print Assumptions more1_ex_simplify_logic.

(* the comment after set-logic is taken for the logic and the logic is dropped *)
Theorem more1_ex_simplify_logic_comment :
  let e := T [lf "set-logic"; L (lit ";BV" ++ [cLF]); lf "QF_BV"] in
  wf e = true /\ rw_simplify_logic e = Some [T [lf "set-logic"; L (lit ";" ++ [cLF])]].
Proof. exact ex_simplify_logic_comment. Qed.
Print Assumptions more1_ex_simplify_logic_comment.

Theorem more1_ex_simplify_quoted :
  rw_simplify_quoted (lf "|x+y_1|") = Some [lf "x+y_1"] /\
  rw_simplify_quoted (lf "|a b|") = Some [] /\
  rw_simplify_quoted (lf "|a#b|") = Some [] /\
  rw_simplify_quoted (lf "||") = Some [] /\
  rw_simplify_quoted (L []) = None.
Proof. exact ex_simplify_quoted. Qed.
Print Assumptions more1_ex_simplify_quoted.

Theorem more1_ex_negate_quant :
  rw_bool_negate_quant (rd "(not (exists ((x Int) (y Int)) (= x y)))") = Some [rd "(forall ((x Int) (y Int)) (not (= x y)))"] /\
  rw_bool_negate_quant (rd "(not (forall ((x Int)) (> x 0)))") = Some [rd "(exists ((x Int)) (not (> x 0)))"].
Proof. exact ex_negate_quant. Qed.
Print Assumptions more1_ex_negate_quant.
