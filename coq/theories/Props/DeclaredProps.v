(* The declared symbols of a script: Model/Declared.v (what smtlib.collect_information records and
   smtlib.is_declared_symbol answers, tied to the implementation by harness/declcorr.py, dispatch 140-142) against
   Spec/DeclaredSpec.v (what a well-formed SMT-LIB script declares, defines or binds).  Statements only; proofs in
   Proofs/Declared.
   Since the repair "a fresh name must not be any token of the input" the implementation also records every leaf text
   of the input (__all_tokens, the fifth table tbl_tokens); structural_table is what the four older tables hold.
   (a) completeness: every symbol the specification says the script declares is declared for is_declared_symbol, in
       every spelling (except the lone bar, which is no token); (a') every token of the script is declared, hence
       completeness for the WIDER specification Spec/DeclaredWide.v (:named labels, match patterns, lambda binders,
       define-const, declare-var, any token at all -- declarations with comments at any depth included);
   (b) aliasing: a simple name and its quoted spelling get the same answer;
   (c) comments on the top level of a command change nothing in the structural tables (unless the command itself is
       a let/forall/exists) and add only their own text to the table;
   (d) monotonicity: more commands, more names;
   (e) the freshness theorems of Props/GlobalRwProps.v, instantiated with is_declared script: the names the
       declaring mutators introduce are not symbols of the script in the sense of the specification, (e') nor of the
       wider specification: they are no token of the script, modulo bars;
   (f) evaluated examples.
   Well-formedness the specification demands of a declaring command (after removing the comments on its top level):
   the exact SMT-LIB 2.6 shape of the command as far as names are concerned -- (declare-const x S),
   (declare-fun x (S ...) S), (define-fun[-rec] f ((x S) ...) S t), (define-funs-rec ((f ((x S) ...) S) ...) (t ...)),
   (declare-datatype D dec), (declare-datatypes ((D k) ...) (dec ...)) with as many declarations as sorts and dec =
   ((c (s S) ...) ...) or (par (X ...) ((c (s S) ...) ...)); a sorted variable / selector / binding is a list of exactly two
   children with a leaf head.  Nothing is demanded of sorts, terms and bodies. *)
From DD Require Import Model.Rewrites Model.GlobalRw Model.Declared Spec.DeclaredSpec Spec.DeclaredWide.
From DD Require Import Proofs.More4.Base.
From DD Require Import Proofs.Declared.Base Proofs.Declared.Complete Proofs.Declared.Stable Proofs.Declared.Fresh
  Proofs.Declared.Examples Proofs.Declared.Wide.
Open Scope string_scope.
Local Open Scope list_scope.

(* the model's answer, unfolded: the name or its other spelling is in one of the four tables *)
Theorem is_declared_iff : forall script n,
  is_declared script n = true <-> In n (declared_table script) \/ In (other_spelling n) (declared_table script).
Proof. exact is_declared_spec. Qed.
Print Assumptions is_declared_iff.

(* the table is the four structural tables plus the tokens *)
Theorem declared_table_is_structural_or_token : forall script n,
  In n (declared_table script) <-> In n (structural_table script) \/ In n (tbl_tokens script).
Proof. exact declared_table_split. Qed.
Print Assumptions declared_table_is_structural_or_token.

Theorem tokens_are_the_leaves : forall script x,
  In x (tbl_tokens script) <-> exists c, In c script /\ In (L x) (subterms c).
Proof. exact in_tbl_tokens. Qed.
Print Assumptions tokens_are_the_leaves.

(* the specification's reading of a command is the model's comment filter *)
Theorem command_is_strip_comments : forall c k args,
  command c k args -> strip_comments c = T (L (lit k) :: args).
Proof. exact command_strip. Qed.
Print Assumptions command_is_strip_comments.

(* ================= (a) completeness ================= *)
Theorem declared_by_command_is_recorded : forall script c x,
  In c script -> cmd_declares c x -> In x (declared_table script).
Proof. exact cmd_declares_recorded. Qed.
Print Assumptions declared_by_command_is_recorded.

Theorem bound_by_binder_is_recorded : forall script c t x,
  In c script -> subterm t c -> binder_binds t x -> In x (declared_table script).
Proof. exact binder_binds_recorded. Qed.
Print Assumptions bound_by_binder_is_recorded.

Theorem completeness : forall script n,
  n <> [cBAR] -> spec_declares script n -> is_declared script n = true.
Proof. exact is_declared_complete. Qed.
Print Assumptions completeness.

Theorem completeness_exact_spelling : forall script x, binds script x -> is_declared script x = true.
Proof. exact is_declared_complete_exact. Qed.
Print Assumptions completeness_exact_spelling.

(* the side condition on the lone bar is needed *)
Theorem completeness_lone_bar_exception :
  let script := [T [L (lit "declare-const"); L (lit "|||"); L (lit "Int")]] in
  spec_declares script (lit "|") /\ is_declared script (lit "|") = false.
Proof. exact lone_bar_exception. Qed.
Print Assumptions completeness_lone_bar_exception.

(* ================= (b) aliasing ================= *)
Theorem aliasing : forall script n,
  is_piped n = false -> is_declared script (cBAR :: n ++ [cBAR]) = is_declared script n.
Proof. exact is_declared_bar. Qed.
Print Assumptions aliasing.

Theorem aliasing_unquote : forall script n,
  quoted n = true -> is_piped (plain n) = false -> is_declared script (plain n) = is_declared script n.
Proof. exact is_declared_unbar. Qed.
Print Assumptions aliasing_unquote.

Theorem same_symbol_is_a_spelling : forall m n,
  same_symbol m n -> n <> [cBAR] -> m = n \/ m = other_spelling n.
Proof. exact same_symbol_spelling. Qed.
Print Assumptions same_symbol_is_a_spelling.

(* ================= (a') every token is declared; the wide specification ================= *)
Theorem occurs_is_declared : forall script c n,
  In c script -> In (L n) (subterms c) -> is_declared script n = true.
Proof. exact occurs_declared. Qed.
Print Assumptions occurs_is_declared.

Theorem occurs_is_declared_alias : forall script c m n,
  In c script -> In (L m) (subterms c) -> same_symbol m n -> n <> [cBAR] -> is_declared script n = true.
Proof. exact occurs_declared_alias. Qed.
Print Assumptions occurs_is_declared_alias.

Theorem occurs_is_declared_quoted : forall script c n,
  In c script -> In (L n) (subterms c) -> is_declared script (cBAR :: n ++ [cBAR]) = true.
Proof. exact occurs_declared_bar. Qed.
Print Assumptions occurs_is_declared_quoted.

Theorem occurs_quoted_is_declared : forall script c n,
  In c script -> In (L (cBAR :: n ++ [cBAR])) (subterms c) -> is_piped n = false -> is_declared script n = true.
Proof. exact occurs_declared_unbar. Qed.
Print Assumptions occurs_quoted_is_declared.

Theorem occurs_lone_bar :
  let script := [T [L (lit "assert"); L (lit "|||")]] in
  same_symbol (lit "|||") (lit "|") /\ is_declared script (lit "|||") = true /\ is_declared script (lit "|") = false.
Proof. exact occurs_lone_bar_exception. Qed.
Print Assumptions occurs_lone_bar.

Theorem wide_spec_is_recorded : forall script x, binds_wide script x -> In x (declared_table script).
Proof. exact binds_wide_in_table. Qed.
Print Assumptions wide_spec_is_recorded.

Theorem completeness_wide : forall script n,
  n <> [cBAR] -> spec_declares_wide script n -> is_declared script n = true.
Proof. exact is_declared_complete_wide. Qed.
Print Assumptions completeness_wide.

Theorem wide_spec_contains_spec : forall script n, spec_declares script n -> spec_declares_wide script n.
Proof. exact spec_declares_is_wide. Qed.
Print Assumptions wide_spec_contains_spec.

Theorem wide_spec_contains_tokens : forall script m n, occurs script m -> same_symbol m n -> spec_declares_wide script n.
Proof. exact occurs_is_wide. Qed.
Print Assumptions wide_spec_contains_tokens.

(* ================= (c) comments ================= *)
(* (restated after the repair: the comment itself is a token now, so the tables are no longer equal) *)
Theorem comment_insensitive : forall pre post l1 l2 r,
  binder_head (strip_comments (T (l1 ++ l2))) = false ->
  forall n, In n (declared_table (pre ++ T (l1 ++ L (cSEMI :: r) :: l2) :: post)) <->
            n = cSEMI :: r \/ In n (declared_table (pre ++ T (l1 ++ l2) :: post)).
Proof. exact declared_table_insert_comment. Qed.
Print Assumptions comment_insensitive.

Theorem comment_insensitive_structural : forall pre post l1 l2 r,
  binder_head (strip_comments (T (l1 ++ l2))) = false ->
  structural_table (pre ++ T (l1 ++ L (cSEMI :: r) :: l2) :: post) = structural_table (pre ++ T (l1 ++ l2) :: post).
Proof. exact structural_table_insert_comment. Qed.
Print Assumptions comment_insensitive_structural.

Theorem comment_insensitive_is_declared : forall pre post l1 l2 r n,
  binder_head (strip_comments (T (l1 ++ l2))) = false ->
  n <> cSEMI :: r -> other_spelling n <> cSEMI :: r ->
  is_declared (pre ++ T (l1 ++ L (cSEMI :: r) :: l2) :: post) n = is_declared (pre ++ T (l1 ++ l2) :: post) n.
Proof. exact is_declared_insert_comment. Qed.
Print Assumptions comment_insensitive_is_declared.

Theorem comment_insensitive_general : forall pre post c c',
  strip_comments c = strip_comments c' -> binder_head (strip_comments c) = false ->
  structural_table (pre ++ c :: post) = structural_table (pre ++ c' :: post).
Proof. exact structural_table_comments. Qed.
Print Assumptions comment_insensitive_general.

(* the comment is a token *)
Theorem comment_text_is_declared :
  is_declared [T [L (lit "check-sat"); L (cSEMI :: lit " c" ++ [cLF])]] (cSEMI :: lit " c" ++ [cLF]) = true /\
  is_declared [T [L (lit "check-sat")]] (cSEMI :: lit " c" ++ [cLF]) = false.
Proof. exact comment_is_a_token. Qed.
Print Assumptions comment_text_is_declared.

(* the hypothesis is needed: (let ((x 1)) x) in the place of a command binds x, (let ; c<LF> ((x 1)) x) does not --
   for the structural tables; x is a token all the same *)
Theorem comment_sensitive_top_level_binder :
  let binding := T [T [L (lit "x"); L (lit "1")]] in
  structural_table [T [L (lit "let"); binding; L (lit "x")]] = [lit "x"] /\
  structural_table [T [L (lit "let"); L (cSEMI :: lit " c" ++ [cLF]); binding; L (lit "x")]] = [] /\
  is_declared [T [L (lit "let"); L (cSEMI :: lit " c" ++ [cLF]); binding; L (lit "x")]] (lit "x") = true.
Proof. exact comment_in_top_level_let. Qed.
Print Assumptions comment_sensitive_top_level_binder.

(* ================= (d) monotonicity ================= *)
Theorem monotone : forall s s',
  (forall c, In c s -> In c s') -> forall n, In n (declared_table s) -> In n (declared_table s').
Proof. exact declared_table_mono. Qed.
Print Assumptions monotone.

Theorem monotone_append : forall s t n, In n (declared_table s) -> In n (declared_table (s ++ t)).
Proof. exact declared_table_app. Qed.
Print Assumptions monotone_append.

Theorem monotone_is_declared_append : forall s t n, is_declared s n = true -> is_declared (s ++ t) n = true.
Proof. exact is_declared_app. Qed.
Print Assumptions monotone_is_declared_append.

(* smtlib.introduce_variables inserts the new declarations in the middle of the input *)
Theorem monotone_is_declared_insert : forall a t b n, is_declared (a ++ b) n = true -> is_declared (a ++ t ++ b) n = true.
Proof. exact is_declared_insert. Qed.
Print Assumptions monotone_is_declared_insert.

(* ================= (e) freshness with respect to the specification ================= *)
Theorem fresh_wrt_spec_iff : forall script g,
  fresh_wrt_spec script g <->
  exists decls : list (str * sexp),
    gs_fresh g = map (fun ns => T [lf "declare-const"; L (fst ns); snd ns]) decls /\
    NoDup (map fst decls) /\
    forall n, In n (map fst decls) -> ~ spec_declares script n.
Proof. exact fresh_wrt_spec_unfold. Qed.
Print Assumptions fresh_wrt_spec_iff.

Theorem not_declared_is_not_in_spec : forall script n,
  n <> [cBAR] -> is_declared script n = false -> ~ spec_declares script n.
Proof. exact not_declared_not_in_spec. Qed.
Print Assumptions not_declared_is_not_in_spec.

Theorem oracle_freshness_gives_spec_freshness : forall script g,
  gsimp_fresh (is_declared script) g ->
  (forall n so, In (mk_decl n so) (gs_fresh g) -> n <> [cBAR]) ->
  fresh_wrt_spec script g.
Proof. exact gsimp_fresh_wrt_spec. Qed.
Print Assumptions oracle_freshness_gives_spec_freshness.

Theorem introduce_fresh_variable_fresh_wrt_spec : forall script gs vars isdef id here e l g,
  rw_fresh_var gs vars isdef (is_declared script) id here e = Some l -> In g l -> fresh_wrt_spec script g.
Proof. exact rw_fresh_var_fresh_wrt_spec. Qed.
Print Assumptions introduce_fresh_variable_fresh_wrt_spec.

Theorem bv_reduce_bw_fresh_wrt_spec : forall script gs bw here e l g,
  rw_bv_reduce_bw gs bw (is_declared script) here e = Some l -> In g l -> fresh_wrt_spec script g.
Proof. exact rw_bv_reduce_bw_fresh_wrt_spec. Qed.
Print Assumptions bv_reduce_bw_fresh_wrt_spec.

Theorem str_contains_fresh_wrt_spec : forall script e l g,
  rw_str_contains (is_declared script) e = Some l -> In g l -> fresh_wrt_spec script g.
Proof. exact rw_str_contains_fresh_wrt_spec. Qed.
Print Assumptions str_contains_fresh_wrt_spec.

Theorem introduce_fresh_variable_name_not_in_spec : forall script gs vars isdef id here e l g,
  rw_fresh_var gs vars isdef (is_declared script) id here e = Some l -> In g l ->
  ~ spec_declares script (fresh_name id).
Proof. exact rw_fresh_var_name_not_in_spec. Qed.
Print Assumptions introduce_fresh_variable_name_not_in_spec.

Theorem bv_reduce_bw_name_not_in_spec : forall script gs bw here e l g,
  rw_bv_reduce_bw gs bw (is_declared script) here e = Some l -> In g l ->
  exists h s rest, e = T (h :: L s :: rest) /\ ~ spec_declares script (95%N :: s).
Proof. exact rw_bv_reduce_bw_name_not_in_spec. Qed.
Print Assumptions bv_reduce_bw_name_not_in_spec.

Theorem str_contains_names_not_in_spec : forall script e l g,
  rw_str_contains (is_declared script) e = Some l -> In g l ->
  exists h v x, e = T [h; L v; x] /\
    ~ spec_declares script (v ++ lit "_prefix") /\ ~ spec_declares script (v ++ lit "_suffix").
Proof. exact rw_str_contains_names_not_in_spec. Qed.
Print Assumptions str_contains_names_not_in_spec.

(* ================= (e') freshness with respect to the wide specification ================= *)
Theorem fresh_wrt_spec_wide_iff : forall script g,
  fresh_wrt_spec_wide script g <->
  exists decls : list (str * sexp),
    gs_fresh g = map (fun ns => T [lf "declare-const"; L (fst ns); snd ns]) decls /\
    NoDup (map fst decls) /\
    forall n, In n (map fst decls) -> ~ spec_declares_wide script n.
Proof. exact fresh_wrt_spec_wide_unfold. Qed.
Print Assumptions fresh_wrt_spec_wide_iff.

Theorem fresh_wrt_wide_spec_is_fresh_wrt_spec : forall script g, fresh_wrt_spec_wide script g -> fresh_wrt_spec script g.
Proof. exact fresh_wide_is_fresh. Qed.
Print Assumptions fresh_wrt_wide_spec_is_fresh_wrt_spec.

Theorem not_declared_is_not_in_wide_spec : forall script n,
  n <> [cBAR] -> is_declared script n = false -> ~ spec_declares_wide script n.
Proof. exact not_declared_not_in_spec_wide. Qed.
Print Assumptions not_declared_is_not_in_wide_spec.

Theorem not_declared_is_no_token : forall script n,
  n <> [cBAR] -> is_declared script n = false -> forall m, occurs script m -> ~ same_symbol m n.
Proof. exact not_declared_no_token. Qed.
Print Assumptions not_declared_is_no_token.

Theorem oracle_freshness_gives_wide_spec_freshness : forall script g,
  gsimp_fresh (is_declared script) g ->
  (forall n so, In (mk_decl n so) (gs_fresh g) -> n <> [cBAR]) ->
  fresh_wrt_spec_wide script g.
Proof. exact gsimp_fresh_wrt_spec_wide. Qed.
Print Assumptions oracle_freshness_gives_wide_spec_freshness.

Theorem introduce_fresh_variable_fresh_wrt_wide_spec : forall script gs vars isdef id here e l g,
  rw_fresh_var gs vars isdef (is_declared script) id here e = Some l -> In g l -> fresh_wrt_spec_wide script g.
Proof. exact rw_fresh_var_fresh_wrt_spec_wide. Qed.
Print Assumptions introduce_fresh_variable_fresh_wrt_wide_spec.

Theorem bv_reduce_bw_fresh_wrt_wide_spec : forall script gs bw here e l g,
  rw_bv_reduce_bw gs bw (is_declared script) here e = Some l -> In g l -> fresh_wrt_spec_wide script g.
Proof. exact rw_bv_reduce_bw_fresh_wrt_spec_wide. Qed.
Print Assumptions bv_reduce_bw_fresh_wrt_wide_spec.

Theorem str_contains_fresh_wrt_wide_spec : forall script e l g,
  rw_str_contains (is_declared script) e = Some l -> In g l -> fresh_wrt_spec_wide script g.
Proof. exact rw_str_contains_fresh_wrt_spec_wide. Qed.
Print Assumptions str_contains_fresh_wrt_wide_spec.

Theorem introduce_fresh_variable_name_is_no_token : forall script gs vars isdef id here e l g,
  rw_fresh_var gs vars isdef (is_declared script) id here e = Some l -> In g l ->
  forall m, occurs script m -> ~ same_symbol m (fresh_name id).
Proof. exact rw_fresh_var_name_no_token. Qed.
Print Assumptions introduce_fresh_variable_name_is_no_token.

Theorem bv_reduce_bw_name_is_no_token : forall script gs bw here e l g,
  rw_bv_reduce_bw gs bw (is_declared script) here e = Some l -> In g l ->
  exists h s rest, e = T (h :: L s :: rest) /\ forall m, occurs script m -> ~ same_symbol m (95%N :: s).
Proof. exact rw_bv_reduce_bw_name_no_token. Qed.
Print Assumptions bv_reduce_bw_name_is_no_token.

Theorem str_contains_names_are_no_tokens : forall script e l g,
  rw_str_contains (is_declared script) e = Some l -> In g l ->
  exists h v x, e = T [h; L v; x] /\
    (forall m, occurs script m -> ~ same_symbol m (v ++ lit "_prefix")) /\
    (forall m, occurs script m -> ~ same_symbol m (v ++ lit "_suffix")).
Proof. exact rw_str_contains_names_no_token. Qed.
Print Assumptions str_contains_names_are_no_tokens.

(* ================= (f) examples ================= *)
(* (declare-const |_v| (_ BitVec 8)) declares _v *)
Example quoted_declaration :
  is_declared [T [lfs "declare-const"; lfs "|_v|"; bv8]] (lit "_v") = true.
Proof. vm_compute. reflexivity. Qed.

(* (define-fun f ((_v (_ BitVec 8))) (_ BitVec 8) (bvadd _v v)) declares _v *)
Example formal_parameter :
  is_declared [T [lfs "define-fun"; lfs "f"; T [T [lfs "_v"; bv8]]; bv8; T [lfs "bvadd"; lfs "_v"; lfs "v"]]] (lit "_v") = true.
Proof. vm_compute. reflexivity. Qed.

(* (declare-const _v ; note<LF> (_ BitVec 8)) declares _v *)
Example comment_inside_command :
  is_declared [T [lfs "declare-const"; lfs "_v"; L (lit "; note" ++ [cLF]); bv8]] (lit "_v") = true.
Proof. vm_compute. reflexivity. Qed.

(* (declare-const v (_ BitVec 8)) does not declare _v *)
Example negative :
  is_declared [T [lfs "declare-const"; lfs "v"; bv8]] (lit "_v") = false /\
  structural_table [T [lfs "declare-const"; lfs "v"; bv8]] = [lit "v"] /\
  declared_table [T [lfs "declare-const"; lfs "v"; bv8]] = [lit "v"; lit "declare-const"; lit "v"; lit "_"; lit "BitVec"; lit "8"].
Proof. repeat split; vm_compute; reflexivity. Qed.

(* the specification agrees on the three inputs *)
Theorem examples_in_spec :
  spec_declares ex_quoted (lit "_v") /\ spec_declares ex_formal (lit "|_v|") /\ spec_declares ex_comment (lit "_v").
Proof. exact (conj ex_quoted_spec (conj ex_formal_spec ex_comment_spec)). Qed.
Print Assumptions examples_in_spec.

(* outside the narrow specification: a comment below the top level of a command hides the declaration from the
   structural tables (the former incompleteness); since the repair the name is found as a token, in both spellings *)
Theorem nested_comments_do_not_hide_declarations :
  (let s := [T [lfs "define-fun"; lfs "f"; T [T [cmt "; c"; lfs "x"; lfs "Int"]]; lfs "Int"; lfs "x"]] in
   is_declared s (lit "x") = true /\ is_declared s (lit "|x|") = true /\ structural_table s = [lit "f"; lit "; c" ++ [cLF]]) /\
  (let s := [T [lfs "assert"; T [lfs "let"; T [T [lfs "x"; cmt "; c"; lfs "1"]]; lfs "x"]]] in
   is_declared s (lit "x") = true /\ is_declared s (lit "|x|") = true /\ structural_table s = []) /\
  (let s := [T [lfs "declare-datatypes"; T [T [lfs "D"; lfs "0"]]; T [cmt "; k"; T [T [lfs "c"]]]]] in
   is_declared s (lit "c") = true /\ is_declared s (lit "|c|") = true /\ structural_table s = []).
Proof. exact (conj ex_comment_in_formal (conj ex_comment_in_binding ex_comment_in_datatypes)). Qed.
Print Assumptions nested_comments_do_not_hide_declarations.

(* :named label, match pattern, lambda binder, define-const, declare-var: _x is declared (the former
   incompleteness: BVReduceBW of x proposed (declare-const _x ...) on each of these) *)
Theorem other_declaring_forms_are_found :
  (is_declared ex_named (lit "_x") = true /\ structural_table ex_named = [lit "x"]) /\
  (is_declared ex_match (lit "_x") = true /\ structural_table ex_match = [lit "x"]) /\
  (is_declared ex_lambda (lit "_x") = true /\ structural_table ex_lambda = [lit "x"]) /\
  (is_declared ex_define_const (lit "_x") = true /\ structural_table ex_define_const = [lit "x"]) /\
  (is_declared ex_declare_var (lit "_x") = true /\ structural_table ex_declare_var = [lit "x"]).
Proof. exact ex_other_forms_declared. Qed.
Print Assumptions other_declaring_forms_are_found.

Theorem named_label_in_wide_spec :
  spec_declares_wide ex_named (lit "|_x|") /\ ~ spec_declares_wide ex_named (lit "_y").
Proof. exact ex_named_in_wide_spec. Qed.
Print Assumptions named_label_in_wide_spec.

(* malformed declarations *)
Theorem datatypes_length_mismatch :
  structural_table [T [lfs "declare-datatypes"; T [T [lfs "D"; lfs "0"]; T [lfs "E"; lfs "0"]]; T [T [T [lfs "c"]]]]] = [lit "c"] /\
  structural_table [T [lfs "declare-datatypes"; T [T [lfs "D"; lfs "0"]]; T [T [T [lfs "c"]]; T [T [lfs "e"]]]]] = [lit "c"].
Proof. exact ex_datatypes_lengths. Qed.
Print Assumptions datatypes_length_mismatch.

Theorem parametric_datatype_table :
  structural_table [T [lfs "declare-datatype"; lfs "L"; T [lfs "par"; T [lfs "X"];
                     T [T [lfs "nil"]; T [lfs "cons"; T [lfs "hd"; lfs "X"]; T [lfs "tl"; T [lfs "L"; lfs "X"]]]]]]]
  = [lit "nil"; lit "cons"; lit "hd"; lit "X"; lit "tl"; lit "L"; lit "X"; lit "X"; lit "cons"].
Proof. exact ex_par. Qed.
Print Assumptions parametric_datatype_table.

Theorem arities :
  structural_table [T [lfs "define-fun-rec"; lfs "f"]] = [lit "f"] /\
  structural_table [T [lfs "declare-const"; lfs "x"; lfs "Int"; lfs "extra"]] = [].
Proof. exact ex_arities. Qed.
Print Assumptions arities.
