(* Properties of the hierarchical scheduler model (Model/SchedHier.v).
   Statements only; the proofs are in Proofs/Sched/. *)
From Coq Require Import Sorted Wellfounded.
From DD Require Import Model.SchedHier.
From DD Require Import Proofs.Sched.HierBase Proofs.Sched.HierInv Proofs.Sched.HierFix
                       Proofs.Sched.HierSeq Proofs.Sched.HierTerm.

(* T1: a result is adopted only if it was computed against the current input
   and was accepted *)
Theorem no_stale :
  forall (input : Type) (cands : nat -> input -> list (nat * input))
         (accept : input -> bool) (redup : input -> input) (npasses : nat)
         (i : input) (s : hst input) (k : nat) (s' : hst input) (t : task input),
    reachable input cands accept redup npasses i s ->
    abort s = false ->
    nth_error (results s) k = Some (t, OSucc) ->
    exec input cands accept redup npasses s (AConsume k) = Some s' ->
    t_base t = cur s /\ cur s' = redup (t_cand t) /\ accept (t_cand t) = true.
Proof. exact no_stale_lemma. Qed.
Print Assumptions no_stale.

(* T2: the current input is the last content written *)
Theorem file_is_last :
  forall (input : Type) (cands : nat -> input -> list (nat * input))
         (accept : input -> bool) (redup : input -> input) (npasses : nat)
         (i : input) (s : hst input),
    reachable input cands accept redup npasses i s ->
    match writes s with w :: _ => cur s = w | [] => cur s = i end.
Proof. exact file_is_last_lemma. Qed.
Print Assumptions file_is_last.

(* T3: the write history is a chain of accepted single-candidate derivations
   starting at the initial input; every written content was tested and
   accepted before it was written; the verdict log is faithful *)
Theorem chain :
  forall (input : Type) (cands : nat -> input -> list (nat * input))
         (accept : input -> bool) (redup : input -> input) (npasses : nat)
         (i : input) (s : hst input),
    reachable input cands accept redup npasses i s ->
    chain_from input cands accept redup i (rev (writes s)).
Proof. exact chain_lemma. Qed.
Print Assumptions chain.

Theorem written_was_checked :
  forall (input : Type) (cands : nat -> input -> list (nat * input))
         (accept : input -> bool) (redup : input -> input) (npasses : nat)
         (i : input) (s : hst input) (w : input),
    reachable input cands accept redup npasses i s ->
    In w (writes s) ->
    exists c, w = redup c /\ In (c, true) (checked s).
Proof. exact written_was_checked_lemma. Qed.
Print Assumptions written_was_checked.

Theorem checked_sound :
  forall (input : Type) (cands : nat -> input -> list (nat * input))
         (accept : input -> bool) (redup : input -> input) (npasses : nat)
         (i : input) (s : hst input) (x : input) (b : bool),
    reachable input cands accept redup npasses i s ->
    In (x, b) (checked s) -> accept x = b.
Proof. exact checked_sound_lemma. Qed.
Print Assumptions checked_sound.

(* T4: when the loop finishes, every candidate of the last pass for the final
   input has been rejected *)
Theorem fixpoint :
  forall (input : Type) (cands : nat -> input -> list (nat * input))
         (accept : input -> bool) (redup : input -> input) (npasses : nat)
         (i : input) (s : hst input),
    0 < npasses ->
    (forall p x n c, In (n, c) (cands p x) -> 1 <= n) ->
    reachable input cands accept redup npasses i s ->
    finished s = true ->
    forall n c, In (n, c) (cands (npasses - 1) (cur s)) -> accept c = false.
Proof. exact fixpoint_lemma. Qed.
Print Assumptions fixpoint.

Theorem finished_terminal :
  forall (input : Type) (cands : nat -> input -> list (nat * input))
         (accept : input -> bool) (redup : input -> input) (npasses : nat)
         (s : hst input) (a : action),
    finished s = true -> exec input cands accept redup npasses s a = None.
Proof. exact finished_terminal_lemma. Qed.
Print Assumptions finished_terminal.

(* T5: with a strictly decreasing measure only finitely many inputs are adopted *)
Theorem adoptions_bounded :
  forall (input : Type) (cands : nat -> input -> list (nat * input))
         (accept : input -> bool) (redup : input -> input) (npasses : nat)
         (m : input -> nat),
    (forall p x n c, In (n, c) (cands p x) -> accept c = true -> m (redup c) < m x) ->
    forall (i : input) (s : hst input),
      reachable input cands accept redup npasses i s ->
      m (cur s) + length (writes s) <= m i.
Proof. exact adoptions_bounded_lemma. Qed.
Print Assumptions adoptions_bounded.

(* T6: termination: the step relation restricted to reachable states is well
   founded; there is no infinite run *)
Theorem sweep_progress :
  forall (input : Type) (cands : nat -> input -> list (nat * input))
         (accept : input -> bool) (redup : input -> input) (npasses : nat)
         (m : input -> nat),
    (forall p x n c, In (n, c) (cands p x) -> accept c = true -> m (redup c) < m x) ->
    forall (i : input),
      well_founded (fun s' s : hst input =>
                      reachable input cands accept redup npasses i s /\
                      hstep input cands accept redup npasses s s').
Proof. exact sweep_progress_lemma. Qed.
Print Assumptions sweep_progress.

Theorem step_decreases :
  forall (input : Type) (cands : nat -> input -> list (nat * input))
         (accept : input -> bool) (redup : input -> input) (npasses : nat)
         (m : input -> nat),
    (forall p x n c, In (n, c) (cands p x) -> accept c = true -> m (redup c) < m x) ->
    forall (i : input) (s : hst input) (a : action) (s' : hst input),
      reachable input cands accept redup npasses i s ->
      exec input cands accept redup npasses s a = Some s' ->
      mlt input cands npasses m s' s.
Proof. exact step_decreases_lemma. Qed.
Print Assumptions step_decreases.

Theorem no_infinite_run :
  forall (input : Type) (cands : nat -> input -> list (nat * input))
         (accept : input -> bool) (redup : input -> input) (npasses : nat)
         (m : input -> nat),
    (forall p x n c, In (n, c) (cands p x) -> accept c = true -> m (redup c) < m x) ->
    forall (i : input) (f : nat -> hst input),
      reachable input cands accept redup npasses i (f 0) ->
      (forall n, hstep input cands accept redup npasses (f n) (f (S n))) ->
      False.
Proof. exact no_infinite_run_lemma. Qed.
Print Assumptions no_infinite_run.

(* T7: one worker: the write history is determined by the initial input *)
Theorem seq_deterministic :
  forall (input : Type) (cands : nat -> input -> list (nat * input))
         (accept : input -> bool) (redup : input -> input) (npasses : nat),
    (forall p x, StronglySorted le (map fst (cands p x))) ->
    forall (i : input) (s1 s2 : hst input),
      reachable1 input cands accept redup npasses i s1 ->
      reachable1 input cands accept redup npasses i s2 ->
      (exists l, writes s1 = l ++ writes s2) \/ (exists l, writes s2 = l ++ writes s1).
Proof. exact seq_prefix_lemma. Qed.
Print Assumptions seq_deterministic.

Theorem seq_deterministic_final :
  forall (input : Type) (cands : nat -> input -> list (nat * input))
         (accept : input -> bool) (redup : input -> input) (npasses : nat),
    (forall p x, StronglySorted le (map fst (cands p x))) ->
    forall (i : input) (s1 s2 : hst input),
      reachable1 input cands accept redup npasses i s1 ->
      reachable1 input cands accept redup npasses i s2 ->
      finished s1 = true -> finished s2 = true ->
      writes s1 = writes s2 /\ cur s1 = cur s2.
Proof. exact seq_final_lemma. Qed.
Print Assumptions seq_deterministic_final.

(* one-worker executions refine the sequential semantics [sstep] *)
Theorem seq_refines :
  forall (input : Type) (cands : nat -> input -> list (nat * input))
         (accept : input -> bool) (redup : input -> input) (npasses : nat),
    (forall p x, StronglySorted le (map fst (cands p x))) ->
    forall (i : input) (s : hst input),
      reachable1 input cands accept redup npasses i s ->
      exists k, siter input cands accept redup npasses k (cfg0 i) = Some (cfg_of s) /\
                (finished s = true ->
                 sstep input cands accept redup npasses (cfg_of s) = None).
Proof. exact seq_refines_lemma. Qed.
Print Assumptions seq_refines.

(* ------------------------------------------------------------------ *)
(* Examples (non-vacuity) *)

Module Ex.
  Definition cands (p x : nat) : list (nat * nat) :=
    if Nat.eqb x 0 then [] else [(1, x - 1); (2, x / 2)].
  Definition accept (c : nat) : bool := Nat.leb 3 c.
  Definition redup (x : nat) : nat := x.
  Definition npasses : nat := 2.

  Definition sweep_fail : list action :=
    [AGen; AGen; APStop; AWork 0 false; AWork 0 false; AConsume 0; AConsume 0; AEndSweep].

  (* a run with two workers: results are produced and consumed out of order,
     a stale result is discarded under the abort flag *)
  Definition run_par : list action :=
    [AGen; AGen; AWork 1 false; AWork 0 false; AConsume 1; AConsume 0; APStop; AEndSweep;
     AGen; AWork 0 false; AGen; AConsume 0; APStop; AWork 0 true; AConsume 0; AEndSweep]
    ++ sweep_fail ++ sweep_fail ++ sweep_fail.

  (* a one-worker run *)
  Definition run_seq : list action :=
    [AGen; AWork 0 false; AGen; AConsume 0; AWork 0 false; APStop; AConsume 0; AEndSweep;
     AGen; AGen; AWork 0 false; APStop; AConsume 0; AWork 0 true; AConsume 0; AEndSweep]
    ++ sweep_fail ++ sweep_fail ++ sweep_fail.

  Definition final (l : list action) : option (bool * nat * list nat * nat) :=
    match replay nat cands accept redup npasses (init 5) l with
    | Some s => Some (finished s, cur s, writes s, pass s)
    | None => None
    end.

  Example run_par_finishes : final run_par = Some (true, 3, [3; 4], 1).
  Proof. vm_compute. reflexivity. Qed.

  Example run_seq_finishes : final run_seq = Some (true, 3, [3; 4], 1).
  Proof. vm_compute. reflexivity. Qed.

  Example run_seq_fifo : forallb fifo run_seq = true.
  Proof. vm_compute. reflexivity. Qed.

  Example run_par_not_fifo : forallb fifo run_par = false.
  Proof. vm_compute. reflexivity. Qed.

  (* the hypotheses of T4, T5/T6 and T7 hold for this instance *)
  Example ex_npasses : 0 < npasses.
  Proof. unfold npasses. lia. Qed.

  Example ex_nid : forall p x n c, In (n, c) (cands p x) -> 1 <= n.
  Proof.
    intros p x n c H. unfold cands in H. destruct (Nat.eqb x 0).
    - destruct H.
    - destruct H as [ H | [ H | [] ] ]; injection H as <- _; lia.
  Qed.

  Example ex_measure : forall p x n c,
    In (n, c) (cands p x) -> accept c = true -> (fun y : nat => y) (redup c) < (fun y : nat => y) x.
  Proof.
    intros p x n c H _. unfold cands in H. unfold redup.
    destruct (Nat.eqb x 0) eqn:E.
    - destruct H.
    - apply Nat.eqb_neq in E.
      destruct H as [ H | [ H | [] ] ].
      + assert (Hc : c = x - 1) by congruence. rewrite Hc. lia.
      + assert (Hc : c = x / 2) by congruence. rewrite Hc. apply Nat.div_lt; lia.
  Qed.

  Example ex_sorted : forall p x, StronglySorted le (map fst (cands p x)).
  Proof.
    intros p x. unfold cands. destruct (Nat.eqb x 0); simpl.
    - constructor.
    - repeat constructor.
  Qed.

  (* the theorems applied to the instance *)
  Example ex_reach_par : exists s,
    replay nat cands accept redup npasses (init 5) run_par = Some s /\
    reachable nat cands accept redup npasses 5 s /\ finished s = true /\ writes s = [3; 4].
  Proof.
    destruct (replay nat cands accept redup npasses (init 5) run_par) as [ s | ] eqn:E.
    - exists s. split; [ reflexivity | ]. split.
      + eapply replay_reachable; [ apply R0 | exact E ].
      + revert E. vm_compute. intros E. injection E as <-. split; reflexivity.
    - revert E. vm_compute. discriminate.
  Qed.

  Example ex_reach_seq : exists s,
    replay nat cands accept redup npasses (init 5) run_seq = Some s /\
    reachable1 nat cands accept redup npasses 5 s /\ finished s = true /\ writes s = [3; 4].
  Proof.
    destruct (replay nat cands accept redup npasses (init 5) run_seq) as [ s | ] eqn:E.
    - exists s. split; [ reflexivity | ]. split.
      + eapply replay_reachable1; [ apply R10 | exact run_seq_fifo | exact E ].
      + revert E. vm_compute. intros E. injection E as <-. split; reflexivity.
    - revert E. vm_compute. discriminate.
  Qed.

  Example ex_fixpoint : forall s,
    reachable nat cands accept redup npasses 5 s -> finished s = true ->
    forall n c, In (n, c) (cands 1 (cur s)) -> accept c = false.
  Proof.
    intros s Hr Hf. exact (fixpoint nat cands accept redup npasses 5 s ex_npasses ex_nid Hr Hf).
  Qed.

  Example ex_bounded : forall s,
    reachable nat cands accept redup npasses 5 s -> cur s + length (writes s) <= 5.
  Proof.
    intros s Hr.
    exact (adoptions_bounded nat cands accept redup npasses (fun y => y) ex_measure 5 s Hr).
  Qed.

  Example ex_terminates : forall f : nat -> hst nat,
    f 0 = init 5 -> (forall n, hstep nat cands accept redup npasses (f n) (f (S n))) -> False.
  Proof.
    intros f H0 Hs.
    apply (no_infinite_run nat cands accept redup npasses (fun y => y) ex_measure 5 f); [ | exact Hs ].
    rewrite H0. apply R0.
  Qed.

  Example ex_seq_final : forall s,
    reachable1 nat cands accept redup npasses 5 s -> finished s = true ->
    writes s = [3; 4] /\ cur s = 3.
  Proof.
    intros s Hr Hf. destruct ex_reach_seq as (s0 & _ & Hr0 & Hf0 & Hw0).
    destruct (seq_deterministic_final nat cands accept redup npasses ex_sorted 5 s s0 Hr Hr0 Hf Hf0)
      as [ Hw Hc ].
    split.
    - rewrite Hw. exact Hw0.
    - rewrite Hc. pose proof (file_is_last nat cands accept redup npasses 5 s0
                                (reachable1_reachable nat cands accept redup npasses 5 s0 Hr0)) as Hl.
      rewrite Hw0 in Hl. exact Hl.
  Qed.

  (* the sequential semantics on the instance: 5 -> 4 -> 3, then a fresh
     rerun, the second pass, and termination after five boundaries *)
  Example ex_siter :
    option_map (fun c => (c_cur c, c_writes c))
               (siter nat cands accept redup npasses 4 (cfg0 5)) = Some (3, [3; 4]) /\
    siter nat cands accept redup npasses 5 (cfg0 5) = None.
  Proof. vm_compute. split; reflexivity. Qed.
End Ex.
