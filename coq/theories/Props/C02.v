(* C02: when the hierarchical loop finishes, every candidate of the last pass
   for the final input has really been tested and rejected (all interleavings,
   any number of workers).  With C14 (hier_last_pass: the last pass consists of
   exactly the enabled mutators) this is "every enabled mutator". *)
From DD Require Import Model.SchedHier Props.SchedHierProps.

Theorem c02_fixpoint : ltac:(let t := type of fixpoint in exact t).
Proof. exact fixpoint. Qed.
Print Assumptions c02_fixpoint.

Theorem c02_finished_terminal : ltac:(let t := type of finished_terminal in exact t).
Proof. exact finished_terminal. Qed.
Print Assumptions c02_finished_terminal.
About fixpoint.
