(* Properties of the top level of the ddmin strategy (Model/DdminTop.v): check_seq, gran_loop, apply_mutator,
   stage1_mut, stage1, stage2, reduce.  Statements only; the proofs are in Proofs/DdminTop/.
   The parameters of the model (nfiltered, cands, accept, redup, cexprs) are universally quantified. *)
From DD Require Import Model.DdminTop.
From DD Require Import Proofs.DdminTop.TopBase Proofs.DdminTop.TopInv Proofs.DdminTop.TopTerm
                       Proofs.DdminTop.TopExample.

(* (A) Writes only grow (the incoming write list is a suffix of the resulting one, [a_writes] is newest first)
   and everything written was accepted. *)

Theorem top_check_seq_writes :
  forall (input mutator : Type) (cands : mutator -> nat -> input -> nat -> input -> list input)
      (accept : input -> bool) (cexprs : input -> Z) (m : mutator) (g : nat) (x0 : input) 
      (k todo : nat) (a : acc input),
    exists new : list input,
      a_writes (check_seq input mutator cands accept cexprs m g x0 k todo a) = new ++ a_writes a /\
      (forall c : input, In c new -> accept c = true).
Proof. exact check_seq_writes_lemma. Qed.
Print Assumptions top_check_seq_writes.

Theorem top_gran_loop_writes :
  forall (input mutator : Type) (nfiltered : mutator -> input -> nat)
      (cands : mutator -> nat -> input -> nat -> input -> list input) (accept : input -> bool)
      (redup : input -> input) (cexprs : input -> Z) (m : mutator) (fuel g : nat) 
      (a a' : acc input),
    gran_loop input mutator nfiltered cands accept redup cexprs m fuel g a = Some a' ->
    exists new : list input,
      a_writes a' = new ++ a_writes a /\ (forall c : input, In c new -> accept c = true).
Proof. exact gran_loop_writes_lemma. Qed.
Print Assumptions top_gran_loop_writes.

Theorem top_apply_mutator_writes :
  forall (input mutator : Type) (nfiltered : mutator -> input -> nat)
      (cands : mutator -> nat -> input -> nat -> input -> list input) (accept : input -> bool)
      (redup : input -> input) (cexprs : input -> Z) (m : mutator) (x : input) (w : list input)
      (a : acc input),
    apply_mutator input mutator nfiltered cands accept redup cexprs m x w = Some a ->
    exists new : list input, a_writes a = new ++ w /\ (forall c : input, In c new -> accept c = true).
Proof. exact apply_mutator_writes_lemma. Qed.
Print Assumptions top_apply_mutator_writes.

Theorem top_stage1_mut_writes :
  forall (input mutator : Type) (nfiltered : mutator -> input -> nat)
      (cands : mutator -> nat -> input -> nat -> input -> list input) (accept : input -> bool)
      (redup : input -> input) (cexprs : input -> Z) (m : mutator) (fuel : nat) 
      (x : input) (w : list input) (r : Z) (x' : input) (w' : list input) (r' : Z),
    stage1_mut input mutator nfiltered cands accept redup cexprs m fuel x w r = Some (x', w', r') ->
    exists new : list input, w' = new ++ w /\ (forall c : input, In c new -> accept c = true).
Proof. exact stage1_mut_writes_lemma. Qed.
Print Assumptions top_stage1_mut_writes.

Theorem top_stage1_writes :
  forall (input mutator : Type) (nfiltered : mutator -> input -> nat)
      (cands : mutator -> nat -> input -> nat -> input -> list input) (accept : input -> bool)
      (redup : input -> input) (cexprs : input -> Z) (ms : list mutator) (fuel : nat) 
      (x : input) (w : list input) (r : Z) (x' : input) (w' : list input) (r' : Z),
    stage1 input mutator nfiltered cands accept redup cexprs ms fuel x w r = Some (x', w', r') ->
    exists new : list input, w' = new ++ w /\ (forall c : input, In c new -> accept c = true).
Proof. exact stage1_writes_lemma. Qed.
Print Assumptions top_stage1_writes.

Theorem top_stage2_writes :
  forall (input mutator : Type) (nfiltered : mutator -> input -> nat)
      (cands : mutator -> nat -> input -> nat -> input -> list input) (accept : input -> bool)
      (redup : input -> input) (cexprs : input -> Z) (ms : list mutator) (x : input) 
      (w : list input) (r : Z) (x' : input) (w' : list input) (r' : Z),
    stage2 input mutator nfiltered cands accept redup cexprs ms x w r = Some (x', w', r') ->
    exists new : list input, w' = new ++ w /\ (forall c : input, In c new -> accept c = true).
Proof. exact stage2_writes_lemma. Qed.
Print Assumptions top_stage2_writes.

Theorem top_reduce_writes :
  forall (input mutator : Type) (nfiltered : mutator -> input -> nat)
      (cands : mutator -> nat -> input -> nat -> input -> list input) (accept : input -> bool)
      (redup : input -> input) (cexprs : input -> Z) (s1 s2 : list mutator) (fuel : nat) 
      (x : input) (w : list input) (y : input) (w' : list input),
    reduce input mutator nfiltered cands accept redup cexprs s1 s2 fuel x w = Some (y, w') ->
    exists new : list input, w' = new ++ w /\ (forall c : input, In c new -> accept c = true).
Proof. exact reduce_writes_lemma. Qed.
Print Assumptions top_reduce_writes.

(* (B) Chain.  [derives cands x c]: c is a candidate some generator proposes while its current input is x.
   [chain cands accept tok s l e]: l (oldest first) = c1..cn, there are x1..xn with tok x1 = s, derives xi ci,
   accept ci = true, tok x(i+1) = tok ci; e = tok cn (e = s if l = []).  [tok] is any function that
   re-duplication preserves.  The new writes of every layer, oldest first, form a chain from the tokens of the
   incoming input to the tokens of the resulting input. *)

Theorem top_check_seq_chain :
  forall (input mutator : Type) (cands : mutator -> nat -> input -> nat -> input -> list input)
      (accept : input -> bool) (redup : input -> input) (cexprs : input -> Z) (T : Type) 
      (tok : input -> T),
    (forall z : input, tok (redup z) = tok z) ->
    forall (m : mutator) (g : nat) (x0 : input) (k todo : nat) (a : acc input),
    exists new : list input,
      a_writes (check_seq input mutator cands accept cexprs m g x0 k todo a) = new ++ a_writes a /\
      chain cands accept tok (tok (a_cur a)) (rev new)
        (tok (a_cur (check_seq input mutator cands accept cexprs m g x0 k todo a))).
Proof. exact check_seq_chain_lemma. Qed.
Print Assumptions top_check_seq_chain.

Theorem top_gran_loop_chain :
  forall (input mutator : Type) (nfiltered : mutator -> input -> nat)
      (cands : mutator -> nat -> input -> nat -> input -> list input) (accept : input -> bool)
      (redup : input -> input) (cexprs : input -> Z) (T : Type) (tok : input -> T),
    (forall z : input, tok (redup z) = tok z) ->
    forall (m : mutator) (fuel g : nat) (a a' : acc input),
    gran_loop input mutator nfiltered cands accept redup cexprs m fuel g a = Some a' ->
    exists new : list input,
      a_writes a' = new ++ a_writes a /\ chain cands accept tok (tok (a_cur a)) (rev new) (tok (a_cur a')).
Proof. exact gran_loop_chain_lemma. Qed.
Print Assumptions top_gran_loop_chain.

Theorem top_apply_mutator_chain :
  forall (input mutator : Type) (nfiltered : mutator -> input -> nat)
      (cands : mutator -> nat -> input -> nat -> input -> list input) (accept : input -> bool)
      (redup : input -> input) (cexprs : input -> Z) (T : Type) (tok : input -> T),
    (forall z : input, tok (redup z) = tok z) ->
    forall (m : mutator) (x : input) (w : list input) (a : acc input),
    apply_mutator input mutator nfiltered cands accept redup cexprs m x w = Some a ->
    exists new : list input,
      a_writes a = new ++ w /\ chain cands accept tok (tok x) (rev new) (tok (a_cur a)).
Proof. exact apply_mutator_chain_lemma. Qed.
Print Assumptions top_apply_mutator_chain.

Theorem top_stage1_mut_chain :
  forall (input mutator : Type) (nfiltered : mutator -> input -> nat)
      (cands : mutator -> nat -> input -> nat -> input -> list input) (accept : input -> bool)
      (redup : input -> input) (cexprs : input -> Z) (T : Type) (tok : input -> T),
    (forall z : input, tok (redup z) = tok z) ->
    forall (m : mutator) (fuel : nat) (x : input) (w : list input) (r : Z) (x' : input) 
      (w' : list input) (r' : Z),
    stage1_mut input mutator nfiltered cands accept redup cexprs m fuel x w r = Some (x', w', r') ->
    exists new : list input, w' = new ++ w /\ chain cands accept tok (tok x) (rev new) (tok x').
Proof. exact stage1_mut_chain_lemma. Qed.
Print Assumptions top_stage1_mut_chain.

Theorem top_stage1_chain :
  forall (input mutator : Type) (nfiltered : mutator -> input -> nat)
      (cands : mutator -> nat -> input -> nat -> input -> list input) (accept : input -> bool)
      (redup : input -> input) (cexprs : input -> Z) (T : Type) (tok : input -> T),
    (forall z : input, tok (redup z) = tok z) ->
    forall (ms : list mutator) (fuel : nat) (x : input) (w : list input) (r : Z) 
      (x' : input) (w' : list input) (r' : Z),
    stage1 input mutator nfiltered cands accept redup cexprs ms fuel x w r = Some (x', w', r') ->
    exists new : list input, w' = new ++ w /\ chain cands accept tok (tok x) (rev new) (tok x').
Proof. exact stage1_chain_lemma. Qed.
Print Assumptions top_stage1_chain.

Theorem top_stage2_chain :
  forall (input mutator : Type) (nfiltered : mutator -> input -> nat)
      (cands : mutator -> nat -> input -> nat -> input -> list input) (accept : input -> bool)
      (redup : input -> input) (cexprs : input -> Z) (T : Type) (tok : input -> T),
    (forall z : input, tok (redup z) = tok z) ->
    forall (ms : list mutator) (x : input) (w : list input) (r : Z) (x' : input) (w' : list input) (r' : Z),
    stage2 input mutator nfiltered cands accept redup cexprs ms x w r = Some (x', w', r') ->
    exists new : list input, w' = new ++ w /\ chain cands accept tok (tok x) (rev new) (tok x').
Proof. exact stage2_chain_lemma. Qed.
Print Assumptions top_stage2_chain.

Theorem top_reduce_chain :
  forall (input mutator : Type) (nfiltered : mutator -> input -> nat)
      (cands : mutator -> nat -> input -> nat -> input -> list input) (accept : input -> bool)
      (redup : input -> input) (cexprs : input -> Z) (T : Type) (tok : input -> T),
    (forall z : input, tok (redup z) = tok z) ->
    forall (s1 s2 : list mutator) (fuel : nat) (x : input) (w : list input) (y : input) (w' : list input),
    reduce input mutator nfiltered cands accept redup cexprs s1 s2 fuel x w = Some (y, w') ->
    exists new : list input, w' = new ++ w /\ chain cands accept tok (tok x) (rev new) (tok y).
Proof. exact reduce_chain_lemma. Qed.
Print Assumptions top_reduce_chain.

(* what [chain] says elementwise *)

Theorem top_chain_accept :
  forall (input mutator : Type) (cands : mutator -> nat -> input -> nat -> input -> list input)
      (accept : input -> bool) (T : Type) (tok : input -> T) (t : T) (l : list input) 
      (last : T), chain cands accept tok t l last -> forall c : input, In c l -> accept c = true.
Proof. exact chain_accept_lemma. Qed.
Print Assumptions top_chain_accept.

Theorem top_chain_last :
  forall (input mutator : Type) (cands : mutator -> nat -> input -> nat -> input -> list input)
      (accept : input -> bool) (T : Type) (tok : input -> T) (t : T) (l : list input) 
      (last : T), chain cands accept tok t l last -> last = match rev l with
                                                            | [] => t
                                                            | c :: _ => tok c
                                                            end.
Proof. exact chain_last_lemma. Qed.
Print Assumptions top_chain_last.

Theorem top_chain_nth :
  forall (input mutator : Type) (cands : mutator -> nat -> input -> nat -> input -> list input)
      (accept : input -> bool) (T : Type) (tok : input -> T) (t : T) (l : list input) 
      (last : T),
    chain cands accept tok t l last ->
    forall (i : nat) (c : input),
    nth_error l i = Some c ->
    exists x : input,
      derives cands x c /\
      accept c = true /\
      match i with
      | 0 => tok x = t
      | S j => exists p : input, nth_error l j = Some p /\ tok x = tok p
      end.
Proof. exact chain_nth_lemma. Qed.
Print Assumptions top_chain_nth.

(* (C) Bookkeeping: the 'reduced' counter is cexprs(incoming input) - cexprs(resulting input), provided
   re-duplication preserves cexprs (check_seq does not re-duplicate: no hypothesis). *)

Theorem top_check_seq_red :
  forall (input mutator : Type) (cands : mutator -> nat -> input -> nat -> input -> list input)
      (accept : input -> bool) (cexprs : input -> Z) (m : mutator) (g : nat) (x0 : input) 
      (todo k : nat) (a : acc input),
    a_red (check_seq input mutator cands accept cexprs m g x0 k todo a) =
    (a_red a +
     (cexprs (a_cur a) - cexprs (a_cur (check_seq input mutator cands accept cexprs m g x0 k todo a))))%Z.
Proof. exact check_seq_red_lemma. Qed.
Print Assumptions top_check_seq_red.

Theorem top_gran_loop_red :
  forall (input mutator : Type) (nfiltered : mutator -> input -> nat)
      (cands : mutator -> nat -> input -> nat -> input -> list input) (accept : input -> bool)
      (redup : input -> input) (cexprs : input -> Z),
    (forall z : input, cexprs (redup z) = cexprs z) ->
    forall (m : mutator) (fuel g : nat) (a a' : acc input),
    gran_loop input mutator nfiltered cands accept redup cexprs m fuel g a = Some a' ->
    a_red a' = (a_red a + (cexprs (a_cur a) - cexprs (a_cur a')))%Z.
Proof. exact gran_loop_red_lemma. Qed.
Print Assumptions top_gran_loop_red.

Theorem top_apply_mutator_red :
  forall (input mutator : Type) (nfiltered : mutator -> input -> nat)
      (cands : mutator -> nat -> input -> nat -> input -> list input) (accept : input -> bool)
      (redup : input -> input) (cexprs : input -> Z),
    (forall z : input, cexprs (redup z) = cexprs z) ->
    forall (m : mutator) (x : input) (w : list input) (a : acc input),
    apply_mutator input mutator nfiltered cands accept redup cexprs m x w = Some a ->
    a_red a = (cexprs x - cexprs (a_cur a))%Z.
Proof. exact apply_mutator_red_lemma. Qed.
Print Assumptions top_apply_mutator_red.

Theorem top_stage1_mut_red :
  forall (input mutator : Type) (nfiltered : mutator -> input -> nat)
      (cands : mutator -> nat -> input -> nat -> input -> list input) (accept : input -> bool)
      (redup : input -> input) (cexprs : input -> Z),
    (forall z : input, cexprs (redup z) = cexprs z) ->
    forall (m : mutator) (fuel : nat) (x : input) (w : list input) (r : Z) (x' : input) 
      (w' : list input) (r' : Z),
    stage1_mut input mutator nfiltered cands accept redup cexprs m fuel x w r = Some (x', w', r') ->
    r' = (r + (cexprs x - cexprs x'))%Z.
Proof. exact stage1_mut_red_lemma. Qed.
Print Assumptions top_stage1_mut_red.

Theorem top_stage1_red :
  forall (input mutator : Type) (nfiltered : mutator -> input -> nat)
      (cands : mutator -> nat -> input -> nat -> input -> list input) (accept : input -> bool)
      (redup : input -> input) (cexprs : input -> Z),
    (forall z : input, cexprs (redup z) = cexprs z) ->
    forall (ms : list mutator) (fuel : nat) (x : input) (w : list input) (r : Z) 
      (x' : input) (w' : list input) (r' : Z),
    stage1 input mutator nfiltered cands accept redup cexprs ms fuel x w r = Some (x', w', r') ->
    r' = (r + (cexprs x - cexprs x'))%Z.
Proof. exact stage1_red_lemma. Qed.
Print Assumptions top_stage1_red.

Theorem top_stage2_red :
  forall (input mutator : Type) (nfiltered : mutator -> input -> nat)
      (cands : mutator -> nat -> input -> nat -> input -> list input) (accept : input -> bool)
      (redup : input -> input) (cexprs : input -> Z),
    (forall z : input, cexprs (redup z) = cexprs z) ->
    forall (ms : list mutator) (x : input) (w : list input) (r : Z) (x' : input) (w' : list input) (r' : Z),
    stage2 input mutator nfiltered cands accept redup cexprs ms x w r = Some (x', w', r') ->
    r' = (r + (cexprs x - cexprs x'))%Z.
Proof. exact stage2_red_lemma. Qed.
Print Assumptions top_stage2_red.

Theorem top_round_red :
  forall (input mutator : Type) (nfiltered : mutator -> input -> nat)
      (cands : mutator -> nat -> input -> nat -> input -> list input) (accept : input -> bool)
      (redup : input -> input) (cexprs : input -> Z),
    (forall z : input, cexprs (redup z) = cexprs z) ->
    forall (s1 s2 : list mutator) (fuel : nat) (x : input) (w : list input) (x1 : input) 
      (w1 : list input) (r1 : Z) (x2 : input) (w2 : list input) (r2 : Z),
    stage1 input mutator nfiltered cands accept redup cexprs s1 fuel x w 0 = Some (x1, w1, r1) ->
    stage2 input mutator nfiltered cands accept redup cexprs s2 x1 w1 r1 = Some (x2, w2, r2) ->
    r2 = (cexprs x - cexprs x2)%Z.
Proof. exact round_red_lemma. Qed.
Print Assumptions top_round_red.

(* reduce goes on iff the round changed cexprs; its result is the outcome of a last round that did not *)

Theorem top_reduce_unfold :
  forall (input mutator : Type) (nfiltered : mutator -> input -> nat)
      (cands : mutator -> nat -> input -> nat -> input -> list input) (accept : input -> bool)
      (redup : input -> input) (cexprs : input -> Z),
    (forall z : input, cexprs (redup z) = cexprs z) ->
    forall (s1 s2 : list mutator) (f : nat) (x : input) (w : list input) (x1 : input) 
      (w1 : list input) (r1 : Z) (x2 : input) (w2 : list input) (r2 : Z),
    stage1 input mutator nfiltered cands accept redup cexprs s1 (S f) x w 0 = Some (x1, w1, r1) ->
    stage2 input mutator nfiltered cands accept redup cexprs s2 x1 w1 r1 = Some (x2, w2, r2) ->
    reduce input mutator nfiltered cands accept redup cexprs s1 s2 (S f) x w =
    (if (cexprs x =? cexprs x2)%Z
     then Some (x2, w2)
     else reduce input mutator nfiltered cands accept redup cexprs s1 s2 f x2 w2).
Proof. exact reduce_unfold_lemma. Qed.
Print Assumptions top_reduce_unfold.

Theorem top_reduce_last_round :
  forall (input mutator : Type) (nfiltered : mutator -> input -> nat)
      (cands : mutator -> nat -> input -> nat -> input -> list input) (accept : input -> bool)
      (redup : input -> input) (cexprs : input -> Z),
    (forall z : input, cexprs (redup z) = cexprs z) ->
    forall (s1 s2 : list mutator) (fuel : nat) (x : input) (w : list input) (y : input) (w' : list input),
    reduce input mutator nfiltered cands accept redup cexprs s1 s2 fuel x w = Some (y, w') ->
    exists (f : nat) (xl : input) (wl : list input) (x1 : input) (w1 : list input) 
    (r1 : Z),
      stage1 input mutator nfiltered cands accept redup cexprs s1 f xl wl 0 = Some (x1, w1, r1) /\
      stage2 input mutator nfiltered cands accept redup cexprs s2 x1 w1 r1 = Some (y, w', 0%Z) /\
      cexprs y = cexprs xl.
Proof. exact reduce_last_round_lemma. Qed.
Print Assumptions top_reduce_last_round.

(* nothing accepted: counter 0, nothing written, the input only re-duplicated; and (no hypothesis on cexprs)
   a non-zero counter means that something was written *)

Theorem top_apply_mutator_noaccept :
  forall (input mutator : Type) (nfiltered : mutator -> input -> nat)
      (cands : mutator -> nat -> input -> nat -> input -> list input) (accept : input -> bool)
      (redup : input -> input) (cexprs : input -> Z) (m : mutator) (x : input) (w : list input)
      (a : acc input),
    (forall c : input, accept c = false) ->
    apply_mutator input mutator nfiltered cands accept redup cexprs m x w = Some a ->
    a_red a = 0%Z /\ a_writes a = w /\ (exists k : nat, a_cur a = Nat.iter k redup x).
Proof. exact apply_mutator_noaccept_lemma. Qed.
Print Assumptions top_apply_mutator_noaccept.

Theorem top_apply_mutator_changed :
  forall (input mutator : Type) (nfiltered : mutator -> input -> nat)
      (cands : mutator -> nat -> input -> nat -> input -> list input) (accept : input -> bool)
      (redup : input -> input) (cexprs : input -> Z) (m : mutator) (x : input) (w : list input)
      (a : acc input),
    apply_mutator input mutator nfiltered cands accept redup cexprs m x w = Some a ->
    a_red a <> 0%Z -> exists (c : input) (new : list input), a_writes a = c :: new ++ w.
Proof. exact apply_mutator_changed_lemma. Qed.
Print Assumptions top_apply_mutator_changed.

(* (D1) Termination without a measure: gran_loop with g <= fuel (g is halved), hence apply_mutator and stage2. *)

Theorem top_gran_loop_some :
  forall (input mutator : Type) (nfiltered : mutator -> input -> nat)
      (cands : mutator -> nat -> input -> nat -> input -> list input) (accept : input -> bool)
      (redup : input -> input) (cexprs : input -> Z) (m : mutator) (fuel g : nat) 
      (a : acc input),
    g <= fuel ->
    exists a' : acc input, gran_loop input mutator nfiltered cands accept redup cexprs m fuel g a = Some a'.
Proof. exact gran_loop_some_lemma. Qed.
Print Assumptions top_gran_loop_some.

Theorem top_gran_loop_terminates :
  forall (input mutator : Type) (nfiltered : mutator -> input -> nat)
      (cands : mutator -> nat -> input -> nat -> input -> list input) (accept : input -> bool)
      (redup : input -> input) (cexprs : input -> Z) (m : mutator) (fuel g : nat) 
      (a : acc input),
    g <= fuel -> gran_loop input mutator nfiltered cands accept redup cexprs m fuel g a <> None.
Proof. exact gran_loop_terminates_lemma. Qed.
Print Assumptions top_gran_loop_terminates.

Theorem top_apply_mutator_some :
  forall (input mutator : Type) (nfiltered : mutator -> input -> nat)
      (cands : mutator -> nat -> input -> nat -> input -> list input) (accept : input -> bool)
      (redup : input -> input) (cexprs : input -> Z) (m : mutator) (x : input) (w : list input),
    exists a : acc input, apply_mutator input mutator nfiltered cands accept redup cexprs m x w = Some a.
Proof. exact apply_mutator_some_lemma. Qed.
Print Assumptions top_apply_mutator_some.

Theorem top_apply_mutator_terminates :
  forall (input mutator : Type) (nfiltered : mutator -> input -> nat)
      (cands : mutator -> nat -> input -> nat -> input -> list input) (accept : input -> bool)
      (redup : input -> input) (cexprs : input -> Z) (m : mutator) (x : input) (w : list input),
    apply_mutator input mutator nfiltered cands accept redup cexprs m x w <> None.
Proof. exact apply_mutator_terminates_lemma. Qed.
Print Assumptions top_apply_mutator_terminates.

Theorem top_stage2_some :
  forall (input mutator : Type) (nfiltered : mutator -> input -> nat)
      (cands : mutator -> nat -> input -> nat -> input -> list input) (accept : input -> bool)
      (redup : input -> input) (cexprs : input -> Z) (ms : list mutator) (x : input) 
      (w : list input) (r : Z),
    exists (x' : input) (w' : list input) (r' : Z),
      stage2 input mutator nfiltered cands accept redup cexprs ms x w r = Some (x', w', r').
Proof. exact stage2_some_lemma. Qed.
Print Assumptions top_stage2_some.

(* (D2) With a measure mu that re-duplication preserves and every accepted candidate lowers: the number of
   adoptions is at most the decrease of mu (so mu never increases). *)

Theorem top_check_seq_mu :
  forall (input mutator : Type) (cands : mutator -> nat -> input -> nat -> input -> list input)
      (accept : input -> bool) (redup : input -> input) (cexprs : input -> Z) (mu : input -> nat),
    (forall z : input, mu (redup z) = mu z) ->
    (forall (m : mutator) (g : nat) (x0 : input) (k : nat) (z c : input),
     In c (cands m g x0 k z) -> accept c = true -> mu c < mu z) ->
    forall (m : mutator) (g : nat) (x0 : input) (k todo : nat) (a : acc input),
    exists new : list input,
      a_writes (check_seq input mutator cands accept cexprs m g x0 k todo a) = new ++ a_writes a /\
      length new + mu (a_cur (check_seq input mutator cands accept cexprs m g x0 k todo a)) <= mu (a_cur a).
Proof. exact check_seq_mu_lemma. Qed.
Print Assumptions top_check_seq_mu.

Theorem top_gran_loop_mu :
  forall (input mutator : Type) (nfiltered : mutator -> input -> nat)
      (cands : mutator -> nat -> input -> nat -> input -> list input) (accept : input -> bool)
      (redup : input -> input) (cexprs : input -> Z) (mu : input -> nat),
    (forall z : input, mu (redup z) = mu z) ->
    (forall (m : mutator) (g : nat) (x0 : input) (k : nat) (z c : input),
     In c (cands m g x0 k z) -> accept c = true -> mu c < mu z) ->
    forall (m : mutator) (fuel g : nat) (a a' : acc input),
    gran_loop input mutator nfiltered cands accept redup cexprs m fuel g a = Some a' ->
    exists new : list input, a_writes a' = new ++ a_writes a /\ length new + mu (a_cur a') <= mu (a_cur a).
Proof. exact gran_loop_mu_lemma. Qed.
Print Assumptions top_gran_loop_mu.

Theorem top_apply_mutator_mu :
  forall (input mutator : Type) (nfiltered : mutator -> input -> nat)
      (cands : mutator -> nat -> input -> nat -> input -> list input) (accept : input -> bool)
      (redup : input -> input) (cexprs : input -> Z) (mu : input -> nat),
    (forall z : input, mu (redup z) = mu z) ->
    (forall (m : mutator) (g : nat) (x0 : input) (k : nat) (z c : input),
     In c (cands m g x0 k z) -> accept c = true -> mu c < mu z) ->
    forall (m : mutator) (x : input) (w : list input) (a : acc input),
    apply_mutator input mutator nfiltered cands accept redup cexprs m x w = Some a ->
    exists new : list input, a_writes a = new ++ w /\ length new + mu (a_cur a) <= mu x.
Proof. exact apply_mutator_mu_lemma. Qed.
Print Assumptions top_apply_mutator_mu.

Theorem top_stage1_mut_mu :
  forall (input mutator : Type) (nfiltered : mutator -> input -> nat)
      (cands : mutator -> nat -> input -> nat -> input -> list input) (accept : input -> bool)
      (redup : input -> input) (cexprs : input -> Z) (mu : input -> nat),
    (forall z : input, mu (redup z) = mu z) ->
    (forall (m : mutator) (g : nat) (x0 : input) (k : nat) (z c : input),
     In c (cands m g x0 k z) -> accept c = true -> mu c < mu z) ->
    forall (m : mutator) (fuel : nat) (x : input) (w : list input) (r : Z) (x' : input) 
      (w' : list input) (r' : Z),
    stage1_mut input mutator nfiltered cands accept redup cexprs m fuel x w r = Some (x', w', r') ->
    exists new : list input, w' = new ++ w /\ length new + mu x' <= mu x.
Proof. exact stage1_mut_mu_lemma. Qed.
Print Assumptions top_stage1_mut_mu.

Theorem top_stage1_mu :
  forall (input mutator : Type) (nfiltered : mutator -> input -> nat)
      (cands : mutator -> nat -> input -> nat -> input -> list input) (accept : input -> bool)
      (redup : input -> input) (cexprs : input -> Z) (mu : input -> nat),
    (forall z : input, mu (redup z) = mu z) ->
    (forall (m : mutator) (g : nat) (x0 : input) (k : nat) (z c : input),
     In c (cands m g x0 k z) -> accept c = true -> mu c < mu z) ->
    forall (ms : list mutator) (fuel : nat) (x : input) (w : list input) (r : Z) 
      (x' : input) (w' : list input) (r' : Z),
    stage1 input mutator nfiltered cands accept redup cexprs ms fuel x w r = Some (x', w', r') ->
    exists new : list input, w' = new ++ w /\ length new + mu x' <= mu x.
Proof. exact stage1_mu_lemma. Qed.
Print Assumptions top_stage1_mu.

Theorem top_stage2_mu :
  forall (input mutator : Type) (nfiltered : mutator -> input -> nat)
      (cands : mutator -> nat -> input -> nat -> input -> list input) (accept : input -> bool)
      (redup : input -> input) (cexprs : input -> Z) (mu : input -> nat),
    (forall z : input, mu (redup z) = mu z) ->
    (forall (m : mutator) (g : nat) (x0 : input) (k : nat) (z c : input),
     In c (cands m g x0 k z) -> accept c = true -> mu c < mu z) ->
    forall (ms : list mutator) (x : input) (w : list input) (r : Z) (x' : input) (w' : list input) (r' : Z),
    stage2 input mutator nfiltered cands accept redup cexprs ms x w r = Some (x', w', r') ->
    exists new : list input, w' = new ++ w /\ length new + mu x' <= mu x.
Proof. exact stage2_mu_lemma. Qed.
Print Assumptions top_stage2_mu.

Theorem top_reduce_mu :
  forall (input mutator : Type) (nfiltered : mutator -> input -> nat)
      (cands : mutator -> nat -> input -> nat -> input -> list input) (accept : input -> bool)
      (redup : input -> input) (cexprs : input -> Z) (mu : input -> nat),
    (forall z : input, mu (redup z) = mu z) ->
    (forall (m : mutator) (g : nat) (x0 : input) (k : nat) (z c : input),
     In c (cands m g x0 k z) -> accept c = true -> mu c < mu z) ->
    forall (s1 s2 : list mutator) (fuel : nat) (x : input) (w : list input) (y : input) (w' : list input),
    reduce input mutator nfiltered cands accept redup cexprs s1 s2 fuel x w = Some (y, w') ->
    exists new : list input, w' = new ++ w /\ length new + mu y <= mu x.
Proof. exact reduce_mu_lemma. Qed.
Print Assumptions top_reduce_mu.

(* (D3)/(D4) A non-zero counter means at least one adoption, hence a strictly smaller measure; so the loops of
   stage 1 and of reduce terminate with fuel > mu x, in particular reduce with fuel S (mu x). *)

Theorem top_apply_mutator_progress :
  forall (input mutator : Type) (nfiltered : mutator -> input -> nat)
      (cands : mutator -> nat -> input -> nat -> input -> list input) (accept : input -> bool)
      (redup : input -> input) (cexprs : input -> Z) (mu : input -> nat),
    (forall z : input, mu (redup z) = mu z) ->
    (forall (m : mutator) (g : nat) (x0 : input) (k : nat) (z c : input),
     In c (cands m g x0 k z) -> accept c = true -> mu c < mu z) ->
    forall (m : mutator) (x : input) (w : list input) (a : acc input),
    apply_mutator input mutator nfiltered cands accept redup cexprs m x w = Some a ->
    a_red a <> 0%Z ->
    (exists (c : input) (new : list input), a_writes a = c :: new ++ w) /\ mu (a_cur a) < mu x.
Proof. exact apply_mutator_progress_lemma. Qed.
Print Assumptions top_apply_mutator_progress.

Theorem top_round_progress :
  forall (input mutator : Type) (nfiltered : mutator -> input -> nat)
      (cands : mutator -> nat -> input -> nat -> input -> list input) (accept : input -> bool)
      (redup : input -> input) (cexprs : input -> Z) (mu : input -> nat),
    (forall z : input, mu (redup z) = mu z) ->
    (forall (m : mutator) (g : nat) (x0 : input) (k : nat) (z c : input),
     In c (cands m g x0 k z) -> accept c = true -> mu c < mu z) ->
    forall (s1 s2 : list mutator) (fuel : nat) (x : input) (w : list input) (x1 : input) 
      (w1 : list input) (r1 : Z) (x2 : input) (w2 : list input) (r2 : Z),
    stage1 input mutator nfiltered cands accept redup cexprs s1 fuel x w 0 = Some (x1, w1, r1) ->
    stage2 input mutator nfiltered cands accept redup cexprs s2 x1 w1 r1 = Some (x2, w2, r2) ->
    r2 <> 0%Z -> (exists (c : input) (new : list input), w2 = c :: new ++ w) /\ mu x2 < mu x.
Proof. exact round_progress_lemma. Qed.
Print Assumptions top_round_progress.

Theorem top_stage1_mut_some :
  forall (input mutator : Type) (nfiltered : mutator -> input -> nat)
      (cands : mutator -> nat -> input -> nat -> input -> list input) (accept : input -> bool)
      (redup : input -> input) (cexprs : input -> Z) (mu : input -> nat),
    (forall z : input, mu (redup z) = mu z) ->
    (forall (m : mutator) (g : nat) (x0 : input) (k : nat) (z c : input),
     In c (cands m g x0 k z) -> accept c = true -> mu c < mu z) ->
    forall (m : mutator) (fuel : nat) (x : input) (w : list input) (r : Z),
    mu x < fuel ->
    exists (x' : input) (w' : list input) (r' : Z),
      stage1_mut input mutator nfiltered cands accept redup cexprs m fuel x w r = Some (x', w', r').
Proof. exact stage1_mut_some_lemma. Qed.
Print Assumptions top_stage1_mut_some.

Theorem top_stage1_some :
  forall (input mutator : Type) (nfiltered : mutator -> input -> nat)
      (cands : mutator -> nat -> input -> nat -> input -> list input) (accept : input -> bool)
      (redup : input -> input) (cexprs : input -> Z) (mu : input -> nat),
    (forall z : input, mu (redup z) = mu z) ->
    (forall (m : mutator) (g : nat) (x0 : input) (k : nat) (z c : input),
     In c (cands m g x0 k z) -> accept c = true -> mu c < mu z) ->
    forall (ms : list mutator) (fuel : nat) (x : input) (w : list input) (r : Z),
    mu x < fuel ->
    exists (x' : input) (w' : list input) (r' : Z),
      stage1 input mutator nfiltered cands accept redup cexprs ms fuel x w r = Some (x', w', r').
Proof. exact stage1_some_lemma. Qed.
Print Assumptions top_stage1_some.

Theorem top_reduce_some :
  forall (input mutator : Type) (nfiltered : mutator -> input -> nat)
      (cands : mutator -> nat -> input -> nat -> input -> list input) (accept : input -> bool)
      (redup : input -> input) (cexprs : input -> Z) (mu : input -> nat),
    (forall z : input, mu (redup z) = mu z) ->
    (forall (m : mutator) (g : nat) (x0 : input) (k : nat) (z c : input),
     In c (cands m g x0 k z) -> accept c = true -> mu c < mu z) ->
    forall (s1 s2 : list mutator) (fuel : nat) (x : input) (w : list input),
    mu x < fuel ->
    exists (y : input) (w' : list input),
      reduce input mutator nfiltered cands accept redup cexprs s1 s2 fuel x w = Some (y, w').
Proof. exact reduce_some_lemma. Qed.
Print Assumptions top_reduce_some.

Theorem top_reduce_terminates :
  forall (input mutator : Type) (nfiltered : mutator -> input -> nat)
      (cands : mutator -> nat -> input -> nat -> input -> list input) (accept : input -> bool)
      (redup : input -> input) (cexprs : input -> Z) (mu : input -> nat),
    (forall z : input, mu (redup z) = mu z) ->
    (forall (m : mutator) (g : nat) (x0 : input) (k : nat) (z c : input),
     In c (cands m g x0 k z) -> accept c = true -> mu c < mu z) ->
    forall (s1 s2 : list mutator) (x : input) (w : list input),
    exists (y : input) (w' : list input),
      reduce input mutator nfiltered cands accept redup cexprs s1 s2 (S (mu x)) x w = Some (y, w').
Proof. exact reduce_terminates_lemma. Qed.
Print Assumptions top_reduce_terminates.

(* more fuel does not change a result *)

Theorem top_gran_loop_fuel :
  forall (input mutator : Type) (nfiltered : mutator -> input -> nat)
      (cands : mutator -> nat -> input -> nat -> input -> list input) (accept : input -> bool)
      (redup : input -> input) (cexprs : input -> Z) (m : mutator) (fuel fuel' g : nat) 
      (a a' : acc input),
    gran_loop input mutator nfiltered cands accept redup cexprs m fuel g a = Some a' ->
    fuel <= fuel' -> gran_loop input mutator nfiltered cands accept redup cexprs m fuel' g a = Some a'.
Proof. exact gran_loop_fuel_lemma. Qed.
Print Assumptions top_gran_loop_fuel.

Theorem top_stage1_mut_fuel :
  forall (input mutator : Type) (nfiltered : mutator -> input -> nat)
      (cands : mutator -> nat -> input -> nat -> input -> list input) (accept : input -> bool)
      (redup : input -> input) (cexprs : input -> Z) (m : mutator) (fuel fuel' : nat) 
      (x : input) (w : list input) (r : Z) (res : input * list input * Z),
    stage1_mut input mutator nfiltered cands accept redup cexprs m fuel x w r = Some res ->
    fuel <= fuel' -> stage1_mut input mutator nfiltered cands accept redup cexprs m fuel' x w r = Some res.
Proof. exact stage1_mut_fuel_lemma. Qed.
Print Assumptions top_stage1_mut_fuel.

Theorem top_stage1_fuel :
  forall (input mutator : Type) (nfiltered : mutator -> input -> nat)
      (cands : mutator -> nat -> input -> nat -> input -> list input) (accept : input -> bool)
      (redup : input -> input) (cexprs : input -> Z) (ms : list mutator) (fuel fuel' : nat) 
      (x : input) (w : list input) (r : Z) (res : input * list input * Z),
    stage1 input mutator nfiltered cands accept redup cexprs ms fuel x w r = Some res ->
    fuel <= fuel' -> stage1 input mutator nfiltered cands accept redup cexprs ms fuel' x w r = Some res.
Proof. exact stage1_fuel_lemma. Qed.
Print Assumptions top_stage1_fuel.

Theorem top_reduce_fuel :
  forall (input mutator : Type) (nfiltered : mutator -> input -> nat)
      (cands : mutator -> nat -> input -> nat -> input -> list input) (accept : input -> bool)
      (redup : input -> input) (cexprs : input -> Z) (s1 s2 : list mutator) (fuel fuel' : nat) 
      (x : input) (w : list input) (res : input * list input),
    reduce input mutator nfiltered cands accept redup cexprs s1 s2 fuel x w = Some res ->
    fuel <= fuel' -> reduce input mutator nfiltered cands accept redup cexprs s1 s2 fuel' x w = Some res.
Proof. exact reduce_fuel_lemma. Qed.
Print Assumptions top_reduce_fuel.

(* (E) An instance (Proofs/DdminTop/TopExample.v): lists of numbers, DropOne / DropAll, accepted iff 7 occurs,
   measure = length.  The hypotheses of (C) and (D) hold, and runs by computation. *)

Theorem top_ex_redup_length :
  forall z : list nat, length (ex_redup z) = length z.
Proof. exact ex_redup_length_lemma. Qed.
Print Assumptions top_ex_redup_length.

Theorem top_ex_redup_cexprs :
  forall z : list nat, ex_cexprs (ex_redup z) = ex_cexprs z.
Proof. exact ex_redup_cexprs_lemma. Qed.
Print Assumptions top_ex_redup_cexprs.

Theorem top_ex_mu_dec :
  forall (m : ex_mut) (g : nat) (x0 : list nat) (k : nat) (z c : list nat),
    In c (ex_cands m g x0 k z) -> ex_accept c = true -> length c < length z.
Proof. exact ex_mu_dec_lemma. Qed.
Print Assumptions top_ex_mu_dec.

Theorem top_ex_reduce_terminates :
  forall (s1 s2 : list ex_mut) (x : list nat) (w : list (list nat)),
    exists (y : list nat) (w' : list (list nat)), ex_reduce s1 s2 (S (length x)) x w = Some (y, w').
Proof. exact ex_reduce_terminates_lemma. Qed.
Print Assumptions top_ex_reduce_terminates.

Theorem top_ex_run1 :
  ex_reduce [DropOne] [DropAll] 7 [1; 2; 7; 3; 4; 5] [] =
    Some ([7], [[7]; [7; 5]; [7; 3; 5]; [7; 3; 4; 5]; [2; 7; 3; 4; 5]]).
Proof. exact ex_run1_lemma. Qed.
Print Assumptions top_ex_run1.

Theorem top_ex_run2 :
  ex_reduce [DropAll] [DropOne] 7 [1; 2; 7; 3; 4; 5] [] = Some ([7], [[7]; [2; 7]; [1; 2; 7]]).
Proof. exact ex_run2_lemma. Qed.
Print Assumptions top_ex_run2.

Theorem top_ex_run_fuel :
  ex_reduce [DropAll] [DropOne] 2 [1; 2; 7; 3; 4; 5] [] = Some ([7], [[7]; [2; 7]; [1; 2; 7]]) /\
    ex_reduce [DropAll] [DropOne] 1 [1; 2; 7; 3; 4; 5] [] = None.
Proof. exact ex_run_fuel_lemma. Qed.
Print Assumptions top_ex_run_fuel.

Theorem top_ex_apply :
  ex_apply DropAll [1; 2; 7; 3; 4; 5] [] =
    Some {| a_cur := [7]; a_writes := [[7]; [2; 7]; [1; 2; 7]]; a_red := 5 |}.
Proof. exact ex_apply_lemma. Qed.
Print Assumptions top_ex_apply.

Theorem top_ex_chain :
  chain ex_cands ex_accept (fun l : list nat => l) [1; 2; 7; 3; 4; 5]
      [[2; 7; 3; 4; 5]; [7; 3; 4; 5]; [7; 3; 5]; [7; 5]; [7]] [7].
Proof. exact ex_chain_lemma. Qed.
Print Assumptions top_ex_chain.

Theorem top_ex0_zero_net :
  apply_mutator (list nat) unit (fun (_ : unit) (x : list nat) => length x) ex0_cands ex_accept ex_redup
      ex_cexprs tt [7; 3] [] = Some {| a_cur := [7; 0]; a_writes := [[7; 0]]; a_red := 0 |}.
Proof. exact ex0_zero_net_lemma. Qed.
Print Assumptions top_ex0_zero_net.

Theorem top_ex0_stage1 :
  stage1_mut (list nat) unit (fun (_ : unit) (x : list nat) => length x) ex0_cands ex_accept ex_redup
      ex_cexprs tt 5 [7; 3; 4] [] 0 = Some ([7; 0; 0], [[7; 0; 0]; [7; 0; 4]], 0%Z).
Proof. exact ex0_stage1_lemma. Qed.
Print Assumptions top_ex0_stage1.

