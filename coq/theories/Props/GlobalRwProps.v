(* Properties of the simplifications of Model/GlobalRw.v (IntroduceFreshVariable, BVReduceBW, BVMergeReducedBW,
   StringContainsToConcat, EliminateVariable, RemoveConstructor, RemoveDatatype).  Statements only; proofs in
   Proofs/More4.  A simplification is a [gsimp] = GS ids struct fresh: replacements / deletions of nodes named by
   their position in the input, replacements of every node equal to a key, declarations to insert.
   (a) well-formedness: every replacement value and every declaration is well formed (Spec/StdReader.v) when the
       node is and the oracle values are -- the hypotheses of closed_apply_simp (Props/C15.v) on the values of the
       replacement map and on the declarations;
   (b) freshness (C15): the declarations are (declare-const name sort) with pairwise distinct names that the
       oracle [declared] (smtlib.is_declared_symbol) does not know, and each name is used in a replacement value;
   (c) EliminateVariable: occurs check, the eliminated key is a leaf that is not a constant, the replaced
       positions are exactly its non-defining occurrences;
   (d) an evaluated example per mutator; a string literal / a comment in the place of the name (nothing is
       proposed), and the inputs that show that the hypothesis "the node is well formed" of (a) is needed. *)
From DD Require Import Spec.StdReader Model.Rewrites Model.GlobalRw.
From DD Require Import Proofs.More4.Base Proofs.More4.Wf Proofs.More4.Fresh Proofs.More4.Elim Proofs.More4.Examples.
Local Open Scope list_scope.

(* the predicates of (a) and (b), unfolded *)
Theorem gsimp_wf_iff : forall g,
  gsimp_wf g <->
  (forall r, ((exists p, In (p, Some r) (gs_ids g)) \/ (exists k, In (k, Some r) (gs_struct g))) -> wf r = true) /\
  (forall d, In d (gs_fresh g) -> wf d = true).
Proof. exact gsimp_wf_unfold. Qed.
Print Assumptions gsimp_wf_iff.

Theorem gsimp_fresh_iff : forall declared g,
  gsimp_fresh declared g <->
  exists decls : list (str * sexp),
    gs_fresh g = map (fun ns => T [lf "declare-const"; L (fst ns); snd ns]) decls /\
    NoDup (map fst decls) /\
    forall n, In n (map fst decls) ->
      declared n = false /\
      exists r, ((exists p, In (p, Some r) (gs_ids g)) \/ (exists k, In (k, Some r) (gs_struct g))) /\ In (L n) (subterms r).
Proof. exact gsimp_fresh_unfold. Qed.
Print Assumptions gsimp_fresh_iff.

(* ================= (a) well-formedness ================= *)
Theorem rw_fresh_var_wf : forall gs vars isdef declared id here e l g,
  (forall x so, gs x = Some so -> wf so = true) ->
  rw_fresh_var gs vars isdef declared id here e = Some l -> In g l -> gsimp_wf g.
Proof. exact rw_fresh_var_closed. Qed.
Print Assumptions rw_fresh_var_wf.

Theorem rw_bv_reduce_bw_wf : forall gs bw declared here e l g,
  wf e = true ->
  (forall x so, gs x = Some so -> wf so = true) ->
  (forall s, nth_child e 1 = Some (L s) -> atom_ok s = true) ->      (* the declared name is a simple symbol (not needed, see below) *)
  rw_bv_reduce_bw gs bw declared here e = Some l -> In g l -> gsimp_wf g.
Proof. exact rw_bv_reduce_bw_closed. Qed.
Print Assumptions rw_bv_reduce_bw_wf.

Theorem rw_bv_merge_bw_wf : forall gs defs here e l g,
  wf e = true -> Forall (fun d => wf (d_body d) = true) defs ->
  rw_bv_merge_bw gs defs here e = Some l -> In g l -> gsimp_wf g.
Proof. exact rw_bv_merge_bw_closed. Qed.
Print Assumptions rw_bv_merge_bw_wf.

Theorem rw_str_contains_wf : forall declared e l g,
  wf e = true ->
  (forall s, nth_child e 1 = Some (L s) -> atom_ok s = true) ->      (* the first operand, if a leaf, is a simple symbol (not needed, see below) *)
  rw_str_contains declared e = Some l -> In g l -> gsimp_wf g.
Proof. exact rw_str_contains_closed. Qed.
Print Assumptions rw_str_contains_wf.

Theorem rw_elim_var_wf : forall input isdef e l g,
  wf e = true -> rw_elim_var input isdef e = Some l -> In g l -> gsimp_wf g.
Proof. exact rw_elim_var_closed. Qed.
Print Assumptions rw_elim_var_wf.

Theorem rw_remove_constructor_wf : forall here e l g,
  rw_remove_constructor here e = Some l -> In g l -> gsimp_wf g.
Proof. exact rw_remove_constructor_closed. Qed.
Print Assumptions rw_remove_constructor_wf.

Theorem rw_remove_datatype_wf : forall here e l g,
  rw_remove_datatype here e = Some l -> In g l -> gsimp_wf g.
Proof. exact rw_remove_datatype_closed. Qed.
Print Assumptions rw_remove_datatype_wf.

(* Since the mutators skip a string literal or a comment in the place of the name (BVReduceBW: the declared name
   starts with a double quote or a semicolon; StringContainsToConcat: the operand starts with a semicolon; quoted
   symbols and, for str.contains, constants were skipped before), the hypothesis on the name follows from the
   well-formedness of the node: a well-formed leaf that passes the guards is an atom.  The two theorems above hold
   without it. *)
Theorem rw_bv_reduce_bw_wf_strong : forall gs bw declared here e l g,
  wf e = true ->
  (forall x so, gs x = Some so -> wf so = true) ->
  rw_bv_reduce_bw gs bw declared here e = Some l -> In g l -> gsimp_wf g.
Proof. exact rw_bv_reduce_bw_closed_wf. Qed.
Print Assumptions rw_bv_reduce_bw_wf_strong.

Theorem rw_str_contains_wf_strong : forall declared e l g,
  wf e = true -> rw_str_contains declared e = Some l -> In g l -> gsimp_wf g.
Proof. exact rw_str_contains_closed_wf. Qed.
Print Assumptions rw_str_contains_wf_strong.

(* ... because a proposal is made only for an atom *)
Theorem rw_bv_reduce_bw_name_is_atom : forall gs bw declared here e l g,
  wf e = true -> rw_bv_reduce_bw gs bw declared here e = Some l -> In g l ->
  forall s, nth_child e 1 = Some (L s) -> atom_ok s = true.
Proof. exact rw_bv_reduce_bw_name_atom. Qed.
Print Assumptions rw_bv_reduce_bw_name_is_atom.

Theorem rw_str_contains_operand_is_atom : forall declared e l g,
  wf e = true -> rw_str_contains declared e = Some l -> In g l ->
  forall s, nth_child e 1 = Some (L s) -> atom_ok s = true.
Proof. exact rw_str_contains_operand_atom. Qed.
Print Assumptions rw_str_contains_operand_is_atom.

(* the former counterexamples (a string literal as the declared name, a comment as the declared name / as the
   operand): nothing is proposed any more *)
Theorem reduce_bw_string_name_nothing :
  wf (T [lf "declare-const"; L q_x; bv "8"]) = true /\
  rw_bv_reduce_bw (one_sort (L q_x) (bv "8")) (fun _ => Some 8%Z) (names []) [0]%nat (T [lf "declare-const"; L q_x; bv "8"])
  = Some [].
Proof. exact ex_reduce_bw_string_name. Qed.
Print Assumptions reduce_bw_string_name_nothing.

Theorem reduce_bw_comment_name_nothing :
  wf (T [lf "declare-const"; L cmt; bv "8"]) = true /\
  rw_bv_reduce_bw (one_sort (L cmt) (bv "8")) (fun _ => Some 8%Z) (names []) [0]%nat (T [lf "declare-const"; L cmt; bv "8"])
  = Some [].
Proof. exact ex_reduce_bw_comment_name. Qed.
Print Assumptions reduce_bw_comment_name_nothing.

Theorem str_contains_comment_nothing :
  wf (T [lf "str.contains"; L cmt; lf "t"]) = true /\
  rw_str_contains (names []) (T [lf "str.contains"; L cmt; lf "t"]) = Some [].
Proof. exact ex_str_contains_comment. Qed.
Print Assumptions str_contains_comment_nothing.

(* the hypothesis "the node is well formed" is needed: a leaf that is no token (|x, an unterminated quoted symbol)
   passes all guards and gives declarations that are not well formed *)
Theorem reduce_bw_not_wf_node :
  wf (T [lf "declare-const"; L bar_x; bv "8"]) = false /\
  match rw_bv_reduce_bw (one_sort (L bar_x) (bv "8")) (fun _ => Some 8%Z) (names []) [0]%nat (T [lf "declare-const"; L bar_x; bv "8"]) with
  | Some (GS _ _ [d] :: _) => d = T [lf "declare-const"; L (95%N :: bar_x); bv "1"] /\ wf d = false
  | _ => False
  end.
Proof. exact ex_reduce_bw_not_wf_node. Qed.
Print Assumptions reduce_bw_not_wf_node.

Theorem str_contains_not_wf_node :
  wf (T [lf "str.contains"; L bar_x; lf "t"]) = false /\
  match rw_str_contains (names []) (T [lf "str.contains"; L bar_x; lf "t"]) with
  | Some [GS _ _ [d1; d2]] => d1 = T [lf "declare-const"; L (bar_x ++ lit "_prefix"); lf "String"] /\ wf d1 = false /\ wf d2 = false
  | _ => False
  end.
Proof. exact ex_str_contains_not_wf_node. Qed.
Print Assumptions str_contains_not_wf_node.

(* ================= (b) freshness ================= *)
Theorem rw_fresh_var_freshness : forall gs vars isdef declared id here e l g,
  rw_fresh_var gs vars isdef declared id here e = Some l -> In g l -> gsimp_fresh declared g.
Proof. exact rw_fresh_var_fresh. Qed.
Print Assumptions rw_fresh_var_freshness.

Theorem rw_bv_reduce_bw_freshness : forall gs bw declared here e l g,
  rw_bv_reduce_bw gs bw declared here e = Some l -> In g l -> gsimp_fresh declared g.
Proof. exact rw_bv_reduce_bw_fresh. Qed.
Print Assumptions rw_bv_reduce_bw_freshness.

Theorem rw_str_contains_freshness : forall declared e l g,
  rw_str_contains declared e = Some l -> In g l -> gsimp_fresh declared g.
Proof. exact rw_str_contains_fresh. Qed.
Print Assumptions rw_str_contains_freshness.

(* the other four introduce no declaration *)
(* BVMergeReducedBW proposes nothing when the inner definition (the one node[-1][-1] names) refers to itself,
   directly or not (is_recursive_defined_fun): whenever the mutator answers at all ... *)
Theorem rw_bv_merge_bw_skips_recursive : forall gs defs here e n l,
  rw_bv_merge_bw gs defs here e = Some l ->
  last_of_last e = LLnode n ->
  (match n with L s => is_recursive defs s | T (L h :: _) => is_recursive defs h | _ => false end) = true ->
  l = [].
Proof. exact rw_bv_merge_bw_skips_recursive_proof. Qed.
Print Assumptions rw_bv_merge_bw_skips_recursive.

(* ... for an inner definition named by a leaf ... *)
Theorem rw_bv_merge_bw_skips_recursive_leaf : forall gs defs here e s l,
  rw_bv_merge_bw gs defs here e = Some l -> last_of_last e = LLnode (L s) -> is_recursive defs s = true -> l = [].
Proof. exact rw_bv_merge_bw_skips_recursive_leaf_proof. Qed.
Print Assumptions rw_bv_merge_bw_skips_recursive_leaf.

(* ... and with the earlier guards spelled out: the answer is the empty list (no exception) *)
Theorem rw_bv_merge_bw_recursive_guard : forall gs defs here h n1 n2 nsort rest so b1 b2 z1 n,
  let e := T (h :: n1 :: n2 :: nsort :: rest) in
  is_op e "define-fun" = true -> len n2 = 0%nat -> gs n1 = Some so -> is_bv_sort so = true ->
  zext_def defs n1 = Some (Some b1) -> last_of_last e = LLnode n -> zext_def defs n = Some (Some b2) ->
  zext_amount b1 = Some z1 ->
  (match n with L s => is_recursive defs s | T (L h :: _) => is_recursive defs h | _ => false end) = true ->
  rw_bv_merge_bw gs defs here e = Some [].
Proof. exact rw_bv_merge_bw_recursive_guard_proof. Qed.
Print Assumptions rw_bv_merge_bw_recursive_guard.

Theorem rw_bv_merge_bw_no_declaration : forall gs defs here e l g,
  rw_bv_merge_bw gs defs here e = Some l -> In g l -> gs_fresh g = [].
Proof. exact rw_bv_merge_bw_nofresh. Qed.
Print Assumptions rw_bv_merge_bw_no_declaration.

Theorem rw_elim_var_no_declaration : forall input isdef e l g,
  rw_elim_var input isdef e = Some l -> In g l -> gs_fresh g = [].
Proof. exact rw_elim_var_nofresh. Qed.
Print Assumptions rw_elim_var_no_declaration.

Theorem rw_remove_constructor_no_declaration : forall here e l g,
  rw_remove_constructor here e = Some l -> In g l -> gs_fresh g = [].
Proof. exact rw_remove_constructor_nofresh. Qed.
Print Assumptions rw_remove_constructor_no_declaration.

Theorem rw_remove_datatype_no_declaration : forall here e l g,
  rw_remove_datatype here e = Some l -> In g l -> gs_fresh g = [].
Proof. exact rw_remove_datatype_nofresh. Qed.
Print Assumptions rw_remove_datatype_no_declaration.

Theorem no_declaration_is_fresh : forall declared g, gs_fresh g = [] -> gsimp_fresh declared g.
Proof. exact gsimp_fresh_nil. Qed.
Print Assumptions no_declaration_is_fresh.

(* the shapes of the simplifications with declarations *)
Theorem rw_fresh_var_shape : forall gs vars isdef declared id here e l g,
  rw_fresh_var gs vars isdef declared id here e = Some l -> In g l ->
  exists so, gs e = Some so /\ declared (fresh_name id) = false /\
             g = GS [(here, Some (L (fresh_name id)))] [] [mk_decl (fresh_name id) so].
Proof. exact rw_fresh_var_inv. Qed.
Print Assumptions rw_fresh_var_shape.

Theorem rw_bv_reduce_bw_shape : forall gs bw declared here e l g,
  rw_bv_reduce_bw gs bw declared here e = Some l -> In g l ->
  exists h s rest so w b,
    e = T (h :: L s :: rest) /\ gs (L s) = Some so /\ declared (95%N :: s) = false /\ is_piped s = false /\
    g = GS [(here, Some (T [lf "define-fun"; L s; T []; so; T [idx_head "zero_extend" [(w - b)%Z]; L (95%N :: s)]]))] []
           [mk_decl (95%N :: s) (bv_sort_of b)].
Proof. exact rw_bv_reduce_bw_inv. Qed.
Print Assumptions rw_bv_reduce_bw_shape.

Theorem rw_str_contains_shape : forall declared e l g,
  rw_str_contains declared e = Some l -> In g l ->
  exists h v x,
    e = T [h; L v; x] /\ declared (v ++ lit "_prefix") = false /\ declared (v ++ lit "_suffix") = false /\
    is_const_leaf v = false /\ is_piped v = false /\
    g = GS [] [(e, Some (T [lf "="; L v; T [lf "str.++"; L (v ++ lit "_prefix"); x; L (v ++ lit "_suffix")]]))]
           [mk_decl (v ++ lit "_prefix") (lf "String"); mk_decl (v ++ lit "_suffix") (lf "String")].
Proof. exact rw_str_contains_inv. Qed.
Print Assumptions rw_str_contains_shape.

(* ... with the guards on a leading double quote / semicolon of the leaf the names are derived from *)
Theorem rw_bv_reduce_bw_shape_guard : forall gs bw declared here e l g,
  rw_bv_reduce_bw gs bw declared here e = Some l -> In g l ->
  exists h s rest so w b,
    e = T (h :: L s :: rest) /\ gs (L s) = Some so /\ declared (95%N :: s) = false /\ is_piped s = false /\
    match s with c :: _ => N.eqb c cDQ || N.eqb c cSEMI | [] => false end = false /\
    g = GS [(here, Some (T [lf "define-fun"; L s; T []; so; T [idx_head "zero_extend" [(w - b)%Z]; L (95%N :: s)]]))] []
           [mk_decl (95%N :: s) (bv_sort_of b)].
Proof. exact rw_bv_reduce_bw_inv_guard. Qed.
Print Assumptions rw_bv_reduce_bw_shape_guard.

Theorem rw_str_contains_shape_guard : forall declared e l g,
  rw_str_contains declared e = Some l -> In g l ->
  exists h v x,
    e = T [h; L v; x] /\ declared (v ++ lit "_prefix") = false /\ declared (v ++ lit "_suffix") = false /\
    is_const_leaf v = false /\ is_piped v = false /\
    match v with c :: _ => N.eqb c cSEMI | [] => false end = false /\
    g = GS [] [(e, Some (T [lf "="; L v; T [lf "str.++"; L (v ++ lit "_prefix"); x; L (v ++ lit "_suffix")]]))]
           [mk_decl (v ++ lit "_prefix") (lf "String"); mk_decl (v ++ lit "_suffix") (lf "String")].
Proof. exact rw_str_contains_inv_guard. Qed.
Print Assumptions rw_str_contains_shape_guard.

(* ================= (c) EliminateVariable ================= *)
Theorem occurrences_are_positions : forall t input p, In p (occs_input t input) <-> get_in input p = Some t.
Proof. exact occs_input_spec. Qed.
Print Assumptions occurrences_are_positions.

Theorem rw_elim_var_sound : forall input isdef e l g,
  rw_elim_var input isdef e = Some l -> In g l ->
  exists t c ps,
    g = GS (map (fun p => (p, Some c)) ps) [] [] /\ ps <> [] /\
    In t (args_of e) /\ In c (args_of e) /\
    is_leaf t = true /\ is_const t = false /\               (* the key is a leaf that is not a constant *)
    ~ In t (subterms c) /\                                  (* occurs check *)
    (forall p, In p ps <-> get_in input p = Some t /\ isdef p = false).
Proof. exact rw_elim_var_sound_proof. Qed.
Print Assumptions rw_elim_var_sound.

Theorem rw_elim_var_positions_distinct : forall input isdef e l g,
  rw_elim_var input isdef e = Some l -> In g l -> NoDup (map fst (gs_ids g)).
Proof. exact rw_elim_var_keys_distinct. Qed.
Print Assumptions rw_elim_var_positions_distinct.

(* ================= (d) examples ================= *)
Theorem fresh_var_example :
  rw_fresh_var (one_sort t_plus (lf "Int")) [(lit "i", Some (-1)%Z)] false (names []) 17 [2; 1]%nat t_plus
  = Some [GS [([2; 1]%nat, Some (lf "x17__fresh"))] [] [decl "x17__fresh" (lf "Int")]].
Proof. exact ex_fresh_var. Qed.
Print Assumptions fresh_var_example.

Theorem reduce_bw_example :
  rw_bv_reduce_bw (one_sort (lf "x") (bv "8")) (fun _ => Some 8%Z) (names []) [0]%nat (T [lf "declare-const"; lf "x"; bv "8"])
  = Some [reduced "1" "7"; reduced "2" "6"; reduced "4" "4"; reduced "7" "1"].
Proof. exact ex_reduce_bw. Qed.
Print Assumptions reduce_bw_example.

Theorem merge_bw_example :
  rw_bv_merge_bw (one_sort (lf "w") (bv "8")) defs_w [2]%nat (T [lf "define-fun"; lf "w"; T []; bv "8"; zx "4" (lf "_w")])
  = Some [GS [([2]%nat, Some (T [lf "define-fun"; lf "w"; T []; bv "8"; zx "6" (lf "__w")]))] [] []].
Proof. exact ex_merge_bw. Qed.
Print Assumptions merge_bw_example.

(* the inner definition is recursive: a := ((_ zero_extend 2) a), b := ((_ zero_extend 1) a); nothing for the definition of b *)
Theorem merge_bw_recursive_example :
  is_recursive defs_rec (lit "a") = true /\
  last_of_last (T [lf "define-fun"; lf "b"; T []; bv "8"; zx "1" (lf "a")]) = LLnode (lf "a") /\
  rw_bv_merge_bw (one_sort (lf "b") (bv "8")) defs_rec [1]%nat (T [lf "define-fun"; lf "b"; T []; bv "8"; zx "1" (lf "a")])
  = Some [].
Proof. exact ex_merge_bw_recursive. Qed.
Print Assumptions merge_bw_recursive_example.

Theorem str_contains_example :
  rw_str_contains (names []) (T [lf "str.contains"; lf "s"; lf "t"])
  = Some [GS [] [(T [lf "str.contains"; lf "s"; lf "t"],
                  Some (T [lf "="; lf "s"; T [lf "str.++"; lf "s_prefix"; lf "t"; lf "s_suffix"]]))]
             [decl "s_prefix" (lf "String"); decl "s_suffix" (lf "String")]].
Proof. exact (proj1 ex_str_contains). Qed.
Print Assumptions str_contains_example.

Theorem elim_var_example :
  rw_elim_var ex_input ex_isdef (T [lf "="; lf "x"; T [lf "f"; lf "y"]])
  = Some [GS [([1; 1; 1]%nat, Some (T [lf "f"; lf "y"])); ([2; 1; 1]%nat, Some (T [lf "f"; lf "y"]));
              ([2; 1; 2; 1]%nat, Some (T [lf "f"; lf "y"]))] [] []].
Proof. exact (proj1 ex_elim_var). Qed.
Print Assumptions elim_var_example.

Theorem remove_constructor_example :
  rw_remove_constructor [3]%nat dts = Some [del_at [3; 2; 0; 0]%nat; del_at [3; 2; 0; 1]%nat; del_at [3; 2; 1; 0]%nat].
Proof. exact (proj1 (proj2 ex_remove_constructor)). Qed.
Print Assumptions remove_constructor_example.

Theorem remove_datatype_example :
  rw_remove_datatype [3]%nat dts
  = Some [GS [([3; 1; 0]%nat, None); ([3; 2; 0]%nat, None)] [] []; GS [([3; 1; 1]%nat, None); ([3; 2; 1]%nat, None)] [] []].
Proof. exact ex_remove_datatype. Qed.
Print Assumptions remove_datatype_example.
