(* C10: runs exceeding the time or memory limit are rejected (decision part).
   The child either terminates within the limits (a CPU/memory limit kills it
   with a signal = negative exit code) or overruns the wall-clock limit, in
   which case execute kills it and returns the record (None, None, None). *)
From DD Require Import Model.Exec Proofs.Accept.

(* a candidate that overruns is rejected whenever the golden run terminated *)
Theorem timeout_rejected : forall c g gcc rcc,
  check (cfg_of c) (run_of g) gcc timed_out rcc = Ok false.
Proof. exact timeout_rejected_lemma. Qed.
Print Assumptions timeout_rejected.

Theorem timeout_cc_rejected : forall c g gcc r b,
  has_cc c = true -> check (cfg_of c) (run_of g) (run_of gcc) r timed_out = Ok b -> b = false.
Proof. exact timeout_cc_rejected_lemma. Qed.
Print Assumptions timeout_cc_rejected.

(* ... unless the golden run ended the same way *)
Theorem same_way_accepted : forall io ie,
  matches_golden timed_out timed_out (VBool io) (VBool ie) VNone VNone = Ok true.
Proof. exact same_way_accepted_lemma. Qed.
Print Assumptions same_way_accepted.

(* a run killed by a signal (CPU limit, memory exhaustion) has another exit code
   than a golden run that exited normally, hence is rejected: instance of accept_iff *)
Theorem different_exit_rejected : forall c g gcc r rcc,
  wf_ccfg c = true -> code r <> code g ->
  check (cfg_of c) (run_of g) (run_of gcc) (run_of r) (run_of rcc) = Ok false.
Proof.
  intros c g gcc r rcc Hwf Hne. rewrite accept_iff_lemma by exact Hwf.
  unfold accept_spec, run_ok. destruct (Z.eqb_spec (code r) (code g)); [contradiction|reflexivity].
Qed.
Print Assumptions different_exit_rejected.

Theorem timeout_record_facts :
  fact_timeout_record = true /\ fact_kill_on_timeout = true /\ fact_communicate_timeout = true.
Proof. repeat split; reflexivity. Qed.
Print Assumptions timeout_record_facts.
