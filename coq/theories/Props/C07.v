(* C07 property theorems (placeholder until the round-trip development lands). *)
From DD Require Import Model.Lexer Model.Writer.
Theorem w_check_eq_default : forall es, w_check es = w_default es.
Proof. reflexivity. Qed.
Print Assumptions w_check_eq_default.
