(* C07 property theorems: rendering and re-parsing is the identity, in every
   output mode.  Proofs are in Proofs/Lex. *)
From DD Require Import Model.Lexer Model.Writer Spec.StdReader.
From DD Require Import Proofs.Lex.Writers Proofs.Lex.Range.

Theorem w_check_eq_default : forall es, w_check es = w_default es.
Proof. exact w_check_eq_default_proof. Qed.
Print Assumptions w_check_eq_default.

Theorem parse_w_check : forall es, forallb wf es = true -> parse (w_check es) = es.
Proof. exact parse_w_check_proof. Qed.
Print Assumptions parse_w_check.

Theorem parse_w_default : forall es, forallb wf es = true -> parse (w_default es) = es.
Proof. exact parse_w_default_proof. Qed.
Print Assumptions parse_w_default.

Theorem parse_w_pretty : forall es, forallb wf es = true -> parse (w_pretty es) = es.
Proof. exact parse_w_pretty_proof. Qed.
Print Assumptions parse_w_pretty.

Theorem parse_w_wrap : forall es, forallb wf es = true -> parse (w_wrap es) = es.
Proof. exact parse_w_wrap_proof. Qed.
Print Assumptions parse_w_wrap.

Theorem tokens_agree : forall es, forallb wf es = true ->
  tokens_of (w_check es) (flats es) /\ tokens_of (w_default es) (flats es) /\
  tokens_of (w_pretty es) (flats es) /\ tokens_of (w_wrap es) (flats es).
Proof. exact tokens_agree_proof. Qed.
Print Assumptions tokens_agree.

(* the hypothesis is satisfiable on nested lists holding a string literal with
   a parenthesis, a quoted symbol with a space, comments (one ended by CR) and
   an empty list *)
Example parse_w_ex :
  let es := [T [L [97%N; 35%N]; L [cDQ; cLP; cDQ; cDQ; cDQ];
                L [cSEMI; 120%N; cRP; cLF]; L [cSEMI; 121%N; cCR];
                T [T []; L [cBAR; cSP; cDQ; cBAR]; L [98%N]]];
             L [cSEMI; cLF]; T [L [99%N]; L [100%N]]] in
  forallb wf es = true /\
  parse (w_check es) = es /\ parse (w_pretty es) = es /\ parse (w_wrap es) = es.
Proof. vm_compute. repeat split; reflexivity. Qed.

(* ---- range of the parser ---- *)

Theorem parser_range : forall t, forallb wf (parse t) = true.
Proof. exact parser_range_proof. Qed.
Print Assumptions parser_range.

Theorem parsed_roundtrip_check : forall t, parse (w_check (parse t)) = parse t.
Proof. exact parsed_roundtrip_check_proof. Qed.
Print Assumptions parsed_roundtrip_check.

Theorem parsed_roundtrip_default : forall t, parse (w_default (parse t)) = parse t.
Proof. exact parsed_roundtrip_default_proof. Qed.
Print Assumptions parsed_roundtrip_default.

Theorem parsed_roundtrip_pretty : forall t, parse (w_pretty (parse t)) = parse t.
Proof. exact parsed_roundtrip_pretty_proof. Qed.
Print Assumptions parsed_roundtrip_pretty.

Theorem parsed_roundtrip_wrap : forall t, parse (w_wrap (parse t)) = parse t.
Proof. exact parsed_roundtrip_wrap_proof. Qed.
Print Assumptions parsed_roundtrip_wrap.

(* a text ending inside a comment: the parser appends the LF, so the last leaf
   is a well-formed comment; an unbalanced text still parses into the range.
   A comment cut off inside a list that is still open is dropped with it. *)
Example parsed_roundtrip_ex :
  let t := [cLP; 97%N; cSP; cDQ; cRP; cDQ; cRP; cRP; cSEMI; 120%N] in
  parse t = [T [L [97%N]; L [cDQ; cRP; cDQ]]; L [cSEMI; 120%N; cLF]] /\
  forallb wf (parse t) = true /\
  parse (w_pretty (parse t)) = parse t.
Proof. vm_compute. repeat split; reflexivity. Qed.

Example parsed_open_list_ex :
  let t := [97%N; cSP; cLP; 98%N; cSP; cSEMI; 120%N] in
  parse t = [L [97%N]] /\ forallb wf (parse t) = true.
Proof. vm_compute. repeat split; reflexivity. Qed.
