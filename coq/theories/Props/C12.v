(* C12 property theorems: Node equality, pickling, deep copy, traversals.
   Proofs are in Proofs/Node. *)
From DD Require Import Model.NodeEq Model.Pickle Model.Copy Model.Trav.
From DD Require Import Proofs.Node.EqSpec Proofs.Node.EqSm Proofs.Node.PickleRT
  Proofs.Node.CopySpec Proofs.Node.TravSpec.
From Coq Require Import Permutation.

(* 1a *)
Theorem eq_spec : forall hstr htup a b,
  hash_ok hstr htup a = true -> hash_ok hstr htup b = true -> coherent a b ->
  (node_eq hstr a b = true <-> shape a = shape b).
Proof. exact EqSpec.eq_spec. Qed.
Print Assumptions eq_spec.

Theorem eq_complete : forall hstr htup a b,
  hash_ok hstr htup a = true -> hash_ok hstr htup b = true ->
  shape a = shape b -> node_eq hstr a b = true.
Proof. exact EqSpec.eq_complete. Qed.
Print Assumptions eq_complete.

(* 1b *)
Theorem eq_hash : forall hstr htup a b,
  hash_ok hstr htup a = true -> hash_ok hstr htup b = true ->
  shape a = shape b -> nhash hstr a = nhash hstr b.
Proof. exact EqSpec.eq_hash. Qed.
Print Assumptions eq_hash.

(* 1c *)
Theorem eq_sm_refines : forall hstr a b,
  node_eq_sm hstr (2 * (nsize a + nsize b) + 2) a b = Some (node_eq hstr a b).
Proof. exact EqSm.eq_sm_refines. Qed.
Print Assumptions eq_sm_refines.

Theorem eq_sm_stacks : forall hstr fuel vs vo,
  length vs = length vo -> nsizes vs < fuel ->
  eq_sm hstr fuel vs vo = Some (forallb2 (node_eq hstr) vs vo).
Proof. exact EqSm.eq_sm_stacks. Qed.
Print Assumptions eq_sm_stacks.

(* 1d *)
Theorem eq_refl_id : forall hstr a b, nid a = nid b -> node_eq hstr a b = true.
Proof. exact EqSpec.eq_refl_id. Qed.
Print Assumptions eq_refl_id.

Theorem eq_sym : forall hstr a b, node_eq hstr a b = node_eq hstr b a.
Proof. exact EqSpec.node_eq_sym. Qed.
Print Assumptions eq_sym.

(* 2 *)
Theorem pickle_roundtrip : forall hstr htup n next,
  hash_ok hstr htup n = true -> (forall i, In i (ids n) -> (0 < i)%Z) ->
  unpk hstr htup (pk n) next = Some n.
Proof. exact PickleRT.pickle_roundtrip. Qed.
Print Assumptions pickle_roundtrip.

Theorem pickle_no_alloc : forall hstr htup n next,
  hash_ok hstr htup n = true -> (forall i, In i (ids n) -> (0 < i)%Z) ->
  unpk_aux hstr htup (pk n) [(None, [])] next = Some ([(None, [n])], next).
Proof. exact PickleRT.pickle_no_alloc. Qed.
Print Assumptions pickle_no_alloc.

(* 3 *)
Theorem copy_shape : forall hstr htup next n,
  shape (fst (copy hstr htup next n)) = shape n.
Proof. exact CopySpec.copy_shape. Qed.
Print Assumptions copy_shape.

Theorem copy_fresh : forall hstr htup next n i,
  In i (ids (fst (copy hstr htup next n))) -> (next < i <= snd (copy hstr htup next n))%Z.
Proof. exact CopySpec.copy_fresh. Qed.
Print Assumptions copy_fresh.

Theorem copy_nodup : forall hstr htup next n,
  NoDup (ids (fst (copy hstr htup next n))).
Proof. exact CopySpec.copy_nodup. Qed.
Print Assumptions copy_nodup.

Theorem copy_hash_ok : forall hstr htup next n,
  hash_ok hstr htup (fst (copy hstr htup next n)) = true.
Proof. exact CopySpec.copy_hash_ok. Qed.
Print Assumptions copy_hash_ok.

Theorem copy_equal : forall hstr htup next n,
  hash_ok hstr htup n = true -> (forall i, In i (ids n) -> (i <= next)%Z) ->
  node_eq hstr (fst (copy hstr htup next n)) n = true.
Proof. exact CopySpec.copy_equal. Qed.
Print Assumptions copy_equal.

(* 4a *)
Theorem dfs_preorder : forall l, dfs 0 l = flat_map preorder l.
Proof. exact TravSpec.dfs_preorder. Qed.
Print Assumptions dfs_preorder.

(* 4b *)
Theorem bfs_spec : forall md l, bfs md l = Some (bfs_levels (heights l) md 1 l).
Proof. exact TravSpec.bfs_spec. Qed.
Print Assumptions bfs_spec.

(* 4c *)
Theorem visit_once : forall l r, bfs 0 l = Some r -> Permutation r (dfs 0 l).
Proof. exact TravSpec.visit_once. Qed.
Print Assumptions visit_once.

(* 4d *)
Theorem count_nodes_spec : forall l, count_nodes l = length (dfs 0 l).
Proof. exact TravSpec.count_nodes_spec. Qed.
Print Assumptions count_nodes_spec.

Theorem count_exprs_spec : forall l,
  count_exprs l = length (filter (fun n => negb (n_is_leaf n)) (dfs 0 l)).
Proof. exact TravSpec.count_exprs_spec. Qed.
Print Assumptions count_exprs_spec.

(* 4e *)
Theorem dfs_depth_limited : forall md l, incl (dfs md l) (dfs 0 l).
Proof. exact TravSpec.dfs_depth_limited. Qed.
Print Assumptions dfs_depth_limited.
