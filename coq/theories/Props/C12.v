(* C12 property theorems (placeholder until the node development lands). *)
From DD Require Import Base.Node.
Theorem shape_children_leaf : forall i s, children (NL i s) = [].
Proof. reflexivity. Qed.
Print Assumptions shape_children_leaf.
