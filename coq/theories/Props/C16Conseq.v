(* C16, the consequence: replacements by default constants, by existing variables and by fresh variables "of the same
   sort" are well-sorted.
   Models: Model/Defaults.v (get_default_constants, get_variables_with_sort and the tables of collect_information they
   read, as functions of the script; tied to the implementation by harness/conseqcorr.py, dispatch 160-165),
   Model/OracleRw.v (Constants, ReplaceByVariable), Model/GlobalRw.v (IntroduceFreshVariable), Model/Smtlib.v (the sort
   oracle).  Specification: Spec/Typing.v (type_of, decl_env).
   Predicates (Proofs/Conseq/ConseqDefs.v): wf_sort, canon_sort, dtc_typed, declared_once, dt_decls_ok.
   Proofs: Proofs/Conseq/*.v. *)
From DD Require Import Model.Defaults Model.OracleRw Model.GlobalRw Spec.Typing.
From DD Require Import Proofs.Sort.DecRT Proofs.Sort.SortBase Proofs.Sort.TypeApp Proofs.Sort.SortHyps Proofs.Sort.TableChecks
  Proofs.Sort.Width Proofs.Sort.SortSound Proofs.Sort.Decls
  Proofs.Conseq.ConseqDefs Proofs.Conseq.DefaultsTyped Proofs.Conseq.VarsTyped Proofs.Conseq.DtTyped Proofs.Conseq.Compose.
Local Open Scope list_scope.

(* (a) every default constant of a well-formed sort is a term of that sort (of its expansion for Float16..Float128) *)
Theorem default_constants_typed : forall g dtc s l c,
  consts_unbound g -> dtc_typed dtc g -> wf_sort s = true ->
  default_constants dtc s = Some l -> In c l -> type_of g c = Some (canon_sort s).
Proof. exact default_constants_typed_proof. Qed.
Print Assumptions default_constants_typed.

(* canon_sort is the identity except on the four abbreviations *)
Theorem canon_sort_id : forall s, (forall x, s = L x -> fp_leaf_widths x = None) -> canon_sort s = s.
Proof. intros [x | l] H; [| reflexivity]. cbn [canon_sort]. now rewrite (H x eq_refl). Qed.
Print Assumptions canon_sort_id.

(* the table of datatype constants that collect_information builds satisfies the hypothesis of (a) *)
Theorem dt_constants_typed : forall script,
  dt_decls_ok script = true -> dtc_typed (dt_constants script) (decl_env script).
Proof. exact dt_constants_typed_proof. Qed.
Print Assumptions dt_constants_typed.

(* (b) every variable offered for a sort is a constant of that sort *)
Theorem variables_with_sort_typed : forall script s v,
  declared_once script = true -> In v (variables_with_sort script s) ->
  type_of (decl_env script) (L v) = Some s.
Proof. exact variables_with_sort_typed_proof. Qed.
Print Assumptions variables_with_sort_typed.

(* (c) the compositions with the sort oracle, under the hypotheses of get_sort_sound *)
Theorem constants_replacement_well_sorted : forall I g dtc e idx isdef s props r,
  lookup_agrees I g -> consts_unbound g -> ops_unbound g -> sorts_canon I -> cons_agree I g ->
  dtc_typed dtc g ->
  type_of g e = Some s -> wf_sort s = true ->
  rw_constants isdef (get_sort I idx e) (dc_of dtc (get_sort I idx e)) e = Some props ->
  In r props -> type_of g r = Some (canon_sort s).
Proof. exact constants_replacement_proof. Qed.
Print Assumptions constants_replacement_well_sorted.

(* bs: the symbols bound by the binders above the replaced term; vars: any sublist of the variables of the sort (the
   mutator drops the defined functions) *)
Theorem replace_by_variable_well_sorted : forall script I bs e idx inc isdef vars s props r,
  lookup_agrees I (bind_vars (decl_env script) bs) -> consts_unbound (bind_vars (decl_env script) bs) ->
  ops_unbound (bind_vars (decl_env script) bs) -> sorts_canon I -> cons_agree I (bind_vars (decl_env script) bs) ->
  declared_once script = true ->
  (forall v, In v (const_names script) -> assoc v bs = None) ->
  incl vars (vars_of script (get_sort I idx e)) ->
  type_of (bind_vars (decl_env script) bs) e = Some s ->
  rw_replace_by_var inc isdef (get_sort I idx e) vars e = Some props ->
  In r props -> type_of (bind_vars (decl_env script) bs) r = Some s.
Proof. exact replace_by_variable_proof. Qed.
Print Assumptions replace_by_variable_well_sorted.

(* the one proposal of IntroduceFreshVariable declares its variable with the sort of the replaced term: wherever the
   declaration is inserted (pre, post), below whatever binders (bs) that do not bind the fresh name, the variable has
   that sort unless a later command declares the name again *)
Theorem fresh_variable_well_sorted : forall I g idx vars isdef declared id here e s sims sim,
  lookup_agrees I g -> consts_unbound g -> ops_unbound g -> sorts_canon I -> cons_agree I g ->
  type_of g e = Some s ->
  rw_fresh_var (get_sort I idx) vars isdef declared id here e = Some sims -> In sim sims ->
  sim = GS [(here, Some (L (fresh_name id)))] [] [mk_decl (fresh_name id) s] /\
  declared (fresh_name id) = false /\
  forall pre post bs,
    assoc (fresh_name id) bs = None -> assoc (fresh_name id) (rev (const_pairs post)) = None ->
    type_of (bind_vars (decl_env (pre ++ mk_decl (fresh_name id) s :: post)) bs) (L (fresh_name id)) = Some s.
Proof. exact fresh_variable_proof. Qed.
Print Assumptions fresh_variable_well_sorted.

(* ---------- non-vacuity: a script with Int, Bool, bit-vector, floating-point and datatype constants ---------- *)

Definition l (s : string) : sexp := L (lit s).
Definition cq_script : list sexp := [
  T [l "set-logic"; l "ALL"];
  T [l "declare-const"; l "x"; sInt];
  T [l "declare-const"; l "b"; sBool];
  T [l "declare-const"; l "v"; sBV 8];
  T [l "declare-const"; l "f"; sFP 8 24];
  T [l "declare-fun"; l "y"; T []; sInt];
  T [l "define-fun"; l "w"; T []; sBV 8; l "#x01"];
  T [l "declare-fun"; l "h"; T [sInt]; sInt];
  T [l "declare-datatype"; l "D"; T [T [l "c"]; T [l "mk"; T [l "sel"; sInt]]; T [l "d"]]];
  T [l "declare-const"; l "k"; l "D"];
  T [l "assert"; T [l "="; T [l "+"; l "x"; l "1"]; l "y"]]
].
Definition cq_I : info := script_info cq_script.
Definition cq_g : env := decl_env cq_script.
Definition cq_dtc := dt_constants cq_script.
Definition cq_term : sexp := T [l "+"; l "x"; l "1"].

Example cq_checks :
  script_ok cq_script = true /\ declared_once cq_script = true /\ dt_decls_ok cq_script = true /\
  cq_I = collect_decls cq_script /\ cq_dtc = [(l "D", [l "c"; l "d"])].
Proof. vm_compute. repeat split. Qed.

Example cq_hyps :
  lookup_agrees cq_I cq_g /\ consts_unbound cq_g /\ ops_unbound cq_g /\ sorts_canon cq_I /\ cons_agree cq_I cq_g.
Proof.
  destruct cq_checks as (Hok & _ & _ & -> & _). exact (collect_decls_agrees_proof cq_script Hok).
Qed.

Definition typed_as (g : env) (s : sexp) (o : option (list sexp)) : bool :=
  match o with Some cs => forallb (fun c => opt_sexp_eqb (type_of g c) s) cs | None => false end.

(* the default constants of the sorts of the script, and their sorts by evaluation *)
Example cq_defaults :
  default_constants cq_dtc sInt = Some [l "0"; l "1"] /\
  default_constants cq_dtc sBool = Some [l "false"; l "true"] /\
  default_constants cq_dtc sReal = Some [l "0.0"; l "1.0"] /\
  default_constants cq_dtc (sBV 8) = Some [T [l "_"; l "bv0"; l "8"]; T [l "_"; l "bv1"; l "8"]] /\
  default_constants cq_dtc (l "D") = Some [l "c"; l "d"] /\
  hd_error (match default_constants cq_dtc (sFP 8 24) with Some cs => cs | None => [] end) =
    Some (T [l "fp"; T [l "_"; l "bv0"; l "1"]; T [l "_"; l "bv0"; l "8"]; T [l "_"; l "bv0"; l "23"]]) /\
  nth_error (match default_constants cq_dtc (sFP 8 24) with Some cs => cs | None => [] end) 2 =
    Some (T [l "fp"; T [l "_"; l "bv0"; l "1"]; T [l "_"; l "bv255"; l "8"]; T [l "_"; l "bv1"; l "23"]]) /\
  forallb (fun s => wf_sort s && typed_as cq_g (canon_sort s) (default_constants cq_dtc s))
          [sInt; sBool; sReal; sBV 8; sBV 1; sFP 8 24; sFP 2 2; sFP 1 2; l "Float16"; l "Float32"; l "Float64"; l "Float128"; l "D"] = true.
Proof. vm_compute. repeat split. Qed.

(* ... and by the theorem *)
Example cq_defaults_by_theorem : forall s cs c,
  In s [sInt; sBool; sBV 8; sFP 8 24; l "Float32"; l "D"] -> default_constants cq_dtc s = Some cs -> In c cs ->
  type_of cq_g c = Some (canon_sort s).
Proof.
  intros s cs c Hs Hd Hc. destruct cq_hyps as (_ & Hcu & _). destruct cq_checks as (_ & _ & Hdt & _).
  apply (default_constants_typed cq_g cq_dtc s cs c Hcu (dt_constants_typed cq_script Hdt)); auto.
  repeat (destruct Hs as [<- | Hs]; [reflexivity|]). destruct Hs.
Qed.
Print Assumptions cq_defaults_by_theorem.

Example cq_variables :
  variables_with_sort cq_script sInt = [lit "x"; lit "y"] /\
  variables_with_sort cq_script (sBV 8) = [lit "v"; lit "w"] /\
  variables_with_sort cq_script sBool = [lit "b"] /\
  variables_with_sort cq_script (sFP 8 24) = [lit "f"] /\
  variables_with_sort cq_script (l "D") = [lit "k"] /\
  variables_with_sort cq_script sReal = [] /\
  forallb (fun s => forallb (fun v => opt_sexp_eqb (type_of cq_g (L v)) s) (variables_with_sort cq_script s))
          [sInt; sBV 8; sBool; sFP 8 24; l "D"] = true.
Proof. vm_compute. repeat split. Qed.

Example cq_variables_by_theorem : forall v, In v [lit "x"; lit "y"] -> type_of cq_g (L v) = Some sInt.
Proof.
  intros v Hv. destruct cq_checks as (_ & Hon & _).
  apply (variables_with_sort_typed cq_script sInt v Hon). exact Hv.
Qed.

Example cq_constants_replacement :
  type_of cq_g cq_term = Some sInt /\
  rw_constants false (get_sort cq_I false cq_term) (dc_of cq_dtc (get_sort cq_I false cq_term)) cq_term = Some [l "0"; l "1"] /\
  forall r, In r [l "0"; l "1"] -> type_of cq_g r = Some sInt.
Proof.
  split; [vm_compute; reflexivity|]. split; [vm_compute; reflexivity|]. intros r Hr.
  destruct cq_hyps as (H1 & H2 & H3 & H4 & H5). destruct cq_checks as (_ & _ & Hdt & _).
  apply (constants_replacement_well_sorted cq_I cq_g cq_dtc cq_term false false sInt [l "0"; l "1"] r H1 H2 H3 H4 H5
           (dt_constants_typed cq_script Hdt)); [vm_compute; reflexivity | reflexivity | vm_compute; reflexivity | exact Hr].
Qed.
Print Assumptions cq_constants_replacement.

Example cq_replace_by_variable :
  rw_replace_by_var true false (get_sort cq_I false cq_term) (vars_of cq_script (get_sort cq_I false cq_term)) cq_term = Some [l "x"; l "y"] /\
  forall r, In r [l "x"; l "y"] -> type_of cq_g r = Some sInt.
Proof.
  split; [vm_compute; reflexivity|]. intros r Hr.
  destruct cq_hyps as (H1 & H2 & H3 & H4 & H5). destruct cq_checks as (_ & Hon & _).
  assert (Eg : bind_vars (decl_env cq_script) [] = cq_g) by (vm_compute; reflexivity).
  pose proof (replace_by_variable_well_sorted cq_script cq_I [] cq_term false true false
                (vars_of cq_script (get_sort cq_I false cq_term)) sInt [l "x"; l "y"] r) as Thm.
  rewrite Eg in Thm.
  apply Thm; [exact H1 | exact H2 | exact H3 | exact H4 | exact H5 | exact Hon | reflexivity | apply incl_refl
             | vm_compute; reflexivity | vm_compute; reflexivity | exact Hr].
Qed.
Print Assumptions cq_replace_by_variable.

Example cq_fresh_variable :
  rw_fresh_var (get_sort cq_I false) [] false (fun _ => false) 17 [10%nat; 1%nat] cq_term =
    Some [GS [([10%nat; 1%nat], Some (l "x17__fresh"))] [] [T [l "declare-const"; l "x17__fresh"; sInt]]] /\
  type_of (decl_env (T [l "declare-const"; l "x17__fresh"; sInt] :: cq_script)) (l "x17__fresh") = Some sInt /\
  type_of (decl_env (T [l "declare-const"; l "x17__fresh"; sInt] :: cq_script))
          (T [l "="; l "x17__fresh"; l "y"]) = Some sBool.
Proof. vm_compute. repeat split. Qed.

Example cq_fresh_by_theorem : forall sims sim,
  rw_fresh_var (get_sort cq_I false) [] false (fun _ => false) 17 [10%nat; 1%nat] cq_term = Some sims -> In sim sims ->
  type_of (bind_vars (decl_env ([T [l "set-logic"; l "ALL"]] ++ mk_decl (fresh_name 17) sInt :: tl cq_script)) [])
          (L (fresh_name 17)) = Some sInt.
Proof.
  intros sims sim Hrw Hin. destruct cq_hyps as (H1 & H2 & H3 & H4 & H5).
  assert (Ht0 : type_of cq_g cq_term = Some sInt) by (vm_compute; reflexivity).
  destruct (fresh_variable_well_sorted cq_I cq_g false [] false (fun _ => false) 17%Z [10%nat; 1%nat] cq_term sInt sims sim
              H1 H2 H3 H4 H5 Ht0 Hrw Hin) as (_ & _ & Ht).
  apply Ht; vm_compute; reflexivity.
Qed.
Print Assumptions cq_fresh_by_theorem.

(* ---------- sorts on which a default constant of ddSMT is ILL-SORTED, or get_default_constants raises ---------- *)

Definition none_typed (g : env) (o : option (list sexp)) : bool :=
  match o with Some cs => forallb (fun c => match type_of g c with None => true | Some _ => false end) cs | None => false end.

(* (_ BitVec 0): (_ bv0 0) and (_ bv1 0) *)
Example ill_bv_width0 :
  default_constants [] (sBV 0) = Some [T [l "_"; l "bv0"; l "0"]; T [l "_"; l "bv1"; l "0"]] /\
  none_typed cq_g (default_constants [] (sBV 0)) = true.
Proof. vm_compute. repeat split. Qed.

(* a width that is no numeral is copied into the constants: (_ BitVec n) gives (_ bv0 n) *)
Example ill_bv_symbolic :
  default_constants [] (T [l "_"; l "BitVec"; l "n"]) = Some [T [l "_"; l "bv0"; l "n"]; T [l "_"; l "bv1"; l "n"]] /\
  none_typed cq_g (default_constants [] (T [l "_"; l "BitVec"; l "n"])) = true.
Proof. vm_compute. repeat split. Qed.

(* (_ FloatingPoint e 1): the significand field has 1 - 1 = 0 bits, (_ bv0 0); all six constants are ill-sorted *)
Example ill_fp_sig1 :
  hd_error (match default_constants [] (sFP 8 1) with Some cs => cs | None => [] end) =
    Some (T [l "fp"; T [l "_"; l "bv0"; l "1"]; T [l "_"; l "bv0"; l "8"]; T [l "_"; l "bv0"; l "0"]]) /\
  none_typed cq_g (default_constants [] (sFP 8 1)) = true.
Proof. vm_compute. repeat split. Qed.

(* (_ FloatingPoint e 0): the significand field has -1 bits, (_ bv0 -1) *)
Example ill_fp_sig0 :
  hd_error (match default_constants [] (sFP 8 0) with Some cs => cs | None => [] end) =
    Some (T [l "fp"; T [l "_"; l "bv0"; l "1"]; T [l "_"; l "bv0"; l "8"]; T [l "_"; l "bv0"; l "-1"]]) /\
  none_typed cq_g (default_constants [] (sFP 8 0)) = true.
Proof. vm_compute. repeat split. Qed.

(* (_ FloatingPoint 0 s): the exponent field has 0 bits, (_ bv0 0) twice (2**0 - 1 = 0) *)
Example ill_fp_exp0 :
  nth_error (match default_constants [] (sFP 0 24) with Some cs => cs | None => [] end) 2 =
    Some (T [l "fp"; T [l "_"; l "bv0"; l "1"]; T [l "_"; l "bv0"; l "0"]; T [l "_"; l "bv1"; l "23"]]) /\
  none_typed cq_g (default_constants [] (sFP 0 24)) = true.
Proof. vm_compute. repeat split. Qed.

(* indices that int() refuses: get_default_constants raises (ValueError; TypeError on a list) *)
Example raises_fp_indices :
  default_constants [] (T [l "_"; l "FloatingPoint"; l "e"; l "24"]) = None /\
  default_constants [] (T [l "_"; l "FloatingPoint"; l "8"; l "s"]) = None /\
  default_constants [] (T [l "_"; l "FloatingPoint"; T [l "8"]; l "24"]) = None /\
  default_constants [] (T [l "Set"; T [l "_"; l "FloatingPoint"; l "8"; l "s"]]) = None.
Proof. vm_compute. repeat split. Qed.

(* not a finding about ddSMT, a limit of Spec/Typing.v: the short names are not expanded, so the constants of Float16
   have the sort (_ FloatingPoint 5 11), and an equation between a variable declared Float16 and such a constant is
   ill-sorted for type_of (the solvers accept it) *)
Example float16_expansion :
  typed_as cq_g (sFP 5 11) (default_constants [] (l "Float16")) = true /\
  sexp_eqb (sFP 5 11) (l "Float16") = false /\
  (let g := decl_env [T [l "declare-const"; l "h"; l "Float16"]] in
   type_of g (l "h") = Some (l "Float16") /\
   type_of g (T [l "="; l "h"; T [l "fp"; T [l "_"; l "bv0"; l "1"]; T [l "_"; l "bv0"; l "5"]; T [l "_"; l "bv0"; l "10"]]]) = None).
Proof. vm_compute. repeat split. Qed.

(* likewise a width written with a leading zero: the constants have the sort with the canonical numeral *)
Example noncanonical_width :
  typed_as cq_g (sBV 8) (default_constants [] (T [l "_"; l "BitVec"; l "08"])) = true /\
  wf_sort (T [l "_"; l "BitVec"; l "08"]) = false.
Proof. vm_compute. repeat split. Qed.

(* set sorts are outside Spec/Typing.v *)
Example set_sort_outside :
  default_constants [] (T [l "Set"; sInt]) =
    Some [T [l "as"; l "emptyset"; T [l "Set"; sInt]]; T [l "singleton"; l "0"]; T [l "singleton"; l "1"]] /\
  none_typed cq_g (default_constants [] (T [l "Set"; sInt])) = true /\ wf_sort (T [l "Set"; sInt]) = false.
Proof. vm_compute. repeat split. Qed.

(* why declared_once is needed: a name declared as a constant and again as a function with arguments stays in
   __constants with the function's result sort; a let that binds a constant's name again overwrites its recorded sort *)
Example redeclared_constant :
  let s := [T [l "declare-const"; l "x"; sBool]; T [l "declare-fun"; l "x"; T [sInt]; sInt]] in
  variables_with_sort s sInt = [lit "x"] /\ type_of (decl_env s) (l "x") = Some sBool /\ declared_once s = false.
Proof. vm_compute. repeat split. Qed.
Example rebound_constant :
  let s := [T [l "declare-const"; l "x"; sInt]; T [l "assert"; T [l "let"; T [T [l "x"; l "true"]]; l "x"]]] in
  variables_with_sort s sBool = [lit "x"] /\ type_of (decl_env s) (l "x") = Some sInt /\ declared_once s = false.
Proof. vm_compute. repeat split. Qed.
