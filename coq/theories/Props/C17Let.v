(* C17 for LetSubstitution (Model/LetRw.v): substituting a let-bound variable
   by its term in the body of the let preserves the value of every let that
   has one (Spec/Semantics.v).  Statements only; proofs in Proofs/Rw/LetSubst.v
   and Proofs/Closure/LetClosed.v; the side conditions are defined in
   Proofs/Rw/LetSide.v:

     occurs x e          the leaf x is a subterm of e
     term_pos_only x b   x occurs in b only where eval evaluates a term:
                         arguments of applications and of indexed applications,
                         bound terms and bodies of lets -- not as the head of an
                         application, not inside an indexed identifier
                         (_ op i ..) or a literal (_ bvN w)
     first_named x var bs   the first binding of bs named x is var
     distinctb l         the elements of l are pairwise distinct
     let_side e          for e = (let (b ..) body ..): the let binds pairwise
                         distinct symbols and term_pos_only x body for the name
                         x of every binding. *)
From DD Require Import Spec.Semantics Spec.StdReader Model.Rewrites Model.LetRw.
From DD Require Import Proofs.Rw.LetSide Proofs.Rw.LetSubst Proofs.Closure.RwClosed Proofs.Closure.LetClosed.
Local Open Scope list_scope.

(* ================= value preservation ================= *)

(* every proposal of the mutator for a let whose bound names are pairwise
   distinct and occur in the body in term positions only *)
Theorem rw_let_subst_identity : forall e l e' rho v,
  rw_let_subst e = Some l -> In e' l -> let_side e = true ->
  eval rho e = Some v -> eval rho e' = Some v.
Proof. exact let_subst_identity. Qed.
Print Assumptions rw_let_subst_identity.

(* one proposal, with the side condition of the substituted binding (x t) only:
   it is the first binding named x and x occurs in the body in term positions *)
Theorem rw_let_subst_identity_at : forall h bs body x t l e' rho v,
  is_op (T [h; T bs; body]) "let" = true ->
  let_subst_var h (T bs) body (bound_syms (T [h; T bs; body])) (T [L x; t]) = Some l -> In e' l ->
  first_named x (T [L x; t]) bs = true -> term_pos_only x body = true ->
  eval rho (T [h; T bs; body]) = Some v -> eval rho e' = Some v.
Proof. exact let_subst_identity_at. Qed.
Print Assumptions rw_let_subst_identity_at.

(* the lemma behind both: in a valuation where x has the value of t, replacing
   x by t keeps the value of b, if no binder of b binds x or a leaf of t *)
Theorem subst_all_eval : forall x t vt b rho v,
  lookup_v x rho = Some vt -> eval rho t = Some vt ->
  (forall s, s = x \/ In (L s) (subterms t) -> ~ In (L s) (bound_syms b)) ->
  term_pos_only x b = true ->
  eval rho b = Some v -> eval rho (subst_all (L x) t b) = Some v.
Proof. exact subst_eval. Qed.
Print Assumptions subst_all_eval.

(* eval depends only on the values of the leaves of the term *)
Theorem eval_coincidence : forall t rho1 rho2,
  (forall s, In (L s) (subterms t) -> lookup_v s rho1 = lookup_v s rho2) ->
  eval rho1 t = eval rho2 t.
Proof. exact coincidence. Qed.
Print Assumptions eval_coincidence.

(* the first guard of the mutator (x occurs in t) never decides alone: when it
   fires, the third one (a leaf of t is bound by the let or within it) fires *)
Theorem let_subst_cycle_guard_subsumed : forall h vars body rest x t r,
  isop h "let" = true -> In (T (L x :: t :: r)) vars ->
  mem_sexp (L x) (subterms t) = true ->
  existsb (fun n => is_leaf n && mem_sexp n (bound_syms (T (L h :: T vars :: body :: rest)))) (subterms t) = true.
Proof. exact cycle_guard_subsumed. Qed.
Print Assumptions let_subst_cycle_guard_subsumed.

(* ================= well-formedness (C15, part 4) ================= *)
Theorem rw_let_subst_wf : forall e l e',
  wf e = true -> rw_let_subst e = Some l -> In e' l -> wf e' = true.
Proof. exact rw_let_subst_closed. Qed.
Print Assumptions rw_let_subst_wf.

(* ================= the premises are satisfiable ================= *)
Definition mklet (bs : list sexp) (body : sexp) : sexp := T [lf "let"; T bs; body].
Definition bd (x : string) (t : sexp) : sexp := T [lf x; t].
Definition ap (h : string) (args : list sexp) : sexp := T (lf h :: args).
Definition rho_y : list (str * value) := [(lit "y", VI 10)].

(* a let with the bindings (x (+ y 1)) and (z 2) whose body is the product of x and x:
   z does not occur, one proposal *)
Example ex_let_subst :
  let e := mklet [bd "x" (ap "+" [lf "y"; lf "1"]); bd "z" (lf "2")] (ap "*" [lf "x"; lf "x"]) in
  let e' := mklet [bd "x" (ap "+" [lf "y"; lf "1"]); bd "z" (lf "2")]
                  (ap "*" [ap "+" [lf "y"; lf "1"]; ap "+" [lf "y"; lf "1"]]) in
  rw_let_subst e = Some [e'] /\ let_side e = true /\ eval rho_y e = Some (VI 121).
Proof. vm_compute. repeat split. Qed.

Example ex_let_subst_applied :
  eval rho_y (mklet [bd "x" (ap "+" [lf "y"; lf "1"]); bd "z" (lf "2")]
                    (ap "*" [ap "+" [lf "y"; lf "1"]; ap "+" [lf "y"; lf "1"]])) = Some (VI 121).
Proof.
  apply (rw_let_subst_identity
           (mklet [bd "x" (ap "+" [lf "y"; lf "1"]); bd "z" (lf "2")] (ap "*" [lf "x"; lf "x"])) _ _ rho_y (VI 121)
           (proj1 ex_let_subst)); [left; reflexivity | vm_compute; reflexivity | vm_compute; reflexivity].
Qed.

(* a bound name that is also a literal: the binding shadows the literal *)
Example ex_let_subst_literal_name :
  let e := mklet [bd "5" (lf "7")] (ap "+" [lf "5"; lf "1"]) in
  rw_let_subst e = Some [mklet [bd "5" (lf "7")] (ap "+" [lf "7"; lf "1"])] /\ let_side e = true /\
  eval [] e = Some (VI 8).
Proof. vm_compute. repeat split. Qed.

(* ================= why the side condition is needed ================= *)
(* the bound name is the head of an application: (let ((+ 5)) (+ 1 2)) *)
Example cex_let_subst_head :
  let e := mklet [bd "+" (lf "5")] (ap "+" [lf "1"; lf "2"]) in
  exists e', rw_let_subst e = Some [e'] /\ eval [] e = Some (VI 3) /\ eval [] e' = None /\ let_side e = false.
Proof. eexists. vm_compute. repeat split. Qed.

(* ... the head let: (let ((let 5)) (let ((y 1)) y)) *)
Example cex_let_subst_head_let :
  let e := mklet [bd "let" (lf "5")] (mklet [bd "y" (lf "1")] (lf "y")) in
  exists e', rw_let_subst e = Some [e'] /\ eval [] e = Some (VI 1) /\ eval [] e' = None /\ let_side e = false.
Proof. eexists. vm_compute. repeat split. Qed.

(* ... the width of a literal: (let ((4 3)) (_ bv5 4)) becomes (_ bv5 3) *)
Example cex_let_subst_bvlit :
  let e := mklet [bd "4" (lf "3")] (T [lf "_"; lf "bv5"; lf "4"]) in
  exists e', rw_let_subst e = Some [e'] /\ eval [] e = Some (VV 4 5) /\ eval [] e' = Some (VV 3 5) /\ let_side e = false.
Proof. eexists. vm_compute. repeat split. Qed.

(* ... the symbol _ *)
Example cex_let_subst_underscore :
  let e := mklet [bd "_" (lf "5")] (T [lf "_"; lf "bv1"; lf "2"]) in
  exists e', rw_let_subst e = Some [e'] /\ eval [] e = Some (VV 2 1) /\ eval [] e' = None /\ let_side e = false.
Proof. eexists. vm_compute. repeat split. Qed.

(* ... an index: (let ((1 2)) ((_ zero_extend 1) #b1)) becomes ((_ zero_extend 2) #b1) *)
Example cex_let_subst_index :
  let e := mklet [bd "1" (lf "2")] (T [T [lf "_"; lf "zero_extend"; lf "1"]; lf "#b1"]) in
  exists e', rw_let_subst e = Some [e'] /\ eval [] e = Some (VV 2 1) /\ eval [] e' = Some (VV 3 1) /\ let_side e = false.
Proof. eexists. vm_compute. repeat split. Qed.

(* two bindings of one name: (let ((x 1) (x 2)) x) has the value 1, the second proposal the value 2 *)
Example cex_let_subst_duplicate :
  let e := mklet [bd "x" (lf "1"); bd "x" (lf "2")] (lf "x") in
  exists e1 e2, rw_let_subst e = Some [e1; e2] /\ eval [] e = Some (VI 1) /\ eval [] e1 = Some (VI 1) /\
                eval [] e2 = Some (VI 2) /\ let_side e = false.
Proof. do 2 eexists. vm_compute. repeat split. Qed.

(* ================= why the guards are needed ================= *)
(* the substitution without the guards *)
Definition unguarded (e : sexp) (x : string) (t : sexp) : sexp :=
  match e with T [h; n1; body] => T [h; n1; subst_all (lf x) t body] | _ => e end.

(* a leaf of the term is bound by the same let: (let ((x y) (y 1)) (+ x y));
   the mutator proposes the substitution of y only *)
Example cex_unguarded_same_let :
  let e := mklet [bd "x" (lf "y"); bd "y" (lf "1")] (ap "+" [lf "x"; lf "y"]) in
  rw_let_subst e = Some [mklet [bd "x" (lf "y"); bd "y" (lf "1")] (ap "+" [lf "x"; lf "1"])] /\
  let_side e = true /\ eval rho_y e = Some (VI 11) /\ eval rho_y (unguarded e "x" (lf "y")) = Some (VI 2).
Proof. vm_compute. repeat split. Qed.

(* a leaf of the term is bound inside the body: (let ((x (+ y 1))) (let ((y 5)) (+ x y))) *)
Example cex_unguarded_capture :
  let e := mklet [bd "x" (ap "+" [lf "y"; lf "1"])] (mklet [bd "y" (lf "5")] (ap "+" [lf "x"; lf "y"])) in
  rw_let_subst e = Some [] /\ let_side e = true /\
  eval rho_y e = Some (VI 16) /\ eval rho_y (unguarded e "x" (ap "+" [lf "y"; lf "1"])) = Some (VI 11).
Proof. vm_compute. repeat split. Qed.

(* the name is bound again inside the body: (let ((x y)) (let ((x 5)) (+ x y))) *)
Example cex_unguarded_rebound :
  let e := mklet [bd "x" (lf "y")] (mklet [bd "x" (lf "5")] (ap "+" [lf "x"; lf "y"])) in
  rw_let_subst e = Some [] /\ let_side e = true /\
  eval rho_y e = Some (VI 15) /\ eval rho_y (unguarded e "x" (lf "y")) = Some (VI 10).
Proof. vm_compute. repeat split. Qed.

(* ... with a compound term the inner binding is destroyed:
   (let ((x (+ 1 1))) (let ((x 5)) (+ x 1))) becomes (.. (let (((+ 1 1) 5)) (+ (+ 1 1) 1))) *)
Example cex_unguarded_rebound_compound :
  let e := mklet [bd "x" (ap "+" [lf "1"; lf "1"])] (mklet [bd "x" (lf "5")] (ap "+" [lf "x"; lf "1"])) in
  rw_let_subst e = Some [] /\ let_side e = true /\
  eval [] e = Some (VI 6) /\ eval [] (unguarded e "x" (ap "+" [lf "1"; lf "1"])) = None.
Proof. vm_compute. repeat split. Qed.

(* ... but (let ((x 2)) (let ((x 5)) (+ x 1))) keeps its value under eval: subst_all renames the
   inner binder too, (let ((2 5)) (+ 2 1)), and eval looks a leaf up before reading it as a numeral *)
Example ex_unguarded_rebound_numeral :
  let e := mklet [bd "x" (lf "2")] (mklet [bd "x" (lf "5")] (ap "+" [lf "x"; lf "1"])) in
  rw_let_subst e = Some [] /\ eval [] e = Some (VI 6) /\
  unguarded e "x" (lf "2") = mklet [bd "x" (lf "2")] (mklet [bd "2" (lf "5")] (ap "+" [lf "2"; lf "1"])) /\
  eval [] (unguarded e "x" (lf "2")) = Some (VI 6).
Proof. vm_compute. repeat split. Qed.

(* the name occurs in its own term: (let ((x (+ x 1))) x) with x = 10 outside *)
Example cex_unguarded_cycle :
  let e := mklet [bd "x" (ap "+" [lf "x"; lf "1"])] (lf "x") in
  rw_let_subst e = Some [] /\ let_side e = true /\
  eval [(lit "x", VI 10)] e = Some (VI 11) /\
  eval [(lit "x", VI 10)] (unguarded e "x" (ap "+" [lf "x"; lf "1"])) = Some (VI 12).
Proof. vm_compute. repeat split. Qed.
