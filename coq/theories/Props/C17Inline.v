(* C17 for InlineDefinedFuns at a use site (Model/InlineRw.v): the beta rule.
   Replacing the call (f a1 .. an) of a defined, non-recursive function by its
   body, in which the formals are replaced SIMULTANEOUSLY by the actuals,
   preserves the value of the call (Spec/Semantics.v), under a side condition.
   Before the fix of finding F19 the mutator checked nothing of it (no guard
   against capture); the model now mirrors the fixed smtlib.__instantiate, which
   returns the node itself if a binder within the body binds a formal again or
   binds a leaf of an actual (inline_guard).  The theorems with the full side
   condition inline_side remain; the last section states them with the weaker
   inline_side_guarded, which lacks the two conjuncts that the guard establishes.
   Statements only; proofs in Proofs/Rw/InlineSubst.v, Proofs/Rw/InlineGuard.v and
   Proofs/Closure/InlineClosed.v; the definitions are in Proofs/Rw/InlineSide.v
   and Proofs/Rw/InlineGuard.v:

     formal_ok f         f = (p S ..) with a leaf p
     formal_names d      the names p of the formals of d ([] for a formal of another shape)
     call_val rho d args call by value: the actuals are evaluated in rho, the body of d in
                         combine (formal_names d) values ++ rho -- the SAME valuation
                         extended by the parameters (the theorem is about one use site)
     no_capture body a   no leaf of a is bound by a binder inside body
     inline_side d args  every formal is formal_ok; the names are pairwise distinct; every
                         name occurs in the body in term positions only (term_pos_only,
                         Proofs/Rw/LetSide.v) and is not bound inside the body; for every
                         name that occurs in the body, no_capture body (its actual).
                         A name may occur in the actuals: (f b a) for the formals (a b).
     inline_guard d args the guard of the mutator: a formal, or a leaf of an actual, is bound
                         by a binder inside the body
     inline_side_guarded d args
                         every formal is formal_ok; the names are pairwise distinct; every
                         name occurs in the body in term positions only (args is not looked at) *)
From DD Require Import Spec.Semantics Spec.StdReader Model.Rewrites Model.LetRw Model.InlineRw.
From DD Require Import Proofs.Rw.LetSide Proofs.Rw.InlineSide Proofs.Rw.InlineSubst Proofs.Rw.InlineGuard.
From DD Require Import Proofs.Closure.InlineClosed.
Local Open Scope list_scope.

(* ================= value preservation ================= *)

(* every proposal of the mutator at a use site e = (n a1 .. an), (n) or n *)
Theorem rw_inline_identity : forall defs e l e' n d args rho v,
  rw_inline defs e = Some l -> In e' l ->
  e = T (L n :: args) \/ (e = L n /\ args = []) ->
  lookup_def defs n = Some d ->
  inline_side d args = true ->
  call_val rho d args = Some v -> eval rho e' = Some v.
Proof. exact inline_identity. Qed.
Print Assumptions rw_inline_identity.

(* the definition that lookup_def finds is a definition of that name *)
Theorem lookup_def_sound : forall defs n d, lookup_def defs n = Some d -> d_name d = n /\ In d defs.
Proof. exact lookup_def_inv. Qed.
Print Assumptions lookup_def_sound.

(* what the mutator proposes: for a call with as many actuals as formals, the substituted body --
   unless the guard holds (after the fix of F19; before it, the statement had no case distinction) *)
Theorem instantiate_call : forall d h args,
  forallb formal_ok (d_formals d) = true -> length (d_formals d) = length args ->
  instantiate d (T (h :: args)) =
  Some (if inline_guard d args then T (h :: args) else subst_map (combine (map L (formal_names d)) args) (d_body d)).
Proof. exact instantiate_app. Qed.
Print Assumptions instantiate_call.

(* the statement as it was before the fix holds for a call that the guard lets pass *)
Theorem instantiate_call_unguarded : forall d h args,
  forallb formal_ok (d_formals d) = true -> length (d_formals d) = length args ->
  inline_guard d args = false ->
  instantiate d (T (h :: args)) = Some (subst_map (combine (map L (formal_names d)) args) (d_body d)).
Proof. exact instantiate_app_unguarded. Qed.
Print Assumptions instantiate_call_unguarded.

(* the beta rule itself *)
Theorem inline_beta_rule : forall d args rho v,
  length (d_formals d) = length args ->
  inline_side d args = true -> call_val rho d args = Some v ->
  eval rho (subst_map (combine (map L (formal_names d)) args) (d_body d)) = Some v.
Proof. exact inline_beta. Qed.
Print Assumptions inline_beta_rule.

(* the lemma behind it, with two valuations: rho_in for the term b, rho_out for the substituted
   term.  On the leaves of b: a key has in rho_in the value that its replacement has in rho_out,
   any other leaf is looked up alike.  No key that occurs in b and no leaf of its replacement is
   bound inside b; the keys occur in term positions only. *)
Theorem subst_map_eval2 : forall m,
  (forall k a, In (k, a) m -> exists p, k = L p) ->
  forall b rho_in rho_out v,
  (forall s, In (L s) (subterms b) ->
     match assoc_last m (L s) with
     | Some a => exists va, lookup_v s rho_in = Some va /\ eval rho_out a = Some va
     | None => lookup_v s rho_in = lookup_v s rho_out
     end) ->
  (forall p, In (L p) (map fst m) -> term_pos_only p b = true) ->
  (forall s a, In (L s) (subterms b) -> assoc_last m (L s) = Some a ->
     ~ In (L s) (bound_syms b) /\ forall y, In (L y) (subterms a) -> ~ In (L y) (bound_syms b)) ->
  eval rho_in b = Some v -> eval rho_out (subst_map m b) = Some v.
Proof. exact subst_map_eval. Qed.
Print Assumptions subst_map_eval2.

(* inline_side asks nothing but the distinctness of a formal that the body does not mention *)
Theorem inline_side_unused_formal : forall p body,
  occurs p body = false -> term_pos_only p body && negb (mem_sexp (L p) (bound_syms body)) = true.
Proof. exact unused_formal_side. Qed.
Print Assumptions inline_side_unused_formal.

(* ================= well-formedness (C15, part 4) ================= *)
Theorem rw_inline_wf : forall defs e l e',
  wf e = true -> Forall (fun d => wf (d_body d) = true) defs ->
  rw_inline defs e = Some l -> In e' l -> wf e' = true.
Proof. exact rw_inline_closed. Qed.
Print Assumptions rw_inline_wf.

(* ================= the premises are satisfiable ================= *)
Definition iap (h : string) (args : list sexp) : sexp := T (lf h :: args).
Definition ilet (bs : list sexp) (body : sexp) : sexp := T [lf "let"; T bs; body].
Definition ibd (x : string) (t : sexp) : sexp := T [lf x; t].
Definition fm (x : string) : sexp := T [lf x; lf "Int"].
Definition rho_ab : list (str * value) := [(lit "a", VI 1); (lit "b", VI 5)].
Definition rho_y : list (str * value) := [(lit "y", VI 10)].

(* (define-fun f ((a Int) (b Int)) Int (- a b)) and the call (f b a): the actuals are the formals,
   swapped; the substitution is simultaneous *)
Definition d_sub : defn := mk_defn (lit "f") [fm "a"; fm "b"] (iap "-" [lf "a"; lf "b"]).
Example ex_inline_swap :
  rw_inline [d_sub] (iap "f" [lf "b"; lf "a"]) = Some [iap "-" [lf "b"; lf "a"]] /\
  lookup_def [d_sub] (lit "f") = Some d_sub /\ inline_side d_sub [lf "b"; lf "a"] = true /\
  call_val rho_ab d_sub [lf "b"; lf "a"] = Some (VI 4) /\ eval rho_ab (iap "-" [lf "b"; lf "a"]) = Some (VI 4).
Proof. vm_compute. repeat split. Qed.

Example ex_inline_swap_applied : eval rho_ab (iap "-" [lf "b"; lf "a"]) = Some (VI 4).
Proof.
  apply (rw_inline_identity [d_sub] (iap "f" [lf "b"; lf "a"]) _ _ (lit "f") d_sub [lf "b"; lf "a"] rho_ab (VI 4)
           (proj1 ex_inline_swap)); [left; reflexivity | left; reflexivity | | |]; vm_compute; reflexivity.
Qed.

(* compound actuals that mention the formals: b + 1 for a, the product of a and b for b *)
Example ex_inline_compound :
  let args := [iap "+" [lf "b"; lf "1"]; iap "*" [lf "a"; lf "b"]] in
  rw_inline [d_sub] (iap "f" args) = Some [iap "-" args] /\ inline_side d_sub args = true /\
  call_val rho_ab d_sub args = Some (VI 1) /\ eval rho_ab (iap "-" args) = Some (VI 1).
Proof. vm_compute. repeat split. Qed.

(* a defined constant, used as a leaf and as (c) *)
Definition d_c : defn := mk_defn (lit "c") [] (iap "+" [lf "y"; lf "1"]).
Example ex_inline_constant :
  rw_inline [d_c] (lf "c") = Some [iap "+" [lf "y"; lf "1"]] /\
  rw_inline [d_c] (T [lf "c"]) = Some [iap "+" [lf "y"; lf "1"]] /\
  inline_side d_c [] = true /\ call_val rho_y d_c [] = Some (VI 11).
Proof. vm_compute. repeat split. Qed.

(* a body with a binder; the actual does not mention the bound name *)
Definition d_g : defn := mk_defn (lit "g") [fm "x"] (ilet [ibd "y" (lf "1")] (iap "+" [lf "x"; lf "y"])).
Example ex_inline_binder :
  rw_inline [d_g] (iap "g" [lf "7"]) = Some [ilet [ibd "y" (lf "1")] (iap "+" [lf "7"; lf "y"])] /\
  inline_side d_g [lf "7"] = true /\ call_val rho_y d_g [lf "7"] = Some (VI 8).
Proof. vm_compute. repeat split. Qed.

(* a formal that does not occur in the body: for inline_side its actual may mention a name bound in
   the body, and the substituted body has the value of the call.  The guard of the mutator is coarser:
   it looks at the leaves of ALL actuals and proposes nothing here *)
Definition d_unused : defn := mk_defn (lit "k") [fm "x"] (ilet [ibd "y" (lf "1")] (lf "y")).
Example ex_inline_unused_formal :
  rw_inline [d_unused] (iap "k" [lf "y"]) = Some [] /\ inline_guard d_unused [lf "y"] = true /\
  subst_map (combine (map L (formal_names d_unused)) [lf "y"]) (d_body d_unused) = ilet [ibd "y" (lf "1")] (lf "y") /\
  inline_side d_unused [lf "y"] = true /\ call_val rho_y d_unused [lf "y"] = Some (VI 1) /\
  eval rho_y (ilet [ibd "y" (lf "1")] (lf "y")) = Some (VI 1).
Proof. vm_compute. repeat split. Qed.

(* the number of actuals differs from the number of formals: nothing is proposed; the last definition counts *)
Example ex_inline_arity : rw_inline [d_sub] (iap "f" [lf "1"]) = Some [].
Proof. vm_compute. reflexivity. Qed.
Example ex_inline_last_definition :
  lookup_def [mk_defn (lit "c") [] (lf "0"); d_c] (lit "c") = Some d_c.
Proof. vm_compute. reflexivity. Qed.

(* ================= why the side condition is needed ================= *)
(* the substituted body, which the mutator proposed before the fix of F19 whatever the binders of the body *)
Definition beta (d : defn) (args : list sexp) : sexp := subst_map (combine (map L (formal_names d)) args) (d_body d).

(* F19, capture: (define-fun g ((x Int)) Int (let ((y 1)) (+ x y))) and the call (g y) with y = 10:
   the call has the value 11, the substituted body (let ((y 1)) (+ y y)) the value 2.
   Before the fix that was the proposal; the guard holds and nothing is proposed now *)
Example cex_inline_capture :
  exists e', beta d_g [lf "y"] = e' /\
             e' = ilet [ibd "y" (lf "1")] (iap "+" [lf "y"; lf "y"]) /\
             call_val rho_y d_g [lf "y"] = Some (VI 11) /\ eval rho_y e' = Some (VI 2) /\
             inline_side d_g [lf "y"] = false /\
             inline_guard d_g [lf "y"] = true /\ rw_inline [d_g] (iap "g" [lf "y"]) = Some [].
Proof. eexists. vm_compute. repeat split. Qed.

(* ... also through a compound actual: g applied to the product of y and 2 has the value 21, the substituted body the value 3 *)
Example cex_inline_capture_compound :
  exists e', beta d_g [iap "*" [lf "y"; lf "2"]] = e' /\
             call_val rho_y d_g [iap "*" [lf "y"; lf "2"]] = Some (VI 21) /\ eval rho_y e' = Some (VI 3) /\
             inline_side d_g [iap "*" [lf "y"; lf "2"]] = false /\
             inline_guard d_g [iap "*" [lf "y"; lf "2"]] = true /\
             rw_inline [d_g] (iap "g" [iap "*" [lf "y"; lf "2"]]) = Some [].
Proof. eexists. vm_compute. repeat split. Qed.

(* two formals of one name: (define-fun f ((a Int) (a Int)) Int a), (f 1 2): the first one counts
   for the valuation, the last one for the substitution *)
Definition d_dup : defn := mk_defn (lit "f") [fm "a"; fm "a"] (lf "a").
Example cex_inline_duplicate_formals :
  rw_inline [d_dup] (iap "f" [lf "1"; lf "2"]) = Some [lf "2"] /\
  call_val [] d_dup [lf "1"; lf "2"] = Some (VI 1) /\ eval [] (lf "2") = Some (VI 2) /\
  inline_side d_dup [lf "1"; lf "2"] = false.
Proof. vm_compute. repeat split. Qed.

(* a formal that is the head of an application of the body: (define-fun f ((+ Int)) Int (+ 1 2)), (f 5) *)
Definition d_head : defn := mk_defn (lit "f") [fm "+"] (iap "+" [lf "1"; lf "2"]).
Example cex_inline_head :
  rw_inline [d_head] (iap "f" [lf "5"]) = Some [T [lf "5"; lf "1"; lf "2"]] /\
  call_val [] d_head [lf "5"] = Some (VI 3) /\ eval [] (T [lf "5"; lf "1"; lf "2"]) = None /\
  inline_side d_head [lf "5"] = false.
Proof. vm_compute. repeat split. Qed.

(* ... that is the width of a literal: (define-fun f ((4 Int)) (_ BitVec 4) (_ bv5 4)), (f 3) *)
Definition d_width : defn := mk_defn (lit "f") [fm "4"] (T [lf "_"; lf "bv5"; lf "4"]).
Example cex_inline_bvlit :
  rw_inline [d_width] (iap "f" [lf "3"]) = Some [T [lf "_"; lf "bv5"; lf "3"]] /\
  call_val [] d_width [lf "3"] = Some (VV 4 5) /\ eval [] (T [lf "_"; lf "bv5"; lf "3"]) = Some (VV 3 5) /\
  inline_side d_width [lf "3"] = false.
Proof. vm_compute. repeat split. Qed.

(* a formal that is bound again inside the body: (define-fun g ((x Int)) Int (let ((x 5)) (+ x 1))),
   (g (+ 1 1)): the substitution destroys the binder; the guard holds, nothing is proposed *)
Definition d_rebound : defn := mk_defn (lit "g") [fm "x"] (ilet [ibd "x" (lf "5")] (iap "+" [lf "x"; lf "1"])).
Example cex_inline_rebound :
  exists e', beta d_rebound [iap "+" [lf "1"; lf "1"]] = e' /\
             e' = ilet [T [iap "+" [lf "1"; lf "1"]; lf "5"]] (iap "+" [iap "+" [lf "1"; lf "1"]; lf "1"]) /\
             call_val [] d_rebound [iap "+" [lf "1"; lf "1"]] = Some (VI 6) /\ eval [] e' = None /\
             inline_side d_rebound [iap "+" [lf "1"; lf "1"]] = false /\
             inline_guard d_rebound [iap "+" [lf "1"; lf "1"]] = true /\
             rw_inline [d_rebound] (iap "g" [iap "+" [lf "1"; lf "1"]]) = Some [].
Proof. eexists. vm_compute. repeat split. Qed.

(* ... with a variable as the actual the binder is renamed and captures the other occurrences of the
   actual: (define-fun g ((x Int)) Int (let ((x 5)) (+ x y))), (g y) with y = 10 has the value 15, the
   substituted body (let ((y 5)) (+ y y)) the value 10 -- although no leaf of the actual is bound inside the
   body: it is the first half of the guard (a formal bound again) that refuses this call *)
Definition d_rebound2 : defn := mk_defn (lit "g") [fm "x"] (ilet [ibd "x" (lf "5")] (iap "+" [lf "x"; lf "y"])).
Example cex_inline_rebound_value :
  exists e', beta d_rebound2 [lf "y"] = e' /\
             e' = ilet [ibd "y" (lf "5")] (iap "+" [lf "y"; lf "y"]) /\
             call_val rho_y d_rebound2 [lf "y"] = Some (VI 15) /\ eval rho_y e' = Some (VI 10) /\
             no_capture (d_body d_rebound2) (lf "y") = true /\ inline_side d_rebound2 [lf "y"] = false /\
             inline_guard d_rebound2 [lf "y"] = true /\ rw_inline [d_rebound2] (iap "g" [lf "y"]) = Some [].
Proof. eexists. vm_compute. repeat split. Qed.

(* a formal that is a leaf instead of (p S): the key of the substitution is its first character *)
Definition d_leaf_formal : defn := mk_defn (lit "f") [lf "ab"] (lf "a").
Example cex_inline_leaf_formal :
  rw_inline [d_leaf_formal] (iap "f" [lf "7"]) = Some [lf "7"] /\
  call_val [(lit "a", VI 3)] d_leaf_formal [lf "7"] = Some (VI 3) /\
  inline_side d_leaf_formal [lf "7"] = false.
Proof. vm_compute. repeat split. Qed.

(* the converse does not hold: an actual without a value for a formal that is not used *)
Example ex_inline_not_conversely :
  rw_inline [d_unused] (iap "k" [iap "foo" []]) = Some [ilet [ibd "y" (lf "1")] (lf "y")] /\
  inline_side d_unused [iap "foo" []] = true /\
  call_val [] d_unused [iap "foo" []] = None /\ eval [] (ilet [ibd "y" (lf "1")] (lf "y")) = Some (VI 1).
Proof. vm_compute. repeat split. Qed.

(* ================= after the fix of F19: the guard carries a part of the side condition ================= *)

(* a proposal for the call means that the guard did not hold; with it, the weaker condition is the full one *)
Theorem rw_inline_guard_gives_side : forall defs e l e' n d args,
  rw_inline defs e = Some l -> In e' l ->
  e = T (L n :: args) \/ (e = L n /\ args = []) ->
  lookup_def defs n = Some d ->
  inline_side_guarded d args = true -> inline_side d args = true.
Proof. exact inline_guard_gives_side. Qed.
Print Assumptions rw_inline_guard_gives_side.

(* ... in two steps *)
Theorem rw_inline_proposal_unguarded : forall defs e l e' n d args,
  rw_inline defs e = Some l -> In e' l ->
  e = T (L n :: args) \/ (e = L n /\ args = []) ->
  lookup_def defs n = Some d ->
  forallb formal_ok (d_formals d) = true ->
  inline_guard d args = false.
Proof. exact proposal_guard_false. Qed.
Print Assumptions rw_inline_proposal_unguarded.

Theorem inline_unguarded_side : forall d args,
  inline_guard d args = false -> inline_side_guarded d args = true -> inline_side d args = true.
Proof. exact guard_side. Qed.
Print Assumptions inline_unguarded_side.

(* the weaker condition is weaker *)
Theorem inline_side_gives_guarded : forall d args, inline_side d args = true -> inline_side_guarded d args = true.
Proof. exact side_guarded_of_side. Qed.
Print Assumptions inline_side_gives_guarded.

(* what the guard refuses: a formal, or a leaf of an actual, that is bound inside the body *)
Theorem inline_guard_inv : forall d args,
  inline_guard d args = true ->
  (exists p, In p (formal_names d) /\ mem_sexp (L p) (bound_syms (d_body d)) = true)
  \/ (exists a, In a args /\ no_capture (d_body d) a = false).
Proof. exact guard_true_inv. Qed.
Print Assumptions inline_guard_inv.

(* rw_inline_identity with the weaker side condition: every proposal of the mutator at a use site *)
Theorem rw_inline_identity_guarded : forall defs e l e' n d args rho v,
  rw_inline defs e = Some l -> In e' l ->
  e = T (L n :: args) \/ (e = L n /\ args = []) ->
  lookup_def defs n = Some d ->
  inline_side_guarded d args = true ->
  call_val rho d args = Some v -> eval rho e' = Some v.
Proof. exact inline_identity_guarded. Qed.
Print Assumptions rw_inline_identity_guarded.

(* the proposals for a call of a non-recursive definition with formals of the shape (p S ..) *)
Theorem rw_inline_call_proposals : forall defs n d args,
  lookup_def defs n = Some d -> is_recursive defs n = false ->
  forallb formal_ok (d_formals d) = true -> length (d_formals d) = length args ->
  rw_inline defs (T (L n :: args)) =
  Some (if inline_guard d args then []
        else let b := subst_map (combine (map L (formal_names d)) args) (d_body d) in
             if sexp_eqb b (T (L n :: args)) then [] else [b]).
Proof. exact rw_inline_call. Qed.
Print Assumptions rw_inline_call_proposals.

Definition iex (vs : list sexp) (body : sexp) : sexp := T [lf "exists"; T vs; body].
Definition iall (vs : list sexp) (body : sexp) : sexp := T [lf "forall"; T vs; body].
Definition rho_q : list (str * value) := [(lit "q", VI 3)].

(* (i) the capture instance of F19: (define-fun g ((p Int)) Bool (exists ((y Int)) (> y p))) and the call
   (g y): the substituted body would be (exists ((y Int)) (> y y)); nothing is proposed *)
Definition d_ex : defn := mk_defn (lit "g") [fm "p"] (iex [fm "y"] (iap ">" [lf "y"; lf "p"])).
Example f19_no_proposal : rw_inline [d_ex] (iap "g" [lf "y"]) = Some [].
Proof. vm_compute. reflexivity. Qed.

Example f19_no_proposal_why :
  inline_guard d_ex [lf "y"] = true /\ beta d_ex [lf "y"] = iex [fm "y"] (iap ">" [lf "y"; lf "y"]) /\
  inline_side_guarded d_ex [lf "y"] = true /\ inline_side d_ex [lf "y"] = false.
Proof. vm_compute. repeat split. Qed.

(* (ii) a formal that is bound again inside the body:
   (define-fun f ((x Int)) Bool (forall ((x Int)) (>= SQ 0))) with the product SQ of x and x, and the call (f (- 5)) *)
Definition d_all : defn :=
  mk_defn (lit "f") [fm "x"] (iall [fm "x"] (iap ">=" [iap "*" [lf "x"; lf "x"]; lf "0"])).
Example f19_rebound_no_proposal : rw_inline [d_all] (iap "f" [iap "-" [lf "5"]]) = Some [].
Proof. vm_compute. reflexivity. Qed.

Example f19_rebound_no_proposal_why :
  inline_guard d_all [iap "-" [lf "5"]] = true /\
  beta d_all [iap "-" [lf "5"]]
  = iall [T [iap "-" [lf "5"]; lf "Int"]] (iap ">=" [iap "*" [iap "-" [lf "5"]; iap "-" [lf "5"]]; lf "0"]) /\
  inline_side d_all [iap "-" [lf "5"]] = false.
Proof. vm_compute. repeat split. Qed.

(* (iii) not vacuous: the quantifier of the body binds neither the formal nor a leaf of the actual,
   (g (+ q 1)) becomes (exists ((y Int)) (> y (+ q 1))) *)
Example ex_inline_guarded :
  let a := iap "+" [lf "q"; lf "1"] in
  rw_inline [d_ex] (iap "g" [a]) = Some [iex [fm "y"] (iap ">" [lf "y"; a])] /\
  lookup_def [d_ex] (lit "g") = Some d_ex /\
  inline_guard d_ex [a] = false /\ inline_side_guarded d_ex [a] = true /\ inline_side d_ex [a] = true.
Proof. vm_compute. repeat split. Qed.

(* ... with a value (eval of Spec/Semantics.v has no quantifiers): the binder of the body is a let,
   (define-fun g ((x Int)) Int (let ((y 1)) (+ x y))) and the call (g (+ q 1)) with q = 3 *)
Example ex_inline_guarded_value :
  let a := iap "+" [lf "q"; lf "1"] in
  rw_inline [d_g] (iap "g" [a]) = Some [ilet [ibd "y" (lf "1")] (iap "+" [a; lf "y"])] /\
  lookup_def [d_g] (lit "g") = Some d_g /\ inline_side_guarded d_g [a] = true /\
  call_val rho_q d_g [a] = Some (VI 5).
Proof. vm_compute. repeat split. Qed.

Example ex_inline_guarded_applied :
  eval rho_q (ilet [ibd "y" (lf "1")] (iap "+" [iap "+" [lf "q"; lf "1"]; lf "y"])) = Some (VI 5).
Proof.
  apply (rw_inline_identity_guarded [d_g] (iap "g" [iap "+" [lf "q"; lf "1"]]) _ _ (lit "g") d_g
           [iap "+" [lf "q"; lf "1"]] rho_q (VI 5) (proj1 ex_inline_guarded_value));
    [left; reflexivity | left; reflexivity | | |]; vm_compute; reflexivity.
Qed.

(* inline_side_guarded alone, without a proposal, does not give the value: the instances of F19 satisfy it *)
Example ex_inline_guarded_needs_proposal :
  inline_side_guarded d_g [lf "y"] = true /\ call_val rho_y d_g [lf "y"] = Some (VI 11) /\
  eval rho_y (beta d_g [lf "y"]) = Some (VI 2) /\ rw_inline [d_g] (iap "g" [lf "y"]) = Some [].
Proof. vm_compute. repeat split. Qed.
