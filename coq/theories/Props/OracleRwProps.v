(* Properties of the rewrites of Model/OracleRw.v (ArithmeticStrengthenRelation, BoolXORRemoveConstant, FPShortSort,
   StringSimplifyConstant, RemoveDatatypeIdentity, Constants, ReplaceByVariable).  Statements only; proofs in Proofs/More3.
   The oracle arguments (tables of the implementation: selectors, constructors, is_definition_node, get_sort,
   get_default_constants, the variables of a sort) are universally quantified: the theorems hold whatever the
   implementation's tables contain.
   (a) closure: every replacement of a well-formed node (Spec/StdReader.v) is well formed, given that the oracle values
       that are copied into replacements are;
   (b) termination-relevant facts;
   (c) what RemoveDatatypeIdentity, FPShortSort, ArithmeticStrengthenRelation and BoolXORRemoveConstant preserve;
   (d) an example of a non-trivial proposal per mutator. *)
From DD Require Import Spec.StdReader Model.Rewrites Model.OracleRw.
From DD Require Import Proofs.Closure.RwClosed Proofs.More3.Strings Proofs.More3.Order Proofs.More3.Closed Proofs.More3.Facts Proofs.More3.Examples.
From Coq Require Import Relations.
Local Open Scope list_scope.

(* ================= (a) closure ================= *)
Theorem rw_arith_strengthen_wf : forall e l e', wf e = true -> rw_arith_strengthen e = Some l -> In e' l -> wf e' = true.
Proof. exact rw_arith_strengthen_closed. Qed.
Print Assumptions rw_arith_strengthen_wf.

Theorem rw_bool_xor_const_wf : forall e l e', wf e = true -> rw_bool_xor_const e = Some l -> In e' l -> wf e' = true.
Proof. exact rw_bool_xor_const_closed. Qed.
Print Assumptions rw_bool_xor_const_wf.

Theorem rw_fp_short_sort_wf : forall e l e', wf e = true -> rw_fp_short_sort e = Some l -> In e' l -> wf e' = true.
Proof. exact rw_fp_short_sort_closed. Qed.
Print Assumptions rw_fp_short_sort_wf.

Theorem rw_str_simp_const_wf : forall e l e', wf e = true -> rw_str_simp_const e = Some l -> In e' l -> wf e' = true.
Proof. exact rw_str_simp_const_closed. Qed.
Print Assumptions rw_str_simp_const_wf.

(* the interesting part: every proposal is a leaf that the reader reads back as ONE string literal, whatever the node *)
Theorem rw_str_simp_const_strlit : forall e l e',
  rw_str_simp_const e = Some l -> In e' l -> exists t, e' = L t /\ strlit_ok t = true.
Proof. exact str_simp_const_strlit. Qed.
Print Assumptions rw_str_simp_const_strlit.

(* the implementation's test of a candidate is the reader's test of a literal's body *)
Theorem str_is_closed_is_strbody_ok : forall s, is_closed s = strbody_ok s.
Proof. exact is_closed_strbody. Qed.
Print Assumptions str_is_closed_is_strbody_ok.

Theorem rw_dt_identity_wf : forall sels ctors e l e',
  wf e = true -> rw_dt_identity sels ctors e = Some l -> In e' l -> wf e' = true.
Proof. exact rw_dt_identity_closed. Qed.
Print Assumptions rw_dt_identity_wf.

Theorem rw_constants_wf : forall isdef sort dc,
  (forall res, dc = Some res -> forallb wf res = true) ->
  forall e l e', wf e = true -> rw_constants isdef sort dc e = Some l -> In e' l -> wf e' = true.
Proof. exact rw_constants_closed. Qed.
Print Assumptions rw_constants_wf.

Theorem rw_replace_by_var_wf : forall inc isdef sort vars,
  forallb leaf_ok vars = true ->
  forall e l e', wf e = true -> rw_replace_by_var inc isdef sort vars e = Some l -> In e' l -> wf e' = true.
Proof. exact rw_replace_by_var_closed. Qed.
Print Assumptions rw_replace_by_var_wf.

(* ================= (b) termination-relevant facts ================= *)
(* ---- the code-point order on strings (Python's < on str) is a strict total order, and it is the lexicographic one ---- *)
Theorem str_lt_irrefl : forall a, str_ltb a a = false.
Proof. exact str_ltb_irrefl. Qed.
Print Assumptions str_lt_irrefl.

Theorem str_lt_trans : forall a b c, str_ltb a b = true -> str_ltb b c = true -> str_ltb a c = true.
Proof. exact str_ltb_trans. Qed.
Print Assumptions str_lt_trans.

Theorem str_lt_total : forall a b, a = b \/ str_ltb a b = true \/ str_ltb b a = true.
Proof. exact str_ltb_total. Qed.
Print Assumptions str_lt_total.

Theorem str_lt_lexicographic : forall a b, str_ltb a b = true <->
  (exists r, r <> [] /\ b = a ++ r) \/
  (exists p x y ra rb, a = p ++ x :: ra /\ b = p ++ y :: rb /\ (x < y)%N).
Proof. exact str_ltb_spec. Qed.
Print Assumptions str_lt_lexicographic.

(* ---- ReplaceByVariable on a leaf: only names of the table that are strictly greater (inc) / smaller (dec) ---- *)
Theorem rw_replace_by_var_leaf_ordered : forall inc isdef sort vars s l e',
  rw_replace_by_var inc isdef sort vars (L s) = Some l -> In e' l ->
  exists v, e' = L v /\ In v vars /\ (if inc then str_ltb s v = true else str_ltb v s = true).
Proof. exact rbv_leaf_ordered'. Qed.
Print Assumptions rw_replace_by_var_leaf_ordered.

(* every proposal of ReplaceByVariable is a leaf, so a chain of its steps on leaves is all there is after the first step *)
Theorem rw_replace_by_var_proposes_leaves : forall inc isdef sort vars e l e',
  rw_replace_by_var inc isdef sort vars e = Some l -> In e' l -> exists v, e' = L v /\ In v vars.
Proof. exact rbv_proposes_leaves. Qed.
Print Assumptions rw_replace_by_var_proposes_leaves.

(* no chain of leaf replacements by ReplaceByVariable alone (one mode) returns to its start; the oracle values may
   change from step to step *)
Theorem rw_replace_by_var_chain_ordered : forall inc a b,
  clos_trans sexp (rbv_step inc) a b ->
  exists s t, a = L s /\ b = L t /\ (if inc then str_ltb s t = true else str_ltb t s = true).
Proof. exact rbv_chain_ordered'. Qed.
Print Assumptions rw_replace_by_var_chain_ordered.

Theorem rw_replace_by_var_no_cycle : forall inc e, ~ clos_trans sexp (rbv_step inc) e e.
Proof. exact rbv_no_cycle. Qed.
Print Assumptions rw_replace_by_var_no_cycle.

(* ---- Constants ---- *)
Theorem rw_constants_fixpoint : forall isdef sort res e, In e res -> rw_constants isdef sort (Some res) e = Some [].
Proof. exact constants_fixpoint. Qed.
Print Assumptions rw_constants_fixpoint.

Theorem rw_constants_sound : forall isdef sort dc e l e',
  rw_constants isdef sort dc e = Some l -> In e' l ->
  exists res, dc = Some res /\ l = res /\ In e' res /\ ~ In e res /\ isdef = false /\ sort <> None.
Proof. exact constants_sound. Qed.
Print Assumptions rw_constants_sound.

Theorem rw_constants_one_step : forall isdef sort dc e l e' isdef' sort',
  rw_constants isdef sort dc e = Some l -> In e' l -> rw_constants isdef' sort' dc e' = Some [].
Proof. exact constants_one_step. Qed.
Print Assumptions rw_constants_one_step.

(* ---- StringSimplifyConstant: strictly shorter ---- *)
Theorem rw_str_simp_const_shorter : forall s l t,
  wf (L s) = true -> rw_str_simp_const (L s) = Some l -> In (L t) l -> length t < length s.
Proof. exact str_simp_const_shorter_wf. Qed.
Print Assumptions rw_str_simp_const_shorter.

Theorem rw_str_simp_const_shorter_2 : forall s l t,
  2 <= length s -> rw_str_simp_const (L s) = Some l -> In (L t) l -> length t < length s.
Proof. exact str_simp_const_shorter. Qed.
Print Assumptions rw_str_simp_const_shorter_2.

(* the hypothesis is needed: for the leaf made of one double quote (no reader produces it) the proposals are longer *)
Example rw_str_simp_const_lone_quote :
  rw_str_simp_const (L [cDQ]) = Some [L empty_strlit; L empty_strlit; L empty_strlit].
Proof. exact str_simp_const_lone_quote. Qed.

(* the cut of a section never starts after the section's start *)
Theorem str_fix_escape_range : forall s e, (0 <= e)%Z -> (0 <= fix_escape s e <= e)%Z.
Proof. exact fix_escape_range. Qed.
Print Assumptions str_fix_escape_range.

(* ================= (c) what is preserved ================= *)
(* RemoveDatatypeIdentity: the one proposal is the argument at the selector's index of an application of the
   selector's own constructor *)
Theorem rw_dt_identity_selected : forall sels ctors e l e',
  rw_dt_identity sels ctors e = Some l -> In e' l ->
  exists s c idx args,
    e = T [L s; T (L c :: args)] /\ slookup (L s) sels = Some (L c, idx) /\ In (L c) ctors /\
    nth_error args idx = Some e' /\ l = [e'].
Proof. exact dt_identity_selected. Qed.
Print Assumptions rw_dt_identity_selected.

Theorem rw_dt_identity_complete : forall sels ctors s c idx args x,
  slookup (L s) sels = Some (L c, idx) -> In (L c) ctors -> nth_error args idx = Some x ->
  rw_dt_identity sels ctors (T [L s; T (L c :: args)]) = Some [x].
Proof. exact dt_identity_complete. Qed.
Print Assumptions rw_dt_identity_complete.

Theorem rw_dt_identity_smaller : forall sels ctors e l e',
  rw_dt_identity sels ctors e = Some l -> In e' l -> size e' + 4 <= size e.
Proof. exact dt_identity_smaller. Qed.
Print Assumptions rw_dt_identity_smaller.

(* FPShortSort: exactly the four standard formats (5, 11), (8, 24), (11, 53), (15, 113), written as decimal numerals
   without leading zeros, and the short name is Float<eb + sb> *)
Theorem rw_fp_short_sort_sound : forall e l e',
  rw_fp_short_sort e = Some l -> In e' l ->
  exists eb sb, In (eb, sb) fp_formats /\ e = fp_long eb sb /\ e' = fp_short eb sb /\ l = [e'].
Proof. exact fp_short_sort_sound. Qed.
Print Assumptions rw_fp_short_sort_sound.

Theorem rw_fp_short_sort_complete : forall eb sb,
  In (eb, sb) fp_formats -> rw_fp_short_sort (fp_long eb sb) = Some [fp_short eb sb].
Proof. exact fp_short_sort_complete. Qed.
Print Assumptions rw_fp_short_sort_complete.

Theorem rw_fp_short_sort_other : forall h x a b,
  (forall eb sb, In (eb, sb) fp_formats -> T [h; x; a; b] <> fp_long eb sb) ->
  rw_fp_short_sort (T [h; x; a; b]) = Some [].
Proof. exact fp_short_sort_other. Qed.
Print Assumptions rw_fp_short_sort_other.

(* ArithmeticStrengthenRelation: same operands under =, or under the strict version of a non-strict relation *)
Theorem rw_arith_strengthen_operands : forall e l e',
  rw_arith_strengthen e = Some l -> In e' l ->
  exists h args r, e = T (L h :: args) /\ e' = node_of r args /\
                   (r = "="%string \/ (iss h "<=" = true /\ r = "<"%string) \/ (iss h ">=" = true /\ r = ">"%string)).
Proof. exact arith_strengthen_operands. Qed.
Print Assumptions rw_arith_strengthen_operands.

(* BoolXORRemoveConstant: all occurrences of one constant go, the other operands stay in order; removing true is also
   proposed under a negation *)
Theorem rw_bool_xor_const_operands : forall e l e',
  rw_bool_xor_const e = Some l -> In e' l ->
  exists h args, e = T (L h :: args) /\ iss h "xor" = true /\
    ((In (lf "false") args /\ e' = T (without "false" (L h :: args))) \/
     (In (lf "true") args /\ (e' = T (without "true" (L h :: args)) \/ e' = T [lf "not"; T (without "true" (L h :: args))]))).
Proof. exact bool_xor_const_operands. Qed.
Print Assumptions rw_bool_xor_const_operands.

(* ================= (d) proposals ================= *)
Example oracle_ex_arith_strengthen :
  rw_arith_strengthen (ap "<=" [lf "i"; lf "j"; lf "k"]) = Some [ap "<" [lf "i"; lf "j"; lf "k"]; ap "=" [lf "i"; lf "j"; lf "k"]] /\
  rw_arith_strengthen (ap "distinct" [lf "i"; lf "j"]) = Some [ap "=" [lf "i"; lf "j"]] /\
  rw_arith_strengthen (ap ">" []) = Some [lf "="] /\
  rw_arith_strengthen (ap "=" [lf "i"; lf "j"]) = Some [].
Proof. exact ex_arith_strengthen. Qed.

Example oracle_ex_bool_xor_const :
  rw_bool_xor_const (ap "xor" [lf "p"; lf "true"; lf "q"; lf "false"]) =
    Some [ap "xor" [lf "p"; lf "true"; lf "q"];
          ap "xor" [lf "p"; lf "q"; lf "false"];
          ap "not" [ap "xor" [lf "p"; lf "q"; lf "false"]]] /\
  rw_bool_xor_const (ap "xor" [lf "true"; lf "true"]) = Some [T [lf "xor"]; ap "not" [T [lf "xor"]]] /\
  rw_bool_xor_const (ap "xor" [lf "p"; lf "q"]) = Some [].
Proof. exact ex_bool_xor_const. Qed.

Example oracle_ex_fp_short_sort :
  rw_fp_short_sort (T [lf "_"; lf "FloatingPoint"; lf "8"; lf "24"]) = Some [lf "Float32"] /\
  rw_fp_short_sort (T [lf "_"; lf "FloatingPoint"; lf "15"; lf "113"]) = Some [lf "Float128"] /\
  rw_fp_short_sort (T [lf "_"; lf "FloatingPoint"; lf "5"; lf "24"]) = Some [] /\
  rw_fp_short_sort (T [lf "_"; lf "FloatingPoint"; lf "08"; lf "24"]) = Some [] /\
  rw_fp_short_sort (lf "Float32") = Some [].
Proof. exact ex_fp_short_sort. Qed.

Example oracle_ex_str_simp_const :
  rw_str_simp_const (sl "abcdefgh") =
    Some [sl ""; sl "abcd"; sl "efgh"; sl "abcdef"; sl "abcdgh"; sl "abefgh"; sl "cdefgh"; sl "bcdefgh"; sl "abcdefg"] /\
  rw_str_simp_const (sl "a""""b") = Some [sl ""; sl """""b"; sl "a"""""] /\
  rw_str_simp_const (sl "") = Some [] /\
  rw_str_simp_const (lf "abc") = Some [] /\
  rw_str_simp_const (L []) = None.
Proof. exact ex_str_simp_const. Qed.

(* escape sequences are protected only in part: see Proofs/More3/Examples.v *)
Example oracle_ex_str_simp_const_escapes :
  (exists r, rw_str_simp_const (sl "abcdefgh\u{41}ijklmnop") = Some (sl "" :: sl "abcdefgh" :: sl "41}ijklmnop" :: r)) /\
  rw_str_simp_const (sl "ab\u{41}") =
    Some [sl ""; sl "ab\u"; sl "{41}"; sl "ab\u{4"; sl "ab\u1}"; sl "ab{41}"; sl "\u{41}"; sl "b\u{41}"; sl "ab\u{41"] /\
  (exists r, rw_str_simp_const (sl "\u{10FFFF}") = Some (sl "" :: sl "\u{10" :: sl "FFFF}" :: r)).
Proof. exact ex_str_simp_const_escapes. Qed.

Example oracle_ex_dt_identity :
  rw_dt_identity ex_sels ex_ctors (ap "a3" [ap "mk3" [lf "1"; lf "2"; lf "c"]]) = Some [lf "c"] /\
  rw_dt_identity ex_sels ex_ctors (ap "snd" [ap "mk" [lf "i"; ap "not" [lf "b"]]]) = Some [ap "not" [lf "b"]] /\
  rw_dt_identity ex_sels ex_ctors (ap "fst" [ap "mk3" [lf "1"; lf "2"; lf "c"]]) = Some [] /\
  rw_dt_identity ex_sels ex_ctors (ap "a3" [ap "mk3" [lf "1"; lf "2"]]) = Some [] /\
  rw_dt_identity ex_sels ex_ctors (ap "fst" [lf "p"]) = Some [].
Proof. exact ex_dt_identity. Qed.

Example oracle_ex_constants :
  rw_constants false (Some (lf "Int")) (Some [lf "0"; lf "1"]) (ap "+" [lf "i"; lf "7"]) = Some [lf "0"; lf "1"] /\
  rw_constants false (Some (lf "Int")) (Some [lf "0"; lf "1"]) (lf "1") = Some [] /\
  rw_constants false (Some (T [lf "_"; lf "BitVec"; lf "8"])) (Some [bvc "bv0" "8"; bvc "bv1" "8"]) (lf "#x00") = Some [bvc "bv0" "8"; bvc "bv1" "8"] /\
  rw_constants true (Some (lf "Int")) (Some [lf "0"; lf "1"]) (lf "x") = Some [] /\
  rw_constants false None None (lf "x") = Some [] /\
  rw_constants false (Some (T [lf "_"; lf "FloatingPoint"; lf "5"; lf "b"])) None (lf "x") = None.
Proof. exact ex_constants. Qed.

Example oracle_ex_replace_by_var :
  rw_replace_by_var true false (Some (lf "Int")) ex_vars (lf "m") = Some [lf "z"; lf "ma"] /\
  rw_replace_by_var false false (Some (lf "Int")) ex_vars (lf "m") = Some [lf "a"; lf "B"; lf "lz"] /\
  rw_replace_by_var true false (Some (lf "Int")) ex_vars (ap "+" [lf "m"; lf "1"]) = Some (map L ex_vars) /\
  rw_replace_by_var true false (Some (lf "Real")) ex_vars (ap "/" [lf "1"; lf "2"]) = Some [] /\
  rw_replace_by_var true false (Some (lf "Real")) ex_vars (ap "/" [lf "m"; lf "2"]) = Some (map L ex_vars) /\
  rw_replace_by_var false false (Some (lf "Int")) ex_vars (lf "7") = Some [] /\
  rw_replace_by_var true true (Some (lf "Int")) ex_vars (lf "m") = Some [] /\
  rw_replace_by_var true false None ex_vars (lf "m") = Some [] /\
  rw_replace_by_var true false (Some (lf "Int")) ex_vars (L []) = None.
Proof. exact ex_replace_by_var. Qed.

(* code points, not UTF-16 units: U+FF5E precedes U+1D4B3 *)
Example oracle_ex_str_ltb_code_points :
  str_ltb [65374%N] [119987%N] = true /\ str_ltb (lit "x1") (lit "x10") = true /\ str_ltb (lit "x10") (lit "x2") = true /\
  str_ltb (lit "Z") (lit "a") = true /\ str_ltb (lit "a") (lit "a") = false /\ str_ltb [] (lit "a") = true.
Proof. exact ex_str_ltb_code_points. Qed.
