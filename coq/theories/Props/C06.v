(* C06: the output file is a complete accepted input at every instant.
   Protocol-level theorems (Model/FileProto.v): for every sequence of accepted
   inputs, every chunking of their renderings into low-level writes and every
   prefix of the resulting operation sequence (= every crash point / every
   instant a reader can look).  PARTIAL: atomicity of rename(2), buffering
   inside CPython's file object and signal timing are assumed, not exhibited. *)
From DD Require Import Model.FileProto Proofs.FileProofs.

Theorem crash_safe : forall (ws : list (list str)) (s : fs) (k : nat),
  let s' := run_ops s (firstn k (run_rewrites ws)) in
  f_out s' = f_out s \/ exists cs, In cs ws /\ f_out s' = Some (text cs).
Proof. exact crash_safe_lemma. Qed.
Print Assumptions crash_safe.

Theorem complete_from_first_rewrite_on : forall ws s k cs0,
  f_out s = Some (text cs0) ->
  exists cs, (cs = cs0 \/ In cs ws) /\ f_out (run_ops s (firstn k (run_rewrites ws))) = Some (text cs).
Proof. exact never_empty_again. Qed.
Print Assumptions complete_from_first_rewrite_on.

Theorem rewrite_installs_new_text : forall s cs, run_ops s (rewrite_ops cs) = mk_fs (Some (text cs)) None.
Proof. exact rewrite_complete. Qed.
Print Assumptions rewrite_installs_new_text.

Theorem interrupt_keeps_last_accepted : forall s cs k,
  let s' := run_ops s (interrupted_rewrite cs k) in
  f_tmp s' = None /\ (f_out s' = f_out s \/ f_out s' = Some (text cs)).
Proof. exact interrupt_safe. Qed.
Print Assumptions interrupt_keeps_last_accepted.

(* the truncating protocol the code used before the repair violates the property *)
Theorem truncating_protocol_refuted :
  exists (prev : str) (cs : list str) (k : nat),
    let s' := run_ops (mk_fs (Some prev) None) (firstn k (old_rewrite_ops cs)) in
    f_out s' <> Some prev /\ f_out s' <> Some (text cs).
Proof. exact old_protocol_unsafe. Qed.
Print Assumptions truncating_protocol_refuted.
