"""Stand-alone validation of declcorr: >= 2000 generated scripts + targeted instances + the malformed corpus + token fuzz,
expecting 0 differences; then the NEGATIVE CONTROL (the harness expects the answer without the |x| / x aliasing), which
must produce differences.  Usage: PYTHONPATH=harness /venv/bin/python harness/declcorr_validate.py [nscripts] [seed]"""
import random
import sys

ARGV = list(sys.argv)      # importing impl rewrites sys.argv for ddsmt's option parser

import common
import impl
import smtgen
import instances
import declcorr


def main():
    n = int(ARGV[1]) if len(ARGV) > 1 else 2000
    seed = int(ARGV[2]) if len(ARGV) > 2 else 1
    rng = random.Random(seed)
    ok, log = common.build_driver()
    assert ok, log
    texts = []
    for _ in range(n):
        g, cmds = smtgen.gen_script(rng, nasserts=rng.choice([1, 2, 3]), depth=rng.choice([1, 2, 3]), exotic=rng.choice([0.0, 0.0, 0.4, 1.0]))
        texts.append(smtgen.script_text(cmds))
    ninst = 0
    for cls in instances.classes():
        for ex in (0.0, 0.5, 1.0):
            try:
                r = instances.make(rng, cls, exotic=ex)
            except Exception:  # noqa
                r = None
            if r is not None:
                texts.append(r[0])
                ninst += 1
    counts, diffs, raises = {}, [], []

    def count(k, m=1):
        counts[k] = counts.get(k, 0) + m

    def report(name, soft=False, **kw):
        (raises if soft else diffs).append(dict(function=name, **kw))

    all_texts = declcorr.corpus(rng, texts, nfuzz=1500, ndecl=1500)
    ncalls, ndiff = declcorr.compare(impl, common.Model(), all_texts, report, count)
    print(f'generated scripts: {n}, targeted instances: {ninst}, corpus: {len(declcorr.CORPUS)}, texts in total: {len(all_texts)}, model calls: {ncalls}')
    for k in sorted(counts):
        print(f'  {k}: {counts[k]}')
    print(f'inputs on which collect_information raises: {len(raises)}')
    for r in raises[:20]:
        print('  ', r)
    print(f'DIFFERENCES: {len(diffs)}')
    for d in diffs[:15]:
        print('  ', d)
    # negative control
    cdiffs = []
    ctl = [t for t in all_texts if '|' in t][:300] + declcorr.CORPUS
    declcorr.compare(impl, common.Model(), ctl, lambda name, soft=False, **kw: (None if soft else cdiffs.append(dict(function=name, **kw))), lambda *a: None, alias=False)
    print(f'NEGATIVE CONTROL (aliasing removed from the expected answer): {len(cdiffs)} differences on {len(ctl)} texts')
    for d in cdiffs[:3]:
        print('  ', d)
    tdiffs = []
    declcorr.compare(impl, common.Model(), declcorr.CORPUS, lambda name, soft=False, **kw: (None if soft else tdiffs.append(dict(function=name, **kw))), lambda *a: None, tokens=False)
    print(f'NEGATIVE CONTROL 2 (__all_tokens removed from the expected answer): {len(tdiffs)} differences on {len(declcorr.CORPUS)} texts')
    for d in tdiffs[:2]:
        print('  ', d)
    return 0 if not diffs and cdiffs and tdiffs else 1


if __name__ == '__main__':
    sys.exit(main())
