"""Stand-alone validation of conseqcorr: >= 1500 generated scripts + targeted instances + corpus + shadowing scripts, expecting 0
differences; then the NEGATIVE CONTROLS, each of which must produce differences.
Usage: PYTHONPATH=harness /venv/bin/python harness/conseqcorr_validate.py [nscripts] [seed]"""
import random
import sys

ARGV = list(sys.argv)      # importing impl rewrites sys.argv for ddsmt's option parser

import common
import impl
import smtgen
import instances
import conseqcorr


def main():
    n = int(ARGV[1]) if len(ARGV) > 1 else 1500
    seed = int(ARGV[2]) if len(ARGV) > 2 else 1
    rng = random.Random(seed)
    ok, log = common.build_driver()
    assert ok, log
    texts = []
    for _ in range(n):
        g, cmds = smtgen.gen_script(rng, nasserts=rng.choice([1, 2, 3]), depth=rng.choice([1, 2, 3]), exotic=rng.choice([0.0, 0.0, 0.4, 1.0]))
        texts.append(smtgen.script_text(cmds))
    ninst = 0
    for cls in instances.classes():
        for ex in (0.0, 0.5, 1.0):
            try:
                r = instances.make(rng, cls, exotic=ex)
            except Exception:  # noqa
                r = None
            if r is not None:
                texts.append(r[0])
                ninst += 1
    counts, diffs = {}, []

    def count(k, m=1):
        counts[k] = counts.get(k, 0) + m

    all_texts = conseqcorr.corpus(rng, texts, nshadow=800)
    ncalls, ndiff = conseqcorr.compare(impl, common.Model(), all_texts, lambda name, **kw: diffs.append(dict(function=name, **kw)), count)
    print(f'generated scripts: {n}, targeted instances: {ninst}, corpus texts: {len(conseqcorr.TEXT_CORPUS)}, corpus sorts: {len(conseqcorr.SORT_CORPUS)}, texts in total: {len(all_texts)}, model calls: {ncalls}')
    for k in sorted(counts):
        print(f'  {k}: {counts[k]}')
    print(f'DIFFERENCES: {len(diffs)}')
    for d in diffs[:15]:
        print('  ', d)
    ok = not diffs
    ctl = conseqcorr.TEXT_CORPUS + all_texts[:150]
    for control in ('nofilter', 'order', 'fpwidth', 'lastdecl'):
        cd = []
        conseqcorr.compare(impl, common.Model(), ctl, lambda name, **kw: cd.append(dict(function=name, **kw)), lambda *a: None, control=control)
        print(f'NEGATIVE CONTROL {control}: {len(cd)} differences on {len(ctl)} texts')
        for d in cd[:1]:
            print('  ', {k: str(v)[:200] for k, v in d.items()})
        ok = ok and bool(cd)
    return 0 if ok else 1


if __name__ == '__main__':
    sys.exit(main())
