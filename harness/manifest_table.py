PARTIAL = 'not yet claimed: machinery for this property is still being built (see DESIGN.md section 8)'
CLAIMED = {
    'C07': ('Coq proof of parse/render round trip over a scanner automaton + extracted-model correspondence',
            'Theorems (all trees, all four renderers) about Gallina models of parse_smtlib and the four writers; models tied to the '
            'code by running both on generated trees/texts on every run; property re-checked directly on the implementation.',
            'Trusted: Coq kernel, extraction (ExtrOcamlBasic), OCaml driver, python generators/differ; writers are modelled structurally '
            '(the explicit-stack loops are tied by correspondence only).', 'DESIGN.md section 4, C07'),
    'C11': ('Coq proof that the explicit-stack substitute refines a structural specification (fuel bound, token exactness, identity of untouched subtrees) + extracted-model correspondence',
            'Theorems about Gallina models of nodes.substitute (stack machine and structural), apply_simp and introduce_variables; tied to the code by running '
            'model and implementation on generated forests/replacement maps; the property is re-checked directly on the implementation with an independent token-level oracle.',
            'Trusted: Coq kernel, extraction, OCaml driver, python generators/differ. Hypotheses: identity keys designate non-nested nodes of an input with distinct identities.', 'DESIGN.md section 4, C11'),
    'C12': ('Coq proof that node equality/hash/pickle/deepcopy/traversals agree with structure for arbitrary hash functions + extracted-model correspondence (in-process and fork pool)',
            'Theorems over all trees and all hash functions about Gallina models of Node.__eq__ (two-stack machine and structural), pickling records, deepcopy, dfs/bfs/counts; '
            'tied to the code by correspondence on generated pairs (incl. a constant-hash world that forces the structural walk) and through a fork-based pool.',
            'Trusted: Coq kernel, extraction, OCaml driver, python harness. Pickling is modelled at record level (struct packing/UTF-8 not modelled, exercised on the implementation).', 'DESIGN.md section 4, C12'),
    'C13': ('Coq proof that reduplicate preserves shapes, yields pairwise distinct identities and is the identity on trees + extracted-model correspondence on DAGs',
            'Theorems about a Gallina model of nodes.reduplicate over all lists with arbitrary sharing; tied to the code by correspondence on generated DAGs (shared leaves, subtrees, empty lists).',
            'Trusted: Coq kernel, extraction, OCaml driver, python harness. Assumes all identities of the input are <= the allocator counter.', 'DESIGN.md section 4, C13'),
    'C08': ('Coq proof that the scanner automaton computes the standard nesting structure of any legally separated lexeme sequence + extracted-model/spec correspondence',
            'reader_standard/literal_opaque over all lexeme sequences and separators, about a Gallina model of parse_smtlib and an independent reader specification; '
            'tied to the code by systematic pair enumeration and random sequences (implementation vs extracted specification vs model).',
            'Trusted: Coq kernel, extraction, OCaml driver, python harness; the spec of the standard reader (Spec/StdReader.v).', 'DESIGN.md section 4, C08'),
    'C09': ('Coq proof that the decision code translated from checker.py on every run computes the documented acceptance rule + real subprocess correspondence',
            'accept_iff over all option combinations and outcomes about Gallina code regenerated from the AST of matches_golden/check (fail-closed translator); '
            'additionally exhaustive/real-subprocess correspondence with a scripted command (argv, extension, --unchecked).',
            'Trusted: Coq kernel, the ast translator, extraction, python harness. Assumes configured match strings are non-empty.', 'DESIGN.md section 4, C09'),
}
ALL = ['C%02d' % i for i in range(1, 19)]
NOT_APPLICABLE = {p: PARTIAL for p in ALL if p not in CLAIMED}
