PARTIAL = 'not yet claimed: machinery for this property is still being built (see DESIGN.md section 8)'
CLAIMED = {
    'C07': ('Coq proof of parse/render round trip over a scanner automaton + extracted-model correspondence',
            'Theorems (all trees, all four renderers) about Gallina models of parse_smtlib and the four writers; models tied to the '
            'code by running both on generated trees/texts on every run; property re-checked directly on the implementation.',
            'Trusted: Coq kernel, extraction (ExtrOcamlBasic), OCaml driver, python generators/differ; writers are modelled structurally '
            '(the explicit-stack loops are tied by correspondence only).', 'DESIGN.md section 4, C07'),
    'C11': ('Coq proof that the explicit-stack substitute refines a structural specification (fuel bound, token exactness, identity of untouched subtrees) + extracted-model correspondence',
            'Theorems about Gallina models of nodes.substitute (stack machine and structural), apply_simp and introduce_variables; tied to the code by running '
            'model and implementation on generated forests/replacement maps; the property is re-checked directly on the implementation with an independent token-level oracle.',
            'Trusted: Coq kernel, extraction, OCaml driver, python generators/differ. Hypotheses: identity keys designate non-nested nodes of an input with distinct identities.', 'DESIGN.md section 4, C11'),
    'C12': ('Coq proof that node equality/hash/pickle/deepcopy/traversals agree with structure for arbitrary hash functions + extracted-model correspondence (in-process and fork pool)',
            'Theorems over all trees and all hash functions about Gallina models of Node.__eq__ (two-stack machine and structural), pickling records, deepcopy, dfs/bfs/counts; '
            'tied to the code by correspondence on generated pairs (incl. a constant-hash world that forces the structural walk) and through a fork-based pool.',
            'Trusted: Coq kernel, extraction, OCaml driver, python harness. Pickling is modelled at record level (struct packing/UTF-8 not modelled, exercised on the implementation).', 'DESIGN.md section 4, C12'),
    'C13': ('Coq proof that reduplicate preserves shapes, yields pairwise distinct identities and is the identity on trees + extracted-model correspondence on DAGs',
            'Theorems about a Gallina model of nodes.reduplicate over all lists with arbitrary sharing; tied to the code by correspondence on generated DAGs (shared leaves, subtrees, empty lists).',
            'Trusted: Coq kernel, extraction, OCaml driver, python harness. Assumes all identities of the input are <= the allocator counter.', 'DESIGN.md section 4, C13'),
    'C08': ('Coq proof that the scanner automaton computes the standard nesting structure of any legally separated lexeme sequence + extracted-model/spec correspondence',
            'reader_standard/literal_opaque over all lexeme sequences and separators, about a Gallina model of parse_smtlib and an independent reader specification; '
            'tied to the code by systematic pair enumeration and random sequences (implementation vs extracted specification vs model).',
            'Trusted: Coq kernel, extraction, OCaml driver, python harness; the spec of the standard reader (Spec/StdReader.v).', 'DESIGN.md section 4, C08'),
    'C09': ('Coq proof that the decision code translated from checker.py on every run computes the documented acceptance rule + real subprocess correspondence',
            'accept_iff over all option combinations and outcomes about Gallina code regenerated from the AST of matches_golden/check (fail-closed translator); '
            'additionally exhaustive/real-subprocess correspondence with a scripted command (argv, extension, --unchecked).',
            'Trusted: Coq kernel, the ast translator, extraction, python harness. Assumes configured match strings are non-empty.', 'DESIGN.md section 4, C09'),
    'C01': ('Coq proof composing the scheduler chain invariant (all interleavings) with renderer token agreement + end-to-end re-run of the command on real outputs',
            'golden / golden_at_exit: for every reachable state of the hierarchical scheduler model and any token-determined command, every written content is an accepted candidate and all '
            'three output formats carry its tokens; tied to the code by real runs (launcher) whose output files are re-run under the configured comparison, over strategies, -j, formats, cross-check.',
            'Trusted: Coq kernel; the scheduler model is tied by history checks of real runs (TIE-H); hypotheses: token-determined deterministic command, candidates lexically closed (C15).', 'DESIGN.md section 4, C01'),
    'C02': ('Coq proof (invariant over all interleavings) that a finished hierarchical run has tested and rejected every candidate of the last pass + exhaustive re-enumeration on real outputs',
            'fixpoint theorem about Model/SchedHier.v for any number of workers; with C14 hier_last_pass = every enabled mutator. Tie: real runs under perturbed schedules; every proposal of every '
            'enabled mutator on the final output is enumerated with ddSMT\'s own Producer and the command is run on each.',
            'Trusted: Coq kernel, launcher wrappers; assumes a deterministic command and that the pool delivers one result per generated task.', 'DESIGN.md section 4/10, C02'),
    'C05': ('Coq proof of chain / no-stale-adoption / file-is-last invariants over all interleavings of the scheduler model + history analysis of real parallel runs',
            'no_stale, chain, written_was_checked, file_is_last for every reachable state of Model/SchedHier.v and d_no_stale, d_chain, d_file_is_last for Model/SchedDdmin.v; tie: recorded histories of real runs (hierarchical, hybrid, ddmin; -j 1..4; '
            'injected delays) are checked: every write preceded by an accepted test of the same tokens, adopting sweep/task based on the current input, file = last element.',
            'Trusted: Coq kernel, launcher wrappers (module-level monkey patching), token digests. Real hierarchical histories and every ddmin task-generator instance are replayed in the extracted models (SchedHier.v, SchedDdmin.v); ddmin workers log the digest of the input they really used against the one their task carries.', 'DESIGN.md section 4/10, C05'),
    'C18': ('Coq proof that one-worker (FIFO) executions of the scheduler model have prefix-comparable write histories (simulation by a deterministic sequential semantics) + repeated real -j1 runs',
            'seq_deterministic / seq_deterministic_final / seq_refines about Model/SchedHier.v, parametric in hash functions; tie: each job is run three times under different PYTHONHASHSEED and delays; '
            'write sequences and output bytes must coincide. Known finding F18 (fresh-variable names from node ids) is recognised and reported as KNOWN-FINDING.',
            'Trusted: Coq kernel, launcher. Hypothesis: candidate enumeration independent of node identities (violated by IntroduceFreshVariable: known finding).', 'DESIGN.md section 4, C18'),
    'C14': ('Coq proof that the namespace fold + theory detection computes the documented enabled set, and that pass lists regenerated from the source schedule exactly the enabled mutators + real parse_options correspondence',
            'enabled_correct (generic), registry_sound / hier_last_pass_gen / ddmin_passes_spec_gen by computation over Gen/Tables.v regenerated from the source on every run; '
            'tie: real options.parse_options + auto_detect_theories + get_passes/ddmin_passes for all single options, ordered pairs and random sequences.',
            'Trusted: Coq kernel, ast translator (fails closed, behaviour-relevant functions pinned by fingerprint), extraction, harness. argparse prefix abbreviations not modelled.', 'DESIGN.md section 4, C14'),
    'C10': ('Coq proof on the decision code translated from checker.py that a timed-out run is rejected unless the golden run ended the same way + real runs with hanging/spinning/allocating/self-killing commands',
            'timeout_rejected, timeout_cc_rejected, same_way_accepted, different_exit_rejected about Gen/CheckerGen.v (regenerated each run) and facts read off execute() (kill, communicate(timeout), exact shape of the timeout handler); '
            'tie: real runs where fault pairs make particular candidates hang/spin/allocate/die, over strategies, -j, --timeout/--memout, SIGKILL golden runs and hanging golden runs; every written content, wall time and surviving children are checked.',
            'PARTIAL: kernel enforcement of RLIMIT_*, pipe draining, kill/wait ordering and the Popen fact that returncode is None right after kill() are runtime behaviour the model assumes.', 'DESIGN.md section 4, C10'),
    'C04': ('Coq proof of the exit-status automaton and of mutator-failure isolation (arbitrary res-valued mutators) + malformed-stream correspondence on every main-process function and real executables',
            'exit_status_zero_iff, completed_iff, usage_diag, mutator_isolated about Model/Cli.v; parser/renderers are total Gallina functions (C07/C08 models). Tie: malformed texts through parser, theory '
            'detection, collect_information, renderers, reduplicate and both task generators with all mutators in process; bin/ddsmt and python -m ddsmt on every usage error, malformed inputs with all strategies, SIGINT; real reductions.',
            'PARTIAL: absence of internal errors in collect_information/theory detection/strategy bookkeeping on malformed input is tied by correspondence and real runs only (not a theorem); MemoryError modelled only.', 'DESIGN.md section 4, C04'),
    'C06': ('Coq proof that every prefix of the write-temp-then-rename operation sequence leaves a complete accepted text at the output path + instrumented rewrites with an interrupt injected at every low-level event and real runs under a polling reader / SIGKILL / SIGINT',
            'crash_safe, complete_from_first_rewrite_on, interrupt_keeps_last_accepted about Model/FileProto.v for every chunking and prefix; truncating_protocol_refuted for the pre-repair protocol. Tie: the real write_smtlib_to_file with open/os wrapped: '
            'disk content read after each event, KeyboardInterrupt at every event index, observed operation history replayed in the extracted model; real runs with a concurrent reader, SIGKILL, SIGINT.',
            'PARTIAL: atomicity of rename(2), CPython buffering and signal timing are assumed/sampled, not proved.', 'DESIGN.md section 4, C06'),
    'C03': ('Coq proof of termination of the strategy loop under a decreasing measure (well-founded variant, all interleavings) and of the linear iteration bounds of substitute/equality, of a strictly decreasing measure for the 15 modelled rewrites (no_cycles_partial) and of a lexicographic (size, disorder) measure for the 6 structural mutators (no_cycles_structural) + cycle/no-op/grow-and-return search and watchdogged real runs (--check-loops; accept-all command with --no-core)',
            'no_infinite_run / sweep_progress / adoptions_bounded about Model/SchedHier.v; subst_refines and eq_sm_refines give explicit fuel bounds for the only unbounded loops reachable from mutators. '
            'Props/C03Measure.v: a polynomial measure mu strictly decreased by every proposal of the 15 modelled rewrites at any position, hence no chain of them returns to a visited input (no_cycles_partial) and chains are bounded by mu. '
            'The global no-cycle claim is false of the code (FAQ) and is searched for the other mutators: every proposal of every mutator on generated inputs (no-ops, hangs), second/third-level proposals (2-/3-cycles), grow-then-return search, real runs with --check-loops and with an accept-all command under a watchdog.',
            'PARTIAL: absence of cycles is a theorem for 21 of 53 mutators (two separate rankings) and a bounded search for the rest; the decreasing measure is a hypothesis of the strategy-level termination theorem. Known cycles are listed in known_findings.json.', 'DESIGN.md section 4, C03'),
    'C15': ('Coq proof of the generic closure theorem (closed_apply, closed_apply_simp: C07 o C11) and of per-rewrite closure for the 15 modelled rewrites + exhaustive application of every proposal of all 53 mutators on generated and targeted inputs',
            'closed_apply: under NoDup ids and well-formed replacement values the substituted list (and apply_simp with declarations) is well formed and parses back from all four renderings; rw_*_wf for the 15 modelled rewrites; for all 53 mutators closure is also established by correspondence: every proposal of every mutator (all 53 exercised, targeted instances per class) is applied, rendered, '
            're-parsed and compared with the tree in memory; declarations must be fresh and precede their first use.',
            'PARTIAL: per-mutator closure theorems exist for the 23 mutators modelled in Coq (Model/Rewrites.v, CoreRw.v, LetRw.v; names of SimplifySymbolNames); for the other 30 the claim rests on the generic theorem plus the exhaustive-proposal correspondence (replacement values well formed).', 'DESIGN.md section 4, C15'),
    'C16': ('Coq proof that the modelled sort oracle is sound w.r.t. an independent typing function (get_sort_sound, bv_width_sound, subterm_sound; operator tables regenerated from smtlib.py and checked by computation) + model/implementation correspondence on every typed subterm; replacements re-typed',
            'Spec/Typing.type_of is an executable SMT-LIB typing function written independently of the code; it validates the typed generator and re-types every replacement proposed by Constants / ReplaceByVariable / IntroduceFreshVariable; '
            'get_sort and get_bv_width are compared with the actual sort on every subterm (all theories).',
            'Hypotheses of the theorems (each shown necessary by an Example): declared symbols recorded with their sorts (lookup_agrees, proved for collect_decls), literals and oracle operator names not re-declared (ops_unbound: known finding F29), binders bound once. The structural get_sort cache is not modelled (exercised by correspondence).', 'DESIGN.md section 4, C16'),
    'C17': ('Coq proofs of value and sort preservation (16 + 15 theorems over Spec/Semantics.eval and Spec/Typing.type_of) for the 15 modelled rewrites and of value preservation for LetSubstitution (rw_let_subst_identity) + rewrite-model/implementation correspondence on every node + evaluator and z3 cross-check of every (term, replacement) pair of the 21 listed mutators',
            'for each mutator of the property\'s list, instances over all widths/indices/notations (incl. formals named like symbols of the actuals); replacements are re-typed by the extracted Spec/Typing.type_of and checked equivalent. '
            'Known finding F19 (variable capture in inlining) is reported as KNOWN-FINDING.',
            'PARTIAL: theorems cover the 15 rewrites modelled in Model/Rewrites.v (Core/Ints/BV); BoolNegateQuantifier, InlineDefinedFuns, LetSubstitution, BVMergeReducedBW, RemoveDatatypeIdentity, FPShortSort are covered by the evaluator/z3 cross-check only. z3 4.8.12 is trusted only for finding counterexamples. n-ary forms are refuted by Examples (outside the documented binary form).', 'DESIGN.md section 4, C17'),
}
ALL = ['C%02d' % i for i in range(1, 19)]
NOT_APPLICABLE = {p: PARTIAL for p in ALL if p not in CLAIMED}
