PARTIAL = 'not yet claimed: machinery for this property is still being built (see DESIGN.md section 8)'
CLAIMED = {
    'C07': ('Coq proof of parse/render round trip over a scanner automaton + extracted-model correspondence',
            'Theorems (all trees, all four renderers) about Gallina models of parse_smtlib and the four writers; models tied to the '
            'code by running both on generated trees/texts on every run; property re-checked directly on the implementation.',
            'Trusted: Coq kernel, extraction (ExtrOcamlBasic), OCaml driver, python generators/differ; writers are modelled structurally '
            '(the explicit-stack loops are tied by correspondence only).', 'DESIGN.md section 4, C07'),
}
ALL = ['C%02d' % i for i in range(1, 19)]
NOT_APPLICABLE = {p: PARTIAL for p in ALL if p not in CLAIMED}
