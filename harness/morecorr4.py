"""TIE-C for Model/GlobalRw.v (dispatch 130-136): the mutators whose simplifications are more than "replace this node":
IntroduceFreshVariable, BVReduceBW, BVMergeReducedBW, StringContainsToConcat, EliminateVariable, RemoveConstructor and
RemoveDatatype, compared with filter + (global_)mutations of the implementation on every node of the given texts, of
targeted texts and of a malformed corpus per mutator.

A Simplification(substs, fresh_vars) is compared as [ids, struct, fresh]: ids = the entries of substs with an int key, in
dict order, the key translated to the POSITION of the node of that id in the input (path from the list of commands);
struct = the entries with a Node key, in dict order; fresh = the shapes of fresh_vars.  A value is [] (None: deleted) or
[shape].  What the models take as oracle arguments is computed with the implementation and passed along: get_sort,
get_bv_width (or that it raises), is_var, is_declared_symbol of the candidate names (which the harness spells itself),
is_definition_node, the table of defined functions, node.id.  An exception escaping filter or the (completely consumed)
generator is the model's None."""
import common
from common import w_shape, w_shapes, w_str

CODES = {'IntroduceFreshVariable': 130, 'BVReduceBW': 131, 'BVMergeReducedBW': 132, 'StringContainsToConcat': 133,
         'EliminateVariable': 134, 'RemoveConstructor': 135, 'RemoveDatatype': 136}

BVDECL = ''.join(f'(declare-const v{w} (_ BitVec {w}))(declare-fun f{w} () (_ BitVec {w}))' for w in (1, 2, 3, 4, 5, 7, 8, 9, 16, 31, 32, 33, 64, 65, 128))

MALFORMED = {
    'IntroduceFreshVariable': [
        '(declare-const a (_ BitVec foo))(declare-const i Int)(assert (= (store a 1 2) a))',
        '(declare-const a (_ BitVec foo))(declare-const b (_ BitVec 4))(assert (= (store b a 2) (store a b 1)))',
        '(declare-const a (_ BitVec (4)))(declare-const b (_ BitVec 4))(assert (= (store b a 2) (store a b 1) (store b b 0)))',
        '(declare-const a (_ BitVec -4))(declare-const b (_ BitVec 4))(assert (= (store b a 2) (store a b 1) (store b b 0) (bvadd a b)))',
        '(declare-const a (_ BitVec +4))(declare-const b (_ BitVec 4_0))(assert (= (store b a 2) (store a b 1) (store b b 0) (bvadd b b) (bvadd a b)))',
        '(declare-const #b01 (_ BitVec 8))(assert (= (bvadd #b01 #b01) (bvnot #b01) (store #b01 1 1)))',
        '(declare-const x (_ BitVec 8))(assert (let ((x 5)) (= (bvadd x x) (bvnot x))))',
        '(declare-const x (_ BitVec 8))(define-fun x () Int 5)(assert (= (bvadd x x) (bvnot x) (+ x 1)))',
        '(define-fun f () Int (+ 1 2))(define-fun g ((a Int)) Int (+ a 2))(assert (= (+ f 1) (g (+ 1 1))))',
        '(assert (= (/ 1 2) (/ 1 x) (/ 1 2 3) (/ 1.0 2) (fp a b c) (fp) (_ bv1 2) (_ bvx y) (_ bv1) (+ 1 2) (+) ()))',
        '(assert (and (not) (not a) (= 1) (ite a) (ite a b) (ite a 1 2) (select) (select a) (store)))',
        '(declare-const a (Array Int Int))(assert (= (select a 1) (select (store a 1 2) 1) (select a) (store a)))',
        '(declare-const a (_ BitVec 8))(assert (= ((_ extract 3 x) a) ((_ extract 3) a) ((_ zero_extend x) a) ((_ extract 3 1) a) ((_ extract 1 3) a)))',
        '(declare-const a (_ BitVec 8))(assert (= ((_ repeat 0) a) ((_ repeat -1) a) (concat) (concat a) (concat a a a) (bvcomp) (bvcomp a)))',
        '(declare-fun g (Int) (_ BitVec 8))(declare-const a (_ BitVec 8))(assert (= (g 1) (bvadd (g 1) a) (bvadd (g 1) (g 2))))',
        '(declare-datatype D ((c1) (c2 (s D))))(declare-const d D)(assert (= (c2 d) (c2 c1) (s d) (c1)))',
        '(declare-const a (_ BitVec 8))(declare-const a (_ BitVec 4))(assert (= (bvnot a) ((_ zero_extend 4) a)))',
    ],
    'BVReduceBW': [
        '(declare-const)', '(declare-const x)', '(declare-const x (_ BitVec 8) extra)', '(declare-fun x)', '(declare-fun x ())', '(declare-fun x () (_ BitVec 8) extra)',
        '(declare-fun x y (_ BitVec 8))', '(declare-fun x (Int) (_ BitVec 8))', '(declare-fun x (()) (_ BitVec 8))', '(declare-const x (_ BitVec foo))',
        '(declare-const x (_ BitVec (8)))', '(declare-const x (_ BitVec -8))', '(declare-const x (_ BitVec +8))', '(declare-const x (_ BitVec 1_0))',
        '(declare-const x (_ BitVec 0))', '(declare-const x (_ BitVec 1))', '(declare-const x (_ BitVec 08))', '(declare-const x (_ BitVec))', '(declare-const x (_ BitVec 8 9))',
        '(declare-const x (BitVec 8))', '(declare-const x (_ bitvec 8))', '(declare-const (x) (_ BitVec 8))', '(declare-const () (_ BitVec 8))',
        '(declare-const #b01 (_ BitVec 8))', '(declare-const #x0 (_ BitVec 8))', '(declare-const #b (_ BitVec 8))', '(declare-const (_ bv1 8) (_ BitVec 8))',
        '(declare-const |x| (_ BitVec 8))', '(declare-const |x y| (_ BitVec 8))', '(declare-const | (_ BitVec 8))', '(declare-const || (_ BitVec 8))', '(declare-const |x (_ BitVec 8))',
        '(declare-const "x" (_ BitVec 8))', '(declare-const x (_ BitVec 8))(declare-const _x Int)', '(declare-const x (_ BitVec 8))(declare-fun _x (Int) Int)',
        '(declare-const x (_ BitVec 8))(define-fun _x () Int 1)', '(declare-const x (_ BitVec 8))(assert (let ((_x 1)) _x))', '(declare-const x (_ BitVec 8))(assert (forall ((_x Int)) true))',
        '(declare-const x (_ BitVec 8))(declare-datatype D ((_x)))', '(declare-const x (_ BitVec 8))(declare-datatype D ((c (_x D))))', '(declare-const x (_ BitVec 8))(declare-const __x Int)',
        '(declare-const x (_ BitVec 8))(declare-const x Int)', '(declare-const x Int)(declare-const x (_ BitVec 8))', '(declare-const x (_ BitVec 8))(declare-fun x () (_ BitVec 16))',
        '(declare-const _ (_ BitVec 8))(declare-const __ (_ BitVec 8))', '(declare-const x (_ BitVec 8))(assert (let ((x 1)) x))', '(declare-const x (_ BitVec 8))(assert (let ((x (f))) x))',
        '((declare-const) x (_ BitVec 8))', '(declare-const ; c\n (_ BitVec 8))', '(declare-const "x" (_ BitVec 8))(assert (= "x" #x00))', '(declare-fun "" () (_ BitVec 2))', '(declare-const x ; c\n (_ BitVec 8))', '(declare-const ; c\n x (_ BitVec 8))', '(declare-const x (_ BitVec 1000000000000))',
    ],
    'BVMergeReducedBW': [
        '(define-fun)', '(define-fun w)', '(define-fun w ())', '(define-fun w () (_ BitVec 8))', '(define-fun w () (_ BitVec 8) ((_ zero_extend 4) w))',
        '(declare-const v (_ BitVec 2))(define-fun _w () (_ BitVec 4) ((_ zero_extend 2) v))(define-fun w () (_ BitVec 8) ((_ zero_extend 4) _w))',
        '(declare-const v (_ BitVec 2))(define-fun _w () (_ BitVec 4) ((_ zero_extend x) v))(define-fun w () (_ BitVec 8) ((_ zero_extend 4) _w))',
        '(declare-const v (_ BitVec 2))(define-fun _w () (_ BitVec 4) ((_ zero_extend 2) v))(define-fun w () (_ BitVec 8) ((_ zero_extend y) _w))',
        '(declare-const v (_ BitVec 2))(define-fun _w () (_ BitVec 4) ((_ zero_extend -2) v))(define-fun w () (_ BitVec 8) ((_ zero_extend +4) _w))',
        '(declare-const v (_ BitVec 2))(define-fun _w () (_ BitVec 4) ((_ zero_extend (2)) v))(define-fun w () (_ BitVec 8) ((_ zero_extend 4) _w))',
        '(declare-const v (_ BitVec 2))(define-fun _w () (_ BitVec 4) ((_ zero_extend 2)))(define-fun w () (_ BitVec 8) ((_ zero_extend 4) _w))',
        '(declare-const v (_ BitVec 2))(define-fun _w () (_ BitVec 4) ((_ zero_extend 2) v v))(define-fun w () (_ BitVec 8) ((_ zero_extend 4) _w _w))',
        '(declare-const v (_ BitVec 2))(define-fun _w ((a Int)) (_ BitVec 4) ((_ zero_extend 2) v))(define-fun w () (_ BitVec 8) ((_ zero_extend 4) _w))',
        '(declare-const v (_ BitVec 2))(define-fun _w ((a Int)) (_ BitVec 4) ((_ zero_extend 2) a))(define-fun w () (_ BitVec 8) ((_ zero_extend 4) (_w v)))',
        '(declare-const v (_ BitVec 2))(define-fun _w ((a Int)) (_ BitVec 4) ((_ zero_extend 2) a))(define-fun w () (_ BitVec 8) ((_ zero_extend 4) (_w)))',
        '(declare-const v (_ BitVec 2))(define-fun _w ((a Int)) (_ BitVec 4) ((_ zero_extend 2) a))(define-fun w () (_ BitVec 8) ((_ zero_extend 4) (_w v v)))',
        '(declare-const v (_ BitVec 2))(define-fun _w ((a Int)) (_ BitVec 4) a)(define-fun w () (_ BitVec 8) ((_ zero_extend 4) (_w ((_ zero_extend 1) v))))',
        '(declare-const v (_ BitVec 2))(define-fun _w ((a Int) (a Int)) (_ BitVec 4) ((_ zero_extend 2) a))(define-fun w () (_ BitVec 8) ((_ zero_extend 4) (_w v v)))',
        '(declare-const v (_ BitVec 2))(define-fun _w (a) (_ BitVec 4) ((_ zero_extend 2) a))(define-fun w () (_ BitVec 8) ((_ zero_extend 4) (_w v)))',
        '(declare-const v (_ BitVec 2))(define-fun _w (()) (_ BitVec 4) ((_ zero_extend 2) v))(define-fun w () (_ BitVec 8) ((_ zero_extend 4) (_w v)))',
        '(define-fun c () (_ BitVec 8) ((_ zero_extend 4) y))(define-fun f () (_ BitVec 8) abc)(define-fun f () (_ BitVec 8) ((_ zero_extend 4) y))',
        '(define-fun c () (_ BitVec 8) ((_ zero_extend 4) y))(define-fun f () (_ BitVec 8) abd)(define-fun f () (_ BitVec 8) ((_ zero_extend 4) y))',
        '(define-fun c () (_ BitVec 8) ((_ zero_extend 4) y))(define-fun f () (_ BitVec 8) c)(define-fun f () (_ BitVec 8) ((_ zero_extend 4) y))',
        '(define-fun c () (_ BitVec 8) y)(define-fun f () (_ BitVec 8) c)(define-fun f () (_ BitVec 8) ((_ zero_extend 4) y))',
        '(define-fun f () (_ BitVec 8) ())(define-fun f () (_ BitVec 8) ((_ zero_extend 4) y))', '(define-fun f () (_ BitVec 8) (()))(define-fun f () (_ BitVec 8) ((_ zero_extend 4) y))',
        '(define-fun f () (_ BitVec 8) ((g)))(define-fun g () (_ BitVec 8) ((_ zero_extend 4) y))(define-fun f () (_ BitVec 8) ((_ zero_extend 4) y))',
        '(define-fun f () (_ BitVec 8) (h (g)))(define-fun g () (_ BitVec 8) ((_ zero_extend 4) y))(define-fun f () (_ BitVec 8) ((_ zero_extend 3) y))',
        '(define-fun f () (_ BitVec 8) (h (g 1)))(define-fun g () (_ BitVec 8) ((_ zero_extend 4) y))(define-fun f () (_ BitVec 8) ((_ zero_extend 3) y))',
        '(define-fun f () (_ BitVec 8) (h g) 7)(define-fun g () (_ BitVec 8) ((_ zero_extend 4) y))(define-fun f () (_ BitVec 8) ((_ zero_extend 3) y))',
        '(define-fun f () (_ BitVec 8))(define-fun 8 () (_ BitVec 8) ((_ zero_extend 4) y))(define-fun f () (_ BitVec 8) ((_ zero_extend 3) y))',
        '(define-fun f ())(define-fun f () (_ BitVec 8) ((_ zero_extend 3) y))', '(define-fun f x (_ BitVec 8) ((_ zero_extend 3) f))',
        '(define-fun f () Int ((_ zero_extend 3) y))(define-fun g () (_ BitVec 8) ((_ zero_extend 3) f))',
        '(define-fun f () (_ BitVec foo) ((_ zero_extend 3) y))(define-fun g () (_ BitVec 8) ((_ zero_extend 3) f))',
        '(define-fun f () (_ BitVec 8) ((_ sign_extend 3) y))(define-fun g () (_ BitVec 8) ((_ zero_extend 3) f))',
        '(define-fun f () (_ BitVec 8) ((_ zero_extend 3 4) y))(define-fun g () (_ BitVec 8) ((_ zero_extend 3) f))',
        '(define-fun f () (_ BitVec 8) ((zero_extend 3) y))(define-fun g () (_ BitVec 8) ((_ zero_extend 3) f))',
        '(define-fun f () (_ BitVec 8) ((x zero_extend 3) y))(define-fun g () (_ BitVec 8) (((y) zero_extend 3) f))',
        '(define-fun (f) () (_ BitVec 8) ((_ zero_extend 3) y))(define-fun g () (_ BitVec 8) ((_ zero_extend 3) (f)))',
        '(define-fun f () (_ BitVec 8) ((_ zero_extend 3) g))(define-fun g () (_ BitVec 8) ((_ zero_extend 3) f))',
        '(define-fun f () (_ BitVec 8) ((_ zero_extend 3) g))(define-fun g () (_ BitVec 8) ((_ zero_extend 3) h))(define-fun h () (_ BitVec 8) ((_ zero_extend 3) f))',
        '(define-fun f () (_ BitVec 8) ((_ zero_extend 1_0) g))(define-fun g () (_ BitVec 8) ((_ zero_extend 0_3) y))',
        '(declare-const f (_ BitVec 8))(define-fun g () (_ BitVec 8) ((_ zero_extend 3) f))', '(define-fun g () (_ BitVec 8) ((_ zero_extend 3) f))(define-fun f () (_ BitVec 5) ((_ zero_extend 3) y))',
        '(define-fun f () (_ BitVec 8) ((_ zero_extend 3) y))(assert (let ((f 1)) f))(define-fun g () (_ BitVec 9) ((_ zero_extend 1) f))',
        '(define-fun f () (_ BitVec 8) ((_ zero_extend 3) y))(define-fun g () (_ BitVec 9) ((_ zero_extend 1) f) ; c\n)',
    ],
    'StringContainsToConcat': [
        '(str.contains)', '(str.contains s)', '(str.contains s t u)', '(str.contains (str.++ s t) u)', '(str.contains "abc" s)', '(str.contains "" s)', '(str.contains " s)',
        '(str.contains |s| t)', '(str.contains |s t| u)', '(str.contains | t)', '(str.contains || t)', '(str.contains |s t)', '(str.contains s| t)', '(str.contains 12 t)', '(str.contains 1.5 t)', '(str.contains 1. t)',
        '(str.contains 1.5.5 t)', '(str.contains true t)', '(str.contains false t)', '(str.contains #b01 t)', '(str.contains #xAF t)', '(str.contains #b t)', '(str.contains #b2 t)', '(str.contains #xG t)',
        '(str.contains s ())', '(str.contains () s)', '(str.contains s (str.contains s t))', '(str.contains s "a")', '((str.contains) s t)', 'str.contains', '(str.contains s ; c\n t)',
        '(str.contains ; c\n s t)', '(str.contains ; c\n t)', '(declare-const t String)(assert (str.contains ; c\n t))', '(str.contains True t)', '(str.contains 1a t)', '(str.contains a1 t)', '(str.contains "a"b t)', '(str.contains _ t)', '(str.contains s_prefix t)',
        '(declare-const s_prefix String)(assert (str.contains s t))', '(declare-const s_suffix String)(assert (str.contains s t))', '(declare-fun s_suffix (Int) String)(assert (str.contains s t))',
        '(define-fun s_prefix () String "a")(assert (str.contains s t))', '(assert (let ((s_prefix "a")) (str.contains s t)))', '(assert (exists ((s_suffix String)) (str.contains s t)))',
        '(declare-datatype D ((s_prefix)))(assert (str.contains s t))', '(declare-datatype D ((c (s_suffix D))))(assert (str.contains s t))', '(declare-datatypes ((D 0)) (((s_prefix))))(assert (str.contains s t))',
        '(declare-const s_prefi String)(declare-const s_suffixx String)(assert (str.contains s t))', '(declare-const t_prefix String)(assert (and (str.contains s t) (str.contains t s)))',
        '(declare-sort s_prefix 0)(assert (str.contains s t))', '(assert (and (str.contains s t) (str.contains s t) (not (str.contains s t))))',
    ],
    'EliminateVariable': [
        '(assert (=))', '(assert (= x))', '(assert (= x x))', '(assert (= x x y))', '(assert (= x y))', '(assert (= x (f x)))', '(assert (= x (f y) (g x) y))', '(assert (= (f x) (g y)))',
        '(assert (= 1 x))', '(assert (= x 1))', '(assert (= 1 2))', '(assert (= true x))', '(assert (= x "a"))', '(assert (= "a" x))', '(assert (= #b01 x))', '(assert (= 1.5 x))', '(assert (= x (/ 1 2)))',
        '(assert (= (_ bv1 2) x))', '(assert (= x (fp a b c)))', '(assert (= = x))', '(assert (= x =))', '(assert (= |x| y))', '(assert (= x ()))', '(assert (= () x))', '(assert (= (x) x))', '(assert (= x (x)))',
        '(assert ((=) x y))', '(assert (distinct x y))', '(declare-const x Int)(declare-const y Int)(assert (= x y))(assert (> x y))', '(declare-const x Int)(assert (= x 5))(assert (let ((x 1)) (+ x 1)))',
        '(declare-const x Int)(assert (= x 5))(assert (forall ((x Int)) (> x 1)))', '(define-fun x () Int 3)(assert (= x y))(define-fun y () Int x)', '(define-fun f ((x Int)) Int x)(assert (= x y))',
        '(declare-fun x (Int) Int)(assert (= x y))(assert (= (x 1) 2))', '(assert (= x y))(assert (= y x))(assert (= x y z))', '(assert (and (= x y) (= (f x) x)))', '(assert (= x ; c\n y))',
        '(assert (= 1a x))', '(assert (= x 1a))', '(assert (= x #b2))', '(assert (= x #b))', '(assert (= x 1.))', '(assert (= x .5))', '(assert (= x -1))', '(assert (= x (- 1)))',
        '(declare-const x Int)(declare-const x Int)(assert (= x y))', '(declare-datatype D ((x) (y)))(assert (= x y))', '(assert (= x y))(check-sat)(get-value (x y))', '(= x y)', '(= x (= x y) (= y x))',
        '(assert (! (= x y) :named x))', '(assert (= x y (let ((x y)) x) (let ((y x)) y)))', '(assert (= x x x))', '(assert (= x y x y))',
    ],
    'RemoveConstructor': [
        '(declare-datatype)', '(declare-datatype D)', '(declare-datatype D ())', '(declare-datatype D c)', '(declare-datatype D (c))', '(declare-datatype D ((c)))', '(declare-datatype D ((c) (d)))',
        '(declare-datatype D ((c) d (e)))', '(declare-datatype D ((c (s D)) (d)))', '(declare-datatype D (()))', '(declare-datatype D ((c)) extra)', '(declare-datatype (D) ((c)))', '((declare-datatype) D ((c)))',
        '(declare-datatypes)', '(declare-datatypes ((D 0)))', '(declare-datatypes ((D 0)) ())', '(declare-datatypes ((D 0)) x)', '(declare-datatypes ((D 0)) (x))', '(declare-datatypes ((D 0)) ((x)))',
        '(declare-datatypes ((D 0)) (((c))))', '(declare-datatypes ((D 0) (E 0)) (((c) (d)) ((e))))', '(declare-datatypes ((D 0) (E 0)) (((c) (d)) e))', '(declare-datatypes ((D 0) (E 0)) (() ((e))))',
        '(declare-datatypes ((D 0) (E 0)) ((()) ((e) f)))', '(declare-datatypes x (((c))))', '(declare-datatypes () ())', '(declare-datatypes ((D 0)) (((c))) extra)', '(declare-datatypes ((D 0)) (((c)) ; c\n))',
        '(declare-datatypes ((D 0)) (; c\n ((c))))', '(declare-datatype D (; c\n (c)))', '(declare-datatype D "ab")', '(declare-datatypes ((D 0)) "ab")', '(declare-datatypes ((D 0)) (((c)) "ab"))',
        '(declare-datatype D ((par (T) ((c (s T))))))', 'declare-datatype', '(declare-datatypes ((D 0)) ((((c)))))',
    ],
    'RemoveDatatype': [
        '(declare-datatypes)', '(declare-datatypes ((D 0)))', '(declare-datatypes ((D 0)) ())', '(declare-datatypes () ())', '(declare-datatypes x y)', '(declare-datatypes x ())', '(declare-datatypes () y)',
        '(declare-datatypes (x) y)', '(declare-datatypes ((D 0)) (((c))))', '(declare-datatypes ((D 0) (E 0)) (((c) (d)) ((e))))', '(declare-datatypes ((D 0) (E 0)) (((c))))', '(declare-datatypes ((D 0)) (((c)) ((e))))',
        '(declare-datatypes (D E) (c d))', '(declare-datatypes ((D 0) (E 0) (F 0)) (((c)) ((e)) ((f))))', '(declare-datatypes ((D 0)) (((c))) extra)', '((declare-datatypes) ((D 0)) (((c))))',
        '(declare-datatype D ((c)))', '(declare-datatypes ((D 0) ; c\n) (((c)) ; d\n))', '(declare-datatypes ((D 0) ; c\n) (((c))))', 'declare-datatypes', '(declare-datatypes "ab" "cd")', '(declare-datatypes "ab" (x y z w))',
    ],
}


def targeted(rng):
    """well-formed inputs aimed at each mutator"""
    out = []
    # BV declarations of all widths, both forms; names whose _-prefixed form is / is not declared
    out.append(BVDECL)
    out.append(BVDECL + '(declare-const _v8 Int)(declare-fun _f16 () Bool)(define-fun _v32 () Int 1)(declare-const __v4 (_ BitVec 4))(declare-const _v4 (_ BitVec 2))')
    ts = []
    for w in range(1, 70):
        ts.append(f'(declare-const a{w} (_ BitVec {w}))' if rng.random() < .5 else f'(declare-fun a{w} () (_ BitVec {w}))')
        if rng.random() < .2:
            ts.append(f'(declare-const _a{w} (_ BitVec {max(1, w // 2)}))')
    ts.append('(declare-const i Int)(declare-fun g ((_ BitVec 4)) (_ BitVec 4))(declare-const arr (Array (_ BitVec 4) (_ BitVec 4)))')
    out.append(''.join(ts))
    # chains of reduced bit-widths
    for top in (8, 16, 32, 7):
        ts, name, w = [], 'w', top
        chain = []
        while w > 1:
            nw = max(1, rng.choice([w // 2, w - 1, 1, 2 if w > 2 else 1]))
            chain.append((name, w, '_' + name, nw))
            name, w = '_' + name, nw
        ts.append(f'(declare-const {name} (_ BitVec {w}))')
        for (n, w_, m, nw) in reversed(chain):
            ts.append(f'(define-fun {n} () (_ BitVec {w_}) ((_ zero_extend {w_ - nw}) {m}))')
        ts.append(f'(assert (= w (bvnot w)))')
        out.append(''.join(ts))
    out.append('(declare-const __w (_ BitVec 2))(define-fun _w () (_ BitVec 4) ((_ zero_extend 2) __w))(define-fun w () (_ BitVec 8) ((_ zero_extend 4) _w))'
               '(define-fun s () (_ BitVec 8) ((_ zero_extend 4) s))(define-fun u () (_ BitVec 8) ((_ sign_extend 4) _w))(define-fun v () (_ BitVec 9) ((_ zero_extend 1) w))'
               '(define-fun k ((a (_ BitVec 8))) (_ BitVec 9) ((_ zero_extend 1) w))(define-fun m () (_ BitVec 12) ((_ zero_extend 4) (bvnot w)))(define-fun n () (_ BitVec 10) ((_ zero_extend 1) v))')
    # str.contains with declared / constant / quoted first operands and pre-declared _prefix/_suffix names
    sdecl = '(declare-const s String)(declare-const t String)(declare-const |q r| String)(declare-const |p| String)(declare-const u String)(declare-const u_prefix String)' \
            '(declare-const z String)(declare-fun z_suffix () String)(declare-const y String)(define-fun y_prefix () String "k")(declare-const i Int)'
    ts = []
    for a in ('s', 't', 'u', 'z', 'y', '|q r|', '|p|', '"abc"', '""', '"a""b"', '(str.++ s t)', '(str.at s 0)', 'nd', '12', 'i'):
        for b in ('s', 't', '"x"', '(str.++ s "a")', '(str.substr t 0 i)', '|q r|'):
            ts.append(f'(assert (str.contains {a} {b}))')
    ts.append('(assert (not (str.contains s (str.++ t (ite (str.contains t s) "a" "b")))))')
    out.append(sdecl + ''.join(ts))
    # equalities (= x t) in every position, with occurs-check cases and constants
    edecl = '(declare-const x Int)(declare-const y Int)(declare-const z Int)(declare-fun f (Int) Int)(declare-fun g (Int Int) Int)(declare-const p Bool)(declare-const q Bool)' \
            '(declare-const bx (_ BitVec 4))(declare-const by (_ BitVec 4))(declare-const r Real)(declare-const s String)'
    ts = []
    terms = ['x', 'y', 'z', '1', '0', '42', '(f x)', '(f y)', '(g x y)', '(+ x 1)', '(+ y z)', '(f (f (f x)))', '(g (f z) 7)', '(- 1)', '(* 2 x)']
    for a in terms:
        for b in terms:
            ts.append(f'(assert (= {a} {b}))')
    for _ in range(60):
        k = rng.randrange(2, 5)
        ts.append('(assert (= ' + ' '.join(rng.choice(terms) for _ in range(k)) + '))')
    ts += ['(assert (= p q))', '(assert (= p true))', '(assert (= false q))', '(assert (= p (not p)))', '(assert (= p (and q (= x y))))', '(assert (= bx by))', '(assert (= bx #b0101))',
           '(assert (= (_ bv3 4) by))', '(assert (= bx (bvadd bx by)))', '(assert (= r 1.5))', '(assert (= r (/ 1 3)))', '(assert (= s "lit"))', '(assert (= "a" "b"))',
           '(assert (let ((x 2)) (= x y)))', '(assert (forall ((x Int)) (= x (f y))))', '(assert (exists ((w Int)) (= w x)))', '(define-fun h ((x Int)) Int (ite (= x y) x z))',
           '(define-fun x2 () Int (+ x x))(assert (= x2 x))(assert (= y x2))']
    out.append(edecl + ''.join(ts))
    out.append('(declare-const x Int)(declare-const y Int)(assert (and (= x y) (> x 0) (< y (+ x x))))(assert (or (= y 3) (= 3 x)))(check-sat)(get-value (x y))(get-model)')
    # terms of every sort for fresh variables, incl. the BV single-variable exclusion
    fdecl = '(declare-const i Int)(declare-const j Int)(declare-const r Real)(declare-const p Bool)(declare-const s String)(declare-const a (Array Int Int))' \
            '(declare-const b4 (_ BitVec 4))(declare-const c4 (_ BitVec 4))(declare-const b8 (_ BitVec 8))(declare-const b1 (_ BitVec 1))(declare-fun h (Int) Int)' \
            '(declare-fun bf ((_ BitVec 4)) (_ BitVec 4))(declare-const fl (_ FloatingPoint 5 11))(declare-const ab (Array (_ BitVec 4) (_ BitVec 8)))' \
            '(declare-datatype Col ((red) (green) (mix (fst Col) (snd Col))))(declare-const col Col)(define-fun dd ((u Int)) Int (+ u 1))(define-fun ee () (_ BitVec 4) (bvnot b4))'
    ts = ['(assert (> (+ i j) (* 2 i)))', '(assert (= r (/ (to_real i) 2.0)))', '(assert (and p (not p) (=> p p)))', '(assert (= s (str.++ s "a")))', '(assert (= (select a i) (h (select (store a i j) j))))',
          '(assert (= (bvnot b4) (bvadd b4 b4) (bvadd b4 c4) (bvadd b4 #b0001) (bvmul #b0010 #b0011)))', '(assert (= ((_ extract 3 0) b8) ((_ extract 3 0) (bvadd b8 b8)) b4))',
          '(assert (= ((_ zero_extend 4) b4) b8 (concat b4 b4) (concat b4 c4) (concat b1 b1 b1 b1 b4)))', '(assert (= ((_ extract 0 0) b8) b1 (bvcomp b4 c4) (bvcomp b8 b8)))',
          '(assert (= ((_ sign_extend 4) (bvneg b4)) ((_ repeat 2) b4) ((_ rotate_left 1) b8) (bvor b8 ((_ zero_extend 7) b1))))', '(assert (= (ite p b4 c4) (ite p b4 b4) (ite p #b0000 b4) (bf b4) (bf (bf c4))))',
          '(assert (= (select ab b4) (select ab (bvnot b4)) ((_ zero_extend 4) (select (store ab b4 b8) c4))))', '(assert (fp.lt fl (fp.add RNE fl fl)))', '(assert (= fl (fp #b0 #b00000 #b0000000000)))',
          '(assert (= col (mix red col) (mix (fst col) green)))', '(assert ((_ is red) (snd col)))', '(assert (= (dd i) (dd (dd 1)) (h (dd j))))', '(assert (= ee (bvnot ee) (bvand ee b4)))',
          '(assert (let ((k (+ i 1)) (bk (bvnot b4))) (and (> k j) (= bk (bvneg bk)))))', '(assert (forall ((m Int) (bm (_ BitVec 4))) (or (> (+ m i) 0) (= (bvnot bm) (bvadd bm b4)))))',
          '(assert (= (bv2nat b4) (+ i 1)))', '(assert (= ((_ int2bv 4) i) ((_ int2bv 4) (+ i j)) b4))', '(assert (! (> (+ i 1) 0) :named nm))', '(assert (= (- i) (- i j) (abs i) (div i 2) (mod (+ i j) 3)))',
          '(assert (= (str.len s) (str.indexof s "a" 0) (+ (str.len (str.++ s s)) 1)))', '(assert (distinct (to_int r) (to_int (+ r 1.0)) i))', '(check-sat-assuming ((not p) (and p p)))']
    out.append(fdecl + ''.join(ts))
    # datatypes with one / several constructors
    out.append('(declare-datatype One ((mk)))(declare-datatype Two ((l) (rr (val Int))))(declare-datatype Lst ((nil) (cons (hd Int) (tl Lst))))'
               '(declare-datatypes ((Tree 0) (Forest 0)) (((leaf) (node (kids Forest))) ((fnil) (fcons (ft Tree) (fr Forest)))))'
               '(declare-datatypes ((S 0)) (((a) (b) (c))))(declare-datatypes ((P 1)) ((par (X) ((pr (f1 X) (f2 X))))))(declare-datatypes ((A 0) (B 0) (C 0)) (((a1)) ((b1) (b2)) ((c1 (cs A)))))'
               '(declare-const t Tree)(assert (= t (node fnil)))')
    return out


def run(ctx, impl, model, rng, texts, classes=None, full_input=0.15, nfuzz=300):
    from ddsmt import mutators_bv, mutators_smtlib, mutators_strings, mutators_datatypes
    smtlib, nodes = impl.smtlib, impl.nodes
    objs = {}
    for mod in (mutators_bv, mutators_smtlib, mutators_strings, mutators_datatypes):
        for c in CODES:
            if hasattr(mod, c):
                objs[c] = getattr(mod, c)()
    assert set(objs) == set(CODES)
    names = [c for c in CODES if classes is None or c in classes]
    calls, meta = [], []

    def shape(n):
        return w_shape(impl.to_shape(n))

    def osort(n):
        so = smtlib.get_sort(n)
        return [shape(n), [] if so is None else [shape(so)]]

    def obw(n):
        try:
            return [int(smtlib.get_bv_width(n))]
        except Exception:  # noqa
            return []

    def declared(cands):
        return [w_str(t) for t in cands if smtlib.is_declared_symbol(impl.Node(t))]

    def simp_wire(sp, pos):
        ids, st = [], []
        for k, v in sp.substs.items():
            val = [] if v is None else [shape(v)]
            if isinstance(k, int):
                ids.append([list(pos[k]) if k in pos else [-1], val])
            else:
                st.append([shape(k), val])
        return [ids, st, [shape(v) for v in sp.fresh_vars]]

    corpus = [(None, t, None) for t in texts] + [(None, t, None) for t in targeted(rng)]
    for c in names:
        corpus += [(c, m, None) for m in MALFORMED[c]]
    # token-level fuzzing of the targeted and malformed texts: drop / duplicate / swap / replace tokens, wrap or unwrap
    import re
    pool = [t for _, t, _ in corpus if len(t) < 1500]
    atoms = ['x', 'y', '_x', '()', '(x)', '0', '1', '#b01', '"a"', '|q|', '=', '_', 'zero_extend', 'BitVec', 'foo', '-1', 'c', 'w', '_w', 'str.contains', 'define-fun', 'declare-const',
             'declare-fun', 'declare-datatypes', 'declare-datatype', 'Int', 's', 's_prefix']
    for _ in range(nfuzz):
        toks = re.findall(r'\(|\)|"[^"]*"|\|[^|]*\||;[^\n]*\n|[^\s()"|;]+', rng.choice(pool))
        for _k in range(rng.randrange(1, 4)):
            if not toks:
                break
            i = rng.randrange(len(toks))
            op = rng.randrange(6)
            if op == 0:
                del toks[i]
            elif op == 1:
                toks.insert(i, toks[i])
            elif op == 2:
                j = rng.randrange(len(toks))
                toks[i], toks[j] = toks[j], toks[i]
            elif op == 3:
                toks[i] = rng.choice(atoms)
            elif op == 4:
                toks.insert(i, rng.choice(atoms))
            else:
                toks[i:i + 1] = ['(', toks[i], ')']
        # rebalance
        out, depth = [], 0
        for t in toks:
            if t == ')':
                if depth == 0:
                    continue
                depth -= 1
            elif t == '(':
                depth += 1
            out.append(t)
        corpus.append((None, ' '.join(out) + ')' * depth, None))
    # inputs in which the name of the fresh variable of some node is already declared (ids are only known after reading)
    corpus += [(None, '(declare-const i Int)(declare-const b (_ BitVec 4))(assert (= (+ i 1) (* i 2)))(assert (= (bvnot b) (bvadd b b)))', k) for k in range(6)]
    for origin, text, clash in corpus:
        try:
            exprs = impl.parse(text)
            if clash is not None:
                smtlib.collect_information(exprs)
                cands = [n for n in nodes.dfs(exprs) if objs['IntroduceFreshVariable'].filter(n)]
                tgt = cands[clash * 7 % len(cands)]
                kind = ['(declare-const {} Int)', '(declare-fun {} (Int) Int)', '(define-fun {} () Int 1)', '(assert (let (({} 1)) {}))', '(declare-datatype D (({})))',
                        '(assert (forall (({} Int)) true))'][clash]
                exprs = exprs + impl.parse(kind.replace('{}', f'x{tgt.id}__fresh'))
            smtlib.collect_information(exprs)
        except Exception:  # noqa
            ctx.count('global-rewrite texts the reader or collect_information refuse')
            continue
        # positions of the nodes; an id that names two positions cannot be described by the models
        pos, shared = {}, False
        stack = [((i,), x) for i, x in reversed(list(enumerate(exprs)))]
        order = []
        while stack:
            p, n = stack.pop()
            if n.id in pos:
                shared = True
            pos[n.id] = p
            order.append((p, n))
            if not n.is_leaf():
                stack.extend(reversed([(p + (i,), x) for i, x in enumerate(n.data)]))
        if shared:
            ctx.count('global-rewrite texts with shared nodes (skipped)')
            continue
        defs = []
        for key, (arity, func) in getattr(smtlib, '__defined_functions').items():
            cmd = func.__defaults__[0]
            defs.append([w_str(cmd[1].data), [shape(f) for f in cmd[2].data], shape(cmd[4])])
        defpaths = [list(p) for p, n in order if smtlib.is_definition_node(n)]
        winput = [shape(x) for x in exprs]
        for p, node in order:
            sh, here = shape(node), list(p)
            for c in names:
                if origin is not None and origin != c:
                    continue
                m = objs[c]
                try:
                    with common.time_limit(5):
                        if not m.filter(node):
                            sps = []
                        elif hasattr(m, 'global_mutations'):
                            sps = list(m.global_mutations(node, exprs))
                        else:
                            sps = list(m.mutations(node))
                    got = [1, [simp_wire(sp, pos) for sp in sps]]
                except Exception:  # noqa
                    got = [0]
                kids = [] if node.is_leaf() else list(node.data)
                if c == 'IntroduceFreshVariable':
                    seen, vs = set(), []
                    for n_ in nodes.dfs(node):
                        if n_.is_leaf() and smtlib.is_var(n_) and n_.data not in seen:
                            seen.add(n_.data)
                            vs.append([w_str(n_.data), obw(n_)])
                    arg = [sh, [osort(node)], vs, int(bool(smtlib.is_definition_node(node))), declared([f'x{node.id}__fresh']), node.id, here]
                elif c == 'BVReduceBW':
                    n1 = kids[1:2]
                    arg = [sh, [osort(n) for n in n1], [[shape(n), obw(n)] for n in n1], declared(['_' + str(n) for n in n1]), here]
                elif c == 'BVMergeReducedBW':
                    arg = [sh, [osort(n) for n in kids[1:2]], defs, here]
                elif c == 'StringContainsToConcat':
                    v = kids[1].data if len(kids) > 1 and kids[1].is_leaf() else None
                    arg = [sh, declared([v + '_prefix', v + '_suffix']) if v is not None else []]
                elif c == 'EliminateVariable':
                    # the models' answer on a node that is not an equality does not depend on the input: most of them get an empty one
                    is_eq = len(kids) > 0 and kids[0].is_leaf() and kids[0].data == '='
                    if is_eq or rng.random() < full_input:
                        arg = [sh, winput, defpaths]
                    else:
                        arg = [sh, [], []]
                else:
                    arg = [sh, here]
                calls.append((CODES[c], arg))
                meta.append((c, str(node)[:200], got))
    res = model.batch(calls)
    for (c, node, want), got in zip(meta, res):
        ctx.count('global-rewrite model comparisons')
        if want == [0]:
            ctx.count('global-rewrite comparisons where the implementation raises')
            ctx.count(f'{c}: raises')
        elif want[1]:
            ctx.count('global-rewrite comparisons with a proposal')
            ctx.count(f'{c}: proposals')
            if any(s[2] for s in want[1]):
                ctx.count(f'{c}: proposals with declarations')
        if got != want:
            ctx.disagree(f'simplifications of {c} vs Model/GlobalRw.v', input=node, impl=repr(want)[:600], model=repr(got)[:600])
    return len(calls)
