"""End-to-end runs of the real ddSMT through the launcher, and analysis of the
recorded histories (shared by C01, C02, C03, C04, C05, C06, C10, C13, C14, C18)."""
import concurrent.futures
import glob
import hashlib
import json
import os
import shutil
import subprocess
import tempfile

import common

LAUNCHER = os.path.join(common.VERIF, 'harness', 'launcher.py')
TOKPRED = os.path.join(common.VERIF, 'harness', 'cmds', 'tokpred.sh')
SCRATCH_ROOT = os.environ.get('VERIF_SCRATCH', '/tmp')


class Run:
    def __init__(self, d):
        self.__dict__.update(d)

    def ev(self, *names):
        return [e for e in self.events if e['ev'] in names]


import re as _re
_FRESH = _re.compile(r'^x\d+__fresh$')


def norm_fresh(tk):
    ren = {}
    return [ren.setdefault(t, f'x#{len(ren)}__fresh') if _FRESH.match(t) else t for t in tk]


def sh_tokens(text):
    """Token sequence as the scripted command sees it (no literals with white space in e2e inputs)."""
    import re
    return [t for t in re.sub(r'([()])', r' \1 ', text).split()]


def sh_digest(text):
    toks = sh_tokens(text)
    return hashlib.md5(('\n'.join(toks) + '\n').encode()).hexdigest()[:12]


def run_ddsmt(text, opts, cmd, env=None, timeout=300, keep=False, ext='.smt2', infile_name=None, stdin=None, safe_limits=True):
    """Run ddSMT (launcher) on the given input text. cmd: list (the command with its arguments).
    safe_limits: give the checks an explicit, generous time limit.  The default limit is 1.5 x (golden run + 1 s), about
    1.6 s for the scripted commands; on a heavily loaded machine a check can take longer, is then rejected as a timeout, and a
    deterministic command has become a non-deterministic one (a false alarm of C02 in a thorough run under load).  C10, whose
    subject the limits are, switches this off."""
    opts = list(opts)
    if safe_limits:
        if '--timeout' not in opts:
            opts = ['--timeout', '90'] + opts
        if '-c' in opts and '--timeout-cc' not in opts:
            opts = ['--timeout-cc', '90'] + opts
    d = tempfile.mkdtemp(prefix='verif-run-', dir=SCRATCH_ROOT)
    try:
        infile = os.path.join(d, infile_name or ('in' + ext))
        outfile = os.path.join(d, 'out' + ext)
        logdir = os.path.join(d, 'log')
        os.mkdir(logdir)
        tmpd = os.path.join(d, 'tmp')
        os.mkdir(tmpd)
        with open(infile, 'w', newline='') as f:
            f.write(text)
        e = dict(os.environ)
        e.update(PYTHONPATH='', PYTHONHASHSEED=e.get('PYTHONHASHSEED', '0'), TMPDIR=tmpd,
                 VERIF_CMDLOG=os.path.join(d, 'cmdlog'), PYTHONDONTWRITEBYTECODE='1')
        e.update(env or {})
        argv = [common.PY, LAUNCHER, logdir] + list(opts) + [infile, outfile] + list(cmd)
        try:
            p = subprocess.run(argv, cwd=d, env=e, stdout=subprocess.PIPE, stderr=subprocess.PIPE, text=True, timeout=timeout,
                               stdin=stdin)
            rc, out, err, hung = p.returncode, p.stdout, p.stderr, False
        except subprocess.TimeoutExpired as ex:
            rc, out, err, hung = None, (ex.stdout or b'').decode(errors='replace') if isinstance(ex.stdout, bytes) else (ex.stdout or ''), \
                (ex.stderr or b'').decode(errors='replace') if isinstance(ex.stderr, bytes) else (ex.stderr or ''), True
            subprocess.run(['pkill', '-f', d], stdout=subprocess.DEVNULL, stderr=subprocess.DEVNULL)
        events = []
        for fn in glob.glob(os.path.join(logdir, 'events-*.jsonl')):
            for line in open(fn):
                try:
                    events.append(json.loads(line))
                except Exception:  # noqa
                    pass
        events.sort(key=lambda x: x['t'])
        outtext = open(outfile, newline='').read() if os.path.exists(outfile) else None
        intext_after = open(infile, newline='').read()
        cmdlog = []
        if os.path.exists(e['VERIF_CMDLOG']):
            cmdlog = [ln.split() for ln in open(e['VERIF_CMDLOG']).read().split('\n') if ln.strip()]
        leftovers = os.listdir(tmpd)
        return Run(dict(text=text, opts=list(opts), cmd=list(cmd), rc=rc, stdout=out, stderr=err, hung=hung, events=events,
                        outtext=outtext, input_unmodified=(intext_after == text), cmdlog=cmdlog, tmp_leftovers=leftovers,
                        dir=d if keep else None, env={k: v for k, v in (env or {}).items()}))
    finally:
        if not keep:
            shutil.rmtree(d, ignore_errors=True)


def run_many(jobs, workers=None):
    """jobs: list of kwargs dicts for run_ddsmt; returns results in order."""
    workers = workers or max(2, common.NCPU // 2)
    with concurrent.futures.ThreadPoolExecutor(workers) as ex:
        futs = [ex.submit(run_ddsmt, **j) for j in jobs]
        return [f.result() for f in futs]


def run_cmd_on(text, cmd, ext='.smt2'):
    """Run the command once on a file with the given content; returns (rc, stdout, stderr)."""
    d = tempfile.mkdtemp(prefix='verif-cmd-', dir=SCRATCH_ROOT)
    try:
        fn = os.path.join(d, 'f' + ext)
        with open(fn, 'w', newline='') as f:
            f.write(text)
        e = dict(os.environ)
        e.pop('VERIF_CMDLOG', None)
        e.pop('VERIF_CMD_DELAY', None)
        # bytes, decoded without newline translation: CR and CR LF must stay distinguishable from LF
        p = subprocess.run(list(cmd) + [fn], stdout=subprocess.PIPE, stderr=subprocess.PIPE, env=e, timeout=60)
        return p.returncode, p.stdout.decode('latin-1'), p.stderr.decode('latin-1')      # one character per byte: injective
    finally:
        shutil.rmtree(d, ignore_errors=True)


# ---------------------------------------------------------------------------
# history analysis


def lag_problems(ev):
    """C06: an adopted input is on disk before ddSMT goes on to the next result (the file never lags behind the adopted input)."""
    pending = hpending = None
    for e in ev:
        if not e.get('main'):
            continue
        if e['ev'] == 'ddmin_update':
            pending = e['digest']
        elif e['ev'] == 'consume' and e.get('success'):
            hpending = e['cand']
        elif e['ev'] == 'write_done':
            pending = hpending = None
        elif e['ev'] == 'redup' and hpending is not None:
            # hierarchical: the bookkeeping of an adoption (re-duplication, loop check; seconds on a large input) starts
            return [f"the input {hpending} was adopted (and announced) but the output file is rewritten only after the bookkeeping "
                    f"(an interrupt in between leaves an older input, or no file)"]
        elif e['ev'] in ('ddmin_progress', 'ddmin_task') and pending is not None and e.get('thread') == 'MainThread':
            return [f"the input {pending} was adopted but the output file had not been rewritten when ddSMT went on to the next result "
                    f"(an interrupt or a reader at that moment finds an older input, or no file)"]
    return []


def analyse(run):
    """Property-level facts of one recorded run.  Returns dict of lists of problems keyed by property id."""
    P = {k: [] for k in ('C01', 'C04', 'C05', 'C06', 'C13', 'C14', 'C15', 'C16')}
    ev = run.events
    if run.hung:
        P['C04'].append('run did not finish within the harness time limit')
        return P
    if run.rc != 0:
        P['C04'].append(f'exit status {run.rc}; stderr tail: {run.stderr[-400:]}')
    if 'Traceback' in run.stderr:
        P['C04'].append('Traceback on stderr: ' + run.stderr[run.stderr.find('Traceback'):][:600])
    writes = [e for e in ev if e['ev'] == 'write']
    checks = [e for e in ev if e['ev'] == 'check']
    accepted_before = {}
    for c in checks:
        if c['verdict'] is True:
            accepted_before.setdefault(c['digest'], c['t'])
    # C05/C01: every written content was accepted before it was written
    for w in writes:
        t = accepted_before.get(w['digest'])
        if t is None or t > w['t']:
            P['C05'].append(f"content {w['digest']} written without a preceding accepted test of the same token sequence")
            P['C01'].append(f"content {w['digest']} written to the output file although the command was never run on (and accepted) a candidate with these tokens")
    # C05: chain / no stale adoption (hierarchical): base of the adopting sweep = previous content
    parsed = [e for e in ev if e['ev'] == 'parsed']
    cur = parsed[0]['digest'] if parsed else None
    sweeps = [e for e in ev if e['ev'] in ('sweep', 'write', 'consume', 'strategy', 'strategy_end', 'ddmin_task', 'ddmin_result',
                                           'ddmin_update', 'taskgen')]
    base = None
    tasks = {}
    for e in sweeps:
        if e['ev'] == 'sweep':
            base = e['digest']
            if base != cur:
                P['C05'].append(f"sweep generated from {base} although the current input is {cur}")
        elif e['ev'] == 'consume' and e['success']:
            if base != cur:
                P['C05'].append(f"adopted a result computed against {base} while the current input is {cur} (stale)")
            cur = e['cand']
        elif e['ev'] == 'ddmin_task':
            tasks[e['id']] = e['base']
        elif e['ev'] == 'taskgen':
            tasks = {}
            if e['digest'] != cur:
                P['C05'].append(f"ddmin task generator built from {e['digest']} although the current input is {cur}")
        elif e['ev'] == 'ddmin_update':
            cur = e['digest']
        elif e['ev'] == 'write':
            if e['digest'] != cur:
                P['C05'].append(f"wrote {e['digest']} but the adopted input is {cur}")
    for e in ev:
        if e['ev'] == 'ddmin_result' and e.get('stale_base'):
            P['C05'].append(f"a ddmin worker tested task {e['id']} against an input that had already been superseded (its cached copy was not the input the task carries)")
            break
    # ddmin: adopted result must have been computed against the then-current input
    cur2 = parsed[0]['digest'] if parsed else None
    tb = {}
    results = {}
    for e in ev:
        if e['ev'] == 'taskgen':
            tb, results = {}, {}
        elif e['ev'] == 'ddmin_task':
            tb[e['id']] = e['base']
        elif e['ev'] == 'ddmin_result' and e['success']:
            results.setdefault(e['cand'], []).append(e['id'])
        elif e['ev'] == 'ddmin_update':
            ids = results.get(e['digest'], [])
            if ids and not any(tb.get(i) == cur2 for i in ids):
                P['C05'].append(f"ddmin adopted {e['digest']} computed against {[tb.get(i) for i in ids]} while the current input was {cur2} (stale)")
            cur2 = e['digest']
        elif e['ev'] == 'consume' and e['success']:
            cur2 = e['cand']
    P['C06'] += lag_problems(ev)
    # C05/C01: file left at exit is the last element
    if writes:
        if run.outtext is None:
            P['C05'].append('output file missing although contents were written')
        else:
            last_ok = [e for e in ev if e['ev'] == 'write_done']
            # compare token digests as the command sees them
            golden_v = run.cmdlog[0][1] if run.cmdlog else '1'     # first invocation = golden run
            ok_digests = set(d for d, v in run.cmdlog if v == golden_v)
            if run.cmdlog and sh_digest(run.outtext) not in ok_digests:
                P['C01'].append('token sequence of the output file is not that of any candidate the command accepted')
    else:
        if run.outtext is not None and run.rc == 0:
            P['C05'].append('output file exists although nothing was adopted')
            P['C01'].append('an output file was written although no candidate was ever accepted')
    if not run.input_unmodified:
        P['C01'].append('the input file was modified')
    # C14: every round of the ddmin main loop schedules every mutator of its pass lists: the first-stage mutators in order
    # (each repeated until it reduces nothing), then every second-stage mutator exactly once, in order
    dp = [e for e in ev if e['ev'] == 'ddmin_passes']
    if dp and len(dp[0]['stages']) == 2 and run.rc == 0:
        st0, st1 = dp[0]['stages']
        names = dict(zip(st0 + st1, dp[0]['names'][0] + dp[0]['names'][1]))
        seq = [e['mid'] for e in ev if e['ev'] == 'taskgen' and e.get('first') and e.get('mid') is not None]
        i, rnd, bad = 0, 0, None
        while i < len(seq) and bad is None:
            rnd += 1
            for m in st0:
                if i >= len(seq) or seq[i] != m:
                    bad = (rnd, m)
                    break
                while i < len(seq) and seq[i] == m:
                    i += 1
            if bad is None:
                for m in st1:
                    if i >= len(seq) or seq[i] != m:
                        bad = (rnd, m)
                        break
                    i += 1
        if bad is not None:
            P['C14'].append(f"round {bad[0]} of the ddmin main loop did not schedule the enabled mutator {names.get(bad[1], bad[1])!r} "
                            f"(mutators scheduled in that run, in order: {seq[:60]})")
    # C05: an adopted input is obtained from its predecessor by a simplification: it is never the predecessor plus a command
    wt = [e for e in ev if e['ev'] == 'write' and e.get('toks')]
    for a, b in zip(wt, wt[1:]):
        ta, tb = a['toks'], b['toks']
        if len(tb) > len(ta):
            # is ta a subsequence of tb with ONE contiguous block inserted?
            k = 0
            while k < len(ta) and ta[k] == tb[k]:
                k += 1
            extra = len(tb) - len(ta)
            if tb[k + extra:] == ta[k:] and tb[k:k + extra][:1] == ['('] and tb[k:k + extra].count('(') == tb[k:k + extra].count(')'):
                P['C05'].append(f"adopted input {b['digest']} is its predecessor plus the command {' '.join(tb[k:k + extra])[:120]!r}: nothing was simplified")
                break
    # C16: the id-based tables behind the sort inference describe the input the simplifications are generated from
    for e in ev:
        if e['ev'] == 'stale_tables':
            P['C16'].append(f"simplifications of {e['mutator']} (granularity {e['gran']}) were generated from an input {e['count']} of whose index "
                            f"numerals / declared names the tables of collect_information do not know (they describe the input before re-duplication)")
            break
    # C15: no candidate declares a symbol a second time (unless the input itself does)
    given = set(d_ for e in ev if e['ev'] == 'parsed' for d_ in e.get('dup_decl', []))
    for e in ev:
        if e['ev'] == 'check' and set(e.get('dup_decl', [])) - given:
            P['C15'].append(f"a candidate handed to the command declares {sorted(set(e['dup_decl']) - given)} twice (digest {e['digest']})")
            break
    # C13: every sweep / task generator starts from a tree
    for e in ev:
        if e['ev'] in ('producer', 'taskgen') and e.get('dup_ids'):
            P['C13'].append(f"{e['ev']} built from an input with {e['dup_ids']} duplicated node identities (digest {e['digest']})")
    return P


def writes_of(run):
    return [e['digest'] for e in run.events if e['ev'] == 'write']
