"""Writes /verif/MANIFEST.json from the table below (kept in one place so it stays valid)."""
import json
import os

V = os.path.dirname(os.path.dirname(os.path.abspath(__file__)))

CLAIMED = {
    # id: (technique, level text, level note, design ref)
}

NOT_YET = {}


def load():
    from manifest_table import CLAIMED as C, NOT_APPLICABLE as N
    return C, N


def main():
    C, N = load()
    checks = []
    for pid in sorted(C):
        tech, text, note, ref = C[pid]
        checks.append(dict(
            property_id=pid,
            quick_cmd=f'./check {pid} --quick',
            thorough_cmd=f'./check {pid} --thorough',
            evidence_file=f'/verif/evidence/{pid}.json',
            replay_cmd_template=f'./check {pid} --replay {{path}}',
            engine='coq-proof+correspondence',
            level_claimed=dict(category='proof', text=text, design_ref=ref),
            level_note=note,
            technique=tech))
    m = dict(
        version=1,
        setup_cmd='./setup.sh',
        hooks=dict(guard='DDSMT_VERIF', enable='no source hooks: checks import ddsmt from /repo and wrap module attributes from /verif/harness',
                   baseline_off_cmd='cd /repo && /venv/bin/python -m pytest -ra -q -p no:cacheprovider --timeout=900 --continue-on-collection-errors',
                   source_commits=[], add_only=True),
        engines=[dict(name='coq-proof+correspondence', path='/verif/check',
                      serves_properties=sorted(C),
                      kind_free_text='Coq 8.16.1 theorems about executable Gallina models (coq/theories), tied to /repo by '
                                     'a fail-closed ast translator (Gen/), behavioural correspondence against the OCaml-extracted '
                                     'model (ocaml/driver) and history conformance of real runs')],
        checks=checks,
        notes='See DESIGN.md. Every check rebuilds the proof closure of Props/<id>.v with make (full .vo), re-extracts the model, '
              'runs the correspondence against /repo\'s working tree and searches for a failing input when either breaks.',
        not_applicable=[dict(property_id=p, reason=r) for p, r in sorted(N.items())])
    with open(os.path.join(V, 'MANIFEST.json'), 'w') as f:
        json.dump(m, f, indent=1)
    print('wrote MANIFEST.json with', len(checks), 'checks;', len(N), 'not claimed')


if __name__ == '__main__':
    main()
