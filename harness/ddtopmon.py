"""TIE-H for Model/DdminTop.v: the control flow of strategy_ddmin.reduce / _apply_mutator of a real SEQUENTIAL ddmin run
(-j 1, or no generator on the parallel path) is replayed by the extracted model: the model runs `reduce` on tables read off
the history (num_filtered per generator, count_exprs per input, the candidate adopted at (mutator, gran, generator input,
subset, current input)); its written inputs and final input must be those of the run."""


def build(events):
    """Returns dict(arg=..., writes=[ids], final=id) or None (not a sequential ddmin history) or dict(error=...)."""
    ev = [e for e in events if e.get('main')]
    passes = [e for e in ev if e['ev'] == 'ddmin_passes']
    if not passes:
        return None
    # the ddmin phase ends where the hierarchical strategy starts (hybrid) or the run ends
    end = len(ev)
    for i, e in enumerate(ev):
        if e['ev'] in ('pass', 'sweep', 'producer'):
            end = i
            break
    ev = ev[:end]
    gens = [e for e in ev if e['ev'] == 'taskgen']
    if not gens or any(g.get('parallel') for g in gens) or any(g.get('mid') is None for g in gens):
        return None
    ids = {}

    def iid(d):
        return ids.setdefault(d, len(ids) + 1)
    nf, cx, cd = {}, {}, {}
    cur_gen, last_task, writes = None, None, []
    start = None
    for e in ev:
        if e['ev'] == 'taskgen':
            x0 = iid(e['digest'])
            if start is None:
                start = x0
            nf[(e['mid'], x0)] = e['num_filtered']
            cx[x0] = e['nexprs']
            cur_gen = (e['mid'], e['gran'], x0)
            last_task = None
        elif e['ev'] == 'ddmin_task':
            last_task = (e['id'], iid(e['base']))
        elif e['ev'] == 'ddmin_update':
            if cur_gen is None or last_task is None:
                return dict(error='adoption without a generated task')
            c = iid(e['digest'])
            cx[c] = e['nexprs']
            key = (cur_gen[0], cur_gen[1], cur_gen[2], last_task[0], last_task[1])
            if key in cd and cd[key] != c:
                return dict(error=f'two different adoptions at the same point {key}')
            cd[key] = c
            writes.append(c)
    if start is None:
        return None
    final = writes[-1] if writes else start
    st = passes[0]['stages']
    arg = [st[0], st[1], start,
           [[m, x, n] for (m, x), n in nf.items()],
           [[x, n] for x, n in cx.items()],
           [[m, g, x0, k, x, c] for (m, g, x0, k, x), c in cd.items()],
           4 * (len(writes) + 3)]
    return dict(arg=arg, writes=writes, final=final, ngens=len(gens))


def compare(res, b):
    if res == [0]:
        return ['the model runs out of fuel: more rounds than adoptions allow']
    if len(res) != 3 or res[0] != 1:
        return [f'unexpected model answer {res!r:.200}']
    out = []
    mwrites = list(reversed(res[2]))
    if mwrites != b['writes']:
        out.append(f"inputs written by the run {b['writes']} vs by the model's reduce {mwrites} (numbers stand for distinct token sequences)")
    if res[1] != b['final']:
        out.append(f"final input of the ddmin phase {b['final']} vs model {res[1]}")
    return out
