"""TIE-C for Model/SmtlibRw.v: CheckSatAssuming, RemoveAnnotation, RemoveRecursiveFunction, SimplifyLogic,
SimplifyQuotedSymbols (local mutations) and BoolNegateQuantifier, compared with filter + mutations of the implementation
on every node of the given texts, of targeted well-formed and malformed texts and of nodes no reader produces."""
import itertools

import common
from common import w_shape, w_shapes

LOGIC_PARTS = ['QF_', 'A', 'UF', 'BV', 'FP', 'S', 'T', 'DT', 'NRA', 'LRA', 'NIA', 'LIA', 'NIRA', 'LIRA', 'IDL', 'RDL', 'X', 'N', 'L', 'I', 'R']

TARGETED = [
    # check-sat-assuming
    '(declare-const a Bool)(declare-const b Bool)(check-sat-assuming (a (not b)))(check-sat-assuming ())(check-sat)',
    '(check-sat-assuming (a) extra)(check-sat-assuming a)',
    # push / pop pairs
    '(push 1)(declare-const x Int)(assert (> x 0))(check-sat)(pop 1)(push)(pop)(push 2)(push 1)(pop 3)',
    # annotations
    '(declare-const p Bool)(assert (! p :named n1))(assert (! (and p (! (not p) :named n2)) :named n3 :pattern ((f x))))',
    '(assert (forall ((x Int)) (! (> x 0) :pattern ((g x)) :qid q1)))(assert (! (! p :named a) :named b))',
    # define-funs-rec
    '(define-funs-rec ((f ((x Int)) Int) (g ((y Int)) Int) (h () Bool)) ((g x) (f y) true))',
    '(define-funs-rec ((f ((x Int)) Int)) ((+ x 1)))(define-funs-rec () ())',
    '(define-funs-rec ((f ((x Int)) Int) (g ((y Int) (z Int)) Int)) ((ite (> x 0) (g x x) 0) (f (- y z))))(assert (= (f 1) (g 2 3)))',
    # logics
    '(set-logic QF_BV)', '(set-logic QF_UFBV)', '(set-logic ALL)', '(set-logic QF_AUFBVFPDTNIRA)', '(set-logic UFNIA)', '(set-logic QF_NRA)',
    '(set-logic QF_LIRA)', '(set-logic QF_S)', '(set-logic QF_SLIA)', '(set-logic BV)', '(set-logic S)', '(set-logic T)', '(set-logic QF_UFLRAT)',
    '(set-logic QF_ABVFPLRA)', '(set-logic HORN)', '(set-logic QF_UF)', '(set-logic UF)', '(set-logic QF_UFIDL)', '(set-logic AUFLIRA)',
    '(set-logic AUFNIRA)', '(set-logic QF_ANIA)', '(set-logic QF_FPLRA)', '(set-logic LRA)', '(set-logic NRA)', '(set-logic NIRA)',
    '(set-logic LIALIA)', '(set-logic NNIA)', '(set-logic NIANIA)', '(set-logic BVBV)', '(set-logic BBVV)', '(set-logic SS)', '(set-logic NLIRA)',
    '(set-logic LLIRARA)', '(set-logic NNIRAIRA)', '(set-logic UUFF)', '(set-logic FFPP)', '(set-logic TS)', '(set-logic ST)', '(set-logic NIRNIRA)',
    # quoted symbols
    '(declare-const |abc| Int)(declare-const |a b| Int)(declare-const |x+y| Int)(declare-const |12| Int)(declare-const |let| Int)'
    '(assert (= |abc| |a b| |x+y| |12| |let|))',
    '(declare-const |a#b| Int)(declare-const |a\\b| Int)(declare-const |a"b| Int)(declare-const |a;b| Int)(declare-const |a(b| Int)'
    '(declare-const |~!@$%^&*_+=<>.?/-| Int)(declare-const |a,b| Int)(declare-const |a:b| Int)(declare-const |a\'b| Int)(declare-const |[a]| Int)',
    '(declare-const |true| Bool)(declare-const |_| Int)(declare-const |!| Int)(declare-const |#b01| Int)(declare-const |"s"| Int)(declare-const |:kw| Int)'
    '(declare-const |1.5| Real)(declare-const |-| Int)(declare-const |a\nb| Int)(declare-const |é| Int)(declare-const |aé| Int)(declare-const |A0z9| Int)',
    # negated quantifiers
    '(assert (not (forall ((x Int)) (> x 0))))(assert (not (exists ((x Int) (y Int)) (= x y))))',
    '(assert (not (forall ((x Int)) (not (exists ((y Int)) (not (forall ((z Int)) (= x y z))))))))',
    '(assert (not (forall ((x Int)) (! (> x 0) :pattern ((f x))))))(assert (not (not (forall ((x Int)) x))))',
]

MALFORMED = [
    '(check-sat-assuming)', '((check-sat-assuming))', '(check-sat-assuming check-sat-assuming)', 'check-sat-assuming', '((check-sat-assuming) a)',
    '(check-sat-assumin a)', '(check-sat-assumingx a)', '(Check-sat-assuming a)', '(|check-sat-assuming| a)', '(check-sat-assuming (check-sat-assuming (a)))',
    '(push)(pop)', '(push push)', '(push 1 2)', '(pop (1))', '((push 1))', 'push pop', '(push 1)(push 1)(pop 1)', '(pop 1)(push 1)', '(push x)(pop y)', '(push -1)(pop 0)',
    '(!)', '(! a)', '(! a b)', '(! (! a))', '(! (!))', '(! :named n)', '(! a :named n :named m)', '((!) a)', '(! ())', '(! (a b) :named)', '!', '(a ! b)', '(!! a)',
    '(! ! !)', '(assert (! (! (!) :named a) :named b))',
    '(define-funs-rec)', '(define-funs-rec ())', '(define-funs-rec () ())', '(define-funs-rec () () ())', '(define-funs-rec a b)', '(define-funs-rec a ())',
    '(define-funs-rec () b)', '(define-funs-rec (a) b)', '(define-funs-rec a (b))', '(define-funs-rec (a) (b))', '(define-funs-rec (a b) (c))', '(define-funs-rec (a) (b c))',
    '(define-funs-rec (a b c) (d e f))', '(define-funs-rec (a a a) (a a a))', '(define-funs-rec ((f) (f)) ((f) (f)))', '(define-funs-rec (() ()) (() ()))',
    '(define-funs-rec ((f ()  Int)) (1) extra)', '(define-funs-rec ((f () Int) (g () Int)) (1 2) (3 4))', '((define-funs-rec) (a) (b))', 'define-funs-rec',
    '(define-funs-rec (define-funs-rec (a) (b)) (c))', '(define-funs-rec ((define-funs-rec (a) (b))) ((define-funs-rec (c d) (e f))))', '(define-fun-rec (a) (b))',
    '(define-funs-rec "a" "b")', '(define-funs-rec |a| (b))', '(define-funs-rec (a b) c)',
    '(set-logic)', '(set-logic ())', '(set-logic (QF_BV))', '(set-logic QF_BV QF_UF)', '(set-logic QF_BV ())', '(set-logic () QF_BV)', '((set-logic) QF_BV)', 'set-logic',
    '(set-logic set-logic)', '(set-logic |QF_BV|)', '(set-logic "QF_BV")', '(set-logic "BV")', '(set-logic |S|)', '(set-logic |T T|)', '(set-logic "S""T")', '(set-logic ;BV\n QF_BV)',
    '(set-logic ;NIRA LIA S\n)', '(set-logic qf_bv)', '(set-logic B)', '(set-logic V)', '(set-logic bv)', '(set-logic (set-logic BV))', '(set-logics BV)', '(set-logic 5)',
    '(set-logic :BV)', '(set-logic #bBV)', '(set-logic BVéS)', '(set-logic (BV) BV)',
    '(|| a)', '(| a)', '| |', '||', '|', '(a |)', '(|a| |a|| |a||b|)', '|a||', '||a|', '(|abc |)', '(| abc|)', '(|a\tb|)', '(|a\rb|)', '|abc', 'abc|', '(f |x| "|x|" ;|x|\n |y|)',
    '(not)', '(not forall)', '(not (forall))', '(not (forall x))', '(not (forall x y))', '(not (forall x y z))', '(not (exists))', '(not (exists ()))', '(not (exists () ()))',
    '(not (exists () () ()))', '(not (forall ((x Int)) x) extra)', '(not (forall ((x Int)) x extra) extra)', '(not ((forall) x y))', '(not (exist x y))', '(not (foralls x y))',
    '((not) (forall x y))', '(not not (forall x y))', '(not (not (forall x y)))', '(not (|forall| x y))', '(not (forall (forall a b) (exists c d)))',
    '(not (exists (not (exists a b)) (not (forall c))))', '(Not (forall x y))', '(not (Forall x y))', 'not', '(not (lambda x y))', '(not (forall forall forall))',
    '(not (exists exists))', '(not ())', '(not (()))', '(not (() x y))',
]

# nodes that the reader does not produce (empty leaves, bars inside a leaf, white space in atoms ...)
SHAPES = [
    '', ('',), ('', ''), '|', '||', '|||', '||||', '|a|b|', '|a|b c|', '|a||', '||a|', '|a|\n', '|a\n|', '|a|x', 'x|a|', '|a b|', '| |', '|a', 'a|', '|a|b', '|ab|cd|ef|',
    '|aé|', '|é|b|', '|-|', '|/|', '|]|', '|[|', '|\\|', '|a|(|',
    ('set-logic', ''), ('set-logic', 'B V'), ('set-logic', 'BV\n'), ('set-logic', '|BV'), ('set-logic', 'S'), ('set-logic', 'ST'), ('set-logic', 'NIRALIRA'),
    ('set-logic', ('',)), ('', 'BV'), ('set-logic ', 'BV'), ('set-logic', 'LIALRA', ''),
    ('!', ''), ('!', ('',)), ('', 'a'), ('! ', 'a'),
    ('check-sat-assuming', ''), ('check-sat-assuming ',), ('',),
    ('define-funs-rec', '', ''), ('define-funs-rec', ('',), ('',)), ('define-funs-rec', ('', 'a'), ('b', '')), ('define-funs-rec', (), ''), ('define-funs-rec', '', ()),
    ('not', ('forall', '', '')), ('not', ('exists', ('',), ('',))), ('not', ('', 'x', 'y')), ('not', ''), ('not ', ('forall', 'x', 'y')),
]


def logic_texts(rng, n):
    out = []
    for a, b in itertools.product(LOGIC_PARTS, repeat=2):
        out.append(f'(set-logic {a}{b})')
    for _ in range(n):
        k = rng.randint(1, 6)
        out.append('(set-logic ' + ''.join(rng.choice(LOGIC_PARTS) for _ in range(k)) + ')')
    for _ in range(n // 2):
        k = rng.randint(1, 9)
        out.append('(set-logic ' + ''.join(rng.choice('BVFPUSTNLIRA_Qx') for _ in range(k)) + ')')
    return out


def quoted_texts(rng, n):
    alphabet = 'abzAZ09~!@$%^&*_+=<>.?/-' + ' #,:[]{}\\\'`\n\té'
    out = []
    for _ in range(n):
        k = rng.randint(0, 5)
        body = ''.join(rng.choice(alphabet) for _ in range(k))
        out.append(f'(declare-const |{body}| Int)')
    return out


POOL = ['check-sat-assuming', '!', 'define-funs-rec', 'set-logic', 'not', 'forall', 'exists', 'QF_UFBV', 'NIRA', '|ab|', '|a b|', 'x', ':named', (), ('x',),
        ('forall', ('x', 'Int'), 'x'), ('exists', (), 'y'), ('not', 'x'), ('!', 'x', ':named', 'n'), ('a', 'b'), ('c', 'd')]


def fuzz(rng, sh, depth=0):
    """a random edit of a shape: children deleted, duplicated, replaced, wrapped, swapped"""
    if isinstance(sh, str):
        return rng.choice(POOL) if rng.random() < 0.15 else sh
    ch = [fuzz(rng, c, depth + 1) if rng.random() < 0.5 else c for c in sh]
    r = rng.random()
    if r < 0.15 and ch:
        del ch[rng.randrange(len(ch))]
    elif r < 0.3 and ch:
        i = rng.randrange(len(ch))
        ch.insert(i, ch[i])
    elif r < 0.45:
        ch.insert(rng.randint(0, len(ch)), rng.choice(POOL))
    elif r < 0.55 and ch:
        ch[rng.randrange(len(ch))] = rng.choice(POOL)
    elif r < 0.6:
        return (tuple(ch),)
    elif r < 0.65 and len(ch) > 1:
        i, j = rng.randrange(len(ch)), rng.randrange(len(ch))
        ch[i], ch[j] = ch[j], ch[i]
    return tuple(ch)


def run(ctx, impl, model, rng, texts, nlogic=300, nquoted=300, nfuzz=600):
    from ddsmt import mutators_smtlib, mutators_boolean
    nodes = impl.nodes
    M = {100: ('CheckSatAssuming', mutators_smtlib.CheckSatAssuming()), 102: ('RemoveAnnotation', mutators_smtlib.RemoveAnnotation()),
         103: ('RemoveRecursiveFunction', mutators_smtlib.RemoveRecursiveFunction()), 104: ('SimplifyLogic', mutators_smtlib.SimplifyLogic()),
         105: ('SimplifyQuotedSymbols', mutators_smtlib.SimplifyQuotedSymbols()), 106: ('BoolNegateQuantifier', mutators_boolean.BoolNegateQuantifier())}
    calls, meta = [], []

    def props(m, node):
        if not m.filter(node):
            return []
        return [sp.substs[node.id] for sp in list(m.mutations(node))]

    def removed(m, node):
        """mutations that map descendants to None: the resulting node"""
        if not m.filter(node):
            return []
        return [nodes.substitute(node, dict(sp.substs)) for sp in list(m.mutations(node))]

    def add(code, node):
        what, m = M[code]
        try:
            with common.time_limit(5):
                res = removed(m, node) if code == 103 else props(m, node)
                got = [1, w_shapes([impl.to_shape(x) for x in res])]
        except Exception:  # noqa
            got = [0]        # the model says None = raises (which exception is not modelled)
        calls.append((code, [w_shape(impl.to_shape(node))]))
        meta.append((what, repr(impl.to_shape(node))[:200], got))

    def all_nodes():
        for text in list(texts) + TARGETED + MALFORMED + logic_texts(rng, nlogic) + quoted_texts(rng, nquoted):
            yield from nodes.dfs(impl.parse(text))
        for sh in SHAPES:
            yield from nodes.dfs([impl.from_shape(sh)])
        seeds = [sh for text in TARGETED + MALFORMED for sh in impl.parse_shapes(text) if not isinstance(sh, str)]
        for _ in range(nfuzz):
            yield from nodes.dfs([impl.from_shape(fuzz(rng, rng.choice(seeds)))])

    for node in all_nodes():
        distinct = len(set(n.id for n in nodes.dfs(node))) == sum(1 for _ in nodes.dfs(node))
        for code in M:
            if code == 103 and not distinct:      # substitution by id: the model does not know node identities
                continue
            add(code, node)
    res = model.batch(calls)
    for (what, node, want), got in zip(meta, res):
        ctx.count('smtlib-rewrite model comparisons')
        ctx.count(f'{what}: ' + ('raises' if want == [0] else 'proposes' if want[1] else 'nothing'))
        if got != want:
            ctx.disagree(f'mutations of {what} vs Model/SmtlibRw.v', input=node, impl=repr(want)[:400], model=repr(got)[:400])
    return len(calls)
